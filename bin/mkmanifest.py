#!/usr/bin/env python3
"""Writes MANIFEST.json from bin/props.py (claimed properties) and the table below."""
import json, os, sys
sys.path.insert(0, os.path.dirname(os.path.abspath(__file__)))
from props import PROPS, MANIFEST_TEXT, NOT_APPLICABLE

V = os.path.dirname(os.path.dirname(os.path.abspath(__file__)))
hooks = json.load(open(os.path.join(V, "hooks.json")))
checks = []
for pid in sorted(PROPS):
    t = MANIFEST_TEXT[pid]
    checks.append({
        "property_id": pid,
        "quick_cmd": f"python3 bin/check {pid} quick",
        "thorough_cmd": f"python3 bin/check {pid} thorough",
        "evidence_file": f"/verif/evidence/{pid}.json",
        "replay_cmd_template": "python3 bin/check replay {path}",
        "engine": "lean4-proof+correspondence",
        "level_claimed": {"category": "proof", "text": t["text"], "design_ref": t["design_ref"]},
        "level_note": t["note"],
        "technique": t["technique"],
    })
m = {
    "version": 1,
    "setup_cmd": "sh bin/setup",
    "hooks": hooks,
    "engines": [{
        "name": "lean4-proof+correspondence", "path": "/verif/bin/check",
        "serves_properties": sorted(PROPS),
        "kind_free_text": "Lean 4 theorems about executable models (lean/RR), tied to /repo by a translator "
                          "(tools/extract.py -> lean/RR/Gen) and by a differential correspondence check "
                          "(harness/ runs the real code; lean/Driver.lean runs the model on the same requests)",
    }],
    "checks": checks,
    "not_applicable": [{"property_id": k, "reason": v} for k, v in sorted(NOT_APPLICABLE.items())],
    "notes": "See DESIGN.md. Known findings: KNOWN_FINDINGS.txt. Seeded regressions: seeded/.",
}
json.dump(m, open(os.path.join(V, "MANIFEST.json"), "w"), indent=1)
print("wrote MANIFEST.json with", len(checks), "checks")
