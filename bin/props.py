"""Per-property configuration for bin/check."""

GLOBAL_TB = [
    "Lean 4.33 kernel (leanchecker re-check in thorough tier)",
    "axioms: propext, Classical.choice, Quot.sound only (audited by #print axioms on every property theorem)",
    "Lean compiler/runtime for the model driver rrdriver (produces expected outputs only; no proof depends on it)",
    "bin/check, tools/extract.py, the Rust harness rrh and its generators",
    "rustc/cargo; harness built in release profile with overflow-checks on, debug-assertions off",
]

PROPS = {
    "C01": {
        "required_theorems": ["c01_refines_fifo", "c01_read_plus_write", "c01_overcommit_refused",
                              "c01_overconsume_refused", "c01_elem_size", "c01_bad_elem_size_refused"],
        "runs": [
            {"sub": "ring", "quick": ["--seed", "{seed}", "--cases", 3000, "--max-ops", 40],
             "thorough": ["--seed", "{seed}", "--cases", 200000, "--max-ops", 60]},
        ],
        "rule": "random op programs (write k/commit n<=k with tags, over-commit, read, consume incl. 0/all/too many, free) "
                "on real streams of u8,u16,u32,u64,Complex,[u8;16] x 1-4 pages, pre-advanced to within 6 cells of the wrap "
                "point in 2/3 of the programs; plus Buffer::new admission grid. distinct = distinct request line.",
        "trusted_base": GLOBAL_TB + [
            "modelled, not verified: window index i of a window starting at s is cell (s+i) % cap (the mmap double mapping; C18)",
            "Vec::sort_by_key is a stable sort (modelled as a bucket sort over positions < cap)",
            "BTreeMap<TagPos, Vec<Tag>> modelled as a function cell -> list",
            "a panic inside produce/consume poisons the mutex: modelled as 'stream dead' (run ends)",
        ],
        "assumptions": ["T: Copy plain-old-data", "single thread (concurrency is C03)"],
    },
    "C02": {
        "required_theorems": ["c02_tags_refine", "c02_consume_drops_exactly", "c02_consume_zero",
                              "c02_filter_redundant", "c02_commit_places_tags"],
        "runs": [
            {"sub": "ring", "quick": ["--seed", "{seed}", "--cases", 3000, "--max-ops", 40, "--tag-heavy", 1],
             "thorough": ["--seed", "{seed}", "--cases", 200000, "--max-ops", 60, "--tag-heavy", 1]},
        ],
        "rule": "as C01 with 0..5 tags per commit clustered on the first/last sample of the commit, commits straddling the "
                "wrap point, partial consumes, consume(0), full consumes. distinct = distinct request line.",
        "trusted_base": GLOBAL_TB + [
            "modelled, not verified: the mmap double mapping (C18); Vec::sort_by_key stable; BTreeMap as a function",
            "contract hypothesis of the property made explicit: every tag position is < n (committed together with a sample)",
        ],
        "assumptions": ["tag keys/values are opaque (never inspected by the stream): modelled as naturals"],
    },
}

MANIFEST_TEXT = {
    "C01": {
        "text": "Lean 4 theorem c01_refines_fifo: for every capacity and every finite sequence of stream operations the "
                "model of BufferState/produce/consume/read_buf/write_buf shows exactly what a FIFO specification shows "
                "(values, order, refusals), by induction over the operation list with a simulation relation - no bound on "
                "sizes or steps; plus readable+writable=capacity in every reachable state and the sample-size admission "
                "theorems. The hand-written model is tied to the code by differential runs of random operation programs on "
                "real streams (6 element types, 1-4 pages, forced wrap offsets).",
        "design_ref": "DESIGN.md section 2, C01",
        "note": "Trusted: Lean kernel + 3 standard axioms; the harness and driver; the double mapping is modelled as index modulo "
                "capacity (C18); stable sort and BTreeMap modelled as described in evidence.trusted_base.",
        "technique": "Lean 4 refinement proof (ring model simulates FIFO spec) + differential correspondence check",
    },
    "C02": {
        "text": "Lean 4 theorems c02_tags_refine / c02_consume_drops_exactly / c02_consume_zero / c02_filter_redundant: in every "
                "reachable state the tags reported by a read window are exactly the tags living on the queued samples of the "
                "FIFO spec (window-relative position, key, value, commit order), consume(m) drops exactly the first m samples' "
                "tags, consume(0) is the identity; proved for all op sequences by the same simulation as C01. Tied to the code "
                "by tag-heavy differential runs.",
        "design_ref": "DESIGN.md section 2, C02",
        "note": "Trusted as C01. Tag keys/values are opaque naturals in the model. The property's premise 'committed together with a "
                "sample' is the explicit hypothesis tag.pos < n.",
        "technique": "Lean 4 refinement proof (tags live on FIFO elements) + differential correspondence check",
    },
}

NOT_APPLICABLE = {}
for _p in ["C03", "C04", "C05", "C06", "C07", "C08", "C09", "C10", "C11", "C12", "C13", "C14", "C15", "C16", "C17",
           "C18", "C19", "C20"]:
    if _p not in PROPS:
        NOT_APPLICABLE[_p] = "not claimed yet: its model/theorems/correspondence are still being built (see DESIGN.md order of work); the technique applies"
