"""Per-property configuration for bin/check."""

GLOBAL_TB = [
    "Lean 4.33 kernel (leanchecker re-check in thorough tier)",
    "axioms: propext, Classical.choice, Quot.sound only (audited by #print axioms on every property theorem)",
    "Lean compiler/runtime for the model driver rrdriver (produces expected outputs only; no proof depends on it)",
    "bin/check, tools/extract.py, the Rust harness rrh and its generators",
    "rustc/cargo; harness built in release profile with overflow-checks on, debug-assertions off",
]

PROPS = {
    "C01": {
        "required_theorems": ["c01_refines_fifo", "c01_read_plus_write", "c01_overcommit_refused",
                              "c01_overconsume_refused", "c01_elem_size", "c01_bad_elem_size_refused"],
        "runs": [
            {"sub": "ring", "quick": ["--seed", "{seed}", "--cases", 3000, "--max-ops", 40],
             "thorough": ["--seed", "{seed}", "--cases", 200000, "--max-ops", 60]},
        ],
        "rule": "random op programs (write k/commit n<=k with tags, over-commit, read, consume incl. 0/all/too many, free) "
                "on real streams of u8,u16,u32,u64,Complex,[u8;16] x 1-4 pages, pre-advanced to within 6 cells of the wrap "
                "point in 2/3 of the programs; plus Buffer::new admission grid. distinct = distinct request line.",
        "trusted_base": GLOBAL_TB + [
            "modelled, not verified: window index i of a window starting at s is cell (s+i) % cap (the mmap double mapping; C18)",
            "Vec::sort_by_key is a stable sort (modelled as a bucket sort over positions < cap)",
            "BTreeMap<TagPos, Vec<Tag>> modelled as a function cell -> list",
            "a panic inside produce/consume poisons the mutex: modelled as 'stream dead' (run ends)",
        ],
        "assumptions": ["T: Copy plain-old-data", "single thread (concurrency is C03)"],
    },
    "C02": {
        "required_theorems": ["c02_tags_refine", "c02_consume_drops_exactly", "c02_consume_zero",
                              "c02_filter_redundant", "c02_commit_places_tags"],
        "runs": [
            {"sub": "ring", "quick": ["--seed", "{seed}", "--cases", 3000, "--max-ops", 40, "--tag-heavy", 1],
             "thorough": ["--seed", "{seed}", "--cases", 200000, "--max-ops", 60, "--tag-heavy", 1]},
            # two free-running threads, every commit tagged: each tag must reach the reader exactly once, on its sample
            {"sub": "conc", "quick": ["--seed", "{seed}", "--cases", 0, "--stress", 0, "--tag-stress", 6, "--tag-stress-total", 400000],
             "thorough": ["--seed", "{seed}", "--cases", 0, "--stress", 0, "--tag-stress", 60, "--tag-stress-total", 3000000]},
        ],
        "rule": "as C01 with 0..5 tags per commit clustered on the first/last sample of the commit, commits straddling the "
                "wrap point, partial consumes, consume(0), full consumes. distinct = distinct request line.",
        "trusted_base": GLOBAL_TB + [
            "modelled, not verified: the mmap double mapping (C18); Vec::sort_by_key stable; BTreeMap as a function",
            "contract hypothesis of the property made explicit: every tag position is < n (committed together with a sample)",
        ],
        "assumptions": ["tag keys/values are opaque (never inspected by the stream): modelled as naturals"],
    },
    "C03": {
        "required_theorems": ["c03_invariant", "c03_windows_disjoint", "c03_reader_sees_committed",
                              "c03_consumed_prefix", "c03_bookkeeping_atomic", "c03_ceiling_never_fires",
                              "c03_sections_as_modelled"],
        "runs": [
            {"sub": "conc", "quick": ["--seed", "{seed}", "--cases", 2000, "--max-steps", 60, "--stress", 4,
                                      "--stress-total", 200000, "--tag-stress", 3, "--tag-stress-total", 300000],
             "thorough": ["--seed", "{seed}", "--cases", 100000, "--max-steps", 120, "--stress", 40,
                          "--stress-total", 2000000, "--tag-stress", 30, "--tag-stress-total", 3000000]},
        ],
        "rule": "random interleavings of producer steps (acquire, store cell i, commit n) and consumer steps (acquire, load "
                "cell j, consume m) with both windows held across the other side's steps, pre-advanced to the wrap point; "
                "every load compared with the Lean model; plus free-running two-thread stress runs (self-checking).",
        "trusted_base": GLOBAL_TB + [
            "modelled, not verified: each mutex critical section is one atomic step (boundaries read from the source); "
            "sequential consistency of those steps; Mutex acquire/release publishes cell writes before the commit is seen "
            "(hardware/compiler memory model is outside the model: PARTIAL)",
            "protocol hypothesis: each side has at most one live window and does not use it after commit/consume",
        ],
        "assumptions": ["one producer thread, one consumer thread"],
    },
    "C04": {
        "required_theorems": ["c04_reader_wait_sound", "c04_reader_eof_sound", "c04_nc_wait_sound", "c04_nc_eof_sound",
                              "c04_writer_wait_sound", "c04_no_discard", "c04_arrives", "c04_exact_after_close"],
        "runs": [
            {"sub": "waits", "quick": ["--seed", "{seed}", "--races", 6],
             "thorough": ["--seed", "{seed}", "--races", 200], "timeout": 6000},
            # the runner must hand the verdict's amount to wait(): scripted blocks on the real MTGraph
            {"sub": "sched", "quick": ["--seed", "{seed}", "--what", "mt", "--mt-cases", 300],
             "thorough": ["--seed", "{seed}", "--what", "mt", "--mt-cases", 20000], "timeout": 20000},
            # which stream a generated multi-input block names when it waits (a wait on the wrong stream never ends)
            {"sub": "blocks", "quick": ["--seed", "{seed}", "--set", "arity", "--cases", 300, "--steps", 40, "--eof-probes", 1],
             "thorough": ["--seed", "{seed}", "--set", "arity", "--cases", 10000, "--steps", 60, "--eof-probes", 1]},
        ],
        "rule": "sequential grid (amount x need x peer alive) of every decision function against the Lean model run on the "
                "GENERATED read order; deterministic replays on real threads (verif::point hook) of the witness schedule "
                "'decider stopped between its reads; peer commits its last data and goes away' for each decision function, "
                "plus arrival checks. distinct = distinct request.",
        "trusted_base": GLOBAL_TB + [
            "tools/extract.py reads the order of the amount read and the liveness read from src/stream.rs as textual order "
            "inside each function body (straight-line code assumed); lean/RR/Gen/Waits.lean is regenerated on every run",
            "modelled, not verified: Arc::strong_count == 1 means 'the peer handle is gone' and never becomes false again; "
            "the amount is read under the lock",
            "PARTIAL: that a wait call completes (OS scheduling, the 100 ms timeout) is assumed",
        ],
        "assumptions": [],
    },
    "C05": {
        "required_theorems": ["c05_result", "c05_exit_reasons", "c05_thread_terminates", "c05_add_order_irrelevant",
                              "c05_exit_lossless_wait", "c05_block_invariant", "c05_every_schedule_invariant",
                              "c05_every_schedule_result", "c05_step_exists", "c05_retire_all_is_reference", "c05_unsound_retire_loses"],
        "runs": [
            # FftFilterFloat around the exact engine against the wrapper model, eof() answers included: both output streams
            # left full, the input ends, the backlog is taken at once - input lengths swept over every alignment of
            # "exactly one batch still unfiltered inside" (the boundary of its eof())
            {"sub": "blocks", "quick": ["--seed", "{seed}", "--set", "none", "--cases", 0, "--fftfx-probes", 1],
             "thorough": ["--seed", "{seed}", "--set", "none", "--cases", 0, "--fftfx-probes", 1]},
            # hypothesis of the runner theorems: every library block is a chunk-independent stream function with truthful
            # verdicts (checked on the real blocks: drip-fed vs greedy, verdict acceptor, eof()/constructor probes)
            {"sub": "blocks", "quick": ["--seed", "{seed}", "--mode", "self", "--set", "every", "--cases", 900, "--steps", 40,
                                        "--fit-probes", 1, "--eof-probes", 1, "--tight-probes", 34],
             "thorough": ["--seed", "{seed}", "--mode", "self", "--set", "every", "--cases", 20000, "--steps", 60,
                          "--fit-probes", 1, "--eof-probes", 1, "--tight-probes", 1700], "timeout": 20000},
            {"sub": "sched", "quick": ["--seed", "{seed}", "--what", "mt", "--mt-cases", 400],
             "thorough": ["--seed", "{seed}", "--what", "mt", "--mt-cases", 40000], "timeout": 20000},
            {"sub": "graphs", "quick": ["--seed", "{seed}", "--runner", "mt", "--cases", 50, "--configs", 3],
             "thorough": ["--seed", "{seed}", "--runner", "mt", "--cases", 600, "--configs", 5], "timeout": 40000},
        ],
        "rule": "generated graphs over the block library (1-2 vector sources of u8/u32/f32/complex, lengths 0..3 capacities, "
                "repeat 1-2; up to 6 stages from 30 block kinds incl. rate changers, filters, tee/merge diamonds, packet "
                "stages HdlcDeframer/VecToStream) run on the real MTGraph with stream sizes {1,2,4 pages, 4 MB} and add order "
                "{creation, reversed, random}; every sink must equal a sequential reference execution of the same blocks (one "
                "block at a time in creation order, large streams); a run that does not return in 30 s is a hang. Plus scripted "
                "blocks: per-thread call counts and results vs the Lean thread-loop model. distinct = distinct request.",
        "trusted_base": GLOBAL_TB + [
            "the reference execution uses the real blocks (sequentially, one at a time): a defect common to all schedules of a "
            "block is C08/C10's job, not visible here",
            "PARTIAL: OS scheduling fairness; bounded-buffer deadlock of reconvergent paths whose skew exceeds the stream capacity "
            "is excluded by the generator (diamond branches are rate-1 with skew <= 20 samples)",
            "the runner retires a block when its eof() answers true after a wait verdict: the theorems take the blocks' eof() "
            "to be sound (nothing left to deliver); that contract is checked per block by the !eofsound lines of the drip-feed "
            "harness (C08/C09/C12/C20 runs) and proved for the macro-derived eof() of the sync family and for FftFilterFloat "
            "(c09_fft_float_eof_sound) - the one block that violated it lost the tail of a stream for some thread timings",
        ],
        "assumptions": ["blocks are deterministic; sources are finite"],
    },
    "C06": {
        "required_theorems": ["c06_exit_quiescent", "c06_quiet_pass_calls", "c06_progress_continues",
                              "c06_quiescent_is_fixpoint", "c06_terminates", "c06_every_schedule_result", "c06_retire_all_is_reference", "c06_unsound_retire_loses"],
        "runs": [
            # hypothesis of the runner theorems: every library block is a chunk-independent stream function with truthful
            # verdicts (checked on the real blocks: drip-fed vs greedy, verdict acceptor, eof()/constructor probes)
            {"sub": "blocks", "quick": ["--seed", "{seed}", "--mode", "self", "--set", "every", "--cases", 900, "--steps", 40,
                                        "--fit-probes", 1, "--eof-probes", 1, "--tight-probes", 34],
             "thorough": ["--seed", "{seed}", "--mode", "self", "--set", "every", "--cases", 20000, "--steps", 60,
                          "--fit-probes", 1, "--eof-probes", 1, "--tight-probes", 1700], "timeout": 20000},
            {"sub": "sched", "quick": ["--seed", "{seed}", "--what", "st", "--cases", 4000],
             "thorough": ["--seed", "{seed}", "--what", "st", "--cases", 400000]},
            {"sub": "graphs", "quick": ["--seed", "{seed}", "--runner", "st", "--cases", 60, "--configs", 3],
             "thorough": ["--seed", "{seed}", "--runner", "st", "--cases", 4000, "--configs", 6], "timeout": 40000},
        ],
        "rule": "random scripted blocks (1-5 blocks, scripts of 0-8 calls over Again/Pending/WaitForFunc/WaitForStream"
                "(closed?)/EOF/Err, each call optionally moving a sample through a private real stream, optional "
                "cancellation during the c-th call) run on the real Graph::run; the exact call log and result are compared "
                "with the Lean model stRun. distinct = distinct script set.",
        "trusted_base": GLOBAL_TB + [
            "modelled, not verified: the stream activity counter is thread-local and ticks exactly when samples/packets are "
            "committed or consumed (checked by the scripted correspondence: calls flagged 'm' move one real sample)",
            "the abstract fixpoint theorem assumes the block contract 'a quiet call changes nothing' (C09)",
        ],
        "assumptions": ["blocks are deterministic functions of their state and their streams"],
    },
    "C07": {
        "required_theorems": ["c07_cancel_st", "c07_cancel_mt", "c07_error_st", "c07_error_mt_thread", "c07_error_mt"],
        "runs": [
            {"sub": "sched", "quick": ["--seed", "{seed}", "--cases", 1500, "--mt-cases", 300, "--cancels", 60],
             "thorough": ["--seed", "{seed}", "--cases", 100000, "--mt-cases", 20000, "--cancels", 3000],
             "timeout": 20000},
        ],
        "rule": "scripted blocks on the real Graph and MTGraph: a failing block at every position and call index (random), "
                "several failing blocks at once, cancellation from inside a call and from another thread after a random "
                "delay, infinite sources; call logs / per-thread call counts / results compared with the Lean models; bounds "
                "on calls begun after cancellation and 'all block threads finished' are self-checking lines.",
        "trusted_base": GLOBAL_TB + [
            "modelled, not verified: std::thread spawn/join, AtomicBool token; a block thread's loop is modelled per thread",
            "PARTIAL: wall-clock bounds (100 ms waits, OS scheduling) are assumed",
        ],
        "assumptions": [],
    },
    "C19": {
        "required_theorems": ["c19_steps", "c19_steps_bounded", "c19_wait_input", "c19_wait_output", "c19_eof",
                              "c19_chunk_independent"],
        "runs": [
            {"sub": "blocks", "quick": ["--seed", "{seed}", "--set", "arity", "--cases", 600, "--steps", 40, "--tag-heavy", 1,
                                        "--eof-probes", 1],
             "thorough": ["--seed", "{seed}", "--set", "arity", "--cases", 30000, "--steps", 60, "--tag-heavy", 1,
                          "--eof-probes", 1]},
        ],
        "rule": "harness-defined derive blocks (compiled against the real macro): sync with 1..3 inputs x 1..3 outputs "
                "(output j = sum of inputs + j, so wiring order is visible), sync_tag 1x1 and 2x2 with default and into "
                "fields; drip-feed schedules (feed 1..k, drain 0..j, output full, bursts), input streams pre-advanced to "
                "random wrap offsets, tags clustered on first/last samples; verdict + consumed + produced of every call and the "
                "cumulative outputs/tags compared with the Lean model. distinct = distinct request.",
        "trusted_base": GLOBAL_TB + [
            "the proc-macro itself is tied by behaviour of compiled blocks (no cargo expand offline); the model mirrors the "
            "quoted work() in rustradio_macros/src/lib.rs",
            "streams are FIFOs with capacity (C01/C02)",
        ],
        "assumptions": [],
    },
    "C08": {
        "required_theorems": ["c08_sync_chunk_independent", "c08_sync_prefix", "c08_sync_window", "c08_skip", "c08_delay",
                              "c08_rtlsdr", "c08_no_panic_hand", "c08_resampler", "c08_fir", "c08_gated", "c08_gated_prefix",
                              "c08_zerocrossing_no_panic", "c08_generator_source", "c08_generator_source_prefix",
                              "c08_vector_sink", "c08_cma"],
        "runs": [
            # valid IL2P transmissions (library test vector + sync tags) between noise: frames must survive any chunking
            {"sub": "blocks", "quick": ["--seed", "{seed}", "--mode", "self", "--set", "every", "--block", "il2p", "--cases", 250,
                                        "--steps", 40],
             "thorough": ["--seed", "{seed}", "--mode", "self", "--set", "every", "--block", "il2p", "--cases", 10000,
                          "--steps", 60], "timeout": 20000},
            {"sub": "blocks", "quick": ["--seed", "{seed}", "--set", "modelled", "--cases", 1200, "--steps", 40],
             "thorough": ["--seed", "{seed}", "--set", "modelled", "--cases", 60000, "--steps", 80]},
            {"sub": "blocks", "quick": ["--seed", "{seed}", "--mode", "self", "--set", "every", "--cases", 1400, "--steps", 40,
                                        "--probes", 1, "--tight-probes", 75],
             "thorough": ["--seed", "{seed}", "--mode", "self", "--set", "every", "--cases", 70000, "--steps", 80,
                          "--probes", 1, "--tight-probes", 6000],
             "timeout": 20000},
        ],
        "rule": "every library block (46 catalogue entries incl. all element types used) x random parameters x random input "
                "(seeded; boundary alphabets: all bytes, float specials, small integers for filters) x adversarial drip-feed "
                "schedules (feed 1..k, drain 0..j, output left full, bursts larger than the output, inputs pre-advanced to "
                "random wrap offsets, one-page streams): (a) modelled blocks: every call's verdict/consumed/produced and the "
                "cumulative output compared with the Lean model; (b) all blocks: the drip-fed run and a greedy run of the real "
                "block must deliver bit-identical samples/packets and never panic. distinct = distinct request.",
        "trusted_base": GLOBAL_TB + [
            "streams are FIFOs with capacity (C01/C02); read window = everything readable, write window = all free space",
            "float sample functions are evaluated with Lean's Float32 (IEEE binary32, same as Rust f32 for + - * and comparisons); "
            "NaN results are compared as one canonical NaN; no theorem depends on float values",
            "blocks without a Lean model are checked on the real code only (self-checking lines); listed in coverage.stats",
        ],
        "assumptions": ["known finding int-overflow-panic: integer AddConst/Add/MultiplyConst panic on overflow (probe line)"],
    },
    "C09": {
        "required_theorems": ["c09_sync_within_windows", "c09_sync_wait_input_truthful", "c09_sync_wait_output_truthful",
                              "c09_sync_progress", "c09_sync_retires", "c09_skip", "c09_rtlsdr", "c09_fir", "c09_gated",
                              "c09_delay", "c09_au_encode", "c09_v2s", "c09_resampler", "c09_generator_source", "c09_vector_sink",
                              "c09_null_sink", "c09_fft_float_eof_sound", "c09_fft_float_old_eof_unsound",
                              "c09_delay_eof_sound", "c09_delay_old_eof_unsound", "c09_sync_eof_sound", "c09_eof_sound_hand", "c09_eof_sound_fft_v2s", "c09_cma_verdicts"],
        "runs": [
            # FftFilterFloat around the exact engine against the wrapper model, eof() answers included: both output streams
            # left full, the input ends, the backlog is taken at once - input lengths swept over every alignment of
            # "exactly one batch still unfiltered inside" (the boundary of its eof())
            {"sub": "blocks", "quick": ["--seed", "{seed}", "--set", "none", "--cases", 0, "--fftfx-probes", 1],
             "thorough": ["--seed", "{seed}", "--set", "none", "--cases", 0, "--fftfx-probes", 1]},
            {"sub": "blocks", "quick": ["--seed", "{seed}", "--set", "modelled", "--cases", 800, "--steps", 40, "--tag-heavy", 1],
             "thorough": ["--seed", "{seed}", "--set", "modelled", "--cases", 40000, "--steps", 80, "--tag-heavy", 1]},
            {"sub": "blocks", "quick": ["--seed", "{seed}", "--mode", "self", "--set", "every", "--cases", 1400, "--steps", 40, "--fit-probes", 1,
                                        "--tight-probes", 75],
             "thorough": ["--seed", "{seed}", "--mode", "self", "--set", "every", "--cases", 70000, "--steps", 80, "--tight-probes", 6000],
             "timeout": 20000},
        ],
        "rule": "as C08; on every real work() call the acceptor checks: consumed/produced within the windows, a "
                "WaitForStream names one of the block's streams (stream identity hook) and that stream currently lacks the "
                "amount asked, no more than 3 consecutive 'Again' without movement, and after the inputs ended and drained the "
                "last verdict is EOF / a wait on an ended input / eof() is true. Modelled blocks additionally: verdict equals "
                "the model's on every call.",
        "trusted_base": GLOBAL_TB + [
            "streams are FIFOs with capacity (C01/C02); read window = everything readable, write window = all free space",
            "float sample functions are evaluated with Lean's Float32 (IEEE binary32, same as Rust f32 for + - * and comparisons); "
            "NaN results are compared as one canonical NaN; no theorem depends on float values",
            "blocks without a Lean model are checked on the real code only (self-checking lines); listed in coverage.stats",
        ],
        "assumptions": [],
    },
    "C10": {
        "required_theorems": ["c10_samplewise", "c10_nrzi", "c10_nrzi_xor_tee_delay", "c10_skip", "c10_delay", "c10_rtlsdr",
                              "c10_s2pdu", "c10_resampler", "c10_v2s", "c10_v2s_call", "c10_constant_source", "c10_fft_stream", "c10_fft_stream_call",
                              "c10_vector_sink", "c10_vector_sink_call", "c10_null_sink", "c10_set_delay"],
        "runs": [
            {"sub": "blocks", "quick": ["--seed", "{seed}", "--set", "modelled", "--cases", 1600, "--steps", 30],
             "thorough": ["--seed", "{seed}", "--set", "modelled", "--cases", 80000, "--steps", 60]},
            # vector-to-stream (no Lean model: packet input): output = concatenation of the packets, drip-fed and greedy
            {"sub": "blocks", "quick": ["--seed", "{seed}", "--mode", "self", "--set", "every", "--block", "v2s", "--cases", 300,
                                        "--steps", 40, "--fit-probes", 1],
             "thorough": ["--seed", "{seed}", "--mode", "self", "--set", "every", "--block", "v2s", "--cases", 20000,
                          "--steps", 60, "--fit-probes", 1], "timeout": 20000},
            # FFT-stream framing against the DFT of each frame (random pieces, nearly full output), and the other DSP specs
            {"sub": "dsp", "quick": ["--seed", "{seed}", "--cases", 60],
             "thorough": ["--seed", "{seed}", "--cases", 3000], "timeout": 20000},
        ],
        "rule": "modelled blocks (all sample-wise blocks, slicer, NRZI, descrambler, both correlators, burst tagger, skip, "
                "delay, resampler, RTL-SDR decoder, arity blocks) x parameter grids (delay/skip 0..3000, interp/deci 1..12 incl. "
                "non-coprime, code lengths 0..16, LFSR masks) x boundary alphabets, one-shot and chunked; cumulative output "
                "(hash of all samples, exact count) compared with the Lean model. distinct = distinct request.",
        "trusted_base": GLOBAL_TB + [
            "streams are FIFOs with capacity (C01/C02); read window = everything readable, write window = all free space",
            "float sample functions are evaluated with Lean's Float32 (IEEE binary32, same as Rust f32 for + - * and comparisons); "
            "NaN results are compared as one canonical NaN; no theorem depends on float values",
            "blocks without a Lean model are checked on the real code only (self-checking lines); listed in coverage.stats",
        ],
        "assumptions": ["sources, vector-to-stream, stream-to-PDU, text formatter and FFT framing are covered by C16/C08 "
                        "self-checks, not yet by a Lean spec"],
    },
    "C11": {
        "required_theorems": ["c11_fir_any_chunking", "c11_fir_sliding", "c11_fir_eq_conv", "c11_kernels_agree",
                              "c11_fft_size", "c11_ola_eq_conv", "c11_fft_eq_fir_delayed", "c11_iir_recurrence",
                              "c11_single_pole", "c11_lowpass_hamming", "c11_lowpass_blackman", "c11_hilbert_taps",
                              "c11_fm_identities", "c11_iir_clamped", "c11_fft_block", "c11_hilbert_block",
                              "c11_signal_source_ideal", "c11_fft_float_block"],
        "runs": [
            # FftFilterFloat around the exact engine against the wrapper model, eof() answers included: both output streams
            # left full, the input ends, the backlog is taken at once - input lengths swept over every alignment of
            # "exactly one batch still unfiltered inside" (the boundary of its eof())
            {"sub": "blocks", "quick": ["--seed", "{seed}", "--set", "none", "--cases", 0, "--fftfx-probes", 1],
             "thorough": ["--seed", "{seed}", "--set", "none", "--cases", 0, "--fftfx-probes", 1]},
            {"sub": "blocks", "quick": ["--seed", "{seed}", "--set", "dsp", "--cases", 900, "--steps", 30, "--tag-heavy", 1],
             "thorough": ["--seed", "{seed}", "--set", "dsp", "--cases", 40000, "--steps", 60, "--tag-heavy", 1],
             "timeout": 20000},
            {"sub": "dsp", "quick": ["--seed", "{seed}", "--cases", 150],
             "thorough": ["--seed", "{seed}", "--cases", 6000], "timeout": 20000},
            {"sub": "dsp", "variant": "avx", "quick": ["--seed", "{seed}", "--cases", 150],
             "thorough": ["--seed", "{seed}", "--cases", 6000], "timeout": 20000},
            {"sub": "blocks", "variant": "avx",
             "quick": ["--seed", "{seed}", "--set", "dsp", "--cases", 300, "--steps", 30],
             "thorough": ["--seed", "{seed}", "--set", "dsp", "--cases", 10000, "--steps", 60], "timeout": 20000},
            {"sub": "dsp", "variant": "simd", "tiers": ["thorough"],
             "thorough": ["--seed", "{seed}", "--cases", 3000], "timeout": 20000},
        ],
        "rule": "model-compared, bit exact in Float32: FirFilter<f32> (1..40 taps, deci 1..8), FirFilter<Complex>, Hilbert "
                "(3..41 taps, the library's own taps), SinglePoleIirFilter, FastFM, FftFilter around an exact integer engine "
                "(1..40 taps): random drip-feed schedules with tags through one-page streams; Fir::filter_float (0..200 taps, "
                "integer/fractional/special values incl. NaN, inf, -0; the kernel this build compiles: scalar, AVX, portable "
                "simd), Fir::filter_n, IirFilter (1..8 taps), calc_fft_size for 21 tap counts. Self-checking against an f64 "
                "reference: FirFilter and FftFilter/FftFilterFloat with the rustfft engine (1..200 taps, deci 1..8, "
                "random/impulse/step/sinusoid/integer inputs of 0..3000 samples) = sliding dot product / linear convolution "
                "with zero pre-history within rounding; rustfft engine = cyclic convolution; low_pass symmetric with unit DC "
                "gain and hilbert() antisymmetric for Hamming/Blackman/Blackman-Harris; quadrature demod = gain x phase step. "
                "All of it again in a build with the AVX code path (and, thorough, the nightly portable-simd path). "
                "distinct = distinct request.",
        "trusted_base": GLOBAL_TB + [
            "Lean's Float32 (IEEE binary32 + and *) for the bit-exact correspondence; no theorem depends on float values",
            "exact-arithmetic theorems are over an arbitrary commutative ring / the reals; the distance between float and exact "
            "results (rounding) is bounded only by the harness's f64 reference comparison",
            "the FFT engine (rustfft crate) computes the cyclic convolution with the taps: assumed by c11_ola_eq_conv, "
            "checked on integer data to 0.02 by '!dsp engine' lines",
            "atan2(y, x) = arg(x + iy) (libm); sin, cos of the float code = the real functions up to rounding",
            "Mathlib (real analysis, big operators) for the design/identity theorems",
        ],
        "assumptions": ["fft_stream.rs (plain FFT framing) is covered by C08 self-checks only"],
    },
    "C12": {
        "required_theorems": ["c12_sync_same_index", "c12_sync_any_chunking", "c12_contract_sync", "c12_skip", "c12_delay", "c12_fir", "c12_fft",
                              "c12_skip_any_chunking", "c12_delay_any_chunking", "c12_fir_any_chunking", "c12_hilbert_any_chunking"],
        "runs": [
            {"sub": "blocks", "quick": ["--seed", "{seed}", "--set", "modelled", "--cases", 1200, "--steps", 40, "--tag-heavy", 1],
             "thorough": ["--seed", "{seed}", "--set", "modelled", "--cases", 60000, "--steps", 80, "--tag-heavy", 1]},
            {"sub": "blocks", "quick": ["--seed", "{seed}", "--mode", "self", "--set", "every", "--cases", 1400, "--steps", 40,
                                        "--tag-heavy", 1],
             "thorough": ["--seed", "{seed}", "--mode", "self", "--set", "every", "--cases", 70000, "--steps", 80,
                          "--tag-heavy", 1], "timeout": 20000},
            # FirFilter, Hilbert, FftFilter (integer engine): every call's tags against the Lean model
            {"sub": "blocks", "quick": ["--seed", "{seed}", "--set", "dsp", "--cases", 500, "--steps", 30, "--tag-heavy", 1],
             "thorough": ["--seed", "{seed}", "--set", "dsp", "--cases", 30000, "--steps", 60, "--tag-heavy", 1]},
            # output kept full (the call that is cut short by the output must keep the tags of what it did not consume)
            {"sub": "blocks", "quick": ["--seed", "{seed}", "--mode", "self", "--set", "none", "--cases", 0, "--tight-probes", 45],
             "thorough": ["--seed", "{seed}", "--mode", "self", "--set", "none", "--cases", 0, "--tight-probes", 3000],
             "timeout": 20000},
        ],
        "rule": "as C08 with 1..12 tags per input clustered on the first/last samples and at chunk boundaries; tags collected with "
                "absolute output positions; modelled blocks compared with the Lean model, every block: drip-fed vs greedy run "
                "must deliver the identical tag multiset. distinct = distinct request.",
        "trusted_base": GLOBAL_TB + [
            "streams are FIFOs with capacity (C01/C02); read window = everything readable, write window = all free space",
            "float sample functions are evaluated with Lean's Float32 (IEEE binary32, same as Rust f32 for + - * and comparisons); "
            "NaN results are compared as one canonical NaN; no theorem depends on float values",
            "blocks without a Lean model are checked on the real code only (self-checking lines); listed in coverage.stats",
        ],
        "assumptions": [],
    },
    "C16": {
        "required_theorems": ["c16_repeat_algebra", "c16_underflow_only_when_done", "c16_infinite", "c16_vector",
                              "c16_vector_zero", "c16_marker_tags", "c16_file", "c16_file_step", "c16_file_zero",
                              "c16_sigmf", "c16_sigmf_zero"],
        "runs": [
            {"sub": "sources", "quick": ["--seed", "{seed}", "--cases", 400, "--files", 80, "--depth", 6],
             "thorough": ["--seed", "{seed}", "--cases", 20000, "--files", 3000, "--depth", 8], "timeout": 20000},
            # FileSource on a named pipe written in pieces that end inside samples: exactly the data, once, then EOF
            {"sub": "bytes", "quick": ["--seed", "{seed}", "--what", "fifo", "--cases", 150],
             "thorough": ["--seed", "{seed}", "--what", "fifo", "--cases", 6000], "timeout": 20000},
        ],
        "rule": "Repeat API: every call sequence over {again, done, count} to the given depth from finite(0..3) and infinite "
                "(exhaustive); VectorSource: data length 0..3000 x repeat {0,1,2,3,inf} x random work/drain schedules through a "
                "one-page stream, compared call by call (verdict, produced, tags) with the Lean model; FileSource<u32> and "
                "SigMFSource<f32> on real temp files of 0..9000 bytes (whole and non-whole numbers of samples, around the "
                "stream size and the 8192-byte reader buffer) x repeat {0,1,2,3,inf} x random work/drain schedules, compared "
                "call by call with their Lean models (fsrc, sgsrc); FileSource and SigMFSource (recordings and tar archives): "
                "total output must equal data x repeat, EOF exactly at the end, "
                "nothing after EOF, no EOF and periodic output for infinite. distinct = distinct request.",
        "trusted_base": GLOBAL_TB + [
            "FileSource model: std::io::BufReader<File>::read as modelled (capacity 8192: serve from the buffer, else refill, "
            "or read directly for requests >= capacity); the theorem only uses 0 < n <= min(request, remaining) and n = 0 iff at the end",
            "SigMFSource model: File::read on a regular file returns the whole request while bytes remain; the archive (tar) "
            "range computation is checked on the real code only (!src lines)",
            "u64 arithmetic with overflow checks on (release profile of the crate)",
        ],
        "assumptions": [],
    },
    "C13": {
        "required_theorems": ["c13_table", "c13_crc_is_x25", "c13_crc_gate", "c13_bounds", "c13_abort", "c13_roundtrip",
                              "c13_frames", "c13_destuff", "c13_resync", "c13_after_noise", "c13_single_bit_detected", "c13_two_bits_detected", "c13_fix_repairs", "c13_checksum_field_errors"],
        "runs": [
            {"sub": "hdlc", "quick": ["--seed", "{seed}", "--cases", 2500],
             "thorough": ["--seed", "{seed}", "--cases", 200000], "timeout": 20000},
        ],
        "rule": "transmissions built by an independent encoder (flags, LSB-first bytes, bit-serial CRC-16/X.25, stuffing): "
                "noise prefix (empty, half flags, runs of ones, a flag plus garbage that leaves the deframer mid-frame, random "
                "bits incl. accidental flags) + 1..4 frames with payload length 0..max+2 (random and stuffing-heavy 0xFF/0x7E/"
                "0x3F contents), shared or separate or repeated flags, single/double bit corruption in 20% of frames; settings "
                "min in {0,1,2,3,10}, max in {4,10,20,50,300}, checksum on/off, fix on/off; fed in chunks of 1, 1..9 or "
                "1..3000 bits. Every transmission: packets compared with the Lean model; clean transmissions also against what "
                "was framed (in order, once each); plus every single-bit corruption position of sampled frames. "
                "distinct = distinct request.",
        "trusted_base": GLOBAL_TB + [
            "tools/extract.py regenerates FCSTAB, the flag byte, CRC init and xor-out from src/hdlc_deframer.rs on every run "
            "(lean/RR/Gen/Hdlc.lean); the CRC theorems are proved about the generated table",
            "the harness encoder (bit-serial CRC, stuffing) is independent of the Lean spec",
        ],
        "assumptions": ["the round-trip theorem for every payload (c13_roundtrip) is work in progress: until then round-trip is "
                        "covered by correspondence + spec lines, the CRC/table/bounds/gate statements by theorems"],
    },
    "C17": {
        "required_theorems": ["c17_create", "c17_overwrite", "c17_append", "c17_bad_targets", "c17_durable_stream_sink",
                              "c17_durable_packet_sink", "c17_failed_io_consumes_nothing", "c17_unchecked_flush_is_unsafe"],
        "runs": [
            {"sub": "fsink", "quick": ["--seed", "{seed}", "--kills", 40],
             "thorough": ["--seed", "{seed}", "--kills", 1500], "timeout": 20000},
        ],
        "rule": "both sinks x modes {create, overwrite, append} x initial state {absent, empty file, non-empty file, directory, "
                "unwritable (a 0444 sysctl file: the sandbox runs as root)} x 3 data variants on a temp dir, result (error or "
                "final file bytes) compared with the Lean model evaluated on the GENERATED open flags; plus a child process "
                "streaming counters through each sink, SIGKILLed after a random number of acknowledgements plus a random delay: "
                "the file must be a prefix of the serialised stream and hold at least everything acknowledged. "
                "distinct = distinct request.",
        "trusted_base": GLOBAL_TB + [
            "tools/extract.py reads the OpenOptions chain of each `match mode` arm and the textual order of write_all/flush/"
            "consume (pop) in each work() from src/file_sink.rs; lean/RR/Gen/FileSink.lean is regenerated on every run",
            "modelled, not verified: std::fs::OpenOptions / open(2) semantics as in RR.FileSink.openSem; BufWriter may pass any "
            "prefix of its buffer to the file on write and everything on flush",
            "PARTIAL: a completed write(2) survives the death of the process (kernel page cache); power loss not covered; "
            "sampling of kill points is support only",
        ],
        "assumptions": [],
    },
    "C18": {
        "required_theorems": ["c18_alias", "c18_no_leak_success", "c18_no_leak_second_fails", "c18_no_leak_first_fails",
                              "c18_elem_size_refused", "c18_churn", "c18_setup_refused", "c18_touches_only_own",
                              "c18_own_only_witnesses"],
        "pre_cmd": ["python3", "tools/vmtrace.py"],
        "runs": [
            {"sub": "vm", "quick": ["--seed", "{seed}", "--cycles", 2000],
             "thorough": ["--seed", "{seed}", "--cycles", 200000], "timeout": 20000},
            {"sub": "ring", "quick": ["--seed", "{seed}", "--cases", 300, "--max-ops", 20],
             "thorough": ["--seed", "{seed}", "--cases", 20000, "--max-ops", 40]},
        ],
        "rule": "self-checking runs on the real code: create/drop churn in random order with up to 8 streams alive (one thread, "
                "then 4 threads), counting the mappings of unlinked temp files in /proc/self/maps and the descriptors in "
                "/proc/self/fd before and after; refused set-ups (6144, 4097, 0 bytes; 3-byte samples in 4096; 24-byte in 8192) "
                "x300 leave nothing behind; data written through the second half is read through the first (1,2,4 pages) at "
                "addresses exactly `size` apart; a child under RLIMIT_AS creates 4 MB streams until refusal: errors not "
                "crashes, and everything is released. Plus the Buffer::new admission grid against the Lean model.",
        "trusted_base": GLOBAL_TB + [
            "tools/vmtrace.py: strace of `rrh vmtrace` (the real Buffer::new / drop in four scenarios), normalised to units of "
            "the stream size relative to the first mapping; lean/RR/Gen/Mmap.lean is regenerated on every run",
            "modelled, not verified (PARTIAL): kernel semantics of mmap / MAP_FIXED replacement / munmap / O_TMPFILE as in RR.Mmap",
        ],
        "assumptions": [],
    },
    "C14": {
        "required_theorems": ["c14_parse_serialize", "c14_reassemble", "c14_segmentation_independent", "c14_file_roundtrip",
                              "c14_au_roundtrip", "c14_au_block_any_chunking", "c14_au_stream_roundtrip", "c14_sigmf_order", "c14_sigmf_lookup", "c14_au_encode_block_any_chunking", "c14_tcp_source", "c14_tcp_step"],
        "runs": [
            {"sub": "bytes", "quick": ["--seed", "{seed}", "--cases", 20],
             "thorough": ["--seed", "{seed}", "--cases", 1500], "timeout": 40000},
            # AU byte streams (valid and mutated headers) fed to the real decoder in 1..40-byte pieces vs the Lean decoder
            {"sub": "crash", "quick": ["--seed", "{seed}", "--cases", 500, "--what", "au"],
             "thorough": ["--seed", "{seed}", "--cases", 30000, "--what", "au"], "timeout": 20000},
            # AuEncode as a block, call by call (quantiser edge cases, NaN/inf)
            {"sub": "blocks", "quick": ["--seed", "{seed}", "--cases", 150, "--set", "modelled", "--block", "auenc"],
             "thorough": ["--seed", "{seed}", "--cases", 10000, "--set", "modelled", "--block", "auenc"], "timeout": 20000},
            # AuDecode as a block, call by call against the Lean block model (valid headers with any data offset and
            # annotation, one field wrong, cut short; PCM bodies of even and odd length up to three stream sizes)
            {"sub": "blocks", "quick": ["--seed", "{seed}", "--cases", 300, "--set", "modelled", "--block", "audec"],
             "thorough": ["--seed", "{seed}", "--cases", 20000, "--set", "modelled", "--block", "audec"], "timeout": 20000},
        ],
        "rule": "serialize/parse of u8,u32,i32,f32,complex on boundary and random bit patterns (NaN payloads, infinities, "
                "sign bits) and reassembly of random byte strings under random segmentations (0..9-byte chunks) compared with "
                "the Lean model; FileSink->FileSource round trips (f32, complex; 0..3000 samples); FileSource on a FIFO and "
                "TcpSource on a socket whose writer imposes 1-byte, 1..6-byte and 1..900-byte writes; SigMF archives built with "
                "the tar crate in random member order with unrelated members, and with the data member missing/duplicated or a "
                "second metadata member (must be refused; the lookup also compared with the Lean model); AuEncode->AuDecode "
                "through one-page streams with random chunking against the PCM16 quantisation. distinct = distinct request.",
        "trusted_base": GLOBAL_TB + [
            "TcpSource call-by-call comparison assumes that one small write_all on a loopback TCP connection with TCP_NODELAY "
            "is delivered to one blocking read() in one piece (a violation would show as a mismatch, not hide one)",
            "modelled, not verified: the kernel, std::io (read may return any non-empty prefix), the tar crate (an archive is its "
            "member list), serde_json; the f32<->i16 conversions of the AU codec are parameters of the model",
        ],
        "assumptions": [],
    },
    "C15": {
        "required_theorems": ["c15_au_total", "c15_au_block_no_panic", "c15_hdlc_total", "c15_hdlc_guard", "c15_lfsr_total", "c15_sync_no_panic",
                              "c15_hand_no_panic", "c15_zerocrossing_no_panic"],
        "runs": [
            {"sub": "crash", "quick": ["--seed", "{seed}", "--cases", 400, "--burst-len", 5, "--probes", 1],
             "thorough": ["--seed", "{seed}", "--cases", 20000, "--burst-len", 8, "--probes", 1], "timeout": 40000},
            {"sub": "bytes", "quick": ["--seed", "{seed}", "--cases", 24, "--what", "tcp"],
             "thorough": ["--seed", "{seed}", "--cases", 1000, "--what", "tcp"], "timeout": 20000},
            {"sub": "hdlc", "quick": ["--seed", "{seed}", "--cases", 400],
             "thorough": ["--seed", "{seed}", "--cases", 20000], "timeout": 20000},
        ],
        "rule": "every catalogue block (41 kinds) with hostile content - float specials (NaNs with payloads, +-inf, max, "
                "denormal, -0), arbitrary bytes where bits are expected, packets of length 0..300 - under drip-feed schedules: "
                "a panic or a block that never settles within 20000 calls is a violation; AU streams with every header field "
                "mutated (magic, data offset 0..60 and random, encoding, bitrate, channels), truncated anywhere, fed in 1..40 "
                "byte chunks, outcome (samples / waiting / error kind) compared with the Lean decoder; SigMF: random bytes, "
                "empty file, broken/odd metadata JSON, truncated archives; EXHAUSTIVE: all bursts of length 0..5 (thorough: "
                "0..8) over {-1,0,1,NaN,inf} through Midpointer and Wpcr; HDLC transmissions incl. corrupted ones. "
                "distinct = distinct request.",
        "trusted_base": GLOBAL_TB + [
            "no-panic theorems exist for the modelled units (AU decoder, HDLC deframer, LFSR, sync family, Skip, Delay, "
            "RtlSdrDecode); every other unit is exercised on the real code only",
            "memory safety outside stream windows: safe Rust turns it into a panic, which is what is checked; the two unsafe "
            "sites (ring mapping C01/C18, AVX dot product under a build flag not used here) are not covered by this check",
        ],
        "assumptions": ["known finding int-overflow-panic (probe line)"],
    },
    "C20": {
        "required_theorems": ["c20_chain_1200_as_documented", "c20_chain_9600_as_documented", "c20_nrzi",
                              "c20_nrzi_any_start", "c20_polarity_irrelevant", "c20_digital_1200", "c20_digital_9600",
                              "c20_descrambler_taps", "c20_descrambler_block", "c20_zero_crossing_ideal", "c20_9600_from_baseband",
                              "c20_zero_crossing_small_sps_duplicates"],
        "runs": [
            {"sub": "e2e", "quick": ["--seed", "{seed}", "--cases", 60, "--probes", 1],
             "thorough": ["--seed", "{seed}", "--cases", 6000, "--probes", 1], "timeout": 40000},
            # the step function of the clock-recovery theorem (zcStep) against the real ZeroCrossing, bit for bit in f32
            {"sub": "blocks", "quick": ["--seed", "{seed}", "--set", "modelled", "--block", "zerocross", "--cases", 150, "--steps", 40],
             "thorough": ["--seed", "{seed}", "--set", "modelled", "--block", "zerocross", "--cases", 6000, "--steps", 60]},
            {"sub": "blocks", "quick": ["--seed", "{seed}", "--set", "modelled", "--block", "zerocross_clk", "--cases", 60, "--steps", 40],
             "thorough": ["--seed", "{seed}", "--set", "modelled", "--block", "zerocross_clk", "--cases", 3000, "--steps", 60]},
            # every block of the two chains alone, drip-fed vs greedy, with the eof() soundness line (!eofsound): a block
            # that answers eof() with samples still inside is retired by the runners and the end of a transmission is
            # lost - on MTGraph only for some thread timings, here deterministically
            {"sub": "blocks", "quick": ["--seed", "{seed}", "--mode", "self", "--set", "chain", "--cases", 600, "--steps", 40,
                                        "--tight-probes", 40],
             "thorough": ["--seed", "{seed}", "--mode", "self", "--set", "chain", "--cases", 30000, "--steps", 60,
                          "--tight-probes", 2000], "timeout": 20000},
            # the statement of c20_zero_crossing_ideal on the implementation's float arithmetic
            {"sub": "blocks", "quick": ["--seed", "{seed}", "--mode", "self", "--set", "none", "--cases", 0, "--zc-ideal", 150],
             "thorough": ["--seed", "{seed}", "--mode", "self", "--set", "none", "--cases", 0, "--zc-ideal", 8000],
             "timeout": 20000},
        ],
        "rule": "generated clean transmissions: 1..4 AX.25 frames (payload 10..120 bytes, random or stuffing-heavy 0xFF/0x7E/0x3F/"
                "0x00), preamble of 20..100 flags, 2..6 flags between frames, trailing flags; Bell-202 AFSK (continuous phase, "
                "1200/2200 Hz) at 44100/48000/50000 Hz into the 1200-baud chain of examples/ax25-1200-rx.rs; G3RUH-scrambled "
                "NRZI 2-FSK (+-3 kHz) at 50000/100000 Hz into the 9600-baud chain with the ZeroCrossing block as clock "
                "recovery; random start phase, random sub-sample symbol timing, random initial line level and scrambler "
                "seed; single- and multi-threaded runner. Delivered packets must equal the payloads exactly, in order. The bit "
                "stream at the slicer output is also compared with the transmitted levels (front-end hypothesis) to classify "
                "a failure as front end or digital. distinct = distinct transmission.",
        "trusted_base": GLOBAL_TB + [
            "tools/extract.py compares the block order and parameters of the two example sources with the harness copy "
            "(lean/RR/Gen/E2e.lean, theorems c20_chain_*): a change of an example re-opens the proof",
            "PARTIAL BY NATURE: the float front end (filters, demodulator, clock recovery) is validated on generated signals, "
            "not proved; IEEE-754, libm, rustfft trusted",
            "the harness modulators are idealised (rectangular FSK / continuous-phase AFSK, no noise)",
            "c20_zero_crossing_ideal is about zcStep instantiated with exact rationals (as u64 = floor, as f32 = cast); the same "
            "definition instantiated with Lean's Float32 (IEEE binary32; Float32.toUInt64 saturating with NaN -> 0 like Rust's `as`; "
            "UInt64.toFloat32 round-to-nearest-even) is what is compared bit for bit with the real block; f32 rounding of "
            "last_cross += clock is NOT covered by the theorem (validated: --zc-ideal runs the real block on ideal waveforms)",
        ],
        "assumptions": ["the transmission continues (flags) for at least one FFT batch after the last frame, as a real "
                        "signal does: the block filters only emit whole batches",
                        "known finding e2e-9600-symbolsync-slips (probe line)"],
    },
}

MANIFEST_TEXT = {
    "C01": {
        "text": "Lean 4 theorem c01_refines_fifo: for every capacity and every finite sequence of stream operations the "
                "model of BufferState/produce/consume/read_buf/write_buf shows exactly what a FIFO specification shows "
                "(values, order, refusals), by induction over the operation list with a simulation relation - no bound on "
                "sizes or steps; plus readable+writable=capacity in every reachable state and the sample-size admission "
                "theorems. The hand-written model is tied to the code by differential runs of random operation programs on "
                "real streams (6 element types, 1-4 pages, forced wrap offsets).",
        "design_ref": "DESIGN.md section 2, C01",
        "note": "Trusted: Lean kernel + 3 standard axioms; the harness and driver; the double mapping is modelled as index modulo "
                "capacity (C18); stable sort and BTreeMap modelled as described in evidence.trusted_base.",
        "technique": "Lean 4 refinement proof (ring model simulates FIFO spec) + differential correspondence check",
    },
    "C02": {
        "text": "Lean 4 theorems c02_tags_refine / c02_consume_drops_exactly / c02_consume_zero / c02_filter_redundant: in every "
                "reachable state the tags reported by a read window are exactly the tags living on the queued samples of the "
                "FIFO spec (window-relative position, key, value, commit order), consume(m) drops exactly the first m samples' "
                "tags, consume(0) is the identity; proved for all op sequences by the same simulation as C01. Tied to the code "
                "by tag-heavy differential runs.",
        "design_ref": "DESIGN.md section 2, C02",
        "note": "Trusted as C01. Tag keys/values are opaque naturals in the model. The property's premise 'committed together with a "
                "sample' is the explicit hypothesis tag.pos < n.",
        "technique": "Lean 4 refinement proof (tags live on FIFO elements) + differential correspondence check",
    },
    "C03": {
        "text": "Lean 4 theorems over the two-thread protocol model RR.Conc: for EVERY schedule (arbitrary list of atomic "
                "critical sections and non-atomic cell accesses of a producer and a consumer) the invariant holds, live write "
                "and read windows are disjoint, and every value the consumer loads is the element of the committed history at "
                "consumed+j; counters are consistent at every query; the handle-count ceiling never fires for protocol-"
                "following threads. Induction over the schedule: no bound on length, no fairness needed. Tied to the code by "
                "replaying random interleavings step-for-step on a real stream and by two-thread stress runs.",
        "design_ref": "DESIGN.md section 2, C03",
        "note": "PARTIAL: proof is over sequentially-consistent atomic steps; the hardware/compiler memory model (that Mutex "
                "release/acquire publishes the cell writes) is trusted, as is `unsafe impl Sync for Circ` under it.",
        "technique": "Lean 4 invariant proof by induction over arbitrary interleavings + step-for-step correspondence",
    },
    "C04": {
        "text": "Lean 4 theorems SoundReader/SoundWriter/Arrives about the decision programs GENERATED from src/stream.rs on "
                "every run (order of the amount read and the liveness read in wait_for_read, wait_for_write, eof, "
                "NCReadStream::wait/eof, NCWriteStream::wait): under every interleaving with the peer's last commits and its "
                "drop a `true` verdict implies peer gone and fewer than need available, stays true, discards nothing; and one "
                "completed call after the peer is gone gives `true` - in fact exactly `queued < need`, whatever was asked before "
                "on the same stream (c04_exact_after_close; the real streams are asked sequences of waits on one handle). A reordering in the source breaks `lake build`; the "
                "witness schedule is then replayed on real threads through the verif::point hook.",
        "design_ref": "DESIGN.md section 2, C04",
        "note": "PARTIAL for 'bounded number of waits': completion of a wait call (OS scheduling, 100 ms timeout) is assumed. "
                "Trusted: extract.py's textual-order reading of straight-line code; strong_count semantics.",
        "technique": "Lean 4 proof over translator-generated decision programs + hook-driven race replay on real threads",
    },
    "C05": {
        "text": "Lean 4 theorems in four layers: (1) per block, any chunking = one-shot function of what was consumed (C08); "
                "(2) a `true` wait only when the peer is gone and the remainder insufficient, discarding nothing (C04, over the "
                "generated read order); (3) mtLoop, the model of a block thread of MTGraph::run over ARBITRARY block scripts: "
                "exits only by cancel/error/EOF/b.eof()/true wait, always terminates for finite answers, run() result "
                "independent of add order; (4) for a DAG of deterministic history functions the quiescent state is unique and "
                "equals the sequential reference evaluation (no hypothesis on interleaving, timeouts, stream size, add order); "
                "(5) the operational layer that joins (1) and (4): a graph state (committed history per stream, consumed counts per "
                "block) and steps in which ANY block consumes more and extends its outputs as a prefix of its history function - "
                "for EVERY sequence of steps the invariant holds, and every run ending with everything consumed and emitted is the "
                "reference execution (c05_every_schedule_invariant/_result, with an executable step c05_step_exists); with the set of retired blocks in the state, every interleaving of steps and SOUND retirements (eof() true only when the block's inputs are final, consumed and everything is emitted) ends, all blocks retired, in the reference execution (c05_retire_all_is_reference; c05_unsound_retire_loses is the witness that the soundness is needed - the FftFilterFloat defect). "
                "Tied to the code by scripted blocks on the real MTGraph and by generated library graphs whose sinks must equal "
                "a sequential reference execution in every configuration.",
        "design_ref": "DESIGN.md section 2, C05",
        "note": "PARTIAL: termination assumes OS fairness and graphs without bounded-buffer deadlock; the operational layer "
                "(c05_every_schedule_result) takes block steps as atomic and the per-block history functions as given by the C08 "
                "theorems and correspondences; that a real run ends with everything consumed and emitted is layers 2-3 plus "
                "fairness.",
        "technique": "Lean 4 proofs (thread-loop model, DAG fixpoint uniqueness) + scripted-block and generated-graph correspondence",
    },
    "C06": {
        "text": "Lean 4 theorems about stRun, a line-for-line model of Graph::run over blocks that are ARBITRARY scripts "
                "(so for every block behaviour and every add order): run() returns Ok without cancellation only after a pass "
                "in which no block failed, none answered Again/Pending and no stream activity happened; a pass that moved "
                "data is never the last; and, for deterministic blocks whose quiet calls change nothing, such a state is a "
                "fixpoint (no block can make further progress); and the loop always returns (c06_terminates: a potential "
                "function, remaining script entries plus final EOF answers, drops with every call). The model is tied to the real runner by exact call-log "
                "comparison on random scripted blocks. The 'reference result' half is shared with C05.",
        "design_ref": "DESIGN.md section 2, C06",
        "note": "The runner defect (done-rule ignored progress) was repaired by a fix: commit; the model mirrors the fixed code. "
                "Trusted: the activity counter semantics; block contract premise for the fixpoint theorem.",
        "technique": "Lean 4 proof over a scripted-block model of Graph::run + exact call-log correspondence",
    },
    "C07": {
        "text": "Lean 4 theorems about the runner models for arbitrary block scripts: after cancellation the single-threaded "
                "runner begins at most the rest of the current pass (a strictly increasing block sequence, so <= 1 call per "
                "block); a block thread of the multithreaded runner makes no call after seeing the token; a failing work() "
                "makes Graph::run return that error immediately and MTGraph::run return Err after joining all threads (never "
                "Ok). Tied to the real runners by scripted blocks (call logs, per-thread counts, results) plus self-checking "
                "cancellation runs from another thread with infinite sources.",
        "design_ref": "DESIGN.md section 2, C07",
        "note": "PARTIAL on wall-clock boundedness. The MTGraph panic on block error was repaired by a fix: commit.",
        "technique": "Lean 4 proof over scripted-block runner models + call-log correspondence + cancellation replays",
    },
    "C19": {
        "text": "Lean 4 theorems about syncWork, the model of the work() generated by #[derive(Block)] in sync/sync_tag mode, "
                "quantified over every SyncSpec (any number of inputs/outputs, any stateful per-sample function): a call "
                "processes exactly min(shortest input, smallest output space) steps on every stream, waits (need 1) on the "
                "first empty input else the first full output in declaration order, eof() is true iff all inputs ended and "
                "drained, and any chunking equals the one-shot loop. Tied to the real macro by compiled harness blocks of all "
                "arities under drip-feed schedules.",
        "design_ref": "DESIGN.md section 2, C19",
        "note": "The macro bug found here (3+ inputs did not compile: nested zip tuples) was repaired by a fix: commit. The "
                "constructor wiring has no model-level content and is checked by correspondence only.",
        "technique": "Lean 4 proof about the generated work() for all arities + drip-feed correspondence on compiled blocks",
    },
    "C08": {
        "text": "Lean 4 theorems: (1) for the WHOLE sync/sync_tag family (any arity, any stateful per-sample function) every "
                "chunking of the input yields the one-shot result, state and tags (driveG_eq_oneShot, by induction over the "
                "list of chunk sizes) and the generated work() on windows equals the loop on the histories; (2) Skip, Delay, "
                "RtlSdrDecode, FirFilter (any arithmetic, any decimation), RationalResampler (incl. an output that fills in the "
                "middle of the copies of one sample), CmaEqualizer (c08_cma: state and output are those of whole blocks of ntaps samples) and - in C11 - the FFT filter: for EVERY schedule of (readable, free) pairs the cumulative output is the closed form, no panic. "
                "All other blocks: the real block is run drip-fed and greedy and must deliver bit-identical output (model-free), "
                "modelled blocks are also compared call by call with the Lean model.",
        "design_ref": "DESIGN.md section 2, C08",
        "note": "Proof covers the blocks named in RR/Props/C08.lean (sync family, Skip, Delay, RtlSdrDecode, FirFilter, "
                "RationalResampler, ZeroCrossing, SymbolSync, the signal sources (generator family), VectorSink; FftFilter in C11, StreamToPdu in C10); Hilbert/deframers and the "
                "remaining converters are checked on the real code (drip-fed vs greedy), some also against Lean models. Many chunking defects were repaired by fix: commits (see KNOWN_FINDINGS.txt).",
        "technique": "Lean 4 proof (induction over arbitrary schedules) + drip-feed correspondence + real-vs-real chunking differential",
    },
    "C09": {
        "text": "Lean 4 theorems about work() on an arbitrary view for the sync family (any block built with the macro), Skip, "
                "RtlSdrDecode, Delay, the signal sources (c09_generator_source: a full output is waited for, never polled), VectorSink/NullSink (every call drains the window, also when the sink is full), FftFilterFloat (c09_fft_float_eof_sound: its eof() is true only when a further call delivers nothing - the wrapper model with its two inner streams is compared call by call, eof() answers included, with the real block around an exact engine; c09_fft_float_old_eof_unsound is the witness for the repaired defect), AuEncode (asks for exactly the two bytes a sample needs), VecToStream (asks for exactly the packet length, with which it emits the packet), ZeroCrossing/SymbolSync (c09_gated: waits name the empty input or the very output that is full, Again only with a consumed sample) and FirFilter (c09_fir: it asks for exactly ntaps+deci-1 samples, with which it will progress): consumption/commit within the windows; a wait names a stream that really lacks the amount; when no "
                "stream lacks anything the call progresses; Again only with progress; ended+drained inputs are reported. For every "
                "other block the same acceptor runs on real traces with the stream-identity hook.",
        "design_ref": "DESIGN.md section 2, C09",
        "note": "Windows are released before return by construction in the models; on the real code a leaked window shows up as a "
                "refused acquisition in the next call. Theorems for the blocks named; acceptor-only for the rest.",
        "technique": "Lean 4 proof per modelled block + truthful-verdict acceptor on real drip-feed traces",
    },
    "C10": {
        "text": "Lean 4 theorems that the mirrored work() functions compute independent documentation-level specs with exact "
                "counts: all sample-wise sync blocks generically (row p = f(inputs at p)), NRZI (= 1 xor a xor prev, and = the "
                "Tee/Delay/Xor/XorConst composition of the doc comment), Skip (= drop k), Delay (= k zeros ++ x), RtlSdrDecode "
                "(= pairwise conversion), for every chunking; VectorSink (storage = the first max_size samples of the input however it is cut into read windows; the storage is read through VectorSink::hook() and compared call by call), NullSink. Other exactly-specified blocks are tied to executable Lean models "
                "by correspondence on boundary alphabets and parameter grids.",
        "design_ref": "DESIGN.md section 2, C10",
        "note": "Float sample functions are single expressions evaluated by Lean Float32 in the driver (trusted, not proved).",
        "technique": "Lean 4 proof model = independent spec + differential correspondence on boundary inputs",
    },
    "C11": {
        "text": "Lean 4 theorems over a model of the kernels (Fir, FirFilter::work, AVX/portable-simd reductions, Hilbert, "
                "IirFilter, SinglePoleIir, FastFM, calc_fft_size, FftFilter's overlap-add) written over an abstract arithmetic: "
                "for ANY arithmetic and EVERY chunking FirFilter output m is Fir::filter at offset m*deci; over any commutative "
                "ring that is the sliding dot product = linear convolution at m*deci+ntaps-1, the SIMD reductions equal the "
                "scalar fold, overlap-add around a cyclic convolution of size calc_fft_size(ntaps) (a power of two >= 2*ntaps) "
                "is the linear convolution with zero pre-history, hence FFT output = FIR output delayed by ntaps-1; IIR "
                "recurrences and closed form; over the reals low_pass is symmetric with unit DC gain for Hamming, Blackman and "
                "Blackman-Harris windows, hilbert() is antisymmetric, quadrature demod = gain x phase advance, FastFM identity; the signal sources' phase accumulator (reduced mod 2 pi after every step) yields the pure tone sin(k rad) / -cos(k rad) for every schedule; FftFilterFloat = the complex filter between two inner streams of any capacity delivers, for every schedule, the converted prefix of the linear convolution (c11_fft_float_block) (c11_signal_source_ideal; its f64 instance, with an exact fmod and libm's sin, is compared bit for bit with SignalSourceFloat/Complex). "
                "The same model instantiated with Float32 is compared bit for bit with the real blocks and kernels in the "
                "default, AVX and portable-simd builds; float results are compared with an f64 reference within rounding bounds.",
        "design_ref": "DESIGN.md section 2, C11",
        "note": "PARTIAL: rounding bounds are tested, not proved; rustfft = cyclic convolution is assumed (tested); the "
                "FftFilter batching loop is proved for every schedule (c11_fft_block). low_pass with Blackman windows was asymmetric: fix: commit.",
        "technique": "Lean 4 proof (induction over schedules and batches, ring algebra, real analysis via Mathlib) + bit-exact "
                     "Float32 correspondence in three builds + f64 reference check",
    },
    "C12": {
        "text": "Lean 4 theorems: every plain sync block forwards each tag of its first input exactly once on the output position "
                "of its sample, for every chunking; every generated work() hands produce(n, tags) only tags with pos < n (so "
                "unprocessed samples keep their tags in the stream); Skip and Delay forward exactly the tags of the copied "
                "samples (Delay shifted by the zeros of that call); FirFilter forwards the tags of exactly the consumed samples "
                "at index/decimation, inside the committed outputs (c12_fir); FftFilter, which buffers tags across calls with the "
                "unfinished batch, for EVERY schedule: the tags handed on are exactly (as a multiset) the input tags of the emitted "
                "samples at the same index and the rest are still held (c12_fft); Skip, Delay and FirFilter likewise for EVERY schedule "
                "(c12_skip/_delay/_fir_any_chunking: handed-on tags = tags of the consumed samples at pos-skip, pos+delay, "
                "pos/decimation, each once). Other tag-carrying blocks: identical tag multisets between a "
                "drip-fed and a greedy real run, plus model comparison for correlator/burst tagger.",
        "design_ref": "DESIGN.md section 2, C12",
        "note": "The unfiltered-tags defects in Skip/FirFilter/Hilbert/Delay/FftFilter/Cma were repaired by fix: commits.",
        "technique": "Lean 4 proof for the sync family + tag-multiset differential on real blocks",
    },
    "C16": {
        "text": "Lean 4 theorems: the Repeat counter algebra (k <= n calls of again() succeed, continue-flags, count, done iff "
                "exhausted, underflow iff called when done, infinite never done) and, for VectorSource, for EVERY consumption "
                "schedule the cumulative output is whole repetitions plus a prefix of the data and an EOF answer implies exactly n "
                "repetitions were emitted; marker tags only on the first sample of a repetition. The same theorem for FileSource "
                "(bytes read through a buffered reader with short reads, files that end in a partial sample: the partial sample "
                "is never carried into the next repetition) and SigMFSource. Tied to the code by exhaustive "
                "Repeat call sequences and call-by-call correspondence of all three sources on real files; archives are checked "
                "on the real code against the same specification.",
        "design_ref": "DESIGN.md section 2, C16",
        "note": "The repeat(0) defects of FileSource/SigMFSource and the VectorSource::first duplication were repaired by fix: commits.",
        "technique": "Lean 4 proof (induction over consumption schedules) + exhaustive API correspondence + spec check on real files",
    },
    "C13": {
        "text": "Lean 4 theorems over a bit-for-bit model of update_state/calc_crc/find_right_crc whose CRC table and constants "
                "are regenerated from the source on every run: the table is the 256 remainders of the reflected polynomial "
                "0x8408 (kernel-evaluated over all entries) and calc_crc equals bit-serial CRC-16/X.25 on every byte string "
                "(table step checked for all 65536 register values, lifted by induction); every packet emitted with checking on "
                "has a verifying checksum; the accepted length bounds exactly; 7 ones abort; ROUND TRIP: for every payload "
                "within the size limits the transmitter's bits (flags, LSB-first bytes, CRC low byte first, bit stuffing) "
                "make the deframer deliver exactly that payload once, and any number of frames back to back (shared flags) or "
                "separated by idle flags deliver exactly the payloads in order (destuffing inverts stuffing on every bit "
                "string); RESYNCHRONISATION: from every reachable state, i.e. after ANY preceding bits, a flag leaves the "
                "deframer right after a flag (all 256 search registers by kernel evaluation, every too-long reset point inside "
                "a flag), hence the frames after arbitrary noise are delivered exactly. Chunking and corruptions are tied by "
                "correspondence with an independent encoder.",
        "design_ref": "DESIGN.md section 2, C13",
        "note": "Five deframer defects were repaired by fix: commits (len<2 panic, max_size equality, shared-zero flags, flag in "
                "progress lost at the too-long reset). Proved too: every single-bit and double-bit corruption of the data (frames < 4095 bytes) "
                "is rejected and the single-bit repair returns the original (the CRC step is a linear bijection whose orbit "
                "through the single-bit states has length exactly 32767, by kernel evaluation). One data bit + one checksum bit, and any corruption of the "
                "checksum alone, are rejected too (c13_checksum_field_errors); with bit fixing on, double errors may be "
                "'repaired' into a different frame (inherent to single-bit repair) - covered by correspondence.",
        "technique": "Lean 4 proof over a model with translator-generated CRC table + differential correspondence with an independent encoder",
    },
    "C17": {
        "text": "Lean 4 theorems about definitions GENERATED from src/file_sink.rs on every run (open flags of each mode of both "
                "sinks; order of write/flush/consume in each work()): create succeeds iff the path is absent; overwrite leaves "
                "exactly the new data; append keeps and extends and creates if absent; directories/unwritable files are errors; "
                "and, for every sequence of work() calls with any window sizes and any write-through behaviour of the buffered "
                "writer, at every kill point the file is a prefix of the serialised stream holding at least everything consumed "
                "(packet sink: at every work() return); a failing write or flush (full device) makes work() return the error with "
                "nothing consumed (the translator records whether each I/O result is propagated with `?`). A reordering "
                "(consume before flush), an ignored I/O result or a changed flag re-opens the proof; /dev/full probes give the "
                "failing input.",
        "design_ref": "DESIGN.md section 2, C17",
        "note": "PARTIAL: kernel page-cache semantics assumed. The Append-does-not-create defect was repaired by a fix: commit.",
        "technique": "Lean 4 proof over translator-generated open flags and event order + mode/initial-state correspondence + SIGKILL sampling",
    },
    "C18": {
        "text": "Lean 4 theorems about the syscall sequences GENERATED on every run by an strace of the real stream set-up and "
                "drop (in units of the stream size, relative to the base address, hence for every size and address): while the "
                "stream exists both halves of the region are backed by the same file unit (byte i and byte i+size alias) and no "
                "descriptor is held; create+drop, a refused second mmap and a refused first mmap all leave no mapping and no "
                "descriptor; a non-dividing sample size is refused before any syscall; any sequence of such cycles returns to "
                "the initial address space. Tied to the running process by /proc counts under churn across threads, alias "
                "reads, refused sizes and RLIMIT_AS exhaustion.",
        "design_ref": "DESIGN.md section 2, C18",
        "note": "PARTIAL: the kernel is a parameter of the model. The missing sample-size admission test was repaired by a fix: commit.",
        "technique": "Lean 4 proof over strace-generated syscall sequences + /proc leak counting on the real code",
    },
    "C14": {
        "text": "Lean 4 theorems: parse(serialize v) = v for every sample type and every bit pattern (byte algebra on "
                "little-endian digits, not enumeration); for EVERY segmentation of a byte stream into read() results the "
                "reassembly buffer emits exactly the whole samples of the concatenation, in order, holding back fewer than one "
                "sample (induction over the chunk list), hence segmentation independence and the file round trip; decoding the AU "
                "encoder's output yields exactly the quantised samples (header fully consumed), and the AuDecode BLOCK (its "
                "four-state machine over read windows) under EVERY segmentation fails only if the one-shot decoder rejects "
                "the whole stream and otherwise has emitted a prefix of the one-shot result; the AuEncode BLOCK under every "
                "schedule (also one byte of room at a time) has written a prefix of header ++ two bytes per consumed sample; "
                "TcpSource's carry-buffer code (tcpStep, mirrored from work()) equals the ideal reassembly step for every "
                "buffer and every non-empty read, hence for every sequence of reads (c14_tcp_source), and is compared call by "
                "call with the real block over a loopback socket whose peer writes one piece per call; the SigMF member lookup is "
                "invariant under permutation of the archive members and ignores unrelated members, duplicates/absence are "
                "errors. Tied to the code by model comparison and by real pipes, sockets, files and tar archives.",
        "design_ref": "DESIGN.md section 2, C14",
        "note": "Four defects were repaired by fix: commits (AuDecode header not consumed, TcpSource short reads, partial sample "
                "carried across a repeat in FileSource/SigMFSource).",
        "technique": "Lean 4 proof (byte algebra, induction over segmentations) + differential correspondence + real I/O round trips",
    },
    "C15": {
        "text": "Lean 4 theorems that the explicit panic/None outcomes of the models are unreachable for every input: the AU "
                "decoder yields samples, 'need more' or an error value for every byte string and its header arithmetic cannot "
                "underflow; update_state of the HDLC deframer is total on every state and byte, its only length subtraction is "
                "guarded; the LFSR accepts every byte; a generated work() panics only if the user's per-sample function does; "
                "Skip/Delay/RtlSdrDecode never panic. All other units that accept external data are run on the real code with "
                "hostile content (exhaustively for small bursts), where a panic or a block that never settles is a violation.",
        "design_ref": "DESIGN.md section 2, C15",
        "note": "Known finding (not repaired): integer AddConst/MultiplyConst/Add panic on overflow. Six crash defects were "
                "repaired by fix: commits (AuDecode offsets, Midpointer, Wpcr, LFSR asserts, HDLC len-2, TcpSource, Delay).",
        "technique": "Lean 4 totality proofs for modelled units + hostile-input runs (exhaustive small bursts) on the real code",
    },
    "C20": {
        "text": "PARTIAL BY NATURE. Lean 4 theorems for the digital side: the harness copy of both receive chains equals what "
                "the example sources say now (generated definitions); NRZI decoding inverts NRZI encoding for every bit string "
                "from any initial level (only the first bit can differ) and is insensitive to a polarity flip; the real LFSR "
                "register model is out[n]=in[n]^in[n-12]^in[n-17], inverts the G3RUH scrambler and forgets its seed after 17 "
                "bits; COMPOSED (c20_digital_1200/9600): for every preamble, scrambler seed, line level, decoder state and "
                "every list of payloads within the example's size limits, NRZI decoder -> (descrambler ->) deframer as "
                "configured in the examples deliver exactly the payloads in order, after at most some garbage produced by the "
                "preamble. CLOCK RECOVERY (c20_zero_crossing_ideal): the ZeroCrossing step function - the definition the driver "
                "runs in Float32 bit for bit against the real block - instantiated with exact rationals emits, for EVERY "
                "samples-per-symbol >= 4, every symbol sequence and run length, exactly one sample per symbol with that "
                "symbol's sign on the ideal NRZ waveform (through all zero-crossing resets and step-backs); composed with the "
                "slicer and the digital back end (c20_9600_from_baseband) the 9600 chain from the baseband on delivers exactly "
                "the payloads; the bound is needed (c20_zero_crossing_small_sps_duplicates: at 2.5 samples/symbol a symbol is "
                "emitted twice). The remaining analog front end (filters, resampler, quadrature demodulator, f32 rounding) enters "
                "as the explicit hypothesis FrontEnd and "
                "is validated, not proved: generated Bell-202 and G3RUH transmissions at all supported sample rates with "
                "arbitrary phase and symbol timing must be decoded exactly, on both runners; the real f32 ZeroCrossing is also "
                "run on ideal waveforms (the theorem's statement) at 8 rates.",
        "design_ref": "DESIGN.md section 2, C20",
        "note": "Known finding: the 9600 example as written uses SymbolSync, which slips symbols on clean NRZ data at "
                "non-integer samples/symbol below about 10.5 (50000/9600 = 5.208); the check uses the ZeroCrossing block for "
                "the 9600 chain (the property names zero-crossing clock recovery) and keeps the example's variant as a probe. "
                "Not mechanised: the float front end (hypothesis FrontEnd, validated on generated signals).",
        "technique": "Lean 4 proofs for the digital back end and the clock recovery (exact arithmetic) over translator-checked chain definitions + bit-exact model correspondence + end-to-end validation on generated signals",
    },
}

NOT_APPLICABLE = {}
for _p in ["C03", "C04", "C05", "C06", "C07", "C08", "C09", "C10", "C11", "C12", "C13", "C14", "C15", "C16", "C17",
           "C18", "C19", "C20"]:
    if _p not in PROPS:
        NOT_APPLICABLE[_p] = "not claimed yet: its model/theorems/correspondence are still being built (see DESIGN.md order of work); the technique applies"
