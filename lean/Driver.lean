import RR.Model.RingDriver
import RR.Model.WaitDriver
import RR.Model.CodecDriver
import RR.Model.FileSinkDriver
import RR.Model.HdlcDriver
import RR.Model.BlockDriver
import RR.Model.SchedDriver
import RR.Model.ConcDriver
import RR.Model.DspDriver

/-! `rrdriver`: one request per line on stdin, one answer per line on stdout.
A request is `<model> <args>`; the answer is the model's observable output. -/
open RR

def dispatch (line : String) : String :=
  let line := line.trimAscii.toString
  match line.splitOn " " with
  | "ring" :: rest => RingDriver.handle (" ".intercalate rest)
  | "ringnew" :: rest => RingDriver.handleNew (" ".intercalate rest)
  | "conc" :: rest => ConcDriver.handle (" ".intercalate rest)
  | "sched" :: rest => SchedDriver.handle (" ".intercalate rest)
  | "blk" :: rest => BlockDriver.handle (" ".intercalate rest) BlockDriver.registry
  | "repeat" :: rest => BlockDriver.handleRepeat (" ".intercalate rest)
  | "hdlc" :: rest => HdlcDriver.handle (" ".intercalate rest)
  | "fsink" :: rest => FileSinkDriver.handle (" ".intercalate rest)
  | "audec" :: rest => CodecDriver.handleAuDec (" ".intercalate rest)
  | "codec" :: rest => CodecDriver.handleCodec (" ".intercalate rest)
  | "reasm" :: rest => CodecDriver.handleReasm (" ".intercalate rest)
  | "tcp" :: rest => CodecDriver.handleTcp (" ".intercalate rest)
  | "sigmf" :: rest => CodecDriver.handleSigmf (" ".intercalate rest)
  | "dsp" :: rest => DspDriver.handle (" ".intercalate rest)
  | "wait" :: rest => WaitDriver.handle (" ".intercalate rest)
  | _ => "bad-model"

partial def loop (h : IO.FS.Stream) (out : IO.FS.Stream) : IO Unit := do
  let line ← h.getLine
  if line.isEmpty then return ()
  out.putStrLn (dispatch line)
  loop h out

def main : IO Unit := do
  let out ← IO.getStdout
  loop (← IO.getStdin) out
  out.flush
