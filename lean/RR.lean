import RR.Props.C01
import RR.Props.C02
import RR.Model.RingDriver
