import RR.Model.Wait
import RR.Gen.Waits
import RR.Model.Util

/-! `wait <kind> <avail> <need> <alive>`: verdict of one completed call in a quiescent state. -/
namespace RR.WaitDriver
open RR RR.Wait RR.Util

def quiet (prog : List Obs) (s : Sh) (need : Nat) : Bool :=
  verdict (exec prog s {} (List.replicate (prog.length + 1) none)).2.1 need

def handle (args : String) : String :=
  match toks args with
  | [kind, a, n, al] =>
    match a.toNat?, n.toNat?, al.toNat? with
    | some avail, some need, some alive =>
      let s : Sh := ⟨avail, alive != 0⟩
      match kind with
      | "reader" => s!"{quiet Gen.readWait s need} eof={quiet Gen.readEof s 1} intact=true"
      | "writer" => s!"{quiet Gen.writeWait s need}"
      | "ncreader" => s!"{quiet Gen.ncReadWait s need} eof={quiet Gen.ncReadEof s 1} intact=true"
      | _ => "bad-op"
    | _, _, _ => "bad-op"
  | ["ncwriter_alive_reader", _] =>
    toString (quiet (Gen.ncWriteWait ++ [.avail]) ⟨0, true⟩ 1)
  | ["ncwriter_dead_reader", _] =>
    toString (quiet (Gen.ncWriteWait ++ [.avail]) ⟨0, false⟩ 1)
  | _ => "bad-op"

end RR.WaitDriver
