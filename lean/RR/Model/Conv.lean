import RR.Model.Block
import RR.Model.Hand
import RR.Model.Util

/-!
Converters, mirrored from the current /repo source: `StreamToPdu`
(src/stream_to_pdu.rs) and `ToText` (src/to_text.rs).

A packet output is a stream of one value per packet: `hashList (len :: items)`
(the harness collects packets the same way). Tags with key code ≥ 100 are
`TagValue::Bool` (value ≠ 0 = true), the others `TagValue::U64`.
-/
namespace RR.Blk
open RR.Util

structure S2P where
  buf : List Nat
  endcounter : Option Nat
deriving Repr

/-- `get_tag_val_bool`: the LAST tag with this position and key decides (the tags are collected into a
`HashMap`); a non-bool tag gives `None`. -/
def tagBoolAt (tags : List Tag) (key pos : Nat) : Option Bool :=
  match (tags.filter fun t => t.pos == pos && t.key == key).getLast? with
  | some t => if key ≥ 100 then some (t.val != 0) else none
  | none => none

/-- One iteration of the `for (i, sample)` loop: (packet pushed, new state). -/
def s2pStep (key maxSize tail : Nat) (tv : Option Bool) (st : S2P) (sample : Nat) : Option (List Nat) × S2P :=
  let (emit, st1) : Option (List Nat) × S2P :=
    if st.endcounter == some 0 then (some st.buf, { buf := [], endcounter := none }) else (none, st)
  let st2 : S2P :=
    match st1.endcounter with
    | some c => { buf := st1.buf ++ [sample], endcounter := some (c - 1) }
    | none =>
      match tv with
      | some false => if st1.buf.isEmpty then st1 else { st1 with endcounter := some tail }
      | some true => { st1 with buf := st1.buf ++ [sample] }
      | none => if st1.buf.isEmpty then st1 else { st1 with buf := st1.buf ++ [sample] }
  let st3 : S2P := if st2.buf.length > maxSize then { buf := [], endcounter := none } else st2
  let _ := key
  (emit, st3)

def s2pLoop (key maxSize tail : Nat) (tags : List Tag) : List Nat → Nat → S2P → List (List Nat) → S2P × List (List Nat)
  | [], _, st, out => (st, out)
  | s :: rest, i, st, out =>
    let (e, st') := s2pStep key maxSize tail (tagBoolAt tags key i) st s
    s2pLoop key maxSize tail tags rest (i + 1) st' (match e with | some p => out ++ [p] | none => out)

def pktCode (p : List Nat) : Nat := hashList (p.length :: p)

def s2pWork (key maxSize tail : Nat) (st : S2P) (v : View) : S2P × Out :=
  let i := in0 v
  if i.samples.isEmpty then (st, noOut v (.waitIn 0 1))
  else
    let (st', pkts) := s2pLoop key maxSize tail i.tags i.samples 0 st []
    (st', { consumed := [i.samples.length], produced := [⟨pkts.map pktCode, []⟩], verdict := .again })

/-- `#[rustradio(nevereof)]` -/
def s2pBlock (key maxSize tail : Nat) : Block :=
  { σ := S2P, init := ⟨[], none⟩, work := s2pWork key maxSize tail, eof := fun _ _ => false }

/-! ### ToText (unsigned integer samples) -/

def tagText (t : Tag) : String :=
  s!"k{t.key}=" ++ (if t.key ≥ 100 then s!"Bool({if t.val != 0 then "true" else "false"})" else s!"U64({t.val})")

/-- the text of one input's first sample with the tags on it -/
def cellText (i : InView) : String :=
  let s := toString (i.samples.headD 0)
  match i.tags.head? with
  | some t0 =>
    if t0.pos == 0 then
      s ++ " (" ++ String.join ((i.tags.takeWhile fun t => t.pos == 0).map tagText) ++ ")"
    else s
  | none => s

/-- views after `k` rows have been consumed from every input -/
def dropRows (ins : List InView) (k : Nat) : List InView :=
  ins.map fun i => { i with samples := i.samples.drop k
                            tags := (i.tags.filter fun t => decide (k ≤ t.pos)).map fun t => { t with pos := t.pos - k } }

def toTextLoop (ins : List InView) (free : Nat) : Nat → Nat → List Nat → Nat × List Nat × Verdict
  | 0, k, out => (k, out, .again)
  | fuel + 1, k, out =>
    let cur := dropRows ins k
    match cur.findIdx? (fun i => i.samples.isEmpty) with
    | some j => (k, out, .waitIn j 1)
    | none =>
      let line := (" ".intercalate (cur.map cellText) ++ "\n").toUTF8.toList.map (·.toNat)
      if line.length > free - out.length then (k, out, .waitOut 0 line.length)
      else toTextLoop ins free fuel (k + 1) (out ++ line)

def toTextWork (_ : Unit) (v : View) : Unit × Out :=
  let fuel := (v.ins.map (·.samples.length)).foldl min ((v.ins.headD ⟨[], [], true⟩).samples.length) + 2
  let (k, out, vd) := toTextLoop v.ins (out0 v).free fuel 0 []
  ((), { consumed := v.ins.map fun _ => k, produced := [⟨out, []⟩], verdict := vd })

/-- `#[rustradio(noeof)]`: the macro generates no `eof()` (the default: never). -/
def toTextBlock : Block :=
  { σ := Unit, init := (), work := toTextWork, eof := fun _ _ => false }

/-! ### VecToStream (src/vec_to_stream.rs)

A packet input is a stream of one value per packet: the packet's samples as base-2^65 digits `x + 1`
(`encodePkt`; the empty packet is 0). The harness feeds whole packets, `consumed` counts packets. -/

def pktBase : Nat := 2 ^ 65

def encodePkt : List Nat → Nat
  | [] => 0
  | x :: rest => (x + 1) + pktBase * encodePkt rest

def decodePktF : Nat → Nat → List Nat
  | 0, _ => []
  | fuel + 1, c => if c = 0 then [] else (c % pktBase - 1) :: decodePktF fuel (c / pktBase)

def decodePkt (c : Nat) : List Nat := decodePktF (c.log2 + 1) c

/-- tag key codes of `VecToStream::start` / `VecToStream::end` in the harness encoding -/
def v2sStartKey : Nat := 905
def v2sEndKey : Nat := 906

def v2sWork (_ : Unit) (v : View) : Unit × Out :=
  match (in0 v).samples with
  | [] => ((), noOut v (.waitIn 0 1))
  | code :: _ =>
    let pkt := decodePkt code
    let n := pkt.length
    if n > (out0 v).free then ((), noOut v (.waitOut 0 n))
    else if n == 0 then ((), { consumed := [1], produced := [⟨[], []⟩], verdict := .again })
    else
      ((), { consumed := [1]
             produced := [⟨pkt, [⟨0, v2sStartKey, n⟩, ⟨n - 1, v2sEndKey, n⟩]⟩]
             verdict := .again })

def v2sBlock : Block :=
  { σ := Unit, init := (), work := v2sWork, eof := fun _ v => macroEof v }

/-! ### ConstantSource (src/constant_source.rs): fills all the free space, every call -/

def constWork (val : Nat) (_ : Unit) (v : View) : Unit × Out :=
  ((), { consumed := [], produced := [⟨List.replicate (out0 v).free val, []⟩], verdict := .waitOut 0 1 })

def constBlock (val : Nat) : Block :=
  { σ := Unit, init := (), work := constWork val, eof := fun _ _ => false }

def convRegistry (name : String) (p : List Nat) : Option Block :=
  match name, p with
  | "s2pdu", [key, maxSize, tail] => some (s2pBlock key maxSize tail)
  | "totext", [_n] => some toTextBlock
  | "v2s", [] => some v2sBlock
  | "constsrc", [val] => some (constBlock val)
  | _, _ => none

end RR.Blk
