/-!
Byte-level formats (`Sample::{size, parse, serialize}` in src/lib.rs and the
partial-sample reassembly of `FileSource`, `TcpSource`, `SigMFSource`).

Samples are bit patterns: a `u8`/`u32`/`i32`/`f32` is its `8·n`-bit pattern as a
natural number (so every value of the type, NaN payloads included, is covered);
`Complex` is the pair (re, im) of two `f32` patterns, `re` first.
-/
namespace RR.Codec

/-- `x.to_le_bytes()` for an `n`-byte quantity. -/
def leBytes : Nat → Nat → List Nat
  | 0, _ => []
  | n + 1, x => x % 256 :: leBytes n (x / 256)

/-- `from_le_bytes`. -/
def ofLeBytes : List Nat → Nat
  | [] => 0
  | b :: rest => b + 256 * ofLeBytes rest

inductive Ty where
  | u8 | u32 | i32 | f32 | complex
deriving DecidableEq, Repr

def Ty.size : Ty → Nat
  | .u8 => 1
  | .u32 => 4
  | .i32 => 4
  | .f32 => 4
  | .complex => 8

/-- A sample value: one pattern, or two for `Complex`. -/
structure Val where
  re : Nat
  im : Nat := 0
deriving DecidableEq, Repr

def serialize (t : Ty) (v : Val) : List Nat :=
  match t with
  | .complex => leBytes 4 v.re ++ leBytes 4 v.im
  | t => leBytes t.size v.re

/-- `parse`: the Rust functions panic on a slice of the wrong length (`none`). -/
def parse (t : Ty) (bytes : List Nat) : Option Val :=
  if bytes.length ≠ t.size then none
  else match t with
    | .complex => some ⟨ofLeBytes (bytes.take 4), ofLeBytes (bytes.drop 4)⟩
    | _ => some ⟨ofLeBytes bytes, 0⟩

/-- All whole samples of a byte string, in order (what `chunks_exact(size)` yields). -/
def parseAll (t : Ty) (bytes : List Nat) : List Val :=
  if h : t.size = 0 then [] else
  if bytes.length < t.size then []
  else (parse t (bytes.take t.size)).toList ++ parseAll t (bytes.drop t.size)
termination_by bytes.length
decreasing_by simp [List.length_drop]; omega

/-! ### Reassembly across reads -/

/-- The carry-over buffer of a byte source: `feed` gets the bytes of one `read()`
and returns the samples that can be emitted now. This is the common core of the
three sources: whatever the read boundaries, whole samples come out in order
and fewer than `size` bytes stay behind. -/
def feed (t : Ty) (buf : List Nat) (chunk : List Nat) : List Nat × List Val :=
  let all := buf ++ chunk
  let whole := all.length / t.size * t.size
  (all.drop whole, parseAll t (all.take whole))

def feedAll (t : Ty) : List Nat → List (List Nat) → List Nat × List Val
  | buf, [] => (buf, [])
  | buf, c :: rest =>
    let (b1, v1) := feed t buf c
    let (b2, v2) := feedAll t b1 rest
    (b2, v1 ++ v2)

end RR.Codec
