import RR.Model.Sync

/-!
Per-sample functions of the library's `sync` / `sync_tag` blocks, and the
registry used by the driver. Samples are bit patterns (`Nat`); float blocks go
through `Float32.ofBits/toBits` (IEEE-754 binary32, like Rust's `f32`).
-/
namespace RR.Blk

def f32 (x : Nat) : Float32 := Float32.ofBits (UInt32.ofNat x)
/-- Bit pattern of a result; every NaN is reported as the canonical quiet NaN
(which payload a NaN result carries depends on operand order). -/
def bits (x : Float32) : Nat := if x.isNaN then 0x7fc00000 else x.toBits.toNat

/-- canonical form of a stored pattern (used where a float is only moved, not computed) -/
def canon (x : Nat) : Nat := bits (f32 x)

/-- Integer `a + b` with Rust's overflow check (`none` = panic). -/
def addChecked (bitsN : Nat) (a b : Nat) : Option Nat :=
  if a + b < 2 ^ bitsN then some (a + b) else none

def mulChecked (bitsN : Nat) (a b : Nat) : Option Nat :=
  if a * b < 2 ^ bitsN then some (a * b) else none

def stateless (nin nout : Nat) (g : List Nat → Option (List Nat)) : SyncSpec :=
  pureSync Unit () nin nout fun _ xs => (g xs).map fun ys => ((), ys)

def addConstInt (bitsN val : Nat) : SyncSpec :=
  stateless 1 1 fun xs => (addChecked bitsN (xs.getD 0 0) val).map ([·])
def addConstF32 (val : Nat) : SyncSpec :=
  stateless 1 1 fun xs => some [bits (f32 (xs.getD 0 0) + f32 val)]
def mulConstInt (bitsN val : Nat) : SyncSpec :=
  stateless 1 1 fun xs => (mulChecked bitsN (xs.getD 0 0) val).map ([·])
def mulConstF32 (val : Nat) : SyncSpec :=
  stateless 1 1 fun xs => some [bits (f32 (xs.getD 0 0) * f32 val)]
def xorConst (val : Nat) : SyncSpec :=
  stateless 1 1 fun xs => some [xs.getD 0 0 ^^^ val]
def xor2 : SyncSpec :=
  stateless 2 1 fun xs => some [xs.getD 0 0 ^^^ xs.getD 1 0]
def addInt (bitsN : Nat) : SyncSpec :=
  stateless 2 1 fun xs => (addChecked bitsN (xs.getD 0 0) (xs.getD 1 0)).map ([·])
def addF32 : SyncSpec :=
  stateless 2 1 fun xs => some [bits (f32 (xs.getD 0 0) + f32 (xs.getD 1 0))]
def tee : SyncSpec :=
  stateless 1 2 fun xs => some [xs.getD 0 0, xs.getD 0 0]
def binarySlicer : SyncSpec :=
  stateless 1 1 fun xs => some [if f32 (xs.getD 0 0) > 0.0 then 1 else 0]
def floatToComplex : SyncSpec :=
  stateless 2 1 fun xs => some [canon (xs.getD 0 0) + canon (xs.getD 1 0) * 2 ^ 32]
def complexToMag2 : SyncSpec :=
  stateless 1 1 fun xs =>
    let c := xs.getD 0 0
    let re := f32 (c % 2 ^ 32)
    let im := f32 (c / 2 ^ 32)
    some [bits (re * re + im * im)]

/-- `NrziDecode`: `1 ^ a ^ last` on `u8`. -/
def nrzi : SyncSpec :=
  pureSync Nat 0 1 1 fun last xs =>
    let a := xs.getD 0 0
    some (a, [1 ^^^ a ^^^ last])

def popcount : Nat → Nat → Nat
  | 0, _ => 0
  | fuel + 1, x => if x = 0 then 0 else x % 2 + popcount fuel (x / 2)

/-- `Lfsr::next` (the low bit of the input byte is used). -/
def lfsrNext (mask len : Nat) (reg : Nat) (i : Nat) : Option (Nat × Nat) :=
  let i := i % 2
  let ret := (popcount 64 (reg &&& mask) % 256 % 2) ^^^ i
  let reg' := ((reg >>> 1) ||| (i <<< len)) % 2 ^ 64
  some (reg', ret)

def descrambler (mask seed len : Nat) : SyncSpec :=
  pureSync Nat seed 1 1 fun reg xs =>
    (lfsrNext mask len reg (xs.getD 0 0)).map fun (r, o) => (r, [o])

/-- sliding window of `CorrelateAccessCode*`; returns new window and number of differing positions -/
def slideStep (code slide : List Nat) (a : Nat) : List Nat × Nat :=
  let s := slide ++ [a]
  let s := if s.length > code.length then s.drop 1 else s
  (s, ((s.zip code).filter fun (x, y) => x != y).length)

def correlateAccessCode (code : List Nat) (allowed : Nat) : SyncSpec :=
  pureSync (List Nat) (code.map fun _ => 0) 1 1 fun slide xs =>
    let (s, d) := slideStep code slide (xs.getD 0 0)
    some (s, [if d ≤ allowed then 1 else 0])

/-- key code of the tag added by the harness-chosen tag name -/
def keyAdded : Nat := 900

def correlateAccessCodeTag (code : List Nat) (allowed : Nat) : SyncSpec :=
  { σ := List Nat, init := code.map fun _ => 0, nin := 1, nout := 1
    f := fun slide xs tags =>
      let a := xs.getD 0 0
      let (s, d) := slideStep code slide a
      let ts := tags.headD []
      some (s, [a], if d ≤ allowed then ts ++ [⟨0, keyAdded, d⟩] else ts) }

def burstTagger (threshold : Nat) : SyncSpec :=
  { σ := Bool, init := false, nin := 2, nout := 1
    f := fun last xs tags =>
      let cur := f32 (xs.getD 1 0) > f32 threshold
      let ts := tags.headD []
      some (cur, [xs.getD 0 0], if cur != last then ts ++ [⟨0, keyAdded, if cur then 1 else 0⟩] else ts) }

/-- harness-defined derive blocks (C19): `nin` inputs, `nout` outputs;
output `j` = (sum of inputs + j) mod 2^32 (wrapping), tags of the first input pass. -/
def arity (nin nout : Nat) : SyncSpec :=
  stateless nin nout fun xs =>
    some ((List.range nout).map fun j => (xs.foldl (· + ·) 0 + j) % 2 ^ 32)

/-- harness-defined `sync_tag` block: as `arity`, and every tag of *every* input is
forwarded with its value incremented by the input index. -/
def arityTag (nin nout : Nat) : SyncSpec :=
  { σ := Nat, init := 0, nin := nin, nout := nout
    f := fun cnt xs tags =>
      let ys := (List.range nout).map fun j => (xs.foldl (· + ·) 0 + j + cnt) % 2 ^ 32
      let ts := (List.range tags.length).flatMap fun k =>
        (tags.getD k []).map fun t => { t with val := t.val + k }
      some ((cnt + 1) % 2 ^ 32, ys, ts) }

def syncRegistry (name : String) (p : List Nat) : Option SyncSpec :=
  match name, p with
  | "addconst_int", [b, v] => some (addConstInt b v)
  | "addconst_f32", [v] => some (addConstF32 v)
  | "mulconst_int", [b, v] => some (mulConstInt b v)
  | "mulconst_f32", [v] => some (mulConstF32 v)
  | "xorconst", [v] => some (xorConst v)
  -- convert::Map with the harness's closures: 3x + 7 (mod 2^32), or byte k of x
  | "map", [k] => some (stateless 1 1 fun xs =>
      some [if k = 0 then (3 * xs.getD 0 0 + 7) % 2 ^ 32 else (xs.getD 0 0 / 2 ^ (8 * k)) % 256])
  | "xor", [] => some xor2
  | "add_int", [b] => some (addInt b)
  | "add_f32", [] => some addF32
  | "tee", [] => some tee
  | "slicer", [] => some binarySlicer
  | "f2c", [] => some floatToComplex
  | "mag2", [] => some complexToMag2
  | "nrzi", [] => some nrzi
  | "descrambler", [mask, seed, len] => some (descrambler mask seed len)
  | "cac", allowed :: code => some (correlateAccessCode code allowed)
  | "cactag", allowed :: code => some (correlateAccessCodeTag code allowed)
  | "bursttagger", [th] => some (burstTagger th)
  | "arity", [i, o] => some (arity i o)
  | "aritytag", [i, o] => some (arityTag i o)
  | _, _ => none

end RR.Blk
