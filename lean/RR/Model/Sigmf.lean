/-!
Finding the recording inside a SigMF archive (`SigMFSource::from_archive`,
src/sigmf.rs): exactly one `*.sigmf-meta` member, regular; exactly one member
named `<stem>.sigmf-data`, regular; its byte range is the sample data. The tar
container itself (the `tar` crate) is trusted: an archive is its member list.
-/
namespace RR.Sigmf

inductive Ext where
  | metaFile | dataFile | otherFile
deriving DecidableEq, Repr

inductive Kind where
  | regular | sparse | otherKind
deriving DecidableEq, Repr

structure Member where
  stem : Nat
  ext : Ext
  kind : Kind
  pos : Nat
  size : Nat
deriving DecidableEq, Repr

/-- The only element of a list, if it has exactly one. -/
def single {α} : List α → Option α
  | [a] => some a
  | _ => none

/-- `some (pos, size)` of the data, or `none` for every error. -/
def lookup (ms : List Member) : Option (Nat × Nat) :=
  (single (ms.filter (·.ext == .metaFile))).bind fun m =>
    if m.kind != .regular then none
    else (single (ms.filter fun d => d.ext == .dataFile && d.stem == m.stem)).bind fun d =>
      if d.kind != .regular then none else some (d.pos, d.size)

end RR.Sigmf
