import RR.Model.Block
import RR.Model.Blocks

/-!
Hand-written `work()` functions, mirrored line for line (current /repo source):
`Skip` (src/skip.rs), `Delay` (src/delay.rs), `RationalResampler`
(src/rational_resampler.rs), `RtlSdrDecode` (src/rtlsdr_decode.rs).
-/
namespace RR.Blk

def noOut (v : View) (vd : Verdict) : Out :=
  { consumed := v.ins.map fun _ => 0, produced := v.outs.map fun _ => ⟨[], []⟩, verdict := vd }

def in0 (v : View) : InView := v.ins.getD 0 ⟨[], [], true⟩
def out0 (v : View) : OutView := v.outs.getD 0 ⟨0, true⟩

/-! ### Skip -/

def skipWork (skip : Nat) (v : View) : Nat × Out :=
  let i := in0 v
  if i.samples.isEmpty then (skip, noOut v (.waitIn 0 1))
  else if (out0 v).free == 0 then (skip, noOut v (.waitOut 0 1))
  else if skip == 0 then
    let len := min i.samples.length (out0 v).free
    (0, { consumed := [len]
          produced := [⟨i.samples.take len, i.tags.filter fun t => decide (t.pos < len)⟩]
          verdict := .again })
  else
    let k := min skip i.samples.length
    (skip - k, { consumed := [k], produced := [⟨[], []⟩], verdict := .again })

def skipBlock (skip : Nat) : Block :=
  { σ := Nat, init := skip, work := skipWork, eof := fun _ v => macroEof v }

/-! ### Delay -/

structure DelaySt where
  currentDelay : Nat
  skip : Nat
deriving Repr

def delayWork (st : DelaySt) (v : View) : DelaySt × Out :=
  let free := (out0 v).free
  if free == 0 then (st, noOut v (.waitOut 0 1))
  else
    -- leading zeros
    let nz := if st.currentDelay > 0 then min st.currentDelay free else 0
    let cd := st.currentDelay - nz
    let free1 := free - nz
    let zeros := List.replicate nz 0
    let i := in0 v
    let a := i.samples.length
    let ns := min a st.skip
    if ns == 0 && a == 0 then
      -- zeros still owed: the output filled up first, that is what the block waits for
      ({ currentDelay := cd, skip := st.skip },
       { consumed := [0], produced := [⟨zeros, []⟩], verdict := if cd > 0 then .waitOut 0 1 else .waitIn 0 1 })
    else
      let rest := i.samples.drop ns
      let n := min rest.length free1
      let tags := (i.tags.filter fun t => decide (ns ≤ t.pos ∧ t.pos < ns + n)).map
        fun t => { t with pos := t.pos - ns + nz }
      ({ currentDelay := cd, skip := st.skip - ns },
       { consumed := [ns + n], produced := [⟨zeros ++ rest.take n, tags⟩], verdict := .again })

/-- the hand-written `eof()`: the input has ended and is drained, and no zeros are owed any more (or nobody
reads the output) -/
def delayEof (st : DelaySt) (v : View) : Bool :=
  macroEof v && (st.currentDelay == 0 || !(out0 v).alive)

def delayBlock (delay : Nat) : Block :=
  { σ := DelaySt, init := ⟨delay, 0⟩, work := delayWork, eof := delayEof }

/-- `Delay::set_delay`; `none` = the `usize` subtraction `(self.delay - delay) - cdskip` underflows (a panic:
the crate keeps overflow checks on). -/
def delaySet (d : Nat) (st : DelaySt) (nd : Nat) : Option (Nat × DelaySt) :=
  if nd > d then some (nd, { st with currentDelay := nd - d })
  else
    let cdskip := min st.currentDelay nd
    if d - nd < cdskip then none
    else some (nd, { currentDelay := st.currentDelay - cdskip, skip := (d - nd) - cdskip })

/-- apply the pending `set_delay` calls in order -/
def delaySetAll : Nat → DelaySt → List Nat → Option (Nat × DelaySt)
  | d, st, [] => some (d, st)
  | d, st, nd :: rest =>
    match delaySet d st nd with
    | none => none
    | some (d', st') => delaySetAll d' st' rest

/-- Delay with its control call: state = (configured delay, block state, pending `set_delay` calls, oldest
first). The harness applies the pending calls at the start of the next `work()`. -/
def delayCtlWork (s : Nat × DelaySt × List Nat) (v : View) : (Nat × DelaySt × List Nat) × Out :=
  match delaySetAll s.1 s.2.1 s.2.2 with
  | none => (s, noOut v .panic)
  | some (d', st') => let r := delayWork st' v; ((d', r.1, []), r.2)

def delayCtlBlock (delay : Nat) : Block :=
  { σ := Nat × DelaySt × List Nat, init := (delay, ⟨delay, 0⟩, []), work := delayCtlWork
    eof := fun s v => delayEof s.2.1 v, poke := fun s nd => (s.1, s.2.1, s.2.2 ++ [nd]) }

/-! ### RationalResampler -/

/-- `while self.counter > 0 { emit; counter -= deci; if full break }` -/
def emitCopies (deci : Int) (olen : Nat) (s : Nat) : Nat → Int → List Nat → Int × List Nat × Bool
  | 0, c, out => (c, out, false)
  | fuel + 1, c, out =>
    if c > 0 then
      let out' := out ++ [s]
      let c' := c - deci
      if out'.length == olen then (c', out', true) else emitCopies deci olen s fuel c' out'
    else (c, out, false)

/-- `for s in i.iter()`; returns (counter, taken, output, out_full). -/
def resLoop (interp deci : Int) (olen : Nat) : List Nat → Int → Nat → List Nat → Int × Nat × List Nat × Bool
  | [], c, taken, out => (c, taken, out, false)
  | s :: rest, c, taken, out =>
    let c1 := c + interp
    let (c2, out2, full) := emitCopies deci olen s (c1.toNat + 1) c1 out
    if full then
      if c2 > 0 then (c2 - interp, taken, out2, true) else (c2, taken + 1, out2, true)
    else resLoop interp deci olen rest c2 (taken + 1) out2

def resWork (interp deci : Int) (counter : Int) (v : View) : Int × Out :=
  let i := in0 v
  if i.samples.isEmpty then (counter, noOut v (.waitIn 0 1))
  else if (out0 v).free == 0 then (counter, noOut v (.waitOut 0 1))
  else
    let (c, taken, out, full) := resLoop interp deci (out0 v).free i.samples counter 0 []
    (c, { consumed := [taken], produced := [⟨out, []⟩]
          verdict := if full then .waitOut 0 1 else .waitIn 0 1 })

def gcdN : Nat → Nat → Nat → Nat
  | 0, a, _ => a
  | fuel + 1, a, b => if b = 0 then a else gcdN fuel b (a % b)

def resBlock (interp deci : Nat) : Block :=
  let g := gcdN (interp + deci + 1) deci interp
  let g := if g = 0 then 1 else g
  { σ := Int, init := 0, work := resWork (interp / g : Nat) (deci / g : Nat), eof := fun _ v => macroEof v }

/-! ### RtlSdrDecode -/

/-- `(b as f32 - 127.0) * 0.008` -/
def rtlConv (b : Nat) : Float32 := (Float32.ofNat b - 127.0) * 0.008

def pairs : List Nat → List (Nat × Nat)
  | a :: b :: rest => (a, b) :: pairs rest
  | _ => []

def rtlWork (_ : Unit) (v : View) : Unit × Out :=
  let i := in0 v
  let isamples := i.samples.length - i.samples.length % 2
  if isamples == 0 then ((), noOut v (.waitIn 0 2))
  else if (out0 v).free == 0 then ((), noOut v (.waitOut 0 1))
  else
    let isamples := min isamples ((out0 v).free * 2)
    let osamples := isamples / 2
    -- every pair of the window is converted lazily; `produce(osamples)` commits the first ones
    let outs := (pairs i.samples).map fun (a, b) =>
      bits (rtlConv a) + bits (rtlConv b) * 2 ^ 32
    ((), { consumed := [isamples], produced := [⟨outs.take osamples, []⟩], verdict := .again })

def rtlBlock : Block :=
  { σ := Unit, init := (), work := rtlWork, eof := fun _ v => macroEof v }

def handRegistry (name : String) (p : List Nat) : Option Block :=
  match name, p with
  | "skip", [k] => some (skipBlock k)
  | "delay", [k] => some (delayBlock k)
  | "delayctl", [k] => some (delayCtlBlock k)
  | "resampler", [i, d] => some (resBlock i d)
  | "rtlsdr", [] => some rtlBlock
  | _, _ => none

end RR.Blk
