import RR.Model.Codec

/-!
`.au` encoder and decoder (src/au.rs) at the byte level. The float ↔ PCM16
conversions are parameters (`q`: `(x * 32767.0) as i16`, `deq`: `v as f32 /
32767.0`); everything else — header layout, big-endian samples, the decoder's
state machine — is mirrored.
-/
namespace RR.Au

def beBytes (n x : Nat) : List Nat := (Codec.leBytes n x).reverse
def ofBeBytes (bs : List Nat) : Nat := Codec.ofLeBytes bs.reverse

def magic : Nat := 0x2e736e64
def pcm16 : Nat := 3

/-- The 28-byte header `AuEncode::new` builds. -/
def header (bitrate : Nat) : List Nat :=
  beBytes 4 magic ++ beBytes 4 28 ++ beBytes 4 0xffffffff ++ beBytes 4 pcm16 ++ beBytes 4 bitrate ++
  beBytes 4 1 ++ [0, 0, 0, 0]

/-- What `AuEncode` emits for the samples `xs` (16-bit patterns after quantisation). -/
def encode (bitrate : Nat) (q : Nat → Nat) (xs : List Nat) : List Nat :=
  header bitrate ++ xs.flatMap fun x => beBytes 2 (q x)

inductive DecErr where
  | badMagic | smallOffset | badEncoding | badBitrate | badChannels
deriving DecidableEq, Repr

def pairsBE : List Nat → List Nat
  | a :: b :: rest => (a * 256 + b) :: pairsBE rest
  | _ => []

/-- `AuDecode` on a complete byte stream: `none` = still waiting for header bytes. -/
def decode (bitrate : Nat) (bytes : List Nat) : Except DecErr (Option (List Nat)) :=
  if bytes.length < 4 then .ok none
  else if ofBeBytes (bytes.take 4) ≠ magic then .error .badMagic
  else if bytes.length < 8 then .ok none
  else
    let off := ofBeBytes ((bytes.drop 4).take 4)
    -- the offset is examined by the next call, which first needs a non-empty window
    if bytes.length < 9 then .ok none
    else if off < 24 then .error .smallOffset
    else if bytes.length < off then .ok none
    else
      let head := (bytes.drop 8).take (off - 8)
      if ofBeBytes ((head.drop 4).take 4) ≠ pcm16 then .error .badEncoding
      else if ofBeBytes ((head.drop 8).take 4) ≠ bitrate then .error .badBitrate
      else if ofBeBytes ((head.drop 12).take 4) ≠ 1 then .error .badChannels
      else .ok (some (pairsBE (bytes.drop off)))

end RR.Au
