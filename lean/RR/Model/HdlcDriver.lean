import RR.Model.Hdlc
import RR.Model.Util

/-! `hdlc <min> <max> <strip> <fix> <bits as digits>` → packets `len:b,b,b len:…` -/
namespace RR.HdlcDriver
open RR RR.Util

def handle (args : String) : String :=
  match toks args with
  | [mn, mx, st, fx, bits] =>
    match mn.toNat?, mx.toNat?, st.toNat?, fx.toNat? with
    | some mn, some mx, some st, some fx =>
      let cfg : Hdlc.Cfg := { minSize := mn, maxSize := mx, stripChecksum := st != 0, fixBits := fx != 0 }
      let bs := bits.toList.map fun c => c.toNat - '0'.toNat
      let (_, ps) := Hdlc.run cfg Hdlc.init bs
      " ".intercalate (ps.map fun p => s!"{p.length}:{",".intercalate (p.map toString)}")
    | _, _, _, _ => "bad-op"
  | [mn, mx, st, fx] =>
    if mn.toNat?.isSome && mx.toNat?.isSome && st.toNat?.isSome && fx.toNat?.isSome then "" else "bad-op"
  | _ => "bad-op"

end RR.HdlcDriver
