import RR.Model.Conc
import RR.Model.Util

/-! `conc <cap> ; aw ; put i v ; co n ; ar ; get j ; cs m ; pk` -/
namespace RR.ConcDriver
open RR RR.Conc RR.Util

def parseStep (s : String) : Option Step :=
  match toks s with
  | ["aw"] => some .acqW
  | ["put", i, v] => do some (.put (← i.toNat?) (← v.toNat?))
  | ["co", n] => do some (.commit (← n.toNat?))
  | ["ar"] => some .acqR
  | ["get", j] => do some (.get (← j.toNat?))
  | ["cs", m] => do some (.consume (← m.toNat?))
  | ["pk"] => some .peek
  | _ => none

def showOut : Out → String
  | .none => "-"
  | .blocked => "blocked"
  | .value v => s!"v {v}"
  | .counts u f => s!"counts {u} {f}"

def runOuts (s : State) : List Step → List Out
  | [] => []
  | st :: rest => let r := step s st; r.2 :: runOuts r.1 rest

def handle (args : String) : String :=
  match args.splitOn ";" with
  | hd :: steps =>
    match nats (toks hd), steps.mapM parseStep with
    | some [cap], some steps => " ; ".intercalate ((runOuts (init cap) steps).map showOut)
    | _, _ => "bad-op"
  | [] => "bad-op"

end RR.ConcDriver
