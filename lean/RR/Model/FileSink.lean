/-!
File sinks (`src/file_sink.rs`): how a file is opened in each mode
(`OpenOptions` semantics as documented by `std::fs`, i.e. POSIX `open(2)`
flags), and the write / flush / consume order of `work()` with a buffered
writer in between.
-/
namespace RR.FileSink

structure OpenFlags where
  read : Bool := false
  write : Bool := false
  append : Bool := false
  create : Bool := false
  createNew : Bool := false
  truncate : Bool := false
deriving DecidableEq, Repr

/-- What is at the path before the sink is created. -/
inductive Entry where
  | absent
  | file (content : List Nat)
  | dir
  | unwritable (content : List Nat)
deriving DecidableEq, Repr

inductive OpenErr where
  | notFound | exists_ | isDir | denied | invalid
deriving DecidableEq, Repr

/-- `OpenOptions::open` on a path: the content the handle starts from (and that
the file system now holds), and whether writes go to the end. -/
def openSem (f : OpenFlags) (e : Entry) : Except OpenErr (List Nat × Bool) :=
  if !(f.write || f.append) then .error .invalid
  else match e with
    | .dir => if f.createNew then .error .exists_ else .error .isDir
    | .unwritable _ => if f.createNew then .error .exists_ else .error .denied
    | .absent => if f.create || f.createNew then .ok ([], f.append) else .error .notFound
    | .file c =>
      if f.createNew then .error .exists_
      else if f.truncate && !f.append then .ok ([], false)
      else .ok (c, f.append)

/-- File content after writing `data` through a handle opened that way. -/
def afterWrite (start : List Nat × Bool) (data : List Nat) : List Nat :=
  if start.2 then start.1 ++ data
  else data ++ start.1.drop data.length   -- writes at offset 0 over what is there

/-! ### work(): buffered writes -/

inductive Ev where
  | write     -- `BufWriter::write_all` of the serialised window
  | flush     -- `BufWriter::flush`
  | consume   -- `consume(n)` / `pop()`: the samples leave the stream
deriving DecidableEq, Repr

structure St where
  /-- bytes in the file (a completed `write(2)` survives the process) -/
  file : List Nat
  /-- bytes still in the `BufWriter` -/
  buffered : List Nat
  /-- bytes of the samples that left the stream -/
  consumed : Nat
  /-- serialised samples not yet handed to the writer -/
  todo : List Nat
deriving Repr

/-- One event of `work()` on a window of `k` bytes. On `write` the `BufWriter`
may pass any prefix `spill` of what it holds on to the file by itself. -/
def ev (k spill : Nat) (s : St) : Ev → St
  | .write =>
    let b := s.buffered ++ s.todo.take k
    { s with file := s.file ++ b.take spill, buffered := b.drop spill, todo := s.todo.drop k }
  | .flush => { s with file := s.file ++ s.buffered, buffered := [] }
  | .consume => { s with consumed := s.consumed + k }

/-- One `work()` call = the generated event list on one window. -/
def workCall (prog : List Ev) (k spill : Nat) (s : St) : St := prog.foldl (ev k spill) s

/-- All intermediate states of a call (every possible kill point). -/
def workStates (prog : List Ev) (k spill : Nat) (s : St) : List St :=
  (List.range (prog.length + 1)).map fun j => (prog.take j).foldl (ev k spill) s

/-- A call in which the I/O operation `bad` fails (device full, I/O error). A checked operation
(`?` in the source) ends the call there with an error; an unchecked one is lost — it has no effect —
and the call carries on. Returns the state and whether `work()` returned an error. -/
def callWithFailure (bad : Ev) (k spill : Nat) : List (Ev × Bool) → St → St × Bool
  | [], s => (s, false)
  | (e, checked) :: rest, s =>
    if e = bad then (if checked then (s, true) else callWithFailure bad k spill rest s)
    else callWithFailure bad k spill rest (ev k spill s e)

end RR.FileSink
