import RR.Model.Block
import RR.Model.Hand

/-!
DSP kernels, mirrored from the current /repo source over an abstract arithmetic
`Ops α` (the code is generic over `T: Mul + Add + Default` in the same way):

* `Fir::{new, filter, filter_n_inplace}`, `FirFilter::work` (src/fir.rs),
* the 8-lane reductions `sum_product_avx` / `f32x8` (src/fir.rs),
* `Hilbert::work` (src/hilbert.rs),
* `IirFilter::filter`, `SinglePoleIir::filter` (src/iir_filter.rs,
  src/single_pole_iir_filter.rs), `FastFM` (src/quadrature_demod.rs),
* `calc_fft_size` and the overlap-add loop of `FftFilter::work`
  (src/fft_filter.rs) around an `Engine` (here: the cyclic convolution the
  FFT engine computes up to rounding).

Instances: `Float32` (bit-exact against the real blocks through the driver),
pairs of `Float32` (`Complex`), and — in the proofs — any commutative ring.
-/
namespace RR.Dsp
open RR.Blk

structure Ops (α : Type) where
  zero : α
  add : α → α → α
  mul : α → α → α

/-- Samples travel as bit patterns. -/
structure Codec (α : Type) where
  dec : Nat → α
  enc : α → Nat

variable {α : Type}

/-- `input.iter().zip(taps).fold(T::default(), |acc, (&f, &x)| acc + x * f)` -/
def dot (o : Ops α) (rtaps input : List α) : α :=
  (List.zipWith (fun f x => o.mul x f) input rtaps).foldl o.add o.zero

/-- `Fir::new`: the taps are stored reversed. -/
def firNew (taps : List α) : List α := taps.reverse

/-- `Fir::filter` (`none`: the `assert!(input.len() >= taps.len())` fired). -/
def firFilter (o : Ops α) (rtaps input : List α) : Option α :=
  if input.length < rtaps.length then none else some (dot o rtaps input)

/-- `filter_n_inplace`: output `i` is `filter(&input[i*deci..])`. -/
def filterN (o : Ops α) (rtaps input : List α) (deci outN : Nat) : List α :=
  (List.range outN).map fun i => dot o rtaps (input.drop (i * deci))

/-- `filter_n`: `(0..=len-ntaps).step_by(deci)`. -/
def filterNAll (o : Ops α) (rtaps input : List α) (deci : Nat) : Option (List α) :=
  if input.length < rtaps.length ∨ deci = 0 then none
  else some (filterN o rtaps input deci ((input.length - rtaps.length) / deci + 1))

/-- `FirFilter::work`. -/
def firWork (o : Ops α) (cd : Codec α) (rtaps : List α) (deci : Nat) (_ : Unit) (v : View) : Unit × Out :=
  let i := in0 v
  let len := i.samples.length
  let ntaps := rtaps.length
  if deci = 0 ∨ ntaps = 0 then ((), noOut v .panic)
  else
    let absoluteMinimum := ntaps + deci - 1
    if len < absoluteMinimum then ((), noOut v (.waitIn 0 absoluteMinimum))
    else
      let n := deci * ((len - ntaps + 1) / deci)
      if n = 0 then ((), noOut v .panic)
      else
        let need := n + ntaps - 1
        if len < need then ((), noOut v .panic)
        else if (out0 v).free < 1 then ((), noOut v (.waitOut 0 1))
        else
          let n := min n ((out0 v).free * deci)
          if n % deci ≠ 0 ∨ n = 0 then ((), noOut v .panic)
          else
            let outN := n / deci
            let w := (i.samples.take need).map cd.dec
            let out := filterN o rtaps w deci outN
            let tags := (i.tags.filter fun t => decide (t.pos < n)).map fun t => { t with pos := t.pos / deci }
            ((), { consumed := [n], produced := [⟨out.map cd.enc, tags⟩], verdict := .again })

def firBlock (o : Ops α) (cd : Codec α) (taps : List α) (deci : Nat) : Block :=
  { σ := Unit, init := (), work := firWork o cd (firNew taps) deci, eof := fun _ v => macroEof v }

/-! ### SIMD reductions -/

/-- Lane `j` of the running vector sum over whole chunks of 8. -/
def lane (o : Ops α) (a b : List α) (j : Nat) : α :=
  ((List.range (a.length / 8)).map fun c =>
    o.mul (a.getD (8 * c + j) o.zero) (b.getD (8 * c + j) o.zero)).foldl o.add o.zero

/-- `sum_product_avx(taps, input)`: the three `hadd` steps add the lanes as
`((l0+l1)+(l2+l3)) + ((l4+l5)+(l6+l7))`, then the scalar tail. `none`: the
`assert_eq!(vec1.len(), vec2.len())`. -/
def dotAvx (o : Ops α) (taps input : List α) : Option α :=
  if taps.length ≠ input.length then none
  else
    let l := lane o taps input
    let partial_ := o.add (o.add (o.add (l 0) (l 1)) (o.add (l 2) (l 3)))
      (o.add (o.add (l 4) (l 5)) (o.add (l 6) (l 7)))
    let skip := taps.length - taps.length % 8
    some ((List.zipWith (fun f x => o.mul x f) (taps.drop skip) (input.drop skip)).foldl o.add partial_)

/-- The portable-simd path of `filter_float` (`--features simd`): the same lane
sums over `chunks_exact(8)` of both slices, `reduce_sum`, then the tail of the
taps zipped with the input from the same offset. No length assertion: a longer
input is read up to the tap count (`none`: `input[skip..]` out of range). -/
def dotSimd (o : Ops α) (taps input : List α) : Option α :=
  if input.length < taps.length then none else dotAvx o taps (input.take taps.length)

/-! ### Hilbert -/

/-- `Hilbert::work`; state = `history` (ntaps samples). Output sample: the
delayed input as real part, the filter output as imaginary part. -/
def hilbertWork (o : Ops α) (cd : Codec α) (pair : α → α → Nat) (kernel : List α → List α → Option α) (rtaps : List α)
    (history : List α) (v : View) : List α × Out :=
  let ntaps := rtaps.length
  let i := in0 v
  if i.samples.isEmpty then (history, noOut v (.waitIn 0 1))
  else if (out0 v).free == 0 then (history, noOut v (.waitOut 0 1))
  else
    let inout := min i.samples.length (out0 v).free
    let len := history.length + inout
    let n := len - ntaps
    if n == 0 then (history, noOut v .waitFunc)
    else
      let iv := history ++ (i.samples.take inout).map cd.dec
      let out := (List.range n).mapM fun k =>
        (kernel rtaps ((iv.drop k).take ntaps)).map fun y => pair (iv.getD (k + ntaps / 2) o.zero) y
      match out with
      | none => (history, noOut v .panic)   -- an assertion of the kernel fired
      | some out =>
        (iv.drop n |>.take ntaps,
         { consumed := [n], produced := [⟨out, i.tags.filter fun t => decide (t.pos < n)⟩], verdict := .again })

/-- `kernel` = what `filter_float` compiles to in this build. -/
def hilbertBlock (o : Ops α) (cd : Codec α) (pair : α → α → Nat) (kernel : List α → List α → Option α) (taps : List α) : Block :=
  { σ := List α, init := List.replicate taps.length o.zero
    work := hilbertWork o cd pair kernel (firNew taps), eof := fun _ v => macroEof v }

/-! ### IIR -/

/-- `IirFilter::filter`; `buf` = previous outputs, oldest first. `none`: `taps[0]` out of range. -/
def iirStep (o : Ops α) (taps : List α) (buf : List α) (x : α) : Option (List α × α) :=
  match taps with
  | [] => none
  | t0 :: _ =>
    let y := (List.range buf.length).foldl
      (fun acc i => o.add acc (o.mul (buf.reverse.getD i o.zero) (taps.getD (i + 1) o.zero))) (o.mul t0 x)
    let buf' := buf ++ [y]
    some (if buf'.length = taps.length then buf'.drop 1 else buf', y)

def iirRun (o : Ops α) (taps : List α) : List α → List α → Option (List α)
  | _, [] => some []
  | buf, x :: xs =>
    match iirStep o taps buf x with
    | none => none
    | some (buf', y) => (iirRun o taps buf' xs).map (y :: ·)

/-- `IirFilter::filter_clamped`: the clamped value is what is returned AND what is fed back. -/
def iirClampStep (o : Ops α) (clamp : α → α) (taps : List α) (buf : List α) (x : α) : Option (List α × α) :=
  match taps with
  | [] => none
  | t0 :: _ =>
    let y := clamp ((List.range buf.length).foldl
      (fun acc i => o.add acc (o.mul (buf.reverse.getD i o.zero) (taps.getD (i + 1) o.zero))) (o.mul t0 x))
    let buf' := buf ++ [y]
    some (if buf'.length = taps.length then buf'.drop 1 else buf', y)

def iirClampRun (o : Ops α) (clamp : α → α) (taps : List α) : List α → List α → Option (List α)
  | _, [] => some []
  | buf, x :: xs =>
    match iirClampStep o clamp taps buf x with
    | none => none
    | some (buf', y) => (iirClampRun o clamp taps buf' xs).map (y :: ·)

/-- `SinglePoleIir::filter`: `sample * alpha + prev * one_minus_alpha`. -/
def singlePole (o : Ops α) (alpha oneMinus prev x : α) : α := o.add (o.mul x alpha) (o.mul prev oneMinus)

/-! ### FFT filter: overlap-add around an engine -/

/-- `calc_fft_size`. -/
def pow2Ge : Nat → Nat → Nat → Nat
  | 0, n, _ => n
  | fuel + 1, n, from_ => if n < from_ then pow2Ge fuel (2 * n) from_ else n

def calcFftSize (from_ : Nat) : Nat := 2 * pow2Ge from_ 1 from_

/-- What the engine computes, exactly: the cyclic convolution of the (zero
padded) taps with the buffer, both of length `N`. -/
def cyclic (o : Ops α) (N : Nat) (taps buf : List α) : List α :=
  (List.range N).map fun n =>
    ((List.range N).map fun k => o.mul (buf.getD ((n + N - k) % N) o.zero) (taps.getD k o.zero)).foldl o.add o.zero

structure FftSt (α : Type) where
  buf : List α
  bufTags : List Tag
  tail : List α

/-- One batch: zero-pad, run the engine, add the carried tail, split off the new tail. -/
def fftBatch (o : Ops α) (taps : List α) (buf tail : List α) : List α × List α :=
  let L := taps.length
  let N := calcFftSize L
  let S := N - L
  let full := cyclic o N taps (buf ++ List.replicate (N - buf.length) o.zero)
  let full := (List.range N).map fun i => if i < L then o.add (full.getD i o.zero) (tail.getD i o.zero) else full.getD i o.zero
  (full.take S, (List.range L).map fun i => full.getD (S + i) o.zero)

/-- Stream-level meaning of the loop: `B` whole batches of `S` samples starting
at batch `b` of the input history `X`, carrying the tail. -/
def olaRun (o : Ops α) (taps : List α) (S : Nat) (X : List α) : Nat → Nat → List α → List α
  | 0, _, _ => []
  | B + 1, b, tail =>
    let r := fftBatch o taps ((X.drop (b * S)).take S) tail
    r.1 ++ olaRun o taps S X B (b + 1) r.2

/-- The `loop` of `FftFilter::work` on one window. `pos`: samples of the window
consumed so far; `outp`: samples committed so far in this call. -/
def fftLoop (o : Ops α) (cd : Codec α) (taps : List α) (win : InView) (free : Nat) :
    Nat → FftSt α → Nat → List Nat → List Tag → FftSt α × Nat × List Nat × List Tag × Verdict
  | 0, st, pos, outp, otags => (st, pos, outp, otags, .again)
  | fuel + 1, st, pos, outp, otags =>
    let L := taps.length
    let S := calcFftSize L - L
    if S > free - outp.length then (st, pos, outp, otags, .waitOut 0 S)
    else
      let avail := win.samples.length - pos
      let add := min avail (S - st.buf.length)
      let base := st.buf.length
      let newTags := (win.tags.filter fun t => decide (pos ≤ t.pos ∧ t.pos < pos + add)).map
        fun t => { t with pos := base + (t.pos - pos) }
      let buf := st.buf ++ ((win.samples.drop pos).take add).map cd.dec
      let st1 : FftSt α := { st with buf := buf, bufTags := st.bufTags ++ newTags }
      if buf.length < S then (st1, pos + add, outp, otags, .waitIn 0 (S - buf.length))
      else
        let (ys, tail') := fftBatch o taps buf st.tail
        let otags' := otags ++ st1.bufTags.map fun t => { t with pos := outp.length + t.pos }
        fftLoop o cd taps win free fuel { buf := [], bufTags := [], tail := tail' } (pos + add)
          (outp ++ ys.map cd.enc) otags'

def fftWork (o : Ops α) (cd : Codec α) (taps : List α) (st : FftSt α) (v : View) : FftSt α × Out :=
  let win := in0 v
  let r := fftLoop o cd taps win (out0 v).free (win.samples.length + 2) st 0 [] []
  (r.1, { consumed := [r.2.1], produced := [⟨r.2.2.1, r.2.2.2.1⟩], verdict := r.2.2.2.2 })

def fftBlock (o : Ops α) (cd : Codec α) (taps : List α) : Block :=
  { σ := FftSt α, init := ⟨[], [], List.replicate taps.length o.zero⟩
    work := fftWork o cd taps, eof := fun _ v => macroEof v }

/-! ### FftStream (src/fft_stream.rs): framing around an engine -/

/-- whole frames of `size` samples -/
def framesOf (size : Nat) : Nat → List Nat → List (List Nat)
  | 0, _ => []
  | k + 1, l => l.take size :: framesOf size k (l.drop size)

/-- `FftStream::work`: needs one whole frame in and room for one out; transforms as many whole frames as fit
both windows. `engine` = what `fft.process(chunk)` does to one frame. -/
def fftStreamWork (engine : List Nat → List Nat) (size : Nat) (_ : Unit) (v : View) : Unit × Out :=
  let i := in0 v
  if i.samples.length < size then ((), noOut v (.waitIn 0 size))
  else if (out0 v).free < size then ((), noOut v (.waitOut 0 size))
  else if size = 0 then ((), noOut v .panic)   -- `len % self.size`
  else
    let len := min i.samples.length (out0 v).free
    let len := len - len % size
    ((), { consumed := [len]
           produced := [⟨(framesOf size (len / size) (i.samples.take len)).flatMap engine, []⟩]
           verdict := .again })

def fftStreamBlock (engine : List Nat → List Nat) (size : Nat) : Block :=
  { σ := Unit, init := (), work := fftStreamWork engine size, eof := fun _ v => macroEof v }

/-! ### Instances used by the driver -/

def f32Ops : Ops Float32 := ⟨0.0, (· + ·), (· * ·)⟩
def f32Codec : Codec Float32 := ⟨f32, bits⟩

abbrev C32 := Float32 × Float32
/-- `num_complex::Complex<f32>`: `(a.re*b.re - a.im*b.im, a.re*b.im + a.im*b.re)`. -/
def c32Ops : Ops C32 :=
  ⟨(0.0, 0.0), fun a b => (a.1 + b.1, a.2 + b.2),
   fun a b => (a.1 * b.1 - a.2 * b.2, a.1 * b.2 + a.2 * b.1)⟩
def c32Codec : Codec C32 :=
  ⟨fun x => (f32 (x % 2 ^ 32), f32 (x / 2 ^ 32)), fun c => bits c.1 + bits c.2 * 2 ^ 32⟩

/-- Gaussian integers, for the FFT filter with an exact engine (integer-valued samples). -/
abbrev GI := Int × Int
def giOps : Ops GI :=
  ⟨(0, 0), fun a b => (a.1 + b.1, a.2 + b.2), fun a b => (a.1 * b.1 - a.2 * b.2, a.1 * b.2 + a.2 * b.1)⟩
def f32ToInt (x : Nat) : Int := (f32 x).toInt64.toInt
def intToF32 (v : Int) : Nat := bits (Float32.ofInt v)
def giCodec : Codec GI :=
  ⟨fun x => (f32ToInt (x % 2 ^ 32), f32ToInt (x / 2 ^ 32)), fun c => intToF32 c.1 + intToF32 c.2 * 2 ^ 32⟩

/-- multiplication by `(-i)^m` -/
def giRot (m : Nat) (c : GI) : GI :=
  match m % 4 with
  | 0 => c
  | 1 => (c.2, -c.1)
  | 2 => (-c.1, -c.2)
  | _ => (-c.2, c.1)

/-- The forward DFT of one frame of `n ∈ {1, 2, 4}` Gaussian integers, exactly (the twiddle factors are powers
of `-i`; `rustfft`'s butterflies compute the same sums exactly in `f32` on small integers). Other sizes: not
modelled (the frame is returned unchanged; the harness only asks for 1, 2, 4). -/
def giDft (n : Nat) (frame : List Nat) : List Nat :=
  if n = 1 ∨ n = 2 ∨ n = 4 then
    let xs := frame.map giCodec.dec
    (List.range n).map fun k =>
      giCodec.enc (((List.range n).map fun j => giRot ((4 / n) * j * k) (xs.getD j (0, 0))).foldl giOps.add (0, 0))
  else frame

/-- `FastFM::process_sync`. State `(q1, q2)`. -/
def fastFm (st : C32 × C32) (s : C32) : (C32 × C32) × Float32 :=
  let (q1, q2) := st
  let top := (s.2 - q2.2) * q1.1
  let bottom := (s.1 - q2.1) * q1.2
  ((s, q1), top - bottom)

/-- `QuadratureDemod::process_sync` (without the `fast-math` feature): `t = s * last.conj()` with
`num_complex`'s product `(ac − bd, ad + bc)`, then `gain * atan2(t.im, t.re)` (libm's `atan2f`). State `last`. -/
def quadDemod (gain : Float32) (last : C32) (s : C32) : C32 × Float32 :=
  let c : C32 := (last.1, -last.2)
  let re := s.1 * c.1 - s.2 * c.2
  let im := s.1 * c.2 + s.2 * c.1
  (s, gain * Float32.atan2 im re)

/-- `f32::clamp(min, max)` (its `assert!(min <= max)` is checked by the caller of this model). -/
def clampF32 (mi mx x : Float32) : Float32 :=
  let x := if x < mi then mi else x
  if x > mx then mx else x

/-! ### CmaEqualizer (`src/cma.rs`, "WIP") -/

/-- one iteration of the sample loop of `CmaEqualizer::work`: `error = |s|² − R`; every tap gets
`+= ((step·error) · conj(coeff)) · s` (`f32 · Complex` scales both parts, then `num_complex`'s product); the output
sample is `Σ tapⱼ · inputⱼ` over the START of the read window (`input.iter()`, not offset by `i`), summed from
`Complex::zero()`. Returns the new taps and the output sample. -/
def cmaStep (modulus step : Float32) (coeffs win : List C32) (taps : List C32) (s : C32) : List C32 × C32 :=
  let err := (s.1 * s.1 + s.2 * s.2) - modulus
  let f := step * err
  let taps' := List.zipWith (fun (t c : C32) =>
    let cc : C32 := (f * c.1, f * (-c.2))
    c32Ops.add t (c32Ops.mul cc s)) taps coeffs
  (taps', (List.zipWith c32Ops.mul taps' win).foldl c32Ops.add c32Ops.zero)

def cmaLoop (modulus step : Float32) (coeffs win : List C32) : List C32 → List C32 → List C32 → List C32 × List C32
  | taps, [], out => (taps, out)
  | taps, s :: rest, out =>
    let r := cmaStep modulus step coeffs win taps s
    cmaLoop modulus step coeffs win r.1 rest (out ++ [r.2])

/-- `CmaEqualizer::work`: exactly `ntaps` samples per call; the coefficients are all zero and never written. -/
def cmaWork (ntaps : Nat) (modulus step : Float32) (taps : List C32) (v : View) : List C32 × Out :=
  let i := in0 v
  if i.samples.length < ntaps then (taps, noOut v (.waitIn 0 ntaps))
  else if (out0 v).free < ntaps then (taps, noOut v (.waitOut 0 ntaps))
  else
    let win := (i.samples.take ntaps).map c32Codec.dec
    let r := cmaLoop modulus step (List.replicate ntaps (0.0, 0.0)) win taps win []
    let tags := i.tags.filter fun t => decide (t.pos < ntaps)
    (r.1, { consumed := [ntaps], produced := [⟨r.2.map c32Codec.enc, tags⟩], verdict := .again })

def cmaBlock (ntaps : Nat) (modulus step : Float32) : Block :=
  { σ := List C32, init := (1.0, 0.0) :: List.replicate (ntaps - 1) (0.0, 0.0)
    work := cmaWork ntaps modulus step, eof := fun _ v => macroEof v }

def dspSync (name : String) (p : List Nat) : Option SyncSpec :=
  match name, p with
  | "iir1", [alpha] =>
    let a := f32 alpha
    some (pureSync Float32 0.0 1 1 fun prev xs =>
      let y := singlePole f32Ops a (1.0 - a) prev (f32 (xs.getD 0 0))
      some (y, [bits y]))
  | "quaddemod", [gain] =>
    some (pureSync C32 (0.0, 0.0) 1 1 fun last xs =>
      let r := quadDemod (f32 gain) last (c32Codec.dec (xs.getD 0 0))
      some (r.1, [bits r.2]))
  | "fastfm", [] =>
    some (pureSync (C32 × C32) ((0.0, 0.0), (0.0, 0.0)) 1 1 fun st xs =>
      let r := fastFm st (c32Codec.dec (xs.getD 0 0))
      some (r.1, [bits r.2]))
  | _, _ => none

def dspRegistry (name : String) (p : List Nat) : Option Block :=
  match name, p with
  | "fir", deci :: taps => some (firBlock f32Ops f32Codec (taps.map f32) deci)
  | "fir_c", deci :: taps => some (firBlock c32Ops c32Codec (taps.map c32Codec.dec) deci)
  | "hilbert", taps =>
    some (hilbertBlock f32Ops f32Codec (fun re im => bits re + bits im * 2 ^ 32) (firFilter f32Ops) (taps.map f32))
  | "hilbert_avx", taps =>
    some (hilbertBlock f32Ops f32Codec (fun re im => bits re + bits im * 2 ^ 32)
      (dotAvx f32Ops) (taps.map f32))
  | "fftx", taps => some (fftBlock giOps giCodec (taps.map giCodec.dec))
  | "fftstream_x", [size] => some (fftStreamBlock (giDft size) size)
  | "cma", [ntaps, modulus, step] => if ntaps = 0 then none else some (cmaBlock ntaps (f32 modulus) (f32 step))
  | _, _ => (dspSync name p).map (·.block)

end RR.Dsp
