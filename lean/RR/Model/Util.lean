/-! Small parsing / printing helpers for the line-protocol driver (core only). -/
namespace RR.Util

def hashM : Nat := 2305843009213693951  -- 2^61 - 1

/-- Polynomial hash of a list of naturals; the harness computes the same. -/
def hashList (l : List Nat) : Nat :=
  l.foldl (fun h v => (h * 1000003 + v % hashM + 1) % hashM) 0

def toks (s : String) : List String :=
  (s.splitOn " ").filter (· ≠ "")

/-- Parse all tokens as naturals; `none` if any token is not a number. -/
def nats (l : List String) : Option (List Nat) :=
  l.mapM (·.toNat?)

def joinWith (sep : String) (l : List String) : String := sep.intercalate l

def natsStr (l : List Nat) : String := " ".intercalate (l.map toString)

end RR.Util
