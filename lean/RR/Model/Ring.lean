import RR.Spec.Fifo
/-
Model of `BufferState` + `Buffer::{produce, consume, read_buf, write_buf, free}`
(`/repo/src/circular_buffer.rs`), in samples.

* `cap` = `circ_len / member_size`.
* `mem c` = the sample stored in cell `c < cap`. A window index `i` is cell
  `(start + i) % cap`: the modulo *is* the double mapping (that the mapping
  really aliases is property C18).
* `tags c` = the `Vec<Tag>` stored under key `c` in the `BTreeMap` (`[]` when
  the key is absent). Keys are always `< cap` because `produce` stores
  `(tag.pos + wpos) % cap`.
* A Rust `assert!`/checked-arithmetic failure is the explicit outcome `none`
  ("refused"), never a default.
-/
namespace RR.Ring

structure Tag where
  pos : Nat
  key : Nat
  val : Nat
deriving DecidableEq, Repr

structure State where
  cap : Nat
  rpos : Nat
  wpos : Nat
  used : Nat
  mem : Nat → Nat
  tags : Nat → List Tag

def init (cap : Nat) : State :=
  { cap := cap, rpos := 0, wpos := 0, used := 0, mem := fun _ => 0, tags := fun _ => [] }

/-- `BufferState::free` = `capacity() - used` (checked subtraction). -/
def free (s : State) : Nat := s.cap - s.used

/-- `write_range()`: `(wpos, wpos + free())`; the window length is `free`. -/
def writeLen (s : State) : Nat := free s

/-- `read_range()`: `(rpos, rpos + used)`. -/
def readLen (s : State) : Nat := s.used

/-- Window index `i` of a window starting at `start` lives in this cell. -/
def cell (s : State) (start i : Nat) : Nat := (start + i) % s.cap

/-- The producer stores `vals` at the front of its write window. -/
def fill (s : State) (vals : List Nat) : State :=
  let a := vals.toArray  -- O(1) indexing for the driver; same values as `vals.getD`
  { s with mem := fun c =>
      let i := (c + s.cap - s.wpos) % s.cap
      if c < s.cap ∧ i < a.size then a.getD i 0 else s.mem c }

/-- Insert one tag as `produce` does. -/
def addTag (s : State) (t : Tag) : State :=
  let c := (t.pos + s.wpos) % s.cap
  { s with tags := fun k => if k = c then s.tags k ++ [{ pos := c, key := t.key, val := t.val }]
                            else s.tags k }

/-- `Buffer::produce(n, tags)`. `none` = one of the two assertions fired. -/
def produce (s : State) (n : Nat) (ts : List Tag) : Option State :=
  if n = 0 then some s
  else if free s < n then none
  else if writeLen s < n then none
  else
    let s1 := ts.foldl addTag s
    some { s1 with wpos := (s.wpos + n) % s.cap, used := s.used + n }

/-- Cells whose tags `consume(n)` removes (for `0 < n`). -/
def consumedCell (s : State) (n : Nat) (c : Nat) : Bool :=
  let newpos := (s.rpos + n) % s.cap
  if newpos > s.rpos then decide (s.rpos ≤ c ∧ c < newpos)
  else decide ((s.rpos ≤ c ∧ c < s.cap) ∨ c < newpos)

/-- `Buffer::consume(n)`. `none` = the assertion fired. -/
def consume (s : State) (n : Nat) : Option State :=
  if s.used < n then none
  else if n = 0 then some s
  else
    some { s with
      tags := fun c => if consumedCell s n c then [] else s.tags c
      rpos := (s.rpos + n) % s.cap
      used := s.used - n }

/-- The pre-fix `consume` (no early return for `n = 0`), kept to state the defect. -/
def consumeOld (s : State) (n : Nat) : Option State :=
  if s.used < n then none
  else
    some { s with
      tags := fun c => if consumedCell s n c then [] else s.tags c
      rpos := (s.rpos + n) % s.cap
      used := s.used - n }

/-- The samples shown by a read window. -/
def window (s : State) : List Nat :=
  (List.range s.used).map fun i => s.mem ((s.rpos + i) % s.cap)

/-- The filter in `read_buf`: is key `c` passed on? -/
def readKeeps (s : State) (c : Nat) : Bool :=
  let start := s.rpos
  let e := s.rpos + s.used
  let m := c % s.cap
  if e < s.cap ∧ start < s.cap then
    !(decide (m < start) || decide (m > e))
  else
    !(decide (m > e % s.cap) && decide (m < start))

/-- Rebase a stored tag to the window. -/
def rebase (s : State) (t : Tag) : Tag :=
  { t with pos := (t.pos + s.cap - s.rpos) % s.cap }

/-- Tags in `BTreeMap` iteration order (ascending key), filtered and rebased. -/
def readTagsUnsorted (s : State) : List Tag :=
  (List.range s.cap).flatMap fun c =>
    if readKeeps s c then (s.tags c).map (rebase s) else []

/-- Stable sort by `pos` for positions `< bound`, written as a bucket sort.
Models `Vec::sort_by_key(|t| t.pos())` (a stable sort) — trusted. -/
def stableSortByPos (bound : Nat) (l : List Tag) : List Tag :=
  (List.range bound).flatMap fun k => l.filter fun t => t.pos == k

/-- The tags returned by `read_buf`. -/
def readTags (s : State) : List Tag := stableSortByPos s.cap (readTagsUnsorted s)

end RR.Ring

namespace RR.Ring
open RR

def ofR (t : Fifo.RTag) : Tag := { pos := t.pos, key := t.key, val := t.val }
def toR (t : Tag) : Fifo.RTag := { pos := t.pos, key := t.key, val := t.val }

/-- One API-level step on the ring. `none` = an assertion fired (the mutex is
poisoned; the stream is dead). -/
def step (s : State) : Fifo.Op → Option State × Fifo.Obs
  | .write vals n ts =>
    if writeLen s < vals.length then (none, .badop)
    else match produce (fill s vals) n (ts.map ofR) with
      | some s' => (some s', .ok)
      | none => (none, .refused)
  | .overcommit extra =>
    match produce s (writeLen s + 1 + extra) [] with
      | some s' => (some s', .ok)
      | none => (none, .refused)
  | .read => (some s, .window (window s) ((readTags s).map toR) (writeLen s))
  | .consume m =>
    match consume s m with
      | some s' => (some s', .ok)
      | none => (none, .refused)
  | .free => (some s, .num (free s))

def run (s : State) : List Fifo.Op → List Fifo.Obs
  | [] => []
  | op :: ops =>
    match step s op with
    | (some s', o) => o :: run s' ops
    | (none, o) => [o]

end RR.Ring

namespace RR.Ring
open RR

/-- The state after a program (if the stream survived it). -/
def exec (s : State) : List Fifo.Op → Option State
  | [] => some s
  | op :: ops =>
    match (step s op).1 with
    | some s' => exec s' ops
    | none => none

/-- `Buffer::new` admission test, in bytes: the page-size test is the kernel's
(`mmap` at a fixed address), the sample-size test is the library's. -/
def newCap (page memberSize size : Nat) : Option Nat :=
  if memberSize = 0 ∨ size % memberSize ≠ 0 then none
  else if size = 0 ∨ size % page ≠ 0 then none
  else some (size / memberSize)

end RR.Ring
