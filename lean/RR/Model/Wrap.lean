import RR.Model.Dsp

/-!
`FftFilterFloat` (src/fft_filter.rs): a complex `FftFilter` "under a trenchcoat" — the block owns two inner
streams, moves its float input into the first as complex samples, runs the wrapped filter between them and
copies the real parts from the second to its output.

Modelled as a wrapper around ANY one-in/one-out block model: the state is the wrapped block's state plus the
contents of the two inner streams. `work()` mirrors the three sections of the Rust function; `eof()` mirrors
the hand-written `BlockEOF` (commit 88f9b55): the outer input has ended and is drained, and either nobody
reads the output any more, or nothing is left inside (inner output stream empty, and the wrapped filter has
less than a batch between its buffer and the inner input stream).
-/
namespace RR.Blk

/-- contents of an inner stream: samples and their tags (positions relative to the first sample) -/
structure Fifo where
  samples : List Nat
  tags : List Tag

def tagUp (d : Nat) (t : Tag) : Tag := { t with pos := d + t.pos }
def tagDown (d : Nat) (t : Tag) : Tag := { t with pos := t.pos - d }

/-- `produce(n, tags)` -/
def Fifo.commit (q : Fifo) (p : Produced) : Fifo :=
  ⟨q.samples ++ p.samples,
   q.tags ++ ((p.tags.filter fun t => decide (t.pos < p.samples.length)).map (tagUp q.samples.length))⟩

/-- `consume(k)` -/
def Fifo.drop (q : Fifo) (k : Nat) : Fifo :=
  ⟨q.samples.drop k, (q.tags.filter fun t => decide (k ≤ t.pos)).map (tagDown k)⟩

structure WrapSt (σ : Type) where
  inner : σ
  qin : Fifo
  qout : Fifo

/-- one `work()` call. `cap`: capacity of each inner stream in samples; `toIn` / `toOut`: the sample
conversions of the first and the last section. -/
def wrapWork (B : Block) (cap : Nat) (toIn toOut : Nat → Nat) (s : WrapSt B.σ) (v : View) : WrapSt B.σ × Out :=
  let w := in0 v
  -- Convert input to Complex.
  let n := min w.samples.length (cap - s.qin.samples.length)
  let qi1 := s.qin.commit ⟨(w.samples.take n).map toIn, w.tags.filter fun t => decide (t.pos < n)⟩
  -- Run Complex FftFilter.
  let r := B.work s.inner ⟨[⟨qi1.samples, qi1.tags, true⟩], [⟨cap - s.qout.samples.length, true⟩]⟩
  let qi2 := qi1.drop (r.2.consumed.getD 0 0)
  let qo1 := s.qout.commit (r.2.produced.getD 0 ⟨[], []⟩)
  -- Replicate stream write.
  let m := min qo1.samples.length (out0 v).free
  let outp : Produced := ⟨(qo1.samples.take m).map toOut, qo1.tags.filter fun t => decide (t.pos < m)⟩
  let qo2 := qo1.drop m
  -- Replace the inner stream wait with an outer stream wait.
  let vd := match r.2.verdict with
    | .waitIn _ _ => Verdict.waitFunc
    | .waitOut _ _ => Verdict.waitFunc
    | x => x
  (⟨r.1, qi2, qo2⟩, { consumed := [n], produced := [outp], verdict := vd })

/-- the hand-written `eof()`; `need st` = samples the wrapped block still lacks for its next batch -/
def wrapEof {σ : Type} (need : σ → Nat) (s : WrapSt σ) (v : View) : Bool :=
  macroEof v && (!(out0 v).alive || (s.qout.samples.isEmpty && decide (s.qin.samples.length < need s.inner)))

def wrapBlock (B : Block) (cap : Nat) (toIn toOut : Nat → Nat) (need : B.σ → Nat) : Block :=
  { σ := WrapSt B.σ, init := ⟨B.init, ⟨[], []⟩, ⟨[], []⟩⟩
    work := wrapWork B cap toIn toOut, eof := wrapEof need }

end RR.Blk

namespace RR.Dsp
open RR.Blk

/-- samples the FFT filter lacks for its next batch -/
def fftNeed {α : Type} (taps : List α) (st : FftSt α) : Nat :=
  (calcFftSize taps.length - taps.length) - st.buf.length

/-- `FftFilterFloat` around the exact (Gaussian integer) engine, one-page inner streams (512 complex samples):
float in = real part, imaginary part 0; float out = real part. -/
def fftFloatX (taps : List Nat) : Block :=
  let t := taps.map giCodec.dec
  wrapBlock (fftBlock giOps giCodec t) 512 (fun x => x % 2 ^ 32) (fun c => c % 2 ^ 32) (fftNeed t)

def wrapRegistry (name : String) (p : List Nat) : Option Block :=
  match name, p with
  | "fftfx", taps => some (fftFloatX taps)
  | _, _ => none

end RR.Dsp
