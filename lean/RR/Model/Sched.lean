/-!
The two graph runners (`src/graph.rs` `Graph::run`, `src/mtgraph.rs`
`MTGraph::run`) as functions of what the blocks answer.

A block is an oracle: the `k`-th call of `work()` answers with a verdict, and
`eof()` / `stream.closed()` / `stream.wait()` answer as scripted. After the
script is exhausted a block answers `EOF`.
-/
namespace RR.Sched

inductive Verdict where
  | again
  | pending
  | waitFunc
  /-- `WaitForStream(s, n)`; `closed` = `s.closed()`, `never` = `s.wait(n)` -/
  | waitStream (closed never : Bool)
  | eof
  | err
deriving DecidableEq, Repr

structure Call where
  v : Verdict
  /-- what `b.eof()` answers when asked after this call -/
  eofAfter : Bool
  /-- the call committed or consumed samples/packets on some stream -/
  moved : Bool := false
deriving DecidableEq, Repr

abbrev Script := List Call

def callAt (s : Script) (k : Nat) : Call := s.getD k ⟨.eof, true, false⟩

/-! ## Single-threaded runner -/

structure ST where
  /-- calls made so far, per block -/
  pos : List Nat
  /-- `eof[n]` flags -/
  retired : List Bool
  /-- call log: block index of every `work()` call, in order -/
  log : List Nat
  /-- ghost: what each of those calls answered -/
  answers : List Call
deriving DecidableEq, Repr

inductive Result where
  | ok
  | err (block : Nat)
  | outOfFuel
deriving DecidableEq, Repr

structure PassOut where
  st : ST
  done : Bool
  /-- the stream activity counter changed during the pass -/
  moved : Bool
  /-- `Some(n)`: `work()?` of block `n` returned the error out of `run()` -/
  failed : Option Nat
deriving Repr

/-- One `work()` call of block `n` and the `match ret` that follows it. -/
def doCall (scripts : List Script) (acc : PassOut) (n : Nat) : PassOut :=
  let st := acc.st
  let k := st.pos.getD n 0
  let c := callAt (scripts.getD n []) k
  let st1 : ST := { st with pos := st.pos.set n (k + 1), log := st.log ++ [n],
                            answers := st.answers ++ [c] }
  let mv := acc.moved || c.moved
  let retire (st : ST) : ST := { st with retired := st.retired.set n true }
  match c.v with
  | .err => ⟨st1, acc.done, mv, some n⟩
  | .again => ⟨st1, false, mv, none⟩
  | .pending => ⟨st1, false, mv, none⟩
  | .waitFunc => ⟨if c.eofAfter then retire st1 else st1, acc.done, mv, none⟩
  | .waitStream closed _ => ⟨if c.eofAfter || closed then retire st1 else st1, acc.done, mv, none⟩
  | .eof => ⟨retire st1, acc.done, mv, none⟩

/-- Body of `for (n, b) in self.blocks.iter_mut().enumerate()`: nothing after
an error (`?` returned), retired blocks are skipped. -/
def callBlock (scripts : List Script) (acc : PassOut) (n : Nat) : PassOut :=
  if acc.failed.isSome then acc
  else if acc.st.retired.getD n false then acc
  else doCall scripts acc n

/-- One pass over the blocks, in the order they were added. -/
def pass (scripts : List Script) (st : ST) : PassOut :=
  (List.range scripts.length).foldl (callBlock scripts) ⟨st, true, false, none⟩

/-- `cancelAt = some c`: the token is set during the `c`-th `work()` call
(1-based, counted over all blocks); `some 0` = set before `run()`. -/
def cancelled (cancelAt : Option Nat) (st : ST) : Bool :=
  match cancelAt with
  | some c => decide (c ≤ st.log.length)
  | none => false

def stLoop (scripts : List Script) (cancelAt : Option Nat) (st : ST) : Nat → Result × ST
  | 0 => (.outOfFuel, st)
  | fuel + 1 =>
    if cancelled cancelAt st then (.ok, st)
    else
      let p := pass scripts st
      match p.failed with
      | some n => (.err n, p.st)
      | none => if p.done && !p.moved then (.ok, p.st) else stLoop scripts cancelAt p.st fuel

def stInit (scripts : List Script) : ST :=
  { pos := scripts.map fun _ => 0, retired := scripts.map fun _ => false, log := [], answers := [] }

def totalCalls (scripts : List Script) : Nat := (scripts.map List.length).sum

def stRun (scripts : List Script) (cancelAt : Option Nat) : Result × ST :=
  stLoop scripts cancelAt (stInit scripts) (totalCalls scripts + scripts.length + 2)

/-! ## Multi-threaded runner: one thread per block -/

inductive Exit where
  | cancelled
  | eof          -- `BlockRet::EOF`
  | retired      -- `b.eof()` or a `true` wait
  | failed
  | outOfFuel
deriving DecidableEq, Repr

/-- Is the token seen set at the loop-head check before call number `k`? -/
def seenCancel : Option Nat → Nat → Bool
  | some c, k => decide (c ≤ k)
  | none, _ => false

/-- The loop of one block thread. `cancelAt = some c`: the token is seen set at
the loop-head check before call number `c` (0-based) and at every later check. -/
def mtLoop (script : Script) (cancelAt : Option Nat) (k : Nat) : Nat → Nat × Exit
  | 0 => (k, .outOfFuel)
  | fuel + 1 =>
    if seenCancel cancelAt k then (k, .cancelled)
    else
      let c := callAt script k
      match c.v with
      | .err => (k + 1, .failed)
      | .again => mtLoop script cancelAt (k + 1) fuel
      | .pending => mtLoop script cancelAt (k + 1) fuel
      | .eof => (k + 1, .eof)
      | .waitFunc => if c.eofAfter then (k + 1, .retired) else mtLoop script cancelAt (k + 1) fuel
      | .waitStream _ never =>
        if c.eofAfter || never then (k + 1, .retired) else mtLoop script cancelAt (k + 1) fuel

def mtThread (script : Script) (cancelAt : Option Nat) : Nat × Exit :=
  mtLoop script cancelAt 0 (script.length + 2)

/-- `MTGraph::run`: all threads are joined; the result is the first failure in
the order the blocks were added, else `Ok`. -/
def mtResult (exits : List Exit) : Result :=
  match exits.findIdx? (· == .failed) with
  | some n => .err n
  | none => .ok

end RR.Sched
