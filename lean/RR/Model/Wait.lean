/-!
End-of-stream decisions (`src/stream.rs`: `ReadStream::wait_for_read`,
`WriteStream::wait_for_write`, `ReadStream::eof`, `NCReadStream::{wait, eof}`,
`NCWriteStream::wait`).

A decision is computed from two observations of shared state: the amount
available (`used`, queue length or free space — read under the lock) and the
liveness of the peer handle (`Arc::strong_count == 1`, a racy read). The
*order* of the two observations is data generated from the source
(`RR/Gen/Waits.lean`); the peer thread (the environment) can take any number of
steps before, between and after them.
-/
namespace RR.Wait

/-- Shared state seen by the deciding side. `avail` = samples readable (reader
side) or free space (writer side); `peerAlive` = the other handle still exists. -/
structure Sh where
  avail : Nat
  peerAlive : Bool
deriving DecidableEq, Repr

/-- Steps of the peer thread. A peer that is gone does nothing any more. -/
inductive Env where
  | add (n : Nat)     -- commit n samples / push a packet / consume n (frees space)
  | drop              -- the peer's stream handle is dropped
deriving DecidableEq, Repr

def envStep (s : Sh) : Env → Sh
  | .add n => if s.peerAlive then { s with avail := s.avail + n } else s
  | .drop => { s with peerAlive := false }

/-- One observation by the deciding side. -/
inductive Obs where
  | alive    -- reads `strong_count`
  | avail    -- reads the amount under the lock (a wait that returns or times out)
  | both     -- reads both while holding the lock
deriving DecidableEq, Repr

structure Local where
  a : Option Bool := none
  u : Option Nat := none
deriving DecidableEq, Repr

def observe (s : Sh) (l : Local) : Obs → Local
  | .alive => { l with a := some s.peerAlive }
  | .avail => { l with u := some s.avail }
  | .both => { a := some s.peerAlive, u := some s.avail }

/-- Run a decision program under a schedule: `none` = the deciding thread
performs its next observation, `some e` = the peer performs `e`. Returns the
shared state, the local observations and the observations not yet performed. -/
def exec (prog : List Obs) (s : Sh) (l : Local) : List (Option Env) → Sh × Local × List Obs
  | [] => (s, l, prog)
  | some e :: rest => exec prog (envStep s e) l rest
  | none :: rest =>
    match prog with
    | [] => exec [] s l rest
    | o :: prog' => exec prog' s (observe s l o) rest

/-- The verdict "`need` will never be satisfied": fewer than `need` seen and peer seen gone. -/
def verdict (l : Local) (need : Nat) : Bool :=
  match l.a, l.u with
  | some a, some u => decide (u < need) && !a
  | _, _ => false

/-- Reader-side soundness: a completed call that says `true` is right at its
return point: the peer is gone and fewer than `need` are available. -/
def SoundReader (prog : List Obs) : Prop :=
  ∀ (s : Sh) (sched : List (Option Env)) (need : Nat),
    let r := exec prog s {} sched
    r.2.2 = [] → verdict r.2.1 need = true → r.1.peerAlive = false ∧ r.1.avail < need

/-- Writer-side soundness (what the property asks of a writer waiting for
space): `true` only if the reader is gone, so no data can be lost by giving up. -/
def SoundWriter (prog : List Obs) : Prop :=
  ∀ (s : Sh) (sched : List (Option Env)) (need : Nat),
    let r := exec prog s {} sched
    r.2.2 = [] → verdict r.2.1 need = true → r.1.peerAlive = false

/-- Arrival: once the peer is gone and the remainder is insufficient, every
completed call says `true` (so the very next wait releases the caller). -/
def Arrives (prog : List Obs) : Prop :=
  ∀ (s : Sh) (sched : List (Option Env)) (need : Nat),
    s.peerAlive = false → s.avail < need →
    let r := exec prog s {} sched
    r.2.2 = [] → verdict r.2.1 need = true

/-- A program observes both facts. -/
def Complete (prog : List Obs) : Bool :=
  (prog.contains .both) || (prog.contains .alive && prog.contains .avail)

end RR.Wait
