/-!
The address-space side of a stream (`Circ::new`, `Map`, their `Drop`s in
`src/circular_buffer.rs`). Memory is modelled in units of the requested stream
size `S`: unit `u` of the region that starts at the base address of the first
mapping is backed by unit `f` of the temp file. `mmap` of `m` units maps file
units `0 … m-1`; `MAP_FIXED` replaces whatever is there; `munmap` removes.
-/
namespace RR.Mmap

inductive Call where
  | open_                                   -- unlinked temp file
  | truncate (m : Nat)                      -- ftruncate to m units
  | mmap (m : Nat) (ok : Bool)              -- mmap(NULL, m*S, MAP_SHARED, fd, 0)
  | mmapFixed (off len : Nat) (ok : Bool)   -- mmap(base + off*S, len*S, MAP_SHARED|MAP_FIXED, fd, 0)
  | munmap (off len : Nat)
  | close
  | created                                 -- the constructor returned Ok
  | refused                                 -- the constructor returned Err
deriving DecidableEq, Repr

structure VM where
  /-- (unit of the region, unit of the file backing it) -/
  maps : List (Nat × Nat)
  fdOpen : Bool
  fileUnits : Nat
  outcome : Option Bool
deriving DecidableEq, Repr

def VM.init : VM := { maps := [], fdOpen := false, fileUnits := 0, outcome := none }

def unmapRange (maps : List (Nat × Nat)) (off len : Nat) : List (Nat × Nat) :=
  maps.filter fun m => !(decide (off ≤ m.1) && decide (m.1 < off + len))

def step (v : VM) : Call → VM
  | .open_ => { v with fdOpen := true }
  | .truncate m => { v with fileUnits := m }
  | .mmap m ok => if ok then { v with maps := v.maps ++ (List.range m).map fun u => (u, u) } else v
  | .mmapFixed off len ok =>
    if ok then { v with maps := unmapRange v.maps off len ++ (List.range len).map fun u => (off + u, u) } else v
  | .munmap off len => { v with maps := unmapRange v.maps off len }
  | .close => { v with fdOpen := false }
  | .created => { v with outcome := some true }
  | .refused => { v with outcome := some false }

def run (v : VM) (cs : List Call) : VM := cs.foldl step v

/-- units of the region currently mapped by this stream -/
def mapped (v : VM) (u : Nat) : Bool := v.maps.any fun m => m.1 == u

/-- The stream only ever touches address space it holds: every `munmap` and every `MAP_FIXED` mapping covers
units that are mapped by this stream at that moment. (A `munmap` of a range already released, or a `MAP_FIXED`
onto a range given back before, hits whatever another thread was handed there in between.) -/
def ownOnly : VM → List Call → Bool
  | _, [] => true
  | v, c :: rest =>
    (match c with
     | .munmap off len => (List.range len).all fun u => mapped v (off + u)
     | .mmapFixed off len _ => (List.range len).all fun u => mapped v (off + u)
     | _ => true) && ownOnly (step v c) rest

/-- Which file unit backs region unit `u`. -/
def backing (v : VM) (u : Nat) : Option Nat := (v.maps.find? fun m => m.1 == u).map (·.2)

/-- The calls up to and including the constructor's return. -/
def untilReturn : List Call → List Call
  | [] => []
  | c :: rest => if c = .created ∨ c = .refused then [c] else c :: untilReturn rest

end RR.Mmap
