import RR.Model.Block

/-!
The `work()` that `#[derive(Block)] #[rustradio(sync)]` / `sync_tag` generates
(`rustradio_macros/src/lib.rs`), for any number of inputs and outputs and any
(stateful) per-sample function.
-/
namespace RR.Blk

/-- What the user writes: `process_sync` / `process_sync_tags`.
`f st samples tags = some (st', outs, otags)`: one sample per input, for each
input the tags sitting on that sample (positions reset to 0); one sample per
output and the tags to attach to this position. `none` = the function panicked
(e.g. integer overflow with overflow checks on). -/
structure SyncSpec where
  σ : Type
  init : σ
  nin : Nat
  nout : Nat
  f : σ → List Nat → List (List Tag) → Option (σ × List Nat × List Tag)

/-- Index of the first element satisfying `p`. -/
def firstIdx {α} (l : List α) (p : α → Bool) : Option Nat := l.findIdx? p

/-- What `f` is given at window position `pos`: one sample per input, and for
each input the tags on that sample with their position reset to 0. -/
def viewAt (ins : List InView) (pos : Nat) : List Nat × List (List Tag) :=
  (ins.map fun i => i.samples.getD pos 0,
   ins.map fun i => (i.tags.filter fun t => t.pos == pos).map fun t => { t with pos := 0 })

/-- Process positions `pos, pos+1, …, pos+k-1` of a position-indexed input.
Returns the new state, the rows of output samples (one row per position) and
the output tags (position = the position processed). -/
def syncLoopG (S : SyncSpec) (get : Nat → List Nat × List (List Tag)) :
    S.σ → Nat → Nat → Option (S.σ × List (List Nat) × List Tag)
  | st, _, 0 => some (st, [], [])
  | st, pos, k + 1 =>
    match S.f st (get pos).1 (get pos).2 with
    | none => none
    | some (st1, outs, ots) =>
      match syncLoopG S get st1 (pos + 1) k with
      | none => none
      | some (st2, rows, ts) =>
        some (st2, outs :: rows, (ots.map fun t => { t with pos := pos }) ++ ts)

def syncLoop (S : SyncSpec) (ins : List InView) := syncLoopG S (viewAt ins)

def minList (l : List Nat) (init : Nat) : Nat := l.foldl min init

def syncWork (S : SyncSpec) (st : S.σ) (v : View) : S.σ × Out :=
  let nothing (vd : Verdict) : S.σ × Out :=
    (st, { consumed := v.ins.map fun _ => 0, produced := v.outs.map fun _ => ⟨[], []⟩, verdict := vd })
  match firstIdx v.ins (fun i => i.samples.isEmpty) with
  | some k => nothing (.waitIn k 1)
  | none =>
    match firstIdx v.outs (fun o => o.free == 0) with
    | some k => nothing (.waitOut k 1)
    | none =>
      let n := minList (v.outs.map (·.free)) (minList (v.ins.map (·.samples.length)) (2 ^ 64 - 1))
      match syncLoop S v.ins st 0 n with
      | none => nothing .panic
      | some (st', rows, ts) =>
        (st', { consumed := v.ins.map fun _ => n
                produced := (List.range v.outs.length).map fun j =>
                  ⟨rows.map fun r => r.getD j 0, ts⟩
                verdict := .again })

def SyncSpec.block (S : SyncSpec) : Block :=
  { σ := S.σ, init := S.init, work := syncWork S, eof := fun _ v => macroEof v }

/-- A plain `sync` block: `process_sync` on samples, tags of the first input pass through. -/
def pureSync (σ : Type) (init : σ) (nin nout : Nat)
    (g : σ → List Nat → Option (σ × List Nat)) : SyncSpec :=
  { σ := σ, init := init, nin := nin, nout := nout
    f := fun st xs tags =>
      match g st xs with
      | none => none
      | some (st', ys) => some (st', ys, tags.headD []) }

end RR.Blk
