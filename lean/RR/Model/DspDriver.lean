import RR.Model.Dsp
import RR.Model.Util

/-! `dsp …` requests: the kernels of `RR.Dsp` in `Float32`, bit for bit. -/
namespace RR.DspDriver
open RR RR.Blk RR.Dsp RR.Util

def hashF (l : List Float32) : String := s!"{l.length}:{hashList (l.map bits)}"

def handle (args : String) : String :=
  match (args.splitOn ";").map toks with
  | ["dot", kernel] :: rt :: input :: [] =>
    match nats rt, nats input with
    | some rt, some input =>
      let rt := rt.map f32
      let input := input.map f32
      match kernel with
      | "scalar" =>
        match firFilter f32Ops rt input with
        | some v => toString (bits v)
        | none => "panic"
      | "avx" =>
        match dotAvx f32Ops rt input with
        | some v => toString (bits v)
        | none => "panic"
      | "simd" =>
        match dotSimd f32Ops rt input with
        | some v => toString (bits v)
        | none => "panic"
      | _ => "bad-op"
    | _, _ => "bad-op"
  | ["firn", deci] :: taps :: input :: [] =>
    match deci.toNat?, nats taps, nats input with
    | some deci, some taps, some input =>
      match filterNAll f32Ops (firNew (taps.map f32)) (input.map f32) deci with
      | some l => hashF l
      | none => "panic"
    | _, _, _ => "bad-op"
  | ["iir"] :: taps :: input :: [] =>
    match nats taps, nats input with
    | some taps, some input =>
      match iirRun f32Ops (taps.map f32) [] (input.map f32) with
      | some l => hashF l
      | none => "panic"
    | _, _ => "bad-op"
  | ["iirc"] :: taps :: [mi, mx] :: input :: [] =>
    match nats taps, mi.toNat?, mx.toNat?, nats input with
    | some taps, some mi, some mx, some input =>
      -- `assert!(min <= max)` of f32::clamp (false for NaN bounds too)
      if !(f32 mi <= f32 mx) then (if input.isEmpty || taps.isEmpty then hashF [] else "panic")
      else
        match iirClampRun f32Ops (clampF32 (f32 mi) (f32 mx)) (taps.map f32) [] (input.map f32) with
        | some l => hashF l
        | none => "panic"
    | _, _, _, _ => "bad-op"
  | [["fftsize", n]] =>
    match n.toNat? with
    | some n => toString (calcFftSize n)
    | none => "bad-op"
  | _ => "bad-op"

end RR.DspDriver
