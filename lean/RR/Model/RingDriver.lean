import RR.Model.Ring
import RR.Model.Util

/-! Line protocol for the ring model: `ring <bits> <cap> ; op ; op …` -/
namespace RR.RingDriver
open RR RR.Util

def parseTags : List Nat → List Fifo.RTag
  | p :: k :: v :: rest => ⟨p, k, v⟩ :: parseTags rest
  | _ => []

def parseOp (bits : Nat) (s : String) : Option Fifo.Op :=
  match toks s with
  | "w" :: rest =>
    match nats rest with
    | some (k :: seed :: n :: nt :: ts) =>
      if ts.length = 3 * nt then
        some (.write ((List.range k).map fun i => (seed + i) % 2 ^ bits) n (parseTags ts))
      else none
    | _ => none
  | ["o", e] => e.toNat?.map .overcommit
  | ["r"] => some .read
  | ["c", m] => m.toNat?.map .consume
  | ["f"] => some .free
  | _ => none

def showObs : Fifo.Obs → String
  | .ok => "ok"
  | .refused => "refused"
  | .badop => "badop"
  | .num n => s!"num {n}"
  | .window vals tags w =>
    let ts := tags.map fun t => s!"{t.pos},{t.key},{t.val}"
    s!"win {vals.length} {w} {hashList vals} [{" ".intercalate ts}]"

/-- `x` = an attempt to copy more samples into a write window than it has (`fill_from_slice` with a source
longer than the window): the model has no such write (`.write` beyond the window is not an operation of
the stream); the stream must refuse it and stay as it was. -/
def parseOpX (bits : Nat) (s : String) : Option (Option Fifo.Op) :=
  match toks s with
  | ["x"] => some none
  | _ => (parseOp bits s).map some

def runX (s : Ring.State) : List (Option Fifo.Op) → List Fifo.Obs
  | [] => []
  | none :: ops => .refused :: runX s ops
  | some op :: ops =>
    match Ring.step s op with
    | (some s', o) => o :: runX s' ops
    | (none, o) => [o]

def handle (args : String) : String :=
  match args.splitOn ";" with
  | hd :: ops =>
    match nats (toks hd) with
    | some [bits, cap] =>
      match ops.mapM (parseOpX bits) with
      | some ops => " ; ".intercalate ((runX (Ring.init cap) ops).map showObs)
      | none => "bad-op"
    | _ => "bad-op"
  | [] => "bad-op"

/-- `ringnew <page> <memberSize> <size>` -/
def handleNew (args : String) : String :=
  match nats (toks args) with
  | some [page, ms, size] =>
    match Ring.newCap page ms size with
    | some c => s!"some {c}"
    | none => "none"
  | _ => "bad-op"

end RR.RingDriver
