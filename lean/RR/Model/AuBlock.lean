import RR.Model.Au
import RR.Model.Hand
import RR.Model.Blocks

/-!
`AuDecode::work` (src/au.rs) as a block: the decoder's state machine over read
windows of any size. `deq` is the PCM16 → float conversion
(`i16::from_be_bytes(..) as f32 / 32767.0`, bit-exact in the driver).
-/
namespace RR.Au
open RR RR.Blk

inductive DecSt where
  | magic
  | size
  | header (off : Nat)
  | data
deriving Repr, DecidableEq

def errOut (v : View) (consumed : Nat) : Out :=
  { consumed := [consumed], produced := v.outs.map fun _ => ⟨[], []⟩, verdict := .err }

def stepOut (v : View) (consumed : Nat) (samples : List Nat) : Out :=
  { consumed := [consumed], produced := [⟨samples, []⟩], verdict := .again }

def decWork (bitrate : Nat) (deq : Nat → Nat) (st : DecSt) (v : View) : DecSt × Out :=
  let i := (in0 v).samples
  if i.isEmpty then (st, noOut v (.waitIn 0 1))
  else match st with
    | .magic =>
      if i.length < 4 then (st, noOut v (.waitIn 0 4))
      -- the four bytes are consumed before the magic is examined
      else if ofBeBytes (i.take 4) ≠ magic then (st, errOut v 4)
      else (.size, stepOut v 4 [])
    | .size =>
      if i.length < 4 then (st, noOut v (.waitIn 0 4))
      else (.header (ofBeBytes (i.take 4)), stepOut v 4 [])
    | .header off =>
      if off < 24 then (st, errOut v 0)
      else if i.length < off - 8 then (st, noOut v (.waitIn 0 (off - 8)))
      else
        let head := i.take (off - 8)
        -- `head[4..8]`, `head[8..12]`, `head[12..16]` are slice indexings: out of range = panic
        if head.length < 16 then (st, { consumed := [0], produced := [⟨[], []⟩], verdict := .panic })
        else if ofBeBytes ((head.drop 4).take 4) ≠ pcm16 then (st, errOut v 0)
        else if ofBeBytes ((head.drop 8).take 4) ≠ bitrate then (st, errOut v 0)
        else if ofBeBytes ((head.drop 12).take 4) ≠ 1 then (st, errOut v 0)
        else (.data, stepOut v (off - 8) [])
    | .data =>
      let n := min i.length ((out0 v).free * 2)
      let n := n - n % 2
      if n == 0 then
        if i.length < 2 then (st, noOut v (.waitIn 0 2)) else (st, noOut v (.waitOut 0 1))
      else (st, stepOut v n ((pairsBE (i.take n)).map deq))

def decBlock (bitrate : Nat) (deq : Nat → Nat) : Block :=
  { σ := DecSt, init := .magic, work := decWork bitrate deq, eof := fun _ v => macroEof v }

/-- `(i16 as f32) / 32767.0` on a 16-bit pattern, as an `f32` bit pattern -/
def deqF32 (p : Nat) : Nat :=
  let v : Int := if p < 32768 then (p : Int) else (p : Int) - 65536
  Blk.bits (Float32.ofInt v / 32767.0)

/-! ### AuEncode::work -/

/-- state: the header bytes not yet written (`None` once the header is out) -/
abbrev EncSt := Option (List Nat)

def encWork (q : Nat → Nat) (st : EncSt) (v : View) : EncSt × Out :=
  let free := (out0 v).free
  match st with
  | some h =>
    if free == 0 then (st, noOut v (.waitOut 0 1))
    else
      let n := min h.length free
      let rest := h.drop n
      (if rest.isEmpty then none else some rest,
       { consumed := [0], produced := [⟨h.take n, []⟩], verdict := .again })
  | none =>
    let i := (in0 v).samples
    if i.isEmpty then (st, noOut v (.waitIn 0 1))
    else
      let n := min i.length (free / 2)
      if n == 0 then (st, noOut v (.waitOut 0 2))
      else (st, { consumed := [n], produced := [⟨(i.take n).flatMap fun x => beBytes 2 (q x), []⟩], verdict := .again })

def encBlock (bitrate : Nat) (q : Nat → Nat) : Block :=
  { σ := EncSt, init := some (header bitrate), work := encWork q, eof := fun _ v => macroEof v }

/-- `(x * 32767.0) as i16` on an `f32` bit pattern, as a 16-bit two's-complement pattern -/
def qF32 (x : Nat) : Nat := ((Blk.f32 x * 32767.0).toInt16.toUInt16).toNat

end RR.Au
