import RR.Model.Au
import RR.Model.Hand
import RR.Model.Blocks

/-!
`AuDecode::work` (src/au.rs) as a block: the decoder's state machine over read
windows of any size. `deq` is the PCM16 → float conversion
(`i16::from_be_bytes(..) as f32 / 32767.0`, bit-exact in the driver).
-/
namespace RR.Au
open RR RR.Blk

inductive DecSt where
  | magic
  | size
  | header (off : Nat)
  | data
deriving Repr, DecidableEq

def errOut (v : View) (consumed : Nat) : Out :=
  { consumed := [consumed], produced := v.outs.map fun _ => ⟨[], []⟩, verdict := .err }

def stepOut (v : View) (consumed : Nat) (samples : List Nat) : Out :=
  { consumed := [consumed], produced := [⟨samples, []⟩], verdict := .again }

def decWork (bitrate : Nat) (deq : Nat → Nat) (st : DecSt) (v : View) : DecSt × Out :=
  let i := (in0 v).samples
  if i.isEmpty then (st, noOut v (.waitIn 0 1))
  else match st with
    | .magic =>
      if i.length < 4 then (st, noOut v (.waitIn 0 4))
      -- the four bytes are consumed before the magic is examined
      else if ofBeBytes (i.take 4) ≠ magic then (st, errOut v 4)
      else (.size, stepOut v 4 [])
    | .size =>
      if i.length < 4 then (st, noOut v (.waitIn 0 4))
      else (.header (ofBeBytes (i.take 4)), stepOut v 4 [])
    | .header off =>
      if off < 24 then (st, errOut v 0)
      else if i.length < off - 8 then (st, noOut v (.waitIn 0 (off - 8)))
      else
        let head := i.take (off - 8)
        -- `head[4..8]`, `head[8..12]`, `head[12..16]` are slice indexings: out of range = panic
        if head.length < 16 then (st, { consumed := [0], produced := [⟨[], []⟩], verdict := .panic })
        else if ofBeBytes ((head.drop 4).take 4) ≠ pcm16 then (st, errOut v 0)
        else if ofBeBytes ((head.drop 8).take 4) ≠ bitrate then (st, errOut v 0)
        else if ofBeBytes ((head.drop 12).take 4) ≠ 1 then (st, errOut v 0)
        else (.data, stepOut v (off - 8) [])
    | .data =>
      let n := min i.length ((out0 v).free * 2)
      let n := n - n % 2
      if n == 0 then
        if i.length < 2 then (st, noOut v (.waitIn 0 2)) else (st, noOut v (.waitOut 0 1))
      else (st, stepOut v n ((pairsBE (i.take n)).map deq))

def decBlock (bitrate : Nat) (deq : Nat → Nat) : Block :=
  { σ := DecSt, init := .magic, work := decWork bitrate deq, eof := fun _ v => macroEof v }

/-- `(i16 as f32) / 32767.0` on a 16-bit pattern, as an `f32` bit pattern -/
def deqF32 (p : Nat) : Nat :=
  let v : Int := if p < 32768 then (p : Int) else (p : Int) - 65536
  Blk.bits (Float32.ofInt v / 32767.0)

end RR.Au
