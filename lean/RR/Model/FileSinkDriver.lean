import RR.Model.FileSink
import RR.Gen.FileSink
import RR.Model.Util

/-! `fsink <sink> <mode> <initial> <old bytes…> ; <new bytes…>` → `ok <content…>` / `err` -/
namespace RR.FileSinkDriver
open RR RR.FileSink RR.Util

def flagsOf (sink mode : String) : Option OpenFlags :=
  match sink, mode with
  | "stream", "create" => some Gen.fileSinkCreate
  | "stream", "overwrite" => some Gen.fileSinkOverwrite
  | "stream", "append" => some Gen.fileSinkAppend
  | "packet", "create" => some Gen.ncFileSinkCreate
  | "packet", "overwrite" => some Gen.ncFileSinkOverwrite
  | "packet", "append" => some Gen.ncFileSinkAppend
  | _, _ => none

def handle (args : String) : String :=
  match args.splitOn ";" with
  | [hd, newS] =>
    match toks hd, nats (toks newS) with
    | sink :: mode :: initial :: oldS, some new =>
      match flagsOf sink mode, nats oldS with
      | some f, some old =>
        let e : Option Entry :=
          match initial with
          | "absent" => some .absent
          | "file" => some (.file old)
          | "dir" => some .dir
          | "unwritable" => some (.unwritable old)
          | _ => none
        match e with
        | some e =>
          match openSem f e with
          | .ok start => s!"ok {natsStr (afterWrite start new)}".trimAscii.toString
          | .error _ => "err"
        | none => "bad-op"
      | _, _ => "bad-op"
    | _, _ => "bad-op"
  | _ => "bad-op"

end RR.FileSinkDriver
