import RR.Model.Codec

/-!
`TcpSource::work` (src/tcp_source.rs) after a successful `read()`: the carry
buffer for a sample split across reads, mirrored line for line.
-/
namespace RR.Codec

/-- `chunk` = the bytes one `read()` returned (non-empty: 0 bytes is the closed connection);
`buf` = the partial sample kept from earlier reads. Returns the new `buf` and the samples pushed. -/
def tcpStep (t : Ty) (buf chunk : List Nat) : List Nat × List Val :=
  let size := t.size
  let n := chunk.length
  -- if !self.buf.is_empty() { steal = min(size - buf.len(), n); buf.extend(&buffer[0..steal]); … }
  let steal := if buf.isEmpty then 0 else min (size - buf.length) n
  let buf1 := if buf.isEmpty then buf else buf ++ chunk.take steal
  let done := !buf.isEmpty && buf1.length == size
  let v0 := if done then (parse t buf1).toList else []
  let buf2 := if done then [] else buf1
  -- let remaining = (n - steal) % size; for pos in (steal..(n - remaining)).step_by(size) { … }
  let remaining := (n - steal) % size
  let v := v0 ++ parseAll t ((chunk.drop steal).take (n - remaining - steal))
  -- if steal < n { self.buf.extend(&buffer[n - remaining..n]); }
  let buf3 := if steal < n then buf2 ++ chunk.drop (n - remaining) else buf2
  (buf3, v)

def tcpAll (t : Ty) : List Nat → List (List Nat) → List Nat × List (List Val)
  | buf, [] => (buf, [])
  | buf, c :: rest =>
    let (b1, v1) := tcpStep t buf c
    let (b2, v2) := tcpAll t b1 rest
    (b2, v1 :: v2)

end RR.Codec
