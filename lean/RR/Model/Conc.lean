import RR.Model.Ring

/-!
Two threads sharing one stream (`src/circular_buffer.rs`, `src/stream.rs`).

Atomic steps are the mutex critical sections of `write_buf`, `produce`,
`read_buf`, `consume`, `free`, `wait_for_*`. Reads and writes of sample cells
through a window are separate, non-atomic steps that can be interleaved in any
order with anything the other thread does. A schedule is an arbitrary list of
steps; a step whose guard is false is not enabled (the state is unchanged and
the step reports `blocked`), so every list is a schedule.
-/
namespace RR.Conc
open RR

/-- A live window: snapshot of `(start, len)` taken under the lock. -/
structure Win where
  start : Nat
  len : Nat
deriving DecidableEq, Repr

structure State where
  ring : Ring.State
  /-- producer's live `BufferWriter`, if any -/
  pw : Option Win
  /-- consumer's live `BufferReader`, if any -/
  pr : Option Win
  /-- ghost: everything ever committed, in order -/
  hist : List Nat
  /-- ghost: number of samples consumed so far -/
  consumed : Nat

inductive Step where
  /-- producer: `write_buf()` -/
  | acqW
  /-- producer: store `v` at window index `i` -/
  | put (i v : Nat)
  /-- producer: `produce(n, [])` on the live writer -/
  | commit (n : Nat)
  /-- consumer: `read_buf()` -/
  | acqR
  /-- consumer: load window index `j` -/
  | get (j : Nat)
  /-- consumer: `consume(m)` on the live reader -/
  | consume (m : Nat)
  /-- either side: `free()` / a wait that returns or times out: reads counters under the lock -/
  | peek
deriving Repr

inductive Out where
  | none
  | blocked
  | value (v : Nat)
  | counts (used free : Nat)
deriving DecidableEq, Repr

def init (cap : Nat) : State :=
  { ring := Ring.init cap, pw := none, pr := none, hist := [], consumed := 0 }

def cellOf (s : State) (w : Win) (i : Nat) : Nat := (w.start + i) % s.ring.cap

def step (s : State) : Step → State × Out
  | .acqW =>
    match s.pw with
    | some _ => (s, .blocked)   -- protocol: one live writer per side
    | none => ({ s with pw := some ⟨s.ring.wpos, Ring.writeLen s.ring⟩ }, .none)
  | .put i v =>
    match s.pw with
    | some w =>
      if i < w.len then
        let c := cellOf s w i
        ({ s with ring := { s.ring with mem := fun k => if k = c then v else s.ring.mem k } }, .none)
      else (s, .blocked)        -- out of the window: a Rust slice index panic
    | none => (s, .blocked)
  | .commit n =>
    match s.pw with
    | some w =>
      if n ≤ w.len then
        match Ring.produce s.ring n [] with
        | some r =>
          let vals := (List.range n).map fun i => s.ring.mem (cellOf s w i)
          ({ s with ring := r, pw := none, hist := s.hist ++ vals }, .none)
        | none => (s, .blocked)
      else (s, .blocked)
    | none => (s, .blocked)
  | .acqR =>
    match s.pr with
    | some _ => (s, .blocked)
    | none => ({ s with pr := some ⟨s.ring.rpos, Ring.readLen s.ring⟩ }, .none)
  | .get j =>
    match s.pr with
    | some w => if j < w.len then (s, .value (s.ring.mem (cellOf s w j))) else (s, .blocked)
    | none => (s, .blocked)
  | .consume m =>
    match s.pr with
    | some w =>
      if m ≤ w.len then
        match Ring.consume s.ring m with
        | some r => ({ s with ring := r, pr := none, consumed := s.consumed + m }, .none)
        | none => (s, .blocked)
      else (s, .blocked)
    | none => (s, .blocked)
  | .peek => (s, .counts s.ring.used (Ring.free s.ring))

def run (s : State) : List Step → State
  | [] => s
  | st :: rest => run (step s st).1 rest

/-- `Arc::strong_count` as seen by `write_buf`/`read_buf`: two handles plus live windows. -/
def refcount (s : State) : Nat := 2 + (if s.pw.isSome then 1 else 0) + (if s.pr.isSome then 1 else 0)

end RR.Conc
