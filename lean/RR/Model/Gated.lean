import RR.Model.Hand

/-!
"Gated transducer" blocks: `ZeroCrossing` (src/zero_crossing.rs) and `SymbolSync`
(src/symbol_sync.rs) share one `work()` shape, mirrored here line for line:

```
if input.is_empty()            -> WaitForStream(src, 1)
if o.is_empty()                -> WaitForStream(dst, 1)
if clock output exists & full  -> WaitForStream(clock, 1)
max_out = min(o.len(), clock.len())
for sample in input { if opos == max_out {break}; n += 1; STEP(sample) }   // STEP may write one row at opos
consume(n); produce(opos) on every output; Again
```

`STEP` is a per-sample state machine that emits at most one row (symbol, clock).
A Rust panic inside the step (SymbolSync's assertions) is `none`.
-/
namespace RR.Blk

structure Gated where
  σ : Type
  init : σ
  /-- new state and the row written at `opos` (one value per output stream), if any -/
  step : σ → Nat → Option (σ × Option (List Nat))
  /-- 1 = symbol output only, 2 = symbol and clock outputs -/
  nout : Nat

/-- the `for sample in input.iter()` loop; returns (state, n, rows) -/
def gatedLoop (G : Gated) (maxOut : Nat) : List Nat → G.σ → Nat → List (List Nat) → Option (G.σ × Nat × List (List Nat))
  | [], st, n, rows => some (st, n, rows)
  | s :: rest, st, n, rows =>
    if rows.length == maxOut then some (st, n, rows)
    else
      match G.step st s with
      | none => none
      | some (st', none) => gatedLoop G maxOut rest st' (n + 1) rows
      | some (st', some r) => gatedLoop G maxOut rest st' (n + 1) (rows ++ [r])

def gatedWork (G : Gated) (st : G.σ) (v : View) : G.σ × Out :=
  let i := in0 v
  if i.samples.isEmpty then (st, noOut v (.waitIn 0 1))
  else if (out0 v).free == 0 then (st, noOut v (.waitOut 0 1))
  else if G.nout == 2 && (v.outs.getD 1 ⟨0, true⟩).free == 0 then (st, noOut v (.waitOut 1 1))
  else
    let maxOut := if G.nout == 2 then min (out0 v).free (v.outs.getD 1 ⟨0, true⟩).free else (out0 v).free
    match gatedLoop G maxOut i.samples st 0 [] with
    | none => (st, noOut v .panic)
    | some (st', n, rows) =>
      (st', { consumed := [n]
              produced := (List.range G.nout).map fun j => ⟨rows.map fun r => r.getD j 0, []⟩
              verdict := .again })

def gatedBlock (G : Gated) : Block :=
  { σ := G.σ, init := G.init, work := gatedWork G, eof := fun _ v => macroEof v }

/-! ### ZeroCrossing over an abstract arithmetic

The step uses `+`, `-`, `/ 2.0`, `10.0 *`, `as u64`, `as f32` and `> 0.0`. The
driver instantiates them with `Float32` (bit-exact against the real block); the
clock-recovery theorem (C20) instantiates them with exact rationals. -/

structure ZOps (α : Type) where
  add : α → α → α
  sub : α → α → α
  half : α → α
  mul10 : α → α
  /-- `n as f32` -/
  ofNat : Nat → α
  /-- `x as u64` (saturating, NaN ↦ 0) -/
  toNat : α → Nat
  /-- `sample > 0.0` on an encoded sample -/
  pos : Nat → Bool
  /-- stream encoding of a clock value -/
  enc : α → Nat

structure ZcSt (α : Type) where
  clock : α
  lastSign : Bool
  lastCross : α
  counter : Nat

/-- One iteration of the loop body of `ZeroCrossing::work`. (`counter` is a `u64` that would need
2^64 samples without a single zero crossing to overflow; it is a `Nat` here.) -/
def zcStep (o : ZOps α) (st : ZcSt α) (s : Nat) : ZcSt α × Option (List Nat) :=
  let emit := st.counter == o.toNat (o.add st.lastCross (o.half st.clock))
  let lc1 := if emit then o.add st.lastCross st.clock else st.lastCross
  let sign := o.pos s
  let lc2 := if sign != st.lastSign then o.ofNat st.counter else lc1
  let counter := st.counter + 1
  let stepBack := o.toNat (o.mul10 st.clock)
  let st' : ZcSt α :=
    if counter > stepBack && o.toNat lc2 > stepBack then
      { st with lastSign := sign, counter := counter - stepBack, lastCross := o.sub lc2 (o.ofNat stepBack) }
    else { st with lastSign := sign, counter := counter, lastCross := lc2 }
  (st', if emit then some [s, o.enc st.clock] else none)

def zcGated (o : ZOps α) (sps : α) (nout : Nat) : Gated :=
  { σ := ZcSt α, init := ⟨sps, false, o.ofNat 0, 0⟩
    step := fun st s => some (zcStep o st s), nout := nout }

def f32ZOps : ZOps Float32 :=
  { add := (· + ·), sub := (· - ·), half := (· / 2.0), mul10 := (10.0 * ·)
    ofNat := fun n => (UInt64.ofNat n).toFloat32
    toNat := fun x => x.toUInt64.toNat
    pos := fun s => f32 s > 0.0
    enc := bits }

def gatedRegistry (name : String) (p : List Nat) : Option Block :=
  match name, p with
  | "zerocross", [sps] => some (gatedBlock (zcGated f32ZOps (f32 sps) 1))
  | "zerocross_clk", [sps] => some (gatedBlock (zcGated f32ZOps (f32 sps) 2))
  | _, _ => none

end RR.Blk

/-! ### SymbolSync (src/symbol_sync.rs) with an `IirFilter` as its clamped clock filter, in `Float32`

Both `while` loops of the step carry a fuel of 2^26 iterations (the real loops subtract/add a clock
of at least `sps - max_deviation` from/to values that `stream_pos += 1.0` cannot push beyond 2^24); running out
of fuel is reported like a panic. The timing error detector (`_ted`) is not used by the real block. -/
namespace RR.Blk

structure SsSt where
  clock : Float32
  lastSign : Bool
  streamPos : Float32
  lastBoundary : Float32
  nextMiddle : Float32
  /-- `IirFilter::buf`, oldest first -/
  buf : List Float32

/-- `while t > mx { let t2 = t - clock; if (t - clock).abs() < (t2 - clock).abs() { break }; t = t2 }` -/
def ssShrink (mx clock : Float32) : Nat → Float32 → Option Float32
  | 0, _ => none
  | fuel + 1, t =>
    if t > mx then
      let t2 := t - clock
      if (t - clock).abs < (t2 - clock).abs then some t else ssShrink mx clock fuel t2
    else some t

/-- `while next_sym_middle < stream_pos { next_sym_middle += clock }` -/
def ssAdvance (pos clock : Float32) : Nat → Float32 → Option Float32
  | 0, _ => none
  | fuel + 1, m => if m < pos then ssAdvance pos clock fuel (m + clock) else some m

/-- `IirFilter::<f32>::filter_clamped`; `none` = `f32::clamp`'s assertion `min <= max` -/
def ssFilter (taps buf : List Float32) (x mi mx : Float32) : Option (List Float32 × Float32) :=
  match taps with
  | [] => none
  | t0 :: _ =>
    let y := (List.range buf.length).foldl
      (fun acc i => acc + buf.reverse.getD i 0.0 * taps.getD (i + 1) 0.0) (t0 * x)
    if mi ≤ mx then
      let y := if y < mi then mi else if y > mx then mx else y
      let buf' := buf ++ [y]
      some (if buf'.length = taps.length then buf'.drop 1 else buf', y)
    else none

def ssFuel : Nat := 2 ^ 26

def ssStep (sps maxDev : Float32) (taps : List Float32) (st : SsSt) (s : Nat) : Option (SsSt × Option (List Nat)) :=
  let emit := st.streamPos ≥ st.nextMiddle
  let row := if emit then some [s, bits st.clock] else none
  let st := if emit then { st with nextMiddle := st.nextMiddle + st.clock } else st
  let sign := f32 s > 0.0
  let st? : Option SsSt :=
    if sign != st.lastSign then
      let upd : Option SsSt :=
        if st.streamPos > 0.0 && st.lastBoundary > 0.0 then
          if st.streamPos > st.lastBoundary then
            let mi := sps - maxDev
            let mx := sps + maxDev
            match ssShrink mx st.clock ssFuel (st.streamPos - st.lastBoundary) with
            | none => none
            | some t =>
              if t > mi * 0.8 && t < mx * 1.2 then
                if t > 0.0 then
                  match ssFilter taps st.buf (t - sps) (mi - sps) (mx - sps) with
                  | none => none
                  | some (buf', y) =>
                    let clock := y + sps
                    match ssAdvance st.streamPos clock ssFuel (st.lastBoundary + clock / 2.0) with
                    | none => none
                    | some nm => some { st with clock := clock, buf := buf', nextMiddle := nm }
                else none
              else some st
          else none
        else some st
      upd.map fun st => { st with lastBoundary := st.streamPos, lastSign := sign }
    else some st
  match st? with
  | none => none
  | some st =>
    let pos := st.streamPos + 1.0
    let stepBack := 10.0 * st.clock
    let st :=
      if pos > stepBack && st.lastBoundary > stepBack && st.nextMiddle > stepBack then
        { st with streamPos := pos - stepBack, lastBoundary := st.lastBoundary - stepBack,
                  nextMiddle := st.nextMiddle - stepBack }
      else { st with streamPos := pos }
    some (st, row)

/-- `SymbolSync::new(src, sps, max_deviation, ted, IirFilter::new(taps))`: the filter history is
filled with `sps` (`taps.len() - 1` entries). -/
def ssGated (sps maxDev : Float32) (taps : List Float32) (nout : Nat) : Gated :=
  { σ := SsSt
    init := ⟨sps, false, 0.0, 0.0, 0.0, List.replicate (taps.length - 1) sps⟩
    step := ssStep sps maxDev taps, nout := nout }

def gatedRegistry2 (name : String) (p : List Nat) : Option Block :=
  match name, p with
  | "symsync", sps :: dev :: taps => some (gatedBlock (ssGated (f32 sps) (f32 dev) (taps.map f32) 1))
  | "symsync_clk", sps :: dev :: taps => some (gatedBlock (ssGated (f32 sps) (f32 dev) (taps.map f32) 2))
  | _, _ => gatedRegistry name p

end RR.Blk
