import RR.Model.Ring

/-!
Blocks as state machines over abstract streams.

A stream is what C01/C02 prove the ring to be: a FIFO of samples with their
tags and a capacity. `work()` sees a *view* (per input: the readable samples
and their tags, window-relative; per output: the free space; peer liveness) and
answers with what it consumed, what it committed (samples, tags relative to the
committed chunk), which packets it pushed, and a verdict.

A Rust panic (assert, slice index, checked arithmetic) is the explicit verdict
`.panic`, never a default value.
-/
namespace RR.Blk
open RR

abbrev Tag := Ring.Tag

inductive Verdict where
  | again
  | pending
  | waitFunc
  | waitIn (k need : Nat)
  | waitOut (k need : Nat)
  | eof
  | err
  | panic
deriving DecidableEq, Repr

structure InView where
  samples : List Nat
  tags : List Tag
  /-- the writer handle of this stream still exists -/
  alive : Bool := true
deriving Repr

structure OutView where
  free : Nat
  /-- the reader handle of this stream still exists -/
  alive : Bool := true
deriving Repr

structure View where
  ins : List InView
  outs : List OutView
deriving Repr

structure Produced where
  samples : List Nat
  tags : List Tag
deriving Repr

structure Out where
  consumed : List Nat
  produced : List Produced
  verdict : Verdict
deriving Repr

/-- A block model: any state type, `work`, and `eof()` (`BlockEOF`). -/
structure Block where
  σ : Type
  init : σ
  work : σ → View → σ × Out
  eof : σ → View → Bool
  /-- a control call between two `work()` calls (`Delay::set_delay`); most blocks have none -/
  poke : σ → Nat → σ := fun s _ => s

/-- The derive macro's `eof()`: every input has ended and is drained. -/
def macroEof (v : View) : Bool :=
  v.ins.all fun i => !i.alive && i.samples.isEmpty

/-! ## The harness network: one block between harness-owned streams -/

structure Chan where
  cap : Nat
  /-- queued samples, each with its tags `(key, val)` -/
  q : List (Nat × List (Nat × Nat))
  alive : Bool := true
deriving Repr

def Chan.view (c : Chan) : InView :=
  { samples := c.q.map (·.1)
    tags := (List.range c.q.length).flatMap fun i =>
      (c.q.getD i (0, [])).2.map fun kv => { pos := i, key := kv.1, val := kv.2 }
    alive := c.alive }

def Chan.free (c : Chan) : Nat := c.cap - c.q.length

/-- Commit `p` (the contract `tag.pos < n` is checked by the stream: a tag
beyond the chunk lands on a later cell; we flag it instead). -/
def Chan.commit (c : Chan) (p : Produced) : Chan :=
  { c with q := c.q ++ (List.range p.samples.length).map fun i =>
      (p.samples.getD i 0, (p.tags.filter fun t => t.pos == i).map fun t => (t.key, t.val)) }

structure Net (B : Block) where
  st : B.σ
  ins : List Chan
  outs : List Chan

def Net.view {B : Block} (n : Net B) : View :=
  { ins := n.ins.map Chan.view
    outs := n.outs.map fun c => { free := c.free, alive := c.alive } }

/-- Is the answer within what the view offered? (C09: no over-consume / over-commit) -/
def Out.fits (o : Out) (v : View) : Bool :=
  o.consumed.length == v.ins.length && o.produced.length == v.outs.length &&
  (List.zipWith (fun c (i : InView) => decide (c ≤ i.samples.length)) o.consumed v.ins).all id &&
  (List.zipWith (fun (p : Produced) (ov : OutView) => decide (p.samples.length ≤ ov.free)) o.produced v.outs).all id &&
  o.produced.all fun p => p.tags.all fun t => decide (t.pos < p.samples.length)

/-- One `work()` call on the network. -/
def Net.work {B : Block} (n : Net B) : Net B × Out :=
  let (st', o) := B.work n.st n.view
  let ins' := List.zipWith (fun (c : Chan) k => { c with q := c.q.drop k }) n.ins o.consumed
  let outs' := List.zipWith Chan.commit n.outs o.produced
  ({ st := st', ins := if ins'.length == n.ins.length then ins' else n.ins,
     outs := if outs'.length == n.outs.length then outs' else n.outs }, o)

end RR.Blk
