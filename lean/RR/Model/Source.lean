import RR.Model.Block
import RR.Model.Hand

/-!
`Repeat` (src/lib.rs) and `VectorSource::work` (src/vector_source.rs).
`u64` arithmetic is checked (overflow checks are on): an underflow is `none`.
-/
namespace RR.Src
open RR RR.Blk

inductive Repeater where
  | finite (n : Nat)
  | infinite
deriving DecidableEq, Repr

structure Repeat where
  r : Repeater
  count : Nat
deriving DecidableEq, Repr

def Repeat.finite (n : Nat) : Repeat := ⟨.finite n, 0⟩
def Repeat.infinite : Repeat := ⟨.infinite, 0⟩

/-- `Repeat::again`: `none` = arithmetic overflow panic. -/
def Repeat.again (x : Repeat) : Option (Repeat × Bool) :=
  if x.count + 1 ≥ 2 ^ 64 then none
  else match x.r with
    | .finite n => if n = 0 then none else some (⟨.finite (n - 1), x.count + 1⟩, decide (n > 1))
    | .infinite => some (⟨.infinite, x.count + 1⟩, true)

def Repeat.done (x : Repeat) : Bool :=
  match x.r with
  | .finite n => n == 0
  | .infinite => false

/-- tag key codes used by the harness -/
def keyStart : Nat := 901
def keyRepeat : Nat := 902
def keyFirst : Nat := 903

structure VSt where
  pos : Nat
  rep : Repeat
deriving Repr

def vsWork (data : List Nat) (st : VSt) (v : View) : VSt × Out :=
  if data.isEmpty then (st, noOut v .eof)
  else if st.rep.done then (st, noOut v .eof)
  else
    let tags : List Tag :=
      (if st.pos == 0 then [⟨0, keyStart, 1⟩, ⟨0, keyRepeat, st.rep.count⟩] else []) ++
      (if st.pos == 0 && st.rep.count == 0 then [⟨0, keyFirst, 1⟩] else [])
    let free := (out0 v).free
    if free == 0 then (st, noOut v (.waitOut 0 1))
    else
      let n := min free (data.length - st.pos)
      let chunk := (data.drop st.pos).take n
      let pos' := st.pos + n
      if pos' == data.length then
        match st.rep.again with
        | none => (st, noOut v .panic)
        | some (rep', more) =>
          if more then ({ pos := 0, rep := rep' }, { consumed := [], produced := [⟨chunk, tags⟩], verdict := .again })
          else ({ pos := pos', rep := rep' }, { consumed := [], produced := [⟨chunk, tags⟩], verdict := .eof })
      else ({ pos := pos', rep := st.rep }, { consumed := [], produced := [⟨chunk, tags⟩], verdict := .again })

def vsBlock (data : List Nat) (rep : Repeat) : Block :=
  { σ := VSt, init := ⟨0, rep⟩, work := vsWork data, eof := fun _ _ => false }

end RR.Src
