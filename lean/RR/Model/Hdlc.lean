import RR.Gen.Hdlc

/-!
`HdlcDeframer` (src/hdlc_deframer.rs), bit for bit. The CRC table, the flag
byte and the CRC init/xor-out constants come from `RR.Gen` (regenerated from
the source on every run). Collected bits are kept newest-first.
-/
namespace RR.Hdlc

inductive State where
  | unsynced (v : Nat)
  | synced (ones : Nat) (bits : List Nat)
  | finalCheck (bits : List Nat)
deriving DecidableEq, Repr

structure Cfg where
  minSize : Nat
  maxSize : Nat
  stripChecksum : Bool := true
  fixBits : Bool := false
deriving Repr

def init : State := .unsynced 0xff

/-- `bits2byte`: 8 bits, least significant first. -/
def bits2byte (b : List Nat) : Nat :=
  (List.range 8).foldl (fun acc i => acc ||| ((b.getD i 0) <<< i)) 0

def toBytes : List Nat → List Nat
  | b0 :: b1 :: b2 :: b3 :: b4 :: b5 :: b6 :: b7 :: rest =>
    bits2byte [b0, b1, b2, b3, b4, b5, b6, b7] :: toBytes rest
  | _ => []

def tab (i : Nat) : Nat := Gen.fcstab.getD i 0

/-- `calc_crc` (RFC 1662 table-driven FCS-16). -/
def calcCrc (data : List Nat) : Nat :=
  (data.foldl (fun fcs byte => (fcs >>> 8) ^^^ tab ((fcs ^^^ byte) &&& 0xff)) Gen.crcInit) ^^^ Gen.crcXorOut

def flipBit (data : List Nat) (byte bit : Nat) : List Nat :=
  data.set byte ((data.getD byte 0) ^^^ (1 <<< bit))

/-- First single-bit flip (byte-major, bit 0 first) after which the CRC verifies. -/
def findFlip (data : List Nat) (got : Nat) : Option (List Nat) :=
  ((List.range data.length).flatMap fun byte => (List.range 8).map fun bit => (byte, bit)).findSome? fun (byte, bit) =>
    let d := flipBit data byte bit
    if calcCrc d == got then some d else none

/-- `find_right_crc`: (repaired data, crc to compare with `got`). The second
loop of the Rust function compares `got ^ (1 << k)` with `got` and can never
succeed; it is dead code and is mirrored as such. -/
def findRightCrc (data : List Nat) (got : Nat) (fix : Bool) : Option (List Nat) × Nat :=
  let crc := calcCrc data
  if got == crc then (none, crc)
  else if !fix then (none, crc)
  else match findFlip data got with
    | some d => (some d, calcCrc d)
    | none => (none, crc)

/-- `update_state`: new state and the packet pushed, if any. -/
def step (cfg : Cfg) (s : State) (bit : Nat) : State × Option (List Nat) :=
  match s with
  | .unsynced v =>
    let n := (v >>> 1) ||| ((bit <<< 7) % 256)
    if n == Gen.hdlcFlag then (.synced 0 [], none) else (.unsynced n, none)
  | .synced ones bits =>
    if bits.length > cfg.maxSize * 8 + 7 then
      -- keep what may be the beginning of the closing flag: a zero, `ones` ones, this bit
      let seen := 0xff - (1 <<< (7 - ones))
      (.unsynced ((seen >>> 1) ||| ((bit <<< 7) % 256)), none)
    else if bit > 0 then
      if ones == 5 then (.finalCheck (1 :: bits), none) else (.synced (ones + 1) (1 :: bits), none)
    else if ones == 5 then (.synced 0 bits, none)
    else (.synced 0 (0 :: bits), none)
  | .finalCheck bits =>
    if bit == 1 then (.unsynced 0xff, none)
    else if bits.length < 7 then (.synced 0 [], none)
    else
      let bits := (bits.drop 7).reverse
      if bits.length % 8 != 0 then (.synced 0 [], none)
      else if bits.length / 8 < cfg.minSize then (.synced 0 [], none)
      else
        let bytes := toBytes bits
        if cfg.stripChecksum && bytes.length < 2 then (.synced 0 [], none)
        else if cfg.stripChecksum then
          let data := bytes.take (bytes.length - 2)
          let got := bytes.getD (bytes.length - 2) 0 + 256 * bytes.getD (bytes.length - 1) 0
          let (newdata, crc) := findRightCrc data got cfg.fixBits
          let data := newdata.getD data
          if crc != got then (.synced 0 [], none) else (.synced 0 [], some data)
        else (.synced 0 [], some bytes)

/-- Feed a bit stream; collect the packets in order. -/
def run (cfg : Cfg) : State → List Nat → State × List (List Nat)
  | s, [] => (s, [])
  | s, b :: rest =>
    let (s1, p) := step cfg s b
    let (s2, ps) := run cfg s1 rest
    (s2, match p with | some x => x :: ps | none => ps)

end RR.Hdlc
