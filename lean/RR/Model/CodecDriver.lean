import RR.Model.Codec
import RR.Model.Tcp
import RR.Model.Au
import RR.Model.Sigmf
import RR.Model.Util

/-! `codec <ty> <re> <im>` → serialised bytes; `reasm <ty> ; chunk bytes ; chunk bytes …` → samples;
`sigmf (stem ext kind pos size)…` → range. -/
namespace RR.CodecDriver
open RR RR.Codec RR.Util

def tyOf : String → Option Ty
  | "u8" => some .u8
  | "u32" => some .u32
  | "i32" => some .i32
  | "f32" => some .f32
  | "complex" => some .complex
  | _ => none

def handleCodec (args : String) : String :=
  match toks args with
  | [t, re, im] =>
    match tyOf t, re.toNat?, im.toNat? with
    | some t, some re, some im =>
      let bytes := serialize t ⟨re, im⟩
      let back := match parse t bytes with
        | some v => s!"{v.re},{v.im}"
        | none => "none"
      s!"{natsStr bytes} -> {back}"
    | _, _, _ => "bad-op"
  | _ => "bad-op"

def handleReasm (args : String) : String :=
  match args.splitOn ";" with
  | hd :: chunks =>
    match (toks hd).head?.bind tyOf, chunks.mapM (fun c => nats (toks c)) with
    | some t, some cs =>
      let (rest, vals) := feedAll t [] cs
      s!"{" ".intercalate (vals.map fun v => s!"{v.re},{v.im}")} | {rest.length}"
    | _, _ => "bad-op"
  | [] => "bad-op"

/-- `tcp <ty> ; bytes of read 1 ; bytes of read 2 …`: what `TcpSource::work` pushes after each read -/
def handleTcp (args : String) : String :=
  match args.splitOn ";" with
  | hd :: chunks =>
    match (toks hd).head?.bind tyOf, chunks.mapM (fun c => nats (toks c)) with
    | some t, some cs =>
      let (_, outs) := tcpAll t [] cs
      " ; ".intercalate (outs.map fun vals => " ".intercalate (vals.map fun v => s!"{v.re},{v.im}"))
    | _, _ => "bad-op"
  | [] => "bad-op"

def fives : List Nat → List Sigmf.Member
  | s :: e :: k :: p :: z :: rest =>
    { stem := s
      ext := if e == 0 then .metaFile else if e == 1 then .dataFile else .otherFile
      kind := if k == 0 then .regular else if k == 1 then .sparse else .otherKind
      pos := p, size := z } :: fives rest
  | _ => []

def handleSigmf (args : String) : String :=
  match nats (toks args) with
  | some ns =>
    match Sigmf.lookup (fives ns) with
    | some (p, z) => s!"ok {p} {z}"
    | none => "err"
  | none => "bad-op"

end RR.CodecDriver

namespace RR.CodecDriver
open RR RR.Util

/-- `audec <bitrate> <bytes…>` → `ok <n samples> <hash>` / `wait` / `err <kind>` -/
def handleAuDec (args : String) : String :=
  match nats (toks args) with
  | some (bitrate :: bytes) =>
    match Au.decode bitrate bytes with
    | .ok (some samples) => s!"ok {samples.length} {hashList samples}"
    | .ok none => "wait"
    | .error e => "err " ++ (match e with
        | .badMagic => "magic" | .smallOffset => "offset" | .badEncoding => "encoding"
        | .badBitrate => "bitrate" | .badChannels => "channels")
  | _ => "bad-op"

end RR.CodecDriver
