import RR.Model.Blocks
import RR.Model.Hand
import RR.Model.Source
import RR.Model.Dsp
import RR.Model.Conv
import RR.Model.FileSrc
import RR.Model.AuBlock
import RR.Model.Gated
import RR.Model.SinkSrc
import RR.Model.Wrap
import RR.Model.Util

/-!
Drip-feed simulation of one block between harness-owned streams.

Request: `blk NAME p… ; I cap len seed mod t… ; … ; O cap ; … ; T j pos key val … ; S act act …`
with actions `F<j>,<k>` feed, `D<j>,<k>` drain, `W` work, `C<j>` close input `j`
(drop its writer), `X<j>` drop the reader of output `j`.
-/
namespace RR.BlockDriver
open RR RR.Blk RR.Util

def mix64 (z : Nat) : Nat :=
  let m := 2 ^ 64
  let z := (z + 0x9E3779B97F4A7C15) % m
  let z := ((z ^^^ (z >>> 30)) * 0xBF58476D1CE4E5B9) % m
  let z := ((z ^^^ (z >>> 27)) * 0x94D049BB133111EB) % m
  z ^^^ (z >>> 31)

/-- Input data: `len` values from `seed`; through the table if there is one, else modulo `m`. -/
def genData (len seed m : Nat) (tbl : List Nat) : List Nat :=
  (List.range len).map fun i =>
    let r := mix64 (seed + i)
    if tbl.isEmpty then r % (if m = 0 then 1 else m) else tbl.getD (r % tbl.length) 0

structure Sim (B : Block) where
  net : Net B
  pending : List (List Nat)
  fed : List Nat
  tagsIn : List (List (Nat × Nat × Nat))
  collected : List (List Nat)
  ctags : List (List (Nat × Nat × Nat))
  trace : List String
  dead : Bool

def showVerdict : Verdict → String
  | .again => "A"
  | .pending => "P"
  | .waitFunc => "Fn"
  | .waitIn k n => s!"I{k},{n}"
  | .waitOut k n => s!"O{k},{n}"
  | .eof => "E"
  | .err => "ERR"
  | .panic => "PANIC"

def commaNats (l : List Nat) : String := ",".intercalate (l.map toString)

def Sim.feed {B : Block} (s : Sim B) (j k : Nat) : Sim B :=
  match s.net.ins[j]?, s.pending[j]? with
  | some ch, some pend =>
    let fed := s.fed.getD j 0
    let n := min k (min ch.free pend.length)
    let tg := s.tagsIn.getD j []
    let items := (List.range n).map fun i =>
      (pend.getD i 0, (tg.filter fun t => t.1 == fed + i).map fun t => (t.2.1, t.2.2))
    { s with
      net := { s.net with ins := s.net.ins.set j { ch with q := ch.q ++ items } }
      pending := s.pending.set j (pend.drop n)
      fed := s.fed.set j (fed + n) }
  | _, _ => s

def Sim.drain {B : Block} (s : Sim B) (j k : Nat) : Sim B :=
  match s.net.outs[j]? with
  | some ch =>
    let n := min k ch.q.length
    let got := ch.q.take n
    let base := (s.collected.getD j []).length
    let newTags := (List.range n).flatMap fun i =>
      (got.getD i (0, [])).2.map fun kv => (base + i, kv.1, kv.2)
    { s with
      net := { s.net with outs := s.net.outs.set j { ch with q := ch.q.drop n } }
      collected := s.collected.set j ((s.collected.getD j []) ++ got.map (·.1))
      ctags := s.ctags.set j ((s.ctags.getD j []) ++ newTags) }
  | none => s

def Sim.work {B : Block} (s : Sim B) : Sim B :=
  if s.dead then { s with trace := s.trace ++ ["W:dead"] }
  else
    let v := s.net.view
    let (net', o) := s.net.work
    let fit := if o.fits v then "" else ":MISFIT"
    -- both runners ask `eof()` after a wait verdict and retire the block on "true"
    let asked := match o.verdict with
      | .waitIn _ _ => true
      | .waitOut _ _ => true
      | .waitFunc => true
      | _ => false
    let e := if asked && B.eof net'.st net'.view then ":e" else ""
    let line := s!"W:{showVerdict o.verdict}:{commaNats o.consumed}:{commaNats (o.produced.map (·.samples.length))}{e}{fit}"
    { s with net := net', trace := s.trace ++ [line], dead := o.verdict == .panic || o.verdict == .err }

def parseAct (t : String) : Option (Char × Nat × Nat) :=
  match t.toList with
  | 'W' :: [] => some ('W', 0, 0)
  | c :: rest =>
    match (String.ofList rest).splitOn "," with
    | [a] => a.toNat?.map fun a => (c, a, 0)
    | [a, b] => do some (c, ← a.toNat?, ← b.toNat?)
    | _ => none
  | [] => none

def Sim.act {B : Block} (s : Sim B) : Char × Nat × Nat → Sim B
  | ('F', j, k) => s.feed j k
  | ('D', j, k) => s.drain j k
  | ('W', _, _) => s.work
  | ('C', j, _) =>
    match s.net.ins[j]? with
    | some ch => { s with net := { s.net with ins := s.net.ins.set j { ch with alive := false } } }
    | none => s
  | ('P', k, _) => { s with net := { s.net with st := B.poke s.net.st k } }
  | ('X', j, _) =>
    match s.net.outs[j]? with
    | some ch => { s with net := { s.net with outs := s.net.outs.set j { ch with alive := false } } }
    | none => s
  | _ => s

/-- cut the data into packets of the given lengths (the last ones may come out short or empty) -/
def splitPkts (data : List Nat) : List Nat → List (List Nat)
  | [] => []
  | l :: rest => data.take l :: splitPkts (data.drop l) rest

def triples : List Nat → List (Nat × Nat × Nat)
  | a :: b :: c :: rest => (a, b, c) :: triples rest
  | _ => []

def runBlock (B : Block) (sections : List (List String)) : String :=
  let ins := sections.filterMap fun s =>
    match s with
    | "I" :: rest => (nats rest).bind fun
      | cap :: len :: seed :: m :: tbl => some (cap, genData len seed m tbl)
      | _ => none
    -- literal input data
    | "L" :: rest => (nats rest).bind fun
      | cap :: data => some (cap, data)
      | _ => none
    -- packet input: `P cap len seed mod npk l1 … l_npk [tbl…]`, one value per packet
    | "P" :: rest => (nats rest).bind fun
      | cap :: len :: seed :: m :: npk :: more =>
        some (cap, (splitPkts (genData len seed m (more.drop npk)) (more.take npk)).map encodePkt)
      | _ => none
    | _ => none
  let outs := sections.filterMap fun s =>
    match s with
    | ["O", cap] => cap.toNat?
    | _ => none
  let tagSecs := sections.filterMap fun s =>
    match s with
    | "T" :: rest => (nats rest).bind fun
      | j :: ts => some (j, triples ts)
      | _ => none
    | _ => none
  let acts := (sections.filterMap fun s =>
    match s with
    | "S" :: rest => some (rest.filterMap parseAct)
    | _ => none).flatten
  let sim : Sim B :=
    { net := { st := B.init
               ins := ins.map fun (cap, _) => { cap := cap, q := [] }
               outs := outs.map fun cap => { cap := cap, q := [] } }
      pending := ins.map (·.2)
      fed := ins.map fun _ => 0
      tagsIn := (List.range ins.length).map fun j =>
        (tagSecs.filter fun t => t.1 == j).flatMap (·.2)
      collected := outs.map fun _ => []
      ctags := outs.map fun _ => []
      trace := [], dead := false }
  let fin := acts.foldl Sim.act sim
  let outsStr := (List.range outs.length).map fun j =>
    let c := fin.collected.getD j []
    let ts := (fin.ctags.getD j []).map fun t => s!"{t.1},{t.2.1},{t.2.2}"
    s!"O{j}:{c.length}:{hashList c}:[{" ".intercalate ts}]"
  " ".intercalate fin.trace ++ " ; " ++ " ".intercalate outsStr

def handle (args : String) (registry : String → List Nat → Option Block) : String :=
  let sections := (args.splitOn ";").map toks
  match sections with
  | (name :: ps) :: rest =>
    match nats ps with
    | some p =>
      match registry name p with
      | some B => runBlock B rest
      | none => "unknown-block"
    | none => "bad-op"
  | _ => "bad-op"

/-- `vsrc <rep> <len> <seed> <mod>`; rep = 2^32 means infinite -/
def sourceRegistry (name : String) (p : List Nat) : Option Block :=
  match name, p with
  | "vsrc", [rep, len, seed, m] =>
    some (Src.vsBlock (genData len seed m []) (if rep == 2 ^ 32 then Src.Repeat.infinite else Src.Repeat.finite rep))
  | "fsrc", [rep, len, seed, size] =>
    -- a file of `len` bytes (byte i = generated value mod 256) read as `size`-byte little-endian samples
    some (Src.fsBlock (genData len seed 256 []) size (if rep == 2 ^ 32 then Src.Repeat.infinite else Src.Repeat.finite rep))
  | "audec", [bitrate] => some (Au.decBlock bitrate Au.deqF32)
  | "auenc", [bitrate] => some (Au.encBlock bitrate Au.qF32)
  | "sgsrc", [rep, len, seed, size] =>
    some (Src.sgBlock (Src.tameBytes (genData len seed 256 [])) size (if rep == 2 ^ 32 then Src.Repeat.infinite else Src.Repeat.finite rep))
  | _, _ => none

def registry (name : String) (p : List Nat) : Option Block :=
  match syncRegistry name p with
  | some s => some s.block
  | none =>
    match handRegistry name p with
    | some b => some b
    | none =>
      match Dsp.dspRegistry name p with
      | some b => some b
      | none =>
        match convRegistry name p with
        | some b => some b
        | none =>
          match gatedRegistry2 name p with
          | some b => some b
          | none =>
            match sinkSrcRegistry name p with
            | some b => some b
            | none =>
              match Dsp.wrapRegistry name p with
              | some b => some b
              | none => sourceRegistry name p

/-- `repeat <n or inf> ; a ; d ; c …`: the `Repeat` API -/
def handleRepeat (args : String) : String :=
  match args.splitOn ";" with
  | hd :: ops =>
    let init : Option Src.Repeat :=
      match toks hd with
      | ["inf"] => some Src.Repeat.infinite
      | [n] => n.toNat?.map Src.Repeat.finite
      | _ => none
    match init with
    | none => "bad-op"
    | some r0 =>
      let step (acc : Option Src.Repeat × List String) (op : String) : Option Src.Repeat × List String :=
        match acc.1 with
        | none => acc
        | some r =>
          match toks op with
          | ["a"] =>
            match r.again with
            | some (r', b) => (some r', acc.2 ++ [toString b])
            | none => (none, acc.2 ++ ["panic"])
          | ["d"] => (some r, acc.2 ++ [toString r.done])
          | ["c"] => (some r, acc.2 ++ [toString r.count])
          | _ => (some r, acc.2 ++ ["bad-op"])
      " ".intercalate (ops.foldl step (some r0, [])).2
  | [] => "bad-op"

end RR.BlockDriver
