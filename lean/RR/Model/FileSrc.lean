import RR.Model.Source

/-!
`FileSource::work` (src/file_source.rs) on a regular file. Samples are `size`
bytes, little endian. The file is read through `std::io::BufReader` (capacity
8192): a `read` of `k > 0` bytes returns between 1 and `k` bytes while bytes
remain — what is left in the reader's buffer if that is not empty, otherwise a
refill (or a direct read for requests of at least the capacity) — and 0 only at
the end of the file. State: logical position in the file, bytes buffered in the
reader, the partial-sample buffer, the repeat counter.
-/
namespace RR.Src
open RR RR.Blk

def bufCap : Nat := 8192

structure FsSt where
  pos : Nat          -- bytes handed out by `read` in this repetition
  rb : Nat           -- bytes sitting in the BufReader
  buf : List Nat     -- bytes of an incomplete sample
  rep : Repeat
deriving Repr

/-- `BufReader<File>::read` of `k` bytes with `rem` bytes of the file not yet handed out:
(bytes returned, bytes left in the reader's buffer). -/
def bufRead (rb k rem : Nat) : Nat × Nat :=
  if rb = 0 then
    if k ≥ bufCap then (min k rem, 0)
    else
      let fill := min bufCap rem
      (min k fill, fill - min k fill)
  else (min k rb, rb - min k rb)

/-- little-endian value of a byte group -/
def leVal : List Nat → Nat
  | [] => 0
  | b :: rest => b + 256 * leVal rest

/-- the first `k` whole samples of a byte list (fewer if the bytes run out) -/
def samplesOf (size : Nat) : Nat → List Nat → List Nat
  | 0, _ => []
  | k + 1, bytes =>
    if bytes.length < size then [] else leVal (bytes.take size) :: samplesOf size k (bytes.drop size)

def fsEmit (st : FsSt) (size : Nat) : FsSt × List Nat :=
  let k := st.buf.length / size
  ({ st with buf := st.buf.drop (k * size) }, samplesOf size k st.buf)

/-- emit the whole samples of the byte buffer; `Pending` when there is none -/
def fsFinish (st : FsSt) (size : Nat) (v : View) : FsSt × Out :=
  let e := fsEmit st size
  if e.2.isEmpty then (e.1, noOut v .pending)
  else (e.1, { consumed := [], produced := [⟨e.2, []⟩], verdict := .again })

def fsWork (file : List Nat) (size : Nat) (st : FsSt) (v : View) : FsSt × Out :=
  if st.rep.done then (st, noOut v .eof)
  else
    let free := (out0 v).free
    if free == 0 then (st, noOut v (.waitOut 0 1))
    else
      let have_ := st.buf.length / size
      if have_ < free then
        let r := bufRead st.rb ((free - have_) * size) (file.length - st.pos)
        let n := r.1
        if n == 0 then
          match st.rep.again with
          | none => (st, noOut v .panic)
          | some (rep', more) =>
            if more then ({ pos := 0, rb := 0, buf := [], rep := rep' }, noOut v .again)
            else ({ st with rep := rep' }, noOut v .eof)
        else
          let bytes := (file.drop st.pos).take n
          let st1 := { st with pos := st.pos + n, rb := r.2, buf := st.buf ++ bytes }
          -- the fast path (empty buffer, whole samples) emits the same samples as the general one
          fsFinish st1 size v
      else fsFinish st size v

def fsBlock (file : List Nat) (size : Nat) (rep : Repeat) : Block :=
  { σ := FsSt, init := ⟨0, 0, [], rep⟩, work := fsWork file size, eof := fun _ _ => false }

end RR.Src

namespace RR.Src
open RR RR.Blk

/-! `SigMFSource::work` (src/sigmf.rs): the data range of `data.length` bytes is read from a plain
`File` (whole reads), `left` counts the bytes of the current repetition still to read. -/

structure SgSt where
  left : Nat
  buf : List Nat
  rep : Repeat
deriving Repr

def sgRead (data : List Nat) (size : Nat) (st : SgSt) (v : View) : SgSt × Out :=
  let free := (out0 v).free
  if free == 0 then (st, noOut v (.waitOut 0 1))
  else
    let st1 : SgSt :=
      if st.buf.length / size == 0 then
        let n := min (free * size) st.left
        { st with left := st.left - n, buf := st.buf ++ (data.drop (data.length - st.left)).take n }
      else st
    let k := min (st1.buf.length / size) free
    ({ st1 with buf := st1.buf.drop (k * size) },
     { consumed := [], produced := [⟨samplesOf size k st1.buf, []⟩], verdict := .waitOut 0 1 })

def sgWork (data : List Nat) (size : Nat) (st : SgSt) (v : View) : SgSt × Out :=
  if st.rep.done || data.length == 0 then (st, noOut v .eof)
  else if st.left == 0 then
    match st.rep.again with
    | none => (st, noOut v .panic)
    | some (rep', more) =>
      if more then sgRead data size { left := data.length, buf := [], rep := rep' } v
      else ({ st with rep := rep' }, noOut v .eof)
  else sgRead data size st v

def sgBlock (data : List Nat) (size : Nat) (rep : Repeat) : Block :=
  { σ := SgSt, init := ⟨data.length, [], rep⟩, work := sgWork data size, eof := fun _ _ => false }

/-- test data whose 4-byte groups are never NaN bit patterns -/
def tameBytes (l : List Nat) : List Nat :=
  (l.zip (List.range l.length)).map fun (b, i) => if i % 4 == 3 then b % 64 else b

end RR.Src
