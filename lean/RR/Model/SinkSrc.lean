import RR.Model.Blocks
import RR.Model.Hand

/-!
Sinks and generator sources.

* `NullSink` (src/null_sink.rs) and `VectorSink` (src/vector_sink.rs). A sink has no output stream; the
  storage of a `VectorSink` is presented as output 0 of the model (the harness reads it through
  `VectorSink::hook()`), with unlimited room.
* the *generator source* family: a block without inputs that fills the whole write window from an iterator
  (`SignalSourceFloat`, `SignalSourceComplex` in src/signal_source.rs).
-/
namespace RR.Blk

/-! ### NullSink: consume the whole window, wait for more -/

def nullWork (_ : Unit) (v : View) : Unit × Out :=
  ((), { consumed := [(in0 v).samples.length], produced := v.outs.map fun _ => ⟨[], []⟩, verdict := .waitIn 0 1 })

def nullBlock : Block :=
  { σ := Unit, init := (), work := nullWork, eof := fun _ v => macroEof v }

/-! ### VectorSink: state = number of samples stored so far

`n = min(window, max_size − stored)`; the first `n` samples of the window are stored, the whole window is
consumed (a full sink discards). Tags: the real block stores all tags of the window with their
window-relative positions; the model reports those that lie on a stored sample. -/

def vsinkWork (max : Nat) (stored : Nat) (v : View) : Nat × Out :=
  let w := in0 v
  let n := min w.samples.length (max - stored)
  (stored + n,
    { consumed := [w.samples.length]
      produced := [⟨w.samples.take n, w.tags.filter fun t => decide (t.pos < n)⟩]
      verdict := .waitIn 0 1 })

def vsinkBlock (max : Nat) : Block :=
  { σ := Nat, init := 0, work := vsinkWork max, eof := fun _ v => macroEof v }

/-! ### Generator sources -/

/-- `Iterator::next` of an endless generator, with an encoding of the item as a sample bit pattern -/
structure GenSrc where
  σ : Type
  init : σ
  next : σ → σ × Nat

/-- `take(n)` -/
def genTake (G : GenSrc) : Nat → G.σ → G.σ × List Nat
  | 0, s => (s, [])
  | n + 1, s =>
    let (s1, x) := G.next s
    let (s2, xs) := genTake G n s1
    (s2, x :: xs)

/-- `work()`: nothing to do on a full output (wait for room); otherwise fill the window and ask to be
called again. -/
def genWork (G : GenSrc) (st : G.σ) (v : View) : G.σ × Out :=
  let f := (out0 v).free
  if f == 0 then (st, { consumed := [], produced := [⟨[], []⟩], verdict := .waitOut 0 1 })
  else
    let (st', l) := genTake G f st
    (st', { consumed := [], produced := [⟨l, []⟩], verdict := .again })

def genBlock (G : GenSrc) : Block :=
  { σ := G.σ, init := G.init, work := genWork G, eof := fun _ _ => false }

/-! ### SignalSource in IEEE doubles

`current = (current + rad_per_sample) % 2π` in `f64`; the sample is `amplitude * (sin(current) as f32)`.
`%` on floats is C's `fmod`, whose result is exact; it is computed here by exact subtractions of
`y·2^k` (each is exact because `t ≤ r < 2t`). -/

def fmodPos (y : Float) : Nat → Float → Float
  | 0, r => r
  | fuel + 1, r =>
    if r < y then r
    else
      let e := r.frExp.2
      let ey := y.frExp.2
      let t := y.scaleB (e - ey)
      let t := if t > r then y.scaleB (e - ey - 1) else t
      fmodPos y fuel (r - t)

def fmod (x y : Float) : Float :=
  if x.isNaN || y.isNaN || x.isInf || y == 0.0 then Float.ofBits 0x7ff8000000000000
  else if y.isInf then x
  else
    let r := fmodPos y.abs 2200 x.abs
    if x.toBits >>> 63 == 1 then -r else r

def f64pi : Float := Float.ofBits 0x400921FB54442D18

/-- `2.0 * PI * (freq as f64) / (samp_rate as f64)` -/
def radPerSample (samp freq : Float32) : Float := 2.0 * f64pi * freq.toFloat / samp.toFloat

/-- the arithmetic the phase accumulator uses (`f64` in the block; exact reals in `RR/Proof/SigIdeal.lean`) -/
structure SigOps (α : Type) where
  zero : α
  add : α → α → α
  /-- `x % 2π` -/
  wrap : α → α
  sin : α → α
  /-- `x − π/2` -/
  quarter : α → α

/-- `Iterator::next` of both signal sources: advance the phase, hand `sin(phase)` and `sin(phase − π/2)` to
the output conversion -/
def sigGen {α : Type} (o : SigOps α) (rad : α) (out : α → α → Nat) : GenSrc :=
  { σ := α, init := o.zero
    next := fun cur =>
      let c := o.wrap (o.add cur rad)
      (c, out (o.sin c) (o.sin (o.quarter c))) }

def f64Ops : SigOps Float :=
  { zero := 0.0, add := (· + ·), wrap := fun x => fmod x (2.0 * f64pi), sin := Float.sin
    quarter := fun x => x - f64pi / 2.0 }

/-- `amplitude * sin as f32` -/
def sigFloat (samp freq amp : Float32) : GenSrc :=
  sigGen f64Ops (radPerSample samp freq) fun s _ => bits (amp * s.toFloat32)

/-- `amplitude * Complex::new(sin as f32, sin(· − π/2) as f32)` -/
def sigComplex (samp freq amp : Float32) : GenSrc :=
  sigGen f64Ops (radPerSample samp freq) fun s q => bits (amp * s.toFloat32) + bits (amp * q.toFloat32) * 2 ^ 32

def sinkSrcRegistry (name : String) (p : List Nat) : Option Block :=
  match name, p with
  | "nullsink", [] => some nullBlock
  | "vectorsink", [max] => some (vsinkBlock max)
  | "sigsrc_f", [s, f, a] => some (genBlock (sigFloat (f32 s) (f32 f) (f32 a)))
  | "sigsrc_c", [s, f, a] => some (genBlock (sigComplex (f32 s) (f32 f) (f32 a)))
  | _, _ => none

end RR.Blk
