import RR.Model.Sched
import RR.Model.Util

/-! `sched st|mt <cancelAt|-> | <script> | <script> …` -/
namespace RR.SchedDriver
open RR RR.Sched RR.Util

def parseCall (t : String) : Option Call :=
  let cs := t.toList
  let moved := cs.getLast? == some 'm'
  let cs := if moved then cs.dropLast else cs
  match cs with
  | ['A'] => some ⟨.again, false, moved⟩
  | ['P'] => some ⟨.pending, false, moved⟩
  | ['F', e] => some ⟨.waitFunc, e == '1', moved⟩
  | ['W', c, n, e] => some ⟨.waitStream (c == '1') (n == '1'), e == '1', moved⟩
  | ['E'] => some ⟨.eof, false, moved⟩
  | ['X'] => some ⟨.err, false, moved⟩
  | _ => none

def showResult : Result → String
  | .ok => "ok"
  | .err n => s!"err {n}"
  | .outOfFuel => "out-of-fuel"

def handle (args : String) : String :=
  match args.splitOn "|" with
  | hd :: rest =>
    match toks hd, rest.mapM (fun s => (toks s).mapM parseCall) with
    | [kind, c], some scripts =>
      let cancelAt : Option Nat := c.toNat?
      if kind == "st" then
        let (r, st) := stRun scripts cancelAt
        s!"{showResult r} log={",".intercalate (st.log.map toString)}"
      else
        let ths := scripts.map fun s => mtThread s none
        let exits := ths.map (·.2)
        let res := mtResult exits
        let anyFail := exits.any (· == .failed)
        let counts := ths.map fun (k, e) => if anyFail && e != .failed then "*" else toString k
        s!"{showResult res} calls={",".intercalate counts} finished=true"
    | _, _ => "bad-op"
  | [] => "bad-op"

end RR.SchedDriver
