import RR.Proof.DspFir
import RR.Proof.DspAlg
import RR.Proof.DspOla
import RR.Proof.DspIir
import RR.Proof.DspDesign
import RR.Proof.DspFftBlock
import RR.Proof.DspHilbert
import RR.Proof.SigIdeal
import RR.Proof.WrapFft

/-!
# C11 — DSP kernels agree with their mathematical definitions and with each other

The model (`RR/Model/Dsp.lean`) mirrors `Fir`, `FirFilter::work`, the AVX and
portable-simd reductions, `Hilbert::work`, `IirFilter`, `SinglePoleIir`,
`FastFM`, `calc_fft_size` and the overlap-add loop of `FftFilter` over an
abstract arithmetic. It is tied to the code bit for bit in `Float32`
(`rrh blocks --set dsp`, `rrh dsp`, in the default, the AVX and the
portable-simd build). The theorems:

* any arithmetic (floats included): `FirFilter` output `m` is `Fir::filter` at
  offset `m·deci`, for EVERY chunking (`c11_fir_any_chunking`);
* any commutative ring (ℤ, ℚ, ℝ, ℂ … — "exact arithmetic"): that value is the
  sliding dot product `Σ_k taps[k]·x[m·deci+ntaps-1-k]`, i.e. the linear
  convolution at `m·deci + ntaps - 1` (`c11_fir_sliding`, `c11_fir_eq_conv`);
  the SIMD reductions equal the scalar one (`c11_kernels_agree`); overlap-add
  around a cyclic convolution of size `calc_fft_size(ntaps)` is the linear
  convolution with zero pre-history (`c11_ola_eq_conv`), hence FFT output =
  FIR output delayed by `ntaps-1` (`c11_fft_eq_fir_delayed`);
* IIR recurrences (`c11_iir_recurrence`, `c11_single_pole`), generated
  low-pass taps symmetric with unit DC gain for the three window families
  (`c11_lowpass_*`), Hilbert taps antisymmetric, FM demodulator identities.

PARTIAL: the float results differ from the exact ones by rounding; the bound is
checked by the harness against an f64 reference (not a theorem). The engine
(`rustfft`) is assumed to compute the cyclic convolution (checked to 0.02 on
integer data by `!dsp engine` lines). `FftFilter`'s batching loop is proved equal to
`olaRun` for every schedule (`c11_fft_block`).
-/
namespace RR.Props.C11
open RR RR.Blk RR.Dsp Finset

/-- **FIR block, every chunking, any arithmetic.** However the input is split
into read windows and however much output space is free at each call, after
`q'·deci` consumed samples the block has delivered exactly `q'` outputs, output
`m` being `Fir::filter` applied to the `ntaps` samples from `m·deci`
(decimation phase kept). -/
theorem c11_fir_any_chunking {α : Type} (o : Ops α) (cd : Codec α) (taps : List α) (deci : Nat) (X : List Nat)
    (hd : 0 < deci) (ht : 0 < taps.length) (sched : List (Nat × Nat)) :
    let r := drive1 (firBlock o cd taps deci) X () 0 [] sched
    ∃ q', r.2.1 = q' * deci ∧ r.2.2 = firSpec o cd (firNew taps) deci X q' := by
  have := fir_drive o cd taps deci X 0 hd ht sched
  simpa [firSpec] using this

/-- `work()` never trips one of its assertions, never over-consumes or over-commits. -/
theorem c11_fir_step_safe {α : Type} (o : Ops α) (cd : Codec α) (rt : List α) (deci : Nat) (X : List Nat)
    (q a f : Nat) (hd : 0 < deci) (ht : 0 < rt.length) :
    let w := (X.drop (q * deci)).take a
    let r := firWork o cd rt deci () ⟨[⟨w, [], true⟩], [⟨f, true⟩]⟩
    r.2.verdict ≠ .panic ∧ (r.2.produced.getD 0 ⟨[], []⟩).samples.length ≤ f := by
  intro w r
  obtain ⟨j, _, hjf, _, h4, h5⟩ := fir_step o cd rt deci X q a f hd ht
  refine ⟨h5, ?_⟩
  show (r.2.produced.getD 0 ⟨[], []⟩).samples.length ≤ f
  rw [h4]
  simpa using hjf

variable {R : Type} [CommRing R]

/-- **Sliding dot product**: in exact arithmetic the filter at offset `off` is
`Σ_k taps[k]·x[off + ntaps - 1 - k]`. -/
theorem c11_fir_sliding (taps X : List R) (off : ℕ) (h : off + taps.length ≤ X.length) :
    dot (ringOps R) (firNew taps) (X.drop off) =
      ∑ k ∈ range taps.length, taps.getD k 0 * X.getD (off + taps.length - 1 - k) 0 :=
  fir_at_offset taps X off h

/-- … which is the linear convolution at index `off + ntaps - 1`. -/
theorem c11_fir_eq_conv (taps X : List R) (off : ℕ) (h : off + taps.length ≤ X.length) (ht : 0 < taps.length) :
    dot (ringOps R) (firNew taps) (X.drop off) = convAt taps X (off + (taps.length - 1)) :=
  fir_eq_conv taps X off h ht

/-- **Every SIMD-specialised kernel computes the same sum** as the scalar fold
(exact arithmetic; in floats they differ by the order of the additions). -/
theorem c11_kernels_agree (taps input : List R) (h : taps.length = input.length) :
    dotAvx (ringOps R) taps input = firFilter (ringOps R) taps input ∧
    dotSimd (ringOps R) taps input = firFilter (ringOps R) taps input := by
  unfold firFilter
  rw [if_neg (by omega)]
  exact ⟨dotAvx_eq_dot taps input h, dotSimd_eq_dot taps input (by omega)⟩

/-- The AVX kernel (unlike the scalar one) insists on equal lengths. -/
theorem c11_avx_length_assert (taps input : List R) (h : taps.length ≠ input.length) :
    dotAvx (ringOps R) taps input = none := by
  unfold dotAvx; rw [if_pos h]

/-- `calc_fft_size`: a power of two, at least twice the tap count (so a batch
of `fft_size - ntaps` samples never wraps). -/
theorem c11_fft_size (L : ℕ) : 2 * L ≤ calcFftSize L ∧ ∃ e, calcFftSize L = 2 ^ e :=
  ⟨calcFftSize_ge L, calcFftSize_pow2 L⟩

/-- **Overlap-add = linear convolution with zero pre-history**: `B` batches
from the start of the stream produce `y[n] = Σ_k h[k]·x[n-k]` for
`n < B·(fft_size - ntaps)`. -/
theorem c11_ola_eq_conv (taps X : List R) (ht : 0 < taps.length) (B : ℕ)
    (hX : B * (calcFftSize taps.length - taps.length) ≤ X.length) :
    olaRun (ringOps R) taps (calcFftSize taps.length - taps.length) X B 0 (List.replicate taps.length 0) =
      (List.range (B * (calcFftSize taps.length - taps.length))).map (fun n => convAt taps X n) := by
  have := ola_run taps X ht B 0 (List.replicate taps.length 0) (by simpa using hX)
    (fun i _ => tail_init taps X _ i)
  simpa using this

/-- **FFT output = FIR output delayed by `ntaps-1`**: FIR output `m` (deci 1)
equals FFT-filter output `m + ntaps - 1`. -/
theorem c11_fft_eq_fir_delayed (taps X : List R) (ht : 0 < taps.length) (B m : ℕ)
    (hX : B * (calcFftSize taps.length - taps.length) ≤ X.length)
    (hm : m + (taps.length - 1) < B * (calcFftSize taps.length - taps.length)) (hmx : m + taps.length ≤ X.length) :
    (olaRun (ringOps R) taps (calcFftSize taps.length - taps.length) X B 0 (List.replicate taps.length 0)).getD
        (m + (taps.length - 1)) 0 =
      dot (ringOps R) (firNew taps) (X.drop m) := by
  rw [c11_ola_eq_conv taps X ht B hX, getD_map_range _ _ _ hm, fir_eq_conv taps X m hmx ht]

/-- **The FFT filter block, every chunking, exact arithmetic.** However the input is split
into read windows and however much output space each call finds, the block (buffering a partial
batch across calls, carrying the overlap tail) has emitted exactly the first `B·S` samples of the
linear convolution with zero pre-history, `S = fft_size - ntaps`, and holds the `< S` samples
consumed beyond them in its buffer. -/
theorem c11_fft_block (cd : Codec R) (taps : List R) (ht : 0 < taps.length) (Xn : List Nat)
    (sched : List (Nat × Nat)) :
    let S := calcFftSize taps.length - taps.length
    let r := drive1 (fftBlock (ringOps R) cd taps) Xn ⟨[], [], List.replicate taps.length 0⟩ 0 [] sched
    ∃ B, r.2.1 = B * S + r.1.buf.length ∧ r.1.buf.length < S ∧
      r.2.2 = ((List.range (B * S)).map fun n => convAt taps (Xn.map cd.dec) n).map cd.enc :=
  fft_block_eq_conv cd taps ht Xn sched

/-- **Hilbert transformer block, every schedule, any arithmetic and kernel.** With `Z` = `ntaps` zeros followed
by the input: however the input is cut into read windows and however much output space each call finds, after `c`
consumed samples the block has emitted exactly, for every `j < c`, the pair (`Z[j + ntaps/2]`, kernel(taps,
`Z[j .. j+ntaps]`)) — the input delayed by half the filter next to the filter output (`kernel` = the scalar, AVX
or portable-SIMD dot product, proved equal in `c11_kernels_agree`) — and every input tag has been handed on
exactly once, at the same index. -/
theorem c11_hilbert_block {α : Type} (o : Ops α) (cd : Codec α) (pair : α → α → Nat) (k : List α → List α → α)
    (taps : List α) (hnt : 0 < taps.length) (X : List Nat) (T : List Tag) (sched : List (Nat × Nat)) :
    let B := hilbertBlock o cd pair (fun p q => some (k p q)) taps
    let r := driveT B X T B.init 0 [] [] sched
    r.2.1 ≤ X.length ∧ r.2.2.1 = (List.range r.2.1).map (hilOut o cd pair k (firNew taps) X) ∧
    r.2.2.2.Perm (rng T 0 r.2.1) :=
  hilbert_drive o cd pair k taps hnt X T sched

/-- **IIR recurrence**: `y[n] = t0·x[n] + Σ_{i=1}^{min(n,L-1)} t_i·y[n-i]`, for every input. -/
theorem c11_iir_recurrence (taps xs : List R) (ht : taps ≠ []) :
    iirRun (ringOps R) taps [] xs = some (iirRef taps [] xs) :=
  iir_from_start taps xs ht

/-- **Clamped IIR** (`filter_clamped`, used by the symbol-clock loop filter): the
returned value is clamped and is the very value fed back into the recurrence. -/
theorem c11_iir_clamped {α : Type} (o : Ops α) (clamp : α → α) (taps buf : List α) (x : α) (buf' : List α) (y : α)
    (h : iirClampStep o clamp taps buf x = some (buf', y)) (h2 : 2 ≤ taps.length) :
    buf'.getLast? = some y ∧ ∃ z, y = clamp z :=
  iirClamp_feedback o clamp taps buf x buf' y h h2

/-- **Single-pole IIR**: `y = α·x + (1-α)·y_prev`, and its closed form. -/
theorem c11_single_pole (a y0 : R) (xs : List R) :
    (∀ prev x, singlePole (ringOps R) a (1 - a) prev x = a * x + (1 - a) * prev) ∧
    xs.foldl (fun prev x => singlePole (ringOps R) a (1 - a) prev x) y0 =
      (1 - a) ^ xs.length * y0 + ∑ k ∈ range xs.length, a * (1 - a) ^ (xs.length - 1 - k) * xs.getD k 0 :=
  ⟨single_pole_recurrence a, single_pole_closed a y0 xs⟩

open Design in
/-- **Generated low-pass taps are symmetric with unit DC gain** — Hamming window
(`ntaps = 2m+1`, any `a0`, any cutoff). -/
theorem c11_lowpass_hamming (a0 fwt0 : ℝ) (m : ℕ) (hm : 0 < m)
    (hf : fmax (sincCore fwt0) (hammingWin a0 m) m ≠ 0) :
    (∀ i, i ≤ 2 * m → lowPass (sincCore fwt0) (hammingWin a0 m) m (2 * m - i) =
      lowPass (sincCore fwt0) (hammingWin a0 m) m i) ∧
    ∑ i ∈ range (2 * m + 1), lowPass (sincCore fwt0) (hammingWin a0 m) m i = 1 :=
  ⟨lowPass_symm _ _ m (sincCore_even fwt0) (hamming_symm a0 m hm),
   lowPass_dc _ _ m (sincCore_even fwt0) (hamming_symm a0 m hm) hf⟩

open Design in
/-- … Blackman and Blackman-Harris windows (symmetric since the `fix:` commit). -/
theorem c11_lowpass_blackman (a0 a1 a2 a3 fwt0 : ℝ) (m : ℕ) (hm : 0 < m)
    (hf : fmax (sincCore fwt0) (blackmanWin a0 a1 a2 m) m ≠ 0)
    (hf' : fmax (sincCore fwt0) (blackmanHarrisWin a0 a1 a2 a3 m) m ≠ 0) :
    ((∀ i, i ≤ 2 * m → lowPass (sincCore fwt0) (blackmanWin a0 a1 a2 m) m (2 * m - i) =
      lowPass (sincCore fwt0) (blackmanWin a0 a1 a2 m) m i) ∧
     ∑ i ∈ range (2 * m + 1), lowPass (sincCore fwt0) (blackmanWin a0 a1 a2 m) m i = 1) ∧
    ((∀ i, i ≤ 2 * m → lowPass (sincCore fwt0) (blackmanHarrisWin a0 a1 a2 a3 m) m (2 * m - i) =
      lowPass (sincCore fwt0) (blackmanHarrisWin a0 a1 a2 a3 m) m i) ∧
     ∑ i ∈ range (2 * m + 1), lowPass (sincCore fwt0) (blackmanHarrisWin a0 a1 a2 a3 m) m i = 1) :=
  ⟨⟨lowPass_symm _ _ m (sincCore_even fwt0) (blackman_symm a0 a1 a2 m hm),
    lowPass_dc _ _ m (sincCore_even fwt0) (blackman_symm a0 a1 a2 m hm) hf⟩,
   ⟨lowPass_symm _ _ m (sincCore_even fwt0) (blackmanHarris_symm a0 a1 a2 a3 m hm),
    lowPass_dc _ _ m (sincCore_even fwt0) (blackmanHarris_symm a0 a1 a2 a3 m hm) hf'⟩⟩

open Design in
/-- The window the code used before the repair (periodic: division by `ntaps`)
does not satisfy the symmetry hypothesis — witness: 3 taps. -/
theorem c11_periodic_window_not_symmetric :
    ¬ ((0.42 : ℝ) - 0.5 * Real.cos (2 * Real.pi * 0 / 3) + 0.08 * Real.cos (4 * Real.pi * 0 / 3) =
       0.42 - 0.5 * Real.cos (2 * Real.pi * 2 / 3) + 0.08 * Real.cos (4 * Real.pi * 2 / 3)) :=
  blackman_periodic_not_symm

open Design in
/-- **Hilbert taps** are antisymmetric about a zero centre tap, even offsets are zero. -/
theorem c11_hilbert_taps {K : Type} [Field K] (win : ℕ → K) (mid : ℕ) (g : K)
    (hwin : ∀ i, i ≤ mid → win (mid + i) = win (mid - i)) (i : ℕ) (hi : i ≤ mid) :
    g * hilbertRaw win mid (mid + i) = -(g * hilbertRaw win mid (mid - i)) ∧
    (i % 2 = 0 → hilbertRaw win mid (mid + i) = 0 ∧ hilbertRaw win mid (mid - i) = 0) :=
  ⟨hilbert_antisymm win mid g hwin i hi, fun h => hilbert_even_zero win mid i h hi⟩

open Design in
/-- **FM demodulators**: quadrature demod = gain × phase advance; FastFM = `Im((s-q2)·conj q1)`. -/
theorem c11_fm_identities (gain a b θ φ : ℝ) (ha : 0 < a) (hb : 0 < b)
    (h : θ - φ ∈ Set.Ioc (-Real.pi) Real.pi) (s q1 q2 : ℂ) :
    gain * Complex.arg (((a : ℂ) * Complex.exp (θ * Complex.I)) *
      (starRingEnd ℂ) ((b : ℂ) * Complex.exp (φ * Complex.I))) = gain * (θ - φ) ∧
    (s.im - q2.im) * q1.re - (s.re - q2.re) * q1.im = ((s - q2) * (starRingEnd ℂ) q1).im :=
  ⟨quad_demod gain a b θ φ ha hb h, fast_fm s q1 q2⟩

/-! ### the premises are satisfiable; the definitions compute what they should -/

/-- 3 taps `[1,2,3]`, decimation 2 on `0..9`: outputs at offsets 0, 2, 4, 6. -/
example : filterN (ringOps ℤ) (firNew [1, 2, 3]) [0, 1, 2, 3, 4, 5, 6, 7, 8, 9] 2 4 = [4, 16, 28, 40] := by decide
example : convAt ([1, 2, 3] : List ℤ) [0, 1, 2, 3, 4, 5, 6, 7, 8, 9] 2 = 4 := by decide
example : calcFftSize 1 = 2 ∧ calcFftSize 3 = 8 ∧ calcFftSize 4 = 8 ∧ calcFftSize 5 = 16 ∧ calcFftSize 200 = 512 := by
  decide
/-- overlap-add of two batches (3 taps, fft size 8, batch 5) against the convolution -/
example : olaRun (ringOps ℤ) [1, 2, 3] 5 [1, 0, 0, 0, 0, 0, 1, 0, 0, 0] 2 0 [0, 0, 0] =
    [1, 2, 3, 0, 0, 0, 1, 2, 3, 0] := by decide
example : iirRun (ringOps ℤ) [1, 1, 1] [] [1, 0, 0, 0, 0] = some [1, 1, 2, 3, 5] := by decide
example : dotAvx (ringOps ℤ) [1, 2, 3, 4, 5, 6, 7, 8, 9, 10] [1, 1, 1, 1, 1, 1, 1, 1, 2, 2] = some 74 := by decide

/-- SignalSourceFloat / SignalSourceComplex — the generator whose `f64` instance is compared bit for bit
with the real blocks — over exact reals: for EVERY schedule of free-space values, and whatever whole number
of turns the `% 2π` removes at each step, the samples emitted are the pure tone
`out (sin((i+1)·rad)) (−cos((i+1)·rad))`, i = 0, 1, …, cut at the total room offered. -/
theorem c11_signal_source_ideal (turns : ℝ → ℤ) (rad : ℝ) (out : ℝ → ℝ → Nat) (fs : List Nat) :
    (genDrive (sigGen (realSigOps turns) rad out) fs (sigGen (realSigOps turns) rad out).init).2 =
      (List.range fs.sum).map fun i => out (Real.sin ((i + 1 : ℕ) * rad)) (-Real.cos ((i + 1 : ℕ) * rad)) := by
  rw [gen_drive, sig_ideal]

/-- **FftFilterFloat, every schedule, exact arithmetic.** The float filter is the complex one between two
inner streams (any capacity) and two sample conversions; however the outer input is cut into read windows and
however much output space each call finds, what has been delivered is the conversion of a prefix of the
linear convolution of the converted input — the inner streams lose, duplicate and reorder nothing. -/
theorem c11_fft_float_block (cd : Codec R) (taps : List R) (ht : 0 < taps.length) (cap : Nat)
    (toIn toOut : Nat → Nat) (Xn : List Nat) (sched : List (Nat × Nat)) :
    let S := calcFftSize taps.length - taps.length
    let W := wrapBlock (fftBlock (ringOps R) cd taps) cap toIn toOut (fftNeed taps)
    let r := drive1 W Xn W.init 0 [] sched
    r.2.1 ≤ Xn.length ∧
    ∃ B, B * S ≤ r.2.1 ∧
      r.2.2 <+: (((List.range (B * S)).map fun n => convAt taps ((Xn.map toIn).map cd.dec) n).map cd.enc).map toOut :=
  fft_float_block_eq_conv cd taps ht cap toIn toOut Xn sched


end RR.Props.C11
