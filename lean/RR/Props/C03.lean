import RR.Gen.ConcStatus
import RR.Proof.Conc
import RR.Gen.Conc
import RR.Proof.RingRun

/-!
# C03 — one producer thread and one consumer thread share a stream safely

Model: `RR.Conc` — the ring of C01 plus each side's live window snapshot; the
mutex critical sections are atomic steps, cell accesses through windows are
separate steps; a schedule is an arbitrary list of steps (no bound, no
fairness). Ghost state: the committed history and the consumed count.

Partial w.r.t. the hardware/compiler memory model: steps are sequentially
consistent; that `Mutex` release/acquire publishes the producer's cell writes
before the commit is visible is trusted.
-/
namespace RR.Props.C03
open RR RR.Conc

/-- The invariant holds after every schedule of producer/consumer steps. -/
theorem c03_invariant (cap : Nat) (hcap : 0 < cap) (sched : List Step) :
    Inv (run (init cap) sched) := inv_run (inv_init hcap) sched

/-- Memory exposed by a live write window is never simultaneously exposed by a
live read window: in every reachable state the two windows' cells are disjoint. -/
theorem c03_windows_disjoint (cap : Nat) (hcap : 0 < cap) (sched : List Step)
    (w r : Win) (hw : (run (init cap) sched).pw = some w) (hr : (run (init cap) sched).pr = some r)
    (i j : Nat) (hi : i < w.len) (hj : j < r.len) :
    cellOf (run (init cap) sched) w i ≠ cellOf (run (init cap) sched) r j := by
  have h := c03_invariant cap hcap sched
  generalize run (init cap) sched = s at *
  obtain ⟨ws, wl⟩ := h.pw_ok w hw
  obtain ⟨rs, rl⟩ := h.pr_ok r hr
  unfold Ring.free at wl
  have := h.used_le
  unfold cellOf
  rw [ws, rs, wcell h]
  intro e
  have := Ring.cell_inj h.rpos_lt (by omega) (by omega) e
  omega

/-- Every value the consumer loads through its read window, at any moment and
under any interleaving, is the element of the producer's committed sequence at
position `consumed + j`: nothing torn, stale, duplicated or skipped. -/
theorem c03_reader_sees_committed (cap : Nat) (hcap : 0 < cap) (sched : List Step)
    (r : Win) (hr : (run (init cap) sched).pr = some r) (j : Nat) (hj : j < r.len) :
    (step (run (init cap) sched) (.get j)).2 =
      .value ((run (init cap) sched).hist.getD ((run (init cap) sched).consumed + j) 0) := by
  have h := c03_invariant cap hcap sched
  generalize run (init cap) sched = s at *
  obtain ⟨rs, rl⟩ := h.pr_ok r hr
  simp only [step, hr, hj, if_true, cellOf, rs]
  rw [h.mem_hist j (by omega)]

/-- What has been consumed plus what is readable is exactly what was committed
(the consumed history is a prefix of the committed history). -/
theorem c03_consumed_prefix (cap : Nat) (hcap : 0 < cap) (sched : List Step) :
    (run (init cap) sched).hist.length =
      (run (init cap) sched).consumed + (run (init cap) sched).ring.used :=
  (c03_invariant cap hcap sched).hist_len

/-- Free-space queries and waits see consistent counters at their linearisation point. -/
theorem c03_bookkeeping_atomic (cap : Nat) (hcap : 0 < cap) (sched : List Step) :
    ∃ u f, (step (run (init cap) sched) .peek).2 = .counts u f ∧ u + f = cap ∧
      (step (run (init cap) sched) .peek).1.ring.used = u := by
  have h := c03_invariant cap hcap sched
  have hcap' : (run (init cap) sched).ring.cap = cap := by
    clear h
    suffices ∀ s : State, s.ring.cap = cap → (run s sched).ring.cap = cap from this _ rfl
    induction sched with
    | nil => intro s hs; exact hs
    | cons st rest ih =>
      intro s hs
      apply ih
      cases st <;> simp only [step] <;> (try split) <;> (try split) <;> (try split) <;> try exact hs
      · rename_i r hr; rw [Ring.produce_cap hr]; exact hs
      · rename_i r hr; rw [Ring.consume_cap hr]; exact hs
  refine ⟨_, _, rfl, ?_, rfl⟩
  have := h.used_le
  unfold Ring.free; omega

/-- The handle-count ceiling (`refcount > 3` is refused): a thread that follows
the protocol (no live window of its own when it asks for one) always sees at
most 3, so the refusal can never turn a correct run into an error … -/
theorem c03_ceiling_never_fires (s : State) :
    (s.pw = none → refcount s ≤ 3) ∧ (s.pr = none → refcount s ≤ 3) := by
  unfold refcount
  constructor <;> intro h <;> simp [h] <;> split <;> omega

/-- … and it does fire for a third window while both sides hold one. -/
theorem c03_ceiling_fires (s : State) (w r : Win) (hw : s.pw = some w) (hr : s.pr = some r) :
    refcount s > 3 := by simp [refcount, hw, hr]

/-! Non-vacuity: a schedule in which both windows are live at once on a wrapped ring. -/
def demo : List Step :=
  [.acqW, .put 0 5, .put 1 6, .put 2 7, .commit 3, .acqR, .consume 3,
   .acqW, .put 0 8, .put 1 9, .commit 2, .acqR, .acqW, .put 0 10, .get 0, .get 1, .peek]

example : (run (init 4) demo).pw = some ⟨1, 2⟩ ∧ (run (init 4) demo).pr = some ⟨3, 2⟩ := by decide
example : (step (run (init 4) demo) (.get 1)).2 = .value 9 := by decide

/-- The model's atomic steps are what the source does: each of `consume`, `produce`,
`read_buf`, `write_buf` takes the state lock exactly once and keeps it until after its last
state update (shape regenerated from src/circular_buffer.rs on every run). A split
critical section (snapshot, unlock, relock, write back) breaks this obligation. -/
theorem c03_sections_as_modelled : Gen.lockShape = [(1, 0), (1, 0), (1, 0), (1, 0)] := by decide

end RR.Props.C03
