import RR.Proof.RingRun

/-!
# C01 — streams deliver exactly the committed samples, once, in order

Model: `RR.Ring` (mirror of `BufferState`, `produce`, `consume`, `read_buf`,
`write_buf`, `free` in `src/circular_buffer.rs`). Spec: `RR.Fifo`.
Only property statements live here; lemmas are in `RR/Proof`.
-/
namespace RR.Props.C01
open RR RR.Ring

/-- For every capacity and every finite sequence of stream operations (write
`k` samples and commit `n ≤ k` of them with tags; over-commit; look at the read
window; consume any `m`, including 0, the full capacity and too much; query
free space), the ring shows exactly what the FIFO specification shows: the
committed-and-not-yet-consumed samples, in commit order, identical values, with
their tags, at every wrap offset; and it refuses exactly when the spec does. -/
theorem c01_refines_fifo (cap : Nat) (hcap : 0 < cap) (ops : List Fifo.Op)
    (hv : ∀ op ∈ ops, op.Valid) :
    Ring.run (Ring.init cap) ops = Fifo.run cap [] ops :=
  run_sim (sim_init hcap) ops hv

/-- Readable plus writable always equals the capacity. -/
theorem c01_read_plus_write (cap : Nat) (hcap : 0 < cap) (ops : List Fifo.Op)
    (hv : ∀ op ∈ ops, op.Valid) (s : State) (h : exec (init cap) ops = some s) :
    readLen s + writeLen s = cap := by
  obtain ⟨q, hs, hc⟩ := exec_sim (sim_init hcap) ops hv h
  rw [read_plus_write hs, hc]; rfl

/-- A commit larger than the free space is refused; the state is not touched. -/
theorem c01_overcommit_refused (s : State) (n : Nat) (ts : List Tag) (h : free s < n) :
    produce s n ts = none := produce_refused n ts h

/-- A consume larger than what is readable is refused. -/
theorem c01_overconsume_refused (s : State) (m : Nat) (h : s.used < m) :
    consume s m = none := consume_refused m h

/-- Element sizes: if the sample size divides the buffer size, sample `i` and
sample `i + capacity` are the same bytes of the double mapping (byte `b` and
byte `b + size` alias, C18) … -/
theorem c01_elem_size (ms size i k : Nat) (hd : ms ∣ size) :
    (size / ms + i) * ms + k = (i * ms + k) + size := by
  obtain ⟨c, rfl⟩ := hd
  rcases Nat.eq_zero_or_pos ms with h | h
  · subst h; simp
  · rw [Nat.mul_div_cancel_left _ h, Nat.add_mul, Nat.mul_comm c ms]; omega

/-- … and if it does not, they are not (3-byte samples in a 4096-byte buffer):
such a buffer must be refused — and is, by the admission test. -/
theorem c01_elem_size_witness : (4096 / 3 + 0) * 3 + 0 ≠ (0 * 3 + 0) + 4096 := by decide

theorem c01_bad_elem_size_refused (page ms size : Nat) (h : size % ms ≠ 0) :
    newCap page ms size = none := by simp [newCap, h]

theorem c01_good_size_accepted (page ms size : Nat) (hm : 0 < ms) (hs : 0 < size)
    (h1 : size % ms = 0) (h2 : size % page = 0) : newCap page ms size = some (size / ms) := by
  have : ms ≠ 0 := by omega
  have : size ≠ 0 := by omega
  simp [newCap, *]

/-! Non-vacuity: a concrete valid program that wraps a 4-cell ring, and what it shows. -/
def demo : List Fifo.Op :=
  [.write [1, 2, 3] 3 [⟨2, 7, 8⟩], .consume 2, .write [4, 5, 6] 2 [⟨0, 9, 9⟩, ⟨1, 5, 5⟩], .read,
   .consume 0, .read, .overcommit 0]

example : ∀ op ∈ demo, op.Valid := by decide
example : Fifo.run 4 [] demo =
    [.ok, .ok, .ok, .window [3, 4, 5] [⟨0, 7, 8⟩, ⟨1, 9, 9⟩, ⟨2, 5, 5⟩] 1, .ok,
     .window [3, 4, 5] [⟨0, 7, 8⟩, ⟨1, 9, 9⟩, ⟨2, 5, 5⟩] 1, .refused] := by decide
example : Ring.run (Ring.init 4) demo = Fifo.run 4 [] demo := by decide

end RR.Props.C01
