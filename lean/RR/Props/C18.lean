import RR.Model.Mmap
import RR.Gen.Mmap
import RR.Model.Ring

/-!
# C18 — streams release every mapping and descriptor; the two halves alias

Model: `RR.Mmap` — the process's mappings of the stream's temp file, in units of
the stream size `S`, and its descriptor. The call sequences `RR.Gen.vm*` are
regenerated on every run from an strace of the real code (set-up + drop; second
mmap refused; first mmap refused; sample size not dividing the buffer), so the
theorems are about what the code does now. Because lengths and offsets are in
units of `S` and relative to the base address, the statements hold for every
size and every address.

Partial: the kernel (`mmap`, `MAP_FIXED` replacement, `munmap`) is a parameter
of the model, not verified.
-/
namespace RR.Props.C18
open RR RR.Mmap

/-- While the stream exists, region unit 0 and region unit 1 are both backed by
file unit 0: byte `i` and byte `i + size` of the buffer are the same memory. -/
theorem c18_alias :
    let v := run VM.init (untilReturn Gen.vmSuccess)
    v.outcome = some true ∧ backing v 0 = some 0 ∧ backing v 1 = some 0 ∧ v.maps.length = 2 := by decide

/-- Create then drop: no mapping and no descriptor is left. -/
theorem c18_no_leak_success :
    (run VM.init Gen.vmSuccess).maps = [] ∧ (run VM.init Gen.vmSuccess).fdOpen = false := by decide

/-- The temp file's descriptor is already closed when the constructor returns
(the mappings keep the file alive), so a live stream costs no descriptor. -/
theorem c18_no_fd_while_alive : (run VM.init (untilReturn Gen.vmSuccess)).fdOpen = false := by decide

/-- Second mapping refused (size not a page multiple): reported as an error, everything unmapped —
in particular the first mapping is still `2·size` long when it is torn down. -/
theorem c18_no_leak_second_fails :
    (run VM.init Gen.vmSecondFails).outcome = some false ∧
    (run VM.init Gen.vmSecondFails).maps = [] ∧ (run VM.init Gen.vmSecondFails).fdOpen = false := by decide

/-- First mapping refused: error, nothing mapped, descriptor closed. -/
theorem c18_no_leak_first_fails :
    (run VM.init Gen.vmFirstFails).outcome = some false ∧
    (run VM.init Gen.vmFirstFails).maps = [] ∧ (run VM.init Gen.vmFirstFails).fdOpen = false := by decide

/-- A sample size that does not divide the buffer is refused before anything is opened or mapped. -/
theorem c18_elem_size_refused :
    (run VM.init Gen.vmElemSize).outcome = some false ∧ Gen.vmElemSize.length = 1 := by decide

/-- On every path (success, either mapping refused, bad element size) the stream unmaps and re-maps only
address space it holds at that moment: no `munmap` of a range already given back, no `MAP_FIXED` onto a range that
is not reserved — so a set-up or tear-down on one thread can never destroy or take over what another thread was
handed in between. -/
theorem c18_touches_only_own :
    ownOnly VM.init Gen.vmSuccess = true ∧ ownOnly VM.init Gen.vmSecondFails = true ∧
    ownOnly VM.init Gen.vmFirstFails = true ∧ ownOnly VM.init Gen.vmElemSize = true := by decide

/-- … and the predicate does see such faults: a second `munmap` of the reservation, or a `MAP_FIXED` after the
upper half was given back. -/
theorem c18_own_only_witnesses :
    ownOnly VM.init [.open_, .truncate 2, .mmap 2 true, .mmapFixed 1 1 false, .munmap 0 2, .munmap 0 2] = false ∧
    ownOnly VM.init [.open_, .truncate 2, .mmap 2 true, .munmap 1 1, .mmapFixed 1 1 true] = false := by decide

/-- Mappings and the descriptor evolve independently of the bookkeeping fields. -/
theorem run_indep (s : List Call) (v w : VM) (hm : v.maps = w.maps) (hf : v.fdOpen = w.fdOpen) :
    (run v s).maps = (run w s).maps ∧ (run v s).fdOpen = (run w s).fdOpen := by
  induction s generalizing v w with
  | nil => exact ⟨hm, hf⟩
  | cons c rest ih =>
    simp only [run, List.foldl_cons]
    apply ih
    · cases c <;> simp [step, hm] <;> (try split) <;> simp [hm]
    · cases c <;> simp [step, hf] <;> (try split) <;> simp [hf]

/-- Any number of create/drop cycles (of any of the scenarios, in any order)
returns to the initial address space. -/
theorem c18_churn (seqs : List (List Call))
    (h : ∀ s ∈ seqs, s = Gen.vmSuccess ∨ s = Gen.vmSecondFails ∨ s = Gen.vmFirstFails ∨ s = Gen.vmElemSize) :
    (run VM.init seqs.flatten).maps = [] ∧ (run VM.init seqs.flatten).fdOpen = false := by
  suffices ∀ v : VM, v.maps = [] → v.fdOpen = false →
      (run v seqs.flatten).maps = [] ∧ (run v seqs.flatten).fdOpen = false from this _ rfl rfl
  induction seqs with
  | nil => intro v h1 h2; exact ⟨h1, h2⟩
  | cons s rest ih =>
    intro v h1 h2
    simp only [List.flatten_cons, run, List.foldl_append]
    have hi := run_indep s v VM.init h1 h2
    have hz : (run VM.init s).maps = [] ∧ (run VM.init s).fdOpen = false := by
      rcases h s (by simp) with rfl | rfl | rfl | rfl
      · exact c18_no_leak_success
      · exact ⟨c18_no_leak_second_fails.2.1, c18_no_leak_second_fails.2.2⟩
      · exact ⟨c18_no_leak_first_fails.2.1, c18_no_leak_first_fails.2.2⟩
      · decide
    exact ih (fun x hx => h x (by simp [hx])) _ (by rw [← hz.1]; exact hi.1) (by rw [← hz.2]; exact hi.2)

/-- The admission test of `Buffer::new` (shared with C01): sizes that are not a
page multiple or not a multiple of the sample size are refused. -/
theorem c18_setup_refused (page ms size : Nat) (h : size % ms ≠ 0 ∨ size % page ≠ 0) :
    Ring.newCap page ms size = none := by
  rcases h with h | h <;> simp [Ring.newCap, h]

end RR.Props.C18
