import RR.Proof.SyncWork
import RR.Model.Blocks

/-!
# C19 — derive-generated blocks for any stream arity

Model: `RR.Blk.syncWork` — the `work()` that `#[derive(Block)]` generates in
`sync` / `sync_tag` mode (`rustradio_macros/src/lib.rs`), generic in the number
of inputs and outputs and in the (stateful) per-sample function. The theorems
quantify over every `SyncSpec`, i.e. every user block of this kind.

The generated constructor's wiring (`new()` returns the read ends of fresh
streams in declaration order) has no logic to prove; it is checked by the
correspondence (harness blocks with 1..3 inputs x 1..3 outputs whose output `j`
carries `sum + j`).
-/
namespace RR.Props.C19
open RR RR.Blk

/-- When no input is empty and no output is full, one call processes exactly
`min(shortest input, smallest output space) ≥ 1` steps: it consumes that many
samples from *every* input and emits that many on *every* output. -/
theorem c19_steps (S : SyncSpec) (st : S.σ) (v : View)
    (hin : firstIdx v.ins (fun i => i.samples.isEmpty) = none)
    (hout : firstIdx v.outs (fun o => o.free == 0) = none) :
    0 < stepsOf v ∧
    ((syncWork S st v).2.verdict = .panic ∨
     ((syncWork S st v).2.verdict = .again ∧
      (syncWork S st v).2.consumed = v.ins.map (fun _ => stepsOf v) ∧
      (syncWork S st v).2.produced.length = v.outs.length ∧
      ∀ p ∈ (syncWork S st v).2.produced, p.samples.length = stepsOf v)) :=
  syncWork_steps S st v hin hout

/-- The step count never exceeds any input window or any output space. -/
theorem c19_steps_bounded (v : View) :
    (∀ i ∈ v.ins, stepsOf v ≤ i.samples.length) ∧ (∀ o ∈ v.outs, stepsOf v ≤ o.free) :=
  ⟨stepsOf_le_in v, stepsOf_le_out v⟩

/-- It waits (need 1) on the first empty input in declaration order … -/
theorem c19_wait_input (S : SyncSpec) (st : S.σ) (v : View) (k : Nat)
    (h : firstIdx v.ins (fun i => i.samples.isEmpty) = some k) :
    (syncWork S st v).1 = st ∧ (syncWork S st v).2.verdict = .waitIn k 1 ∧
    (∀ c ∈ (syncWork S st v).2.consumed, c = 0) ∧
    (∃ i, v.ins[k]? = some i ∧ i.samples = []) ∧
    (∀ j, j < k → ∀ i, v.ins[j]? = some i → i.samples ≠ []) :=
  syncWork_waitIn S st v k h

/-- … else on the first output without space. -/
theorem c19_wait_output (S : SyncSpec) (st : S.σ) (v : View) (k : Nat)
    (hin : firstIdx v.ins (fun i => i.samples.isEmpty) = none)
    (h : firstIdx v.outs (fun o => o.free == 0) = some k) :
    (syncWork S st v).1 = st ∧ (syncWork S st v).2.verdict = .waitOut k 1 ∧
    (∀ c ∈ (syncWork S st v).2.consumed, c = 0) ∧
    (∃ o, v.outs[k]? = some o ∧ o.free = 0) :=
  syncWork_waitOut S st v k hin h

/-- The generated end-of-input detection is true only (and exactly) when all
inputs have ended and are drained. -/
theorem c19_eof (v : View) :
    macroEof v = true ↔ ∀ i ∈ v.ins, i.alive = false ∧ i.samples = [] := macroEof_iff v

/-- One sample per input and per output each step, for any chunking: the
cumulative result of any sequence of calls is the one-shot loop (C08 for the family). -/
theorem c19_chunk_independent (S : SyncSpec) (get : Nat → List Nat × List (List Tag))
    (st : S.σ) (c : Nat) (chunks : List Nat) :
    driveG S get st c chunks =
      (syncLoopG S get st c chunks.sum).map fun (s, rows, ts) => (s, c + chunks.sum, rows, ts) :=
  driveG_eq_oneShot S get st c chunks

/-! Non-vacuity: a 2-in / 2-out block on unequal windows and output space. -/
def demoView : View :=
  { ins := [⟨[1, 2, 3, 4], [⟨1, 7, 7⟩], true⟩, ⟨[10, 20, 30], [], true⟩]
    outs := [⟨5, true⟩, ⟨2, true⟩] }
example : stepsOf demoView = 2 := by decide
example : (syncWork (arity 2 2) () demoView).2.consumed = [2, 2] := by decide
example : ((syncWork (arity 2 2) () demoView).2.produced.map (·.samples)) = [[11, 22], [12, 23]] := by decide
example : (syncWork (arity 2 2) () { demoView with outs := [⟨5, true⟩, ⟨0, true⟩] }).2.verdict = .waitOut 1 1 := by
  decide

end RR.Props.C19
