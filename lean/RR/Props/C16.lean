import RR.Proof.Source
import RR.Proof.FileSrc
import RR.Proof.SigmfSrc

/-!
# C16 — finite sources emit their data exactly `repeat` times, then EOF

Models: `RR.Src.Repeat` (src/lib.rs) with checked `u64` arithmetic and
`RR.Src.vsWork` (VectorSource::work), `RR.Src.fsWork` (FileSource::work, read
through a buffered reader that may return short reads), `RR.Src.sgWork`
(SigMFSource::work over the data range of a recording or archive member). All three are
compared call by call with the real blocks (`blk vsrc|fsrc|sgsrc` lines); in addition the real
blocks are checked against the specification directly (`!src` lines: total
output = data x repeat exactly, EOF exactly at the end, never for infinite).
-/
namespace RR.Props.C16
open RR RR.Src RR.Blk

/-- The repeat counter: `k ≤ n` calls of `again()` on `finite(n)` all succeed,
the `j`-th says "continue" iff repetitions remain, the count is `k`, and the
repeat is done exactly when `k = n`; nothing over- or underflows. -/
theorem c16_repeat_algebra (n k : Nat) (hk : k ≤ n) (hn : k < 2 ^ 64) :
    againN k (Repeat.finite n) =
      some (⟨.finite (n - k), k⟩, (List.range k).map fun j => decide (n - j > 1)) ∧
    ((⟨.finite (n - k), k⟩ : Repeat).done = true ↔ k = n) := by
  have := againN_finite n k 0 hk (by omega)
  simp only [Nat.zero_add] at this
  refine ⟨this, ?_⟩
  simp [Repeat.done]; omega

/-- The only way to underflow is to call `again()` when `done()` (a precondition that
every call site now establishes: `VectorSource`, `FileSource`, `SigMFSource` test `done()` first). -/
theorem c16_underflow_only_when_done (x : Repeat) (hc : x.count + 1 < 2 ^ 64) :
    x.again = none ↔ x.done = true := by
  obtain ⟨r, c⟩ := x
  have hov : ¬ (c + 1 ≥ 2 ^ 64) := by simp at hc; omega
  cases r with
  | finite n => by_cases h : n = 0 <;> simp [Repeat.again, Repeat.done, hov, h]
  | infinite => simp [Repeat.again, Repeat.done, hov]

/-- An infinite repeat never ends. -/
theorem c16_infinite (k : Nat) (hk : k < 2 ^ 64) :
    againN k Repeat.infinite = some (⟨.infinite, k⟩, List.replicate k true) ∧
    (⟨.infinite, k⟩ : Repeat).done = false := by
  have := againN_infinite k 0 (by omega)
  simp only [Nat.zero_add] at this
  exact ⟨this, rfl⟩

/-- **VectorSource**: for every consumption schedule (free space seen by each
call) the cumulative output is whole repetitions followed by a prefix of the
data, never anything else; and if some call answered `EOF`, exactly `n`
repetitions have been emitted. -/
theorem c16_vector (data : List Nat) (n : Nat) (hn0 : 0 < n) (hn : n < 2 ^ 64) (hd : data ≠ [])
    (frees : List Nat) :
    let r := driveSrc data ⟨0, Repeat.finite n⟩ [] false frees
    Good data n r.1 ∧ r.2.1 = emitted data n r.1 ∧ (r.2.2 = true → r.2.1 = rept n data) := by
  have hg : Good data n ⟨0, Repeat.finite n⟩ :=
    ⟨n, rfl, by simp [Repeat.finite], Or.inr (List.length_pos_iff.mpr hd), Nat.zero_le _⟩
  have he : emitted data n ⟨0, Repeat.finite n⟩ = [] := by
    unfold emitted Repeat.finite
    cases n with
    | zero => omega
    | succ q => simp [rept]
  have := vs_drive data n hn hd ⟨0, Repeat.finite n⟩ hg false (by intro h; cases h) frees
  rw [he] at this
  exact this

/-- `repeat = 0` (or an empty vector): EOF at once, nothing emitted. -/
theorem c16_vector_zero (data : List Nat) (v : View) :
    (vsWork data ⟨0, Repeat.finite 0⟩ v).2.verdict = .eof ∧
    (vsWork [] ⟨0, Repeat.finite 3⟩ v).2.verdict = .eof := by
  constructor
  · by_cases h : data.isEmpty = true <;> simp [vsWork, h, Repeat.done, Repeat.finite, noOut]
  · simp [vsWork, noOut]

/-- Marker tags: only on the first sample of a repetition (`pos = 0`), `first`
only in repetition 0 — once per repetition, however the repetition is split. -/
theorem c16_marker_tags (data : List Nat) (st : VSt) (f : Nat) (hd : data ≠ []) (hnd : st.rep.done = false)
    (hf : 0 < f) (hp : st.pos < data.length) (hc : st.rep.count + 1 < 2 ^ 64) :
    ((vsWork data st ⟨[], [⟨f, true⟩]⟩).2.produced.getD 0 ⟨[], []⟩).tags =
      (if st.pos == 0 then [⟨0, keyStart, 1⟩, ⟨0, keyRepeat, st.rep.count⟩] else []) ++
      (if st.pos == 0 && st.rep.count == 0 then [⟨0, keyFirst, 1⟩] else []) := by
  have hde : data.isEmpty = false := by cases data <;> simp_all
  have hf0 : (f == 0) = false := by simp; omega
  have hag : st.rep.again ≠ none := by
    intro h
    have := (c16_underflow_only_when_done st.rep hc).mp h
    rw [hnd] at this; cases this
  simp only [vsWork, hde, hnd, out0, hf0, List.getD_cons_zero, Bool.false_eq_true, if_false]
  split
  · split
    · rename_i h; exact absurd h hag
    · split <;> rfl
  · rfl

/-- **FileSource**: for every consumption schedule (free space seen by each call), for files whose
length is or is not a whole number of samples, and however the buffered reader cuts its reads, the
cumulative output is whole repetitions of the file's whole samples followed by the first
`pos / size` of them, never anything else (a trailing partial sample is never carried into the next
repetition); and if some call answered `EOF`, exactly `n` repetitions have been emitted. -/
theorem c16_file (file : List Nat) (size n : Nat) (hs : 0 < size) (hn0 : 0 < n) (hn : n < 2 ^ 64)
    (frees : List Nat) :
    let r := fsDrive file size ⟨0, 0, [], Repeat.finite n⟩ [] false frees
    FsGood file size n r.1 ∧ r.2.1 = fsEmitted file size n r.1 ∧
      (r.2.2 = true → r.2.1 = rept n (fileSamples file size)) := by
  have hg : FsGood file size n ⟨0, 0, [], Repeat.finite n⟩ :=
    ⟨n, rfl, by simp [Repeat.finite], Nat.zero_le _, Nat.zero_le _, by simp⟩
  have he : fsEmitted file size n ⟨0, 0, [], Repeat.finite n⟩ = [] := by
    unfold fsEmitted Repeat.finite
    cases n with
    | zero => omega
    | succ q => simp [rept, samplesOf]
  have := fs_drive file size n hs hn ⟨0, 0, [], Repeat.finite n⟩ hg false (by intro h; cases h) frees
  rw [he] at this
  exact this

/-- One call of FileSource never over- or underflows the repeat counter, answers `EOF` exactly when
the last repetition has just been completed or was complete already, and `EOF` calls emit nothing. -/
theorem c16_file_step (file : List Nat) (size n : Nat) (hs : 0 < size) (hn : n < 2 ^ 64) (st : FsSt)
    (hg : FsGood file size n st) (f : Nat) :
    let r := fsWork file size st ⟨[], [⟨f, true⟩]⟩
    (r.2.verdict = .eof ↔ r.1.rep.r = .finite 0) ∧ r.2.verdict ≠ .panic ∧
    (r.2.verdict = .eof → fsEmitted file size n r.1 = rept n (fileSamples file size)) := by
  intro r
  obtain ⟨_, _, h3, h4⟩ := fs_step file size n hs hn st hg f
  refine ⟨h3, h4, ?_⟩
  intro he
  have := h3.mp he
  simp only [fsEmitted]
  rw [this]
  rfl

/-- `repeat = 0`: EOF at once, nothing emitted, nothing read. -/
theorem c16_file_zero (file : List Nat) (size : Nat) (v : View) :
    fsWork file size ⟨0, 0, [], Repeat.finite 0⟩ v = (⟨0, 0, [], Repeat.finite 0⟩, noOut v .eof) := by
  simp [fsWork, Repeat.done, Repeat.finite]

/-! Non-vacuity: a 7-byte file of 2-byte samples (one stray byte), 2 repetitions, space 1, 1, 5, … -/
example : (fsDrive [1, 0, 2, 0, 3, 0, 9] 2 ⟨0, 0, [], Repeat.finite 2⟩ [] false [1, 1, 5, 0, 5, 2, 5, 5, 5]).2 =
    ([1, 2, 3, 1, 2, 3], true) := by
  decide

/-- **SigMFSource**: for every consumption schedule the cumulative output is whole repetitions of
the recording's whole samples followed by a prefix of them; if some call answered `EOF`, exactly
`n` repetitions have been emitted. -/
theorem c16_sigmf (data : List Nat) (size n : Nat) (hs : 0 < size) (hn0 : 0 < n) (hn : n < 2 ^ 64)
    (hd : data ≠ []) (frees : List Nat) :
    let r := sgDrive data size ⟨data.length, [], Repeat.finite n⟩ [] false frees
    SgGood data size n r.1 ∧ r.2.1 = sgEmitted data size n r.1 ∧
      (r.2.2 = true → r.2.1 = rept n (fileSamples data size)) := by
  have hg : SgGood data size n ⟨data.length, [], Repeat.finite n⟩ :=
    ⟨n, rfl, by simp [Repeat.finite], Nat.le_refl _, by simp⟩
  have he : sgEmitted data size n ⟨data.length, [], Repeat.finite n⟩ = [] := by
    unfold sgEmitted Repeat.finite
    cases n with
    | zero => omega
    | succ q => simp [rept, samplesOf]
  have := sg_drive data size n hs hn hd ⟨data.length, [], Repeat.finite n⟩ hg false (by intro h; cases h) frees
  rw [he] at this
  exact this

/-- An empty recording, or `repeat = 0`: EOF at once, nothing emitted. -/
theorem c16_sigmf_zero (data : List Nat) (size : Nat) (rep : Repeat) (st : SgSt) (v : View) :
    sgWork [] size st v = (st, noOut v .eof) ∧
    sgWork data size ⟨data.length, [], Repeat.finite 0⟩ v = (⟨data.length, [], Repeat.finite 0⟩, noOut v .eof) := by
  simp [sgWork, Repeat.done, Repeat.finite]

example : (sgDrive [1, 0, 2, 0, 3, 0, 9] 2 ⟨7, [], Repeat.finite 2⟩ [] false [1, 1, 5, 0, 5, 2, 5, 5, 5]).2 =
    ([1, 2, 3, 1, 2, 3], true) := by
  decide

/-! Non-vacuity: 2 repetitions of 3 samples through space 2, 2, 5, 1, 9. -/
example : (driveSrc [7, 8, 9] ⟨0, Repeat.finite 2⟩ [] false [2, 2, 5, 1, 9]).2 = ([7, 8, 9, 7, 8, 9], true) := by
  decide

end RR.Props.C16
