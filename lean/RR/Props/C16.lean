import RR.Proof.Source

/-!
# C16 — finite sources emit their data exactly `repeat` times, then EOF

Models: `RR.Src.Repeat` (src/lib.rs) with checked `u64` arithmetic and
`RR.Src.vsWork` (VectorSource::work). FileSource and SigMFSource share the
`Repeat` logic; their byte reassembly is C14, and their repeat behaviour is
checked on the real code against the same specification (`!src` lines: total
output = data x repeat exactly, EOF exactly at the end, never for infinite).
-/
namespace RR.Props.C16
open RR RR.Src RR.Blk

/-- The repeat counter: `k ≤ n` calls of `again()` on `finite(n)` all succeed,
the `j`-th says "continue" iff repetitions remain, the count is `k`, and the
repeat is done exactly when `k = n`; nothing over- or underflows. -/
theorem c16_repeat_algebra (n k : Nat) (hk : k ≤ n) (hn : k < 2 ^ 64) :
    againN k (Repeat.finite n) =
      some (⟨.finite (n - k), k⟩, (List.range k).map fun j => decide (n - j > 1)) ∧
    ((⟨.finite (n - k), k⟩ : Repeat).done = true ↔ k = n) := by
  have := againN_finite n k 0 hk (by omega)
  simp only [Nat.zero_add] at this
  refine ⟨this, ?_⟩
  simp [Repeat.done]; omega

/-- The only way to underflow is to call `again()` when `done()` (a precondition that
every call site now establishes: `VectorSource`, `FileSource`, `SigMFSource` test `done()` first). -/
theorem c16_underflow_only_when_done (x : Repeat) (hc : x.count + 1 < 2 ^ 64) :
    x.again = none ↔ x.done = true := by
  obtain ⟨r, c⟩ := x
  have hov : ¬ (c + 1 ≥ 2 ^ 64) := by simp at hc; omega
  cases r with
  | finite n => by_cases h : n = 0 <;> simp [Repeat.again, Repeat.done, hov, h]
  | infinite => simp [Repeat.again, Repeat.done, hov]

/-- An infinite repeat never ends. -/
theorem c16_infinite (k : Nat) (hk : k < 2 ^ 64) :
    againN k Repeat.infinite = some (⟨.infinite, k⟩, List.replicate k true) ∧
    (⟨.infinite, k⟩ : Repeat).done = false := by
  have := againN_infinite k 0 (by omega)
  simp only [Nat.zero_add] at this
  exact ⟨this, rfl⟩

/-- **VectorSource**: for every consumption schedule (free space seen by each
call) the cumulative output is whole repetitions followed by a prefix of the
data, never anything else; and if some call answered `EOF`, exactly `n`
repetitions have been emitted. -/
theorem c16_vector (data : List Nat) (n : Nat) (hn0 : 0 < n) (hn : n < 2 ^ 64) (hd : data ≠ [])
    (frees : List Nat) :
    let r := driveSrc data ⟨0, Repeat.finite n⟩ [] false frees
    Good data n r.1 ∧ r.2.1 = emitted data n r.1 ∧ (r.2.2 = true → r.2.1 = rept n data) := by
  have hg : Good data n ⟨0, Repeat.finite n⟩ :=
    ⟨n, rfl, by simp [Repeat.finite], Or.inr (List.length_pos_iff.mpr hd), Nat.zero_le _⟩
  have he : emitted data n ⟨0, Repeat.finite n⟩ = [] := by
    unfold emitted Repeat.finite
    cases n with
    | zero => omega
    | succ q => simp [rept]
  have := vs_drive data n hn hd ⟨0, Repeat.finite n⟩ hg false (by intro h; cases h) frees
  rw [he] at this
  exact this

/-- `repeat = 0` (or an empty vector): EOF at once, nothing emitted. -/
theorem c16_vector_zero (data : List Nat) (v : View) :
    (vsWork data ⟨0, Repeat.finite 0⟩ v).2.verdict = .eof ∧
    (vsWork [] ⟨0, Repeat.finite 3⟩ v).2.verdict = .eof := by
  constructor
  · by_cases h : data.isEmpty = true <;> simp [vsWork, h, Repeat.done, Repeat.finite, noOut]
  · simp [vsWork, noOut]

/-- Marker tags: only on the first sample of a repetition (`pos = 0`), `first`
only in repetition 0 — once per repetition, however the repetition is split. -/
theorem c16_marker_tags (data : List Nat) (st : VSt) (f : Nat) (hd : data ≠ []) (hnd : st.rep.done = false)
    (hf : 0 < f) (hp : st.pos < data.length) (hc : st.rep.count + 1 < 2 ^ 64) :
    ((vsWork data st ⟨[], [⟨f, true⟩]⟩).2.produced.getD 0 ⟨[], []⟩).tags =
      (if st.pos == 0 then [⟨0, keyStart, 1⟩, ⟨0, keyRepeat, st.rep.count⟩] else []) ++
      (if st.pos == 0 && st.rep.count == 0 then [⟨0, keyFirst, 1⟩] else []) := by
  have hde : data.isEmpty = false := by cases data <;> simp_all
  have hf0 : (f == 0) = false := by simp; omega
  have hag : st.rep.again ≠ none := by
    intro h
    have := (c16_underflow_only_when_done st.rep hc).mp h
    rw [hnd] at this; cases this
  simp only [vsWork, hde, hnd, out0, hf0, List.getD_cons_zero, Bool.false_eq_true, if_false]
  split
  · split
    · rename_i h; exact absurd h hag
    · split <;> rfl
  · rfl

/-! Non-vacuity: 2 repetitions of 3 samples through space 2, 2, 5, 1, 9. -/
example : (driveSrc [7, 8, 9] ⟨0, Repeat.finite 2⟩ [] false [2, 2, 5, 1, 9]).2 = ([7, 8, 9, 7, 8, 9], true) := by
  decide

end RR.Props.C16
