import RR.Proof.SyncSpecs
import RR.Proof.SyncWork
import RR.Proof.Hand
import RR.Proof.DspFir
import RR.Proof.DspFftTags
import RR.Proof.TagDrive
import RR.Proof.DspHilbert

/-!
# C12 — blocks carry tags forward exactly once, at the corresponding output sample

In the models tags travel inside the views (window-relative positions, as
`read_buf` gives them) and inside what is handed to `produce(n, tags)`.
Proved: the whole plain-`sync` family (one-to-one blocks: same index, exactly
once, for every chunking), the stream contract `tag.pos < n` for every generated
`work()`, the per-call tag handling of Skip, Delay and FirFilter (index /
decimation), and FftFilter for EVERY schedule of read windows and output space
(`c12_fft`: the block buffers the tags of an unfinished batch across calls).
Hilbert, CmaEqualizer, VectorSource, correlator, burst tagger and VecToStream
are checked on the real code (`!tags` lines: drip-fed vs greedy run must
deliver identical tags; model comparison for correlator/burst tagger), not as
theorems.
-/
namespace RR.Props.C12
open RR RR.Blk

/-- Plain `sync` blocks (stateful or not, any arity): every tag of the first
input comes out exactly once, on the output position of its own sample … -/
theorem c12_sync_same_index (σ : Type) (init : σ) (nin nout : Nat)
    (g : σ → List Nat → Option (σ × List Nat))
    (get : Nat → List Nat × List (List Tag)) (st : σ) (pos k : Nat)
    (st' : σ) (rows : List (List Nat)) (ts : List Tag)
    (h : syncLoopG (pureSync σ init nin nout g) get st pos k = some (st', rows, ts)) :
    ts = (List.range k).flatMap fun p => ((get (pos + p)).2.headD []).map fun t => { t with pos := pos + p } :=
  pureSync_tags σ init nin nout g get st pos k st' rows ts h

/-- … however the input was chunked and however much output space was free
(the cumulative tag list of any schedule is the one-shot list). -/
theorem c12_sync_any_chunking (S : SyncSpec) (get : Nat → List Nat × List (List Tag))
    (st : S.σ) (c : Nat) (chunks : List Nat) :
    driveG S get st c chunks =
      (syncLoopG S get st c chunks.sum).map fun (s, rows, ts) => (s, c + chunks.sum, rows, ts) :=
  driveG_eq_oneShot S get st c chunks

/-- Tags of samples that were not processed in a call stay in the stream: the
tags handed to `produce(n, …)` all sit on one of the `n` committed samples. -/
theorem c12_contract_sync (S : SyncSpec) (get : Nat → List Nat × List (List Tag))
    (st : S.σ) (pos k : Nat) (st' : S.σ) (rows : List (List Nat)) (ts : List Tag)
    (h : syncLoopG S get st pos k = some (st', rows, ts)) :
    ∀ t ∈ ts, pos ≤ t.pos ∧ t.pos < pos + k :=
  syncLoopG_tags_in_range S get st pos k st' rows ts h

/-- Skip (after the skipping is done): the tags of exactly the copied samples, same index. -/
theorem c12_skip (w : List Nat) (ts : List Tag) (f : Nat) (hw : w ≠ []) (hf : 0 < f) :
    let r := skipWork 0 ⟨[⟨w, ts, true⟩], [⟨f, true⟩]⟩
    (r.2.produced.getD 0 ⟨[], []⟩).tags = ts.filter (fun t => decide (t.pos < min w.length f)) ∧
    (r.2.produced.getD 0 ⟨[], []⟩).samples.length = min w.length f := by
  have h1 : w.isEmpty = false := by cases w <;> simp_all
  have h2 : ¬ f = 0 := by omega
  simp [skipWork, in0, out0, h1, h2, List.length_take]

/-- Delay: the tags of exactly the copied samples, shifted by the zeros emitted in the same call. -/
theorem c12_delay (cd : Nat) (w : List Nat) (ts : List Tag) (f : Nat) (hw : w ≠ []) (hf : 0 < f) :
    let r := delayWork ⟨cd, 0⟩ ⟨[⟨w, ts, true⟩], [⟨f, true⟩]⟩
    let nz := if cd > 0 then min cd f else 0
    let n := min w.length (f - nz)
    (r.2.produced.getD 0 ⟨[], []⟩).tags =
      (ts.filter fun t => decide (t.pos < n)).map (fun t => { t with pos := t.pos + nz }) ∧
    (r.2.produced.getD 0 ⟨[], []⟩).samples.length = nz + n := by
  have h2 : ¬ f = 0 := by omega
  have h3 : ¬ w.length = 0 := by
    intro h; exact hw (List.length_eq_zero_iff.mp h)
  simp [delayWork, in0, out0, h2, h3, List.length_take]

/-- FIR filter (decimating): when a call consumes `n = j·deci` samples, the tags
handed on are those of exactly the consumed samples, each once, at index
`pos / deci`, all inside the `j` committed outputs. -/
theorem c12_fir {α : Type} (o : Dsp.Ops α) (cd : Dsp.Codec α) (rt : List α) (deci : Nat) (w : List Nat)
    (ts : List Tag) (f : Nat) (hd : 0 < deci) (ht : 0 < rt.length) :
    let r := Dsp.firWork o cd rt deci () ⟨[⟨w, ts, true⟩], [⟨f, true⟩]⟩
    let n := r.2.consumed.getD 0 0
    (r.2.produced.getD 0 ⟨[], []⟩).tags =
      (ts.filter fun t => decide (t.pos < n)).map (fun t => { t with pos := t.pos / deci }) ∧
    ∀ t ∈ (r.2.produced.getD 0 ⟨[], []⟩).tags, t.pos < (r.2.produced.getD 0 ⟨[], []⟩).samples.length := by
  intro r n
  simp only [r, n, Dsp.firWork, in0, out0, noOut, List.getD_cons_zero]
  have hne : ¬ (deci = 0 ∨ rt.length = 0) := by omega
  simp only [hne, if_false]
  split
  · simp
  split
  · simp
  split
  · simp
  split
  · simp
  split
  · simp
  · rename_i h1 h2 h3 h4 h5
    simp only [List.getD_cons_zero, true_and]
    intro t ht'
    simp only [List.mem_map, List.mem_filter, decide_eq_true_eq] at ht'
    obtain ⟨u, ⟨_, hu⟩, rfl⟩ := ht'
    simp only [Dsp.filterN, List.length_map, List.length_range]
    have hmod : min (deci * ((w.length - rt.length + 1) / deci)) (f * deci) % deci = 0 := by
      have : ¬ (min (deci * ((w.length - rt.length + 1) / deci)) (f * deci) % deci ≠ 0 ∨
          min (deci * ((w.length - rt.length + 1) / deci)) (f * deci) = 0) := h5
      omega
    exact (Nat.div_lt_div_of_lt_of_dvd (Nat.dvd_of_mod_eq_zero hmod) hu)

/-- **Skip(k), every schedule** (`sched` = the (readable, free) pairs of the successive calls; `T` = the
tags of the input history, absolute positions, any number per sample): the tags of the `k` skipped samples are
dropped and every other tag of a consumed sample has been handed on exactly once, at index `pos - k`. -/
theorem c12_skip_any_chunking (k : Nat) (X : List Nat) (T : List Tag) (sched : List (Nat × Nat)) :
    let r := Dsp.driveT (skipBlock k) X T k 0 [] [] sched
    r.2.2.2.Perm ((Dsp.rng T k (max k r.2.1)).map (Dsp.mp (· - k))) ∧ r.2.2.1 = (X.take r.2.1).drop k :=
  Dsp.skip_tags_drive k X T sched

/-- **Delay(d), every schedule**: every tag of a consumed sample has been handed on exactly once, at
index `pos + d` (and the output is `d` zeros followed by the input). -/
theorem c12_delay_any_chunking (d : Nat) (X : List Nat) (T : List Tag) (sched : List (Nat × Nat)) :
    let r := Dsp.driveT (delayBlock d) X T ⟨d, 0⟩ 0 [] [] sched
    r.2.2.2.Perm ((Dsp.rng T 0 r.2.1).map (Dsp.mp (· + d))) ∧
    ∃ z, z ≤ d ∧ (0 < r.2.1 → z = d) ∧ r.2.2.1 = List.replicate z 0 ++ X.take r.2.1 :=
  Dsp.delay_tags_drive d X T sched

/-- **FirFilter (any arithmetic, any decimation), every schedule**: every tag of a consumed sample has
been handed on exactly once, at index `pos / decimation`; consumed = outputs × decimation. -/
theorem c12_fir_any_chunking {α : Type} (o : Dsp.Ops α) (cd : Dsp.Codec α) (taps : List α) (deci : Nat) (X : List Nat)
    (T : List Tag) (hd : 0 < deci) (ht : 0 < taps.length) (sched : List (Nat × Nat)) :
    let r := Dsp.driveT (Dsp.firBlock o cd taps deci) X T () 0 [] [] sched
    r.2.2.2.Perm ((Dsp.rng T 0 r.2.1).map (Dsp.mp (· / deci))) ∧ r.2.1 = r.2.2.1.length * deci :=
  Dsp.fir_tags_drive o cd taps deci X T hd ht sched

/-- **Hilbert, every schedule**: every tag of a consumed sample has been handed on exactly once, at the same
index (one output per input). -/
theorem c12_hilbert_any_chunking {α : Type} (o : Dsp.Ops α) (cd : Dsp.Codec α) (pair : α → α → Nat)
    (k : List α → List α → α) (taps : List α) (hnt : 0 < taps.length) (X : List Nat) (T : List Tag)
    (sched : List (Nat × Nat)) :
    let B := Dsp.hilbertBlock o cd pair (fun p q => some (k p q)) taps
    let r := Dsp.driveT B X T B.init 0 [] [] sched
    r.2.2.2.Perm (Dsp.rng T 0 r.2.1) ∧ r.2.2.1.length = r.2.1 := by
  intro B r
  obtain ⟨_, h2, h3⟩ := Dsp.hilbert_drive o cd pair k taps hnt X T sched
  refine ⟨h3, ?_⟩
  have := congrArg List.length h2
  simpa using this

/-- **FftFilter, every schedule.** The input history `X` carries the tags `T` (absolute
positions, any number per sample, any order). However the input is cut into read windows and however
much output space each call finds, at every moment: the tags handed downstream so far (rebased to
absolute output positions) are exactly — as a multiset, so each exactly once — the input tags on the
samples emitted so far, at the SAME index; and the tags of the samples consumed but not yet emitted are
exactly what the block holds in `buf_tags`, relative to the pending batch. Nothing is lost, duplicated
or moved. -/
theorem c12_fft {α : Type} (o : Dsp.Ops α) (cd : Dsp.Codec α) (taps : List α) (X : List Nat) (T : List Tag)
    (hS : 0 < Dsp.calcFftSize taps.length - taps.length) (sched : List (Nat × Nat)) :
    let r := Dsp.driveT (Dsp.fftBlock o cd taps) X T (Dsp.fftBlock o cd taps).init 0 [] [] sched
    let emitted := r.2.2.1.length
    r.2.2.2.Perm (Dsp.rng T 0 emitted) ∧
    r.1.bufTags.Perm ((Dsp.rng T emitted r.2.1).map (Dsp.sh emitted)) ∧
    r.2.1 = emitted + r.1.buf.length := by
  have h := Dsp.fft_tags_drive o cd taps X T hS sched ⟨[], [], List.replicate taps.length o.zero⟩ 0 [] []
    (Dsp.fft_tags_init taps T _ hS)
  exact ⟨h.2.2.2, h.2.2.1, h.2.1⟩

/-! Non-vacuity. -/
example : 0 < Dsp.calcFftSize 3 - 3 := by decide
example : (Dsp.driveT (delayBlock 2) [7, 8, 9, 10] [⟨0, 1, 1⟩, ⟨2, 2, 2⟩, ⟨3, 3, 3⟩] ⟨2, 0⟩ 0 [] [] [(1, 1), (3, 2), (2, 9), (4, 1)]).2 =
    (4, [0, 0, 7, 8, 9, 10], [⟨2, 1, 1⟩, ⟨4, 2, 2⟩, ⟨5, 3, 3⟩]) := by decide
example : (Dsp.driveT (skipBlock 2) [7, 8, 9, 10] [⟨0, 1, 1⟩, ⟨2, 2, 2⟩, ⟨3, 3, 3⟩] (2 : Nat) 0 [] [] [(1, 1), (3, 2), (3, 9)]).2 =
    (4, [9, 10], [⟨0, 2, 2⟩, ⟨1, 3, 3⟩]) := by decide
example :
    let r := Dsp.driveT (Dsp.fftBlock Dsp.giOps Dsp.giCodec [(1, 0), (2, 0), (1, 0)]) (List.range 40)
      [⟨0, 1, 1⟩, ⟨4, 2, 2⟩, ⟨4, 3, 3⟩, ⟨9, 4, 4⟩, ⟨30, 5, 5⟩] (Dsp.fftBlock Dsp.giOps Dsp.giCodec [(1, 0), (2, 0), (1, 0)]).init
      0 [] [] [(3, 100), (7, 100), (1, 100), (20, 100)]
    (r.2.1, r.2.2.1.length, r.2.2.2, r.1.bufTags) = (31, 30, [⟨0, 1, 1⟩, ⟨4, 2, 2⟩, ⟨4, 3, 3⟩, ⟨9, 4, 4⟩], [⟨0, 5, 5⟩]) := by
  decide +kernel
example : (syncWork nrzi (0 : Nat) ⟨[⟨[1, 0, 1], [⟨0, 7, 1⟩, ⟨2, 8, 2⟩, ⟨2, 9, 3⟩], true⟩], [⟨2, true⟩]⟩).2.produced.map (·.tags)
    = [[⟨0, 7, 1⟩]] := by decide

end RR.Props.C12
