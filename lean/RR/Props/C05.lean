import RR.Gen.WaitsStatus
import RR.Proof.Kpn
import RR.Proof.KpnRun
import RR.Proof.Sched
import RR.Proof.Sync
import RR.Proof.Wait
import RR.Gen.Waits
import RR.Proof.KpnRetire

/-!
# C05 — multithreaded runner: terminates with the schedule-independent reference result

The argument has four layers, each a theorem:

1. **Blocks** (C08): for every schedule, a block's cumulative output is its
   history function of what it consumed (`driveG_eq_oneShot`, `skip_drive`, …),
   so nothing consumed is held back and nothing depends on chunking.
2. **Waits** (C04): a `true` wait is only given when the peer is gone and the
   remainder is insufficient, and it arrives one completed call after that.
3. **Thread loop** (`RR.Sched.mtLoop`, tied to the real `MTGraph::run` by
   scripted blocks): a block thread ends only by cancel, error, `EOF`,
   `b.eof()` or a `true` wait; it always ends when the block's answers are
   finite; `run()` joins all threads.
4. **Graph** (`RR.Kpn`): the graph is a DAG; a state in which every block's
   output histories are its function of its input histories is unique and
   equals the sequential reference execution — no hypothesis mentions
   interleaving, timeouts, stream size or add order.

Partial: that the OS schedules every thread (fairness) and that bounded buffers
do not deadlock a reconvergent graph whose branch skew exceeds the stream
capacity are assumptions, not theorems.
-/
namespace RR.Props.C05
open RR

/-- Layer 4: any quiescent assignment of histories to the streams of the DAG is
the sequential reference evaluation of the blocks in creation order. -/
theorem c05_result (nodes : List Kpn.Node) (h : List (List Nat)) (q : Kpn.Quiescent nodes 0 h) :
    h = Kpn.eval nodes [] := Kpn.quiescent_is_reference nodes h q

/-- Layer 3: the only ways out of a block thread's loop. -/
theorem c05_exit_reasons (script : Sched.Script) (cancelAt : Option Nat) (k fuel : Nat) :
    let r := Sched.mtLoop script cancelAt k fuel
    r.2 = .outOfFuel ∨
    (r.2 = .cancelled ∧ Sched.seenCancel cancelAt r.1 = true) ∨
    (r.2 = .failed ∧ (Sched.callAt script (r.1 - 1)).v = .err ∧ 0 < r.1) ∨
    (r.2 = .eof ∧ (Sched.callAt script (r.1 - 1)).v = .eof ∧ 0 < r.1) ∨
    (r.2 = .retired ∧ 0 < r.1 ∧
      ((Sched.callAt script (r.1 - 1)).eofAfter = true ∨
       ∃ c, (Sched.callAt script (r.1 - 1)).v = .waitStream c true)) :=
  Sched.mtLoop_exit_reasons script cancelAt k fuel

/-- Layer 3: every block thread terminates when its block's answers are finite
(the runner adds no livelock of its own). -/
theorem c05_thread_terminates (script : Sched.Script) (cancelAt : Option Nat) :
    (Sched.mtThread script cancelAt).2 ≠ .outOfFuel := Sched.mtThread_terminates script cancelAt

/-- Layer 3: `run()` is `Ok` iff no block thread failed — independent of the
order in which the blocks were added. -/
theorem c05_add_order_irrelevant (e1 e2 : List Sched.Exit) (h : ∀ x, x ∈ e1 ↔ x ∈ e2) :
    Sched.mtResult e1 = .ok ↔ Sched.mtResult e2 = .ok := Sched.mtResult_ok_perm e1 e2 h

/-- Layer 2 (re-stated from C04 for the read side of copy streams): a block is
retired through a `true` wait only when its writer is gone and fewer samples
than it asked for remain; committed data is never discarded by that decision. -/
theorem c05_exit_lossless_wait : Wait.SoundReader Gen.readWait ∧
    (∀ prog s k, (Wait.exec prog s {} (List.replicate k none)).1 = s) :=
  ⟨Wait.sound_aliveFirst, fun prog s k => Wait.exec_no_discard prog s {} k⟩

/-- Layer 1 (re-stated from C08 for the sync family): whatever the
interleaving did to the chunking, a block's cumulative output is the one-shot
function of what it consumed. -/
theorem c05_block_invariant (S : Blk.SyncSpec) (get : Nat → List Nat × List (List Blk.Tag))
    (st : S.σ) (c : Nat) (chunks : List Nat) :
    Blk.driveG S get st c chunks =
      (Blk.syncLoopG S get st c chunks.sum).map fun (s, rows, ts) => (s, c + chunks.sum, rows, ts) :=
  Blk.driveG_eq_oneShot S get st c chunks

/-- Layers 1+4 composed operationally: a graph state = the history committed on every stream and how much of
each input every block has consumed; a step = ANY one block consumes more of what exists and extends its outputs,
which stay a prefix of its history function of what it has consumed (what the C08 theorems say any sequence of
`work()` calls of that block does). **For every sequence of such steps** — any interleaving, any amounts, any
number of steps, so also any stream size, wait timeout or add order — the invariant holds … -/
theorem c05_every_schedule_invariant (nodes : List Kpn.Node)
    (hw : ∀ m, (hm : m < nodes.length) → ∀ i ∈ nodes[m].ins, i < Kpn.base nodes m)
    (s : Kpn.GState) (r : Kpn.Run nodes ⟨List.replicate (Kpn.base nodes nodes.length) [], []⟩ s) :
    Kpn.Inv nodes s :=
  Kpn.run_inv nodes _ s (Kpn.inv_init nodes hw) r

/-- … and every run that ends with everything consumed and emitted has computed the sequential reference
execution, whatever the schedule was. -/
theorem c05_every_schedule_result (nodes : List Kpn.Node)
    (hw : ∀ m, (hm : m < nodes.length) → ∀ i ∈ nodes[m].ins, i < Kpn.base nodes m)
    (s : Kpn.GState) (r : Kpn.Run nodes ⟨List.replicate (Kpn.base nodes nodes.length) [], []⟩ s)
    (hall : Kpn.AllConsumed nodes s) : s.h = Kpn.eval nodes [] :=
  Kpn.run_terminal nodes hw s r hall

/-- Steps exist: the executable `stepFn` (block `idx` consumes up to `cs'` and emits all its function gives) is a
step whenever the amounts are available and the block's function is prefix-monotone at that point. -/
theorem c05_step_exists (nodes : List Kpn.Node) (idx : Nat) (cs' : List Nat) (s : Kpn.GState) (hidx : idx < nodes.length)
    (hinv : Kpn.Inv nodes s)
    (hmono : ∀ k, (s.cs.getD idx []).getD k 0 ≤ cs'.getD k 0)
    (hav : ∀ k, k < nodes[idx].ins.length → cs'.getD k 0 ≤ (s.h.getD (nodes[idx].ins.getD k 0) []).length)
    (hext : ∀ j, j < nodes[idx].nout → ∃ ext,
      (nodes[idx].F (Kpn.consumedOf nodes[idx] s.h cs')).getD j [] = s.h.getD (Kpn.base nodes idx + j) [] ++ ext) :
    Kpn.Step nodes idx s (Kpn.stepFn nodes idx cs' s) :=
  Kpn.stepFn_step nodes idx cs' s hidx hinv hmono hav hext

/-! Non-vacuity: a tee/merge diamond (source; tee; +1 on one branch; add) has one quiescent state. -/
def diamond : List Kpn.Node :=
  [ ⟨[], 1, fun _ => [[1, 2, 3]]⟩,
    ⟨[0], 2, fun xs => [xs.getD 0 [], xs.getD 0 []]⟩,
    ⟨[1], 1, fun xs => [(xs.getD 0 []).map (· + 1)]⟩,
    ⟨[3, 2], 1, fun xs => [List.zipWith (· + ·) (xs.getD 0 []) (xs.getD 1 [])]⟩ ]

example : Kpn.eval diamond [] = [[1, 2, 3], [1, 2, 3], [1, 2, 3], [2, 3, 4], [3, 5, 7]] := by decide

/-- an interleaved schedule on the diamond (source; tee consumes 2; the +1 branch 1; the adder 1+1; … ) ends in the
reference result -/
example :
    let s0 : Kpn.GState := ⟨List.replicate 5 [], []⟩
    let sched : List (Nat × List Nat) :=
      [(0, []), (1, [2]), (2, [1]), (3, [1, 1]), (1, [3]), (3, [1, 2]), (2, [3]), (3, [3, 3])]
    (sched.foldl (fun s p => Kpn.stepFn diamond p.1 p.2 s) s0).h = Kpn.eval diamond [] := by decide

/-- **Retiring blocks.** Both runners stop calling a block once its `eof()` has answered true after a wait verdict,
or once the wait it reported can never be satisfied (the named stream's peer is gone and too little is left).
With the set of retired blocks added to the graph state (a retired block takes no more steps): for EVERY
interleaving of block steps and retirements in which each retirement was *sound* — every stream the block reads
belongs to an already retired block, the block has consumed all of it and emitted everything its history function
gives — the state in which all blocks are retired holds the sequential reference execution on every stream. -/
theorem c05_retire_all_is_reference (nodes : List Kpn.Node)
    (hw : ∀ m, (hm : m < nodes.length) → ∀ i ∈ nodes[m].ins, i < Kpn.base nodes m)
    (R : List Nat) (s : Kpn.GState)
    (r : Kpn.RRun nodes ([], ⟨List.replicate (Kpn.base nodes nodes.length) [], []⟩) (R, s))
    (hall : ∀ m, m < nodes.length → m ∈ R) : s.h = Kpn.eval nodes [] :=
  Kpn.retire_all_is_reference nodes hw R s r hall

/-- The soundness of the retirements is needed: a pass-through block that has consumed its three input samples
and delivered two of them (the third still inside — `FftFilterFloat` before `fix:` 88f9b55) is in a reachable
state that satisfies the invariant; retiring it there ends the run with `[1, 2]` where the reference has
`[1, 2, 3]`. -/
theorem c05_unsound_retire_loses :
    Kpn.Run Kpn.lagNodes Kpn.lagS0 Kpn.lagS2 ∧ Kpn.Inv Kpn.lagNodes Kpn.lagS2 ∧
    ¬ Kpn.Done Kpn.lagNodes Kpn.lagS2 1 (by decide) ∧
    Kpn.lagS2.h.getD 1 [] = [1, 2] ∧ (Kpn.eval Kpn.lagNodes []).getD 1 [] = [1, 2, 3] :=
  Kpn.unsound_retire_loses


end RR.Props.C05
