import RR.Gen.HdlcStatus
import RR.Proof.HdlcTable
import RR.Proof.HdlcRoundtrip
import RR.Proof.HdlcResync
import RR.Proof.HdlcCrcDetect
import RR.Proof.HdlcFix
import RR.Proof.HdlcCrcMixed

/-!
# C13 — HDLC deframer: every valid frame is recovered, nothing invalid is emitted

Model: `RR.Hdlc` — `update_state`, `bits2byte`, `calc_crc`, `find_right_crc`
of `src/hdlc_deframer.rs`, with the 256-entry `FCSTAB`, the flag byte and the
CRC init / xor-out constants regenerated from the source on every run
(`RR.Gen`). Spec: `RR.HdlcSpec` — the transmitter (flags, LSB-first bytes,
CRC-16/X.25 by polynomial division, bit stuffing).
-/
namespace RR.Props.C13
open RR RR.Hdlc RR.HdlcSpec

/-- The generated table is the 256 remainders of the reflected polynomial `0x8408`. -/
theorem c13_table (i : Nat) (hi : i < 256) : tab i = crcStep8 i := table_entries i hi

/-- The deframer's table-driven checksum is CRC-16/X.25 on every byte string. -/
theorem c13_crc_is_x25 (data : List Nat) (hb : ∀ b ∈ data, b < 256) :
    calcCrc data = crcBitwise data := calcCrc_eq_bitwise data hb

/-- CRC gate: with checksum checking on, whatever `update_state` emits has a
verifying checksum against the two received checksum bytes (after the optional
single-bit repair of the data). -/
theorem c13_crc_gate (cfg : Cfg) (hs : cfg.stripChecksum = true) (bits : List Nat) (bit : Nat)
    (p : List Nat) (h : (step cfg (.finalCheck bits) bit).2 = some p) :
    let bytes := toBytes ((bits.drop 7).reverse)
    let got := bytes.getD (bytes.length - 2) 0 + 256 * bytes.getD (bytes.length - 1) 0
    (findRightCrc (bytes.take (bytes.length - 2)) got cfg.fixBits).2 = got ∧
    2 ≤ bytes.length := by
  simp only [step, hs, Bool.true_and] at h
  split at h; · cases h
  split at h; · cases h
  split at h; · cases h
  split at h; · cases h
  split at h
  · cases h
  · rename_i hlen
    simp only [if_true] at h
    split at h
    · cases h
    · rename_i hcrc
      simp at hcrc hlen
      exact ⟨hcrc, by omega⟩

/-- Size bounds, exactly: a delimited bit string is considered only if it is a
whole number of bytes `n` with `minSize ≤ n` (and `2 ≤ n` when the checksum is
stripped); everything else leaves the deframer in sync and emits nothing. -/
theorem c13_bounds (cfg : Cfg) (bits : List Nat) (bit : Nat) (hb : bit ≠ 1) :
    (step cfg (.finalCheck bits) bit).1 = .synced 0 [] ∧
    (((bits.drop 7).length % 8 ≠ 0 ∨ (bits.drop 7).length / 8 < cfg.minSize) →
      (step cfg (.finalCheck bits) bit).2 = none) := by
  have hb' : (bit == 1) = false := by simpa using hb
  constructor
  · simp only [step, hb', Bool.false_eq_true, if_false]
    split; · rfl
    split; · rfl
    split; · rfl
    split; · rfl
    split
    · split <;> rfl
    · rfl
  · intro h
    simp only [step, hb', Bool.false_eq_true, if_false, List.length_reverse]
    split; · rfl
    rcases h with h | h
    · have h' : ¬ ((bits.length - 7) % 8 = 0) := by simpa using h
      simp [h']
    · have h' : (bits.length - 7) / 8 < cfg.minSize := by simpa using h
      split
      · rfl
      · simp [h']

/-- Seven ones in a row abort the frame: nothing is emitted. -/
theorem c13_abort (cfg : Cfg) (bits : List Nat) :
    step cfg (.finalCheck bits) 1 = (.unsynced 0xff, none) := by simp [step]

/-- **Round trip, every payload.** For every payload of byte values within the
configured size limits, the bits the transmitter sends (flag, LSB-first bytes,
CRC-16/X.25 low byte first, bit stuffing, flag) make the deframer — from its
initial state — deliver exactly that payload, once, and leave it right after a
flag. (Chunking is immaterial to the model: `run` is bit-serial; the block's
work loop is tied by the chunked correspondence.) -/
theorem c13_roundtrip (cfg : Cfg) (p : List Nat) (hp : ∀ b ∈ p, b < 256)
    (hs : cfg.stripChecksum = true) (hmin : cfg.minSize ≤ p.length + 2) (hmax : p.length + 2 ≤ cfg.maxSize) :
    run cfg init (frame p) = (.synced 0 [], [p]) := by
  have : frame p = flag ++ body p := by simp [frame, body, List.append_assoc]
  rw [this, run_append, run_opening, run_body cfg p hp hs hmin hmax]
  rfl

/-- **Any number of frames**, back to back with shared flags or separated by
any number of extra flags: exactly the payloads, in order, each once. -/
theorem c13_frames (cfg : Cfg) (hs : cfg.stripChecksum = true) (ps : List (List Nat × Nat))
    (hps : ∀ q ∈ ps, (∀ b ∈ q.1, b < 256) ∧ cfg.minSize ≤ q.1.length + 2 ∧ q.1.length + 2 ≤ cfg.maxSize) :
    run cfg init (flag ++ ps.flatMap fun q => body q.1 ++ (List.replicate q.2 flag).flatten) =
      (.synced 0 [], ps.map (·.1)) := by
  rw [run_append, run_opening, run_bodies cfg hs ps hps]
  rfl

/-- **Resynchronisation**: from every reachable state — i.e. after ANY preceding
bits — a flag leaves the deframer right after a flag. -/
theorem c13_resync (cfg : Cfg) (noise : List Nat) (hn : ∀ b ∈ noise, b ≤ 1) :
    (run cfg init (noise ++ flag)).1 = .synced 0 [] := by
  rw [run_append]
  exact resync cfg _ (by
    have := wf_run cfg noise hn init (by simp [WF, init])
    revert this
    cases (run cfg init noise).1 <;> simp [WF])

/-- **After any preceding bit noise**: whatever bits came first, the frames that
follow a flag are delivered exactly, in order, each once; everything delivered
before them was delivered before the flag ended (and, checksum on, passed the
CRC gate `c13_crc_gate`). -/
theorem c13_after_noise (cfg : Cfg) (hs : cfg.stripChecksum = true) (noise : List Nat) (hn : ∀ b ∈ noise, b ≤ 1)
    (ps : List (List Nat × Nat))
    (hps : ∀ q ∈ ps, (∀ b ∈ q.1, b < 256) ∧ cfg.minSize ≤ q.1.length + 2 ∧ q.1.length + 2 ≤ cfg.maxSize) :
    run cfg init ((noise ++ flag) ++ ps.flatMap fun q => body q.1 ++ (List.replicate q.2 flag).flatten) =
      (.synced 0 [], (run cfg init (noise ++ flag)).2 ++ ps.map (·.1)) := by
  rw [run_append, c13_resync cfg noise hn, run_bodies cfg hs ps hps]

/-- **Every single-bit corruption of the data is rejected** (checksum on, bit fixing off): the
CRC of the corrupted bytes differs from the transmitted checksum — the bit-serial CRC step is a
linear bijection on 16-bit states, so a one-bit difference never cancels — hence `find_right_crc`
reports a mismatch and `update_state` emits nothing (`c13_crc_gate`). -/
theorem c13_single_bit_detected (pre rest : List Nat) (b j : Nat) (hpre : ∀ x ∈ pre, x < 256)
    (hrest : ∀ x ∈ rest, x < 256) (hb : b < 256) (hj : j < 8) :
    let sent := pre ++ b :: rest
    let received := pre ++ (b ^^^ 2 ^ j) :: rest
    (findRightCrc received (crcBitwise sent) false).2 ≠ crcBitwise sent := by
  intro sent received
  have hne := crc_single_bit pre rest b j hpre hrest hb hj
  have hb' : b ^^^ 2 ^ j < 256 := by
    have : 2 ^ j < 2 ^ 8 := Nat.pow_lt_pow_right (by omega) hj
    exact Nat.xor_lt_two_pow (n := 8) hb this
  have hrec : ∀ x ∈ received, x < 256 := by
    intro x hx
    rcases List.mem_append.mp hx with h | h
    · exact hpre x h
    · rcases List.mem_cons.mp h with rfl | h
      · exact hb'
      · exact hrest x h
  have hc : calcCrc received = crcBitwise received := calcCrc_eq_bitwise received hrec
  unfold findRightCrc
  rw [hc]
  have : (crcBitwise sent == crcBitwise received) = false := by
    simp only [beq_eq_false_iff_ne, ne_eq]
    exact fun h => hne h.symm
  simp [this]
  exact hne

/-- **Every double-bit corruption of the data is rejected** (frames below 4095 bytes): two flipped
bits in different bytes (`c13_two_bits_detected`) or in the same byte leave a checksum mismatch,
because the CRC step walks an orbit of length exactly 32767 through the single-bit states (`x` has
order 32767 modulo the generator; established by kernel evaluation of the whole orbit). -/
theorem c13_two_bits_detected (pre mid rest : List Nat) (b1 j1 b2 j2 : Nat)
    (hpre : ∀ x ∈ pre, x < 256) (hmid : ∀ x ∈ mid, x < 256) (hrest : ∀ x ∈ rest, x < 256)
    (hb1 : b1 < 256) (hb2 : b2 < 256) (hj1 : j1 < 8) (hj2 : j2 < 8) (hlen : mid.length + 1 < 4095) :
    crcBitwise (pre ++ (b1 ^^^ 2 ^ j1) :: (mid ++ (b2 ^^^ 2 ^ j2) :: rest)) ≠
      crcBitwise (pre ++ b1 :: (mid ++ b2 :: rest)) ∧
    (j1 ≠ j2 → crcBitwise (pre ++ (b1 ^^^ 2 ^ j1 ^^^ 2 ^ j2) :: rest) ≠ crcBitwise (pre ++ b1 :: rest)) :=
  ⟨crc_two_bits pre mid rest b1 j1 b2 j2 hpre hmid hrest hb1 hb2 hj1 hj2 (by omega),
   fun h => crc_two_bits_same_byte pre rest b1 j1 j2 hpre hrest hb1 hj1 hj2 h⟩

/-- Corruptions touching the checksum field: one flipped data bit together with one flipped bit
of the received checksum never verifies, and a corrupted checksum alone never verifies —
with `c13_single_bit_detected` and `c13_two_bits_detected`: **no frame with one or two
corrupted bits anywhere (data or checksum) passes the CRC gate.** -/
theorem c13_checksum_field_errors (pre rest : List Nat) (b j k : Nat) (hpre : ∀ x ∈ pre, x < 256)
    (hrest : ∀ x ∈ rest, x < 256) (hb : b < 256) (hj : j < 8) (hk : k < 16) (hlen : rest.length + 1 < 4094)
    (e : Nat) (he : e ≠ 0) :
    crcBitwise (pre ++ (b ^^^ 2 ^ j) :: rest) ≠ crcBitwise (pre ++ b :: rest) ^^^ 2 ^ k ∧
    crcBitwise (pre ++ b :: rest) ≠ crcBitwise (pre ++ b :: rest) ^^^ e :=
  ⟨crc_data_and_fcs_bit pre rest b j k hpre hrest hb hj hk hlen, fun h => fcs_only _ e he h.symm⟩

/-- **Single-bit repair returns the original.** With bit fixing enabled and exactly one data bit
flipped, `find_right_crc` finds that bit and no other (any other single flip would be an undetected
double error), hands back the transmitted bytes, and the checksum it reports verifies. -/
theorem c13_fix_repairs (pre rest : List Nat) (b j : Nat)
    (hpre : ∀ x ∈ pre, x < 256) (hrest : ∀ x ∈ rest, x < 256) (hb : b < 256) (hj : j < 8)
    (hlen : (pre ++ b :: rest).length < 4095) :
    findRightCrc (pre ++ (b ^^^ 2 ^ j) :: rest) (crcBitwise (pre ++ b :: rest)) true =
      (some (pre ++ b :: rest), crcBitwise (pre ++ b :: rest)) :=
  findRightCrc_repairs pre rest b j hpre hrest hb hj hlen

/-- Destuffing inverts stuffing: the stuffed form of any bit string is collected as that string. -/
theorem c13_destuff (cfg : Cfg) (d : List Nat) (hd : ∀ b ∈ d, b ≤ 1) (hl : d.length ≤ cfg.maxSize * 8 + 7) :
    ∃ ones, run cfg (.synced 0 []) (stuff d) = (.synced ones d.reverse, []) := by
  obtain ⟨o, _, h⟩ := run_stuffed cfg d hd 0 [] (by omega) (by simpa using hl)
  refine ⟨o, ?_⟩
  have := h []
  simpa [stuff, run] using this

/-! Non-vacuity: the frame of payload `[0x41]` is recovered, after noise that leaves the deframer
mid-frame, with the opening flag shared with the garbage frame. -/
example : (run ⟨2, 50, true, false⟩ init (flag ++ [1, 0, 1] ++ frame [0x41])).2 = [[0x41]] := by decide
example : crcBitwise [0x41] = 0xa3f5 := by decide

end RR.Props.C13
