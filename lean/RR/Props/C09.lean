import RR.Proof.SyncWork
import RR.Proof.Hand
import RR.Proof.DspFir
import RR.Proof.Gated
import RR.Proof.Verdicts
import RR.Proof.V2S
import RR.Proof.Resampler
import RR.Proof.SinkSrc
import RR.Proof.Wrap
import RR.Proof.Cma

/-!
# C09 — block verdicts are truthful

For the modelled blocks the statements are theorems about `work()` on an
arbitrary view (any window contents, any free space, any internal state):
never more consumed than the read window offered, never more committed than the
write window offered; a reported wait names a stream of the block that really
lacks what is asked, and once no stream is lacking the call makes progress;
`Again` comes with progress; ended-and-drained inputs are reported as a wait on
that input. Windows are not held across calls by construction of the models
(each call acquires and releases); on the real code this is the handle count
checked by the harness.

For all other library blocks the same acceptor runs on real traces
(`!c09` lines of the drip-feed harness), not as a theorem.
-/
namespace RR.Props.C09
open RR RR.Blk

/-- Sync family: what is consumed/committed is within every window. -/
theorem c09_sync_within_windows (v : View) :
    (∀ i ∈ v.ins, stepsOf v ≤ i.samples.length) ∧ (∀ o ∈ v.outs, stepsOf v ≤ o.free) :=
  ⟨stepsOf_le_in v, stepsOf_le_out v⟩

/-- Sync family: a wait on input `k` means input `k` is empty (and is the first
such); nothing was consumed, the state is untouched. -/
theorem c09_sync_wait_input_truthful (S : SyncSpec) (st : S.σ) (v : View) (k : Nat)
    (h : firstIdx v.ins (fun i => i.samples.isEmpty) = some k) :
    (syncWork S st v).1 = st ∧ (syncWork S st v).2.verdict = .waitIn k 1 ∧
    (∀ c ∈ (syncWork S st v).2.consumed, c = 0) ∧
    (∃ i, v.ins[k]? = some i ∧ i.samples = []) ∧
    (∀ j, j < k → ∀ i, v.ins[j]? = some i → i.samples ≠ []) :=
  syncWork_waitIn S st v k h

theorem c09_sync_wait_output_truthful (S : SyncSpec) (st : S.σ) (v : View) (k : Nat)
    (hin : firstIdx v.ins (fun i => i.samples.isEmpty) = none)
    (h : firstIdx v.outs (fun o => o.free == 0) = some k) :
    (syncWork S st v).1 = st ∧ (syncWork S st v).2.verdict = .waitOut k 1 ∧
    (∀ c ∈ (syncWork S st v).2.consumed, c = 0) ∧
    (∃ o, v.outs[k]? = some o ∧ o.free = 0) :=
  syncWork_waitOut S st v k hin h

/-- Sync family, sufficiency: when no stream lacks what a wait would ask for,
the call makes progress (`Again` with ≥ 1 step on every stream) — so satisfying
the reported waits one after the other always ends in progress; and `Again` is
never answered without progress. -/
theorem c09_sync_progress (S : SyncSpec) (st : S.σ) (v : View)
    (hin : firstIdx v.ins (fun i => i.samples.isEmpty) = none)
    (hout : firstIdx v.outs (fun o => o.free == 0) = none) :
    0 < stepsOf v ∧
    ((syncWork S st v).2.verdict = .panic ∨
     ((syncWork S st v).2.verdict = .again ∧
      (syncWork S st v).2.consumed = v.ins.map (fun _ => stepsOf v) ∧
      (syncWork S st v).2.produced.length = v.outs.length ∧
      ∀ p ∈ (syncWork S st v).2.produced, p.samples.length = stepsOf v)) :=
  syncWork_steps S st v hin hout

/-- Sync family, retirement: inputs ended and drained ⇒ `eof()` is true and the
call reports a wait on an (ended) input. -/
theorem c09_sync_retires (S : SyncSpec) (st : S.σ) (v : View) (hne : v.ins ≠ [])
    (h : ∀ i ∈ v.ins, i.alive = false ∧ i.samples = []) :
    macroEof v = true ∧ (syncWork S st v).2.verdict = .waitIn 0 1 := by
  refine ⟨(macroEof_iff v).mpr h, ?_⟩
  have : firstIdx v.ins (fun i => i.samples.isEmpty) = some 0 := by
    cases hv : v.ins with
    | nil => exact absurd hv hne
    | cons a t =>
      have := (h a (by simp [hv])).2
      simp [firstIdx, List.findIdx?_cons, this]
  exact (syncWork_waitIn S st v 0 this).2.1

/-- Sync family, `eof()` is sound: when the derived `eof()` answers true (every input ended and drained) a
further call changes nothing — no state change, nothing consumed, nothing delivered on any output. Retiring any
block built with the `sync` macro on that answer loses nothing (the hypothesis of `c05_retire_all_is_reference`). -/
theorem c09_sync_eof_sound (S : SyncSpec) (st : S.σ) (v : View) (hne : v.ins ≠ [])
    (h : macroEof v = true) :
    (syncWork S st v).1 = st ∧ (∀ c ∈ (syncWork S st v).2.consumed, c = 0) ∧
    (∀ p ∈ (syncWork S st v).2.produced, p.samples = []) := by
  have hall := (macroEof_iff v).mp h
  have hk : firstIdx v.ins (fun i => i.samples.isEmpty) = some 0 := by
    cases hv : v.ins with
    | nil => exact absurd hv hne
    | cons a t =>
      have := (hall a (by simp [hv])).2
      simp [firstIdx, List.findIdx?_cons, this]
  refine ⟨(syncWork_waitIn S st v 0 hk).1, (syncWork_waitIn S st v 0 hk).2.2.1, ?_⟩
  unfold syncWork
  simp only [hk]
  intro p hp
  simp only [List.mem_map] at hp
  obtain ⟨_, _, rfl⟩ := hp
  rfl

/-- The same for Skip, RationalResampler and the gated transducers (ZeroCrossing, SymbolSync; any arity of
outputs, any state): on an ended, drained input a further call delivers nothing. -/
theorem c09_eof_sound_hand (k f i d : Nat) (c : Int) (G : Gated) (gst : G.σ) (ts : List Tag) (outs : List OutView) :
    ((skipWork k ⟨[⟨[], ts, false⟩], [⟨f, true⟩]⟩).2.produced.getD 0 ⟨[], []⟩).samples = [] ∧
    (((resBlockRaw i d).work c ⟨[⟨[], ts, false⟩], [⟨f, true⟩]⟩).2.produced.getD 0 ⟨[], []⟩).samples = [] ∧
    (∀ p ∈ (gatedWork G gst ⟨[⟨[], ts, false⟩], outs⟩).2.produced, p.samples = []) := by
  refine ⟨by simp [skipWork, in0, noOut], by simp [resBlockRaw, resWork, in0, noOut], ?_⟩
  intro p hp
  simp [gatedWork, in0, noOut] at hp
  obtain ⟨_, _, rfl⟩ := hp
  rfl

/-- … and for the complex FftFilter (an unfinished batch stays in its buffer: nothing is delivered for it, with
or without further calls) and VecToStream (no packet queued ⇒ nothing delivered). -/
theorem c09_eof_sound_fft_v2s {α : Type} (o : Dsp.Ops α) (cd : Dsp.Codec α) (taps : List α) (st : Dsp.FftSt α)
    (ts : List Tag) (f : Nat) (h : st.buf.length < Dsp.calcFftSize taps.length - taps.length) :
    ((Dsp.fftWork o cd taps st ⟨[⟨[], ts, false⟩], [⟨f, true⟩]⟩).2.produced.getD 0 ⟨[], []⟩).samples = [] ∧
    ((v2sWork () ⟨[⟨[], ts, false⟩], [⟨f, true⟩]⟩).2.produced.getD 0 ⟨[], []⟩).samples = [] := by
  refine ⟨Dsp.fftWork_short o cd taps st [] ts f (by unfold Dsp.fftNeed; simp only [List.length_nil]; omega) false, ?_⟩
  simp [v2sWork, in0, noOut]

/-- Skip: verdicts on an arbitrary single-stream view. -/
theorem c09_skip (skip : Nat) (w : List Nat) (ts : List Tag) (f : Nat) :
    let r := skipWork skip ⟨[⟨w, ts, true⟩], [⟨f, true⟩]⟩
    (r.2.verdict = .waitIn 0 1 ∧ w = [] ∧ r.2.consumed = [0]) ∨
    (r.2.verdict = .waitOut 0 1 ∧ w ≠ [] ∧ f = 0 ∧ r.2.consumed = [0]) ∨
    (r.2.verdict = .again ∧ w ≠ [] ∧ 0 < f ∧
      0 < r.2.consumed.getD 0 0 ∧ r.2.consumed.getD 0 0 ≤ w.length ∧
      (r.2.produced.getD 0 ⟨[], []⟩).samples.length ≤ f) := by
  intro r
  simp only [r, skipWork, in0, out0, noOut, List.getD_cons_zero]
  by_cases h1 : w = []
  · left; simp [h1]
  · right
    have hw : w.isEmpty = false := by cases w <;> simp_all
    have hpos : 0 < w.length := List.length_pos_iff.mpr h1
    by_cases h2 : f = 0
    · left; simp [hw, h2, h1]
    · right
      by_cases h3 : skip = 0
      · simp [hw, h2, h3, h1]; omega
      · simp [hw, h2, h3, h1]; omega

/-- RtlSdrDecode: it asks for 2 input bytes exactly when fewer than 2 are readable. -/
theorem c09_rtlsdr (w : List Nat) (f : Nat) :
    let r := rtlWork () ⟨[⟨w, [], true⟩], [⟨f, true⟩]⟩
    (r.2.verdict = .waitIn 0 2 ∧ w.length < 2) ∨
    (r.2.verdict = .waitOut 0 1 ∧ 2 ≤ w.length ∧ f = 0) ∨
    (r.2.verdict = .again ∧ 0 < r.2.consumed.getD 0 0 ∧ r.2.consumed.getD 0 0 ≤ w.length ∧
      (r.2.produced.getD 0 ⟨[], []⟩).samples.length ≤ f) := by
  intro r
  simp only [r, rtlWork, in0, out0, noOut, List.getD_cons_zero]
  by_cases h1 : w.length - w.length % 2 = 0
  · left; simp [h1]; omega
  · right
    by_cases h2 : f = 0
    · left; simp [h1, h2]; omega
    · right
      simp only [h1, h2, beq_iff_eq, if_false, List.getD_cons_zero, true_and]
      refine ⟨by omega, by omega, ?_⟩
      rw [List.length_take]
      omega

/-! Non-vacuity. -/
example : (syncWork tee () ⟨[⟨[], [], false⟩], [⟨4, true⟩, ⟨4, true⟩]⟩).2.verdict = .waitIn 0 1 := by decide
example : (skipWork 3 ⟨[⟨[1, 2], [], true⟩], [⟨4, true⟩]⟩).2.consumed = [2] := by decide

/-- FIR filter (any arithmetic, any decimation): it waits for input exactly when fewer than
`ntaps + deci - 1` samples are readable — and names that amount, with which it WILL make
progress —, for output exactly when there is no room, and otherwise consumes a positive
multiple of `deci`, within the window, committing no more than the free space. -/
theorem c09_fir {α : Type} (o : Dsp.Ops α) (cd : Dsp.Codec α) (rt : List α) (deci : Nat) (w : List Nat)
    (ts : List Tag) (f : Nat) (hd : 0 < deci) (ht : 0 < rt.length) :
    let r := Dsp.firWork o cd rt deci () ⟨[⟨w, ts, true⟩], [⟨f, true⟩]⟩
    (r.2.verdict = .waitIn 0 (rt.length + deci - 1) ∧ w.length < rt.length + deci - 1 ∧ r.2.consumed = [0]) ∨
    (r.2.verdict = .waitOut 0 1 ∧ rt.length + deci - 1 ≤ w.length ∧ f = 0 ∧ r.2.consumed = [0]) ∨
    (r.2.verdict = .again ∧ rt.length + deci - 1 ≤ w.length ∧ 0 < f ∧
      0 < r.2.consumed.getD 0 0 ∧ r.2.consumed.getD 0 0 % deci = 0 ∧
      r.2.consumed.getD 0 0 + rt.length - 1 ≤ w.length ∧
      (r.2.produced.getD 0 ⟨[], []⟩).samples.length = r.2.consumed.getD 0 0 / deci ∧
      (r.2.produced.getD 0 ⟨[], []⟩).samples.length ≤ f) := by
  intro r
  have hne : ¬ (deci = 0 ∨ rt.length = 0) := by omega
  by_cases h1 : w.length < rt.length + deci - 1
  · left
    simp only [r, Dsp.firWork, in0, out0, noOut, List.getD_cons_zero, hne, if_false, h1, if_true]
    simp
  · right
    have hq1 : 1 ≤ (w.length - rt.length + 1) / deci := by
      rw [Nat.le_div_iff_mul_le hd]; omega
    have hn0 : deci * ((w.length - rt.length + 1) / deci) ≠ 0 := by
      have : 0 < deci * ((w.length - rt.length + 1) / deci) := Nat.mul_pos hd (by omega)
      omega
    have hle : deci * ((w.length - rt.length + 1) / deci) ≤ w.length - rt.length + 1 := Nat.mul_div_le _ _
    have hneed : ¬ w.length < deci * ((w.length - rt.length + 1) / deci) + rt.length - 1 := by omega
    by_cases h2 : f < 1
    · left
      simp only [r, Dsp.firWork, in0, out0, noOut, List.getD_cons_zero, hne, if_false, h1, hn0, hneed, h2, if_true]
      simp
      omega
    · right
      generalize hQ : (w.length - rt.length + 1) / deci = Q at *
      have hmin : min (deci * Q) (f * deci) = min Q f * deci := by
        rw [Nat.mul_comm deci Q, Nat.mul_min_mul_right]
      have hj : 1 ≤ min Q f := by omega
      have hpos : 0 < min Q f * deci := Nat.mul_pos (by omega) hd
      have hmod : ¬ (min (deci * Q) (f * deci) % deci ≠ 0 ∨ min (deci * Q) (f * deci) = 0) := by
        rw [hmin]; simp [Nat.mul_mod_left]; omega
      have hjq : min Q f * deci ≤ Q * deci := Nat.mul_le_mul_right _ (Nat.min_le_left _ _)
      simp only [r, Dsp.firWork, in0, out0, noOut, hne, h1, hn0, hneed, h2, hmod, hQ, if_false,
        List.getD_cons_zero, true_and]
      refine ⟨by omega, by omega, by rw [hmin]; exact hpos, by rw [hmin]; exact Nat.mul_mod_left _ _, ?_, ?_, ?_⟩
      · rw [hmin, Nat.mul_comm deci Q] at *; omega
      · simp [Dsp.filterN]
      · simp only [Dsp.filterN, List.length_map, List.length_range, hmin, Nat.mul_div_cancel _ hd]
        exact Nat.min_le_right _ _

/-- **ZeroCrossing / SymbolSync (gated family), one call on any windows.** Unless the step panics:
consumption within the read window, the same number of samples committed on every output and within each
output's room; a wait names a stream that really is empty (input) or full (that very output) and nothing
was moved; `Again` only with at least one consumed sample. -/
theorem c09_gated (G : Gated) (hn : G.nout = 1 ∨ G.nout = 2) (st : G.σ) (w : List Nat) (f0 f1 : Nat) :
    let r := gatedWork G st ⟨[⟨w, [], true⟩], [⟨f0, true⟩, ⟨f1, true⟩]⟩
    let n := r.2.consumed.getD 0 0
    let p0 := (r.2.produced.getD 0 ⟨[], []⟩).samples
    let p1 := (r.2.produced.getD 1 ⟨[], []⟩).samples
    r.2.verdict = .panic ∨
    (n ≤ w.length ∧ p0.length ≤ f0 ∧ (G.nout = 2 → p1.length = p0.length ∧ p1.length ≤ f1) ∧ (G.nout = 1 → p1 = []) ∧
     (r.2.verdict = .waitIn 0 1 ∧ w = [] ∧ n = 0 ∨
      r.2.verdict = .waitOut 0 1 ∧ f0 = 0 ∧ n = 0 ∧ p0 = [] ∨
      r.2.verdict = .waitOut 1 1 ∧ G.nout = 2 ∧ f1 = 0 ∧ n = 0 ∧ p0 = [] ∨
      r.2.verdict = .again ∧ 0 < n)) := by
  intro r n p0 p1
  rcases gatedWork_spec G hn st w f0 f1 with h | ⟨h1, h2, h3, h4, _, _, _, h5⟩
  · exact Or.inl h
  · exact Or.inr ⟨h1, h2, h3, h4, h5⟩

example : (gatedWork (zcGated f32ZOps 4.0 2) (zcGated f32ZOps 4.0 2).init
    ⟨[⟨[1, 2], [], true⟩], [⟨3, true⟩, ⟨0, true⟩]⟩).2.verdict = .waitOut 1 1 := by
  simp [gatedWork, zcGated, in0, out0, noOut]

/-- **Delay**, one call on any windows: it waits for output space when there is none, or when the read window
is empty and the zeros it owes filled all the room (more are owed: the run must go on until they are out); for
input only when the read window is empty and no zeros are owed any more; otherwise it moves something — always
within both windows. `c09_delay_eof_sound`: its `eof()` is true only when a further call delivers nothing. -/
theorem c09_delay (cd : Nat) (w : List Nat) (ts : List Tag) (f : Nat) :
    let r := delayWork ⟨cd, 0⟩ ⟨[⟨w, ts, true⟩], [⟨f, true⟩]⟩
    let n := r.2.consumed.getD 0 0
    let p := (r.2.produced.getD 0 ⟨[], []⟩).samples
    n ≤ w.length ∧ p.length ≤ f ∧
    ((r.2.verdict = .waitOut 0 1 ∧ f = 0 ∧ n = 0 ∧ p = []) ∨
     (r.2.verdict = .waitOut 0 1 ∧ 0 < f ∧ w = [] ∧ n = 0 ∧ p.length = f ∧ f < cd) ∨
     (r.2.verdict = .waitIn 0 1 ∧ 0 < f ∧ w = [] ∧ n = 0 ∧ p.length = cd ∧ cd ≤ f) ∨
     (r.2.verdict = .again ∧ 0 < f ∧ w ≠ [] ∧ 0 < n + p.length)) :=
  delay_verdicts cd w ts f

/-- Delay's `eof()` (input ended and drained, no zeros owed) is sound: a further call delivers nothing. The
derived `eof()` was not: with zeros still owed it answered true (`c09_delay_old_eof_unsound`; `fix:` in /repo). -/
theorem c09_delay_eof_sound (st : DelaySt) (ts : List Tag) (f : Nat)
    (h : delayEof st ⟨[⟨[], ts, false⟩], [⟨f, true⟩]⟩ = true) :
    ((delayWork st ⟨[⟨[], ts, false⟩], [⟨f, true⟩]⟩).2.produced.getD 0 ⟨[], []⟩).samples = [] := by
  have hcd : st.currentDelay = 0 := by
    simpa [delayEof, macroEof, out0] using h
  simp only [delayWork, in0, out0, noOut, List.getD_cons_zero, hcd]
  by_cases hf : f = 0
  · simp [hf]
  · have hfb : (f == 0) = false := by simpa using hf
    simp [hfb]

theorem c09_delay_old_eof_unsound :
    macroEof ⟨[⟨[], [], false⟩], [⟨4, true⟩]⟩ = true ∧
    ((delayWork ⟨3, 0⟩ ⟨[⟨[], [], false⟩], [⟨4, true⟩]⟩).2.produced.getD 0 ⟨[], []⟩).samples = [0, 0, 0] := by
  decide

/-- **AuEncode**, one call on any windows and in every state: with header bytes left it waits only for a
completely full output; afterwards for input only when the window is empty and for exactly two bytes of
output when fewer than two are free (so that granting the request lets it progress); otherwise it moves data. -/
theorem c09_au_encode (q : Nat → Nat) (st : Au.EncSt) (hst : st ≠ some []) (w : List Nat) (f : Nat) :
    let r := Au.encWork q st ⟨[⟨w, [], true⟩], [⟨f, true⟩]⟩
    let n := r.2.consumed.getD 0 0
    let p := (r.2.produced.getD 0 ⟨[], []⟩).samples
    n ≤ w.length ∧ p.length ≤ f ∧
    ((r.2.verdict = .waitOut 0 1 ∧ st ≠ none ∧ f = 0 ∧ n = 0 ∧ p = []) ∨
     (r.2.verdict = .waitIn 0 1 ∧ st = none ∧ w = [] ∧ n = 0 ∧ p = []) ∨
     (r.2.verdict = .waitOut 0 2 ∧ st = none ∧ w ≠ [] ∧ f < 2 ∧ n = 0 ∧ p = []) ∨
     (r.2.verdict = .again ∧ 0 < n + p.length)) :=
  Au.enc_verdicts q st hst w f

/-- **VecToStream**: a packet that does not fit makes the block ask for exactly the packet's length on its
output (with which the next call emits it); see `c10_v2s_call`. -/
theorem c09_v2s (p : List Nat) (hp : ∀ x ∈ p, x + 1 < pktBase) (rest : List Nat) (f : Nat) (hfit : p.length > f) :
    let r := v2sWork () ⟨[⟨encodePkt p :: rest, [], true⟩], [⟨f, true⟩]⟩
    r.2.verdict = .waitOut 0 p.length ∧ r.2.consumed.getD 0 0 = 0 ∧
    (let r' := v2sWork () ⟨[⟨encodePkt p :: rest, [], true⟩], [⟨p.length, true⟩]⟩
     r'.2.verdict = .again ∧ (r'.2.produced.getD 0 ⟨[], []⟩).samples = p) := by
  have h1 := (v2s_call p hp rest f).2
  have h2 := (v2s_call p hp rest p.length).2
  simp only [hfit, if_true] at h1
  simp only [Nat.lt_irrefl, gt_iff_lt, if_false] at h2
  exact ⟨h1.1, h1.2.1, h2.1, h2.2.2.1⟩

/-- **RationalResampler**, one call on any windows (any ratio, any counter): it reports "waiting for input" only
when the read window is empty or it has just consumed ALL of it, and "waiting for output" only when the output
is full (now, or already before the call); it never asks to be called again without a reason. -/
theorem c09_resampler (I D : Int) (cnt : Int) (w : List Nat) (f : Nat) :
    let r := resWork I D cnt ⟨[⟨w, [], true⟩], [⟨f, true⟩]⟩
    (r.2.verdict = .waitIn 0 1 ∧ (w = [] ∨ (0 < f ∧ r.2.consumed.getD 0 0 = w.length))) ∨
    (r.2.verdict = .waitOut 0 1 ∧ w ≠ [] ∧ (f = 0 ∨ (r.2.produced.getD 0 ⟨[], []⟩).samples.length = f)) := by
  intro r
  simp only [r, resWork, in0, out0, noOut, List.getD_cons_zero]
  by_cases hw : w = []
  · left; simp [hw]
  · have hwe : w.isEmpty = false := by cases w <;> simp_all
    simp only [hwe, Bool.false_eq_true, if_false]
    by_cases hf : f = 0
    · right; simp [hf, hw]
    · have hfb : (f == 0) = false := by simpa using hf
      simp only [hfb, Bool.false_eq_true, if_false]
      have hlen := resLoop_len I D f w cnt 0 [] (by simp; omega)
      have htk := resLoop_taken I D f w cnt 0 []
      generalize resLoop I D f w cnt 0 [] = L at hlen htk
      obtain ⟨c, taken, out, full⟩ := L
      cases full with
      | true =>
        right
        simp only [if_true, List.getD_cons_zero]
        exact ⟨trivial, hw, Or.inr (hlen.2 rfl)⟩
      | false =>
        left
        simp only [Bool.false_eq_true, if_false, List.getD_cons_zero]
        refine ⟨trivial, Or.inr ⟨by omega, ?_⟩⟩
        have := htk rfl
        simpa using this

/-- Generator sources: with a full output the call changes nothing and waits for room on that output (no
polling with `Again`); with room it fills exactly the room offered and asks to be called again. -/
theorem c09_generator_source (G : GenSrc) (s : G.σ) (f : Nat) :
    let r := genWork G s ⟨[], [⟨f, true⟩]⟩
    (r.2.produced.getD 0 ⟨[], []⟩).samples.length = f ∧
    (f = 0 → r.2.verdict = .waitOut 0 1 ∧ r.1 = s) ∧
    (0 < f → r.2.verdict = .again) := by
  intro r
  obtain ⟨h1, h2, _, _, h5, h6⟩ := genWork_spec G s f
  refine ⟨by rw [h2, genTake_length], fun h => ⟨h5 h, ?_⟩, h6⟩
  rw [h1, h]; rfl

/-- VectorSink and NullSink: every call consumes the whole read window — also when the VectorSink is full —
so the wait for one more input sample that they report is truthful (the window is empty after the call),
and an ended input is drained. -/
theorem c09_vector_sink (max st : Nat) (w : List Nat) (ts : List Tag) (al : Bool) :
    let r := vsinkWork max st ⟨[⟨w, ts, al⟩], []⟩
    r.2.consumed = [w.length] ∧ r.2.verdict = .waitIn 0 1 ∧
    (r.2.produced.getD 0 ⟨[], []⟩).samples.length ≤ w.length := by
  intro r
  obtain ⟨_, h2, h3, _, h5⟩ := vsink_call max st w ts al []
  refine ⟨h2, h5, ?_⟩
  rw [h3, List.length_take]; exact Nat.min_le_right _ _

theorem c09_null_sink (w : List Nat) (ts : List Tag) (al : Bool) :
    let r := nullWork () ⟨[⟨w, ts, al⟩], []⟩
    r.2.consumed = [w.length] ∧ r.2.verdict = .waitIn 0 1 := by
  intro r
  obtain ⟨h1, _, h3⟩ := null_call w ts al
  exact ⟨h1, h3⟩

/-- FftFilterFloat (a complex FftFilter between two inner streams): when its `eof()` answers true — outer input
ended and drained, nothing in the inner output stream, less than a batch between the wrapped filter's buffer
and the inner input stream — and a reader is still there, a further `work()` call takes nothing and delivers
nothing: a runner that retires the block on that answer loses no sample. Any arithmetic, taps, stream capacity
and state. -/
theorem c09_fft_float_eof_sound {α : Type} (o : Dsp.Ops α) (cd : Dsp.Codec α) (taps : List α) (cap : Nat)
    (toIn toOut : Nat → Nat) (s : WrapSt (Dsp.FftSt α)) (ts : List Tag) (f : Nat)
    (h : wrapEof (Dsp.fftNeed taps) s ⟨[⟨[], ts, false⟩], [⟨f, true⟩]⟩ = true) :
    let r := wrapWork (Dsp.fftBlock o cd taps) cap toIn toOut s ⟨[⟨[], ts, false⟩], [⟨f, true⟩]⟩
    r.2.consumed = [0] ∧ (r.2.produced.getD 0 ⟨[], []⟩).samples = [] :=
  Dsp.wrap_fft_eof_sound o cd taps cap toIn toOut s ts f h

/-- The derived `eof()` (outer input ended and drained) did not have that property: a state with one sample
waiting in the inner output stream answers true and then delivers that sample. (The defect repaired by
`fix:` 88f9b55.) -/
theorem c09_fft_float_old_eof_unsound :
    let s : WrapSt (Dsp.FftSt Dsp.GI) := ⟨⟨[], [], [(0, 0)]⟩, ⟨[], []⟩, ⟨[7], []⟩⟩
    let v : View := ⟨[⟨[], [], false⟩], [⟨4, true⟩]⟩
    macroEof v = true ∧ wrapEof (Dsp.fftNeed [((1, 0) : Dsp.GI)]) s v = false ∧
    ((wrapWork (Dsp.fftBlock Dsp.giOps Dsp.giCodec [(1, 0)]) 512 id id s v).2.produced.getD 0 ⟨[], []⟩).samples = [7] := by
  decide


/-- `CmaEqualizer` (model `Dsp.cmaBlock`, compared call by call): a wait on the input is issued only when fewer
than `ntaps` samples are readable, a wait on the output only when the input would do and fewer than `ntaps` are
free — each for exactly the amount that is missing, with nothing consumed, produced or changed — and every other
call consumes `ntaps` samples. -/
theorem c09_cma_verdicts (n : Nat) (m s : Float32) (taps : List Dsp.C32) (v : View) :
    let r := Dsp.cmaWork n m s taps v
    (r.2.verdict = .waitIn 0 n ∧ (in0 v).samples.length < n ∧ r.1 = taps ∧ r.2 = noOut v (.waitIn 0 n)) ∨
    (r.2.verdict = .waitOut 0 n ∧ n ≤ (in0 v).samples.length ∧ (out0 v).free < n ∧ r.1 = taps ∧
      r.2 = noOut v (.waitOut 0 n)) ∨
    (r.2.verdict = .again ∧ n ≤ (in0 v).samples.length ∧ n ≤ (out0 v).free ∧ r.2.consumed = [n]) :=
  Dsp.cma_verdicts n m s taps v

end RR.Props.C09
