import RR.Proof.Sched

/-!
# C07 — runners stop on cancellation and report block failures as errors

Model: `RR.Sched` — `Graph::run` (`stRun`: passes over the blocks, `eof[]`
flags, cancel poll at the head of each pass, `work()?`) and the per-block
thread loop of `MTGraph::run` (`mtLoop`) with its join/result rule
(`mtResult`), as functions of what the blocks answer. Blocks are arbitrary
scripts, so the theorems quantify over every behaviour of every block.

Partial: "bounded" in wall-clock terms (a `wait` lasts ≤ 100 ms, the OS runs
the threads) is assumed.
-/
namespace RR.Props.C07
open RR RR.Sched

/-- Single-threaded runner: once the token is set (during the `c`-th `work()`
call counted over all blocks, or before `run()` for `c = 0`), the calls that
are still begun form a strictly increasing sequence of block indices: at most
the rest of the current pass, hence at most one further call per block. -/
theorem c07_cancel_st (scripts : List Script) (c : Nat) :
    ((stRun scripts (some c)).2.log.drop c).Pairwise (· < ·) :=
  stLoop_cancel scripts c _ _ (by simp [stInit])

/-- Multi-threaded runner: a block thread that sees the token set at the check
before its call number `c` makes no call number `≥ c` — so after cancellation at
most the call in progress (and its wait) completes. -/
theorem c07_cancel_mt (script : Script) (c : Nat) :
    (mtThread script (some c)).1 ≤ c := by
  have := mtLoop_cancel script c 0 (script.length + 2)
  unfold mtThread; omega

/-- Single-threaded runner: `run()` returns `Ok` only if no `work()` call ever
answered with an error; and if it returns `Err n`, the failing call is the last
call made and it was block `n`'s. -/
theorem c07_error_st (scripts : List Script) (cancelAt : Option Nat) :
    let r := stRun scripts cancelAt
    (r.1 = .ok → ∀ a ∈ r.2.answers, a.v ≠ .err) ∧
    (∀ n, r.1 = .err n → (r.2.answers.getLast?.map (·.v)) = some .err ∧ r.2.log.getLast? = some n) := by
  have h := stLoop_err scripts cancelAt (stInit scripts)
    (totalCalls scripts + scripts.length + 2) (by intro c hc; simp [stInit] at hc)
  exact ⟨h.1, h.2.1⟩

/-- A failing call ends the pass and the run at once: nothing is called after it. -/
theorem c07_error_st_immediate (scripts : List Script) (acc : PassOut) (n : Nat)
    (h : acc.failed.isSome = true) : callBlock scripts acc n = acc := by
  simp [callBlock, h]

/-- Multi-threaded runner: an `Err` answer ends that block's thread as failed … -/
theorem c07_error_mt_thread (script : Script) (cancelAt : Option Nat) (k fuel : Nat)
    (hc : seenCancel cancelAt k = false) (hv : (callAt script k).v = .err) :
    mtLoop script cancelAt k (fuel + 1) = (k + 1, .failed) := mtLoop_err_now script cancelAt k fuel hc hv

/-- … and `run()` returns `Ok` exactly when no thread failed, otherwise the
error of a thread that did fail (after joining all threads). -/
theorem c07_error_mt (exits : List Exit) :
    (mtResult exits = .ok ↔ ∀ e ∈ exits, e ≠ .failed) ∧
    (∀ n, mtResult exits = .err n → exits[n]? = some .failed) ∧
    mtResult exits ≠ .outOfFuel :=
  ⟨mtResult_ok exits, mtResult_err exits, by unfold mtResult; split <;> simp⟩

/-! Non-vacuity. -/
example : (stRun [[⟨.again, false, false⟩, ⟨.err, false, false⟩], [⟨.again, false, false⟩]] none).1 = .err 0 := by
  decide
example : (stRun [[⟨.again, false, false⟩, ⟨.again, false, false⟩, ⟨.again, false, false⟩],
                  [⟨.again, false, false⟩, ⟨.again, false, false⟩]] (some 1)).2.log = [0, 1] := by decide
example : mtThread [⟨.again, false, false⟩, ⟨.again, false, false⟩, ⟨.again, false, false⟩] (some 2) = (2, .cancelled) := by
  decide
example : mtResult [.eof, .failed, .retired] = .err 1 := by decide

end RR.Props.C07
