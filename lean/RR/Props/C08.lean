import RR.Proof.Sync
import RR.Proof.SyncWork
import RR.Proof.Hand
import RR.Proof.Resampler
import RR.Proof.DspFir
import RR.Proof.Gated
import RR.Proof.SinkSrc
import RR.Proof.Cma

/-!
# C08 — every block is a pure stream function: output independent of chunking

Models: `RR.Blk` — blocks as state machines over abstract FIFO streams
(justified by C01/C02). `syncWork` covers every block built with the derive
macro in `sync`/`sync_tag` mode (Add, AddConst, MultiplyConst, Xor, XorConst,
BinarySlicer, ComplexToMag2, FloatToComplex, Map, Tee, NrziDecode, Descrambler,
CorrelateAccessCode(+Tag), BurstTagger, QuadratureDemod, FastFM,
SinglePoleIirFilter and user blocks) for ANY per-sample function, so one proof
covers them all. Hand-written `work()`s are mirrored one by one
(`RR/Model/Hand.lean`): Skip, Delay, RtlSdrDecode are proved here;
RationalResampler is modelled and tied by correspondence (its closed form is
`c10_resampler`, not yet proved); the remaining hand-written blocks are checked
on the real code only (drip-fed run vs greedy run must be bit-identical).

A schedule is an arbitrary list of chunk sizes / (readable, free) pairs; the
theorems are by induction over it (no bound on length or sizes).
-/
namespace RR.Props.C08
open RR RR.Blk

/-- **The whole sync family.** Whatever the sequence of chunk sizes (window
lengths and free space decide them), threading the block state from call to
call and re-basing window positions, the cumulative rows, tags and final state
equal the one-shot loop over the consumed prefix — for every arity and every
(stateful, possibly panicking) per-sample function. -/
theorem c08_sync_chunk_independent (S : SyncSpec) (get : Nat → List Nat × List (List Tag))
    (st : S.σ) (c : Nat) (chunks : List Nat) :
    driveG S get st c chunks =
      (syncLoopG S get st c chunks.sum).map fun (s, rows, ts) => (s, c + chunks.sum, rows, ts) :=
  driveG_eq_oneShot S get st c chunks

/-- One run's output is a prefix of the other's while input is pending. -/
theorem c08_sync_prefix (S : SyncSpec) (get : Nat → List Nat × List (List Tag)) (st : S.σ)
    (ch1 ch2 : List Nat) (h : ch1.sum ≤ ch2.sum)
    (s1 s2 : S.σ) (c1 c2 : Nat) (rows1 rows2 : List (List Nat)) (t1 t2 : List Tag)
    (h1 : driveG S get st 0 ch1 = some (s1, c1, rows1, t1))
    (h2 : driveG S get st 0 ch2 = some (s2, c2, rows2, t2)) :
    rows1 <+: rows2 ∧ t1 <+: t2 :=
  drive_prefix S get st ch1 ch2 h s1 s2 c1 c2 rows1 rows2 t1 t2 h1 h2

/-- What the generated `work()` computes on read windows that start at absolute
position `c` of the input histories is the loop on the histories from `c`
(positions shifted): the link between the executable model and `driveG`. -/
theorem c08_sync_window (S : SyncSpec) (fulls : List InView) (avs : List Nat) (c : Nat) (st : S.σ)
    (n : Nat) (hl : fulls.length ≤ avs.length) (hn : ∀ a ∈ avs, n ≤ a) :
    shiftRes c (syncLoop S (List.zipWith (fun full a => winView full c a) fulls avs) st 0 n) =
      syncLoopG S (viewAt fulls) st c n :=
  syncLoop_window S fulls avs c st n hl hn

/-- **Skip**: for every schedule the cumulative output is the consumed prefix
without its first `k` samples, and the remaining skip count is right. -/
theorem c08_skip (k : Nat) (X : List Nat) (sched : List (Nat × Nat)) :
    let r := drive1 (skipBlock k) X k 0 [] sched
    r.2.2 = (X.take r.2.1).drop k ∧ r.1 = k - min k r.2.1 := by
  have := skip_drive k X 0 sched
  simpa using this

/-- **Delay**: for every schedule the cumulative output is `z ≤ k` zeros followed
by the consumed prefix, with all `k` zeros out before the first input sample. -/
theorem c08_delay (k : Nat) (X : List Nat) (sched : List (Nat × Nat)) :
    let r := drive1 (delayBlock k) X ⟨k, 0⟩ 0 [] sched
    ∃ z', z' ≤ k ∧ (0 < r.2.1 → z' = k) ∧ r.2.2 = List.replicate z' 0 ++ X.take r.2.1 := by
  have := delay_drive k X 0 0 (Nat.zero_le _) (by intro h; cases h) sched
  simpa using this

/-- **RtlSdrDecode**: for every schedule the cumulative output is the pairwise
conversion of the (even) consumed prefix. -/
theorem c08_rtlsdr (X : List Nat) (sched : List (Nat × Nat)) :
    let r := drive1 rtlBlock X () 0 [] sched
    r.2.2 = rtlSpec (X.take r.2.1) ∧ r.2.1 % 2 = 0 := by
  have := rtl_drive X 0 (by decide) sched
  simpa [rtlSpec, pairs] using this

/-- None of these `work()`s panics, on any window and any free space. -/
theorem c08_no_panic_hand (k : Nat) (X : List Nat) (c a f z : Nat) (hz : z ≤ k) (hcz : 0 < c → z = k)
    (hc : c % 2 = 0) :
    (skipWork (k - min k c) ⟨[⟨(X.drop c).take a, [], true⟩], [⟨f, true⟩]⟩).2.verdict ≠ .panic ∧
    (delayWork ⟨k - z, 0⟩ ⟨[⟨(X.drop c).take a, [], true⟩], [⟨f, true⟩]⟩).2.verdict ≠ .panic ∧
    (rtlWork () ⟨[⟨(X.drop c).take a, [], true⟩], [⟨f, true⟩]⟩).2.verdict ≠ .panic := by
  refine ⟨(skip_step k X c a f).2.2.2, ?_, (rtl_step X c a f hc).2.2.2⟩
  obtain ⟨_, _, _, _, _, _, _, h⟩ := delay_step k X c z a f hz hcz
  exact h

/-- **RationalResampler, any chunking** — including an output that fills up in the
middle of the copies of one sample: the output delivered so far, followed by the reference
output of the unconsumed input from the block's counter, is the reference output
(`resRef`: the same arithmetic with unbounded output space) of the whole input. -/
theorem c08_resampler (I D : Int) (hD : 0 < D) (X : List Nat) (sched : List (Nat × Nat)) :
    let r := drive1 (resBlockRaw I D) X (0 : Int) 0 [] sched
    resRef I D 0 X = r.2.2 ++ resRef I D r.1 (X.drop r.2.1) :=
  res_drive I D hD X sched 0 0 [] (by simp)

/-- FIR filter (any arithmetic, any decimation), any chunking: see `c11_fir_any_chunking`. -/
theorem c08_fir {α : Type} (o : Dsp.Ops α) (cd : Dsp.Codec α) (taps : List α) (deci : Nat) (X : List Nat)
    (hd : 0 < deci) (ht : 0 < taps.length) (sched : List (Nat × Nat)) :
    let r := drive1 (Dsp.firBlock o cd taps deci) X () 0 [] sched
    ∃ q', r.2.1 = q' * deci ∧ r.2.2 = Dsp.firSpec o cd (Dsp.firNew taps) deci X q' := by
  have := Dsp.fir_drive o cd taps deci X 0 hd ht sched
  simpa [Dsp.firSpec] using this

/-- **ZeroCrossing and SymbolSync (the gated transducer family), every schedule.** With one or two
outputs (symbols, clock), however the input is cut into read windows and however much room each
output has at each call (`sched` = list of (readable, free on output 0, free on output 1)): if no call
panicked, the block has consumed a prefix of its input and its readers hold exactly the rows the
per-sample state machine emits on that prefix — a function of the consumed samples alone. -/
theorem c08_gated (G : Gated) (hn : G.nout = 1 ∨ G.nout = 2) (X : List Nat) (sched : List (Nat × Nat × Nat))
    (st' : G.σ) (c' : Nat) (rows' : List (List Nat)) (h : driveGated G X G.init 0 [] sched = some (st', c', rows')) :
    c' ≤ X.length ∧ ∃ R', gatedRun G (X.take c') G.init [] = some (st', R') ∧ rows' = cols G.nout R' := by
  have := gated_drive G hn X sched G.init 0 [] [] (Nat.zero_le _) (by simp [gatedRun]) (by simp [cols]) st' c' rows' h
  exact ⟨this.2.1, this.2.2⟩

/-- … hence the outputs of any two schedules are prefix-related (the one that consumed less delivered a prefix). -/
theorem c08_gated_prefix (G : Gated) (hn : G.nout = 1 ∨ G.nout = 2) (X : List Nat) (s1 s2 : List (Nat × Nat × Nat))
    (st1 st2 : G.σ) (c1 c2 : Nat) (r1 r2 : List (List Nat))
    (h1 : driveGated G X G.init 0 [] s1 = some (st1, c1, r1)) (h2 : driveGated G X G.init 0 [] s2 = some (st2, c2, r2))
    (hc : c1 ≤ c2) : ∃ ext, r2 = r1 ++ ext := by
  obtain ⟨_, R1, g1, e1⟩ := c08_gated G hn X s1 st1 c1 r1 h1
  obtain ⟨_, R2, g2, e2⟩ := c08_gated G hn X s2 st2 c2 r2 h2
  obtain ⟨ext, he⟩ := gatedRun_take_prefix G X c1 c2 hc st1 st2 R1 R2 g1 g2
  exact ⟨cols G.nout ext, by rw [e1, e2, he, cols_append]⟩

/-- ZeroCrossing (any arithmetic, any `sps`, with or without the clock output) never panics, on any schedule. -/
theorem c08_zerocrossing_no_panic {α : Type} (o : ZOps α) (sps : α) (nout : Nat) (X : List Nat)
    (sched : List (Nat × Nat × Nat)) : driveGated (zcGated o sps nout) X (zcGated o sps nout).init 0 [] sched ≠ none :=
  driveGated_total (zcGated o sps nout) (by intro st s; simp [zcGated]) X sched _ _ _

/-! Non-vacuity. -/
example : (driveGated toyGated [1, 2, 3, 4, 5, 6] (0 : Nat) 0 [] [(3, 1, 5), (6, 5, 0), (6, 5, 5)]).map (·.2) =
    some (6, [[2, 1], [4, 3], [6, 5]]) := by decide
example : (drive1 (resBlockRaw 3 2) [7, 8, 9, 10] (0 : Int) 0 [] [(4, 1), (4, 2), (0, 9), (4, 1), (4, 9)]).2.2 =
    resRef 3 2 0 [7, 8, 9, 10] := by decide
example : resRef 3 2 0 [7, 8, 9, 10] = [7, 7, 8, 9, 9, 10] := by decide
example : (drive1 (skipBlock 2) [1, 2, 3, 4, 5] (2 : Nat) 0 [] [(1, 9), (3, 9), (9, 1), (9, 9)]).2 = (5, [3, 4, 5]) := by
  decide
example : (drive1 (delayBlock 2) [7, 8, 9] ⟨2, 0⟩ 0 [] [(1, 1), (3, 2), (3, 9)]).2 = (3, [0, 0, 7, 8, 9]) := by
  decide
example : (driveG nrzi (fun p => ([p % 2], [[]])) (0 : Nat) 0 [2, 0, 3]).map (fun r => (r.2.1, r.2.2.1)) =
    some (5, [[1], [0], [0], [0], [0]]) := by decide

/-- Generator sources (SignalSourceFloat / SignalSourceComplex: a block without inputs that fills its write
window from an iterator): for EVERY sequence of free-space values the samples emitted are exactly the first
`Σ free` items of the iterator — nothing skipped, repeated or recomputed across calls. -/
theorem c08_generator_source (G : GenSrc) (fs : List Nat) :
    genDrive G fs G.init = genTake G fs.sum G.init := gen_drive G fs G.init

/-- … hence of two schedules, one run's output is a prefix of the other's. -/
theorem c08_generator_source_prefix (G : GenSrc) (fs gs : List Nat) (h : fs.sum ≤ gs.sum) :
    (genDrive G fs G.init).2 <+: (genDrive G gs G.init).2 := gen_prefix G fs gs h

/-- VectorSink: however the input `X` is cut into read windows, the storage ends as the first `max_size`
samples of `X`. -/
theorem c08_vector_sink (max : Nat) (ws : List (List Nat)) :
    (sinkDrive max ws 0).2 = ws.flatten.take max := by
  rw [sink_drive]; rfl

example : (genDrive ⟨Nat, 0, fun n => (n + 1, 10 * n)⟩ [2, 0, 3] 0) = (5, [0, 10, 20, 30, 40]) := by decide
example : (sinkDrive 4 [[1, 2], [], [3, 4, 5], [6]] 0) = (4, [1, 2, 3, 4]) := by decide

/-- `CmaEqualizer` (model compared with the real block call by call, float arithmetic included): for EVERY
schedule of (readable prefix, free output space) the taps and the cumulative output are those of `k'` whole blocks of
`ntaps` samples, where `k'·ntaps` is the number of samples consumed — a function of the input history alone. -/
theorem c08_cma (n : Nat) (m s : Float32) (X : List Nat) (sched : List (Nat × Nat)) (k : Nat) :
    ∃ k', k ≤ k' ∧
      RR.Blk.drive1 (RR.Dsp.cmaBlock n m s) X (RR.Dsp.cmaBlocks n m s X k).1 (k * n) (RR.Dsp.cmaBlocks n m s X k).2 sched =
        ((RR.Dsp.cmaBlocks n m s X k').1, k' * n, (RR.Dsp.cmaBlocks n m s X k').2) :=
  RR.Dsp.cma_drive n m s X sched k

end RR.Props.C08
