import RR.Gen.FileSinkStatus
import RR.Proof.FileSink

/-!
# C17 — file sink: documented open modes, and consumed means on disk

Model: `RR.FileSink` — `OpenOptions` semantics over an abstract file-system
entry, and `work()` as an event list over a buffered writer. The open flags of
every mode of both sinks and the order of write / flush / consume in each
`work()` are `RR.Gen.*`, regenerated from `src/file_sink.rs` on every run; the
theorems are about those generated definitions.

Partial: "a completed `write(2)` survives the death of the process" (kernel
page cache) is assumed; power loss is not covered.
-/
namespace RR.Props.C17
open RR RR.FileSink

/-- Create: fails if and only if something exists at the path; a new file starts empty. -/
theorem c17_create (e : Entry) :
    (openSem Gen.fileSinkCreate e = .ok ([], false) ↔ e = .absent) ∧
    (openSem Gen.ncFileSinkCreate e = .ok ([], false) ↔ e = .absent) ∧
    (e ≠ .absent → (openSem Gen.fileSinkCreate e).isOk = false ∧ (openSem Gen.ncFileSinkCreate e).isOk = false) := by
  cases e <;> simp [openSem, Gen.fileSinkCreate, Gen.ncFileSinkCreate, Except.isOk, Except.toBool]

/-- Overwrite: on a writable file or an absent path the file holds exactly the new data. -/
theorem c17_overwrite (old data : List Nat) :
    (openSem Gen.fileSinkOverwrite (.file old)).map (afterWrite · data) = .ok data ∧
    (openSem Gen.fileSinkOverwrite .absent).map (afterWrite · data) = .ok data ∧
    (openSem Gen.ncFileSinkOverwrite (.file old)).map (afterWrite · data) = .ok data ∧
    (openSem Gen.ncFileSinkOverwrite .absent).map (afterWrite · data) = .ok data := by
  simp [openSem, Gen.fileSinkOverwrite, Gen.ncFileSinkOverwrite, afterWrite, Except.map]

/-- Append: existing content is kept and extended; an absent file is created. -/
theorem c17_append (old data : List Nat) :
    (openSem Gen.fileSinkAppend (.file old)).map (afterWrite · data) = .ok (old ++ data) ∧
    (openSem Gen.fileSinkAppend .absent).map (afterWrite · data) = .ok data ∧
    (openSem Gen.ncFileSinkAppend (.file old)).map (afterWrite · data) = .ok (old ++ data) ∧
    (openSem Gen.ncFileSinkAppend .absent).map (afterWrite · data) = .ok data := by
  simp [openSem, Gen.fileSinkAppend, Gen.ncFileSinkAppend, afterWrite, Except.map]

/-- Directories and unwritable files are errors in every mode. -/
theorem c17_bad_targets (c : List Nat) :
    ∀ f ∈ [Gen.fileSinkCreate, Gen.fileSinkOverwrite, Gen.fileSinkAppend,
           Gen.ncFileSinkCreate, Gen.ncFileSinkOverwrite, Gen.ncFileSinkAppend],
      (openSem f .dir).isOk = false ∧ (openSem f (.unwritable c)).isOk = false := by
  intro f hf
  simp only [List.mem_cons, List.mem_nil_iff, or_false] at hf
  rcases hf with rfl | rfl | rfl | rfl | rfl | rfl <;>
    simp [openSem, Gen.fileSinkCreate, Gen.fileSinkOverwrite, Gen.fileSinkAppend,
      Gen.ncFileSinkCreate, Gen.ncFileSinkOverwrite, Gen.ncFileSinkAppend, Except.isOk, Except.toBool]

/-- Durability, stream sink: for every sequence of `work()` calls (any window
sizes, any amount the buffered writer passes on by itself), at EVERY event
boundary — every point at which the process can be killed — the file is a
prefix of the serialised stream and holds at least everything consumed. -/
theorem c17_durable_stream_sink (T : List Nat) (calls : List (Nat × Nat)) (k spill : Nat) :
    let s := runCalls Gen.fileSinkWork ⟨[], [], 0, T⟩ calls
    ∀ st ∈ workStates Gen.fileSinkWork (min k s.todo.length) spill s,
      st.file <+: T ∧ st.consumed ≤ st.file.length := by
  intro s st hst
  have h0 : Conserved T ⟨[], [], 0, T⟩ := by simp [Conserved]
  have h1 : AtReturn ⟨[], [], 0, T⟩ := ⟨rfl, rfl⟩
  obtain ⟨hc, hr⟩ := runCalls_inv Gen.fileSinkWork T
    (fun k sp s h hk => (fileSink_call k sp s h hk).1) _ h0 h1 calls
  refine ⟨?_, (fileSink_call _ spill s hr (Nat.min_le_right _ _)).2 st hst⟩
  simp only [workStates, List.mem_map, List.mem_range] at hst
  obtain ⟨j, _, rfl⟩ := hst
  exact conserved_prefix T _ (fold_conserved T _ spill _ s hc)

/-- Durability, packet sink: when a `work()` call returns, every packet it took
from the stream is in the file; and at every moment the file is a prefix of the
serialised packet stream. -/
theorem c17_durable_packet_sink (T : List Nat) (calls : List (Nat × Nat)) :
    let s := runCalls Gen.ncFileSinkWork ⟨[], [], 0, T⟩ calls
    s.file <+: T ∧ s.consumed = s.file.length ∧ s.buffered = [] := by
  intro s
  have h0 : Conserved T ⟨[], [], 0, T⟩ := by simp [Conserved]
  have h1 : AtReturn ⟨[], [], 0, T⟩ := ⟨rfl, rfl⟩
  obtain ⟨hc, hr⟩ := runCalls_inv Gen.ncFileSinkWork T
    (fun k sp s h hk => ncFileSink_call k sp s h hk) _ h0 h1 calls
  exact ⟨conserved_prefix T _ hc, hr.2, hr.1⟩

/-- A failing write or flush (full device, I/O error) in the stream sink: `work()` returns an error
and nothing is consumed, for every window — so "consumed" keeps meaning "on disk". The generated
`…WorkChecked` lists record whether each I/O result is propagated with `?`; they describe the same
call as the generated event order. -/
theorem c17_failed_io_consumes_nothing (k spill : Nat) (s : St) :
    Gen.fileSinkWorkChecked.map (·.1) = Gen.fileSinkWork ∧
    Gen.ncFileSinkWorkChecked.map (·.1) = Gen.ncFileSinkWork ∧
    (∀ bad ∈ [Ev.write, Ev.flush],
      (callWithFailure bad k spill Gen.fileSinkWorkChecked s).2 = true ∧
      (callWithFailure bad k spill Gen.fileSinkWorkChecked s).1.consumed = s.consumed) ∧
    (∀ bad ∈ [Ev.write, Ev.flush], (callWithFailure bad k spill Gen.ncFileSinkWorkChecked s).2 = true) := by
  refine ⟨rfl, rfl, ?_, ?_⟩
  · intro bad hb
    simp only [List.mem_cons, List.mem_nil_iff, or_false] at hb
    rcases hb with rfl | rfl <;> simp [Gen.fileSinkWorkChecked, callWithFailure, ev]
  · intro bad hb
    simp only [List.mem_cons, List.mem_nil_iff, or_false] at hb
    rcases hb with rfl | rfl <;> simp [Gen.ncFileSinkWorkChecked, callWithFailure, ev]

/-- Why the `?` matters: with the flush result ignored, a failed flush is followed by the consume. -/
theorem c17_unchecked_flush_is_unsafe :
    let r := callWithFailure .flush 2 0 [(.write, true), (.flush, false), (.consume, true)] ⟨[], [], 0, [1, 2]⟩
    r.2 = false ∧ r.1.consumed = 2 ∧ r.1.file = [] := by
  decide

/-- Why the order matters: consuming before flushing acknowledges bytes that are not on disk. -/
theorem c17_consume_first_is_unsafe :
    ∃ st ∈ workStates [.write, .consume, .flush] 2 0 ⟨[], [], 0, [1, 2]⟩, ¬ st.consumed ≤ st.file.length := by
  refine ⟨(([Ev.write, .consume]).foldl (ev 2 0) ⟨[], [], 0, [1, 2]⟩), ?_, by decide⟩
  simp only [workStates, List.mem_map, List.mem_range]
  exact ⟨2, by decide, rfl⟩

/-! Non-vacuity. -/
example : (runCalls Gen.fileSinkWork ⟨[], [], 0, [1, 2, 3, 4, 5]⟩ [(2, 1), (9, 0)]).file = [1, 2, 3, 4, 5] := by decide

end RR.Props.C17
