import RR.Proof.Sched
import RR.Proof.SchedTerm
import RR.Proof.KpnRun
import RR.Proof.KpnRetire

/-!
# C06 — the single-threaded runner returns only at quiescence

Model: `RR.Sched.stRun` (mirror of `Graph::run`, including the stream activity
counter that the `fix:` commit "Graph::run could return while data was still in
flight" added). Blocks are arbitrary scripts: each call answers a verdict and
says whether it moved data, so the theorems hold for every block behaviour —
in particular for blocks that report a wait/EOF status from a call in which
they also moved data, and for every order in which blocks were added (the
order of the script list is arbitrary).

That the data at quiescence is the *reference result* is C05's
`c05_sinks_equal_reference` (shared by both runners); here is the runner part.
-/
namespace RR.Props.C06
open RR RR.Sched

/-- `run()` returns normally (no cancellation, no error) only after a pass in
which no block failed, no block answered `Again`/`Pending`, and the stream
activity counter did not move. -/
theorem c06_exit_quiescent (scripts : List Script) (st' : ST)
    (h : stRun scripts none = (.ok, st')) :
    ∃ st0, (pass scripts st0).st = st' ∧ (pass scripts st0).done = true ∧
      (pass scripts st0).moved = false ∧ (pass scripts st0).failed = none :=
  stLoop_quiet scripts _ _ st' h

/-- What such a pass means call by call: every block that was called in it
moved nothing and did not ask to be called again (and every block that was not
called is retired — see `callBlock`). -/
theorem c06_quiet_pass_calls (scripts : List Script) (acc : PassOut) (n : Nat)
    (h : (callBlock scripts acc n).done = true ∧ (callBlock scripts acc n).moved = false) :
    acc.done = true ∧ acc.moved = false ∧
    ((callBlock scripts acc n).st.answers = acc.st.answers ∨
     ∃ c, (callBlock scripts acc n).st.answers = acc.st.answers ++ [c] ∧ c.moved = false ∧
       c.v ≠ .again ∧ c.v ≠ .pending) :=
  callBlock_quiet scripts acc n h

/-- A pass in which some call moved data is never the last one (unless a block
fails or the run is cancelled): this is exactly what the pre-fix runner lacked. -/
theorem c06_progress_continues (scripts : List Script) (st : ST) (fuel : Nat)
    (hm : (pass scripts st).moved = true) (hf : (pass scripts st).failed = none) :
    stLoop scripts none st (fuel + 1) = stLoop scripts none (pass scripts st).st fuel := by
  simp [stLoop, cancelled, hf, hm]

/-- Quiescence is a fixpoint. Abstractly: blocks are deterministic functions
of a global state (their own state and all stream contents); the contract
(C09) says a call that is *quiet* — moved nothing and did not ask to be called
again — changed nothing. Then after a pass of quiet calls the state is the
one before the pass, and every further call of any of those blocks, in any
order, is again quiet and changes nothing: no block can make further progress. -/
theorem c06_quiescent_is_fixpoint {σ : Type} (work : Nat → σ → σ × Bool)
    (contract : ∀ i s, (work i s).2 = true → (work i s).1 = s)
    (l : List Nat) (s : σ)
    (quiet : ∀ i ∈ l, (work i s).2 = true) (more : List Nat) (hm : ∀ i ∈ more, i ∈ l) :
    more.foldl (fun s i => (work i s).1) s = s := by
  induction more with
  | nil => rfl
  | cons i rest ih =>
    simp only [List.foldl_cons]
    rw [contract i s (quiet i (hm i (by simp)))]
    exact ih (fun j hj => hm j (by simp [hj]))

/-- The defect that was repaired: with the old rule (`done` alone) the runner
returned after a pass in which data moved. Witness: consumer added before its
source; the source emits everything and answers EOF in the same call. The
fixed runner takes another pass, so the sink gets to run. -/
def witness : List Script :=
  [ [⟨.waitStream false false, false, false⟩, ⟨.waitStream false false, false, true⟩],  -- sink
    [⟨.eof, false, true⟩] ]                                                               -- source

theorem c06_witness_needs_second_pass :
    (pass witness (stInit witness)).done = true ∧ (pass witness (stInit witness)).moved = true ∧
    (stRun witness none).2.log = [0, 1, 0, 0] := by decide

/-- **The runner always returns** (blocks with finite behaviour: a block whose script is
exhausted answers EOF): within `total calls + number of blocks + 1` passes the loop leaves
through one of its three exits — cancelled, a block's error, or a quiet pass. -/
theorem c06_terminates (scripts : List Script) (cancelAt : Option Nat) :
    (stRun scripts cancelAt).1 ≠ .outOfFuel :=
  stRun_terminates scripts cancelAt

/-- **The reference result, for every order of calls.** The single-threaded runner is one particular schedule of
block steps (passes over the blocks in add order, repeated): whatever the add order, the stream sizes and the
amounts each call moves, a run that ends with everything consumed and emitted — which is what `run()` returning
at quiescence means for blocks with truthful verdicts (C09) — has computed the sequential reference execution on
every stream, in particular on every sink's input. (Same theorem as C05's: the graph layer does not depend on
which runner produced the schedule.) -/
theorem c06_every_schedule_result (nodes : List Kpn.Node)
    (hw : ∀ m, (hm : m < nodes.length) → ∀ i ∈ nodes[m].ins, i < Kpn.base nodes m)
    (s : Kpn.GState) (r : Kpn.Run nodes ⟨List.replicate (Kpn.base nodes nodes.length) [], []⟩ s)
    (hall : Kpn.AllConsumed nodes s) : s.h = Kpn.eval nodes [] :=
  Kpn.run_terminal nodes hw s r hall

/-- **Retiring blocks.** Both runners stop calling a block once its `eof()` has answered true after a wait verdict,
or once the wait it reported can never be satisfied (the named stream's peer is gone and too little is left).
With the set of retired blocks added to the graph state (a retired block takes no more steps): for EVERY
interleaving of block steps and retirements in which each retirement was *sound* — every stream the block reads
belongs to an already retired block, the block has consumed all of it and emitted everything its history function
gives — the state in which all blocks are retired holds the sequential reference execution on every stream. -/
theorem c06_retire_all_is_reference (nodes : List Kpn.Node)
    (hw : ∀ m, (hm : m < nodes.length) → ∀ i ∈ nodes[m].ins, i < Kpn.base nodes m)
    (R : List Nat) (s : Kpn.GState)
    (r : Kpn.RRun nodes ([], ⟨List.replicate (Kpn.base nodes nodes.length) [], []⟩) (R, s))
    (hall : ∀ m, m < nodes.length → m ∈ R) : s.h = Kpn.eval nodes [] :=
  Kpn.retire_all_is_reference nodes hw R s r hall

/-- The soundness of the retirements is needed: a pass-through block that has consumed its three input samples
and delivered two of them (the third still inside — `FftFilterFloat` before `fix:` 88f9b55) is in a reachable
state that satisfies the invariant; retiring it there ends the run with `[1, 2]` where the reference has
`[1, 2, 3]`. -/
theorem c06_unsound_retire_loses :
    Kpn.Run Kpn.lagNodes Kpn.lagS0 Kpn.lagS2 ∧ Kpn.Inv Kpn.lagNodes Kpn.lagS2 ∧
    ¬ Kpn.Done Kpn.lagNodes Kpn.lagS2 1 (by decide) ∧
    Kpn.lagS2.h.getD 1 [] = [1, 2] ∧ (Kpn.eval Kpn.lagNodes []).getD 1 [] = [1, 2, 3] :=
  Kpn.unsound_retire_loses


end RR.Props.C06
