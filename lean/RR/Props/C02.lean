import RR.Proof.RingRun

/-!
# C02 — stream tags reach the reader exactly once, on their sample

Same model and spec as C01. In the FIFO spec a tag *lives on* its sample, so
"reported on that sample in every window that contains it, never for another
sample, never after it was consumed, commit order kept" is the statement that
the ring's tag output equals `Fifo.tags` of the abstract queue in every
reachable state.
-/
namespace RR.Props.C02
open RR RR.Ring

/-- In every state a valid program can reach, the tags a read window reports
are exactly the tags of the queued samples: window-relative position = index of
the sample in the window, key and value unchanged, several tags of one sample in
commit order, nothing else. -/
theorem c02_tags_refine (cap : Nat) (hcap : 0 < cap) (ops : List Fifo.Op)
    (hv : ∀ op ∈ ops, op.Valid) (s : State) (h : exec (init cap) ops = some s) :
    ∃ q, Sim s q ∧ (readTags s).map toR = Fifo.tags q ∧ window s = Fifo.samples q := by
  obtain ⟨q, hs, _⟩ := exec_sim (sim_init hcap) ops hv h
  exact ⟨q, hs, toR_readTags hs, window_eq hs⟩

/-- Consuming `m` samples discards exactly the first `m` samples *with their
tags* and keeps every other sample's tags (the abstraction of the new state is
`drop m` of the old one). -/
theorem c02_consume_drops_exactly {s : State} {q : Fifo.Q} (h : Sim s q) (m : Nat)
    (hm : m ≤ s.used) : ∃ s', consume s m = some s' ∧ Sim s' (q.drop m) :=
  sim_consume h m hm

/-- Consuming zero samples changes nothing at all. -/
theorem c02_consume_zero (s : State) : consume s 0 = some s := by simp [consume]

/-- The filter inside `read_buf` never removes a stored tag (its `> end`
comparison is off by one, harmlessly). -/
theorem c02_filter_redundant {s : State} {q : Fifo.Q} (h : Sim s q) (c : Nat) (hc : c < s.cap)
    (hk : readKeeps s c = false) : s.tags c = [] := filter_redundant h c hc hk

/-- A commit stores each tag once, on the cell of the sample it names. -/
theorem c02_commit_places_tags {s : State} {q : Fifo.Q} (h : Sim s q) (vals : List Nat) (n : Nat)
    (ts : List Tag) (hv : vals.length ≤ free s) (hn : n ≤ vals.length)
    (ht : ∀ t ∈ ts, t.pos < n) :
    ∃ s', produce (fill s vals) n ts = some s' ∧ Sim s' (Fifo.commit q vals n (specTags ts)) :=
  sim_produce h vals n ts hv hn ht

/-- The defect that was repaired (`fix:` commit "Buffer::consume(0) discarded
every tag"): the previous code, run on a one-sample stream carrying one tag,
lost the tag on `consume(0)`. Kept as a regression witness. -/
def witnessState : State :=
  { cap := 4, rpos := 1, wpos := 2, used := 1, mem := fun _ => 0,
    tags := fun c => if c = 1 then [⟨1, 7, 7⟩] else [] }

theorem c02_old_consume_zero_lost_tags :
    (consumeOld witnessState 0).map (fun s => (readTags s).length) = some 0 ∧
    (consume witnessState 0).map (fun s => (readTags s).length) = some 1 := by decide

/-! Non-vacuity: tags on both sides of the wrap point of a 4-cell ring, two on one sample. -/
def demo : List Fifo.Op :=
  [.write [1, 2, 3] 3 [], .consume 3,
   .write [4, 5, 6] 3 [⟨0, 1, 1⟩, ⟨1, 2, 2⟩, ⟨1, 3, 3⟩, ⟨2, 4, 4⟩], .read, .consume 1, .read]

example : ∀ op ∈ demo, op.Valid := by decide
example : Ring.run (Ring.init 4) demo =
    [.ok, .ok, .ok, .window [4, 5, 6] [⟨0, 1, 1⟩, ⟨1, 2, 2⟩, ⟨1, 3, 3⟩, ⟨2, 4, 4⟩] 1, .ok,
     .window [5, 6] [⟨0, 2, 2⟩, ⟨0, 3, 3⟩, ⟨1, 4, 4⟩] 2] := by decide

end RR.Props.C02
