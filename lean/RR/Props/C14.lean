import RR.Proof.Codec
import RR.Proof.Au
import RR.Proof.AuBlock
import RR.Proof.AuEnc
import RR.Proof.Tcp
import RR.Proof.Sigmf

/-!
# C14 — byte formats round-trip and survive arbitrary read segmentation

Models: `RR.Codec` (`Sample::{serialize, parse}` for u8, u32, i32, f32 and
complex as little-endian bit patterns; the carry-over buffer of the byte
sources), `RR.Au` (`.au` header, big-endian PCM16, decoder), `RR.Sigmf` (member
lookup in an archive). The file system, sockets, `std::io`, the `tar` crate and
`serde_json` are trusted; the f32 ↔ i16 conversions of the AU codec are
parameters.
-/
namespace RR.Props.C14
open RR RR.Codec

/-- Serialise then parse is the identity for every sample type and every bit
pattern of that type (NaN payloads included: values are patterns). -/
theorem c14_parse_serialize (t : Ty) (v : Val) (h : v.ok t) : parse t (serialize t v) = some v :=
  parse_serialize t v h

theorem c14_serialize_size (t : Ty) (v : Val) : (serialize t v).length = t.size := serialize_length t v

/-- Reassembly: however the byte stream is split across `read()` results
(1-byte reads, splits inside a sample, empty reads), the samples emitted are
exactly the whole samples of the concatenated bytes, in order, and fewer than
one sample's worth of bytes is held back. -/
theorem c14_reassemble (t : Ty) (chunks : List (List Nat)) :
    (feedAll t [] chunks).2 = parseAll t chunks.flatten ∧
    (feedAll t [] chunks).1 = chunks.flatten.drop (chunks.flatten.length / t.size * t.size) ∧
    (feedAll t [] chunks).1.length < t.size := by
  have := feedAll_spec t [] chunks (by simpa using size_pos t)
  simpa using this

/-- Hence two segmentations of the same bytes deliver the same samples. -/
theorem c14_segmentation_independent (t : Ty) (c1 c2 : List (List Nat)) (h : c1.flatten = c2.flatten) :
    (feedAll t [] c1).2 = (feedAll t [] c2).2 := by
  rw [(c14_reassemble t c1).1, (c14_reassemble t c2).1, h]

/-- File round trip: what the sink writes for a list of samples (their
serialisations, concatenated) is parsed back to the same samples. -/
theorem c14_file_roundtrip (t : Ty) (vs : List Val) (h : ∀ v ∈ vs, v.ok t) :
    parseAll t (vs.flatMap (serialize t)) = vs := by
  induction vs with
  | nil => exact parseAll_short t [] (by simpa using size_pos t)
  | cons v rest ih =>
    have hv := h v (by simp)
    have hl := serialize_length t v
    simp only [List.flatMap_cons]
    rw [parseAll_append t (serialize t v) _ 1 (by simpa using hl), ih (fun x hx => h x (by simp [hx]))]
    have : parseAll t (serialize t v) = [v] := by
      rw [parseAll]
      have hs := size_pos t
      simp only [Nat.ne_of_gt hs, dite_false, hl, Nat.lt_irrefl, if_false]
      rw [List.take_of_length_le (by omega), parse_serialize t v hv, List.drop_eq_nil_of_le (by omega),
        parseAll_short t [] (by simpa using hs)]
      rfl
    rw [this]; rfl

/-- AU: decoding the encoder's output gives exactly the PCM16 quantisation of
the input — no header bytes decoded as audio, no sample missing. -/
theorem c14_au_roundtrip (bitrate : Nat) (hb : bitrate < 256 ^ 4) (q : Nat → Nat) (hq : ∀ x, q x < 65536)
    (xs : List Nat) : Au.decode bitrate (Au.encode bitrate q xs) = .ok (some (xs.map q)) :=
  Au.decode_encode bitrate hb q hq xs

/-- **AuDecode as a block, every read segmentation.** However the byte stream `X` is cut into read
windows (and whatever output space each call finds), the block stops with an error only if the
one-shot decoder rejects the whole stream, and otherwise — once the header is behind it — its
cumulative output is exactly the first `(consumed - offset) / 2` samples of the one-shot result. -/
theorem c14_au_block_any_chunking (bitrate : Nat) (deq : Nat → Nat) (X : List Nat) (sched : List (Nat × Nat)) :
    let r := Au.auDrive bitrate deq X .magic 0 [] sched
    (r.2.2.2 = true → ∃ e, Au.decode bitrate X = .error e) ∧
    (r.2.2.2 = false → r.1 = .data →
      ∃ off pcm, Au.decode bitrate X = .ok (some pcm) ∧ off ≤ r.2.1 ∧
        r.2.2.1 = (pcm.take ((r.2.1 - off) / 2)).map deq) := by
  intro r
  obtain ⟨h1, h2⟩ := Au.au_drive bitrate deq X sched .magic 0 [] ⟨rfl, rfl⟩
  refine ⟨h1, fun hne hd => ?_⟩
  have hinv := h2 hne
  rw [show (Au.auDrive bitrate deq X .magic 0 [] sched).1 = Au.DecSt.data from hd] at hinv
  obtain ⟨off, pcm, e1, _, e3, e4⟩ := Au.inv_data_prefix bitrate deq X _ _ hinv
  exact ⟨off, pcm, e1, e3, e4⟩

/-- Composed with the encoder: in any segmentation the decoder never fails on the encoder's output,
and what it has emitted is a prefix of the quantised input. -/
theorem c14_au_stream_roundtrip (bitrate : Nat) (hb : bitrate < 256 ^ 4) (q : Nat → Nat) (hq : ∀ x, q x < 65536)
    (deq : Nat → Nat) (xs : List Nat) (sched : List (Nat × Nat)) :
    let r := Au.auDrive bitrate deq (Au.encode bitrate q xs) .magic 0 [] sched
    r.2.2.2 = false ∧
    (r.1 = .data → ∃ k, r.2.2.1 = ((xs.map q).take k).map deq) := by
  intro r
  obtain ⟨h1, h2⟩ := c14_au_block_any_chunking bitrate deq (Au.encode bitrate q xs) sched
  have hdec := Au.decode_encode bitrate hb q hq xs
  have hne : r.2.2.2 = false := by
    cases hb' : r.2.2.2 with
    | false => rfl
    | true =>
      obtain ⟨e, he⟩ := h1 hb'
      rw [hdec] at he; cases he
  refine ⟨hne, fun hd => ?_⟩
  obtain ⟨off, pcm, e1, _, e3⟩ := h2 hne hd
  rw [hdec] at e1
  cases e1
  exact ⟨_, e3⟩

/-- **TcpSource's carry-buffer code** (`tcpStep` mirrors `work()` after a successful `read()`: the partial
sample kept from earlier reads is completed with as many bytes as arrived, whole samples are parsed from the
rest, a new remainder is kept): for EVERY sequence of non-empty reads the samples pushed, concatenated over the
calls, are exactly the whole samples of all bytes read so far, in order, and fewer than one sample's bytes are
held back — it computes the ideal reassembly of `c14_reassemble`, whatever the read boundaries. -/
theorem c14_tcp_source (t : Ty) (chunks : List (List Nat)) (hne : ∀ c ∈ chunks, c ≠ []) :
    (tcpAll t [] chunks).2.flatten = parseAll t chunks.flatten ∧ (tcpAll t [] chunks).1.length < t.size := by
  obtain ⟨h1, h2⟩ := tcpAll_spec t [] chunks (by simpa using size_pos t) hne
  refine ⟨?_, h2⟩
  have := congrArg Prod.snd h1
  simp only at this
  rw [this, (c14_reassemble t chunks).1]

/-- one read: the real code's step equals the ideal `feed` -/
theorem c14_tcp_step (t : Ty) (buf chunk : List Nat) (hb : buf.length < t.size) (hc : chunk ≠ []) :
    tcpStep t buf chunk = feed t buf chunk :=
  tcp_refines_feed t buf chunk hb hc

/-- **AuEncode as a block, every schedule** of read windows and output space (also one byte of room at a
time, so that the header or a sample does not fit): the bytes written so far are the first `k` header bytes
followed by two big-endian bytes per consumed sample, samples only after the complete header — a prefix of
what `Au.encode` gives for the whole input, with no extra or missing byte. -/
theorem c14_au_encode_block_any_chunking (bitrate : Nat) (q : Nat → Nat) (X : List Nat) (sched : List (Nat × Nat)) :
    let r := Blk.drive1 (Au.encBlock bitrate q) X (Au.encBlock bitrate q).init 0 [] sched
    (∃ k, k ≤ (Au.header bitrate).length ∧ (k < (Au.header bitrate).length → r.2.1 = 0) ∧ r.2.1 ≤ X.length ∧
      r.2.2 = (Au.header bitrate).take k ++ Au.body q (X.take r.2.1)) ∧
    ∃ rest, Au.encode bitrate q X = r.2.2 ++ rest := by
  intro r
  obtain ⟨k, h1, _, h3, h4, h5⟩ := Au.enc_drive bitrate q X sched _ 0 [] (Au.enc_init bitrate q X)
  refine ⟨⟨k, h1, h3, h4, h5⟩, ?_⟩
  show ∃ rest, Au.encode bitrate q X = r.2.2 ++ rest
  rw [h5]
  by_cases hk : k = (Au.header bitrate).length
  · refine ⟨Au.body q (X.drop r.2.1), ?_⟩
    rw [hk, List.take_length, List.append_assoc, ← Au.body_append, List.take_append_drop]
    rfl
  · have hc : r.2.1 = 0 := h3 (by omega)
    refine ⟨(Au.header bitrate).drop k ++ Au.body q X, ?_⟩
    rw [hc]
    simp only [List.take_zero, Au.body, List.flatMap_nil, List.append_nil]
    rw [← List.append_assoc, List.take_append_drop]
    rfl

/-- SigMF archives: the data range found does not depend on member order … -/
theorem c14_sigmf_order (ms ms' : List Sigmf.Member) (h : ms.Perm ms') :
    Sigmf.lookup ms = Sigmf.lookup ms' := Sigmf.lookup_perm ms ms' h

/-- … nor on unrelated members; missing or duplicate members are errors. -/
theorem c14_sigmf_lookup (ms : List Sigmf.Member) (m d : Sigmf.Member)
    (h1 : ms.filter (·.ext == .metaFile) = [m]) (hm : m.kind = .regular)
    (h2 : ms.filter (fun x => x.ext == .dataFile && x.stem == m.stem) = [d]) (hd : d.kind = .regular) :
    Sigmf.lookup ms = some (d.pos, d.size) := Sigmf.lookup_found ms m d h1 hm h2 hd

/-! Non-vacuity. -/
example : (Au.auDrive 8000 id (Au.encode 8000 id [1, 2, 515]) .magic 0 [] [(3, 9), (5, 9), (4, 9), (30, 0), (30, 9), (3, 1), (9, 9)]).2 =
    (34, [1, 2, 515], false) := by decide
example : (feedAll .u32 [] [[1], [2, 3], [], [4, 5, 6, 7, 8], [9]]).1 = [9] := by decide
example : parse .complex (serialize .complex ⟨0x7fc00001, 0xff800000⟩) = some ⟨0x7fc00001, 0xff800000⟩ := by decide
example : Sigmf.lookup [⟨9, .otherFile, .regular, 0, 5⟩, ⟨1, .dataFile, .regular, 1024, 77⟩,
    ⟨1, .metaFile, .regular, 512, 10⟩, ⟨2, .dataFile, .regular, 4096, 3⟩] = some (1024, 77) := by decide

end RR.Props.C14
