import RR.Proof.SyncSpecs
import RR.Proof.Hand
import RR.Proof.Conv
import RR.Proof.ResamplerSpec
import RR.Proof.V2S
import RR.Proof.FftStream
import RR.Proof.SinkSrc
import RR.Proof.DelayCtl

/-!
# C10 — exactly-specified blocks compute their documented function

Independent, documentation-level specifications and the theorems that the
mirrored `work()` functions compute them — with exact counts, for every
chunking (through C08's chunk-independence theorems). Proved here: all
sample-wise (stateless) sync blocks generically, NRZI, Skip, Delay,
RtlSdrDecode. Tied by correspondence only (model = code on random and boundary
inputs): RationalResampler, Descrambler, access-code correlators, BurstTagger,
sources, converters, text formatter, FFT framing (see evidence).
-/
namespace RR.Props.C10
open RR RR.Blk

/-- Sample-wise blocks (`AddConst`, `MultiplyConst`, `XorConst`, `Xor`, `Add`,
`Tee`, `BinarySlicer`, `ComplexToMag2`, `FloatToComplex`, `Map`, …): output row
`p` is the function of the inputs at `p` — nothing lost, duplicated or
reordered — and each tag of the first input is forwarded once at its index. -/
theorem c10_samplewise (nin nout : Nat) (g : List Nat → Option (List Nat)) (h : List Nat → List Nat)
    (get : Nat → List Nat × List (List Tag)) (pos k : Nat)
    (hg : ∀ p, p < k → g (get (pos + p)).1 = some (h (get (pos + p)).1)) :
    syncLoopG (stateless nin nout g) get () pos k =
      some ((), (List.range k).map (fun p => h (get (pos + p)).1),
        (List.range k).flatMap fun p => ((get (pos + p)).2.headD []).map fun t => { t with pos := pos + p }) :=
  stateless_oneShot nin nout g h get pos k hg

/-- Instances: the documented functions. -/
theorem c10_xorconst (v : Nat) (xs : List Nat) :
    (xorConst v).f () xs [] = some ((), [xs.getD 0 0 ^^^ v], []) := rfl
theorem c10_xor (xs : List Nat) : xor2.f () xs [] = some ((), [xs.getD 0 0 ^^^ xs.getD 1 0], []) := rfl
theorem c10_tee (xs : List Nat) : tee.f () xs [] = some ((), [xs.getD 0 0, xs.getD 0 0], []) := rfl
theorem c10_addconst_int (b v x : Nat) (h : x + v < 2 ^ b) :
    (addConstInt b v).f () [x] [] = some ((), [x + v], []) := by
  simp [addConstInt, stateless, pureSync, addChecked, h]
theorem c10_slicer (x : Nat) :
    binarySlicer.f () [x] [] = some ((), [if f32 x > 0.0 then 1 else 0], []) := rfl

/-- NRZI-S decoder: `out[i] = 1 xor in[i] xor in[i-1]`, `in[-1] = 0`. -/
theorem c10_nrzi (get : Nat → List Nat × List (List Tag)) (k : Nat) :
    ∃ st ts, syncLoopG nrzi get (0 : Nat) 0 k =
      some (st, (nrziSpec 0 ((List.range k).map fun p => (get p).1.getD 0 0)).map ([·]), ts) := by
  have := nrzi_oneShot get 0 0 k
  simpa using this

/-- NRZI composed as in the doc comment (Tee, Delay 1, Xor, XorConst 1) is the same function. -/
theorem c10_nrzi_xor_tee_delay (xs : List Nat) :
    nrziSpec 0 xs = (List.zipWith (fun a d => (d ^^^ a) ^^^ 1) xs (0 :: xs)) := by
  suffices ∀ prev, nrziSpec prev xs = List.zipWith (fun a d => (d ^^^ a) ^^^ 1) xs (prev :: xs) from this 0
  induction xs with
  | nil => intro prev; rfl
  | cons a rest ih =>
    intro prev
    simp only [nrziSpec, List.zipWith_cons_cons, ih a]
    congr 1
    rw [Nat.xor_comm 1, Nat.xor_assoc, Nat.xor_comm 1, ← Nat.xor_assoc, Nat.xor_comm a]

/-- Skip: the input without its first `k` samples. -/
theorem c10_skip (k : Nat) (X : List Nat) (sched : List (Nat × Nat)) :
    (drive1 (skipBlock k) X k 0 [] sched).2.2 = (X.take (drive1 (skipBlock k) X k 0 [] sched).2.1).drop k := by
  have := skip_drive k X 0 sched
  simpa using this.1

/-- Delay: `k` default samples, then the input. -/
theorem c10_delay (k : Nat) (X : List Nat) (sched : List (Nat × Nat)) :
    let r := drive1 (delayBlock k) X ⟨k, 0⟩ 0 [] sched
    ∃ z', z' ≤ k ∧ (0 < r.2.1 → z' = k) ∧ r.2.2 = List.replicate z' 0 ++ X.take r.2.1 := by
  have := delay_drive k X 0 0 (Nat.zero_le _) (by intro h; cases h) sched
  simpa using this

/-- RTL-SDR byte decoder: bytes pairwise to `((b − 127)·0.008, (b' − 127)·0.008)`. -/
theorem c10_rtlsdr (X : List Nat) (sched : List (Nat × Nat)) :
    (drive1 rtlBlock X () 0 [] sched).2.2 = rtlSpec (X.take (drive1 rtlBlock X () 0 [] sched).2.1) := by
  have := rtl_drive X 0 (by decide) sched
  simpa [rtlSpec, pairs] using this.1

/-- Rational resampler, closed form of its reference output (which every chunking delivers,
`c08_resampler`): output sample `j` is input sample `k = ⌊j·D/I⌋` — stated without division as
`k·I ≤ j·D < (k+1)·I` — and `n` inputs give `E` outputs with `n·I ≤ E·D < n·I + D`, i.e.
`E = ⌈n·I/D⌉`: no sample lost, duplicated beyond its share, or reordered. -/
theorem c10_resampler (I D : Int) (hI : 0 < I) (hD : 0 < D) (X : List Nat) :
    (∀ j k : Nat, k < X.length → (k : Int) * I ≤ j * D → (j : Int) * D < (k + 1) * I →
      (resRef I D 0 X)[j]? = X[k]?) ∧
    (X.length : Int) * I ≤ (resRef I D 0 X).length * D ∧
    ((resRef I D 0 X).length : Int) * D < X.length * I + D := by
  refine ⟨?_, ?_, ?_⟩
  · intro j k hk h1 h2
    exact resRef_index I D hI hD X 0 (by omega) (by omega) j k hk (by simpa using h1) (by simpa using h2)
  · have := (resRef_length I D hI hD X 0 (by omega) (by omega)).1
    simpa using this
  · have := (resRef_length I D hI hD X 0 (by omega) (by omega)).2
    simpa using this

/-- Stream-to-PDU: a per-sample automaton — feeding `a ++ b` is feeding `a`, then `b`
(chunking is immaterial), and no PDU ever holds more than `max_size` samples. -/
theorem c10_s2pdu (key maxSize tail : Nat) (tags : List Tag) (a b : List Nat) :
    s2pLoop key maxSize tail tags (a ++ b) 0 ⟨[], none⟩ [] =
      s2pLoop key maxSize tail tags b a.length (s2pLoop key maxSize tail tags a 0 ⟨[], none⟩ []).1
        (s2pLoop key maxSize tail tags a 0 ⟨[], none⟩ []).2 ∧
    ∀ p ∈ (s2pLoop key maxSize tail tags (a ++ b) 0 ⟨[], none⟩ []).2, p.length ≤ maxSize := by
  constructor
  · have := s2pLoop_append key maxSize tail tags a b 0 ⟨[], none⟩ []
    simpa using this
  · exact (s2pLoop_bound key maxSize tail tags (a ++ b) 0 ⟨[], none⟩ [] (by simp) (by simp)).2

/-- An end tag without a burst in progress emits nothing (the tail-only PDU defect, repaired). -/
example : (s2pLoop 100 10 2 [⟨1, 100, 0⟩] [5, 6, 7, 8, 9] 0 ⟨[], none⟩ []).2 = [] := by decide
/-- start at 1, end at 3, tail 1: samples 1, 2 and the one after the end-tagged sample -/
example : (s2pLoop 100 10 1 [⟨1, 100, 1⟩, ⟨3, 100, 0⟩] [5, 6, 7, 8, 9, 10] 0 ⟨[], none⟩ []).2 = [[6, 7, 9]] := by decide

/-! Non-vacuity. -/
example : nrziSpec 0 [1, 1, 0, 0, 1] = [0, 1, 0, 1, 0] := by decide
example : (rtlSpec [1, 2, 3, 4, 5]).length = 2 := by simp [rtlSpec, pairs]

/-- **VecToStream, every schedule** (`sched` = (packets queued, free output samples) at each call): the output
is the concatenation of the packets popped so far — nothing lost, split, duplicated or reordered — and the
tags added are exactly a start tag on the first and an end tag on the last sample of every non-empty packet,
carrying the packet length. A packet is emitted whole or not at all. -/
theorem c10_v2s (pk : List (List Nat)) (hpk : ∀ p ∈ pk, ∀ x ∈ p, x + 1 < pktBase) (sched : List (Nat × Nat)) :
    let r := driveV2S pk 0 [] [] sched
    r.1 ≤ pk.length ∧ r.2.1 = (pk.take r.1).flatten ∧ r.2.2 = v2sTags 0 (pk.take r.1) := by
  have := v2s_drive pk hpk sched 0 (Nat.zero_le _)
  simpa [v2sTags] using this

/-- VecToStream, one call: an empty queue waits for a packet; a packet larger than the free output space is
left queued and the block asks for exactly its length; otherwise exactly one packet is popped. -/
theorem c10_v2s_call (p : List Nat) (hp : ∀ x ∈ p, x + 1 < pktBase) (rest : List Nat) (f : Nat) :
    (v2sWork () ⟨[⟨[], [], true⟩], [⟨f, true⟩]⟩).2.verdict = .waitIn 0 1 ∧
    (let r := v2sWork () ⟨[⟨encodePkt p :: rest, [], true⟩], [⟨f, true⟩]⟩
     if p.length > f then r.2.verdict = .waitOut 0 p.length ∧ r.2.consumed.getD 0 0 = 0 ∧
        (r.2.produced.getD 0 ⟨[], []⟩).samples = []
     else r.2.verdict = .again ∧ r.2.consumed.getD 0 0 = 1 ∧ (r.2.produced.getD 0 ⟨[], []⟩).samples = p ∧
        (r.2.produced.getD 0 ⟨[], []⟩).tags = v2sTags 0 [p]) :=
  v2s_call p hp rest f

/-- **FFT-stream framing, every schedule** (any frame size > 0, any engine): the block only ever consumes whole
frames, and its output is the engine's transform of each consumed frame, in order — no sample lost, duplicated
or re-framed, however the input is cut into read windows and however much output space there is. -/
theorem c10_fft_stream (engine : List Nat → List Nat) (size : Nat) (hs : 0 < size) (X : List Nat)
    (sched : List (Nat × Nat)) :
    let r := drive1 (Dsp.fftStreamBlock engine size) X () 0 [] sched
    ∃ q, r.2.1 = q * size ∧ q * size ≤ X.length ∧ r.2.2 = Dsp.fftStreamSpec engine size X q := by
  have := Dsp.fftStream_drive engine size hs X sched 0 (by simp)
  simpa [Dsp.fftStreamSpec, Dsp.framesOf] using this

/-- FFT-stream, one call: it asks for exactly one frame of input or one frame of output room when that is what
is missing, and otherwise transforms at least one frame. -/
theorem c10_fft_stream_call (engine : List Nat → List Nat) (size : Nat) (hs : 0 < size) (X : List Nat) (q a f : Nat)
    (hq : q * size ≤ X.length) :
    let w := (X.drop (q * size)).take a
    let r := Dsp.fftStreamWork engine size () ⟨[⟨w, [], true⟩], [⟨f, true⟩]⟩
    r.2.verdict ≠ .panic ∧ (r.2.verdict = .waitIn 0 size → w.length < size) ∧
    (r.2.verdict = .waitOut 0 size → f < size) ∧ (r.2.verdict = .again → size ≤ r.2.consumed.getD 0 0) := by
  intro w r
  obtain ⟨m, h1, _, _, _, h5, h6, h7, h8⟩ := Dsp.fftStream_step engine size hs X q a f hq
  refine ⟨h5, h6, h7, fun h => ?_⟩
  have := h8 h
  show size ≤ r.2.consumed.getD 0 0
  rw [h1]
  exact Nat.le_mul_of_pos_left size this

/-- ConstantSource: every call fills all the free space with the value and reports a wait on its output. -/
theorem c10_constant_source (val f : Nat) :
    let r := constWork val () ⟨[], [⟨f, true⟩]⟩
    (r.2.produced.getD 0 ⟨[], []⟩).samples = List.replicate f val ∧ r.2.verdict = .waitOut 0 1 := by
  simp [constWork, out0]

example : (driveV2S [[1, 2, 3], [], [4]] 0 [] [] [(1, 2), (3, 3), (2, 0), (2, 5)]) =
    (3, [1, 2, 3, 4], [⟨0, v2sStartKey, 3⟩, ⟨2, v2sEndKey, 3⟩, ⟨3, v2sStartKey, 1⟩, ⟨3, v2sEndKey, 1⟩]) := by
  decide +kernel

example : (drive1 (Dsp.fftStreamBlock List.reverse 2) [1, 2, 3, 4, 5] () 0 [] [(1, 9), (3, 9), (5, 1), (5, 9)]).2 =
    (4, [2, 1, 4, 3]) := by decide

/-- VectorSink: for every way of cutting the input into read windows, and from every fill level, the
samples stored are the next `max_size − stored` samples of the input in order (nothing duplicated or
reordered); the stored tags lie on stored samples. NullSink stores nothing and consumes everything. -/
theorem c10_vector_sink (max : Nat) (ws : List (List Nat)) (st : Nat) :
    sinkDrive max ws st = (st + min ws.flatten.length (max - st), ws.flatten.take (max - st)) :=
  sink_drive max ws st

theorem c10_vector_sink_call (max st : Nat) (w : List Nat) (ts : List Tag) :
    let r := vsinkWork max st ⟨[⟨w, ts, true⟩], []⟩
    (r.2.produced.getD 0 ⟨[], []⟩).samples = w.take (max - st) ∧
    (∀ t ∈ (r.2.produced.getD 0 ⟨[], []⟩).tags, t ∈ ts ∧ t.pos < (r.2.produced.getD 0 ⟨[], []⟩).samples.length) := by
  intro r
  obtain ⟨_, _, h3, h4, _⟩ := vsink_call max st w ts true []
  exact ⟨h3, h4⟩

theorem c10_null_sink (w : List Nat) (ts : List Tag) :
    let r := nullWork () ⟨[⟨w, ts, true⟩], []⟩
    r.2.consumed = [w.length] ∧ r.2.produced = [] := by
  intro r
  obtain ⟨h1, h2, _⟩ := null_call w ts true
  exact ⟨h1, h2⟩

example : sinkDrive 3 [[9, 8], [7, 6]] 0 = (3, [9, 8, 7]) := by decide

/-- `Delay::set_delay` (block `delayctl`: `delaySet` is compared with the real call after every control call,
including its panic). Called in a steady state — start-up zeros out, no drop pending — it never panics, sets the
configured delay, and changes the pending net shift (zeros owed − samples to drop) by exactly `new − old`.
Outside the steady state it panics exactly when `new ≤ old` and `old − new < min(current_delay, new)`
(`Delay::new(s,5); set_delay(4)`), and a raise while zeros are still owed forgets them (`delaySet_net_raise`);
both are recorded as observations in DESIGN.md, since no property quantifies over control calls. -/
theorem c10_set_delay (d : Nat) (st : DelaySt) (nd : Nat) :
    (st.currentDelay = 0 → st.skip = 0 →
      ∃ st', delaySet d st nd = some (nd, st') ∧ st'.net = st.net + ((nd : Int) - (d : Int))) ∧
    (delaySet d st nd = none ↔ nd ≤ d ∧ d - nd < min st.currentDelay nd) :=
  ⟨delaySet_steady d st nd, delaySet_none_iff d st nd⟩

end RR.Props.C10
