import RR.Proof.Au
import RR.Proof.AuBlock
import RR.Proof.Hand
import RR.Proof.HdlcTable
import RR.Proof.SyncWork
import RR.Model.Blocks
import RR.Proof.Gated

/-!
# C15 — input content can never crash a block, decoder or parser

In the models every Rust assertion, checked subtraction, slice index and
`unwrap` is an explicit outcome (`Verdict.panic`, `none`, an error value), never
a totalised default, so "cannot crash" is a theorem of the form "this outcome
is not reached, for every input". Termination is by construction: every model
function is structurally recursive or fuelled with a bound derived from its
argument. Proved here for the units that are modelled in Lean; all other units
that accept external data are exercised on the real code with hostile inputs
(see the evidence), where a panic, an abort or a hang is a violation.

Known finding (recorded, not repaired): integer `AddConst`/`MultiplyConst`/`Add`
panic on arithmetic overflow (`c15_int_overflow_panics` is its witness).
-/
namespace RR.Props.C15
open RR RR.Blk

/-- `AuDecode::work` as a block: in no state and on no read window (any bytes, any length, any output
space) does it panic — the header slices `head[4..16]` are in range because the data offset is
checked against 24 first; every other outcome is a wait, an error value, or progress. -/
theorem c15_au_block_no_panic (bitrate : Nat) (deq : Nat → Nat) (st : Au.DecSt) (v : View) :
    (Au.decWork bitrate deq st v).2.verdict ≠ .panic :=
  Au.dec_no_panic bitrate deq st v

/-- The AU decoder: every byte string leads to samples, "need more", or an
error value; when it gets as far as reading header fields the offset
arithmetic cannot underflow and the 16 header bytes it slices are there. -/
theorem c15_au_total (bitrate : Nat) (bytes : List Nat) :
    (∃ e, Au.decode bitrate bytes = .error e) ∨ Au.decode bitrate bytes = .ok none ∨
    (∃ s, Au.decode bitrate bytes = .ok (some s) ∧
      24 ≤ Au.ofBeBytes ((bytes.drop 4).take 4) ∧ Au.ofBeBytes ((bytes.drop 4).take 4) ≤ bytes.length) := by
  unfold Au.decode
  split; · right; left; rfl
  split; · left; exact ⟨_, rfl⟩
  split; · right; left; rfl
  simp only []
  split; · right; left; rfl
  split; · left; exact ⟨_, rfl⟩
  split; · right; left; rfl
  split; · left; exact ⟨_, rfl⟩
  split; · left; exact ⟨_, rfl⟩
  split; · left; exact ⟨_, rfl⟩
  right; right
  exact ⟨_, rfl, by omega, by omega⟩

/-- The HDLC deframer: `update_state` is total on every state and every input
byte (bits are whatever the stream holds, not only 0/1); the only subtraction on
a length is guarded. -/
theorem c15_hdlc_total (cfg : Hdlc.Cfg) (s : Hdlc.State) (bit : Nat) :
    ∃ s' p, Hdlc.step cfg s bit = (s', p) := ⟨_, _, rfl⟩

theorem c15_hdlc_guard (cfg : Hdlc.Cfg) (hs : cfg.stripChecksum = true) (bits : List Nat) (bit : Nat)
    (p : List Nat) (h : (Hdlc.step cfg (.finalCheck bits) bit).2 = some p) :
    2 ≤ (Hdlc.toBytes ((bits.drop 7).reverse)).length := by
  simp only [Hdlc.step, hs, Bool.true_and] at h
  split at h; · cases h
  split at h; · cases h
  split at h; · cases h
  split at h; · cases h
  split at h
  · cases h
  · rename_i hlen; simp at hlen; omega

/-- The LFSR descrambler accepts every byte value (it uses the low bit). -/
theorem c15_lfsr_total (mask len reg i : Nat) : (lfsrNext mask len reg i).isSome = true := rfl

/-- Generated `work()`s panic only if the user's per-sample function does. -/
theorem c15_sync_no_panic (S : SyncSpec) (st : S.σ) (v : View)
    (hf : ∀ s xs ts, (S.f s xs ts).isSome = true) : (syncWork S st v).2.verdict ≠ .panic := by
  unfold syncWork
  split; · simp
  split; · simp
  have : ∀ (st : S.σ) (pos k : Nat), (syncLoopG S (viewAt v.ins) st pos k).isSome = true := by
    intro st pos k
    induction k generalizing st pos with
    | zero => rfl
    | succ k ih =>
      simp only [syncLoopG]
      have h1 := hf st (viewAt v.ins pos).1 (viewAt v.ins pos).2
      cases hx : S.f st (viewAt v.ins pos).1 (viewAt v.ins pos).2 with
      | none => simp [hx] at h1
      | some r =>
        obtain ⟨s1, o, t⟩ := r
        have h2 := ih s1 (pos + 1)
        cases hy : syncLoopG S (viewAt v.ins) s1 (pos + 1) k with
        | none => simp [hy] at h2
        | some r2 => obtain ⟨a, b, c⟩ := r2; simp [hy]
  unfold syncLoop
  generalize minList (v.outs.map (·.free)) (minList (v.ins.map (·.samples.length)) (2 ^ 64 - 1)) = n
  have h := this st 0 n
  cases hz : syncLoopG S (viewAt v.ins) st 0 n with
  | none => simp [hz] at h
  | some r => obtain ⟨a, b, c⟩ := r; simp [hz]

/-- Skip, Delay, RtlSdrDecode: no panic on any window and any free space (from C08). -/
theorem c15_hand_no_panic (k : Nat) (X : List Nat) (c a f z : Nat) (hz : z ≤ k) (hcz : 0 < c → z = k)
    (hc : c % 2 = 0) :
    (skipWork (k - min k c) ⟨[⟨(X.drop c).take a, [], true⟩], [⟨f, true⟩]⟩).2.verdict ≠ .panic ∧
    (delayWork ⟨k - z, 0⟩ ⟨[⟨(X.drop c).take a, [], true⟩], [⟨f, true⟩]⟩).2.verdict ≠ .panic ∧
    (rtlWork () ⟨[⟨(X.drop c).take a, [], true⟩], [⟨f, true⟩]⟩).2.verdict ≠ .panic := by
  refine ⟨(skip_step k X c a f).2.2.2, ?_, (rtl_step X c a f hc).2.2.2⟩
  obtain ⟨_, _, _, _, _, _, _, h⟩ := delay_step k X c z a f hz hcz
  exact h

/-- Indexing the middle of a non-empty sorted partition (Midpointer) is in range; with the
guard added by the fix the partitions are non-empty when indexed. -/
theorem c15_midpoint_index (n : Nat) (h : 0 < n) : n / 2 < n := by omega

/-- The recorded finding: integer addition with overflow checks panics (model: `none`). -/
theorem c15_int_overflow_panics : (addConstInt 8 250).f () [10] [] = none := by decide

/-- ZeroCrossing's `work()` has no reachable panic: for every state (any clock, any counter), any sample
values (NaN, infinities are just encoded samples), any windows. -/
theorem c15_zerocrossing_no_panic {α : Type} (o : ZOps α) (sps : α) (nout : Nat) (st : ZcSt α) (v : View) :
    (gatedWork (zcGated o sps nout) st v).2.verdict ≠ .panic :=
  gatedWork_total (zcGated o sps nout) (by intro st s; simp [zcGated]) st v

end RR.Props.C15
