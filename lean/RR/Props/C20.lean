import RR.Gen.E2eStatus
import RR.Gen.E2e
import RR.Proof.SyncSpecs
import RR.Proof.HdlcTable
import RR.Spec.Hdlc
import RR.Proof.Chain
import RR.Proof.ZcIdeal

/-!
# C20 — end to end: the documented receive chains decode every clean AX.25 frame

**Partial by nature.** The receive chains consist of an analog front end
(Hilbert / FFT filters / resampler / quadrature demodulator / clock recovery /
slicer, all floating point) and a digital back end (NRZI decoder, G3RUH
descrambler, HDLC deframer). The back end is modelled and proved (here and in
C10/C13); that the float front end recovers the transmitted symbol signs for
*every* clean signal is not a theorem — it needs real-analysis bounds on
windowed filters and on the clock loop. It enters as the explicit hypothesis
`FrontEnd` and is *validated* on generated transmissions (Bell-202 AFSK at
44100/48000/50000 Hz, G3RUH 2-FSK at 50000/100000 Hz, arbitrary start phase and
sub-sample symbol timing, both runners), where a front-end regression shows up
as a concrete failing transmission.

The chain definitions used by the harness are compared with the example sources
on every run (`RR.Gen.rx1200Chain`, …).
-/
namespace RR.Props.C20
open RR RR.Blk RR.Chain

/-- The documented 1200-baud chain, as the example source has it now (the translator inlines the example's
own helper functions, so that moving blocks into or out of a helper does not change the list: the first four
blocks are the SDR input path of `get_input` — built in mutually exclusive branches, hence listed sorted — not used
when the input is audio). -/
theorem c20_chain_1200_as_documented :
    Gen.rx1200Chain = ["FastFM", "FftFilter", "QuadratureDemod", "RationalResampler",
      "Hilbert", "QuadratureDemod", "FftFilterFloat", "add_const", "SymbolSync",
      "BinarySlicer", "NrziDecode", "HdlcDeframer"] ∧
    Gen.rx1200HdlcMin = 10 ∧ Gen.rx1200HdlcMax = 1500 ∧ Gen.rx1200HilbertTaps = 65 := by decide

/-- The documented 9600-baud chain (the example uses `SymbolSync`; the harness also runs it with the
`ZeroCrossing` block as the clock recovery, which is the variant the property names). -/
theorem c20_chain_9600_as_documented :
    Gen.rx9600Chain = ["FftFilter", "RationalResampler", "QuadratureDemod", "SymbolSync", "BinarySlicer",
      "NrziDecode", "Descrambler", "HdlcDeframer"] ∧
    Gen.rx9600HdlcMin = 10 ∧ Gen.rx9600HdlcMax = 1500 ∧
    Gen.rx9600DescramblerMask = 0x21 ∧ Gen.rx9600DescramblerSeed = 0 ∧ Gen.rx9600DescramblerLen = 16 := by decide

/-- The NRZI decoder inverts the encoder for every bit string, when it starts
from the transmitter's initial level … -/
theorem c20_nrzi (level : Nat) (hl : level < 2) (bits : List Nat) (hb : ∀ b ∈ bits, b < 2) :
    nrziSpec level (nrziEnc level bits) = bits := by
  induction bits generalizing level with
  | nil => rfl
  | cons b rest ih =>
    have hb0 : b < 2 := hb b (by simp)
    simp only [nrziEnc, nrziSpec]
    have hl' : (if b = 0 then 1 - level else level) < 2 := by split <;> omega
    rw [ih _ hl' (fun x hx => hb x (by simp [hx]))]
    congr 1
    have : level = 0 ∨ level = 1 := by omega
    have : b = 0 ∨ b = 1 := by omega
    rcases ‹level = 0 ∨ level = 1› with rfl | rfl <;> rcases ‹b = 0 ∨ b = 1› with rfl | rfl <;> decide

/-- … and from any other starting point only the first decoded bit can differ
(so any preamble absorbs the unknown initial level and polarity). -/
theorem c20_nrzi_any_start (level prev : Nat) (hl : level < 2) (bits : List Nat) (hb : ∀ b ∈ bits, b < 2) :
    (nrziSpec prev (nrziEnc level bits)).drop 1 = bits.drop 1 := by
  cases bits with
  | nil => rfl
  | cons b rest =>
    simp only [nrziEnc, nrziSpec, List.drop_succ_cons, List.drop_zero]
    have hl' : (if b = 0 then 1 - level else level) < 2 := by split <;> omega
    exact c20_nrzi _ hl' rest (fun x hx => hb x (by simp [hx]))

/-- The hypothesis about the analog front end, made explicit: what reaches the
NRZI decoder is, after a finite prefix, the transmitted line levels up to a
constant polarity flip. -/
def FrontEnd (txLevels rxBits : List Nat) : Prop :=
  ∃ (skip dropTx : Nat) (flip : Nat), flip < 2 ∧
    rxBits.drop skip = (txLevels.drop dropTx).map (fun l => if flip = 1 then 1 - l else l)

/-- A polarity flip of the line does not change what the NRZI decoder delivers after its first bit. -/
theorem c20_polarity_irrelevant (prev : Nat) (ls : List Nat) (hl : ∀ l ∈ ls, l < 2) :
    (nrziSpec prev (ls.map fun l => 1 - l)).drop 1 = (nrziSpec prev ls).drop 1 := by
  cases ls with
  | nil => rfl
  | cons a rest =>
    simp only [List.map_cons, nrziSpec, List.drop_succ_cons, List.drop_zero]
    have ha : a < 2 := hl a (by simp)
    have gen : ∀ (p : Nat) (l : List Nat), p < 2 → (∀ x ∈ l, x < 2) →
        nrziSpec (1 - p) (l.map fun x => 1 - x) = nrziSpec p l := by
      intro p l hp hx
      induction l generalizing p with
      | nil => rfl
      | cons x xs ih =>
        have hx0 : x < 2 := hx x (by simp)
        simp only [List.map_cons, nrziSpec]
        rw [ih x hx0 (fun y hy => hx y (by simp [hy]))]
        congr 1
        have : p = 0 ∨ p = 1 := by omega
        have : x = 0 ∨ x = 1 := by omega
        rcases ‹p = 0 ∨ p = 1› with rfl | rfl <;> rcases ‹x = 0 ∨ x = 1› with rfl | rfl <;> decide
    exact gen a rest ha (fun x hx => hl x (by simp [hx]))

/-- **Digital back end of the 1200-baud chain, every transmission.** Any
preamble of at least one bit, then a flag and any number of frames (payloads
within the example's size limits, any idle flags between them), NRZI-encoded
from any line level; NRZI decoder in any state, deframer as configured in the
example: the packets delivered are the payloads, in order, each once — preceded
only by what the preamble itself made the deframer deliver. -/
theorem c20_digital_1200 (P : List Nat) (hP : ∀ x ∈ P, x < 2) (hPne : P ≠ []) (level prev : Nat)
    (hl : level < 2) (hp : prev < 2) (ps : List (List Nat × Nat))
    (hps : ∀ q ∈ ps, (∀ b ∈ q.1, b < 256) ∧ Gen.rx1200HdlcMin ≤ q.1.length + 2 ∧ q.1.length + 2 ≤ Gen.rx1200HdlcMax) :
    ∃ garbage, (Hdlc.run ⟨Gen.rx1200HdlcMin, Gen.rx1200HdlcMax, true, false⟩ Hdlc.init
      (nrziSpec prev (nrziEnc level (P ++ txFrames ps)))).2 = garbage ++ ps.map (·.1) := by
  have hbits : ∀ x ∈ P ++ txFrames ps, x < 2 := by
    intro x hx
    rcases List.mem_append.mp hx with h | h
    · exact hP x h
    · exact txFrames_bits ps x h
  obtain ⟨r0, hr0, hR⟩ := nrzi_any_start level prev hl hp (P ++ txFrames ps) hbits (by simp [hPne])
  rw [hR]
  cases P with
  | nil => exact absurd rfl hPne
  | cons p0 P' =>
    simp only [List.cons_append, List.drop_succ_cons, List.drop_zero]
    have := deframe_after_noise ⟨Gen.rx1200HdlcMin, Gen.rx1200HdlcMax, true, false⟩ rfl (r0 :: P')
      (by intro b hb; rcases List.mem_cons.mp hb with rfl | h; omega; have := hP b (by simp [h]); omega) ps hps
    exact ⟨_, by simpa using this⟩

/-- **Digital back end of the 9600-baud chain, every transmission.** As above
with the G3RUH scrambler (any seed) at the transmitter and the descrambler as
configured in the example (mask 0x21, length 16, seed 0 — the real `Lfsr::next`
register model) at the receiver, after a preamble of at least 18 bits. -/
theorem c20_digital_9600 (P hs : List Nat) (hP : ∀ x ∈ P, x < 2) (hhs : ∀ x ∈ hs, x < 2) (hlen : 18 ≤ P.length)
    (level prev : Nat) (hl : level < 2) (hp : prev < 2) (ps : List (List Nat × Nat))
    (hps : ∀ q ∈ ps, (∀ b ∈ q.1, b < 256) ∧ Gen.rx9600HdlcMin ≤ q.1.length + 2 ∧ q.1.length + 2 ≤ Gen.rx9600HdlcMax) :
    ∃ garbage, (Hdlc.run ⟨Gen.rx9600HdlcMin, Gen.rx9600HdlcMax, true, false⟩ Hdlc.init
      (Lfsr.lfsrRun Gen.rx9600DescramblerSeed
        (nrziSpec prev (nrziEnc level (Lfsr.scrL hs (P ++ txFrames ps)))))).2 = garbage ++ ps.map (·.1) := by
  obtain ⟨noise, _, hn, hrun⟩ := scrambled_link P (txFrames ps) hs hP (txFrames_bits ps) hhs hlen level prev hl hp
  have hseed : Gen.rx9600DescramblerSeed = 0 := by decide
  rw [hseed, hrun]
  exact ⟨_, deframe_after_noise ⟨Gen.rx9600HdlcMin, Gen.rx9600HdlcMax, true, false⟩ rfl noise hn ps hps⟩

/-- **Clock recovery by `ZeroCrossing`, exact arithmetic.** `zcStep` — the definition the driver runs in
`Float32`, bit for bit against the real block — instantiated with rationals (`+ - /2 10*` exact, `as u64` =
floor): for EVERY samples-per-symbol `sps ≥ 4` (50000/9600 in the example), every symbol sequence `b` with
any run lengths, on the ideal NRZ waveform (symbol `s` = the sample instants in `[s·sps, (s+1)·sps)`), the block
emits exactly one sample per symbol, carrying that symbol's sign — through all of its zero-crossing resets
and step-backs. (For `2 < sps < 4` this is false: the block can emit a symbol twice; what is not proved
is the effect of `f32` rounding in `last_cross += clock`.) -/
theorem c20_zero_crossing_ideal (sps : ℚ) (hs : 4 ≤ sps) (b : List Bool) (pos : Nat → Bool) (hi lo : Nat)
    (hhi : pos hi = true) (hlo : pos lo = false) :
    ∃ st rows, gatedRun (zcGated (ratZOps pos) sps 1) (idealWave sps b hi lo) (zcGated (ratZOps pos) sps 1).init [] =
      some (st, rows) ∧ rows.map (rowSign pos) = b :=
  zc_ideal sps hs b pos hi lo hhi hlo

/-- The bound on `sps` is needed: at 2.5 samples per symbol the same step emits the second symbol of
`[0, 1]` twice (kernel-evaluated on the exact-arithmetic instance). -/
theorem c20_zero_crossing_small_sps_duplicates :
    (gatedRun (zcGated (ratZOps (· == 1)) (5 / 2) 1) (idealWave (5 / 2) [false, true] 1 0)
      (zcGated (ratZOps (· == 1)) (5 / 2) 1).init []).map (fun r => r.2.map (rowSign (· == 1))) =
      some [false, true, true] := by decide +kernel

/-- **The 9600-baud chain from the baseband on**: ideal NRZ waveform of the scrambled, NRZI-coded
transmission → ZeroCrossing (exact arithmetic, any `sps ≥ 4`) → BinarySlicer (`x > 0`) → NrziDecode →
Descrambler → HdlcDeframer as configured in the example delivers exactly the transmitted payloads, in
order, each once. (`c08_gated` makes the ZeroCrossing part independent of the schedule.) -/
theorem c20_9600_from_baseband (sps : ℚ) (hsps : 4 ≤ sps) (pos : Nat → Bool) (hi lo : Nat) (hhi : pos hi = true)
    (hlo : pos lo = false) (P hs : List Nat) (hP : ∀ x ∈ P, x < 2) (hhs : ∀ x ∈ hs, x < 2) (hlen : 18 ≤ P.length)
    (level prev : Nat) (hl : level < 2) (hp : prev < 2) (ps : List (List Nat × Nat))
    (hps : ∀ q ∈ ps, (∀ b ∈ q.1, b < 256) ∧ Gen.rx9600HdlcMin ≤ q.1.length + 2 ∧ q.1.length + 2 ≤ Gen.rx9600HdlcMax) :
    let levels := nrziEnc level (Lfsr.scrL hs (P ++ txFrames ps))
    ∃ st rows, gatedRun (zcGated (ratZOps pos) sps 1) (idealWave sps (levels.map (· == 1)) hi lo)
        (zcGated (ratZOps pos) sps 1).init [] = some (st, rows) ∧
      ∃ garbage, (Hdlc.run ⟨Gen.rx9600HdlcMin, Gen.rx9600HdlcMax, true, false⟩ Hdlc.init
        (Lfsr.lfsrRun Gen.rx9600DescramblerSeed
          (nrziSpec prev (rows.map fun r => if rowSign pos r then 1 else 0)))).2 = garbage ++ ps.map (·.1) := by
  intro levels
  obtain ⟨st, rows, hrun, hrows⟩ := zc_ideal sps hsps (levels.map (· == 1)) pos hi lo hhi hlo
  refine ⟨st, rows, hrun, ?_⟩
  have hsl : (rows.map fun r => if rowSign pos r then 1 else 0) = levels := by
    have : (rows.map fun r => if rowSign pos r then 1 else 0) =
        (rows.map (rowSign pos)).map fun (x : Bool) => if x then 1 else 0 := by
      rw [List.map_map]; rfl
    rw [this, hrows, List.map_map]
    conv => rhs; rw [← List.map_id levels]
    apply List.map_congr_left
    intro x hx
    have := nrziEnc_lt2 level hl _ x hx
    have : x = 0 ∨ x = 1 := by omega
    rcases this with rfl | rfl <;> simp
  rw [hsl]
  exact c20_digital_9600 P hs hP hhs hlen level prev hl hp ps hps

/-- The descrambler of the chain is the documented one: `out[n] = in[n] xor in[n-12] xor in[n-17]`. -/
theorem c20_descrambler_taps (l hist : List Nat) (hl : ∀ x ∈ l, x < 2) (hh : ∀ x ∈ hist, x < 2) :
    Lfsr.lfsrRun (Lfsr.enc hist) l = Lfsr.descrL hist l ∧
    Gen.rx9600DescramblerMask = 0x21 ∧ Gen.rx9600DescramblerLen = 16 :=
  ⟨Lfsr.lfsrRun_eq_descrL l hl hist hh, by decide, by decide⟩

/-- The `Descrambler` block's generated work loop clocks exactly that register model. -/
theorem c20_descrambler_block (get : Nat → List Nat × List (List Tag)) (reg pos k : Nat) :
    ∃ st ts, syncLoopG (descrambler Gen.rx9600DescramblerMask Gen.rx9600DescramblerSeed Gen.rx9600DescramblerLen)
        get reg pos k =
      some (st, (Lfsr.lfsrRun reg ((List.range k).map fun p => (get (pos + p)).1.getD 0 0)).map ([·]), ts) :=
  descrambler_oneShot get 0 reg pos k

/-- Digital back end of the 1200-baud chain on a concrete transmission: NRZI-coded frame with a
two-flag preamble, any initial line level — exactly the payload comes out (non-vacuity; the statement
for every payload follows from the HDLC round trip, C13). -/
example :
    let cfg : Hdlc.Cfg := ⟨Gen.rx1200HdlcMin, Gen.rx1200HdlcMax, true, false⟩
    let p := [0x82, 0xa0, 0xa4, 0xa6, 0x40, 0x40, 0x60, 0x03, 0xf0, 0x21, 0x3e]
    let bits := HdlcSpec.flag ++ HdlcSpec.frame p
    (Hdlc.run cfg Hdlc.init (nrziSpec 0 (nrziEnc 1 bits))).2 = [p] := by decide +kernel

/-- Non-vacuity of `c20_zero_crossing_ideal` at the example's rate 50000/9600: five symbols in, five out. -/
example :
    (gatedRun (zcGated (ratZOps (· == 1)) (50000 / 9600) 1) (idealWave (50000 / 9600) [false, true, false, false, true] 1 0)
      (zcGated (ratZOps (· == 1)) (50000 / 9600) 1).init []).map (fun r => r.2.map (rowSign (· == 1))) =
      some [false, true, false, false, true] := by decide +kernel

end RR.Props.C20
