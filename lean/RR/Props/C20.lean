import RR.Gen.E2e
import RR.Proof.SyncSpecs
import RR.Proof.HdlcTable
import RR.Spec.Hdlc

/-!
# C20 — end to end: the documented receive chains decode every clean AX.25 frame

**Partial by nature.** The receive chains consist of an analog front end
(Hilbert / FFT filters / resampler / quadrature demodulator / clock recovery /
slicer, all floating point) and a digital back end (NRZI decoder, G3RUH
descrambler, HDLC deframer). The back end is modelled and proved (here and in
C10/C13); that the float front end recovers the transmitted symbol signs for
*every* clean signal is not a theorem — it needs real-analysis bounds on
windowed filters and on the clock loop. It enters as the explicit hypothesis
`FrontEnd` and is *validated* on generated transmissions (Bell-202 AFSK at
44100/48000/50000 Hz, G3RUH 2-FSK at 50000/100000 Hz, arbitrary start phase and
sub-sample symbol timing, both runners), where a front-end regression shows up
as a concrete failing transmission.

The chain definitions used by the harness are compared with the example sources
on every run (`RR.Gen.rx1200Chain`, …).
-/
namespace RR.Props.C20
open RR RR.Blk

/-- The documented 1200-baud chain, as the example source has it now. -/
theorem c20_chain_1200_as_documented :
    Gen.rx1200Chain = ["Hilbert", "QuadratureDemod", "FftFilterFloat", "add_const", "SymbolSync",
      "BinarySlicer", "NrziDecode", "HdlcDeframer"] ∧
    Gen.rx1200HdlcMin = 10 ∧ Gen.rx1200HdlcMax = 1500 ∧ Gen.rx1200HilbertTaps = 65 := by decide

/-- The documented 9600-baud chain (the example uses `SymbolSync`; the harness also runs it with the
`ZeroCrossing` block as the clock recovery, which is the variant the property names). -/
theorem c20_chain_9600_as_documented :
    Gen.rx9600Chain = ["FftFilter", "RationalResampler", "QuadratureDemod", "SymbolSync", "BinarySlicer",
      "NrziDecode", "Descrambler", "HdlcDeframer"] ∧
    Gen.rx9600HdlcMin = 10 ∧ Gen.rx9600HdlcMax = 1500 ∧
    Gen.rx9600DescramblerMask = 0x21 ∧ Gen.rx9600DescramblerSeed = 0 ∧ Gen.rx9600DescramblerLen = 16 := by decide

/-- NRZI as AX.25 transmits it: a `0` toggles the line level, a `1` keeps it. -/
def nrziEnc : Nat → List Nat → List Nat
  | _, [] => []
  | level, b :: rest =>
    let l := if b = 0 then 1 - level else level
    l :: nrziEnc l rest

/-- The NRZI decoder inverts the encoder for every bit string, when it starts
from the transmitter's initial level … -/
theorem c20_nrzi (level : Nat) (hl : level < 2) (bits : List Nat) (hb : ∀ b ∈ bits, b < 2) :
    nrziSpec level (nrziEnc level bits) = bits := by
  induction bits generalizing level with
  | nil => rfl
  | cons b rest ih =>
    have hb0 : b < 2 := hb b (by simp)
    simp only [nrziEnc, nrziSpec]
    have hl' : (if b = 0 then 1 - level else level) < 2 := by split <;> omega
    rw [ih _ hl' (fun x hx => hb x (by simp [hx]))]
    congr 1
    have : level = 0 ∨ level = 1 := by omega
    have : b = 0 ∨ b = 1 := by omega
    rcases ‹level = 0 ∨ level = 1› with rfl | rfl <;> rcases ‹b = 0 ∨ b = 1› with rfl | rfl <;> decide

/-- … and from any other starting point only the first decoded bit can differ
(so any preamble absorbs the unknown initial level and polarity). -/
theorem c20_nrzi_any_start (level prev : Nat) (hl : level < 2) (bits : List Nat) (hb : ∀ b ∈ bits, b < 2) :
    (nrziSpec prev (nrziEnc level bits)).drop 1 = bits.drop 1 := by
  cases bits with
  | nil => rfl
  | cons b rest =>
    simp only [nrziEnc, nrziSpec, List.drop_succ_cons, List.drop_zero]
    have hl' : (if b = 0 then 1 - level else level) < 2 := by split <;> omega
    exact c20_nrzi _ hl' rest (fun x hx => hb x (by simp [hx]))

/-- The hypothesis about the analog front end, made explicit: what reaches the
NRZI decoder is, after a finite prefix, the transmitted line levels up to a
constant polarity flip. -/
def FrontEnd (txLevels rxBits : List Nat) : Prop :=
  ∃ (skip dropTx : Nat) (flip : Nat), flip < 2 ∧
    rxBits.drop skip = (txLevels.drop dropTx).map (fun l => if flip = 1 then 1 - l else l)

/-- A polarity flip of the line does not change what the NRZI decoder delivers after its first bit. -/
theorem c20_polarity_irrelevant (prev : Nat) (ls : List Nat) (hl : ∀ l ∈ ls, l < 2) :
    (nrziSpec prev (ls.map fun l => 1 - l)).drop 1 = (nrziSpec prev ls).drop 1 := by
  cases ls with
  | nil => rfl
  | cons a rest =>
    simp only [List.map_cons, nrziSpec, List.drop_succ_cons, List.drop_zero]
    have ha : a < 2 := hl a (by simp)
    have gen : ∀ (p : Nat) (l : List Nat), p < 2 → (∀ x ∈ l, x < 2) →
        nrziSpec (1 - p) (l.map fun x => 1 - x) = nrziSpec p l := by
      intro p l hp hx
      induction l generalizing p with
      | nil => rfl
      | cons x xs ih =>
        have hx0 : x < 2 := hx x (by simp)
        simp only [List.map_cons, nrziSpec]
        rw [ih x hx0 (fun y hy => hx y (by simp [hy]))]
        congr 1
        have : p = 0 ∨ p = 1 := by omega
        have : x = 0 ∨ x = 1 := by omega
        rcases ‹p = 0 ∨ p = 1› with rfl | rfl <;> rcases ‹x = 0 ∨ x = 1› with rfl | rfl <;> decide
    exact gen a rest ha (fun x hx => hl x (by simp [hx]))

/-- Digital back end of the 1200-baud chain on a concrete transmission: NRZI-coded frame with a
two-flag preamble, any initial line level — exactly the payload comes out (non-vacuity; the statement
for every payload follows from the HDLC round trip, C13). -/
example :
    let cfg : Hdlc.Cfg := ⟨Gen.rx1200HdlcMin, Gen.rx1200HdlcMax, true, false⟩
    let p := [0x82, 0xa0, 0xa4, 0xa6, 0x40, 0x40, 0x60, 0x03, 0xf0, 0x21, 0x3e]
    let bits := HdlcSpec.flag ++ HdlcSpec.frame p
    (Hdlc.run cfg Hdlc.init (nrziSpec 0 (nrziEnc 1 bits))).2 = [p] := by decide +kernel

end RR.Props.C20
