import RR.Gen.WaitsStatus
import RR.Proof.Wait
import RR.Gen.Waits

/-!
# C04 — end-of-stream decisions never lose committed data and always arrive

Model: `RR.Wait` — a decision reads the amount available (under the lock) and
the peer's liveness (a racy `Arc::strong_count` read); the peer thread takes
arbitrary steps (commit/push, drop) before, between and after the two reads.
The *order of the reads of every decision function* is `RR.Gen.*`, regenerated
from `/repo/src/stream.rs` on every run; the theorems below are stated about
those generated programs, so a reordering in the source re-opens the proofs.

Partial for "bounded number of waits": that a wait call completes (the OS runs
the thread, the 100 ms timeout fires) is assumed; what is proved is that *one
completed call* after the peer is gone gives the final answer.
-/
namespace RR.Props.C04
open RR RR.Wait

/-- `ReadStream::wait_for_read` (copy streams): a `true` verdict is only given
when the writer is gone and fewer than `need` remain — under every interleaving
with the writer's last commits and its drop. -/
theorem c04_reader_wait_sound : SoundReader Gen.readWait := sound_aliveFirst

/-- `ReadStream::eof`. -/
theorem c04_reader_eof_sound : SoundReader Gen.readEof := sound_aliveFirst

/-- `NCReadStream::wait` (packet streams): both facts are read under one lock. -/
theorem c04_nc_wait_sound : SoundReader Gen.ncReadWait := sound_both

/-- `NCReadStream::eof`. -/
theorem c04_nc_eof_sound : SoundReader Gen.ncReadEof := sound_aliveFirst

/-- `WriteStream::wait_for_write`: a writer is told "never" only if its reader is gone. -/
theorem c04_writer_wait_sound : SoundWriter Gen.writeWait := sound_writer_any _

/-- `NCWriteStream::wait`. -/
theorem c04_nc_writer_wait_sound (s : Sh) (sched : List (Option Env)) :
    (exec Gen.ncWriteWait s {} sched).2.1.a = some false →
    (exec Gen.ncWriteWait s {} sched).1.peerAlive = false :=
  alive_seen _ s {} sched (by simp)

/-- A decision never changes the stream: committed data stays readable. -/
theorem c04_no_discard (prog : List Obs) (s : Sh) (k : Nat) :
    (exec prog s {} (List.replicate k none)).1 = s := exec_no_discard prog s {} k

/-- After the peer is gone nothing changes any more, so a sound `true` stays true forever. -/
theorem c04_stable (s : Sh) (h : s.peerAlive = false) (es : List Env) :
    es.foldl envStep s = s := by
  induction es with
  | nil => rfl
  | cons e es ih => simp only [List.foldl_cons]; rw [envStep_dead s e h]; exact ih

/-- Arrival: once the peer is gone and the remainder is insufficient, the next
completed call of each decision function says so. -/
theorem c04_arrives :
    Arrives Gen.readWait ∧ Arrives Gen.readEof ∧ Arrives Gen.ncReadWait ∧
    Arrives Gen.ncReadEof ∧ Arrives Gen.writeWait :=
  ⟨arrives_of_complete _ (by decide), arrives_of_complete _ (by decide),
   arrives_of_complete _ (by decide), arrives_of_complete _ (by decide),
   arrives_of_complete _ (by decide)⟩

/-- Why the order matters (the defect repaired by the two `fix:` commits on
`wait_for_read` and `NCReadStream::eof`): amount-then-liveness is unsound. -/
theorem c04_amount_first_is_unsound : ¬ SoundReader [.avail, .alive] := unsound_availFirst

/-- After the writer has gone, every completed reader-side decision answers exactly `queued < need`, for every
request and independently of earlier requests on the same stream (a "never" for 10 samples with 3 queued is
followed by "go on" for a request of 3). The real streams are asked such sequences on one handle in every run
(`waits`), so a verdict remembered across calls is a mismatch. -/
theorem c04_exact_after_close (s : Sh) (sched : List (Option Env)) (need : Nat) (hd : s.peerAlive = false) :
    ((exec Gen.readWait s {} sched).2.2 = [] →
      verdict (exec Gen.readWait s {} sched).2.1 need = decide (s.avail < need)) ∧
    ((exec Gen.ncReadWait s {} sched).2.2 = [] →
      verdict (exec Gen.ncReadWait s {} sched).2.1 need = decide (s.avail < need)) ∧
    ((exec Gen.readEof s {} sched).2.2 = [] →
      verdict (exec Gen.readEof s {} sched).2.1 need = decide (s.avail < need)) :=
  ⟨exact_after_close _ (by decide) s sched need hd, exact_after_close _ (by decide) s sched need hd,
   exact_after_close _ (by decide) s sched need hd⟩

example : verdict (exec Gen.readWait ⟨3, false⟩ {} [none, none]).2.1 10 = true ∧
    verdict (exec Gen.readWait ⟨3, false⟩ {} [none, none]).2.1 3 = false := by decide

/-! Non-vacuity: the schedule that breaks the other order is harmless for the generated one. -/
example : (exec Gen.readWait ⟨0, true⟩ {} [none, some (.add 5), some .drop, none]).2.2 = [] := by decide
example : verdict (exec Gen.readWait ⟨0, true⟩ {} [none, some (.add 5), some .drop, none]).2.1 1 = false := by
  decide
example : verdict (exec Gen.readWait ⟨3, true⟩ {} [some .drop, none, none]).2.1 4 = true := by decide

end RR.Props.C04
