/-!
HDLC framing as the transmitter does it (ISO 13239 / AX.25): flag `01111110`,
bytes least-significant bit first, CRC-16/X.25 (reflected polynomial `0x8408`,
initial value and final xor `0xffff`, sent low byte first), a `0` stuffed after
every five consecutive `1`s.
-/
namespace RR.HdlcSpec

def flag : List Nat := [0, 1, 1, 1, 1, 1, 1, 0]

/-- one bit-serial step of the reflected CRC -/
def crcStep (x : Nat) : Nat := if x % 2 = 1 then (x >>> 1) ^^^ 0x8408 else x >>> 1

def crcStep8 (x : Nat) : Nat := crcStep (crcStep (crcStep (crcStep (crcStep (crcStep (crcStep (crcStep x)))))))

/-- CRC-16/X.25 by polynomial division, one byte at a time. -/
def crcBitwise (data : List Nat) : Nat :=
  (data.foldl (fun fcs byte => crcStep8 (fcs ^^^ byte)) 0xffff) ^^^ 0xffff

def byteBits (b : Nat) : List Nat := (List.range 8).map fun i => (b >>> i) % 2

def lsbBits (bytes : List Nat) : List Nat := bytes.flatMap byteBits

/-- Bit stuffing; `ones` = number of consecutive ones just sent. -/
def stuffFrom : Nat → List Nat → List Nat
  | _, [] => []
  | ones, b :: rest =>
    if b = 1 then
      if ones + 1 = 5 then 1 :: 0 :: stuffFrom 0 rest else 1 :: stuffFrom (ones + 1) rest
    else b :: stuffFrom 0 rest

def stuff (bits : List Nat) : List Nat := stuffFrom 0 bits

def le16 (x : Nat) : List Nat := [x % 256, x / 256]

/-- The bits on the air for payload `p` (one opening and one closing flag). -/
def frame (p : List Nat) : List Nat :=
  flag ++ stuff (lsbBits (p ++ le16 (crcBitwise p))) ++ flag

end RR.HdlcSpec
