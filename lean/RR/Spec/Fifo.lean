/-
Abstract specification of a stream: a FIFO of samples, each carrying the tags
(key, value) that were committed with it, in commit order.
-/
namespace RR.Fifo

abbrev KV := Nat × Nat
abbrev Q := List (Nat × List KV)

/-- A tag as the reader sees it: window-relative position, key, value. -/
structure RTag where
  pos : Nat
  key : Nat
  val : Nat
deriving DecidableEq, Repr

/-- Commit: the first `n` of the written samples, each with the tags whose
position names it, in the order given. `ts` are `(pos, key, val)`. -/
def enq (vals : List Nat) (n : Nat) (ts : List (Nat × Nat × Nat)) : Q :=
  (List.range n).map fun i =>
    (vals.getD i 0, (ts.filter fun t => t.1 == i).map fun t => (t.2.1, t.2.2))

def commit (q : Q) (vals : List Nat) (n : Nat) (ts : List (Nat × Nat × Nat)) : Q :=
  q ++ enq vals n ts

def consume (q : Q) (m : Nat) : Q := q.drop m

/-- What a reader is shown: samples … -/
def samples (q : Q) : List Nat := q.map (·.1)

/-- … and tags, by sample, each sample's tags in commit order. -/
def tags (q : Q) : List RTag :=
  (List.range q.length).flatMap fun i =>
    (q.getD i (0, [])).2.map fun kv => { pos := i, key := kv.1, val := kv.2 }

end RR.Fifo

namespace RR.Fifo

/-- Operations of the stream API, as a test program or a block performs them. -/
inductive Op where
  /-- acquire the write window, store `vals` at its front, commit the first `n` with tags -/
  | write (vals : List Nat) (n : Nat) (ts : List RTag)
  /-- acquire the write window (length `L`) and commit `L + 1 + extra` -/
  | overcommit (extra : Nat)
  /-- acquire the read window and look at it -/
  | read
  /-- consume `m` -/
  | consume (m : Nat)
  /-- free-space query -/
  | free
deriving Repr

inductive Obs where
  | ok
  | refused
  | badop
  | window (vals : List Nat) (tags : List RTag) (writable : Nat)
  | num (n : Nat)
deriving DecidableEq, Repr

/-- `n ≤ k`, and every tag is attached to one of the committed samples. -/
def Op.Valid : Op → Prop
  | .write vals n ts => n ≤ vals.length ∧ ∀ t ∈ ts, t.pos < n
  | _ => True

instance (op : Op) : Decidable op.Valid := by
  cases op <;> unfold Op.Valid <;> exact inferInstance

/-- One step of the specification. `none` = the stream refused and is dead. -/
def step (cap : Nat) (q : Q) : Op → Option Q × Obs
  | .write vals n ts =>
    if cap - q.length < vals.length then (none, .badop)
    else (some (commit q vals n (ts.map fun t => (t.pos, t.key, t.val))), .ok)
  | .overcommit _ => (none, .refused)
  | .read => (some q, .window (samples q) (tags q) (cap - q.length))
  | .consume m => if q.length < m then (none, .refused) else (some (consume q m), .ok)
  | .free => (some q, .num (cap - q.length))

def run (cap : Nat) (q : Q) : List Op → List Obs
  | [] => []
  | op :: ops =>
    match step cap q op with
    | (some q', o) => o :: run cap q' ops
    | (none, o) => [o]

end RR.Fifo
