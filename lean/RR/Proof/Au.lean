import RR.Model.Au
import RR.Proof.Codec

namespace RR.Au
open RR.Codec

theorem beBytes_length (n x : Nat) : (beBytes n x).length = n := by simp [beBytes, leBytes_length]

theorem ofBe_beBytes (n x : Nat) (h : x < 256 ^ n) : ofBeBytes (beBytes n x) = x := by
  simp [ofBeBytes, beBytes, ofLe_leBytes n x h]

theorem header_length (b : Nat) : (header b).length = 28 := by simp [header, beBytes_length]

theorem pairsBE_flatMap (vs : List Nat) (h : ∀ v ∈ vs, v < 65536) :
    pairsBE (vs.flatMap fun v => beBytes 2 v) = vs := by
  induction vs with
  | nil => rfl
  | cons v rest ih =>
    have hv := h v (by simp)
    simp only [List.flatMap_cons, beBytes, leBytes, List.reverse_cons, List.reverse_nil,
      List.nil_append, List.cons_append, pairsBE]
    have ih' := ih (fun x hx => h x (by simp [hx]))
    simp only [beBytes, leBytes, List.reverse_cons, List.reverse_nil, List.nil_append, List.cons_append] at ih'
    rw [ih']
    congr 1
    omega

/-- Decoding the encoder's output yields exactly the quantised samples: none
extra (no header bytes decoded as audio), none missing. -/
theorem decode_encode (bitrate : Nat) (hb : bitrate < 256 ^ 4) (q : Nat → Nat) (hq : ∀ x, q x < 65536)
    (xs : List Nat) : decode bitrate (encode bitrate q xs) = .ok (some (xs.map q)) := by
  have hlen : (header bitrate).length = 28 := header_length bitrate
  -- the header fields, read back
  have t4 : ∀ (a b : List Nat), a.length = 4 → (a ++ b).take 4 = a := fun a b h => by
    rw [List.take_append_of_le_length (by omega), List.take_of_length_le (by omega)]
  have d4 : ∀ (a b : List Nat), a.length = 4 → (a ++ b).drop 4 = b := fun a b h => List.drop_left' h
  unfold decode encode
  have hl : ¬ (header bitrate ++ xs.flatMap fun x => beBytes 2 (q x)).length < 4 := by
    rw [List.length_append, hlen]; omega
  have hl8 : ¬ (header bitrate ++ xs.flatMap fun x => beBytes 2 (q x)).length < 8 := by
    rw [List.length_append, hlen]; omega
  simp only [hl, hl8, if_false]
  unfold header
  simp only [List.append_assoc]
  rw [t4 _ _ (beBytes_length 4 _), ofBe_beBytes 4 magic (by decide)]
  simp only [ne_eq, not_true_eq_false, if_false]
  rw [d4 _ _ (beBytes_length 4 _), t4 _ _ (beBytes_length 4 _), ofBe_beBytes 4 28 (by decide)]
  have hl9 : ¬ (beBytes 4 magic ++ (beBytes 4 28 ++ (beBytes 4 0xffffffff ++ (beBytes 4 pcm16 ++
      (beBytes 4 bitrate ++ (beBytes 4 1 ++ ([0, 0, 0, 0] ++ xs.flatMap fun x => beBytes 2 (q x)))))))).length < 9 := by
    simp [beBytes_length]; omega
  simp only [hl9, show ¬ (28 < 24) by decide, if_false]
  have hlen2 : ¬ (beBytes 4 magic ++ (beBytes 4 28 ++ (beBytes 4 0xffffffff ++ (beBytes 4 pcm16 ++
      (beBytes 4 bitrate ++ (beBytes 4 1 ++ ([0, 0, 0, 0] ++ xs.flatMap fun x => beBytes 2 (q x)))))))).length < 28 := by
    simp [beBytes_length]; omega
  simp only [hlen2, if_false]
  have d8 : ∀ (a b c : List Nat), a.length = 4 → b.length = 4 → (a ++ (b ++ c)).drop 8 = c := by
    intro a b c ha hb'
    rw [← List.append_assoc, List.drop_left' (by simp [ha, hb'])]
  rw [d8 _ _ _ (beBytes_length 4 _) (beBytes_length 4 _)]
  -- head = the next 20 bytes
  have t20 : ∀ (a b c d e f : List Nat), a.length = 4 → b.length = 4 → c.length = 4 → d.length = 4 → e.length = 4 →
      (a ++ (b ++ (c ++ (d ++ (e ++ f))))).take 20 = a ++ (b ++ (c ++ (d ++ e))) := by
    intro a b c d e f ha hb' hc hd he
    have : a ++ (b ++ (c ++ (d ++ (e ++ f)))) = (a ++ (b ++ (c ++ (d ++ e)))) ++ f := by simp [List.append_assoc]
    rw [this, List.take_left' (by simp [ha, hb', hc, hd, he])]
  rw [show (28 - 8) = 20 by rfl, t20 _ _ _ _ _ _ (beBytes_length 4 _) (beBytes_length 4 _) (beBytes_length 4 _)
    (beBytes_length 4 _) (by rfl)]
  rw [d4 _ _ (beBytes_length 4 _), t4 _ _ (beBytes_length 4 _), ofBe_beBytes 4 pcm16 (by decide)]
  simp only [ne_eq, not_true_eq_false, if_false]
  have d8' : ∀ (a b c : List Nat), a.length = 4 → b.length = 4 → (a ++ (b ++ c)).drop 8 = c := d8
  rw [d8' _ _ _ (beBytes_length 4 _) (beBytes_length 4 _), t4 _ _ (beBytes_length 4 _), ofBe_beBytes 4 bitrate hb]
  simp only [not_true_eq_false, if_false]
  have d12 : ∀ (a b c d : List Nat), a.length = 4 → b.length = 4 → c.length = 4 → (a ++ (b ++ (c ++ d))).drop 12 = d := by
    intro a b c d ha hb' hc
    have : a ++ (b ++ (c ++ d)) = (a ++ (b ++ c)) ++ d := by simp [List.append_assoc]
    rw [this, List.drop_left' (by simp [ha, hb', hc])]
  rw [d12 _ _ _ _ (beBytes_length 4 _) (beBytes_length 4 _) (beBytes_length 4 _), t4 _ _ (beBytes_length 4 _),
    ofBe_beBytes 4 1 (by decide)]
  simp only [not_true_eq_false, if_false]
  -- the audio: everything after byte 28
  have d28 : (beBytes 4 magic ++ (beBytes 4 28 ++ (beBytes 4 0xffffffff ++ (beBytes 4 pcm16 ++
      (beBytes 4 bitrate ++ (beBytes 4 1 ++ ([0, 0, 0, 0] ++ xs.flatMap fun x => beBytes 2 (q x)))))))).drop 28 =
      xs.flatMap fun x => beBytes 2 (q x) := by
    have : ∀ t : List Nat, beBytes 4 magic ++ (beBytes 4 28 ++ (beBytes 4 0xffffffff ++ (beBytes 4 pcm16 ++
        (beBytes 4 bitrate ++ (beBytes 4 1 ++ ([0, 0, 0, 0] ++ t)))))) =
        (beBytes 4 magic ++ (beBytes 4 28 ++ (beBytes 4 0xffffffff ++ (beBytes 4 pcm16 ++
        (beBytes 4 bitrate ++ (beBytes 4 1 ++ [0, 0, 0, 0])))))) ++ t := by intro t; simp [List.append_assoc]
    rw [this, List.drop_left' (by simp [beBytes_length])]
  rw [d28]
  have : (xs.flatMap fun x => beBytes 2 (q x)) = (xs.map q).flatMap fun v => beBytes 2 v := by
    simp [List.flatMap_map]
  rw [this, pairsBE_flatMap _ (by intro v hv; obtain ⟨x, _, rfl⟩ := List.mem_map.mp hv; exact hq x)]

end RR.Au
