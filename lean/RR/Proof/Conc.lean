import RR.Model.Conc
import RR.Proof.Ring

/-! Invariant of the two-thread protocol, by induction over arbitrary schedules. -/
namespace RR.Conc
open RR RR.Ring

structure Inv (s : State) : Prop where
  cap_pos : 0 < s.ring.cap
  rpos_lt : s.ring.rpos < s.ring.cap
  used_le : s.ring.used ≤ s.ring.cap
  wpos_eq : s.ring.wpos = (s.ring.rpos + s.ring.used) % s.ring.cap
  hist_len : s.hist.length = s.consumed + s.ring.used
  mem_hist : ∀ i, i < s.ring.used →
    s.ring.mem ((s.ring.rpos + i) % s.ring.cap) = s.hist.getD (s.consumed + i) 0
  pw_ok : ∀ w, s.pw = some w → w.start = s.ring.wpos ∧ w.len ≤ Ring.free s.ring
  pr_ok : ∀ w, s.pr = some w → w.start = s.ring.rpos ∧ w.len ≤ s.ring.used

theorem inv_init {cap : Nat} (h : 0 < cap) : Inv (init cap) := by
  refine ⟨h, h, Nat.zero_le _, ?_, rfl, ?_, ?_, ?_⟩ <;> simp [init, Ring.init]

theorem produce_nil (r : Ring.State) (n : Nat) (h0 : n ≠ 0) (hf : n ≤ Ring.free r) :
    Ring.produce r n [] = some { r with wpos := (r.wpos + n) % r.cap, used := r.used + n } := by
  have h1 : ¬ Ring.free r < n := by omega
  have h2 : ¬ Ring.writeLen r < n := h1
  simp [Ring.produce, h0, h1, h2]

theorem consume_pos (r : Ring.State) (m : Nat) (h0 : m ≠ 0) (hm : m ≤ r.used) :
    Ring.consume r m = some { r with
      tags := fun c => if Ring.consumedCell r m c then [] else r.tags c
      rpos := (r.rpos + m) % r.cap, used := r.used - m } := by
  have : ¬ r.used < m := by omega
  simp [Ring.consume, this, h0]

/-- cells of the write window are offsets `used + i` from `rpos` -/
theorem wcell {s : State} (h : Inv s) (i : Nat) :
    (s.ring.wpos + i) % s.ring.cap = (s.ring.rpos + (s.ring.used + i)) % s.ring.cap := by
  rw [h.wpos_eq, Nat.mod_add_mod, Nat.add_assoc]

theorem inv_step {s : State} (h : Inv s) (st : Step) : Inv (step s st).1 := by
  have hc := h.cap_pos; have hr := h.rpos_lt; have hu := h.used_le
  cases st with
  | acqW =>
    simp only [step]
    split
    · exact h
    · refine ⟨hc, hr, hu, h.wpos_eq, h.hist_len, h.mem_hist, ?_, h.pr_ok⟩
      intro w hw; simp at hw; subst hw; exact ⟨rfl, Nat.le_refl _⟩
  | put i v =>
    simp only [step]
    split
    · rename_i w hw
      split
      · rename_i hi
        obtain ⟨hs, hl⟩ := h.pw_ok w hw
        unfold Ring.free at hl
        refine ⟨hc, hr, hu, h.wpos_eq, h.hist_len, ?_, h.pw_ok, h.pr_ok⟩
        intro j hj
        change j < s.ring.used at hj
        show (if (s.ring.rpos + j) % s.ring.cap = cellOf s w i then v else _) = _
        have : ¬ (s.ring.rpos + j) % s.ring.cap = cellOf s w i := by
          unfold cellOf; rw [hs, wcell h]
          intro e
          have := cell_inj hr (by omega) (by omega) e
          omega
        rw [if_neg this]; exact h.mem_hist j hj
      · exact h
    · exact h
  | commit n =>
    simp only [step]
    split
    · rename_i w hw
      obtain ⟨hs, hl⟩ := h.pw_ok w hw
      split
      · rename_i hn
        by_cases h0 : n = 0
        · subst h0
          simp only [Ring.produce, if_true]
          refine ⟨hc, hr, hu, h.wpos_eq, by simpa using h.hist_len, ?_, by simp, h.pr_ok⟩
          simpa using h.mem_hist
        · rw [produce_nil _ _ h0 (by omega)]
          unfold Ring.free at hl
          refine ⟨hc, hr, by show s.ring.used + n ≤ s.ring.cap; omega, ?_, ?_, ?_, by simp, ?_⟩
          · show (s.ring.wpos + n) % s.ring.cap = (s.ring.rpos + (s.ring.used + n)) % s.ring.cap
            exact wcell h n
          · show (s.hist ++ _).length = s.consumed + (s.ring.used + n)
            simp [h.hist_len]; omega
          · intro i hi
            change i < s.ring.used + n at hi
            show s.ring.mem ((s.ring.rpos + i) % s.ring.cap) = (s.hist ++ _).getD (s.consumed + i) 0
            rw [List.getD_eq_getElem?_getD]
            by_cases h1 : i < s.ring.used
            · rw [List.getElem?_append_left (by rw [h.hist_len]; omega), h.mem_hist i h1,
                List.getD_eq_getElem?_getD]
            · rw [List.getElem?_append_right (by rw [h.hist_len]; omega), h.hist_len]
              have e : s.consumed + i - (s.consumed + s.ring.used) = i - s.ring.used := by omega
              have hlt : i - s.ring.used < n := by omega
              simp only [e, List.getElem?_map, List.getElem?_range hlt, Option.map_some,
                Option.getD_some, cellOf, hs]
              rw [wcell h]; congr 2; omega
          · intro r hrr
            obtain ⟨a, b⟩ := h.pr_ok r hrr
            exact ⟨a, by show r.len ≤ s.ring.used + n; omega⟩
      · exact h
    · exact h
  | acqR =>
    simp only [step]
    split
    · exact h
    · refine ⟨hc, hr, hu, h.wpos_eq, h.hist_len, h.mem_hist, h.pw_ok, ?_⟩
      intro w hw; simp at hw; subst hw; exact ⟨rfl, Nat.le_refl _⟩
  | get j =>
    simp only [step]
    split
    · split <;> exact h
    · exact h
  | consume m =>
    simp only [step]
    split
    · rename_i w hw
      obtain ⟨hs, hl⟩ := h.pr_ok w hw
      split
      · rename_i hm
        by_cases h0 : m = 0
        · subst h0
          have : Ring.consume s.ring 0 = some s.ring := by simp [Ring.consume]
          rw [this]
          exact ⟨hc, hr, hu, h.wpos_eq, h.hist_len, h.mem_hist, h.pw_ok, by simp⟩
        · rw [consume_pos _ _ h0 (by omega)]
          have shift : ∀ i, ((s.ring.rpos + m) % s.ring.cap + i) % s.ring.cap =
              (s.ring.rpos + (m + i)) % s.ring.cap := by
            intro i; rw [Nat.mod_add_mod, Nat.add_assoc]
          refine ⟨hc, Nat.mod_lt _ hc, by show s.ring.used - m ≤ s.ring.cap; omega, ?_, ?_, ?_, ?_, by simp⟩
          · show s.ring.wpos = ((s.ring.rpos + m) % s.ring.cap + (s.ring.used - m)) % s.ring.cap
            rw [shift, h.wpos_eq]; congr 2; omega
          · show s.hist.length = s.consumed + m + (s.ring.used - m)
            rw [h.hist_len]; omega
          · intro i hi
            change i < s.ring.used - m at hi
            show s.ring.mem (((s.ring.rpos + m) % s.ring.cap + i) % s.ring.cap) =
              s.hist.getD (s.consumed + m + i) 0
            rw [shift, h.mem_hist (m + i) (by omega), Nat.add_assoc]
          · intro pw hpw
            obtain ⟨a, b⟩ := h.pw_ok pw hpw
            unfold Ring.free at b ⊢
            exact ⟨a, by show pw.len ≤ s.ring.cap - (s.ring.used - m); omega⟩
      · exact h
    · exact h
  | peek => exact h

theorem inv_run {s : State} (h : Inv s) (sched : List Step) : Inv (run s sched) := by
  induction sched generalizing s with
  | nil => exact h
  | cons st rest ih => exact ih (inv_step h st)

end RR.Conc
