import RR.Model.Tcp
import RR.Proof.Codec

/-!
`TcpSource`'s carry-buffer code computes the ideal reassembly (`feed`): for every
partial sample held and every non-empty read, the samples pushed are the whole
samples of `buf ++ chunk` and the new buffer is the remainder.
-/
namespace RR.Codec

theorem parseAll_one (t : Ty) (a : List Nat) (h : a.length = t.size) : parseAll t a = (parse t a).toList := by
  have hs := size_pos t
  rw [parseAll]
  have h1 : ¬ a.length < t.size := by omega
  simp only [Nat.ne_of_gt hs, dite_false, h1, if_false]
  have : a.take t.size = a := by rw [← h]; exact List.take_length
  rw [this, parseAll_short t _ (by simp [h, hs])]
  simp

theorem tcp_refines_feed (t : Ty) (buf chunk : List Nat) (hb : buf.length < t.size) (hc : chunk ≠ []) :
    tcpStep t buf chunk = feed t buf chunk := by
  have hs := size_pos t
  have hn : 0 < chunk.length := List.length_pos_iff.mpr hc
  by_cases hbe : buf = []
  · -- nothing carried over
    subst hbe
    simp only [tcpStep, feed, List.isEmpty_nil, if_true, Bool.not_true, Bool.false_and, Bool.false_eq_true, if_false,
      Nat.sub_zero, List.drop_zero, List.nil_append, hn]
    have hw : chunk.length / t.size * t.size = chunk.length - chunk.length % t.size := by
      have := Nat.div_add_mod chunk.length t.size
      rw [Nat.mul_comm] at this; omega
    rw [hw]
  · have hbne : buf.isEmpty = false := by cases buf <;> simp_all
    have hbpos : 0 < buf.length := List.length_pos_iff.mpr hbe
    simp only [tcpStep, feed, hbne, Bool.false_eq_true, if_false, Bool.not_false, Bool.true_and]
    by_cases hshort : chunk.length < t.size - buf.length
    · -- the read does not complete the partial sample
      have hst : min (t.size - buf.length) chunk.length = chunk.length := by omega
      have hlen : (buf ++ chunk).length < t.size := by simp; omega
      have hq : (buf ++ chunk).length / t.size = 0 := Nat.div_eq_of_lt hlen
      simp only [hst, List.take_length, Nat.sub_self, Nat.zero_mod, Nat.sub_zero, List.take_zero, Nat.lt_irrefl, if_false,
        hq, Nat.zero_mul, List.drop_zero]
      have hne : ((buf ++ chunk).length == t.size) = false := by
        simp only [beq_eq_false_iff_ne, ne_eq]; omega
      simp only [hne, Bool.false_eq_true, if_false, List.nil_append]
      try rw [parseAll_short t [] (by simpa using hs)]
    · -- the read completes it: `steal` bytes, then whole samples, then a new remainder
      generalize hsd : t.size - buf.length = s at *
      have hst : min s chunk.length = s := by omega
      have hb1 : (buf ++ chunk.take s).length = t.size := by
        simp only [List.length_append, List.length_take]; omega
      have hcond : ((buf ++ chunk.take s).length == t.size) = true := by simp [hb1]
      simp only [hst, hcond, if_true, List.nil_append]
      generalize hrem : (chunk.length - s) % t.size = rem
      have hremlt : rem < t.size := by rw [← hrem]; exact Nat.mod_lt _ hs
      have hremle : rem ≤ chunk.length - s := by rw [← hrem]; exact Nat.mod_le _ _
      -- whole = size + (n - s) - rem
      have hall : (buf ++ chunk).length = t.size + (chunk.length - s) := by simp; omega
      have hwhole : (buf ++ chunk).length / t.size * t.size = t.size + (chunk.length - s - rem) := by
        rw [hall]
        have := Nat.div_add_mod (chunk.length - s) t.size
        rw [hrem] at this
        have e : t.size + (chunk.length - s) = (1 + (chunk.length - s) / t.size) * t.size + rem := by
          rw [Nat.add_mul, Nat.one_mul, Nat.mul_comm ((chunk.length - s) / t.size)]; omega
        rw [e, Nat.add_comm _ rem, Nat.add_mul_div_right _ _ hs, Nat.div_eq_of_lt hremlt, Nat.zero_add,
          Nat.add_mul, Nat.one_mul, Nat.mul_comm ((chunk.length - s) / t.size)]
        omega
      rw [hwhole]
      have htake : (buf ++ chunk).take (t.size + (chunk.length - s - rem)) =
          (buf ++ chunk.take s) ++ (chunk.drop s).take (chunk.length - rem - s) := by
        rw [List.take_append]
        have e1 : buf.take (t.size + (chunk.length - s - rem)) = buf := List.take_of_length_le (by omega)
        rw [e1, List.append_assoc]
        congr 1
        have e2 : t.size + (chunk.length - s - rem) - buf.length = s + (chunk.length - rem - s) := by omega
        rw [e2, List.take_add]
      have hdrop : (buf ++ chunk).drop (t.size + (chunk.length - s - rem)) = chunk.drop (chunk.length - rem) := by
        rw [List.drop_append]
        have e1 : buf.drop (t.size + (chunk.length - s - rem)) = [] := List.drop_eq_nil_of_le (by omega)
        rw [e1, List.nil_append]
        congr 1
        omega
      rw [htake, hdrop, parseAll_append t _ _ 1 (by rw [hb1]; simp), parseAll_one t _ hb1]
      congr 1
      by_cases hlt : s < chunk.length
      · simp [hlt]
      · have : chunk.length = s := by omega
        have hr0 : rem = 0 := by rw [← hrem, this]; simp
        simp only [hlt, if_false, hr0, Nat.sub_zero]
        rw [List.drop_eq_nil_of_le (Nat.le_refl _)]

/-- **TcpSource, every sequence of reads**: the samples pushed (concatenated over the calls) are the whole
samples of all bytes read so far, in order, and fewer than one sample's bytes are held back. -/
theorem tcpAll_spec (t : Ty) (buf : List Nat) (chunks : List (List Nat)) (hb : buf.length < t.size)
    (hne : ∀ c ∈ chunks, c ≠ []) :
    ((tcpAll t buf chunks).1, (tcpAll t buf chunks).2.flatten) = feedAll t buf chunks ∧
    (tcpAll t buf chunks).1.length < t.size := by
  induction chunks generalizing buf with
  | nil => exact ⟨rfl, hb⟩
  | cons c rest ih =>
    have hc : c ≠ [] := hne c (by simp)
    have hstep := tcp_refines_feed t buf c hb hc
    have hfb : (feed t buf c).1.length < t.size := by
      have := (feedAll_spec t buf [c] hb).2.2
      simpa [feedAll] using this
    simp only [tcpAll, feedAll, hstep]
    obtain ⟨i1, i2⟩ := ih (feed t buf c).1 hfb (fun x hx => hne x (by simp [hx]))
    refine ⟨?_, i2⟩
    have e1 := congrArg Prod.fst i1
    have e2 := congrArg Prod.snd i1
    simp only at e1 e2
    simp only [List.flatten_cons]
    rw [← e1, ← e2]

end RR.Codec
