import RR.Proof.DspOla
import RR.Proof.Hand
import Mathlib.Tactic.Set

/-!
`FftFilter::work` for every chunking: however the input arrives and however much
output space there is at each call, the block has emitted exactly the first `B`
overlap-add batches (`olaOut B`) when `B·S + |buf|` samples have been consumed,
its buffer holding the samples of the unfinished batch and its tail the carry of
batch `B`. With `c11_ola_eq_conv` this makes the block's output the linear
convolution of its input, for every schedule (any arithmetic for the first part).
-/
namespace RR.Dsp
open RR.Blk

variable {α : Type}

/-- carried tail before batch `B` -/
def olaTail (o : Ops α) (taps : List α) (S : Nat) (X : List α) : Nat → List α
  | 0 => List.replicate taps.length o.zero
  | B + 1 => (fftBatch o taps ((X.drop (B * S)).take S) (olaTail o taps S X B)).2

/-- output of the first `B` batches -/
def olaOut (o : Ops α) (taps : List α) (S : Nat) (X : List α) : Nat → List α
  | 0 => []
  | B + 1 => olaOut o taps S X B ++ (fftBatch o taps ((X.drop (B * S)).take S) (olaTail o taps S X B)).1

theorem olaOut_add (o : Ops α) (taps : List α) (S : Nat) (X : List α) (B : Nat) :
    ∀ b, olaOut o taps S X (b + B) = olaOut o taps S X b ++ olaRun o taps S X B b (olaTail o taps S X b) := by
  induction B with
  | zero => intro b; simp [olaRun]
  | succ B ih =>
    intro b
    have : b + (B + 1) = (b + 1) + B := by omega
    rw [this, ih (b + 1)]
    simp only [olaOut, olaRun, olaTail, List.append_assoc]

theorem olaRun_eq_olaOut (o : Ops α) (taps : List α) (S : Nat) (X : List α) (B : Nat) :
    olaRun o taps S X B 0 (List.replicate taps.length o.zero) = olaOut o taps S X B := by
  have := olaOut_add o taps S X B 0
  simpa [olaOut, olaTail] using this.symm

theorem fftBatch_fst_length (o : Ops α) (taps buf tail : List α) :
    (fftBatch o taps buf tail).1.length = calcFftSize taps.length - taps.length := by
  simp only [fftBatch, List.length_take, List.length_map, List.length_range]
  omega

/-- what the block's state says about the stream after `c` consumed samples -/
def FftInv (o : Ops α) (cd : Codec α) (taps : List α) (Xn : List Nat) (st : FftSt α) (c : Nat) (out : List Nat) : Prop :=
  let S := calcFftSize taps.length - taps.length
  let Xd := Xn.map cd.dec
  ∃ B, c = B * S + st.buf.length ∧ c ≤ Xn.length ∧ st.buf.length < S ∧
    st.buf = (Xd.drop (B * S)).take st.buf.length ∧ st.tail = olaTail o taps S Xd B ∧
    out = (olaOut o taps S Xd B).map cd.enc

theorem take_append_take (l : List α) (i k m : Nat) :
    (l.drop i).take k ++ (l.drop (i + k)).take m = (l.drop i).take (k + m) := by
  rw [List.take_add, List.drop_drop]

/-- **The loop of one `work()` call preserves the stream invariant.** -/
theorem fftLoop_inv (o : Ops α) (cd : Codec α) (taps : List α) (Xn : List Nat) (c a free : Nat)
    (hS : 0 < calcFftSize taps.length - taps.length) (out0 : List Nat) :
    ∀ (fuel : Nat) (st : FftSt α) (pos : Nat) (outp : List Nat) (otags : List Tag),
      pos ≤ ((Xn.drop c).take a).length → outp.length ≤ free →
      FftInv o cd taps Xn st (c + pos) (out0 ++ outp) →
      FftInv o cd taps Xn (fftLoop o cd taps ⟨(Xn.drop c).take a, [], true⟩ free fuel st pos outp otags).1
        (c + (fftLoop o cd taps ⟨(Xn.drop c).take a, [], true⟩ free fuel st pos outp otags).2.1)
        (out0 ++ (fftLoop o cd taps ⟨(Xn.drop c).take a, [], true⟩ free fuel st pos outp otags).2.2.1) ∧
      (fftLoop o cd taps ⟨(Xn.drop c).take a, [], true⟩ free fuel st pos outp otags).2.1 ≤ ((Xn.drop c).take a).length ∧
      (fftLoop o cd taps ⟨(Xn.drop c).take a, [], true⟩ free fuel st pos outp otags).2.2.1.length ≤ free := by
  intro fuel
  induction fuel with
  | zero => intro st pos outp otags h1 h2 h3; exact ⟨h3, h1, h2⟩
  | succ f ih =>
    intro st pos outp otags h1 h2 h3
    generalize hw : (Xn.drop c).take a = w at h1 ih ⊢
    have hwlen : c + w.length ≤ Xn.length ∨ w.length = 0 := by
      rw [← hw]; simp only [List.length_take, List.length_drop]; omega
    simp only [fftLoop]
    generalize hSdef : calcFftSize taps.length - taps.length = S at hS h3 ih ⊢
    by_cases hfree : S > free - outp.length
    · rw [if_pos hfree]; exact ⟨h3, h1, h2⟩
    · rw [if_neg hfree]
      obtain ⟨B, e1, e2, e3, e4, e5, e6⟩ := h3
      rw [hSdef] at e1 e3 e4 e5 e6
      generalize hadd : min (w.length - pos) (S - st.buf.length) = add
      have hadd1 : add ≤ w.length - pos := by rw [← hadd]; exact Nat.min_le_left _ _
      have hadd2 : add ≤ S - st.buf.length := by rw [← hadd]; exact Nat.min_le_right _ _
      have hadd3 : add = w.length - pos ∨ add = S - st.buf.length := by rw [← hadd]; omega
      -- the samples taken in this iteration are the next `add` samples of the stream
      have hslice : (w.drop pos).take add = (Xn.drop (c + pos)).take add := by
        rw [← hw, List.drop_take, List.take_take, List.drop_drop]
        congr 1
        rw [← hw] at hadd1
        simp only [List.length_take, List.length_drop] at hadd1 ⊢
        omega
      have hlen : (st.buf ++ ((w.drop pos).take add).map cd.dec).length = st.buf.length + add := by
        simp only [List.length_append, List.length_map, List.length_take, List.length_drop]
        omega
      have hbuf : st.buf ++ ((w.drop pos).take add).map cd.dec =
          ((Xn.map cd.dec).drop (B * S)).take (st.buf.length + add) := by
        rw [hslice, List.map_take, List.map_drop, e1]
        conv_lhs => arg 1; rw [e4]
        exact take_append_take (Xn.map cd.dec) (B * S) st.buf.length add
      by_cases hshort : (st.buf ++ ((w.drop pos).take add).map cd.dec).length < S
      · rw [if_pos hshort]
        dsimp only
        refine ⟨⟨B, ?_, ?_, ?_, ?_, ?_, ?_⟩, by omega, h2⟩
        · dsimp only; rw [hlen, hSdef]; omega
        · rcases hwlen with h | h <;> omega
        · dsimp only; rw [hSdef]; exact hshort
        · dsimp only; rw [hSdef, hlen, hbuf]
        · dsimp only; rw [hSdef]; exact e5
        · rw [hSdef]; exact e6
      · rw [if_neg hshort]
        have hlenS : st.buf.length + add = S := by rw [hlen] at hshort; omega
        have hbufS : st.buf ++ ((w.drop pos).take add).map cd.dec = ((Xn.map cd.dec).drop (B * S)).take S := by
          rw [hbuf, hlenS]
        rw [hbufS, e5]
        have hys := fftBatch_fst_length o taps (((Xn.map cd.dec).drop (B * S)).take S)
          (olaTail o taps S (Xn.map cd.dec) B)
        rw [hSdef] at hys
        apply ih
        · omega
        · simp only [List.length_append, List.length_map, hys]; omega
        · refine ⟨B + 1, ?_, ?_, ?_, ?_, ?_, ?_⟩
          · dsimp only [List.length_nil]; rw [hSdef, Nat.succ_mul]; omega
          · rcases hwlen with h | h <;> omega
          · dsimp only [List.length_nil]; rw [hSdef]; exact hS
          · simp
          · dsimp only; rw [hSdef]; rfl
          · rw [hSdef, ← List.append_assoc, e6]; simp [olaOut, List.map_append]

/-- **FftFilter, any chunking.** -/
theorem fft_drive (o : Ops α) (cd : Codec α) (taps : List α) (Xn : List Nat)
    (hS : 0 < calcFftSize taps.length - taps.length) (sched : List (Nat × Nat)) :
    ∀ (st : FftSt α) (c : Nat) (out : List Nat), FftInv o cd taps Xn st c out →
      let r := drive1 (fftBlock o cd taps) Xn st c out sched
      FftInv o cd taps Xn r.1 r.2.1 r.2.2 := by
  induction sched with
  | nil => intro st c out h; exact h
  | cons af rest ih =>
    intro st c out h
    obtain ⟨a, f⟩ := af
    simp only [drive1, fftBlock, fftWork, in0, out0, List.getD_cons_zero]
    apply ih
    have := fftLoop_inv o cd taps Xn c a f hS out (((Xn.drop c).take a).length + 2) st 0 [] []
      (by omega) (by simp) (by simpa using h)
    simpa using this.1

/-- the initial state satisfies the invariant -/
theorem fft_init (o : Ops α) (cd : Codec α) (taps : List α) (Xn : List Nat)
    (hS : 0 < calcFftSize taps.length - taps.length) :
    FftInv o cd taps Xn ⟨[], [], List.replicate taps.length o.zero⟩ 0 [] :=
  ⟨0, by simp, by simp, by simpa using hS, by simp, by simp [olaTail], by simp [olaOut]⟩

end RR.Dsp
