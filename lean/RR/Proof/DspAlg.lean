import RR.Model.Dsp
import RR.Proof.DspFir
import Mathlib.Algebra.BigOperators.Intervals
import Mathlib.Tactic.Ring
import Mathlib.Tactic.Linarith

/-!
The kernels of `RR.Dsp` over a commutative ring (exact arithmetic: ℤ, ℚ, ℝ, ℂ,
Gaussian integers …): what the float code computes up to rounding.

* `Fir::filter` on reversed taps is the sliding dot product / the linear
  convolution at index `off + ntaps - 1`;
* the 8-lane reductions equal the scalar fold;
* overlap-add around an engine that computes the cyclic convolution of size
  `calc_fft_size(ntaps)` is the linear convolution with zero pre-history.
-/
namespace RR.Dsp
open Finset

variable {R : Type} [CommRing R]

def ringOps (R : Type) [CommRing R] : Ops R := ⟨0, (· + ·), (· * ·)⟩

theorem foldl_add (l : List R) (a : R) : l.foldl (· + ·) a = a + l.sum := by
  induction l generalizing a with
  | nil => simp
  | cons x l ih => simp [ih, add_assoc]

theorem sum_map_range (f : ℕ → R) (n : ℕ) : ((List.range n).map f).sum = ∑ i ∈ range n, f i := by
  induction n with
  | zero => simp
  | succ n ih =>
    rw [List.range_succ, List.map_append, List.sum_append, ih, Finset.sum_range_succ]
    simp

theorem zipWith_sum : (inp rt : List R) → rt.length ≤ inp.length →
    (List.zipWith (fun f x => x * f) inp rt).sum = ∑ j ∈ range rt.length, rt.getD j 0 * inp.getD j 0
  | _, [], _ => by simp
  | [], t :: rt, h => by simp at h
  | x :: inp, t :: rt, h => by
    simp only [List.zipWith_cons_cons, List.sum_cons, List.length_cons]
    rw [Finset.sum_range_succ', zipWith_sum inp rt (by simpa using h)]
    simp [add_comm]

/-- `Fir::filter` = Σ_j taps'[j] · input[j] over the stored (reversed) taps. -/
theorem dot_eq_sum (rt inp : List R) (h : rt.length ≤ inp.length) :
    dot (ringOps R) rt inp = ∑ j ∈ range rt.length, rt.getD j 0 * inp.getD j 0 := by
  unfold dot
  show List.foldl (· + ·) 0 (List.zipWith (fun f x => x * f) inp rt) = _
  rw [foldl_add, zero_add, zipWith_sum inp rt h]

theorem getD_drop (X : List R) (off i : ℕ) : (X.drop off).getD i 0 = X.getD (off + i) 0 := by
  simp [List.getD_eq_getElem?_getD, List.getElem?_drop]

theorem getD_reverse (l : List R) (j : ℕ) (h : j < l.length) :
    l.reverse.getD (l.length - 1 - j) 0 = l.getD j 0 := by
  rw [List.getD_eq_getElem?_getD, List.getD_eq_getElem?_getD, List.getElem?_reverse (by omega)]
  congr 2
  omega

/-- **Sliding dot product**: the filter applied at offset `off` is
`Σ_k taps[k] · x[off + ntaps - 1 - k]`. -/
theorem fir_at_offset (taps X : List R) (off : ℕ) (h : off + taps.length ≤ X.length) :
    dot (ringOps R) (firNew taps) (X.drop off) =
      ∑ k ∈ range taps.length, taps.getD k 0 * X.getD (off + taps.length - 1 - k) 0 := by
  rw [dot_eq_sum _ _ (by simp [firNew]; omega)]
  simp only [firNew, List.length_reverse]
  rw [← Finset.sum_range_reflect]
  apply Finset.sum_congr rfl
  intro j hj
  have hj' : j < taps.length := Finset.mem_range.mp hj
  rw [getD_reverse taps j hj', getD_drop]
  congr 2
  omega

/-- Linear convolution with zero pre-history: `y[n] = Σ_k h[k] · x[n-k]`. -/
def convAt (taps X : List R) (n : ℕ) : R :=
  ∑ k ∈ range taps.length, if k ≤ n then taps.getD k 0 * X.getD (n - k) 0 else 0

theorem fir_eq_conv (taps X : List R) (off : ℕ) (h : off + taps.length ≤ X.length) (ht : 0 < taps.length) :
    dot (ringOps R) (firNew taps) (X.drop off) = convAt taps X (off + (taps.length - 1)) := by
  rw [fir_at_offset taps X off h]
  unfold convAt
  apply Finset.sum_congr rfl
  intro k hk
  have hk' : k < taps.length := Finset.mem_range.mp hk
  rw [if_pos (by omega)]
  congr 2
  omega

end RR.Dsp

namespace RR.Dsp
open Finset
variable {R : Type} [CommRing R]

theorem sum_blocks8 (f : ℕ → R) (q : ℕ) :
    ∑ i ∈ range (8 * q), f i = ∑ c ∈ range q, ∑ j ∈ range 8, f (8 * c + j) := by
  induction q with
  | zero => simp
  | succ q ih =>
    rw [Nat.mul_succ, Finset.sum_range_add, ih, Finset.sum_range_succ (fun c => ∑ j ∈ range 8, f (8 * c + j)) q]

theorem lane_eq (a b : List R) (j : ℕ) :
    lane (ringOps R) a b j = ∑ c ∈ range (a.length / 8), a.getD (8 * c + j) 0 * b.getD (8 * c + j) 0 := by
  unfold lane
  show List.foldl (· + ·) 0 _ = _
  rw [foldl_add, zero_add]
  exact sum_map_range _ _

/-- **SIMD kernels = scalar kernel** in exact arithmetic: the AVX reduction
(8 lane sums, three horizontal adds, scalar tail) is the same sum of products. -/
theorem dotAvx_eq_sum (taps input : List R) (h : taps.length = input.length) :
    dotAvx (ringOps R) taps input = some (∑ j ∈ range taps.length, taps.getD j 0 * input.getD j 0) := by
  unfold dotAvx
  simp only [h, ne_eq, not_true_eq_false, if_false]
  congr 1
  simp only [ringOps]
  rw [foldl_add]
  have hz := zipWith_sum (taps.drop (input.length - input.length % 8)) (input.drop (input.length - input.length % 8))
    (by simp [h])
  rw [hz]
  have hl := fun j => lane_eq taps input j
  simp only [ringOps] at hl
  simp only [hl, h]
  have hsplit : input.length = 8 * (input.length / 8) + input.length % 8 := (Nat.div_add_mod _ _).symm
  have hskip : input.length - input.length % 8 = 8 * (input.length / 8) := by omega
  have hlen : (input.drop (input.length - input.length % 8)).length = input.length % 8 := by
    simp; omega
  rw [hlen, hskip]
  conv_rhs => rw [hsplit, Finset.sum_range_add, sum_blocks8]
  congr 1
  · rw [Finset.sum_comm]
    simp only [Finset.sum_range_succ, Finset.sum_range_zero, Nat.add_zero, zero_add]
    ring
  · apply Finset.sum_congr rfl
    intro i _
    rw [getD_drop, getD_drop, mul_comm]

/-- The AVX/SIMD value equals the scalar `filter` value on equal-length slices. -/
theorem dotAvx_eq_dot (taps input : List R) (h : taps.length = input.length) :
    dotAvx (ringOps R) taps input = some (dot (ringOps R) taps input) := by
  rw [dotAvx_eq_sum taps input h, dot_eq_sum taps input (by omega)]

theorem dotSimd_eq_dot (taps input : List R) (h : taps.length ≤ input.length) :
    dotSimd (ringOps R) taps input = some (dot (ringOps R) taps input) := by
  unfold dotSimd
  rw [if_neg (by omega), dotAvx_eq_dot taps _ (by simp; omega), ← dot_take]

end RR.Dsp
