import RR.Proof.TagDrive

/-!
`Hilbert::work` for every schedule: with `Z` = `ntaps` zeros followed by the
(decoded) input, after `c` consumed samples the block has emitted, for every
`j < c`, the pair (`Z[j + ntaps/2]`, kernel(taps, `Z[j .. j+ntaps]`)) — the
delayed input next to the filter output — whatever the read windows and the
output space were; and every input tag arrives once, at the same index.
-/
namespace RR.Dsp
open RR RR.Blk

variable {α : Type}

/-- zero pre-history, then the decoded input -/
def hilZ (o : Ops α) (cd : Codec α) (nt : Nat) (X : List Nat) : List α := List.replicate nt o.zero ++ X.map cd.dec

/-- output sample `j` -/
def hilOut (o : Ops α) (cd : Codec α) (pair : α → α → Nat) (k : List α → List α → α) (rt : List α) (X : List Nat) (j : Nat) : Nat :=
  let Z := hilZ o cd rt.length X
  pair (Z.getD (j + rt.length / 2) o.zero) (k rt ((Z.drop j).take rt.length))

theorem mapM_some {β γ : Type} (f : β → γ) (l : List β) : l.mapM (fun x => some (f x)) = some (l.map f) := by
  induction l with
  | nil => rfl
  | cons x xs ih => simp [List.mapM_cons, ih]

/-- **One call** (the kernel is total: `kernel a b = some (k a b)`). -/
theorem hilbert_step (o : Ops α) (cd : Codec α) (pair : α → α → Nat) (k : List α → List α → α) (rt : List α)
    (hnt : 0 < rt.length) (X : List Nat) (c a f : Nat) (hc : c ≤ X.length) (ts : List Tag) (w : List Nat)
    (hwX : w = (X.drop c).take a) :
    let Z := hilZ o cd rt.length X
    let r := hilbertWork o cd pair (fun p q => some (k p q)) rt ((Z.drop c).take rt.length) ⟨[⟨w, ts, true⟩], [⟨f, true⟩]⟩
    let n := r.2.consumed.getD 0 0
    n = (if w = [] ∨ f = 0 then 0 else min w.length f) ∧
    r.1 = (Z.drop (c + n)).take rt.length ∧
    (r.2.produced.getD 0 ⟨[], []⟩).samples = (List.range n).map (fun i => hilOut o cd pair k rt X (c + i)) ∧
    (r.2.produced.getD 0 ⟨[], []⟩).tags = ts.filter (fun t => decide (t.pos < n)) ∧
    r.2.verdict ≠ .panic := by
  intro Z r n
  have hZlen : Z.length = rt.length + X.length := by simp [Z, hilZ]
  have hhist : ((Z.drop c).take rt.length).length = rt.length := by
    rw [List.length_take, List.length_drop, hZlen]; omega
  have hnil : ∀ l : List Tag, (l.filter fun t => decide (t.pos < 0)) = [] := by
    intro l; rw [List.filter_eq_nil_iff]; intro t _; simp
  simp only [r, n, hilbertWork, in0, out0, noOut, List.getD_cons_zero]
  by_cases hw : w = []
  · simp [hw, hnil]
  · have hwe : w.isEmpty = false := by cases w <;> simp_all
    by_cases hf : f = 0
    · simp [hwe, hf, hnil, hw]
    · have hfb : (f == 0) = false := by simpa using hf
      simp only [hwe, hfb, Bool.false_eq_true, if_false, hhist, Nat.add_sub_cancel_left]
      have hwpos : 0 < w.length := List.length_pos_iff.mpr hw
      have hmin : min w.length f ≠ 0 := by omega
      have hmb : (min w.length f == 0) = false := by simpa using hmin
      simp only [hmb, Bool.false_eq_true, if_false, Option.map_some, mapM_some, List.getD_cons_zero, hw, false_or, hf]
      generalize hm : min w.length f = m at *
      have hmw : m ≤ w.length := by rw [← hm]; exact Nat.min_le_left _ _
      have hwl : w.length ≤ X.length - c := by
        rw [hwX]
        simp only [List.length_take, List.length_drop]; omega
      -- iv = the next ntaps + m elements of Z
      have hiv : (Z.drop c).take rt.length ++ (w.take m).map cd.dec = (Z.drop c).take (rt.length + m) := by
        rw [List.take_add]
        congr 1
        have hz : (Z.drop c).drop rt.length = (X.drop c).map cd.dec := by
          rw [List.drop_drop]
          show (List.replicate rt.length o.zero ++ X.map cd.dec).drop (c + rt.length) = _
          rw [List.drop_append]
          simp only [List.length_replicate]
          rw [List.drop_eq_nil_of_le (by simp), List.nil_append, show c + rt.length - rt.length = c by omega, List.map_drop]
        rw [hz, ← List.map_take]
        congr 1
        have hwa : w.length ≤ a := by
          rw [hwX]
          simp only [List.length_take]; omega
        rw [hwX, List.take_take]
        congr 1
        omega
      rw [hiv]
      refine ⟨trivial, ?_, ?_, trivial, by simp⟩
      · rw [List.drop_take, List.drop_drop, List.take_take]
        congr 1
        omega
      · apply List.map_congr_left
        intro i hi
        simp only [List.mem_range] at hi
        simp only [hilOut]
        congr 1
        · rw [List.getD_eq_getElem?_getD, List.getD_eq_getElem?_getD, List.getElem?_take]
          have : i + rt.length / 2 < rt.length + m := by
            have : rt.length / 2 < rt.length := Nat.div_lt_self hnt (by decide)
            omega
          simp only [this, if_true, List.getElem?_drop]
          congr 2
          omega
        · congr 1
          rw [List.drop_take, List.drop_drop, List.take_take]
          congr 1
          omega

theorem map_mp_id (l : List Tag) : l.map (mp id) = l := by
  conv => rhs; rw [← List.map_id l]
  apply List.map_congr_left; intro t _; rfl

theorem range_add_map (f : Nat → Nat) (c n : Nat) :
    (List.range c).map f ++ (List.range n).map (fun i => f (c + i)) = (List.range (c + n)).map f := by
  rw [List.range_add, List.map_append, List.map_map]
  rfl

/-- one call in the form the schedule induction needs -/
theorem hilbert_tag_step (o : Ops α) (cd : Codec α) (pair : α → α → Nat) (k : List α → List α → α) (rt : List α)
    (hrt : 0 < rt.length) (X : List Nat) (T : List Tag) (st : List α) (c : Nat) (out : List Nat) (a f : Nat)
    (hst : st = ((hilZ o cd rt.length X).drop c).take rt.length)
    (hout : out = (List.range c).map (hilOut o cd pair k rt X)) (hc : c ≤ X.length) :
    let w := (X.drop c).take a
    let r := hilbertWork o cd pair (fun p q => some (k p q)) rt st ⟨[⟨w, winTags T c w.length, true⟩], [⟨f, true⟩]⟩
    let n := r.2.consumed.getD 0 0
    let p := r.2.produced.getD 0 ⟨[], []⟩
    (r.1 = ((hilZ o cd rt.length X).drop (c + n)).take rt.length ∧
      out ++ p.samples = (List.range (c + n)).map (hilOut o cd pair k rt X) ∧ c + n ≤ X.length) ∧
    (p.tags.map (up out.length)).Perm ((rng T (max 0 c) (max 0 (c + n))).map (mp id)) := by
  have hs := hilbert_step o cd pair k rt hrt X c a f hc
    (winTags T c ((X.drop c).take a).length) ((X.drop c).take a) rfl
  simp only at hs
  rw [← hst] at hs
  obtain ⟨s1, s2, s3, s4, _⟩ := hs
  simp only
  have hnle : (hilbertWork o cd pair (fun p q => some (k p q)) rt st
      ⟨[⟨(X.drop c).take a, winTags T c ((X.drop c).take a).length, true⟩], [⟨f, true⟩]⟩).2.consumed.getD 0 0 ≤
      ((X.drop c).take a).length := by
    rw [s1]; split
    · omega
    · exact Nat.min_le_left _ _
  have hwl : ((X.drop c).take a).length ≤ X.length - c := by
    simp only [List.length_take, List.length_drop]; omega
  refine ⟨⟨s2, ?_, by omega⟩, ?_⟩
  · rw [s3, hout, range_add_map]
  · simp only [Nat.zero_le, Nat.max_eq_right]
    rw [s4]
    have hol : out.length = c := by rw [hout]; simp
    have := winTags_filter_map T c ((X.drop c).take a).length _ out.length id id hnle
      (by intro p h1 _; simp only [id]; omega)
    rw [map_mp_id] at this
    rw [this]

/-- **Hilbert, every schedule** (samples and tags). -/
theorem hilbert_drive (o : Ops α) (cd : Codec α) (pair : α → α → Nat) (k : List α → List α → α) (taps : List α)
    (hnt : 0 < taps.length) (X : List Nat) (T : List Tag) (sched : List (Nat × Nat)) :
    let B := hilbertBlock o cd pair (fun p q => some (k p q)) taps
    let r := driveT B X T B.init 0 [] [] sched
    r.2.1 ≤ X.length ∧
    r.2.2.1 = (List.range r.2.1).map (hilOut o cd pair k (firNew taps) X) ∧
    r.2.2.2.Perm (rng T 0 r.2.1) := by
  intro B r
  have hrt : 0 < (firNew taps).length := by simpa [firNew] using hnt
  have hlen : (firNew taps).length = taps.length := by simp [firNew]
  have key := driveT_tags B X T 0 id
    (fun st c out => st = ((hilZ o cd (firNew taps).length X).drop c).take (firNew taps).length ∧
      out = (List.range c).map (hilOut o cd pair k (firNew taps) X) ∧ c ≤ X.length)
    (fun st c out a f h => hilbert_tag_step o cd pair k (firNew taps) hrt X T st c out a f h.1 h.2.1 h.2.2)
    sched B.init 0 [] [] ⟨by simp [B, hilbertBlock, hilZ, hlen], by simp, Nat.zero_le _⟩ (by simp [rng_empty])
  simp only [Nat.zero_le, Nat.max_eq_right] at key
  obtain ⟨⟨_, k2, k3⟩, k4⟩ := key
  refine ⟨k3, k2, ?_⟩
  rw [map_mp_id] at k4
  exact k4

end RR.Dsp
