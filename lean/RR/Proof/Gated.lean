import RR.Model.Gated

/-!
The gated transducer family (`ZeroCrossing`, `SymbolSync`): whatever the read
windows and the free space of the one or two outputs, the block computes the
per-sample state machine over exactly the consumed prefix of its input.
-/
namespace RR.Blk

/-- The stream function: the state machine run over a whole list, with unbounded output. -/
def gatedRun (G : Gated) : List Nat → G.σ → List (List Nat) → Option (G.σ × List (List Nat))
  | [], st, rows => some (st, rows)
  | s :: rest, st, rows =>
    match G.step st s with
    | none => none
    | some (st', none) => gatedRun G rest st' rows
    | some (st', some r) => gatedRun G rest st' (rows ++ [r])

theorem gatedRun_append (G : Gated) (a b : List Nat) (st : G.σ) (rows : List (List Nat)) :
    gatedRun G (a ++ b) st rows = (gatedRun G a st rows).bind fun p => gatedRun G b p.1 p.2 := by
  induction a generalizing st rows with
  | nil => simp [gatedRun]
  | cons s rest ih =>
    simp only [List.cons_append, gatedRun]
    cases h : G.step st s with
    | none => simp
    | some p =>
      obtain ⟨st', r⟩ := p
      cases r with
      | none => simp only []; exact ih st' rows
      | some r => simp only []; exact ih st' (rows ++ [r])

/-- rows are only ever appended -/
theorem gatedRun_rows_prefix (G : Gated) (xs : List Nat) (st : G.σ) (rows : List (List Nat)) (st' : G.σ)
    (rows' : List (List Nat)) (h : gatedRun G xs st rows = some (st', rows')) : ∃ ext, rows' = rows ++ ext := by
  induction xs generalizing st rows with
  | nil => simp [gatedRun] at h; exact ⟨[], by simp [h.2]⟩
  | cons s rest ih =>
    simp only [gatedRun] at h
    cases hs : G.step st s with
    | none => rw [hs] at h; simp at h
    | some p =>
      obtain ⟨st1, r⟩ := p
      rw [hs] at h
      cases r with
      | none => exact ih st1 rows h
      | some r =>
        obtain ⟨ext, he⟩ := ih st1 (rows ++ [r]) h
        exact ⟨r :: ext, by rw [he]; simp⟩

/-- the rows do not depend on what was collected before -/
theorem gatedRun_shift (G : Gated) (xs : List Nat) (st : G.σ) (rows : List (List Nat)) :
    gatedRun G xs st rows = (gatedRun G xs st []).map fun p => (p.1, rows ++ p.2) := by
  induction xs generalizing st rows with
  | nil => simp [gatedRun]
  | cons s rest ih =>
    simp only [gatedRun]
    cases hs : G.step st s with
    | none => simp
    | some p =>
      obtain ⟨st1, r⟩ := p
      cases r with
      | none => exact ih st1 rows
      | some r =>
        simp only []
        rw [ih st1 (rows ++ [r]), ih st1 ([] ++ [r])]
        cases gatedRun G rest st1 [] with
        | none => rfl
        | some q => simp

/-- **The loop of one call** computes the state machine over exactly the `n' - n` samples it
consumed, stays within the window and the output room, and takes at least one sample when there is
room and input. -/
theorem gatedLoop_spec (G : Gated) (maxOut : Nat) (xs : List Nat) (st : G.σ) (n : Nat) (rows : List (List Nat))
    (st' : G.σ) (n' : Nat) (rows' : List (List Nat))
    (h : gatedLoop G maxOut xs st n rows = some (st', n', rows')) (hr : rows.length ≤ maxOut) :
    n ≤ n' ∧ n' - n ≤ xs.length ∧ gatedRun G (xs.take (n' - n)) st rows = some (st', rows') ∧
    rows'.length ≤ maxOut ∧ (rows.length < maxOut → xs ≠ [] → n < n') := by
  induction xs generalizing st n rows with
  | nil =>
    simp only [gatedLoop, Option.some.injEq, Prod.mk.injEq] at h
    obtain ⟨rfl, rfl, rfl⟩ := h
    simp [gatedRun, hr]
  | cons s rest ih =>
    simp only [gatedLoop] at h
    by_cases hfull : rows.length = maxOut
    · simp only [hfull, beq_self_eq_true, if_true, Option.some.injEq, Prod.mk.injEq] at h
      obtain ⟨rfl, rfl, rfl⟩ := h
      simp [gatedRun, hfull]
    · have hne : (rows.length == maxOut) = false := by simpa using hfull
      rw [hne] at h
      simp only [Bool.false_eq_true, if_false] at h
      cases hs : G.step st s with
      | none => rw [hs] at h; simp at h
      | some p =>
        obtain ⟨st1, r⟩ := p
        rw [hs] at h
        cases r with
        | none =>
          simp only [] at h
          obtain ⟨h1, h2, h3, h4, _⟩ := ih st1 (n + 1) rows h hr
          have e : n' - n = (n' - (n + 1)) + 1 := by omega
          refine ⟨by omega, by simp only [List.length_cons]; omega, ?_, h4, fun _ _ => by omega⟩
          rw [e, List.take_succ_cons]
          simp only [gatedRun, hs]
          exact h3
        | some r =>
          simp only [] at h
          have hr' : (rows ++ [r]).length ≤ maxOut := by simp only [List.length_append, List.length_cons, List.length_nil]; omega
          obtain ⟨h1, h2, h3, h4, _⟩ := ih st1 (n + 1) (rows ++ [r]) h hr'
          have e : n' - n = (n' - (n + 1)) + 1 := by omega
          refine ⟨by omega, by simp only [List.length_cons]; omega, ?_, h4, fun _ _ => by omega⟩
          rw [e, List.take_succ_cons]
          simp only [gatedRun, hs]
          exact h3

/-- Drive a gated block over the input history `X`: each call sees the next `a` unconsumed samples and
`f0`/`f1` free samples on its outputs. Collects the rows handed on; `none` = a call panicked. -/
def driveGated (G : Gated) (X : List Nat) : G.σ → Nat → List (List Nat) → List (Nat × Nat × Nat) →
    Option (G.σ × Nat × List (List Nat))
  | st, c, rows, [] => some (st, c, rows)
  | st, c, rows, (a, f0, f1) :: rest =>
    let w := (X.drop c).take a
    let r := gatedWork G st ⟨[⟨w, [], true⟩], [⟨f0, true⟩, ⟨f1, true⟩]⟩
    if r.2.verdict == .panic then none
    else
      let p0 := (r.2.produced.getD 0 ⟨[], []⟩).samples
      let p1 := (r.2.produced.getD 1 ⟨[], []⟩).samples
      -- the rows as the two downstream readers see them (column 1 only exists with a clock output)
      let new := (List.range p0.length).map fun i => [p0.getD i 0, p1.getD i 0]
      driveGated G X r.1 (c + r.2.consumed.getD 0 0) (rows ++ new) rest

/-- rows restricted to the columns the block has -/
def cols (nout : Nat) (rows : List (List Nat)) : List (List Nat) :=
  rows.map fun r => [r.getD 0 0, if nout == 2 then r.getD 1 0 else 0]

theorem cols_append (nout : Nat) (a b : List (List Nat)) : cols nout (a ++ b) = cols nout a ++ cols nout b := by
  simp [cols]

/-- **One call.** -/
theorem gatedWork_spec (G : Gated) (hn : G.nout = 1 ∨ G.nout = 2) (st : G.σ) (w : List Nat) (f0 f1 : Nat) :
    let r := gatedWork G st ⟨[⟨w, [], true⟩], [⟨f0, true⟩, ⟨f1, true⟩]⟩
    let n := r.2.consumed.getD 0 0
    let p0 := (r.2.produced.getD 0 ⟨[], []⟩).samples
    let p1 := (r.2.produced.getD 1 ⟨[], []⟩).samples
    r.2.verdict = .panic ∨
    (n ≤ w.length ∧ p0.length ≤ f0 ∧ (G.nout = 2 → p1.length = p0.length ∧ p1.length ≤ f1) ∧
     (G.nout = 1 → p1 = []) ∧
     ∃ rows, gatedRun G (w.take n) st [] = some (r.1, rows) ∧
       cols G.nout rows = (List.range p0.length).map (fun i => [p0.getD i 0, p1.getD i 0]) ∧
     -- verdicts are truthful
     (r.2.verdict = .waitIn 0 1 ∧ w = [] ∧ n = 0 ∨
      r.2.verdict = .waitOut 0 1 ∧ f0 = 0 ∧ n = 0 ∧ p0 = [] ∨
      r.2.verdict = .waitOut 1 1 ∧ G.nout = 2 ∧ f1 = 0 ∧ n = 0 ∧ p0 = [] ∨
      r.2.verdict = .again ∧ 0 < n)) := by
  intro r n p0 p1
  simp only [r, n, p0, p1, gatedWork, in0, out0, noOut, List.getD_cons_zero]
  by_cases hw : w = []
  · subst hw
    right
    simp [gatedRun, cols]
  · have hwe : w.isEmpty = false := by cases w <;> simp_all
    simp only [hwe, Bool.false_eq_true, if_false]
    by_cases hf0 : f0 = 0
    · subst hf0
      right
      simp [gatedRun, cols]
    · have hf0' : (f0 == 0) = false := by simpa using hf0
      simp only [hf0', Bool.false_eq_true, if_false]
      rcases hn with h1 | h2
      · -- symbol output only
        simp only [h1, show ((1 : Nat) == 2) = false by decide, Bool.false_and, Bool.false_eq_true, if_false]
        cases hl : gatedLoop G f0 w st 0 [] with
        | none => left; simp
        | some q =>
          obtain ⟨st', n', rows'⟩ := q
          right
          obtain ⟨_, k2, k3, k4, k5⟩ := gatedLoop_spec G f0 w st 0 [] st' n' rows' hl (Nat.zero_le _)
          simp only [Nat.sub_zero] at k2 k3
          have hpos : 0 < n' := k5 (by simp; omega) hw
          simp only [List.getD_cons_zero, List.range_succ, List.range_zero, List.nil_append, List.map_cons,
            List.map_nil, List.length_map]
          refine ⟨k2, k4, by omega, ?_, rows', k3, ?_, ?_⟩
          · intro _; rfl
          · simp only [cols, show ((1 : Nat) == 2) = false by decide, Bool.false_eq_true, if_false]
            apply List.ext_getElem
            · simp
            · intro i hi1 hi2
              simp only [List.getElem_map, List.getElem_range]
              simp at hi1
              simp [List.getD_eq_getElem?_getD, List.getElem?_map, hi1]
          · right; right; right
            first | exact ⟨rfl, hpos⟩ | exact ⟨trivial, hpos⟩
      · simp only [h2, beq_self_eq_true, Bool.true_and, List.getD_cons_succ, List.getD_cons_zero, if_true]
        by_cases hf1 : f1 = 0
        · subst hf1
          right
          simp [gatedRun, cols]
        · have hf1' : (f1 == 0) = false := by simpa using hf1
          simp only [hf1', Bool.false_eq_true, if_false]
          cases hl : gatedLoop G (min f0 f1) w st 0 [] with
          | none => left; simp
          | some q =>
            obtain ⟨st', n', rows'⟩ := q
            right
            obtain ⟨_, k2, k3, k4, k5⟩ := gatedLoop_spec G (min f0 f1) w st 0 [] st' n' rows' hl (Nat.zero_le _)
            simp only [Nat.sub_zero] at k2 k3
            have hpos : 0 < n' := k5 (by simp; omega) hw
            simp only [List.getD_cons_zero, List.range_succ, List.range_zero, List.nil_append, List.map_cons,
              List.map_nil, List.length_map, List.getD_cons_succ, List.append_nil, List.cons_append]
            refine ⟨k2, by omega, fun _ => ⟨trivial, by omega⟩, fun h => by omega, rows', k3, ?_, ?_⟩
            · simp only [cols, beq_self_eq_true, if_true]
              apply List.ext_getElem
              · simp
              · intro i hi1 hi2
                simp only [List.getElem_map, List.getElem_range]
                simp at hi1
                simp [List.getD_eq_getElem?_getD, List.getElem?_map, hi1]
            · right; right; right
              first | exact ⟨rfl, hpos⟩ | exact ⟨trivial, hpos⟩

/-- **Every schedule.** If no call panicked, the block has consumed some `c ≤ |X|` samples and what its
readers were given is exactly the stream function of the first `c` samples. -/
theorem gated_drive (G : Gated) (hn : G.nout = 1 ∨ G.nout = 2) (X : List Nat) (sched : List (Nat × Nat × Nat)) :
    ∀ (st : G.σ) (c : Nat) (rows : List (List Nat)) (R : List (List Nat)), c ≤ X.length →
      gatedRun G (X.take c) G.init [] = some (st, R) → rows = cols G.nout R →
      ∀ st' c' rows', driveGated G X st c rows sched = some (st', c', rows') →
        c ≤ c' ∧ c' ≤ X.length ∧
        ∃ R', gatedRun G (X.take c') G.init [] = some (st', R') ∧ rows' = cols G.nout R' := by
  induction sched with
  | nil =>
    intro st c rows R hc hrun hrows st' c' rows' h
    simp only [driveGated, Option.some.injEq, Prod.mk.injEq] at h
    obtain ⟨rfl, rfl, rfl⟩ := h
    exact ⟨Nat.le_refl _, hc, R, hrun, hrows⟩
  | cons p rest ih =>
    intro st c rows R hc hrun hrows st' c' rows' h
    obtain ⟨a, f0, f1⟩ := p
    simp only [driveGated] at h
    have spec := gatedWork_spec G hn st ((X.drop c).take a) f0 f1
    simp only at spec
    split at h
    · simp at h
    · rename_i hv
      rcases spec with hp | ⟨s1, _, _, _, rows1, s5, s6, _⟩
      · rw [hp] at hv; simp at hv
      · generalize hr : gatedWork G st ⟨[⟨(X.drop c).take a, [], true⟩], [⟨f0, true⟩, ⟨f1, true⟩]⟩ = r at *
        generalize hnn : r.2.consumed.getD 0 0 = n at *
        have hlen : n ≤ X.length - c := by
          have : ((X.drop c).take a).length ≤ X.length - c := by
            simp only [List.length_take, List.length_drop]; omega
          omega
        have htake : X.take (c + n) = X.take c ++ ((X.drop c).take a).take n := by
          rw [List.take_take]
          have : min n a = n := by
            have : ((X.drop c).take a).length ≤ a := by simp only [List.length_take]; omega
            omega
          rw [this, List.take_add]
        have hrun' : gatedRun G (X.take (c + n)) G.init [] = some (r.1, R ++ rows1) := by
          rw [htake, gatedRun_append, hrun]
          simp only [Option.bind_some]
          rw [gatedRun_shift, s5]
          rfl
        obtain ⟨i1, i2, i3⟩ := ih r.1 (c + n) _ (R ++ rows1) (by omega) hrun'
          (by rw [hrows, cols_append, s6]) st' c' rows' h
        exact ⟨by omega, i2, i3⟩

/-- what one schedule delivers is a prefix of what any schedule that consumed more delivers -/
theorem gatedRun_take_prefix (G : Gated) (X : List Nat) (c1 c2 : Nat) (h : c1 ≤ c2) (st1 st2 : G.σ)
    (R1 R2 : List (List Nat)) (h1 : gatedRun G (X.take c1) G.init [] = some (st1, R1))
    (h2 : gatedRun G (X.take c2) G.init [] = some (st2, R2)) : ∃ ext, R2 = R1 ++ ext := by
  have e : X.take c2 = X.take c1 ++ (X.take c2).drop c1 := by
    have := List.take_append_drop c1 (X.take c2)
    rw [List.take_take, Nat.min_eq_left h] at this
    exact this.symm
  rw [e, gatedRun_append, h1] at h2
  simp only [Option.bind_some] at h2
  exact gatedRun_rows_prefix G _ st1 R1 st2 R2 h2

end RR.Blk

namespace RR.Blk

/-- a step function without panics gives a loop, a `work()` and a drive without panics -/
theorem gatedLoop_total (G : Gated) (ht : ∀ st s, G.step st s ≠ none) (maxOut : Nat) (xs : List Nat) (st : G.σ) (n : Nat)
    (rows : List (List Nat)) : gatedLoop G maxOut xs st n rows ≠ none := by
  induction xs generalizing st n rows with
  | nil => simp [gatedLoop]
  | cons s rest ih =>
    simp only [gatedLoop]
    split
    · simp
    · cases hs : G.step st s with
      | none => exact absurd hs (ht st s)
      | some p =>
        obtain ⟨st1, r⟩ := p
        cases r with
        | none => exact ih st1 (n + 1) rows
        | some r => exact ih st1 (n + 1) (rows ++ [r])

theorem gatedWork_total (G : Gated) (ht : ∀ st s, G.step st s ≠ none) (st : G.σ) (v : View) :
    (gatedWork G st v).2.verdict ≠ .panic := by
  simp only [gatedWork]
  split
  · simp [noOut]
  split
  · simp [noOut]
  split
  · simp [noOut]
  · split
    · rename_i h; exact absurd h (gatedLoop_total G ht _ _ _ _ _)
    · simp

theorem driveGated_total (G : Gated) (ht : ∀ st s, G.step st s ≠ none) (X : List Nat) (sched : List (Nat × Nat × Nat)) :
    ∀ (st : G.σ) (c : Nat) (rows : List (List Nat)), driveGated G X st c rows sched ≠ none := by
  induction sched with
  | nil => intro st c rows; simp [driveGated]
  | cons p rest ih =>
    intro st c rows
    obtain ⟨a, f0, f1⟩ := p
    simp only [driveGated]
    split
    · rename_i h
      have := gatedWork_total G ht st ⟨[⟨(X.drop c).take a, [], true⟩], [⟨f0, true⟩, ⟨f1, true⟩]⟩
      simp only [beq_iff_eq] at h
      exact absurd h this
    · exact ih _ _ _

end RR.Blk

namespace RR.Blk
/-- a toy member of the family for the non-vacuity examples: emits every second sample with the state -/
def toyGated : Gated :=
  { σ := Nat, init := 0, step := fun st s => some (st + 1, if st % 2 = 1 then some [s, st] else none), nout := 2 }
end RR.Blk
