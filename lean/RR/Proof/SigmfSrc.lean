import RR.Proof.FileSrc

/-!
SigMFSource for every consumption schedule: the cumulative output is whole
repetitions of the recording's whole samples followed by a prefix of them; `EOF`
is answered exactly when all `n` repetitions are out.
-/
namespace RR.Src
open RR RR.Blk

def sgDrive (data : List Nat) (size : Nat) : SgSt → List Nat → Bool → List Nat → SgSt × List Nat × Bool
  | st, out, eof, [] => (st, out, eof)
  | st, out, eof, f :: rest =>
    let r := sgWork data size st ⟨[], [⟨f, true⟩]⟩
    sgDrive data size r.1 (out ++ (r.2.produced.getD 0 ⟨[], []⟩).samples) (eof || r.2.verdict == .eof) rest

def sgEmitted (data : List Nat) (size n : Nat) (st : SgSt) : List Nat :=
  match st.rep.r with
  | .finite 0 => rept n (fileSamples data size)
  | _ => rept st.rep.count (fileSamples data size) ++ samplesOf size ((data.length - st.left) / size) data

def SgGood (data : List Nat) (size n : Nat) (st : SgSt) : Prop :=
  ∃ m, st.rep.r = .finite m ∧ m + st.rep.count = n ∧ st.left ≤ data.length ∧
    st.buf = (data.drop ((data.length - st.left) / size * size)).take ((data.length - st.left) % size)

theorem sgEmitted_pos (data : List Nat) (size n m cnt left : Nat) (buf : List Nat) (hm : m ≠ 0) :
    sgEmitted data size n ⟨left, buf, ⟨.finite m, cnt⟩⟩ =
      rept cnt (fileSamples data size) ++ samplesOf size ((data.length - left) / size) data := by
  unfold sgEmitted
  cases m with
  | zero => exact absurd rfl hm
  | succ q => simp

/-- the read-and-emit half of `work` -/
theorem sgRead_step (data : List Nat) (size n : Nat) (hs : 0 < size) (m cnt left : Nat) (buf : List Nat)
    (hm0 : m ≠ 0) (hg : SgGood data size n ⟨left, buf, ⟨.finite m, cnt⟩⟩) (f : Nat) :
    let r := sgRead data size ⟨left, buf, ⟨.finite m, cnt⟩⟩ ⟨[], [⟨f, true⟩]⟩
    SgGood data size n r.1 ∧ r.1.rep = ⟨.finite m, cnt⟩ ∧
    sgEmitted data size n r.1 =
      sgEmitted data size n ⟨left, buf, ⟨.finite m, cnt⟩⟩ ++ (r.2.produced.getD 0 ⟨[], []⟩).samples ∧
    r.2.verdict ≠ .eof ∧ r.2.verdict ≠ .panic := by
  intro r
  obtain ⟨m', hm', hsum, hleft, hbuf⟩ := hg
  simp only at hm' hsum hleft hbuf
  have hmm : m = m' := by cases hm'; rfl
  subst hmm
  have hbl : buf.length = (data.length - left) % size := by
    rw [hbuf]; simp
    have := Nat.div_add_mod (data.length - left) size
    have := Nat.mod_lt (data.length - left) hs
    have h3 : (data.length - left) / size * size = size * ((data.length - left) / size) := Nat.mul_comm _ _
    omega
  have hblt : buf.length < size := by rw [hbl]; exact Nat.mod_lt _ hs
  have hhave : buf.length / size = 0 := Nat.div_eq_of_lt hblt
  simp only [r, sgRead, out0, noOut, List.getD_cons_zero, hhave]
  by_cases hf : f = 0
  · have hf0 : (f == 0) = true := by simpa using hf
    simp only [hf0, if_true]
    exact ⟨⟨m, rfl, hsum, hleft, hbuf⟩, trivial, by simp, by simp, by simp⟩
  · have hf' : (f == 0) = false := by simpa using hf
    simp only [hf', Bool.false_eq_true, if_false, BEq.rfl, if_true, List.getD_cons_zero]
    generalize hnn : min (f * size) left = nn
    have hnl : nn ≤ left := by omega
    obtain ⟨c1, c2⟩ := fs_chunk data size (data.length - left) nn hs (by omega) buf hbuf
    have hpos' : data.length - (left - nn) = data.length - left + nn := by omega
    generalize hd : buf ++ (data.drop (data.length - left)).take nn = d at c1 c2
    have hdl : d.length ≤ buf.length + nn := by rw [← hd]; simp; omega
    have hkf : d.length / size ≤ f := by
      have : d.length / size < f + 1 := by
        rw [Nat.div_lt_iff_lt_mul hs, Nat.add_mul]; omega
      omega
    rw [Nat.min_eq_left hkf]
    refine ⟨⟨m, rfl, hsum, by show left - nn ≤ _; omega, ?_⟩, trivial, ?_, by simp, by simp⟩
    · show d.drop (d.length / size * size) = _
      rw [c1]
      show _ = List.take ((data.length - (left - nn)) % size) (List.drop ((data.length - (left - nn)) / size * size) data)
      rw [hpos']
    · rw [sgEmitted_pos _ _ _ _ _ _ _ hm0, sgEmitted_pos _ _ _ _ _ _ _ hm0, hpos', c2, List.append_assoc]

theorem sg_step (data : List Nat) (size n : Nat) (hs : 0 < size) (hn : n < 2 ^ 64) (hd : data ≠ []) (st : SgSt)
    (hg : SgGood data size n st) (f : Nat) :
    let r := sgWork data size st ⟨[], [⟨f, true⟩]⟩
    SgGood data size n r.1 ∧
    sgEmitted data size n r.1 = sgEmitted data size n st ++ (r.2.produced.getD 0 ⟨[], []⟩).samples ∧
    (r.2.verdict = .eof ↔ r.1.rep.r = .finite 0) ∧ r.2.verdict ≠ .panic := by
  intro r
  have hg0 := hg
  obtain ⟨m, hm, hsum, hleft, hbuf⟩ := hg
  obtain ⟨left, buf, rep⟩ := st
  obtain ⟨rr, cnt⟩ := rep
  simp only at hm hsum hleft hbuf
  subst hm
  have hL : (data.length == 0) = false := by
    cases data with
    | nil => exact absurd rfl hd
    | cons a t => simp
  simp only [r, sgWork, Repeat.done, hL, Bool.or_false]
  by_cases hm0 : m = 0
  · subst hm0
    refine ⟨hg0, ?_, ?_, by simp [noOut]⟩
    · simp [sgEmitted, noOut]
    · simp [noOut]
  · have hm1 : (m == 0) = false := by simpa using hm0
    simp only [hm1, Bool.false_eq_true, if_false]
    by_cases hl0 : left = 0
    · subst hl0
      have hov : ¬ (cnt + 1 ≥ 2 ^ 64) := by omega
      simp only [BEq.rfl, if_true, Repeat.again, hov, hm0, if_false]
      have eold := sgEmitted_pos data size n m cnt 0 buf hm0
      have hS : samplesOf size ((data.length - 0) / size) data = fileSamples data size := rfl
      by_cases hmore : m > 1
      · simp only [hmore, decide_true, if_true]
        have hg1 : SgGood data size n ⟨data.length, [], ⟨.finite (m - 1), cnt + 1⟩⟩ :=
          ⟨m - 1, rfl, by simp; omega, Nat.le_refl _, by simp⟩
        obtain ⟨s1, s2, s3, s4, s5⟩ := sgRead_step data size n hs (m - 1) (cnt + 1) data.length [] (by omega) hg1 f
        refine ⟨s1, ?_, ?_, s5⟩
        · rw [s3, sgEmitted_pos _ _ _ _ _ _ _ (by omega), eold, hS, rept_succ]
          simp [samplesOf]
        · constructor
          · intro h; exact absurd h s4
          · intro h; rw [s2] at h; simp at h; omega
      · have hm1' : m = 1 := by omega
        subst hm1'
        simp only [show ¬ (1 > 1) by omega, decide_false, Bool.false_eq_true, if_false]
        refine ⟨⟨0, rfl, by simp; omega, hleft, hbuf⟩, ?_, ?_, by simp [noOut]⟩
        · have e1 : sgEmitted data size n ⟨0, buf, ⟨.finite (1 - 1), cnt + 1⟩⟩ =
              rept n (fileSamples data size) := by unfold sgEmitted; simp
          have hn' : n = cnt + 1 := by omega
          rw [e1, eold, hS, hn', rept_succ]; simp [noOut]
        · simp [noOut]
    · have hl : (left == 0) = false := by simpa using hl0
      simp only [hl, Bool.false_eq_true, if_false]
      obtain ⟨s1, s2, s3, s4, s5⟩ := sgRead_step data size n hs m cnt left buf hm0 hg0 f
      refine ⟨s1, s3, ?_, s5⟩
      constructor
      · intro h; exact absurd h s4
      · intro h; rw [s2] at h; simp at h; exact absurd h hm0

/-- **SigMFSource, any consumption schedule.** -/
theorem sg_drive (data : List Nat) (size n : Nat) (hs : 0 < size) (hn : n < 2 ^ 64) (hd : data ≠ []) (st : SgSt)
    (hg : SgGood data size n st) (eof : Bool) (heof : eof = true → st.rep.r = .finite 0) (frees : List Nat) :
    let r := sgDrive data size st (sgEmitted data size n st) eof frees
    SgGood data size n r.1 ∧ r.2.1 = sgEmitted data size n r.1 ∧
      (r.2.2 = true → r.2.1 = rept n (fileSamples data size)) := by
  induction frees generalizing st eof with
  | nil =>
    refine ⟨hg, rfl, ?_⟩
    intro h
    have := heof h
    simp [sgDrive, sgEmitted, this]
  | cons f rest ih =>
    obtain ⟨h1, h2, h3, _⟩ := sg_step data size n hs hn hd st hg f
    simp only [sgDrive]
    rw [← h2]
    apply ih _ h1
    intro he
    simp only [Bool.or_eq_true, beq_iff_eq] at he
    rcases he with he | he
    · have hz := heof he
      have : (sgWork data size st ⟨[], [⟨f, true⟩]⟩).2.verdict = .eof := by
        obtain ⟨left, buf, rep⟩ := st
        obtain ⟨rr, cnt⟩ := rep
        simp only at hz
        subst hz
        simp [sgWork, Repeat.done, noOut]
      exact h3.mp this
    · exact h3.mp he

end RR.Src
