import RR.Proof.Sync
import RR.Model.Blocks

/-! Exact functions (C10) and tag forwarding (C12) for the `sync` family. -/
namespace RR.Blk

/-- One-shot loop of a stateless `sync` block whose function does not panic on
the given inputs: output row `p` is `h` of the samples at `p`; every tag of the
first input is forwarded once, at the same index. -/
theorem stateless_oneShot (nin nout : Nat) (g : List Nat → Option (List Nat)) (h : List Nat → List Nat)
    (get : Nat → List Nat × List (List Tag)) (pos k : Nat)
    (hg : ∀ p, p < k → g (get (pos + p)).1 = some (h (get (pos + p)).1)) :
    syncLoopG (stateless nin nout g) get () pos k =
      some ((), (List.range k).map (fun p => h (get (pos + p)).1),
        (List.range k).flatMap fun p => ((get (pos + p)).2.headD []).map fun t => { t with pos := pos + p }) := by
  induction k generalizing pos with
  | zero => rfl
  | succ k ih =>
    have h0 := hg 0 (by omega)
    simp only [Nat.add_zero] at h0
    have ih' := ih (pos + 1) (by
      intro p hp
      have := hg (p + 1) (by omega)
      simpa [Nat.add_assoc, Nat.add_comm 1 p] using this)
    simp only [syncLoopG, stateless, pureSync, h0, Option.map_some]
    simp only [stateless, pureSync] at ih'
    rw [ih']
    simp only [List.range_succ_eq_map, List.map_cons, List.flatMap_cons, List.map_map,
      List.flatMap_map, Nat.add_zero, Function.comp_def]
    have e : ∀ p, pos + 1 + p = pos + (p + 1) := by intro p; omega
    simp only [e, Nat.succ_eq_add_one]

/-- NRZI-S decoding as the documentation states it: a toggle is 0, constant is 1,
i.e. `out[i] = 1 xor in[i] xor in[i-1]` with `in[-1] = 0`. -/
def nrziSpec (prev : Nat) : List Nat → List Nat
  | [] => []
  | a :: rest => (1 ^^^ a ^^^ prev) :: nrziSpec a rest

theorem nrzi_oneShot (get : Nat → List Nat × List (List Tag)) (last pos k : Nat) :
    ∃ st ts, syncLoopG nrzi get last pos k =
      some (st, (nrziSpec last ((List.range k).map fun p => (get (pos + p)).1.getD 0 0)).map ([·]), ts) := by
  induction k generalizing last pos with
  | zero => exact ⟨last, [], by simp [syncLoopG, nrziSpec]⟩
  | succ k ih =>
    obtain ⟨st, ts, e⟩ := ih ((get pos).1.getD 0 0) (pos + 1)
    simp only [syncLoopG, nrzi, pureSync] at e ⊢
    rw [e]
    refine ⟨st, (((get pos).2.headD []).map fun t => { t with pos := pos }) ++ ts, ?_⟩
    simp only [List.range_succ_eq_map, List.map_cons, List.map_map, nrziSpec, Nat.add_zero,
      Function.comp_def]
    have e : ∀ p, pos + 1 + p = pos + (p + 1) := by intro p; omega
    simp only [e, Nat.succ_eq_add_one]

end RR.Blk

namespace RR.Blk

/-- Any plain `sync` block (stateful or not): each tag of the first input is
forwarded exactly once, on the output position of its sample. -/
theorem pureSync_tags (σ : Type) (init : σ) (nin nout : Nat) (g : σ → List Nat → Option (σ × List Nat))
    (get : Nat → List Nat × List (List Tag)) (st : σ) (pos k : Nat)
    (st' : σ) (rows : List (List Nat)) (ts : List Tag)
    (h : syncLoopG (pureSync σ init nin nout g) get st pos k = some (st', rows, ts)) :
    ts = (List.range k).flatMap fun p => ((get (pos + p)).2.headD []).map fun t => { t with pos := pos + p } := by
  induction k generalizing st st' pos rows ts with
  | zero =>
    simp only [syncLoopG] at h
    cases h
    simp
  | succ k ih =>
    simp only [syncLoopG, pureSync] at h
    cases hg : g st (get pos).1 with
    | none => simp [hg] at h
    | some r =>
      obtain ⟨s1, ys⟩ := r
      simp only [hg] at h
      cases hl : syncLoopG (pureSync σ init nin nout g) get s1 (pos + 1) k with
      | none => simp only [pureSync] at hl; simp [hl] at h
      | some r2 =>
        obtain ⟨s2, rows2, ts2⟩ := r2
        have := ih s1 (pos + 1) s2 rows2 ts2 hl
        simp only [pureSync] at hl
        simp only [hl, Option.some.injEq, Prod.mk.injEq] at h
        obtain ⟨_, _, rfl⟩ := h
        rw [this]
        simp only [List.range_succ_eq_map, List.flatMap_cons, List.flatMap_map, Nat.add_zero,
          Function.comp_def]
        have e : ∀ p, pos + 1 + p = pos + (p + 1) := by intro p; omega
        simp only [e, Nat.succ_eq_add_one]

/-- The tags a generated `work()` hands to `produce(n, tags)` all lie on one of
the `n` committed samples (the stream contract of C02). -/
theorem syncLoopG_tags_in_range (S : SyncSpec) (get : Nat → List Nat × List (List Tag))
    (st : S.σ) (pos k : Nat) (st' : S.σ) (rows : List (List Nat)) (ts : List Tag)
    (h : syncLoopG S get st pos k = some (st', rows, ts)) :
    ∀ t ∈ ts, pos ≤ t.pos ∧ t.pos < pos + k := by
  induction k generalizing st st' pos rows ts with
  | zero =>
    simp only [syncLoopG] at h
    cases h
    simp
  | succ k ih =>
    simp only [syncLoopG] at h
    split at h
    · cases h
    · rename_i st1 outs ots _
      split at h
      · cases h
      · rename_i st2 rows2 ts2 h2
        simp only [Option.some.injEq, Prod.mk.injEq] at h
        obtain ⟨_, _, rfl⟩ := h
        intro t ht
        rcases List.mem_append.mp ht with ht | ht
        · obtain ⟨u, _, rfl⟩ := List.mem_map.mp ht
          simp
        · have := ih st1 (pos + 1) st2 rows2 ts2 h2 t ht
          omega

end RR.Blk
