import RR.Model.Ring
import RR.Spec.Fifo

/-! Helper lemmas for the ring ⊑ FIFO refinement (properties C01, C02). -/
namespace RR.Ring
open RR

/-- All `%` in the ring have an argument below `2 * cap`. -/
theorem mod2 {a c : Nat} (h : a < 2 * c) : a % c = if a < c then a else a - c := by
  split
  · exact Nat.mod_eq_of_lt ‹_›
  · rw [Nat.mod_eq_sub_mod (by omega)]; exact Nat.mod_eq_of_lt (by omega)

theorem cell_lt {r i c : Nat} (hc : 0 < c) : (r + i) % c < c := Nat.mod_lt _ hc

/-- Offset of a cell from `rpos`, inverse of `i ↦ (rpos + i) % cap`. -/
theorem off_cell {r i c : Nat} (hr : r < c) (hi : i < c) :
    ((r + i) % c + c - r) % c = i := by
  rw [mod2 (a := r + i) (by omega)]
  split
  · rw [mod2 (by omega)]; split <;> omega
  · rw [mod2 (by omega)]; split <;> omega

theorem cell_off {r k c : Nat} (hr : r < c) (hk : k < c) :
    (r + (k + c - r) % c) % c = k := by
  rw [mod2 (a := k + c - r) (by omega)]
  split
  · rw [mod2 (by omega)]; split <;> omega
  · rw [mod2 (by omega)]; split <;> omega

theorem cell_inj {r i j c : Nat} (hr : r < c) (hi : i < c) (hj : j < c)
    (h : (r + i) % c = (r + j) % c) : i = j := by
  have h1 := off_cell hr hi
  have h2 := off_cell hr hj
  rw [h] at h1; omega

/-- The simulation relation between the ring and the FIFO. -/
structure Sim (s : State) (q : Fifo.Q) : Prop where
  cap_pos : 0 < s.cap
  rpos_lt : s.rpos < s.cap
  used_le : s.used ≤ s.cap
  wpos_eq : s.wpos = (s.rpos + s.used) % s.cap
  len_eq : q.length = s.used
  mem_eq : ∀ i, i < s.used → s.mem ((s.rpos + i) % s.cap) = (q.getD i (0, [])).1
  tags_eq : ∀ i, i < s.used → s.tags ((s.rpos + i) % s.cap) =
      (q.getD i (0, [])).2.map fun kv => { pos := (s.rpos + i) % s.cap, key := kv.1, val := kv.2 }
  tags_out : ∀ c, c < s.cap → s.used ≤ (c + s.cap - s.rpos) % s.cap → s.tags c = []

theorem sim_init {cap : Nat} (h : 0 < cap) : Sim (init cap) [] := by
  refine ⟨h, h, Nat.zero_le _, ?_, rfl, ?_, ?_, ?_⟩ <;> simp [init]

/-! ### produce -/

theorem foldl_addTag_fields (ts : List Tag) (s : State) :
    (ts.foldl addTag s).cap = s.cap ∧ (ts.foldl addTag s).rpos = s.rpos ∧
    (ts.foldl addTag s).wpos = s.wpos ∧ (ts.foldl addTag s).used = s.used ∧
    (ts.foldl addTag s).mem = s.mem := by
  induction ts generalizing s with
  | nil => simp
  | cons t ts ih =>
    simp only [List.foldl_cons]
    have := ih (addTag s t)
    simpa [addTag] using this

theorem foldl_addTag_tags (ts : List Tag) (s : State) (k : Nat) :
    (ts.foldl addTag s).tags k = s.tags k ++
      (ts.filter fun t => (t.pos + s.wpos) % s.cap == k).map
        fun t => { pos := k, key := t.key, val := t.val } := by
  induction ts generalizing s with
  | nil => simp
  | cons t ts ih =>
    simp only [List.foldl_cons]
    rw [ih (addTag s t)]
    have hw : (addTag s t).wpos = s.wpos := rfl
    have hc : (addTag s t).cap = s.cap := rfl
    rw [hw, hc]
    by_cases hk : (t.pos + s.wpos) % s.cap = k
    · simp [addTag, hk]
    · have hk' : ¬ k = (t.pos + s.wpos) % s.cap := fun h => hk h.symm
      simp [addTag, hk, hk']

end RR.Ring

namespace RR.Ring

@[simp] theorem fill_cap (s : State) (vals : List Nat) : (fill s vals).cap = s.cap := rfl
@[simp] theorem fill_rpos (s : State) (vals : List Nat) : (fill s vals).rpos = s.rpos := rfl
@[simp] theorem fill_wpos (s : State) (vals : List Nat) : (fill s vals).wpos = s.wpos := rfl
@[simp] theorem fill_used (s : State) (vals : List Nat) : (fill s vals).used = s.used := rfl
@[simp] theorem fill_tags (s : State) (vals : List Nat) : (fill s vals).tags = s.tags := rfl

theorem fill_fields (s : State) (vals : List Nat) :
    (fill s vals).cap = s.cap ∧ (fill s vals).rpos = s.rpos ∧ (fill s vals).wpos = s.wpos ∧
    (fill s vals).used = s.used ∧ (fill s vals).tags = s.tags := ⟨rfl, rfl, rfl, rfl, rfl⟩

/-- Offset from `wpos` of the cell at offset `i` from `rpos`. -/
theorem woff {r u i c : Nat} (hr : r < c) (hu : u ≤ c) (hi : i < c) :
    ((r + i) % c + c - (r + u) % c) % c = (i + c - u) % c := by
  rw [mod2 (a := r + i) (by omega), mod2 (a := r + u) (by omega)]
  split <;> split <;> (rw [mod2 (by omega), mod2 (a := i + c - u) (by omega)]; split <;> split <;> omega)

/-- `fill` leaves the readable cells alone and stores `vals` right after them. -/
theorem fill_mem {s : State} {q : Fifo.Q} (h : Sim s q) (vals : List Nat)
    (hv : vals.length ≤ free s) (i : Nat) (hi : i < s.cap) :
    (fill s vals).mem ((s.rpos + i) % s.cap) =
      if i < s.used then s.mem ((s.rpos + i) % s.cap)
      else if i - s.used < vals.length then vals.getD (i - s.used) 0
      else s.mem ((s.rpos + i) % s.cap) := by
  have hc := h.cap_pos; have hr := h.rpos_lt; have hu := h.used_le
  have hlt : (s.rpos + i) % s.cap < s.cap := Nat.mod_lt _ hc
  unfold free at hv
  have e : (i + s.cap - s.used) % s.cap = if i < s.used then i + s.cap - s.used else i - s.used := by
    rw [mod2 (by omega)]; split <;> split <;> omega
  have ea : ∀ j, vals.toArray.getD j 0 = vals.getD j 0 := by
    intro j; simp [Array.getD, List.getD_eq_getElem?_getD]; split <;> simp_all
  simp only [fill, h.wpos_eq, woff hr hu hi, hlt, true_and, e, ea, List.size_toArray]
  by_cases h1 : i < s.used
  · have : ¬ (i + s.cap - s.used < vals.length) := by omega
    simp [h1, this]
  · simp [h1]

end RR.Ring

namespace RR.Ring

theorem sim_fill {s : State} {q : Fifo.Q} (h : Sim s q) (vals : List Nat)
    (hv : vals.length ≤ free s) : Sim (fill s vals) q := by
  refine ⟨h.cap_pos, h.rpos_lt, h.used_le, h.wpos_eq, h.len_eq, ?_, h.tags_eq, h.tags_out⟩
  intro i hi
  have hi' : i < s.used := hi
  have := fill_mem h vals hv i (by have := h.used_le; omega)
  show (fill s vals).mem ((s.rpos + i) % s.cap) = _
  rw [this]; simp [hi', h.mem_eq i hi']

/-- Tags as the spec sees them. -/
def specTags (ts : List Tag) : List (Nat × Nat × Nat) := ts.map fun t => (t.pos, t.key, t.val)

theorem getD_enq (vals : List Nat) (n : Nat) (ts : List Tag) (j : Nat) (hj : j < n) :
    (Fifo.enq vals n (specTags ts)).getD j (0, []) =
      (vals.getD j 0, (ts.filter fun t => t.pos == j).map fun t => (t.key, t.val)) := by
  simp [Fifo.enq, specTags, List.getD_eq_getElem?_getD, hj, List.filter_map, Function.comp_def]

theorem sim_produce {s : State} {q : Fifo.Q} (h : Sim s q) (vals : List Nat) (n : Nat)
    (ts : List Tag) (hv : vals.length ≤ free s) (hn : n ≤ vals.length)
    (ht : ∀ t ∈ ts, t.pos < n) :
    ∃ s', produce (fill s vals) n ts = some s' ∧
      Sim s' (Fifo.commit q vals n (specTags ts)) := by
  have hf := sim_fill h vals hv
  have hc := h.cap_pos; have hr := h.rpos_lt; have hu := h.used_le
  have hfree : free (fill s vals) = free s := rfl
  unfold free at hv
  by_cases h0 : n = 0
  · subst h0
    refine ⟨fill s vals, by simp [produce], ?_⟩
    simpa [Fifo.commit, Fifo.enq] using hf
  · have hn1 : ¬ free (fill s vals) < n := by rw [hfree]; unfold free; omega
    have hn2 : ¬ writeLen (fill s vals) < n := hn1
    refine ⟨_, by simp only [produce, h0, hn1, hn2, if_false]; rfl, ?_⟩
    obtain ⟨f1, f2, f3, f4, f5⟩ := foldl_addTag_fields ts (fill s vals)
    have key : ∀ i, i < s.cap → (List.foldl addTag (fill s vals) ts).tags ((s.rpos + i) % s.cap)
        = s.tags ((s.rpos + i) % s.cap) ++
          (ts.filter fun t => s.used + t.pos == i).map
            fun t => { pos := (s.rpos + i) % s.cap, key := t.key, val := t.val } := by
      intro i hi
      rw [foldl_addTag_tags]
      show s.tags _ ++ _ = _
      congr 2
      apply List.filter_congr
      intro t htm
      have htn := ht t htm
      show ((t.pos + s.wpos) % s.cap == (s.rpos + i) % s.cap) = _
      rw [h.wpos_eq, Nat.add_comm t.pos, Nat.mod_add_mod]
      by_cases e : s.used + t.pos = i
      · subst e; simp [Nat.add_assoc]
      · have : ¬ ((s.rpos + s.used + t.pos) % s.cap = (s.rpos + i) % s.cap) := by
          intro hh
          rw [Nat.add_assoc] at hh
          exact e (cell_inj hr (by omega) hi hh)
        rw [beq_eq_false_iff_ne.mpr this, beq_eq_false_iff_ne.mpr e]
    refine ⟨by simpa only [f1, fill_cap] using hc, by simpa only [f1, f2, fill_cap, fill_rpos] using hr, ?_, ?_, ?_, ?_, ?_, ?_⟩
      <;> simp only [f1, f2, f5, fill_cap, fill_rpos, fill_wpos, fill_used]
    · show s.used + n ≤ s.cap; omega
    · show (s.wpos + n) % s.cap = (s.rpos + (s.used + n)) % s.cap
      rw [h.wpos_eq, Nat.mod_add_mod, Nat.add_assoc]
    · show (q ++ Fifo.enq vals n (specTags ts)).length = s.used + n
      simp [Fifo.enq, h.len_eq]
    · intro i hi
      show (fill s vals).mem ((s.rpos + i) % s.cap) = _
      change i < s.used + n at hi
      rw [fill_mem h vals (by unfold free; omega) i (by omega)]
      by_cases h1 : i < s.used
      · simp only [h1, if_true, Fifo.commit, List.getD_eq_getElem?_getD]
        rw [List.getElem?_append_left (by rw [h.len_eq]; exact h1)]
        have := h.mem_eq i h1
        simpa [List.getD_eq_getElem?_getD] using this
      · have h2 : i - s.used < vals.length := by omega
        simp only [h1, h2, if_true, if_false, Fifo.commit, List.getD_eq_getElem?_getD]
        rw [List.getElem?_append_right (by rw [h.len_eq]; omega), h.len_eq]
        have := getD_enq vals n ts (i - s.used) (by omega)
        simp only [List.getD_eq_getElem?_getD] at this
        rw [this]
    · intro i hi
      change i < s.used + n at hi
      show (List.foldl addTag (fill s vals) ts).tags ((s.rpos + i) % s.cap) = _
      rw [key i (by omega)]
      by_cases h1 : i < s.used
      · have e : (ts.filter fun t => s.used + t.pos == i) = [] := by
          apply List.filter_eq_nil_iff.mpr
          intro t _; simp; omega
        simp only [e, List.map_nil, List.append_nil, Fifo.commit, List.getD_eq_getElem?_getD]
        rw [List.getElem?_append_left (by rw [h.len_eq]; exact h1)]
        have := h.tags_eq i h1
        simpa [List.getD_eq_getElem?_getD] using this
      · have e0 : s.tags ((s.rpos + i) % s.cap) = [] :=
          h.tags_out _ (Nat.mod_lt _ hc) (by rw [off_cell hr (by omega)]; omega)
        simp only [e0, List.nil_append, Fifo.commit, List.getD_eq_getElem?_getD]
        rw [List.getElem?_append_right (by rw [h.len_eq]; omega), h.len_eq]
        have := getD_enq vals n ts (i - s.used) (by omega)
        simp only [List.getD_eq_getElem?_getD] at this
        rw [this]
        simp only [List.map_map, Function.comp_def]
        congr 1
        apply List.filter_congr
        intro t _
        have : (s.used + t.pos = i) = (t.pos = i - s.used) := by apply propext; omega
        rw [Bool.eq_iff_iff]; simp only [beq_iff_eq]; omega
    · intro c hcl hoff
      change s.used + n ≤ (c + s.cap - s.rpos) % s.cap at hoff
      show (List.foldl addTag (fill s vals) ts).tags c = []
      have hcc : (s.rpos + (c + s.cap - s.rpos) % s.cap) % s.cap = c := cell_off hr hcl
      have hlt : (c + s.cap - s.rpos) % s.cap < s.cap := Nat.mod_lt _ hc
      rw [← hcc, key _ hlt, hcc, h.tags_out c hcl (by omega)]
      have e : (ts.filter fun t => s.used + t.pos == (c + s.cap - s.rpos) % s.cap) = [] := by
        apply List.filter_eq_nil_iff.mpr
        intro t htm; have := ht t htm; simp; omega
      simp [e]

end RR.Ring

namespace RR.Ring

theorem consumedCell_iff {s : State} {m c : Nat} (hr : s.rpos < s.cap) (hc : c < s.cap)
    (hm : 0 < m) (hmc : m ≤ s.cap) :
    consumedCell s m c = true ↔ (c + s.cap - s.rpos) % s.cap < m := by
  unfold consumedCell
  rw [mod2 (a := s.rpos + m) (by omega), mod2 (a := c + s.cap - s.rpos) (by omega)]
  simp only []
  split <;> split <;> split <;> simp <;> omega

/-- Offsets after the read position moved by `m`. -/
theorem off_shift {r m c k : Nat} (hr : r < c) (hm : m ≤ c) (hk : k < c)
    (hge : m ≤ (k + c - r) % c) :
    (k + c - (r + m) % c) % c = (k + c - r) % c - m := by
  rw [mod2 (a := k + c - r) (by omega)] at hge ⊢
  rw [mod2 (a := r + m) (by omega)]
  split at hge <;> split <;> (rw [mod2 (by omega)]; split <;> omega)

theorem sim_consume {s : State} {q : Fifo.Q} (h : Sim s q) (m : Nat) (hm : m ≤ s.used) :
    ∃ s', consume s m = some s' ∧ Sim s' (Fifo.consume q m) := by
  have hc := h.cap_pos; have hr := h.rpos_lt; have hu := h.used_le
  by_cases h0 : m = 0
  · subst h0; exact ⟨s, by simp [consume], by simpa [Fifo.consume] using h⟩
  · have hlt : ¬ s.used < m := by omega
    refine ⟨_, by simp only [consume, hlt, h0, if_false]; rfl, ?_⟩
    have shift : ∀ i, ((s.rpos + m) % s.cap + i) % s.cap = (s.rpos + (m + i)) % s.cap := by
      intro i; rw [Nat.mod_add_mod, Nat.add_assoc]
    refine ⟨hc, Nat.mod_lt _ hc, by show s.used - m ≤ s.cap; omega, ?_, ?_, ?_, ?_, ?_⟩
    · show s.wpos = ((s.rpos + m) % s.cap + (s.used - m)) % s.cap
      rw [shift, h.wpos_eq]; congr 2; omega
    · show (q.drop m).length = s.used - m
      simp [h.len_eq]
    · intro i hi
      change i < s.used - m at hi
      show s.mem (((s.rpos + m) % s.cap + i) % s.cap) = _
      rw [shift, h.mem_eq (m + i) (by omega)]
      simp [Fifo.consume, List.getD_eq_getElem?_getD, List.getElem?_drop]
    · intro i hi
      change i < s.used - m at hi
      show (if consumedCell s m (((s.rpos + m) % s.cap + i) % s.cap) = true then []
            else s.tags (((s.rpos + m) % s.cap + i) % s.cap)) = _
      rw [shift]
      have hnc : ¬ consumedCell s m ((s.rpos + (m + i)) % s.cap) = true := by
        rw [consumedCell_iff hr (Nat.mod_lt _ hc) (by omega) (by omega), off_cell hr (by omega)]
        omega
      rw [if_neg hnc, h.tags_eq (m + i) (by omega)]
      simp only [Fifo.consume, List.getD_eq_getElem?_getD, List.getElem?_drop]
    · intro c hcl hoff
      change s.used - m ≤ (c + s.cap - (s.rpos + m) % s.cap) % s.cap at hoff
      show (if consumedCell s m c = true then [] else s.tags c) = []
      by_cases hcc : consumedCell s m c = true
      · simp [hcc]
      · rw [if_neg hcc]
        rw [consumedCell_iff hr hcl (by omega) (by omega)] at hcc
        rw [off_shift hr (by omega) hcl (by omega)] at hoff
        exact h.tags_out c hcl (by omega)

/-- `readable + writable = capacity` in every state the simulation reaches. -/
theorem read_plus_write {s : State} {q : Fifo.Q} (h : Sim s q) :
    readLen s + writeLen s = s.cap := by
  have := h.used_le; unfold readLen writeLen free; omega

theorem produce_refused {s : State} (n : Nat) (ts : List Tag) (h : free s < n) :
    produce s n ts = none := by
  have : n ≠ 0 := by omega
  simp [produce, this, h]

theorem consume_refused {s : State} (m : Nat) (h : s.used < m) : consume s m = none := by
  simp [consume, h]

theorem window_eq {s : State} {q : Fifo.Q} (h : Sim s q) : window s = Fifo.samples q := by
  apply List.ext_getElem
  · simp [window, Fifo.samples, h.len_eq]
  · intro i h1 h2
    simp only [window, List.length_map, List.length_range] at h1
    have := h.mem_eq i h1
    simp only [List.getD_eq_getElem?_getD] at this
    have hq : i < q.length := by rw [h.len_eq]; exact h1
    simp [window, Fifo.samples, this, hq]

end RR.Ring

namespace RR.Ring

theorem flatMap_congr' {α β} {l : List α} {f g : α → List β} (h : ∀ a ∈ l, f a = g a) :
    l.flatMap f = l.flatMap g := by
  simp only [List.flatMap_def, List.map_congr_left h]

theorem flatMap_single {β} (n c0 : Nat) (X : List β) :
    (List.range n).flatMap (fun c => if c = c0 then X else []) = if c0 < n then X else [] := by
  induction n with
  | zero => simp
  | succ n ih =>
    rw [List.range_succ, List.flatMap_append, ih]
    by_cases h1 : c0 < n
    · have : ¬ n = c0 := by omega
      simp [h1, this, Nat.lt_succ_of_lt h1]
    · by_cases h2 : n = c0
      · subst h2; simp
      · have : ¬ c0 < n + 1 := by omega
        simp [h1, h2, this]

/-- The tags of FIFO element `i`, as stored-and-rebased ring tags. -/
def G (q : Fifo.Q) (i : Nat) : List Tag :=
  (q.getD i (0, [])).2.map fun kv => { pos := i, key := kv.1, val := kv.2 }

theorem G_nil {q : Fifo.Q} {i : Nat} (h : q.length ≤ i) : G q i = [] := by
  simp [G, List.getD_eq_getElem?_getD, List.getElem?_eq_none h]

/-- The read filter never removes anything (so its `> end` slack is harmless). -/
theorem filter_redundant {s : State} {q : Fifo.Q} (h : Sim s q) (c : Nat) (hc : c < s.cap)
    (hk : readKeeps s c = false) : s.tags c = [] := by
  apply h.tags_out c hc
  have hr := h.rpos_lt; have hu := h.used_le
  unfold readKeeps at hk
  rw [Nat.mod_eq_of_lt hc] at hk
  rw [mod2 (a := c + s.cap - s.rpos) (by omega)]
  simp only [] at hk
  split at hk
  · simp at hk; split <;> omega
  · rw [mod2 (a := s.rpos + s.used) (by omega)] at hk
    simp at hk; split at hk <;> split <;> omega

/-- What `read_buf` collects for one key. -/
theorem cell_tags {s : State} {q : Fifo.Q} (h : Sim s q) (c : Nat) (hc : c < s.cap) :
    (if readKeeps s c then (s.tags c).map (rebase s) else []) =
      G q ((c + s.cap - s.rpos) % s.cap) := by
  have hr := h.rpos_lt
  have hlt : (c + s.cap - s.rpos) % s.cap < s.cap := Nat.mod_lt _ h.cap_pos
  by_cases hu : (c + s.cap - s.rpos) % s.cap < s.used
  · have e := h.tags_eq _ hu
    rw [cell_off hr hc] at e
    have : (if readKeeps s c then (s.tags c).map (rebase s) else []) = (s.tags c).map (rebase s) := by
      cases hk : readKeeps s c
      · simp [filter_redundant h c hc hk]
      · simp
    rw [this, e]
    simp [G, rebase, Function.comp_def]
  · have e := h.tags_out c hc (by omega)
    rw [G_nil (by rw [h.len_eq]; omega), e]; simp

theorem G_filter (q : Fifo.Q) (i k : Nat) :
    (G q i).filter (fun t => t.pos == k) = if i = k then G q i else [] := by
  by_cases h : i = k
  · subst h; simp only [G, if_true, List.filter_eq_self]
    intro a ha; obtain ⟨kv, _, rfl⟩ := List.mem_map.mp ha; simp
  · simp only [G, h, if_false, List.filter_eq_nil_iff]
    intro a ha; obtain ⟨kv, _, rfl⟩ := List.mem_map.mp ha; simpa using h

theorem readTags_eq {s : State} {q : Fifo.Q} (h : Sim s q) :
    readTags s = (List.range s.used).flatMap (G q) := by
  have hr := h.rpos_lt; have hc := h.cap_pos
  have e1 : readTagsUnsorted s =
      (List.range s.cap).flatMap fun c => G q ((c + s.cap - s.rpos) % s.cap) := by
    unfold readTagsUnsorted
    exact flatMap_congr' fun c hcm => cell_tags h c (List.mem_range.mp hcm)
  have e2 : ∀ k, k < s.cap → (readTagsUnsorted s).filter (fun t => t.pos == k) = G q k := by
    intro k hk
    rw [e1, List.filter_flatMap]
    have : ∀ c ∈ List.range s.cap,
        (G q ((c + s.cap - s.rpos) % s.cap)).filter (fun t => t.pos == k) =
          if c = (s.rpos + k) % s.cap then G q k else [] := by
      intro c hcm
      have hcl := List.mem_range.mp hcm
      rw [G_filter]
      by_cases e : (c + s.cap - s.rpos) % s.cap = k
      · have : c = (s.rpos + k) % s.cap := by rw [← e, cell_off hr hcl]
        rw [if_pos e, if_pos this, e]
      · have : ¬ c = (s.rpos + k) % s.cap := by
          intro hh; apply e; rw [hh, off_cell hr hk]
        simp [e, this]
    rw [flatMap_congr' this, flatMap_single, if_pos (Nat.mod_lt _ hc)]
  unfold readTags stableSortByPos
  rw [flatMap_congr' fun k hkm => e2 k (List.mem_range.mp hkm)]
  -- cells beyond `used` hold nothing
  have hu := h.used_le
  have : s.cap = s.used + (s.cap - s.used) := by omega
  rw [this, List.range_add, List.flatMap_append]
  have : (List.map (fun x => s.used + x) (List.range (s.cap - s.used))).flatMap (G q) = [] := by
    apply List.flatMap_eq_nil_iff.mpr
    intro x hx
    simp only [List.mem_map, List.mem_range] at hx
    obtain ⟨y, _, rfl⟩ := hx
    exact G_nil (by rw [h.len_eq]; omega)
  rw [this, List.append_nil]

/-- `read_buf` tags, stated against the FIFO spec. -/
theorem readTags_spec {s : State} {q : Fifo.Q} (h : Sim s q) :
    (readTags s).map (fun t => ({ pos := t.pos, key := t.key, val := t.val } : Fifo.RTag)) =
      Fifo.tags q := by
  rw [readTags_eq h, Fifo.tags, h.len_eq, List.map_flatMap]
  apply flatMap_congr'
  intro i _
  simp [G, Function.comp_def]

end RR.Ring
