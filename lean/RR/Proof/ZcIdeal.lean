import RR.Proof.Gated
import Mathlib.Data.Rat.Floor
import Mathlib.Tactic.Linarith
import Mathlib.Tactic.Positivity

/-!
Clock recovery by `ZeroCrossing` on an ideal NRZ waveform, in EXACT arithmetic.

The block's step (`zcStep`, the very definition the driver runs in `Float32`
against the real block) is instantiated with rationals: `+ - /2 10*` exact,
`as u64` = floor, `as f32` = the cast. For every samples-per-symbol `sps ≥ 4`
(any rational, e.g. 50000/9600), every symbol sequence and any run lengths, the
block emits exactly one sample per symbol, taken inside that symbol, so the
slicer sees exactly the transmitted line levels. What the theorem cannot carry
is `f32` rounding of `last_cross += clock` (the block's `step_back` keeps those
values below `20·sps`, where `f32` has more than 16 fractional bits).
-/
namespace RR.Blk

/-- exact arithmetic -/
def ratZOps (pos : Nat → Bool) : ZOps ℚ :=
  { add := (· + ·), sub := (· - ·), half := (· / 2), mul10 := (10 * ·)
    ofNat := fun n => (n : ℚ), toNat := fun x => ⌊x⌋₊, pos := pos, enc := fun _ => 0 }

/-- the symbol a sample belongs to: symbol `s` occupies the sample instants `[s·sps, (s+1)·sps)` -/
def symIdx (sps : ℚ) (i : ℕ) : ℕ := ⌊(i : ℚ) / sps⌋₊

/-- ideal NRZ waveform: sample `i` is `hi` or `lo` according to its symbol -/
def wave (sps : ℚ) (b : List Bool) (hi lo : Nat) (i : ℕ) : Nat := if b.getD (symIdx sps i) false then hi else lo

theorem symIdx_eq (sps : ℚ) (hs : 0 < sps) (i s : ℕ) (h1 : (s : ℚ) * sps ≤ i) (h2 : (i : ℚ) < (s + 1) * sps) :
    symIdx sps i = s := by
  unfold symIdx
  rw [Nat.floor_eq_iff (by positivity)]
  constructor
  · rw [le_div_iff₀ hs]; exact h1
  · rw [div_lt_iff₀ hs]; exact h2

theorem symIdx_bounds (sps : ℚ) (hs : 0 < sps) (i : ℕ) :
    (symIdx sps i : ℚ) * sps ≤ i ∧ (i : ℚ) < (symIdx sps i + 1) * sps := by
  unfold symIdx
  have h0 : (0 : ℚ) ≤ (i : ℚ) / sps := by positivity
  constructor
  · have := Nat.floor_le h0
    rwa [le_div_iff₀ hs] at this
  · have := Nat.lt_floor_add_one ((i : ℚ) / sps)
    rwa [div_lt_iff₀ hs] at this

/-- The state of the block before sample `i`, with `k` symbols emitted: `L` is the absolute
`last_cross` (the block keeps `L - D`, `counter = i - D` after its step-backs). -/
def ZInv (sps : ℚ) (b : List Bool) (i k : ℕ) (st : ZcSt ℚ) : Prop :=
  ∃ (D : ℕ) (L : ℚ), st.clock = sps ∧ st.counter + D = i ∧ st.lastCross = L - D ∧ (D : ℚ) ≤ L ∧
    (k : ℚ) * sps ≤ L ∧ L < k * sps + 1 ∧ (i : ℚ) ≤ L + sps / 2 ∧ (k = 0 ∨ ((k : ℚ) - 1) * sps + 1 < i) ∧
    st.lastSign = (if i = 0 then false else b.getD (symIdx sps (i - 1)) false)

theorem zc_init (sps : ℚ) (hs : 4 ≤ sps) (b : List Bool) (pos : Nat → Bool) :
    ZInv sps b 0 0 (zcGated (ratZOps pos) sps 1).init := by
  refine ⟨0, 0, rfl, rfl, ?_, ?_, ?_, ?_, ?_, Or.inl rfl, rfl⟩ <;> simp [zcGated, ratZOps] <;> linarith

/-- the step-back leaves the invariant alone: it only moves the offset `D` -/
theorem zc_stepback (sps : ℚ) (hs : 4 ≤ sps) (b : List Bool) (i k : ℕ) (D : ℕ) (L : ℚ) (counter : ℕ) (sign : Bool)
    (h1 : counter + D = i + 1) (h2 : (D : ℚ) ≤ L)
    (h3 : (k : ℚ) * sps ≤ L) (h4 : L < k * sps + 1) (h5 : ((i + 1 : ℕ) : ℚ) ≤ L + sps / 2)
    (h6 : k = 0 ∨ ((k : ℚ) - 1) * sps + 1 < ((i + 1 : ℕ) : ℚ))
    (h7 : sign = b.getD (symIdx sps i) false) (lastSign0 : Bool) (lc0 : ℚ) (c0 : ℕ) :
    let S := ⌊10 * sps⌋₊
    ZInv sps b (i + 1) k
      (if decide (counter > S) && decide (⌊L - D⌋₊ > S) then
        { clock := sps, lastSign := sign, counter := counter - S, lastCross := (L - D) - (S : ℚ) }
       else { clock := sps, lastSign := sign, counter := counter, lastCross := L - D } : ZcSt ℚ) := by
  intro S
  have hls : sign = (if i + 1 = 0 then false else b.getD (symIdx sps (i + 1 - 1)) false) := by
    simp [h7]
  by_cases hc : counter > S ∧ ⌊L - D⌋₊ > S
  · have hcond : (decide (counter > S) && decide (⌊L - D⌋₊ > S)) = true := by
      rw [Bool.and_eq_true]; exact ⟨decide_eq_true hc.1, decide_eq_true hc.2⟩
    rw [if_pos hcond]
    have hge : ((S : ℚ) + 1) ≤ L - D := by
      have h0 : 0 ≤ L - (D : ℚ) := by linarith
      have := (Nat.le_floor_iff h0).mp (Nat.succ_le_of_lt hc.2)
      push_cast at this
      exact this
    refine ⟨D + S, L, rfl, ?_, ?_, ?_, h3, h4, h5, h6, hls⟩
    · show counter - S + (D + S) = i + 1
      omega
    · show (L - D) - (S : ℚ) = L - ((D + S : ℕ) : ℚ)
      push_cast; ring
    · push_cast; linarith
  · have hcond : ¬ ((decide (counter > S) && decide (⌊L - D⌋₊ > S)) = true) := by
      rw [Bool.and_eq_true]
      rintro ⟨a1, a2⟩
      exact hc ⟨of_decide_eq_true a1, of_decide_eq_true a2⟩
    rw [if_neg hcond]
    exact ⟨D, L, rfl, h1, rfl, h2, h3, h4, h5, h6, hls⟩

/-- **One sample.** -/
theorem zc_step (sps : ℚ) (hs : 4 ≤ sps) (b : List Bool) (pos : Nat → Bool) (hi lo : Nat) (hhi : pos hi = true)
    (hlo : pos lo = false) (i k : ℕ) (st : ZcSt ℚ) (hinv : ZInv sps b i k st) :
    let r := zcStep (ratZOps pos) st (wave sps b hi lo i)
    (r.2 = none ∧ ZInv sps b (i + 1) k r.1) ∨
    (∃ c, r.2 = some [wave sps b hi lo i, c] ∧ symIdx sps i = k ∧ ZInv sps b (i + 1) (k + 1) r.1) := by
  obtain ⟨D, L, hclk, hcnt, hlc, hDL, hk1, hk2, hi2, hi5, hsign⟩ := hinv
  have hsp : 0 < sps := by linarith
  have hpos : pos (wave sps b hi lo i) = b.getD (symIdx sps i) false := by
    unfold wave; split <;> simp_all
  -- the emission test
  have hfl : ⌊st.lastCross + st.clock / 2⌋₊ = ⌊L + sps / 2⌋₊ - D := by
    rw [hlc, hclk, show L - (D : ℚ) + sps / 2 = (L + sps / 2) - (D : ℚ) by ring, Nat.floor_sub_natCast]
  have hT0 : (0 : ℚ) ≤ L + sps / 2 := by
    have : (0 : ℚ) ≤ (D : ℚ) := by positivity
    linarith
  have hiT : i ≤ ⌊L + sps / 2⌋₊ := (Nat.le_floor_iff hT0).mpr hi2
  have hemit : (st.counter == ⌊st.lastCross + st.clock / 2⌋₊) = decide (i = ⌊L + sps / 2⌋₊) := by
    rw [hfl]
    by_cases h : i = ⌊L + sps / 2⌋₊
    · simp only [h, decide_true, beq_iff_eq]; omega
    · simp only [h, decide_false, beq_eq_false_iff_ne, ne_eq]; omega
  have hb' : (st.counter == (ratZOps pos).toNat ((ratZOps pos).add st.lastCross ((ratZOps pos).half st.clock))) =
      decide (i = ⌊L + sps / 2⌋₊) := hemit
  have hpos' : (ratZOps pos).pos (wave sps b hi lo i) = b.getD (symIdx sps i) false := hpos
  simp only [zcStep, hb', hpos']
  simp only [ratZOps]
  have hcast : (st.counter : ℚ) = (i : ℚ) - D := by
    have : ((st.counter + D : ℕ) : ℚ) = i := by rw [hcnt]
    push_cast at this; linarith
  by_cases he : i = ⌊L + sps / 2⌋₊
  · -- this sample is the symbol sample
    right
    have hT1 := Nat.floor_le hT0
    have hT2 := Nat.lt_floor_add_one (L + sps / 2)
    rw [← he] at hT1 hT2
    have hlow : (k : ℚ) * sps + 1 ≤ i := by linarith
    have hhigh : (i : ℚ) < (k + 1) * sps := by linarith
    have hsym : symIdx sps i = k := symIdx_eq sps hsp i k (by linarith) hhigh
    have hi1 : 1 ≤ i := by
      have : (0 : ℚ) ≤ (k : ℚ) * sps := by positivity
      have : (1 : ℚ) ≤ i := by linarith
      exact_mod_cast this
    have hsym' : symIdx sps (i - 1) = k := by
      apply symIdx_eq sps hsp
      · have : ((i - 1 : ℕ) : ℚ) = (i : ℚ) - 1 := by rw [Nat.cast_sub hi1]; simp
        rw [this]; linarith
      · have : ((i - 1 : ℕ) : ℚ) = (i : ℚ) - 1 := by rw [Nat.cast_sub hi1]; simp
        rw [this]; linarith
    have hnc : (b.getD (symIdx sps i) false != st.lastSign) = false := by
      rw [hsign, if_neg (by omega), hsym, hsym']; simp
    have hde : decide (i = ⌊L + sps / 2⌋₊) = true := decide_eq_true he
    simp only [hde, if_true, hnc, Bool.false_eq_true, if_false]
    refine ⟨0, rfl, hsym, ?_⟩
    rw [hclk, hlc, show L - (D : ℚ) + sps = (L + sps) - (D : ℚ) by ring]
    have := zc_stepback sps hs b i (k + 1) D (L + sps) (st.counter + 1) (b.getD (symIdx sps i) false)
      (by omega) (by linarith) (by push_cast; linarith) (by push_cast; linarith) (by push_cast; linarith)
      (Or.inr (by push_cast; linarith)) rfl st.lastSign st.lastCross st.counter
    simp only at this
    convert this using 2 <;> first | exact Iff.rfl | rfl
  · left
    have hlt : i + 1 ≤ ⌊L + sps / 2⌋₊ := by omega
    have hi2' : ((i + 1 : ℕ) : ℚ) ≤ L + sps / 2 := (Nat.le_floor_iff hT0).mp hlt
    have hi5' : k = 0 ∨ ((k : ℚ) - 1) * sps + 1 < ((i + 1 : ℕ) : ℚ) := by
      rcases hi5 with h | h
      · exact Or.inl h
      · right; push_cast; linarith
    have hde : decide (i = ⌊L + sps / 2⌋₊) = false := decide_eq_false he
    simp only [hde, Bool.false_eq_true, if_false]
    refine ⟨trivial, ?_⟩
    by_cases hx : (b.getD (symIdx sps i) false != st.lastSign) = true
    · -- a zero crossing: this is the first sample of symbol `k`
      simp only [hx, if_true]
      have hfirst : (k : ℚ) * sps ≤ i ∧ (i : ℚ) < k * sps + 1 := by
        obtain ⟨sb1, sb2⟩ := symIdx_bounds sps hsp i
        have hsk : symIdx sps i ≤ k := by
          have : (i : ℚ) < (k + 1) * sps := by push_cast at hi2'; linarith
          have h3 : (symIdx sps i : ℚ) * sps < (k + 1) * sps := lt_of_le_of_lt sb1 this
          have h4 : (symIdx sps i : ℚ) < (k : ℚ) + 1 := lt_of_mul_lt_mul_right h3 hsp.le
          have : symIdx sps i < k + 1 := by exact_mod_cast h4
          omega
        by_cases hi0 : i = 0
        · subst hi0
          have hk0 : k = 0 := by
            rcases hi5 with h | h
            · exact h
            · by_contra hk
              have h1k : (1 : ℚ) ≤ k := by exact_mod_cast (Nat.one_le_iff_ne_zero.mpr hk)
              have : (0 : ℚ) ≤ ((k : ℚ) - 1) * sps := mul_nonneg (by linarith) hsp.le
              have h' : ((k : ℚ) - 1) * sps + 1 < 0 := by simpa using h
              linarith
          subst hk0; simp
        · have hi1 : 1 ≤ i := by omega
          have hcastm : ((i - 1 : ℕ) : ℚ) = (i : ℚ) - 1 := by rw [Nat.cast_sub hi1]; simp
          rw [hsign, if_neg hi0] at hx
          have hne : symIdx sps i ≠ symIdx sps (i - 1) := by
            intro h; rw [h] at hx; simp at hx
          obtain ⟨pb1, pb2⟩ := symIdx_bounds sps hsp (i - 1)
          have hmono : symIdx sps (i - 1) ≤ symIdx sps i := by
            unfold symIdx
            apply Nat.floor_le_floor
            apply div_le_div_of_nonneg_right _ hsp.le
            rw [hcastm]; linarith
          have hlt2 : symIdx sps (i - 1) + 1 ≤ symIdx sps i := by omega
          have hfi : (i : ℚ) < symIdx sps i * sps + 1 := by
            have : ((symIdx sps (i - 1) : ℚ) + 1) * sps ≤ symIdx sps i * sps := by
              apply mul_le_mul_of_nonneg_right _ hsp.le
              exact_mod_cast hlt2
            rw [hcastm] at pb2; linarith
          have hks : k ≤ symIdx sps i := by
            rcases hi5 with h | h
            · omega
            · have h3 : ((k : ℚ) - 1) * sps < symIdx sps i * sps := by linarith
              have h4 : (k : ℚ) - 1 < symIdx sps i := lt_of_mul_lt_mul_right h3 hsp.le
              have : (k : ℚ) < symIdx sps i + 1 := by linarith
              have : k < symIdx sps i + 1 := by exact_mod_cast this
              omega
          have : symIdx sps i = k := by omega
          rw [this] at sb1 hfi
          exact ⟨sb1, hfi⟩
      rw [hclk]
      have := zc_stepback sps hs b i k D (i : ℚ) (st.counter + 1) (b.getD (symIdx sps i) false)
        (by omega) (by have : D ≤ i := by omega
                       exact_mod_cast this) hfirst.1 hfirst.2 (by push_cast; linarith) hi5' rfl st.lastSign st.lastCross
        st.counter
      simp only at this
      rw [hcast]
      convert this using 2 <;> first | exact Iff.rfl | rfl
    · have hx' : (b.getD (symIdx sps i) false != st.lastSign) = false := by simpa using hx
      simp only [hx', Bool.false_eq_true, if_false]
      rw [hclk, hlc]
      have := zc_stepback sps hs b i k D L (st.counter + 1) (b.getD (symIdx sps i) false)
        (by omega) hDL hk1 hk2 hi2' hi5' rfl st.lastSign st.lastCross st.counter
      simp only at this
      convert this using 2 <;> first | exact Iff.rfl | rfl

/-- sign of the symbol sample of a row -/
def rowSign (pos : Nat → Bool) (r : List Nat) : Bool := pos (r.getD 0 0)

/-- **Any stretch of the waveform.** -/
theorem zc_run (sps : ℚ) (hs : 4 ≤ sps) (b : List Bool) (pos : Nat → Bool) (hi lo : Nat) (hhi : pos hi = true)
    (hlo : pos lo = false) (N : ℕ) (hN : (N : ℚ) < b.length * sps + 1) :
    ∀ (n i k : ℕ) (st : ZcSt ℚ) (rows : List (List Nat)), i + n ≤ N → k ≤ b.length → ZInv sps b i k st →
      rows.map (rowSign pos) = b.take k →
      ∃ st' k' rows', gatedRun (zcGated (ratZOps pos) sps 1) ((List.range' i n).map (wave sps b hi lo)) st rows =
          some (st', rows') ∧ k' ≤ b.length ∧ ZInv sps b (i + n) k' st' ∧ rows'.map (rowSign pos) = b.take k' := by
  have hsp : 0 < sps := by linarith
  intro n
  induction n with
  | zero =>
    intro i k st rows _ hk hinv hrows
    exact ⟨st, k, rows, by simp [gatedRun], hk, by simpa using hinv, hrows⟩
  | succ n ih =>
    intro i k st rows hin hk hinv hrows
    rw [List.range'_succ, List.map_cons]
    simp only [gatedRun]
    have hstep := zc_step sps hs b pos hi lo hhi hlo i k st hinv
    simp only at hstep
    have hG : (zcGated (ratZOps pos) sps 1).step st (wave sps b hi lo i) =
        some (zcStep (ratZOps pos) st (wave sps b hi lo i)) := rfl
    rw [hG]
    generalize zcStep (ratZOps pos) st (wave sps b hi lo i) = r at hstep
    obtain ⟨st1, out⟩ := r
    rcases hstep with ⟨ho, hinv'⟩ | ⟨c, ho, hsym, hinv'⟩
    · simp only at ho hinv'
      subst ho
      simp only []
      have := ih (i + 1) k st1 rows (by omega) hk hinv' hrows
      rw [show i + 1 + n = i + (n + 1) by omega] at this
      exact this
    · simp only at ho hinv'
      subst ho
      simp only []
      -- the emitted symbol exists
      have hilt : (i : ℚ) < b.length * sps := by
        have : i + 1 ≤ N := by omega
        have : ((i + 1 : ℕ) : ℚ) ≤ N := by exact_mod_cast this
        push_cast at this; linarith
      have hkm : k < b.length := by
        obtain ⟨sb1, _⟩ := symIdx_bounds sps hsp i
        rw [hsym] at sb1
        have h3 : (k : ℚ) * sps < b.length * sps := lt_of_le_of_lt sb1 hilt
        have h4 : (k : ℚ) < b.length := lt_of_mul_lt_mul_right h3 hsp.le
        exact_mod_cast h4
      have hrows' : (rows ++ [[wave sps b hi lo i, c]]).map (rowSign pos) = b.take (k + 1) := by
        rw [List.map_append, hrows, List.take_add_one]
        congr 1
        have hw : pos (wave sps b hi lo i) = b.getD k false := by
          unfold wave; rw [hsym]; split <;> simp_all
        simp only [List.map_cons, List.map_nil, rowSign, List.getD_cons_zero, hw]
        rw [List.getD_eq_getElem?_getD, List.getElem?_eq_getElem hkm]
        simp
      have := ih (i + 1) (k + 1) st1 _ (by omega) (by omega) hinv' hrows'
      rw [show i + 1 + n = i + (n + 1) by omega] at this
      exact this

/-- the ideal waveform of `b`: all samples of `|b|` symbols -/
def idealWave (sps : ℚ) (b : List Bool) (hi lo : Nat) : List Nat :=
  (List.range ⌈(b.length : ℚ) * sps⌉₊).map (wave sps b hi lo)

/-- **Clock recovery on an ideal waveform**: one row per symbol, with the symbol's sign. -/
theorem zc_ideal (sps : ℚ) (hs : 4 ≤ sps) (b : List Bool) (pos : Nat → Bool) (hi lo : Nat) (hhi : pos hi = true)
    (hlo : pos lo = false) :
    ∃ st rows, gatedRun (zcGated (ratZOps pos) sps 1) (idealWave sps b hi lo) (zcGated (ratZOps pos) sps 1).init [] =
      some (st, rows) ∧ rows.map (rowSign pos) = b := by
  have hsp : 0 < sps := by linarith
  have h0 : (0 : ℚ) ≤ (b.length : ℚ) * sps := by positivity
  have hN := Nat.ceil_lt_add_one h0
  obtain ⟨st', k', rows', hrun, hk', hinv, hrows⟩ := zc_run sps hs b pos hi lo hhi hlo _ hN
    ⌈(b.length : ℚ) * sps⌉₊ 0 0 _ [] (by omega) (Nat.zero_le _) (zc_init sps hs b pos) (by simp)
  refine ⟨st', rows', ?_, ?_⟩
  · unfold idealWave; rw [List.range_eq_range']; exact hrun
  · obtain ⟨D, L, _, _, _, _, _, hk2, hi2, _, _⟩ := hinv
    have hle := Nat.le_ceil ((b.length : ℚ) * sps)
    simp only [Nat.zero_add] at hi2
    have h3 : (b.length : ℚ) * sps < ((k' : ℚ) + 1) * sps := by linarith
    have h4 : (b.length : ℚ) < (k' : ℚ) + 1 := lt_of_mul_lt_mul_right h3 hsp.le
    have : b.length < k' + 1 := by exact_mod_cast h4
    have hk : k' = b.length := by omega
    rw [hrows, hk, List.take_length]

end RR.Blk
