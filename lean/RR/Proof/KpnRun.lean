import RR.Proof.Kpn

/-!
The operational layer under `Kpn.quiescent_is_reference` (C05, C06): a graph
state is, for every stream, the history committed so far and, for every block,
how much of each input it has consumed. A *step* lets any one block consume
more of what is available and brings its outputs up to its history function of
what it has consumed (that is what the per-block theorems of C08 say a sequence
of `work()` calls does). For EVERY sequence of such steps — any interleaving,
any amounts, any number of steps — each block's outputs stay its function of
what it has consumed; and a state in which everything has been consumed is the
sequential reference execution.
-/
namespace RR.Kpn

/-- the id of the first output stream of node `m` (streams are numbered in creation order) -/
def base (nodes : List Node) (m : Nat) : Nat := ((nodes.take m).map (·.nout)).sum

/-- what node `n` has consumed: a prefix of each of its input histories -/
def consumedOf (n : Node) (h : List (List Nat)) (cs : List Nat) : List (List Nat) :=
  (List.range n.ins.length).map fun k => (h.getD (n.ins.getD k 0) []).take (cs.getD k 0)

structure GState where
  /-- committed history of every stream -/
  h : List (List Nat)
  /-- per node, per input: number of samples consumed -/
  cs : List (List Nat)

/-- every block's outputs so far are a prefix of its history function of what it has consumed (equal once the
block has emitted all it can: a block may lag behind, e.g. `Delay` before its first call owes its zeros); it has
consumed no more than exists -/
def Inv (nodes : List Node) (s : GState) : Prop :=
  s.h.length = base nodes nodes.length ∧
  ∀ m, (hm : m < nodes.length) →
    (∀ i ∈ nodes[m].ins, i < base nodes m) ∧
    (∀ j, j < nodes[m].nout → ∃ ext,
      (nodes[m].F (consumedOf nodes[m] s.h (s.cs.getD m []))).getD j [] = s.h.getD (base nodes m + j) [] ++ ext) ∧
    (∀ k, k < nodes[m].ins.length →
      (s.cs.getD m []).getD k 0 ≤ (s.h.getD (nodes[m].ins.getD k 0) []).length)

/-- One step by node `idx` (any number of `work()` calls of that block): it has now consumed `cs'` (no less than
before, no more than there is), its outputs have grown and are still a prefix of its function of what it has
consumed, and nothing else changes. -/
structure Step (nodes : List Node) (idx : Nat) (s s' : GState) : Prop where
  hidx : idx < nodes.length
  len : s'.h.length = s.h.length
  cs_other : ∀ m, m ≠ idx → s'.cs.getD m [] = s.cs.getD m []
  cs_mono : ∀ k, (s.cs.getD idx []).getD k 0 ≤ (s'.cs.getD idx []).getD k 0
  cs_avail : ∀ k, k < (nodes[idx]'hidx).ins.length →
    (s'.cs.getD idx []).getD k 0 ≤ (s.h.getD ((nodes[idx]'hidx).ins.getD k 0) []).length
  outs : ∀ j, j < (nodes[idx]'hidx).nout → ∃ ext,
    ((nodes[idx]'hidx).F (consumedOf (nodes[idx]'hidx) s.h (s'.cs.getD idx []))).getD j [] =
      s'.h.getD (base nodes idx + j) [] ++ ext
  grow : ∀ t, ∃ ext, s'.h.getD t [] = s.h.getD t [] ++ ext
  others : ∀ t, (t < base nodes idx ∨ base nodes idx + (nodes[idx]'hidx).nout ≤ t) → s'.h.getD t [] = s.h.getD t []

theorem base_mono (nodes : List Node) (a b : Nat) (h : a ≤ b) : base nodes a ≤ base nodes b := by
  unfold base
  obtain ⟨d, rfl⟩ := Nat.exists_eq_add_of_le h
  rw [List.take_add, List.map_append, List.sum_append]
  omega

theorem base_succ (nodes : List Node) (m : Nat) (hm : m < nodes.length) :
    base nodes (m + 1) = base nodes m + nodes[m].nout := by
  unfold base
  rw [List.take_add_one, List.getElem?_eq_getElem hm]
  simp only [Option.toList_some, List.map_append, List.map_cons, List.map_nil, List.sum_append, List.sum_cons,
    List.sum_nil, Nat.add_zero]

/-- consumed prefixes do not change when histories only grow -/
theorem consumedOf_stable (n : Node) (h h' : List (List Nat)) (cs : List Nat)
    (hgrow : ∀ t, ∃ ext, h'.getD t [] = h.getD t [] ++ ext)
    (hav : ∀ k, k < n.ins.length → cs.getD k 0 ≤ (h.getD (n.ins.getD k 0) []).length) :
    consumedOf n h' cs = consumedOf n h cs := by
  unfold consumedOf
  apply List.map_congr_left
  intro k hk
  simp only [List.mem_range] at hk
  obtain ⟨ext, he⟩ := hgrow (n.ins.getD k 0)
  rw [he, List.take_append_of_le_length (hav k hk)]

/-- **One step preserves the invariant.** -/
theorem step_inv (nodes : List Node) (idx : Nat) (s s' : GState) (hinv : Inv nodes s) (st : Step nodes idx s s') :
    Inv nodes s' := by
  obtain ⟨hlen, hall⟩ := hinv
  refine ⟨by rw [st.len, hlen], ?_⟩
  intro m hm
  obtain ⟨hw, hlaw, hcnt⟩ := hall m hm
  refine ⟨hw, ?_, ?_⟩
  · intro j hj
    by_cases hmi : m = idx
    · subst hmi
      obtain ⟨ext, he⟩ := st.outs j hj
      refine ⟨ext, ?_⟩
      rw [← he]
      congr 1
      congr 1
      exact consumedOf_stable _ s.h s'.h _ st.grow st.cs_avail
    · -- another block's outputs are untouched, and so is what it has consumed
      have hpos : base nodes m + j < base nodes idx ∨ base nodes idx + (nodes[idx]'st.hidx).nout ≤ base nodes m + j := by
        rcases Nat.lt_or_gt_of_ne hmi with h | h
        · left
          have := base_mono nodes (m + 1) idx (by omega)
          rw [base_succ nodes m hm] at this
          omega
        · right
          have := base_mono nodes (idx + 1) m (by omega)
          rw [base_succ nodes idx st.hidx] at this
          omega
      obtain ⟨ext, he⟩ := hlaw j hj
      refine ⟨ext, ?_⟩
      rw [st.others _ hpos, st.cs_other m hmi, ← he]
      congr 1
      congr 1
      exact consumedOf_stable _ s.h s'.h _ st.grow hcnt
  · intro k hk
    obtain ⟨ext, he⟩ := st.grow (nodes[m].ins.getD k 0)
    by_cases hmi : m = idx
    · subst hmi
      have := st.cs_avail k hk
      rw [he, List.length_append]; omega
    · rw [st.cs_other m hmi, he, List.length_append]
      have := hcnt k hk
      omega

/-- any number of steps by any blocks in any order -/
inductive Run (nodes : List Node) : GState → GState → Prop where
  | refl (s) : Run nodes s s
  | step (s s' s'' idx) : Step nodes idx s s' → Run nodes s' s'' → Run nodes s s''

/-- **Every schedule preserves the invariant.** -/
theorem run_inv (nodes : List Node) (s s' : GState) (hinv : Inv nodes s) (r : Run nodes s s') : Inv nodes s' := by
  induction r with
  | refl => exact hinv
  | step s s1 s2 idx st _ ih => exact ih (step_inv nodes idx s s1 hinv st)

/-- everything that exists has been consumed, and every block has emitted all it can -/
def AllConsumed (nodes : List Node) (s : GState) : Prop :=
  ∀ m, (hm : m < nodes.length) →
    (∀ k, k < nodes[m].ins.length → (s.cs.getD m []).getD k 0 = (s.h.getD (nodes[m].ins.getD k 0) []).length) ∧
    (∀ j, j < nodes[m].nout →
      s.h.getD (base nodes m + j) [] = (nodes[m].F (consumedOf nodes[m] s.h (s.cs.getD m []))).getD j [])

theorem consumedOf_all (n : Node) (h : List (List Nat)) (cs : List Nat)
    (hall : ∀ k, k < n.ins.length → cs.getD k 0 = (h.getD (n.ins.getD k 0) []).length) :
    consumedOf n h cs = inputsOf n h := by
  unfold consumedOf inputsOf
  apply List.ext_getElem
  · simp
  · intro k h1 h2
    simp only [List.length_map, List.length_range] at h1
    simp only [List.getElem_map, List.getElem_range]
    rw [hall k h1, List.take_length]
    congr 1
    simp [List.getD_eq_getElem?_getD, h1]

/-- the invariant with everything consumed is `Quiescent` for the tail of the node list from any index on -/
theorem inv_quiescent_from (nodes : List Node) (s : GState) (hinv : Inv nodes s) (hall : AllConsumed nodes s) :
    ∀ (d m : Nat), m + d = nodes.length → Quiescent (nodes.drop m) (base nodes m) s.h := by
  intro d
  induction d with
  | zero =>
    intro m hm
    have : nodes.drop m = [] := List.drop_eq_nil_of_le (by omega)
    rw [this]
    simp only [Quiescent]
    rw [hinv.1]
    congr 1
    omega
  | succ d ih =>
    intro m hm
    have hml : m < nodes.length := by omega
    rw [List.drop_eq_getElem_cons hml]
    obtain ⟨hw, _, _⟩ := hinv.2 m hml
    refine ⟨hw, ?_, ?_⟩
    · intro j hj
      rw [(hall m hml).2 j hj, consumedOf_all _ _ _ (hall m hml).1]
    · rw [← base_succ nodes m hml]
      exact ih (m + 1) (by omega)

/-- **Terminal states.** Whatever the schedule was: if the invariant holds, every block has consumed everything
that was produced for it and has emitted all it can, the histories are the sequential reference execution. -/
theorem terminal_is_reference (nodes : List Node) (s : GState) (hinv : Inv nodes s) (hall : AllConsumed nodes s) :
    s.h = eval nodes [] := by
  have q := inv_quiescent_from nodes s hinv hall nodes.length 0 (by omega)
  simp only [List.drop_zero, base, List.take_zero, List.map_nil, List.sum_nil] at q
  exact quiescent_is_reference nodes s.h q

/-- the empty initial state satisfies the invariant, for any wiring that only refers to earlier streams -/
theorem inv_init (nodes : List Node) (hw : ∀ m, (hm : m < nodes.length) → ∀ i ∈ nodes[m].ins, i < base nodes m) :
    Inv nodes ⟨List.replicate (base nodes nodes.length) [], []⟩ := by
  refine ⟨by simp, ?_⟩
  intro m hm
  refine ⟨hw m hm, ?_, ?_⟩
  · intro j _
    refine ⟨(nodes[m].F (consumedOf nodes[m] (List.replicate (base nodes nodes.length) [])
      (([] : List (List Nat)).getD m []))).getD j [], ?_⟩
    have : (List.replicate (base nodes nodes.length) ([] : List Nat)).getD (base nodes m + j) [] = [] := by
      rw [List.getD_eq_getElem?_getD]
      cases h : (List.replicate (base nodes nodes.length) ([] : List Nat))[base nodes m + j]? with
      | none => rfl
      | some v =>
        have := List.mem_of_getElem? h
        simp only [List.mem_replicate] at this
        simp [this.2]
    rw [this, List.nil_append]
  · intro k _
    simp

/-- **Every schedule, from the start**: any run from the empty state that ends with everything consumed and
emitted has computed the sequential reference execution. -/
theorem run_terminal (nodes : List Node) (hw : ∀ m, (hm : m < nodes.length) → ∀ i ∈ nodes[m].ins, i < base nodes m)
    (s : GState) (r : Run nodes ⟨List.replicate (base nodes nodes.length) [], []⟩ s) (hall : AllConsumed nodes s) :
    s.h = eval nodes [] :=
  terminal_is_reference nodes s (run_inv nodes _ s (inv_init nodes hw) r) hall

/-! ### An executable step, and that it is a `Step` -/

theorem getD_map_range (L : Nat) (f : Nat → List Nat) (t : Nat) :
    ((List.range L).map f).getD t [] = if t < L then f t else [] := by
  rw [List.getD_eq_getElem?_getD]
  by_cases h : t < L
  · simp [h]
  · simp [h]

theorem getD_map_range' (L : Nat) (f : Nat → List (Nat)) (t : Nat) (d : List Nat) (hd : d = []) :
    ((List.range L).map f).getD t d = if t < L then f t else [] := by
  subst hd; exact getD_map_range L f t

/-- node `idx` consumes up to `cs'` and emits everything its function gives for that -/
def stepFn (nodes : List Node) (idx : Nat) (cs' : List Nat) (s : GState) : GState :=
  match nodes[idx]? with
  | none => s
  | some n =>
    let outs := n.F (consumedOf n s.h cs')
    let b := base nodes idx
    { h := (List.range s.h.length).map fun t =>
        if b ≤ t ∧ t < b + n.nout then outs.getD (t - b) [] else s.h.getD t []
      cs := (List.range (max s.cs.length (idx + 1))).map fun m => if m = idx then cs' else s.cs.getD m [] }

theorem stepFn_step (nodes : List Node) (idx : Nat) (cs' : List Nat) (s : GState) (hidx : idx < nodes.length)
    (hinv : Inv nodes s)
    (hmono : ∀ k, (s.cs.getD idx []).getD k 0 ≤ cs'.getD k 0)
    (hav : ∀ k, k < nodes[idx].ins.length → cs'.getD k 0 ≤ (s.h.getD (nodes[idx].ins.getD k 0) []).length)
    (hext : ∀ j, j < nodes[idx].nout → ∃ ext,
      (nodes[idx].F (consumedOf nodes[idx] s.h cs')).getD j [] = s.h.getD (base nodes idx + j) [] ++ ext) :
    Step nodes idx s (stepFn nodes idx cs' s) := by
  have hget : nodes[idx]? = some nodes[idx] := List.getElem?_eq_getElem hidx
  have hb : base nodes idx + nodes[idx].nout ≤ s.h.length := by
    rw [hinv.1, ← base_succ nodes idx hidx]
    exact base_mono nodes (idx + 1) nodes.length (by omega)
  have hcs : ∀ m, (stepFn nodes idx cs' s).cs.getD m [] = if m = idx then cs' else s.cs.getD m [] := by
    intro m
    simp only [stepFn, hget]
    rw [getD_map_range]
    by_cases hm : m = idx
    · subst hm
      have : m < max s.cs.length (m + 1) := by omega
      simp [this]
    · simp only [hm, if_false]
      by_cases hlt : m < max s.cs.length (idx + 1)
      · simp [hlt]
      · simp only [hlt, if_false]
        rw [List.getD_eq_getElem?_getD, List.getElem?_eq_none (by omega)]
        rfl
  have hh : ∀ t, (stepFn nodes idx cs' s).h.getD t [] =
      if base nodes idx ≤ t ∧ t < base nodes idx + nodes[idx].nout then
        (nodes[idx].F (consumedOf nodes[idx] s.h cs')).getD (t - base nodes idx) [] else s.h.getD t [] := by
    intro t
    simp only [stepFn, hget]
    rw [getD_map_range]
    by_cases hlt : t < s.h.length
    · simp [hlt]
    · have h1 : ¬ (base nodes idx ≤ t ∧ t < base nodes idx + nodes[idx].nout) := by omega
      simp only [hlt, if_false, h1]
      rw [List.getD_eq_getElem?_getD, List.getElem?_eq_none (by omega)]
      rfl
  refine ⟨hidx, by simp [stepFn, hget], ?_, ?_, ?_, ?_, ?_, ?_⟩
  · intro m hm; rw [hcs]; simp [hm]
  · intro k; rw [hcs]; simpa using hmono k
  · intro k hk; rw [hcs]; simpa using hav k hk
  · intro j hj
    refine ⟨[], ?_⟩
    rw [hcs, hh]
    have : base nodes idx ≤ base nodes idx + j ∧ base nodes idx + j < base nodes idx + nodes[idx].nout := by omega
    simp [this]
  · intro t
    rw [hh]
    by_cases ht : base nodes idx ≤ t ∧ t < base nodes idx + nodes[idx].nout
    · simp only [ht, and_self, if_true]
      obtain ⟨ext, he⟩ := hext (t - base nodes idx) (by omega)
      refine ⟨ext, ?_⟩
      rw [he]
      congr 2
      omega
    · simp only [ht, if_false]
      exact ⟨[], by simp⟩
  · intro t ht
    rw [hh]
    have : ¬ (base nodes idx ≤ t ∧ t < base nodes idx + nodes[idx].nout) := by omega
    simp [this]

end RR.Kpn
