import RR.Proof.Hand

/-!
`RationalResampler` for every chunking: however the input is split into read
windows and however much output space is free at each call (including a full
output in the middle of the copies of one sample), the cumulative output is a
prefix of — and, once everything is consumed, equal to — the reference output
`resRef`: the same arithmetic with unbounded output space.
-/
namespace RR.Blk

/-- all copies of one sample: emit while the counter is positive -/
def emitAll (D : Int) (s : Nat) : Nat → Int → Int × List Nat
  | 0, c => (c, [])
  | fuel + 1, c => if c > 0 then ((emitAll D s fuel (c - D)).1, s :: (emitAll D s fuel (c - D)).2) else (c, [])

/-- the reference resampler: unbounded output space -/
def resRef (I D : Int) : Int → List Nat → List Nat
  | _, [] => []
  | c, s :: rest =>
    (emitAll D s ((c + I).toNat + 1) (c + I)).2 ++ resRef I D (emitAll D s ((c + I).toNat + 1) (c + I)).1 rest

theorem emitAll_nonpos (D : Int) (s : Nat) (fuel : Nat) (c : Int) (h : c ≤ 0) : emitAll D s fuel c = (c, []) := by
  cases fuel with
  | zero => rfl
  | succ f => simp only [emitAll]; rw [if_neg (by omega)]

/-- enough fuel is enough -/
theorem emitAll_fuel (D : Int) (hD : 0 < D) (s : Nat) : ∀ (f1 f2 : Nat) (c : Int),
    c.toNat + 1 ≤ f1 → c.toNat + 1 ≤ f2 → emitAll D s f1 c = emitAll D s f2 c := by
  intro f1
  induction f1 with
  | zero => intro f2 c h1 _; omega
  | succ f1 ih =>
    intro f2 c h1 h2
    cases f2 with
    | zero => omega
    | succ f2 =>
      simp only [emitAll]
      by_cases hc : c > 0
      · rw [if_pos hc, if_pos hc, ih f2 (c - D) (by omega) (by omega)]
      · rw [if_neg hc, if_neg hc]

/-- the bounded loop of the code against `emitAll` -/
theorem emit_rel (D : Int) (hD : 0 < D) (olen s : Nat) : ∀ (fuel : Nat) (c : Int) (out : List Nat),
    c.toNat + 1 ≤ fuel →
    ∃ l1, (emitCopies D olen s fuel c out).2.1 = out ++ l1 ∧ l1.length ≤ fuel ∧
      (emitCopies D olen s fuel c out).1.toNat + 1 ≤ fuel - l1.length ∧
      emitAll D s fuel c =
        ((emitAll D s (fuel - l1.length) (emitCopies D olen s fuel c out).1).1,
          l1 ++ (emitAll D s (fuel - l1.length) (emitCopies D olen s fuel c out).1).2) ∧
      ((emitCopies D olen s fuel c out).2.2 = false → (emitCopies D olen s fuel c out).1 ≤ 0) ∧
      ((emitCopies D olen s fuel c out).2.2 = true → (emitCopies D olen s fuel c out).2.1.length = olen) := by
  intro fuel
  induction fuel with
  | zero => intro c out h; omega
  | succ f ih =>
    intro c out h
    simp only [emitCopies]
    by_cases hc : c > 0
    · simp only [hc, if_true]
      by_cases hfull : ((out ++ [s]).length == olen) = true
      · simp only [hfull, if_true]
        refine ⟨[s], rfl, by simp, by simp; omega, ?_, by simp, ?_⟩
        · simp only [emitAll, hc, if_true, List.length_singleton, Nat.add_sub_cancel, List.singleton_append]
        · intro _; simpa using hfull
      · simp only [hfull, if_false, Bool.false_eq_true]
        obtain ⟨l1, h1, h2, h3, h4, h5, h6⟩ := ih (c - D) (out ++ [s]) (by omega)
        refine ⟨s :: l1, ?_, by simp; omega, ?_, ?_, h5, h6⟩
        · rw [h1]; simp
        · simp only [List.length_cons]
          have : f + 1 - (l1.length + 1) = f - l1.length := by omega
          rw [this]; exact h3
        · simp only [emitAll, hc, if_true, List.length_cons]
          have : f + 1 - (l1.length + 1) = f - l1.length := by omega
          rw [this, h4]
          simp
    · simp only [hc, if_false]
      refine ⟨[], by simp, by simp, by simp; omega, ?_, by intro _; omega, by simp⟩
      simp only [List.length_nil, Nat.sub_zero, List.nil_append]

/-- **One pass of the code's sample loop against the reference.** -/
theorem res_rel (I D : Int) (hD : 0 < D) (olen : Nat) (w : List Nat) :
    ∀ (c : Int) (taken : Nat) (out : List Nat),
    ∃ o k, (resLoop I D olen w c taken out).2.2.1 = out ++ o ∧
      (resLoop I D olen w c taken out).2.1 = taken + k ∧ k ≤ w.length ∧
      (∀ tail, resRef I D c (w ++ tail) =
        o ++ resRef I D (resLoop I D olen w c taken out).1 ((w ++ tail).drop k)) ∧
      ((resLoop I D olen w c taken out).2.2.2 = true → (resLoop I D olen w c taken out).2.2.1.length = olen) ∧
      ((resLoop I D olen w c taken out).2.2.2 = false → k = w.length) := by
  induction w with
  | nil =>
    intro c taken out
    exact ⟨[], 0, by simp [resLoop], by simp [resLoop], by simp, by intro tail; simp [resLoop], by simp [resLoop],
      by simp [resLoop]⟩
  | cons s rest ih =>
    intro c taken out
    obtain ⟨l1, h1, h2, h3, h4, h5, h6⟩ := emit_rel D hD olen s ((c + I).toNat + 1) (c + I) out (by omega)
    simp only [resLoop]
    generalize hE : emitCopies D olen s ((c + I).toNat + 1) (c + I) out = E at h1 h2 h3 h4 h5 h6
    obtain ⟨c2, out2, full⟩ := E
    simp only at h1 h2 h3 h4 h5 h6 ⊢
    cases full with
    | true =>
      simp only [if_true]
      by_cases hc2 : c2 > 0
      · -- output full in the middle of the copies: the sample stays, the counter is rewound
        simp only [hc2, if_true]
        refine ⟨l1, 0, h1, by simp, by simp, ?_, by intro _; exact h6 rfl, by intro h; cases h⟩
        intro tail
        simp only [List.cons_append, List.drop_zero, resRef]
        rw [h4]
        have e : c2 - I + I = c2 := by omega
        rw [e, emitAll_fuel D hD s ((c + I).toNat + 1 - l1.length) (c2.toNat + 1) c2 h3 (by omega)]
        simp
      · simp only [hc2, if_false]
        refine ⟨l1, 1, h1, rfl, by simp, ?_, by intro _; exact h6 rfl, by intro h; cases h⟩
        intro tail
        simp only [List.cons_append, List.drop_succ_cons, List.drop_zero, resRef]
        rw [h4, emitAll_nonpos D s _ c2 (by omega)]
        simp
    | false =>
      simp only [Bool.false_eq_true, if_false]
      have hc2 := h5 rfl
      obtain ⟨o, k, g1, g2, g3, g4, g5, g6⟩ := ih c2 (taken + 1) out2
      refine ⟨l1 ++ o, k + 1, ?_, by rw [g2]; omega, by simp; omega, ?_, g5, ?_⟩
      · rw [g1, h1]; simp
      · intro tail
        simp only [List.cons_append, List.drop_succ_cons, resRef]
        rw [h4, emitAll_nonpos D s _ c2 hc2]
        simp only [List.append_nil, List.append_assoc]
        rw [g4 tail]
      · intro h; rw [g6 h]; simp

theorem emit_len (D : Int) (olen s : Nat) : ∀ (fuel : Nat) (c : Int) (out : List Nat), out.length < olen →
    ((emitCopies D olen s fuel c out).2.2 = false → (emitCopies D olen s fuel c out).2.1.length < olen) ∧
    ((emitCopies D olen s fuel c out).2.2 = true → (emitCopies D olen s fuel c out).2.1.length = olen) := by
  intro fuel
  induction fuel with
  | zero => intro c out h; simp [emitCopies, h]
  | succ f ih =>
    intro c out h
    simp only [emitCopies]
    by_cases hc : c > 0
    · simp only [hc, if_true]
      by_cases hfull : ((out ++ [s]).length == olen) = true
      · simp only [hfull, if_true]
        exact ⟨by simp, by intro _; simpa using hfull⟩
      · simp only [hfull, if_false, Bool.false_eq_true]
        have : (out ++ [s]).length < olen := by
          have : (out ++ [s]).length ≠ olen := by simpa using hfull
          simp only [List.length_append, List.length_singleton] at this ⊢
          omega
        exact ih (c - D) (out ++ [s]) this
    · simp only [hc, if_false]
      exact ⟨by intro _; exact h, by simp⟩

theorem resLoop_len (I D : Int) (olen : Nat) (w : List Nat) : ∀ (c : Int) (taken : Nat) (out : List Nat),
    out.length < olen →
    ((resLoop I D olen w c taken out).2.2.2 = false → (resLoop I D olen w c taken out).2.2.1.length < olen) ∧
    ((resLoop I D olen w c taken out).2.2.2 = true → (resLoop I D olen w c taken out).2.2.1.length = olen) := by
  induction w with
  | nil => intro c taken out h; simp [resLoop, h]
  | cons s rest ih =>
    intro c taken out h
    have he := emit_len D olen s ((c + I).toNat + 1) (c + I) out h
    simp only [resLoop]
    generalize emitCopies D olen s ((c + I).toNat + 1) (c + I) out = E at he
    obtain ⟨c2, out2, full⟩ := E
    simp only at he ⊢
    cases full with
    | true =>
      simp only [if_true]
      split <;> exact ⟨by simp, by intro _; exact he.2 rfl⟩
    | false =>
      simp only [Bool.false_eq_true, if_false]
      exact ih c2 (taken + 1) out2 (he.1 rfl)

/-- the block with explicit (reduced) ratio -/
def resBlockRaw (I D : Int) : Block :=
  { σ := Int, init := 0, work := resWork I D, eof := fun _ v => macroEof v }

/-- one `work()` call preserves "output so far ++ reference of the rest = reference of everything" -/
theorem res_step (I D : Int) (hD : 0 < D) (X : List Nat) (cnt : Int) (c a f : Nat) (out : List Nat)
    (hinv : resRef I D 0 X = out ++ resRef I D cnt (X.drop c)) :
    let w := (X.drop c).take a
    let r := resWork I D cnt ⟨[⟨w, [], true⟩], [⟨f, true⟩]⟩
    resRef I D 0 X = (out ++ (r.2.produced.getD 0 ⟨[], []⟩).samples) ++
      resRef I D r.1 (X.drop (c + r.2.consumed.getD 0 0)) ∧
    (r.2.produced.getD 0 ⟨[], []⟩).samples.length ≤ f ∧ r.2.consumed.getD 0 0 ≤ w.length := by
  intro w r
  simp only [r, resWork, in0, out0, noOut, List.getD_cons_zero]
  by_cases h1 : w.isEmpty = true
  · simp [h1, hinv]
  · by_cases h2 : f = 0
    · simp [h1, h2, hinv]
    · have h2' : (f == 0) = false := by simpa using h2
      simp only [h1, h2', Bool.false_eq_true, if_false, List.getD_cons_zero]
      obtain ⟨o, k, g1, g2, g3, g4, g5, g6⟩ := res_rel I D hD f w cnt 0 []
      generalize hL : resLoop I D f w cnt 0 [] = L at g1 g2 g3 g4 g5 g6
      obtain ⟨c', taken, o', full⟩ := L
      simp only at g1 g2 g3 g4 g5 g6 ⊢
      have hsplit : X.drop c = w ++ (X.drop c).drop a := (List.take_append_drop a (X.drop c)).symm
      refine ⟨?_, ?_, by omega⟩
      · rw [hinv, hsplit, g4, g1, g2]
        simp only [List.nil_append, Nat.zero_add, List.append_assoc]
        rw [← hsplit, List.drop_drop]
      · have hl := resLoop_len I D f w cnt 0 [] (by simp; omega)
        rw [hL] at hl
        simp only at hl
        cases full with
        | true => rw [hl.2 rfl]; omega
        | false => have := hl.1 rfl; omega

end RR.Blk

namespace RR.Blk

/-- **RationalResampler, any chunking.** After any schedule of readable prefixes and free
output space, the output delivered so far followed by the reference output of the
unconsumed input (from the block's counter) is the reference output of the whole input:
the delivered samples are a prefix of `resRef I D 0 X` and nothing about the chunking
survives in the state except the counter. -/
theorem res_drive (I D : Int) (hD : 0 < D) (X : List Nat) (sched : List (Nat × Nat)) :
    ∀ (cnt : Int) (c : Nat) (out : List Nat), resRef I D 0 X = out ++ resRef I D cnt (X.drop c) →
      let r := drive1 (resBlockRaw I D) X cnt c out sched
      resRef I D 0 X = r.2.2 ++ resRef I D r.1 (X.drop r.2.1) := by
  induction sched with
  | nil => intro cnt c out h; exact h
  | cons af rest ih =>
    intro cnt c out h
    obtain ⟨a, f⟩ := af
    have hs := res_step I D hD X cnt c a f out h
    simp only [drive1, resBlockRaw] at hs ⊢
    exact ih _ _ _ hs.1

/-- … in particular, once everything has been consumed and the counter is settled
(no copies pending), the output is exactly the reference output. -/
theorem res_drive_complete (I D : Int) (hD : 0 < D) (X : List Nat) (sched : List (Nat × Nat))
    (hall : (drive1 (resBlockRaw I D) X (0 : Int) 0 [] sched).2.1 = X.length) :
    (drive1 (resBlockRaw I D) X (0 : Int) 0 [] sched).2.2 = resRef I D 0 X := by
  have := res_drive I D hD X sched 0 0 [] (by simp)
  simp only at this
  rw [hall, List.drop_length] at this
  simpa [resRef] using this.symm

end RR.Blk
