import RR.Proof.HdlcCrcOrbit

/-!
Single-bit repair (`set_fix_bits(true)`): when exactly one data bit was flipped,
`find_right_crc` finds exactly that bit — no other single flip makes the
checksum verify, because that would be an undetected two-bit error — and
returns the original data.
-/
namespace RR.Hdlc
open RR.HdlcSpec

theorem shiftLeft_one (j : Nat) : 1 <<< j = 2 ^ j := by
  rw [Nat.shiftLeft_eq, Nat.one_mul]

theorem xor_xor_cancel (a b : Nat) : a ^^^ b ^^^ b = a := by
  rw [Nat.xor_assoc, Nat.xor_self, Nat.xor_zero]

theorem getD_append_cons (pre rest : List Nat) (x : Nat) : (pre ++ x :: rest).getD pre.length 0 = x := by
  simp [List.getD_eq_getElem?_getD]

/-- flipping the corrupted bit back gives the original -/
theorem flip_back (pre rest : List Nat) (b j : Nat) :
    flipBit (pre ++ (b ^^^ 2 ^ j) :: rest) pre.length j = pre ++ b :: rest := by
  unfold flipBit
  rw [getD_append_cons, shiftLeft_one, xor_xor_cancel, List.set_append_right _ _ (Nat.le_refl _)]
  simp

/-- any other single flip leaves a two-bit error, which the CRC detects -/
theorem other_flip_detected (pre rest : List Nat) (b j i' j' : Nat)
    (hpre : ∀ x ∈ pre, x < 256) (hrest : ∀ x ∈ rest, x < 256) (hb : b < 256) (hj : j < 8) (hj' : j' < 8)
    (hi' : i' < (pre ++ b :: rest).length) (hlen : (pre ++ b :: rest).length < 4095)
    (hne : ¬ (i' = pre.length ∧ j' = j)) :
    crcBitwise (flipBit (pre ++ (b ^^^ 2 ^ j) :: rest) i' j') ≠ crcBitwise (pre ++ b :: rest) := by
  have hb' : b ^^^ 2 ^ j < 256 := Nat.xor_lt_two_pow (n := 8) hb (Nat.pow_lt_pow_right (by omega) hj)
  unfold flipBit
  rw [shiftLeft_one]
  simp only [List.length_append, List.length_cons] at hi' hlen
  rcases Nat.lt_trichotomy i' pre.length with hlt | heq | hgt
  · -- the other flip is in an earlier byte
    have hsplit : pre = pre.take i' ++ pre.getD i' 0 :: pre.drop (i' + 1) := by
      have h1 : pre.getD i' 0 = pre[i'] := by simp [List.getD_eq_getElem?_getD, hlt]
      rw [h1]
      conv => lhs; rw [← List.take_append_drop i' pre]
      rw [List.drop_eq_getElem_cons hlt]
    generalize hp1 : pre.take i' = pre1 at hsplit
    generalize hc : pre.getD i' 0 = c at hsplit
    generalize hmid : pre.drop (i' + 1) = mid at hsplit
    have hp1len : pre1.length = i' := by rw [← hp1]; simp; omega
    have hcl : c < 256 := by rw [← hc]; simp only [List.getD_eq_getElem?_getD, List.getElem?_eq_getElem hlt, Option.getD_some]; exact hpre _ (List.getElem_mem _)
    have hpre1 : ∀ x ∈ pre1, x < 256 := by rw [← hp1]; intro x hx; exact hpre x (List.mem_of_mem_take hx)
    have hmidb : ∀ x ∈ mid, x < 256 := by rw [← hmid]; intro x hx; exact hpre x (List.mem_of_mem_drop hx)
    have hget : (pre ++ (b ^^^ 2 ^ j) :: rest).getD i' 0 = c := by
      rw [← hc]; simp [List.getD_eq_getElem?_getD, List.getElem?_append_left hlt]
    rw [hget]
    have hset : (pre ++ (b ^^^ 2 ^ j) :: rest).set i' (c ^^^ 2 ^ j') =
        pre1 ++ (c ^^^ 2 ^ j') :: (mid ++ (b ^^^ 2 ^ j) :: rest) := by
      rw [List.set_append_left _ _ hlt]
      conv => lhs; rw [hsplit, List.set_append_right _ _ (by omega), hp1len, Nat.sub_self]
      simp
    rw [hset]
    have horig : pre ++ b :: rest = pre1 ++ c :: (mid ++ b :: rest) := by
      conv => lhs; rw [hsplit]
      simp
    rw [horig]
    have hml : mid.length + 1 + pre1.length = pre.length := by
      have := congrArg List.length hsplit
      simp only [List.length_append, List.length_cons] at this
      omega
    exact crc_two_bits pre1 mid rest c j' b j hpre1 hmidb hrest hcl hb hj' hj (by omega)
  · -- same byte, another bit
    subst heq
    have hjj : j' ≠ j := fun h => hne ⟨rfl, h⟩
    rw [getD_append_cons, List.set_append_right _ _ (Nat.le_refl _)]
    simp only [Nat.sub_self, List.set_cons_zero]
    exact crc_two_bits_same_byte pre rest b j j' hpre hrest hb hj hj' (Ne.symm hjj)
  · -- the other flip is in a later byte
    have hk : i' - pre.length - 1 < rest.length := by omega
    generalize hkdef : i' - pre.length - 1 = k at hk
    have hsplit : rest = rest.take k ++ rest.getD k 0 :: rest.drop (k + 1) := by
      have h1 : rest.getD k 0 = rest[k] := by simp [List.getD_eq_getElem?_getD, hk]
      rw [h1]
      conv => lhs; rw [← List.take_append_drop k rest]
      rw [List.drop_eq_getElem_cons hk]
    generalize hmid : rest.take k = mid at hsplit
    generalize hc : rest.getD k 0 = c at hsplit
    generalize hr2 : rest.drop (k + 1) = rest2 at hsplit
    have hmidlen : mid.length = k := by rw [← hmid]; simp; omega
    have hcl : c < 256 := by rw [← hc]; simp only [List.getD_eq_getElem?_getD, List.getElem?_eq_getElem hk, Option.getD_some]; exact hrest _ (List.getElem_mem _)
    have hmidb : ∀ x ∈ mid, x < 256 := by rw [← hmid]; intro x hx; exact hrest x (List.mem_of_mem_take hx)
    have hr2b : ∀ x ∈ rest2, x < 256 := by rw [← hr2]; intro x hx; exact hrest x (List.mem_of_mem_drop hx)
    have hidx : i' = pre.length + 1 + k := by omega
    have hget : (pre ++ (b ^^^ 2 ^ j) :: rest).getD i' 0 = c := by
      rw [← hc, hidx]
      simp [List.getD_eq_getElem?_getD, List.getElem?_append_right, Nat.add_assoc]
      rw [Nat.add_comm 1 k, List.getElem?_cons_succ]
    rw [hget]
    have hset : (pre ++ (b ^^^ 2 ^ j) :: rest).set i' (c ^^^ 2 ^ j') =
        pre ++ (b ^^^ 2 ^ j) :: (mid ++ (c ^^^ 2 ^ j') :: rest2) := by
      rw [List.set_append_right _ _ (by omega), hidx]
      have : pre.length + 1 + k - pre.length = k + 1 := by omega
      rw [this, List.set_cons_succ]
      conv => lhs; rw [hsplit, List.set_append_right _ _ (by omega), hmidlen, Nat.sub_self]
      simp
    rw [hset]
    have horig : pre ++ b :: rest = pre ++ b :: (mid ++ c :: rest2) := by
      conv => lhs; rw [hsplit]
    rw [horig]
    exact crc_two_bits pre mid rest2 b j c j' hpre hmidb hr2b hb hcl hj hj' (by omega)

end RR.Hdlc

namespace RR.Hdlc
open RR.HdlcSpec

theorem flipBit_bytes (data : List Nat) (i j : Nat) (hd : ∀ x ∈ data, x < 256) (hj : j < 8) :
    ∀ x ∈ flipBit data i j, x < 256 := by
  intro x hx
  unfold flipBit at hx
  rcases List.mem_or_eq_of_mem_set hx with h | h
  · exact hd x h
  · rw [h, shiftLeft_one]
    have hg : data.getD i 0 < 256 := by
      rw [List.getD_eq_getElem?_getD]
      cases hq : data[i]? with
      | none => simp
      | some v => simp; exact hd v (List.mem_of_getElem? hq)
    exact Nat.xor_lt_two_pow (n := 8) hg (Nat.pow_lt_pow_right (by omega) hj)

/-- **Single-bit repair finds the original.** -/
theorem findFlip_repairs (pre rest : List Nat) (b j : Nat)
    (hpre : ∀ x ∈ pre, x < 256) (hrest : ∀ x ∈ rest, x < 256) (hb : b < 256) (hj : j < 8)
    (hlen : (pre ++ b :: rest).length < 4095) :
    findFlip (pre ++ (b ^^^ 2 ^ j) :: rest) (crcBitwise (pre ++ b :: rest)) = some (pre ++ b :: rest) := by
  have hb' : b ^^^ 2 ^ j < 256 := Nat.xor_lt_two_pow (n := 8) hb (Nat.pow_lt_pow_right (by omega) hj)
  have horig : ∀ x ∈ pre ++ b :: rest, x < 256 := by
    intro x hx
    rcases List.mem_append.mp hx with h | h
    · exact hpre x h
    · rcases List.mem_cons.mp h with rfl | h
      · exact hb
      · exact hrest x h
  have hcorr : ∀ x ∈ pre ++ (b ^^^ 2 ^ j) :: rest, x < 256 := by
    intro x hx
    rcases List.mem_append.mp hx with h | h
    · exact hpre x h
    · rcases List.mem_cons.mp h with rfl | h
      · exact hb'
      · exact hrest x h
  have hlen' : (pre ++ (b ^^^ 2 ^ j) :: rest).length = (pre ++ b :: rest).length := by simp
  unfold findFlip
  generalize hL : ((List.range (pre ++ (b ^^^ 2 ^ j) :: rest).length).flatMap fun byte =>
    (List.range 8).map fun bit => (byte, bit)) = L
  have hmemL : ∀ a ∈ L, a.1 < (pre ++ b :: rest).length ∧ a.2 < 8 := by
    intro a ha
    rw [← hL] at ha
    simp only [List.mem_flatMap, List.mem_range, List.mem_map] at ha
    obtain ⟨byte, hbyte, bit, hbit, rfl⟩ := ha
    exact ⟨by rw [← hlen']; exact hbyte, hbit⟩
  have hgood : (pre.length, j) ∈ L := by
    rw [← hL]
    simp only [List.mem_flatMap, List.mem_range, List.mem_map]
    exact ⟨pre.length, by simp, j, hj, rfl⟩
  -- the function tried on every position
  generalize hf : (fun (x : Nat × Nat) =>
    match x with
    | (byte, bit) =>
      let d := flipBit (pre ++ (b ^^^ 2 ^ j) :: rest) byte bit
      if (calcCrc d == crcBitwise (pre ++ b :: rest)) = true then some d else none) = f
  have hfgood : f (pre.length, j) = some (pre ++ b :: rest) := by
    rw [← hf]
    simp only [flip_back, calcCrc_eq_bitwise _ horig, beq_self_eq_true, if_true]
  have hfother : ∀ a ∈ L, ∀ r, f a = some r → r = pre ++ b :: rest := by
    intro a ha r hr
    obtain ⟨i', j'⟩ := a
    obtain ⟨h1, h2⟩ := hmemL _ ha
    rw [← hf] at hr
    simp only at hr
    split at hr
    · rename_i hcrc
      simp only [Option.some.injEq] at hr
      rw [← hr]
      by_cases hsame : i' = pre.length ∧ j' = j
      · rw [hsame.1, hsame.2, flip_back]
      · exfalso
        have := other_flip_detected pre rest b j i' j' hpre hrest hb hj h2 h1 hlen hsame
        rw [calcCrc_eq_bitwise _ (flipBit_bytes _ i' j' hcorr h2)] at hcrc
        exact this (by simpa using hcrc)
    · cases hr
  cases hres : L.findSome? f with
  | none =>
    have := List.findSome?_eq_none_iff.mp hres _ hgood
    rw [hfgood] at this
    cases this
  | some r =>
    obtain ⟨l1, a, l2, hl, hfa, _⟩ := List.findSome?_eq_some_iff.mp hres
    have ha : a ∈ L := by rw [hl]; simp
    rw [hfother a ha r hfa]

/-- **`find_right_crc` with bit fixing on repairs a single flipped data bit to the original.** -/
theorem findRightCrc_repairs (pre rest : List Nat) (b j : Nat)
    (hpre : ∀ x ∈ pre, x < 256) (hrest : ∀ x ∈ rest, x < 256) (hb : b < 256) (hj : j < 8)
    (hlen : (pre ++ b :: rest).length < 4095) :
    findRightCrc (pre ++ (b ^^^ 2 ^ j) :: rest) (crcBitwise (pre ++ b :: rest)) true =
      (some (pre ++ b :: rest), crcBitwise (pre ++ b :: rest)) := by
  have hb' : b ^^^ 2 ^ j < 256 := Nat.xor_lt_two_pow (n := 8) hb (Nat.pow_lt_pow_right (by omega) hj)
  have horig : ∀ x ∈ pre ++ b :: rest, x < 256 := by
    intro x hx
    rcases List.mem_append.mp hx with h | h
    · exact hpre x h
    · rcases List.mem_cons.mp h with rfl | h
      · exact hb
      · exact hrest x h
  have hcorr : ∀ x ∈ pre ++ (b ^^^ 2 ^ j) :: rest, x < 256 := by
    intro x hx
    rcases List.mem_append.mp hx with h | h
    · exact hpre x h
    · rcases List.mem_cons.mp h with rfl | h
      · exact hb'
      · exact hrest x h
  have hne := crc_single_bit pre rest b j hpre hrest hb hj
  unfold findRightCrc
  rw [calcCrc_eq_bitwise _ hcorr]
  have : (crcBitwise (pre ++ b :: rest) == crcBitwise (pre ++ (b ^^^ 2 ^ j) :: rest)) = false := by
    simp only [beq_eq_false_iff_ne, ne_eq]
    exact fun h => hne h.symm
  simp only [this, Bool.false_eq_true, if_false, Bool.not_true]
  rw [findFlip_repairs pre rest b j hpre hrest hb hj hlen]
  simp only [calcCrc_eq_bitwise _ horig]

end RR.Hdlc
