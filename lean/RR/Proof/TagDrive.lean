import RR.Proof.DspFftTags
import RR.Proof.Hand
import RR.Proof.DspFir

/-!
Tags through Skip, Delay and FirFilter for EVERY schedule of read windows and
output space (`driveT`): the tags handed downstream are exactly — as a multiset,
each once — the input tags of the consumed samples, moved to the output index
the block's documentation gives (`- skip`, `+ delay`, `/ decimation`).
-/
namespace RR.Dsp
open RR RR.Blk

/-- move a tag to position `g pos` -/
def mp (g : Nat → Nat) (t : Tag) : Tag := { t with pos := g t.pos }

theorem rng_mem (T : List Tag) (a b : Nat) : ∀ t ∈ rng T a b, a ≤ t.pos ∧ t.pos < b := by
  intro t ht
  simp only [rng, List.mem_filter, decide_eq_true_eq] at ht
  exact ht.2

/-- the tags a call picks from its window for the first `n` samples, re-based by `g`, seen from the output -/
theorem winTags_filter_map (T : List Tag) (c wl n base : Nat) (g G : Nat → Nat) (hn : n ≤ wl)
    (hg : ∀ p, c ≤ p → p < c + n → base + g (p - c) = G p) :
    ((((winTags T c wl).filter fun t => decide (t.pos < n)).map (mp g)).map (up base)) =
      (rng T c (c + n)).map (mp G) := by
  unfold winTags rng
  rw [List.filter_map, List.map_map, List.map_map, List.filter_filter]
  have hf : (T.filter fun t => ((fun t : Tag => decide (t.pos < n)) ∘ sh c) t && decide (c ≤ t.pos ∧ t.pos < c + wl)) =
      T.filter fun t => decide (c ≤ t.pos ∧ t.pos < c + n) := by
    apply List.filter_congr
    intro t _
    simp only [Function.comp, sh]
    by_cases h : c ≤ t.pos ∧ t.pos < c + n
    · have h1 : t.pos - c < n := by omega
      have h2 : c ≤ t.pos ∧ t.pos < c + wl := by omega
      simp [h, h1, h2]
    · by_cases h2 : c ≤ t.pos ∧ t.pos < c + wl
      · have h1 : ¬ (t.pos - c < n) := by omega
        have h3 : ¬ (t.pos < c + n) := by omega
        simp [h1, h2, h3]
      · simp [h, h2]
  rw [hf]
  apply List.map_congr_left
  intro t ht
  simp only [List.mem_filter, decide_eq_true_eq] at ht
  simp only [Function.comp, sh, up, mp]
  congr 1
  exact hg t.pos ht.2.1 ht.2.2

theorem rng_of_le (T : List Tag) (a b : Nat) (h : b ≤ a) : rng T a b = [] := by
  unfold rng
  rw [List.filter_eq_nil_iff]
  intro t _
  simp only [decide_eq_true_eq]
  omega

/-- **Generic induction over schedules**: a block whose every call preserves `Inv` and hands on (a
permutation of) the tags of `[max L c, max L (c+n))` moved by `G`, has after any schedule handed on
exactly the tags of `[L, max L c)` moved by `G`. -/
theorem driveT_tags (B : Block) (X : List Nat) (T : List Tag) (L : Nat) (G : Nat → Nat)
    (Inv : B.σ → Nat → List Nat → Prop)
    (hstep : ∀ st c out a f, Inv st c out →
      let w := (X.drop c).take a
      let r := B.work st ⟨[⟨w, winTags T c w.length, true⟩], [⟨f, true⟩]⟩
      let n := r.2.consumed.getD 0 0
      let p := r.2.produced.getD 0 ⟨[], []⟩
      Inv r.1 (c + n) (out ++ p.samples) ∧
      (p.tags.map (up out.length)).Perm ((rng T (max L c) (max L (c + n))).map (mp G)))
    (sched : List (Nat × Nat)) :
    ∀ st c out ot, Inv st c out → ot.Perm ((rng T L (max L c)).map (mp G)) →
      let r := driveT B X T st c out ot sched
      Inv r.1 r.2.1 r.2.2.1 ∧ r.2.2.2.Perm ((rng T L (max L r.2.1)).map (mp G)) := by
  induction sched with
  | nil => intro st c out ot h1 h2; exact ⟨h1, h2⟩
  | cons p rest ih =>
    intro st c out ot h1 h2
    obtain ⟨a, f⟩ := p
    simp only [driveT]
    obtain ⟨s1, s2⟩ := hstep st c out a f h1
    apply ih _ _ _ _ s1
    refine (List.Perm.append h2 s2).trans ?_
    rw [← List.map_append]
    apply List.Perm.map
    exact rng_append_perm T L (max L c) (max L (c + _)) (Nat.le_max_left _ _) (by omega)

/-! ### Skip -/

theorem skipWork_tagblind (s : Nat) (w : List Nat) (ts : List Tag) (f : Nat) :
    let r := skipWork s ⟨[⟨w, ts, true⟩], [⟨f, true⟩]⟩
    let r0 := skipWork s ⟨[⟨w, [], true⟩], [⟨f, true⟩]⟩
    r.1 = r0.1 ∧ r.2.consumed = r0.2.consumed ∧
    (r.2.produced.getD 0 ⟨[], []⟩).samples = (r0.2.produced.getD 0 ⟨[], []⟩).samples := by
  simp only [skipWork, in0, out0, noOut, List.getD_cons_zero]
  split
  · simp
  split
  · simp
  split <;> simp

/-- one call of Skip, with the tags of the window -/
theorem skip_tag_step (k : Nat) (X : List Nat) (T : List Tag) (st c : Nat) (out : List Nat) (a f : Nat)
    (hst : st = k - min k c) (hout : out = (X.take c).drop k) (hc : c ≤ X.length)
    (w : List Nat) (hw : w = (X.drop c).take a) :
    let r := skipWork st ⟨[⟨w, winTags T c w.length, true⟩], [⟨f, true⟩]⟩
    let n := r.2.consumed.getD 0 0
    let p := r.2.produced.getD 0 ⟨[], []⟩
    (r.1 = k - min k (c + n) ∧ out ++ p.samples = (X.take (c + n)).drop k ∧ c + n ≤ X.length) ∧
    (p.tags.map (up out.length)).Perm ((rng T (max k c) (max k (c + n))).map (mp (· - k))) := by
  intro r n p
  have hb := skipWork_tagblind st w (winTags T c w.length) f
  have hs := skip_step k X c a f
  simp only at hb hs
  obtain ⟨b1, b2, b3⟩ := hb
  rw [← hst, ← hw] at hs
  obtain ⟨s1, s2, s3, _⟩ := hs
  have hn : n = (skipWork st ⟨[⟨w, [], true⟩], [⟨f, true⟩]⟩).2.consumed.getD 0 0 := by
    simp only [n, r]; rw [b2]
  have hwl : w.length ≤ X.length - c := by rw [hw]; simp only [List.length_take, List.length_drop]; omega
  refine ⟨⟨by simp only [r]; rw [b1]; all_goals (try rw [s1]); all_goals (try rw [hn]), ?_, by omega⟩, ?_⟩
  · simp only [p, r]; rw [b3, hout, hn, s2]
  · -- the tags
    simp only [p, r, skipWork, in0, out0, noOut, List.getD_cons_zero]
    by_cases h1 : w.isEmpty = true
    · have : n = 0 := by simp [n, r, skipWork, in0, out0, noOut, h1]
      simp [h1, this, rng_empty]
    · by_cases h2 : f = 0
      · have : n = 0 := by simp [n, r, skipWork, in0, out0, noOut, h1, h2]
        simp [h1, h2, this, rng_empty]
      · by_cases h3 : st = 0
        · have hk : k ≤ c := by omega
          have hn' : n = min w.length f := by simp [n, r, skipWork, in0, out0, noOut, h1, h2, h3]
          simp only [h1, h2, h3, Bool.false_eq_true, if_false, beq_self_eq_true, if_true, List.getD_cons_zero,
            beq_iff_eq]
          have hol : out.length = c - k := by
            rw [hout, List.length_drop, List.length_take]; omega
          have := winTags_filter_map T c w.length (min w.length f) out.length id (· - k) (Nat.min_le_left _ _)
            (by intro p' h1' h2'; simp only [id]; omega)
          have e : (List.map (mp id) ((winTags T c w.length).filter fun t => decide (t.pos < min w.length f))) =
              (winTags T c w.length).filter fun t => decide (t.pos < min w.length f) := by
            conv => rhs; rw [← List.map_id ((winTags T c w.length).filter _)]
            apply List.map_congr_left; intro t _; rfl
          rw [e] at this
          rw [this, hn', Nat.max_eq_right hk, Nat.max_eq_right (by omega)]
        · have hk : c < k := by omega
          have hn' : n = min st w.length := by simp [n, r, skipWork, in0, out0, noOut, h1, h2, h3]
          simp only [h1, h2, h3, Bool.false_eq_true, if_false, List.getD_cons_zero, beq_iff_eq, List.map_nil]
          have : max k (c + n) = k := by omega
          rw [this, Nat.max_eq_left (by omega), rng_empty]
          simp

/-- **Skip(k), every schedule**: tags of the skipped samples are dropped, every other tag of a consumed
sample arrives exactly once at index `pos - k`. -/
theorem skip_tags_drive (k : Nat) (X : List Nat) (T : List Tag) (sched : List (Nat × Nat)) :
    let r := driveT (skipBlock k) X T k 0 [] [] sched
    r.2.2.2.Perm ((rng T k (max k r.2.1)).map (mp (· - k))) ∧ r.2.2.1 = (X.take r.2.1).drop k := by
  have key := driveT_tags (skipBlock k) X T k (· - k)
    (fun st c out => st = k - min k c ∧ out = (X.take c).drop k ∧ c ≤ X.length)
    (fun st c out a f h => skip_tag_step k X T st c out a f h.1 h.2.1 h.2.2 _ rfl)
    sched k 0 [] [] ⟨(by simp : k = k - min k 0), by simp, Nat.zero_le _⟩ (by simp [rng_empty])
  exact ⟨key.2, key.1.2.1⟩

/-! ### Delay -/

theorem delayWork_tagblind (st : DelaySt) (w : List Nat) (ts : List Tag) (f : Nat) :
    let r := delayWork st ⟨[⟨w, ts, true⟩], [⟨f, true⟩]⟩
    let r0 := delayWork st ⟨[⟨w, [], true⟩], [⟨f, true⟩]⟩
    r.1 = r0.1 ∧ r.2.consumed = r0.2.consumed ∧
    (r.2.produced.getD 0 ⟨[], []⟩).samples = (r0.2.produced.getD 0 ⟨[], []⟩).samples := by
  simp only [delayWork, in0, out0, noOut, List.getD_cons_zero]
  split
  · simp
  split <;> simp

/-- what one call of Delay does with the tags and how much it consumes -/
theorem delayWork_tags (cd : Nat) (w : List Nat) (ts : List Tag) (f : Nat) :
    let r := delayWork ⟨cd, 0⟩ ⟨[⟨w, ts, true⟩], [⟨f, true⟩]⟩
    let nz := if cd > 0 then min cd f else 0
    let n := min w.length (f - nz)
    (f = 0 ∨ w = [] → (r.2.produced.getD 0 ⟨[], []⟩).tags = [] ∧ r.2.consumed.getD 0 0 = 0) ∧
    (0 < f → w ≠ [] → (r.2.produced.getD 0 ⟨[], []⟩).tags = (ts.filter fun t => decide (t.pos < n)).map (mp (· + nz)) ∧
      r.2.consumed.getD 0 0 = n) := by
  refine ⟨?_, ?_⟩
  · rintro (h | h)
    · simp [delayWork, in0, out0, noOut, h]
    · by_cases hf : f = 0
      · simp [delayWork, in0, out0, noOut, hf]
      · simp [delayWork, in0, out0, noOut, h, hf]
  · intro hf hw
    have h2 : ¬ f = 0 := by omega
    have h3 : ¬ w.length = 0 := by
      intro h; exact hw (List.length_eq_zero_iff.mp h)
    simp [delayWork, in0, out0, noOut, h2, h3, List.length_take, mp]

/-- one call of Delay, with the tags of the window -/
theorem delay_tag_step (d : Nat) (X : List Nat) (T : List Tag) (st : DelaySt) (c : Nat) (out : List Nat) (a f z : Nat)
    (hz : z ≤ d) (hcz : 0 < c → z = d) (hst : st = ⟨d - z, 0⟩) (hout : out = List.replicate z 0 ++ X.take c)
    (hc : c ≤ X.length) (w : List Nat) (hw : w = (X.drop c).take a) :
    let r := delayWork st ⟨[⟨w, winTags T c w.length, true⟩], [⟨f, true⟩]⟩
    let n := r.2.consumed.getD 0 0
    let p := r.2.produced.getD 0 ⟨[], []⟩
    (∃ z', z' ≤ d ∧ (0 < c + n → z' = d) ∧ r.1 = ⟨d - z', 0⟩ ∧ out ++ p.samples = List.replicate z' 0 ++ X.take (c + n) ∧
      c + n ≤ X.length) ∧
    (p.tags.map (up out.length)).Perm ((rng T (max 0 c) (max 0 (c + n))).map (mp (· + d))) := by
  intro r n p
  have hb := delayWork_tagblind st w (winTags T c w.length) f
  have hs := delay_step d X c z a f hz hcz
  simp only at hb hs
  obtain ⟨b1, b2, b3⟩ := hb
  rw [← hst, ← hw] at hs
  obtain ⟨z', s0, s1, s2, s3, s4, s5, _⟩ := hs
  have hn : n = (delayWork st ⟨[⟨w, [], true⟩], [⟨f, true⟩]⟩).2.consumed.getD 0 0 := by
    simp only [n, r]; rw [b2]
  have hwl : w.length ≤ X.length - c := by rw [hw]; simp only [List.length_take, List.length_drop]; omega
  refine ⟨⟨z', s1, by rw [hn]; exact s3, by simp only [r]; rw [b1]; all_goals (try rw [s2]), ?_, by omega⟩, ?_⟩
  · simp only [p, r]; rw [b3, hout, hn, s4]
  · simp only [Nat.zero_le, Nat.max_eq_right]
    have hol : out.length = z + c := by
      rw [hout, List.length_append, List.length_replicate, List.length_take]; omega
    have ht := delayWork_tags (d - z) w (winTags T c w.length) f
    simp only at ht
    rw [← hst] at ht
    obtain ⟨t1, t2⟩ := ht
    by_cases htriv : f = 0 ∨ w = []
    · obtain ⟨e1, e2⟩ := t1 htriv
      have hn0 : n = 0 := e2
      simp only [p, r]
      rw [e1, hn0]
      simp [rng_empty]
    · have hf : 0 < f := by omega
      have hwne : w ≠ [] := fun h => htriv (Or.inr h)
      obtain ⟨e1, e2⟩ := t2 hf hwne
      generalize hnz : (if d - z > 0 then min (d - z) f else 0) = nz at e1 e2
      have hn' : n = min w.length (f - nz) := e2
      simp only [p, r]
      rw [e1, hn']
      by_cases hcopy : min w.length (f - nz) = 0
      · rw [hcopy]
        have : ((winTags T c w.length).filter fun t => decide (t.pos < 0)) = [] := by
          rw [List.filter_eq_nil_iff]; intro t _; simp
        simp [this, rng_empty]
      · have hzz : z + nz = d := by
          by_cases hpos : d - z > 0
          · have h6 : nz = min (d - z) f := by rw [← hnz]; simp [hpos]
            by_contra hne
            have h7 : nz = f := by omega
            apply hcopy
            rw [h7]; simp
          · have h6 : nz = 0 := by rw [← hnz]; simp [hpos]
            omega
        have := winTags_filter_map T c w.length (min w.length (f - nz)) out.length (· + nz) (· + d)
          (Nat.min_le_left _ _) (by intro p' h1' h2'; show out.length + (p' - c + nz) = p' + d; omega)
        rw [this]

/-- **Delay(d), every schedule**: every tag of a consumed sample arrives exactly once at index `pos + d`. -/
theorem delay_tags_drive (d : Nat) (X : List Nat) (T : List Tag) (sched : List (Nat × Nat)) :
    let r := driveT (delayBlock d) X T ⟨d, 0⟩ 0 [] [] sched
    r.2.2.2.Perm ((rng T 0 r.2.1).map (mp (· + d))) ∧
    ∃ z, z ≤ d ∧ (0 < r.2.1 → z = d) ∧ r.2.2.1 = List.replicate z 0 ++ X.take r.2.1 := by
  have key := driveT_tags (delayBlock d) X T 0 (· + d)
    (fun st c out => ∃ z, z ≤ d ∧ (0 < c → z = d) ∧ st = ⟨d - z, 0⟩ ∧ out = List.replicate z 0 ++ X.take c ∧ c ≤ X.length)
    (fun st c out a f h => by
      obtain ⟨z, hz, hcz, hst, hout, hc⟩ := h
      exact delay_tag_step d X T st c out a f z hz hcz hst hout hc _ rfl)
    sched ⟨d, 0⟩ 0 [] [] ⟨0, Nat.zero_le _, by omega, rfl, by simp, Nat.zero_le _⟩ (by simp [rng_empty])
  simp only [Nat.zero_le, Nat.max_eq_right] at key
  obtain ⟨⟨z, h1, h2, _, h4, _⟩, kt⟩ := key
  exact ⟨kt, z, h1, h2, h4⟩

end RR.Dsp

namespace RR.Dsp
open RR RR.Blk

/-! ### FirFilter -/

variable {α : Type}

theorem firWork_tagblind (o : Ops α) (cd : Codec α) (rt : List α) (deci : Nat) (w : List Nat) (ts : List Tag) (f : Nat) :
    let r := firWork o cd rt deci () ⟨[⟨w, ts, true⟩], [⟨f, true⟩]⟩
    let r0 := firWork o cd rt deci () ⟨[⟨w, [], true⟩], [⟨f, true⟩]⟩
    r.2.consumed = r0.2.consumed ∧
    (r.2.produced.getD 0 ⟨[], []⟩).samples = (r0.2.produced.getD 0 ⟨[], []⟩).samples ∧
    (r.2.produced.getD 0 ⟨[], []⟩).tags =
      (ts.filter fun t => decide (t.pos < r.2.consumed.getD 0 0)).map (mp (· / deci)) := by
  simp only [firWork, in0, out0, noOut, List.getD_cons_zero]
  have hnil : ∀ l : List Tag, (l.filter fun t => decide (t.pos < 0)) = [] := by
    intro l; rw [List.filter_eq_nil_iff]; intro t _; simp
  split
  · simp [hnil]
  split
  · simp [hnil]
  split
  · simp [hnil]
  split
  · simp [hnil]
  split
  · simp [hnil]
  split
  · simp [hnil]
  · simp [mp]

/-- **FirFilter (any arithmetic, any decimation), every schedule**: every tag of a consumed sample arrives
exactly once at index `pos / deci`. -/
theorem fir_tags_drive (o : Ops α) (cd : Codec α) (taps : List α) (deci : Nat) (X : List Nat) (T : List Tag)
    (hd : 0 < deci) (ht : 0 < taps.length) (sched : List (Nat × Nat)) :
    let r := driveT (firBlock o cd taps deci) X T () 0 [] [] sched
    r.2.2.2.Perm ((rng T 0 r.2.1).map (mp (· / deci))) ∧ r.2.1 = r.2.2.1.length * deci := by
  have key := driveT_tags (firBlock o cd taps deci) X T 0 (· / deci)
    (fun _ c out => c = out.length * deci)
    (fun st c out a f h => by
      intro w r n p
      have hb := firWork_tagblind o cd (firNew taps) deci w (winTags T c w.length) f
      have hs := fir_step o cd (firNew taps) deci X out.length a f hd (by simpa [firNew] using ht)
      simp only at hb hs
      rw [← h] at hs
      obtain ⟨b2, b3, b4⟩ := hb
      obtain ⟨j, s1, _, s3, s4, _⟩ := hs
      have hn : n = j * deci := by
        show (firWork o cd (firNew taps) deci () _).2.consumed.getD 0 0 = _
        rw [b2]; exact s1
      have hpl : p.samples.length = j := by
        show ((firWork o cd (firNew taps) deci () _).2.produced.getD 0 ⟨[], []⟩).samples.length = _
        rw [b3, s4]; simp
      refine ⟨by rw [List.length_append, hpl, hn, h, Nat.add_mul], ?_⟩
      simp only [Nat.zero_le, Nat.max_eq_right]
      have hnw : n ≤ w.length := by
        rw [hn]
        show j * deci ≤ ((X.drop c).take a).length
        by_cases hj : j = 0
        · simp [hj]
        · simp only [hj, if_false] at s3; omega
      have htags : p.tags = ((winTags T c w.length).filter fun t => decide (t.pos < n)).map (mp (· / deci)) := b4
      rw [htags]
      have := winTags_filter_map T c w.length n out.length (· / deci) (· / deci) hnw
        (by
          intro p' h1 _
          show out.length + (p' - c) / deci = p' / deci
          rw [h]
          have e : p' = (p' - out.length * deci) + out.length * deci := by omega
          conv => rhs; rw [e, Nat.add_mul_div_right _ _ hd]
          omega)
      rw [this])
    sched () 0 [] [] (by simp) (by simp [rng_empty])
  simp only [Nat.zero_le, Nat.max_eq_right] at key
  exact ⟨key.2, key.1⟩

end RR.Dsp
