import RR.Proof.SyncSpecs
import RR.Proof.Lfsr
import RR.Proof.HdlcResync

/-!
The digital back end of the receive chains, composed: NRZI decoder, (G3RUH
descrambler,) HDLC deframer — against the transmitter (HDLC framing,
(scrambler,) NRZI encoder), for every payload, seed, line level and polarity.
-/
namespace RR.Chain
open RR RR.Blk RR.Lfsr RR.Hdlc RR.HdlcSpec

/-- NRZI as AX.25 transmits it: a `0` toggles the line level, a `1` keeps it. -/
def nrziEnc : Nat → List Nat → List Nat
  | _, [] => []
  | level, b :: rest =>
    let l := if b = 0 then 1 - level else level
    l :: nrziEnc l rest

theorem nrziEnc_lt2 (level : Nat) (hl : level < 2) (l : List Nat) : ∀ x ∈ nrziEnc level l, x < 2 := by
  induction l generalizing level with
  | nil => intro x hx; simp [nrziEnc] at hx
  | cons b rest ih =>
    intro x hx
    simp only [nrziEnc, List.mem_cons] at hx
    have hl' : (if b = 0 then 1 - level else level) < 2 := by split <;> omega
    rcases hx with rfl | hx
    · exact hl'
    · exact ih _ hl' x hx

theorem nrziSpec_length (prev : Nat) (l : List Nat) : (nrziSpec prev l).length = l.length := by
  induction l generalizing prev with
  | nil => rfl
  | cons a rest ih => simp [nrziSpec, ih]

theorem nrziEnc_length (level : Nat) (l : List Nat) : (nrziEnc level l).length = l.length := by
  induction l generalizing level with
  | nil => rfl
  | cons a rest ih => simp [nrziEnc, ih]

theorem nrzi_inv (level : Nat) (hl : level < 2) (bits : List Nat) (hb : ∀ b ∈ bits, b < 2) :
    nrziSpec level (nrziEnc level bits) = bits := by
  induction bits generalizing level with
  | nil => rfl
  | cons b rest ih =>
    have hb0 : b < 2 := hb b (by simp)
    simp only [nrziEnc, nrziSpec]
    have hl' : (if b = 0 then 1 - level else level) < 2 := by split <;> omega
    rw [ih _ hl' (fun x hx => hb x (by simp [hx]))]
    congr 1
    rcases (by omega : level = 0 ∨ level = 1) with rfl | rfl <;>
      rcases (by omega : b = 0 ∨ b = 1) with rfl | rfl <;> decide

/-- Whatever the transmitter's initial level and the decoder's initial state, the decoded stream is the
transmitted one except possibly for its first bit (which is still a bit). -/
theorem nrzi_any_start (level prev : Nat) (hl : level < 2) (hp : prev < 2) (bits : List Nat)
    (hb : ∀ b ∈ bits, b < 2) (hne : bits ≠ []) :
    ∃ r0, r0 < 2 ∧ nrziSpec prev (nrziEnc level bits) = r0 :: bits.drop 1 := by
  cases bits with
  | nil => exact absurd rfl hne
  | cons b rest =>
    have hb0 : b < 2 := hb b (by simp)
    have hl' : (if b = 0 then 1 - level else level) < 2 := by split <;> omega
    refine ⟨1 ^^^ (if b = 0 then 1 - level else level) ^^^ prev, ?_, ?_⟩
    · exact Nat.xor_lt_two_pow (n := 1) (Nat.xor_lt_two_pow (n := 1) (by omega) hl') hp
    · simp only [nrziEnc, nrziSpec, List.drop_succ_cons, List.drop_zero]
      rw [nrzi_inv _ hl' rest (fun x hx => hb x (by simp [hx]))]

theorem descrL_bits (l hist : List Nat) (hl : ∀ x ∈ l, x < 2) (hh : ∀ x ∈ hist, x < 2) :
    ∀ x ∈ descrL hist l, x < 2 := by
  induction l generalizing hist with
  | nil => intro x hx; simp [descrL] at hx
  | cons i rest ih =>
    intro x hx
    simp only [descrL, List.mem_cons] at hx
    have hi : i < 2 := hl i (by simp)
    rcases hx with rfl | hx
    · exact Nat.xor_lt_two_pow (n := 1) (Nat.xor_lt_two_pow (n := 1) hi (getD_lt2 hist hh 11)) (getD_lt2 hist hh 16)
    · exact ih _ (fun y hy => hl y (by simp [hy]))
        (by intro y hy; rcases List.mem_cons.mp hy with rfl | h; exact hi; exact hh y h) x hx

theorem take17_reverse_cons (x y : Nat) (l : List Nat) (h : 17 ≤ l.length) :
    ((x :: l).reverse).take 17 = ((y :: l).reverse).take 17 := by
  simp only [List.reverse_cons]
  rw [List.take_append_of_le_length (by simpa using h), List.take_append_of_le_length (by simpa using h)]

/-- **Scrambled link.** Transmit `P ++ F` (`P`: at least 18 preamble bits)
through the G3RUH scrambler (any seed history `hs`) and the NRZI encoder (any
level); receive with an NRZI decoder in any state and the descrambler register
at 0: the output is `|P|` bits of noise followed by exactly `F`. -/
theorem scrambled_link (P F hs : List Nat) (hP : ∀ x ∈ P, x < 2) (hF : ∀ x ∈ F, x < 2) (hhs : ∀ x ∈ hs, x < 2)
    (hlen : 18 ≤ P.length) (level prev : Nat) (hl : level < 2) (hp : prev < 2) :
    ∃ noise, noise.length = P.length ∧ (∀ x ∈ noise, x ≤ 1) ∧
      lfsrRun 0 (nrziSpec prev (nrziEnc level (scrL hs (P ++ F)))) = noise ++ F := by
  have hne : scrL hs (P ++ F) ≠ [] := by
    intro h
    have h2 := congrArg List.length h
    rw [scrL_length, List.length_append, List.length_nil] at h2
    omega
  have hS : scrL hs (P ++ F) = scrL hs P ++ scrL ((scrL hs P).reverse ++ hs) F := scrL_append P F hs
  generalize hSP : scrL hs P = SP at hS
  have hSPlen : SP.length = P.length := by rw [← hSP, scrL_length]
  have hSPbits : ∀ x ∈ SP, x < 2 := by rw [← hSP]; exact scrL_bits P hs hP hhs
  generalize hSF : scrL (SP.reverse ++ hs) F = SF at hS
  have hSbits : ∀ x ∈ scrL hs (P ++ F), x < 2 :=
    scrL_bits (P ++ F) hs (by intro x hx; rcases List.mem_append.mp hx with h | h; exact hP x h; exact hF x h) hhs
  obtain ⟨r0, hr0, hR⟩ := nrzi_any_start level prev hl hp _ hSbits hne
  rw [hR, hS]
  -- SP = s0 :: SP'
  cases SP with
  | nil => simp at hSPlen; omega
  | cons s0 SP' =>
    simp only [List.cons_append, List.drop_succ_cons, List.drop_zero]
    have hSP'len : 17 ≤ SP'.length := by simp at hSPlen; omega
    have hRPbits : ∀ x ∈ r0 :: SP', x < 2 := by
      intro x hx
      rcases List.mem_cons.mp hx with rfl | h
      · exact hr0
      · exact hSPbits x (by simp [h])
    have hall : ∀ x ∈ r0 :: (SP' ++ SF), x < 2 := by
      intro x hx
      rcases List.mem_cons.mp hx with rfl | h
      · exact hr0
      · rcases List.mem_append.mp h with h | h
        · exact hSPbits x (by simp [h])
        · rw [← hSF] at h
          exact scrL_bits F _ hF (by
            intro y hy
            rcases List.mem_append.mp hy with h' | h'
            · exact hSPbits y (by simpa [or_comm] using h')
            · exact hhs y h') x h
    have e0 : (0 : Nat) = enc [] := by simp [enc]
    rw [e0, lfsrRun_eq_descrL _ hall [] (by simp)]
    have : r0 :: (SP' ++ SF) = (r0 :: SP') ++ SF := rfl
    rw [this, descrL_append]
    refine ⟨descrL [] (r0 :: SP'), ?_, ?_, ?_⟩
    · rw [descrL_length]; simp at hSPlen ⊢; omega
    · intro x hx
      have := descrL_bits (r0 :: SP') [] hRPbits (by simp) x hx
      omega
    · congr 1
      -- the descrambler's history after the preamble = the scrambler's, on the 17 entries that matter
      have hh : ((r0 :: SP').reverse ++ []).take 17 = ((s0 :: SP').reverse ++ hs).take 17 := by
        rw [List.append_nil, List.take_append_of_le_length (by simp; omega)]
        exact take17_reverse_cons r0 s0 SP' hSP'len
      rw [descrL_take17 SF _ _ hh, ← hSF]
      exact descr_scr F _

end RR.Chain

namespace RR.Chain
open RR RR.Blk RR.Lfsr RR.Hdlc RR.HdlcSpec

theorem stuffFrom_bits (d : List Nat) (hd : ∀ x ∈ d, x < 2) : ∀ ones, ∀ x ∈ stuffFrom ones d, x < 2 := by
  induction d with
  | nil => intro ones x hx; simp [stuffFrom] at hx
  | cons b rest ih =>
    intro ones x hx
    have hb : b < 2 := hd b (by simp)
    have hr : ∀ y ∈ rest, y < 2 := fun y hy => hd y (by simp [hy])
    simp only [stuffFrom] at hx
    split at hx
    · split at hx
      · simp only [List.mem_cons] at hx
        rcases hx with rfl | rfl | h
        · omega
        · omega
        · exact ih hr 0 x h
      · simp only [List.mem_cons] at hx
        rcases hx with rfl | h
        · omega
        · exact ih hr _ x h
    · simp only [List.mem_cons] at hx
      rcases hx with rfl | h
      · exact hb
      · exact ih hr 0 x h

theorem flag_bits : ∀ x ∈ flag, x < 2 := by decide

theorem body_bits (p : List Nat) : ∀ x ∈ body p, x < 2 := by
  intro x hx
  unfold body stuff at hx
  rcases List.mem_append.mp hx with h | h
  · exact stuffFrom_bits _ (fun y hy => by have := lsbBits_bits _ y hy; omega) 0 x h
  · exact flag_bits x h

/-- what goes on the air after the preamble: a flag, then the frames back to back, each followed by any
number of idle flags -/
def txFrames (ps : List (List Nat × Nat)) : List Nat :=
  flag ++ ps.flatMap fun q => body q.1 ++ (List.replicate q.2 flag).flatten

theorem txFrames_bits (ps : List (List Nat × Nat)) : ∀ x ∈ txFrames ps, x < 2 := by
  intro x hx
  unfold txFrames at hx
  rcases List.mem_append.mp hx with h | h
  · exact flag_bits x h
  · simp only [List.mem_flatMap] at h
    obtain ⟨q, _, hq⟩ := h
    rcases List.mem_append.mp hq with h | h
    · exact body_bits _ x h
    · simp only [List.mem_flatten, List.mem_replicate] at h
      obtain ⟨l, ⟨_, rfl⟩, hx⟩ := h
      exact flag_bits x hx

/-- the deframer after ANY noise bits, fed the transmitted frames -/
theorem deframe_after_noise (cfg : Cfg) (hs : cfg.stripChecksum = true) (noise : List Nat) (hn : ∀ b ∈ noise, b ≤ 1)
    (ps : List (List Nat × Nat))
    (hps : ∀ q ∈ ps, (∀ b ∈ q.1, b < 256) ∧ cfg.minSize ≤ q.1.length + 2 ∧ q.1.length + 2 ≤ cfg.maxSize) :
    (run cfg init (noise ++ txFrames ps)).2 = (run cfg init (noise ++ flag)).2 ++ ps.map (·.1) := by
  unfold txFrames
  rw [← List.append_assoc, run_append]
  have hst : (run cfg init (noise ++ flag)).1 = .synced 0 [] := by
    rw [run_append]
    exact resync cfg _ (by
      have := wf_run cfg noise hn init (by simp [WF, init])
      revert this
      cases (run cfg init noise).1 <;> simp [WF])
  rw [hst, run_bodies cfg hs ps hps]

end RR.Chain

namespace RR.Chain
open RR RR.Blk RR.Lfsr

/-- the `Descrambler` block's generated loop (one-shot or chunked, C19/C08) clocks `lfsrRun` -/
theorem descrambler_oneShot (get : Nat → List Nat × List (List Tag)) (seed reg pos k : Nat) :
    ∃ st ts, syncLoopG (descrambler 0x21 seed 16) get reg pos k =
      some (st, (lfsrRun reg ((List.range k).map fun p => (get (pos + p)).1.getD 0 0)).map ([·]), ts) := by
  induction k generalizing reg pos with
  | zero => exact ⟨reg, [], by simp [syncLoopG, lfsrRun]⟩
  | succ k ih =>
    have hstep : lfsrNext 0x21 16 reg ((get pos).1.getD 0 0) =
        some (((reg >>> 1) ||| (((get pos).1.getD 0 0 % 2) <<< 16)) % 2 ^ 64,
          (popcount 64 (reg &&& 0x21) % 256 % 2) ^^^ ((get pos).1.getD 0 0 % 2)) := rfl
    obtain ⟨st, ts, e⟩ := ih (((reg >>> 1) ||| (((get pos).1.getD 0 0 % 2) <<< 16)) % 2 ^ 64) (pos + 1)
    simp only [syncLoopG, descrambler, pureSync, hstep, Option.map_some] at e ⊢
    rw [e]
    refine ⟨st, (((get pos).2.headD []).map fun t => { t with pos := pos }) ++ ts, ?_⟩
    simp only [List.range_succ_eq_map, List.map_cons, List.map_map, lfsrRun, hstep, Nat.add_zero,
      Function.comp_def]
    have e2 : ∀ p, pos + 1 + p = pos + (p + 1) := by intro p; omega
    simp only [e2, Nat.succ_eq_add_one]

end RR.Chain
