import RR.Model.AuBlock
import RR.Proof.Hand

/-!
`AuEncode` as a block, for every schedule of read windows and output space: the
bytes written so far are a prefix of `Au.encode` (header, then two big-endian
bytes per consumed sample); no sample is consumed before the header is out.
-/
namespace RR.Au
open RR RR.Blk

/-- bytes of the samples consumed so far -/
def body (q : Nat → Nat) (xs : List Nat) : List Nat := xs.flatMap fun x => beBytes 2 (q x)

theorem body_append (q : Nat → Nat) (a b : List Nat) : body q (a ++ b) = body q a ++ body q b := by
  simp [body]

/-- invariant: `k` header bytes are out; samples only once the header is complete -/
def EncInv (bitrate : Nat) (q : Nat → Nat) (X : List Nat) (st : EncSt) (c : Nat) (out : List Nat) : Prop :=
  ∃ k, k ≤ (header bitrate).length ∧
    (st = (if k = (header bitrate).length then none else some ((header bitrate).drop k))) ∧
    (k < (header bitrate).length → c = 0) ∧ c ≤ X.length ∧
    out = (header bitrate).take k ++ body q (X.take c)

theorem enc_step (bitrate : Nat) (q : Nat → Nat) (X : List Nat) (st : EncSt) (c : Nat) (out : List Nat) (a f : Nat)
    (h : EncInv bitrate q X st c out) :
    let w := (X.drop c).take a
    let r := encWork q st ⟨[⟨w, [], true⟩], [⟨f, true⟩]⟩
    EncInv bitrate q X r.1 (c + r.2.consumed.getD 0 0) (out ++ (r.2.produced.getD 0 ⟨[], []⟩).samples) ∧
    r.2.verdict ≠ .panic ∧ (r.2.produced.getD 0 ⟨[], []⟩).samples.length ≤ f := by
  intro w r
  obtain ⟨k, hk, hst, hc0, hcX, hout⟩ := h
  have hwl : w.length ≤ X.length - c := by
    show ((X.drop c).take a).length ≤ _
    simp only [List.length_take, List.length_drop]; omega
  by_cases hfull : k = (header bitrate).length
  · -- header is out: samples
    have hst' : st = none := by rw [hst, if_pos hfull]
    simp only [r, hst', encWork, in0, out0, noOut, List.getD_cons_zero]
    by_cases hw : w.isEmpty = true
    · simp only [hw, if_true, List.map_cons, List.map_nil, List.getD_cons_zero, Nat.add_zero, List.append_nil]
      exact ⟨⟨k, hk, by rw [if_pos hfull], hc0, hcX, hout⟩, by simp, by simp⟩
    · simp only [hw, Bool.false_eq_true, if_false]
      by_cases hn : min w.length (f / 2) = 0
      · simp only [hn, beq_self_eq_true, if_true, List.map_cons, List.map_nil, List.getD_cons_zero, Nat.add_zero,
          List.append_nil]
        exact ⟨⟨k, hk, by rw [if_pos hfull], hc0, hcX, hout⟩, by simp, by simp⟩
      · have hb : (min w.length (f / 2) == 0) = false := by simpa using hn
        simp only [hb, Bool.false_eq_true, if_false, List.getD_cons_zero]
        have hnle : min w.length (f / 2) ≤ w.length := Nat.min_le_left _ _
        refine ⟨⟨k, hk, by rw [if_pos hfull], fun h => by omega, by omega, ?_⟩, by simp, ?_⟩
        · rw [hout, List.append_assoc]
          congr 1
          have : w.take (min w.length (f / 2)) = (X.drop c).take (min w.length (f / 2)) := by
            show ((X.drop c).take a).take _ = _
            rw [List.take_take]
            congr 1
            have : w.length ≤ a := by
              show ((X.drop c).take a).length ≤ a
              simp only [List.length_take]; omega
            omega
          rw [this, List.take_add, body_append]
          rfl
        · have hlen : ∀ l : List Nat, (l.flatMap fun x => beBytes 2 (q x)).length = 2 * l.length := by
            intro l
            induction l with
            | nil => rfl
            | cons x xs ih =>
              simp only [List.flatMap_cons, List.length_append, ih, List.length_cons]
              have : (beBytes 2 (q x)).length = 2 := by simp [beBytes, Codec.leBytes]
              omega
          rw [hlen, List.length_take]
          have : min (min w.length (f / 2)) w.length ≤ f / 2 := by omega
          omega
  · -- header bytes first
    have hklt : k < (header bitrate).length := by omega
    have hst' : st = some ((header bitrate).drop k) := by rw [hst, if_neg hfull]
    have hc : c = 0 := hc0 hklt
    simp only [r, hst', encWork, in0, out0, noOut, List.getD_cons_zero]
    by_cases hf : f = 0
    · simp only [hf, beq_self_eq_true, if_true, List.map_cons, List.map_nil, List.getD_cons_zero, Nat.add_zero,
        List.append_nil]
      exact ⟨⟨k, hk, by rw [if_neg hfull], hc0, hcX, hout⟩, by simp, by simp⟩
    · have hfb : (f == 0) = false := by simpa using hf
      simp only [hfb, Bool.false_eq_true, if_false, List.getD_cons_zero, Nat.add_zero]
      have hdl : ((header bitrate).drop k).length = (header bitrate).length - k := by simp
      generalize hn : min ((header bitrate).drop k).length f = n
      have hnle : n ≤ (header bitrate).length - k := by rw [← hn, hdl]; exact Nat.min_le_left _ _
      have hnf : n ≤ f := by rw [← hn]; exact Nat.min_le_right _ _
      refine ⟨⟨k + n, by omega, ?_, fun _ => hc, hcX, ?_⟩, by simp, ?_⟩
      · rw [List.drop_drop]
        by_cases hend : k + n = (header bitrate).length
        · rw [if_pos hend]
          have : ((header bitrate).drop (k + n)).isEmpty = true := by
            rw [List.isEmpty_iff, List.drop_eq_nil_iff]; omega
          simp [this]
        · rw [if_neg hend]
          have : ((header bitrate).drop (k + n)).isEmpty = false := by
            rw [Bool.eq_false_iff]; intro he
            rw [List.isEmpty_iff, List.drop_eq_nil_iff] at he; omega
          simp [this]
      · rw [hout, hc]
        simp only [List.take_zero, body, List.flatMap_nil, List.append_nil]
        rw [List.take_add]
      · rw [List.length_take]; omega

/-- **Every schedule.** -/
theorem enc_drive (bitrate : Nat) (q : Nat → Nat) (X : List Nat) (sched : List (Nat × Nat)) :
    ∀ st c out, EncInv bitrate q X st c out →
      let r := drive1 (encBlock bitrate q) X st c out sched
      EncInv bitrate q X r.1 r.2.1 r.2.2 := by
  induction sched with
  | nil => intro st c out h; exact h
  | cons af rest ih =>
    intro st c out h
    obtain ⟨a, f⟩ := af
    simp only [drive1]
    exact ih _ _ _ (enc_step bitrate q X st c out a f h).1

theorem enc_init (bitrate : Nat) (q : Nat → Nat) (X : List Nat) :
    EncInv bitrate q X (encBlock bitrate q).init 0 [] := by
  refine ⟨0, Nat.zero_le _, ?_, fun _ => rfl, Nat.zero_le _, by simp [body]⟩
  have : (0 : Nat) ≠ (header bitrate).length := by simp [header, beBytes, Codec.leBytes]
  rw [if_neg this]
  rfl

end RR.Au
