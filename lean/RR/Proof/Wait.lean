import RR.Model.Wait

namespace RR.Wait

theorem envStep_dead (s : Sh) (e : Env) (h : s.peerAlive = false) : envStep s e = s := by
  cases e <;> simp [envStep, h]
  cases s; simp_all

theorem envStep_alive_mono (s : Sh) (e : Env) (h : s.peerAlive = false) :
    (envStep s e).peerAlive = false := by rw [envStep_dead s e h]; exact h

/-- Deciding-side steps never change the shared state (no data is discarded by a decision). -/
theorem exec_no_discard (prog : List Obs) (s : Sh) (l : Local) (k : Nat) :
    (exec prog s l (List.replicate k none)).1 = s := by
  induction k generalizing prog l with
  | zero => rfl
  | succ k ih =>
    simp only [List.replicate_succ, exec]
    cases prog with
    | nil => exact ih [] l
    | cons o p => exact ih p _

/-- Invariant for programs that read liveness first (or both at once). -/
def GoodLocal (s : Sh) (l : Local) : Prop :=
  (l.a = some false → s.peerAlive = false) ∧
  (∀ u, l.a = some false → l.u = some u → s.avail = u)

theorem exec_good (prog : List Obs) (s : Sh) (l : Local) (sched : List (Option Env))
    (hg : GoodLocal s l) (hp : prog = [] ∨ prog = [.avail] ∨ (prog = [.alive, .avail] ∧ l = {}) ∨
      (prog = [.both] ∧ l = {})) (hu : prog ≠ [] → l.u = none) :
    GoodLocal (exec prog s l sched).1 (exec prog s l sched).2.1 := by
  induction sched generalizing prog s l with
  | nil => exact hg
  | cons x rest ih =>
    cases x with
    | some e =>
      simp only [exec]
      refine ih prog (envStep s e) l ?_ hp hu
      constructor
      · intro ha; exact envStep_alive_mono s e (hg.1 ha)
      · intro u ha hu'; rw [envStep_dead s e (hg.1 ha)]; exact hg.2 u ha hu'
    | none =>
      rcases hp with rfl | rfl | ⟨rfl, rfl⟩ | ⟨rfl, rfl⟩
      · simp only [exec]; exact ih [] s l hg (Or.inl rfl) (by simp)
      · simp only [exec]
        refine ih [] s _ ?_ (Or.inl rfl) (by simp)
        have := hu (by simp)
        constructor
        · intro ha; exact hg.1 (by simpa [observe] using ha)
        · intro u _ hu'; simp [observe] at hu'; exact hu'
      · simp only [exec]
        refine ih [.avail] s _ ?_ (Or.inr (Or.inl rfl)) (by simp [observe])
        constructor
        · intro ha; simpa [observe] using ha
        · intro u _ hu'; simp [observe] at hu'
      · simp only [exec]
        refine ih [] s _ ?_ (Or.inl rfl) (by simp)
        constructor
        · intro ha; simpa [observe] using ha
        · intro u _ hu'; simp [observe] at hu'; exact hu'

theorem verdict_true {l : Local} {need : Nat} (h : verdict l need = true) :
    ∃ u, l.a = some false ∧ l.u = some u ∧ u < need := by
  unfold verdict at h
  split at h
  · rename_i a u ha hu
    simp at h
    exact ⟨u, by rw [ha, h.2], hu, h.1⟩
  · cases h

theorem good_init (s : Sh) : GoodLocal s {} := by
  constructor
  · intro h; cases h
  · intro u h; cases h

theorem sound_aliveFirst : SoundReader [.alive, .avail] := by
  intro s sched need r _ hv
  obtain ⟨u, ha, hu, hlt⟩ := verdict_true hv
  have hg := exec_good [.alive, .avail] s {} sched (good_init s) (Or.inr (Or.inr (Or.inl ⟨rfl, rfl⟩)))
    (by simp)
  exact ⟨hg.1 ha, by rw [hg.2 u ha hu]; exact hlt⟩

theorem sound_both : SoundReader [.both] := by
  intro s sched need r _ hv
  obtain ⟨u, ha, hu, hlt⟩ := verdict_true hv
  have hg := exec_good [.both] s {} sched (good_init s) (Or.inr (Or.inr (Or.inr ⟨rfl, rfl⟩)))
    (by simp)
  exact ⟨hg.1 ha, by rw [hg.2 u ha hu]; exact hlt⟩

/-- The order "amount first, liveness second" is unsound: the witness schedule
(the wait times out short; the writer commits its last data and goes away; then
liveness is read). -/
theorem unsound_availFirst : ¬ SoundReader [.avail, .alive] := by
  intro h
  have := h ⟨0, true⟩ [none, some (.add 5), some .drop, none] 1 rfl (by decide)
  revert this; decide

/-! Writer side: only "peer seen gone ⇒ peer gone" is needed, any order works. -/

theorem alive_seen (prog : List Obs) (s : Sh) (l : Local) (sched : List (Option Env))
    (h : l.a = some false → s.peerAlive = false) :
    (exec prog s l sched).2.1.a = some false → (exec prog s l sched).1.peerAlive = false := by
  induction sched generalizing prog s l with
  | nil => exact h
  | cons x rest ih =>
    cases x with
    | some e =>
      simp only [exec]
      exact ih prog (envStep s e) l (fun ha => envStep_alive_mono s e (h ha))
    | none =>
      cases prog with
      | nil => simp only [exec]; exact ih [] s l h
      | cons o p =>
        simp only [exec]
        apply ih p s
        cases o <;> simp [observe] <;> intro ha <;> first | exact h ha | exact ha

theorem sound_writer_any (prog : List Obs) : SoundWriter prog := by
  intro s sched need r _ hv
  obtain ⟨u, ha, _, _⟩ := verdict_true hv
  exact alive_seen prog s {} sched (by simp) ha

/-! Arrival. -/

theorem exec_dead (prog : List Obs) (s : Sh) (l : Local) (sched : List (Option Env))
    (hd : s.peerAlive = false) : (exec prog s l sched).1 = s := by
  induction sched generalizing prog l with
  | nil => rfl
  | cons x rest ih =>
    cases x with
    | some e => simp only [exec]; rw [envStep_dead s e hd]; exact ih prog l
    | none =>
      cases prog with
      | nil => simp only [exec]; exact ih [] l
      | cons o p => simp only [exec]; exact ih p _

/-- On a dead-peer state every completed observation sees the final values. -/
theorem exec_dead_local (prog : List Obs) (s : Sh) (l : Local) (sched : List (Option Env))
    (hd : s.peerAlive = false)
    (hdone : (exec prog s l sched).2.2 = []) :
    ((prog.contains .alive || prog.contains .both) = true ∨ l.a = some false) →
    ((prog.contains .avail || prog.contains .both) = true ∨ l.u = some s.avail) →
    (exec prog s l sched).2.1.a = some false ∧ (exec prog s l sched).2.1.u = some s.avail := by
  induction sched generalizing prog l with
  | nil =>
    simp only [exec] at hdone ⊢
    subst hdone
    intro h1 h2
    simp at h1 h2
    exact ⟨h1, h2⟩
  | cons x rest ih =>
    cases x with
    | some e =>
      simp only [exec] at hdone ⊢
      rw [envStep_dead s e hd] at hdone ⊢
      exact ih prog l hdone
    | none =>
      cases prog with
      | nil => simp only [exec] at hdone ⊢; exact ih [] l hdone
      | cons o p =>
        simp only [exec] at hdone ⊢
        intro h1 h2
        apply ih p _ hdone
        · cases o <;> simp_all [observe]
        · cases o <;> simp_all [observe]

theorem arrives_of_complete (prog : List Obs) (hc : Complete prog = true) : Arrives prog := by
  intro s sched need hd hlt r hdone
  have hc' : ((prog.contains .alive || prog.contains .both) = true) ∧
      ((prog.contains .avail || prog.contains .both) = true) := by
    unfold Complete at hc
    simp only [Bool.or_eq_true, Bool.and_eq_true] at hc ⊢
    rcases hc with h | ⟨h1, h2⟩
    · exact ⟨Or.inr h, Or.inr h⟩
    · exact ⟨Or.inl h1, Or.inl h2⟩
  obtain ⟨ha, hu⟩ := exec_dead_local prog s {} sched hd hdone (Or.inl hc'.1) (Or.inl hc'.2)
  show verdict (exec prog s {} sched).2.1 need = true
  unfold verdict
  rw [ha, hu]
  simp [hlt]

/-- Once the peer is gone, a completed call of a program that observes both facts answers EXACTLY
`avail < need` — for every request, whatever was asked (and answered) before on the same stream: each call starts
from fresh observations, so a "never" for a large request does not carry over to one that the queued samples
satisfy. -/
theorem exact_after_close (prog : List Obs) (hc : Complete prog = true) (s : Sh) (sched : List (Option Env))
    (need : Nat) (hd : s.peerAlive = false) (hdone : (exec prog s {} sched).2.2 = []) :
    verdict (exec prog s {} sched).2.1 need = decide (s.avail < need) := by
  have hc' : ((prog.contains .alive || prog.contains .both) = true) ∧
      ((prog.contains .avail || prog.contains .both) = true) := by
    unfold Complete at hc
    simp only [Bool.or_eq_true, Bool.and_eq_true] at hc ⊢
    rcases hc with h | ⟨h1, h2⟩
    · exact ⟨Or.inr h, Or.inr h⟩
    · exact ⟨Or.inl h1, Or.inl h2⟩
  obtain ⟨ha, hu⟩ := exec_dead_local prog s {} sched hd hdone (Or.inl hc'.1) (Or.inl hc'.2)
  unfold verdict
  rw [ha, hu]
  simp

end RR.Wait
