import RR.Model.Dsp
import RR.Proof.Hand

/-!
`CmaEqualizer` (model `RR.Dsp.cmaBlock`, compared call by call with the real block, taps included through its
outputs): the block state and the cumulative output are a function of the number of samples consumed alone —
whatever windows and output space the calls were given. Each productive call handles exactly `ntaps` samples.
-/
namespace RR.Dsp
open RR.Blk

theorem cmaLoop_length (m s : Float32) (co win : List C32) :
    ∀ (xs taps out : List C32), (cmaLoop m s co win taps xs out).2.length = out.length + xs.length
  | [], _, _ => by simp [cmaLoop]
  | x :: xs, taps, out => by
    simp only [cmaLoop]
    rw [cmaLoop_length m s co win xs]
    simp; omega

/-- state and output after `k` whole blocks of `n` samples of the input history `X` -/
def cmaBlocks (n : Nat) (m s : Float32) (X : List Nat) : Nat → List C32 × List Nat
  | 0 => ((cmaBlock n m s).init, [])
  | k + 1 =>
    let p := cmaBlocks n m s X k
    let win := ((X.drop (k * n)).take n).map c32Codec.dec
    let r := cmaLoop m s (List.replicate n (0.0, 0.0)) win p.1 win []
    (r.1, p.2 ++ r.2.map c32Codec.enc)

theorem cmaWork_wait_in (n : Nat) (m s : Float32) (taps : List C32) (v : View)
    (h : (in0 v).samples.length < n) : cmaWork n m s taps v = (taps, noOut v (.waitIn 0 n)) := by
  simp only [cmaWork, h, if_true]

theorem cmaWork_wait_out (n : Nat) (m s : Float32) (taps : List C32) (v : View)
    (h1 : ¬ (in0 v).samples.length < n) (h2 : (out0 v).free < n) :
    cmaWork n m s taps v = (taps, noOut v (.waitOut 0 n)) := by
  simp only [cmaWork, h1, h2, if_true, if_false]

theorem cmaWork_go (n : Nat) (m s : Float32) (taps : List C32) (v : View)
    (h1 : ¬ (in0 v).samples.length < n) (h2 : ¬ (out0 v).free < n) :
    cmaWork n m s taps v =
      let win := ((in0 v).samples.take n).map c32Codec.dec
      let r := cmaLoop m s (List.replicate n (0.0, 0.0)) win taps win []
      (r.1, { consumed := [n], produced := [⟨r.2.map c32Codec.enc, (in0 v).tags.filter fun t => decide (t.pos < n)⟩],
              verdict := .again }) := by
  simp only [cmaWork, h1, h2, if_false]

theorem noOut_nothing (v : View) (vd : Verdict) :
    (noOut v vd).consumed.getD 0 0 = 0 ∧ ((noOut v vd).produced.getD 0 ⟨[], []⟩).samples = [] := by
  constructor
  · cases h : v.ins <;> simp [noOut, h]
  · cases h : v.outs <;> simp [noOut, h]

theorem cma_step_v (n : Nat) (m s : Float32) (X : List Nat) (k a : Nat) (v : View)
    (hin : (in0 v).samples = (X.drop (k * n)).take a) :
    ((cmaWork n m s (cmaBlocks n m s X k).1 v).1 = (cmaBlocks n m s X k).1 ∧
      (cmaWork n m s (cmaBlocks n m s X k).1 v).2.consumed.getD 0 0 = 0 ∧
      ((cmaWork n m s (cmaBlocks n m s X k).1 v).2.produced.getD 0 ⟨[], []⟩).samples = []) ∨
    ((cmaWork n m s (cmaBlocks n m s X k).1 v).1 = (cmaBlocks n m s X (k + 1)).1 ∧
      (cmaWork n m s (cmaBlocks n m s X k).1 v).2.consumed.getD 0 0 = n ∧
      (cmaBlocks n m s X k).2 ++ ((cmaWork n m s (cmaBlocks n m s X k).1 v).2.produced.getD 0 ⟨[], []⟩).samples =
        (cmaBlocks n m s X (k + 1)).2) := by
  by_cases h1 : (in0 v).samples.length < n
  · left
    rw [cmaWork_wait_in n m s _ v h1]
    exact ⟨rfl, (noOut_nothing v _).1, (noOut_nothing v _).2⟩
  · by_cases h2 : (out0 v).free < n
    · left
      rw [cmaWork_wait_out n m s _ v h1 h2]
      exact ⟨rfl, (noOut_nothing v _).1, (noOut_nothing v _).2⟩
    · right
      have ha : n ≤ a := by
        have := List.length_take_le a (X.drop (k * n)); rw [hin] at h1; omega
      have ht : (in0 v).samples.take n = (X.drop (k * n)).take n := by
        rw [hin, List.take_take, Nat.min_eq_left ha]
      rw [cmaWork_go n m s _ v h1 h2]
      simp [ht, cmaBlocks]

/-- one call from the state after `k` blocks: either nothing happens or the state after `k + 1` blocks is reached -/
theorem cma_step (n : Nat) (m s : Float32) (X : List Nat) (k a f : Nat) :
    let st := (cmaBlocks n m s X k).1
    let r := cmaWork n m s st ⟨[⟨(X.drop (k * n)).take a, [], true⟩], [⟨f, true⟩]⟩
    (r.1 = st ∧ r.2.consumed.getD 0 0 = 0 ∧ (r.2.produced.getD 0 ⟨[], []⟩).samples = []) ∨
    (r.1 = (cmaBlocks n m s X (k + 1)).1 ∧ r.2.consumed.getD 0 0 = n ∧
      (cmaBlocks n m s X k).2 ++ (r.2.produced.getD 0 ⟨[], []⟩).samples = (cmaBlocks n m s X (k + 1)).2) :=
  cma_step_v n m s X k a ⟨[⟨(X.drop (k * n)).take a, [], true⟩], [⟨f, true⟩]⟩ rfl

/-- **Chunk independence**: from the state after `k` blocks, every schedule of (readable prefix, free space)
ends in the state after some `k' ≥ k` blocks with exactly `k'·n` samples consumed and the output of `k'` blocks. -/
theorem cma_drive (n : Nat) (m s : Float32) (X : List Nat) (sched : List (Nat × Nat)) :
    ∀ k, ∃ k', k ≤ k' ∧
      drive1 (cmaBlock n m s) X (cmaBlocks n m s X k).1 (k * n) (cmaBlocks n m s X k).2 sched =
        ((cmaBlocks n m s X k').1, k' * n, (cmaBlocks n m s X k').2) := by
  induction sched with
  | nil => intro k; exact ⟨k, Nat.le_refl k, rfl⟩
  | cons af rest ih =>
    intro k
    obtain ⟨a, f⟩ := af
    have hs := cma_step n m s X k a f
    simp only [drive1]
    rcases hs with ⟨h1, h2, h3⟩ | ⟨h1, h2, h3⟩
    · obtain ⟨k', hk, he⟩ := ih k
      refine ⟨k', hk, ?_⟩
      simp only [cmaBlock] at *
      rw [h1, h2, h3]
      simpa using he
    · obtain ⟨k', hk, he⟩ := ih (k + 1)
      refine ⟨k', by omega, ?_⟩
      simp only [cmaBlock] at *
      rw [h1, h2, h3, ← Nat.succ_mul]
      exact he

/-- every productive call emits exactly as many samples as it consumes: `ntaps` -/
theorem cma_counts (n : Nat) (m s : Float32) (taps : List C32) (v : View)
    (hi : n ≤ (in0 v).samples.length) (ho : n ≤ (out0 v).free) :
    let r := cmaWork n m s taps v
    r.2.consumed = [n] ∧ (r.2.produced.map (·.samples.length)) = [n] := by
  intro r
  have h1 : ¬ (in0 v).samples.length < n := by omega
  have h2 : ¬ (out0 v).free < n := by omega
  simp only [r, cmaWork, h1, h2, if_false, List.map, List.length_map, cmaLoop_length, List.length_nil,
    List.length_take, Nat.zero_add]
  exact ⟨trivial, by simp; omega⟩

/-- the three outcomes of a call, each with the facts that make its verdict truthful -/
theorem cma_verdicts (n : Nat) (m s : Float32) (taps : List C32) (v : View) :
    let r := cmaWork n m s taps v
    (r.2.verdict = .waitIn 0 n ∧ (in0 v).samples.length < n ∧ r.1 = taps ∧ r.2 = noOut v (.waitIn 0 n)) ∨
    (r.2.verdict = .waitOut 0 n ∧ n ≤ (in0 v).samples.length ∧ (out0 v).free < n ∧ r.1 = taps ∧
      r.2 = noOut v (.waitOut 0 n)) ∨
    (r.2.verdict = .again ∧ n ≤ (in0 v).samples.length ∧ n ≤ (out0 v).free ∧ r.2.consumed = [n]) := by
  intro r
  by_cases h1 : (in0 v).samples.length < n
  · left
    have : r = (taps, noOut v (.waitIn 0 n)) := cmaWork_wait_in n m s taps v h1
    rw [this]; exact ⟨rfl, h1, rfl, rfl⟩
  · by_cases h2 : (out0 v).free < n
    · right; left
      have : r = (taps, noOut v (.waitOut 0 n)) := cmaWork_wait_out n m s taps v h1 h2
      rw [this]; exact ⟨rfl, by omega, h2, rfl, rfl⟩
    · right; right
      have hr := cmaWork_go n m s taps v h1 h2
      refine ⟨?_, by omega, by omega, ?_⟩
      · show (cmaWork n m s taps v).2.verdict = _
        rw [hr]
      · show (cmaWork n m s taps v).2.consumed = _
        rw [hr]

end RR.Dsp
