import RR.Model.AuBlock
import RR.Proof.Au

/-!
AuDecode as a block, for every chunking: whatever read windows and output space
the calls see, the block is where the one-shot decoder `Au.decode` says it
should be — it fails only if the one-shot decoder fails on the whole stream, and
once in the data state its cumulative output is a prefix of the one-shot result.
-/
namespace RR.Au
open RR RR.Blk

theorem pairsBE_append : ∀ (A B : List Nat), A.length % 2 = 0 → pairsBE (A ++ B) = pairsBE A ++ pairsBE B
  | [], B, _ => by simp [pairsBE]
  | [a], B, h => by simp at h
  | a :: b :: rest, B, h => by
    have h' : rest.length % 2 = 0 := by simp at h; omega
    simp [pairsBE, pairsBE_append rest B h']

theorem pairsBE_take : ∀ (k : Nat) (l : List Nat), pairsBE (l.take (2 * k)) = (pairsBE l).take k
  | 0, l => by simp [pairsBE]
  | k + 1, [] => by simp [pairsBE]
  | k + 1, [a] => by
    have e : 2 * (k + 1) = (2 * k + 1) + 1 := by omega
    rw [e]; simp [pairsBE]
  | k + 1, a :: b :: rest => by
    have e : 2 * (k + 1) = (2 * k + 1) + 1 := by omega
    rw [e]
    simp [pairsBE, pairsBE_take k rest]

/-- the header checks of the decoder on the whole stream -/
def HdrOK (bitrate : Nat) (X : List Nat) (off : Nat) : Prop :=
  ofBeBytes ((((X.drop 8).take (off - 8)).drop 4).take 4) = pcm16 ∧
  ofBeBytes ((((X.drop 8).take (off - 8)).drop 8).take 4) = bitrate ∧
  ofBeBytes ((((X.drop 8).take (off - 8)).drop 12).take 4) = 1

/-- where the block is after consuming `c` bytes of `X` without an error -/
def AuInv (bitrate : Nat) (deq : Nat → Nat) (X : List Nat) (st : DecSt) (c : Nat) (out : List Nat) : Prop :=
  match st with
  | .magic => c = 0 ∧ out = []
  | .size => c = 4 ∧ out = [] ∧ 4 ≤ X.length ∧ ofBeBytes (X.take 4) = magic
  | .header off => c = 8 ∧ out = [] ∧ 8 ≤ X.length ∧ ofBeBytes (X.take 4) = magic ∧
      off = ofBeBytes ((X.drop 4).take 4)
  | .data => 8 ≤ X.length ∧ ofBeBytes (X.take 4) = magic ∧
      24 ≤ ofBeBytes ((X.drop 4).take 4) ∧ ofBeBytes ((X.drop 4).take 4) ≤ c ∧ c ≤ X.length ∧
      HdrOK bitrate X (ofBeBytes ((X.drop 4).take 4)) ∧ (c - ofBeBytes ((X.drop 4).take 4)) % 2 = 0 ∧
      out = (pairsBE ((X.drop (ofBeBytes ((X.drop 4).take 4))).take (c - ofBeBytes ((X.drop 4).take 4)))).map deq

theorem take_window (X : List Nat) (c a k : Nat) (hk : k ≤ ((X.drop c).take a).length) :
    ((X.drop c).take a).take k = (X.drop c).take k := by
  rw [List.take_take]
  congr 1
  simp at hk
  omega

/-- One call: either an error that the one-shot decoder reports for the whole stream too, or the
invariant moves on. -/
theorem dec_step (bitrate : Nat) (deq : Nat → Nat) (X : List Nat) (st : DecSt) (c : Nat) (out : List Nat)
    (hinv : AuInv bitrate deq X st c out) (a f : Nat) :
    let r := decWork bitrate deq st ⟨[⟨(X.drop c).take a, [], true⟩], [⟨f, true⟩]⟩
    r.2.verdict ≠ .panic ∧
    (r.2.verdict = .err → ∃ e, decode bitrate X = .error e) ∧
    (r.2.verdict ≠ .err →
      AuInv bitrate deq X r.1 (c + r.2.consumed.getD 0 0) (out ++ (r.2.produced.getD 0 ⟨[], []⟩).samples)) := by
  generalize hw : (X.drop c).take a = w
  intro r
  have hwl : w.length ≤ X.length - c := by rw [← hw]; simp; omega
  have htk : ∀ k, k ≤ w.length → w.take k = (X.drop c).take k := by
    intro k hk; rw [← hw]; exact take_window X c a k (by rw [hw]; exact hk)
  simp only [r, decWork, in0, out0, noOut, errOut, stepOut, List.getD_cons_zero]
  by_cases hemp : w.isEmpty = true
  · simp only [hemp, if_true]
    refine ⟨by simp, by simp, ?_⟩
    intro _; simpa using hinv
  · simp only [hemp, Bool.false_eq_true, if_false]
    have hwpos : 0 < w.length := by
      cases w with
      | nil => simp at hemp
      | cons _ _ => simp
    cases st with
    | magic =>
      obtain ⟨hc, hout⟩ := hinv
      subst hc; subst hout
      simp only []
      by_cases h4 : w.length < 4
      · simp only [h4, if_true]
        exact ⟨by simp, by simp, fun _ => by simp [AuInv]⟩
      · simp only [h4, if_false]
        have e4 : w.take 4 = X.take 4 := by rw [htk 4 (by omega)]; simp
        rw [e4]
        by_cases hm : ofBeBytes (X.take 4) = magic
        · simp only [hm, ne_eq, not_true_eq_false, if_false]
          refine ⟨by simp, by simp, fun _ => ?_⟩
          simp only [AuInv, List.getD_cons_zero, List.append_nil]
          exact ⟨trivial, trivial, by omega, hm⟩
        · simp only [ne_eq, hm, not_false_eq_true, if_true]
          refine ⟨by simp, fun _ => ?_, by simp⟩
          refine ⟨.badMagic, ?_⟩
          unfold decode
          have : ¬ X.length < 4 := by omega
          simp [this, hm]
    | size =>
      obtain ⟨hc, hout, hx4, hm⟩ := hinv
      subst hc; subst hout
      simp only []
      by_cases h4 : w.length < 4
      · simp only [h4, if_true]
        exact ⟨by simp, by simp, fun _ => by simp [AuInv, hx4, hm]⟩
      · simp only [h4, if_false]
        refine ⟨by simp, by simp, fun _ => ?_⟩
        simp only [AuInv, List.getD_cons_zero, List.append_nil]
        exact ⟨trivial, trivial, by omega, hm, by rw [htk 4 (by omega)]⟩
    | header off =>
      obtain ⟨hc, hout, hx8, hm, hoff⟩ := hinv
      subst hc; subst hout
      simp only []
      have hx9 : ¬ X.length < 9 := by omega
      by_cases h24 : off < 24
      · simp only [h24, if_true]
        refine ⟨by simp, fun _ => ⟨.smallOffset, ?_⟩, by simp⟩
        unfold decode
        have h1 : ¬ X.length < 4 := by omega
        have h2 : ¬ X.length < 8 := by omega
        simp only [h1, h2, hx9, if_false, ne_eq, hm, not_true_eq_false, ← hoff, h24, if_true]
      · simp only [h24, if_false]
        by_cases hlen : w.length < off - 8
        · simp only [hlen, if_true]
          exact ⟨by simp, by simp, fun _ => by simp [AuInv, hx8, hm, hoff]⟩
        · simp only [hlen, if_false]
          have hhl : ¬ (w.take (off - 8)).length < 16 := by simp; omega
          simp only [hhl, if_false]
          have eh : w.take (off - 8) = (X.drop 8).take (off - 8) := by rw [htk _ (by omega)]
          rw [eh]
          have hXoff : ¬ X.length < off := by omega
          have hdec : (ofBeBytes ((((X.drop 8).take (off - 8)).drop 4).take 4) ≠ pcm16 ∨
              ofBeBytes ((((X.drop 8).take (off - 8)).drop 8).take 4) ≠ bitrate ∨
              ofBeBytes ((((X.drop 8).take (off - 8)).drop 12).take 4) ≠ 1) →
              ∃ e', decode bitrate X = .error e' := by
            intro hbad
            unfold decode
            have h1 : ¬ X.length < 4 := by omega
            have h2 : ¬ X.length < 8 := by omega
            simp only [h1, h2, hx9, if_false, ne_eq, hm, not_true_eq_false, ← hoff, h24, hXoff]
            by_cases g1 : ofBeBytes ((((X.drop 8).take (off - 8)).drop 4).take 4) = pcm16
            · by_cases g2 : ofBeBytes ((((X.drop 8).take (off - 8)).drop 8).take 4) = bitrate
              · by_cases g3 : ofBeBytes ((((X.drop 8).take (off - 8)).drop 12).take 4) = 1
                · rcases hbad with h | h | h
                  · exact absurd g1 h
                  · exact absurd g2 h
                  · exact absurd g3 h
                · exact ⟨.badChannels, by simp [g1, g2, g3]⟩
              · exact ⟨.badBitrate, by simp [g1, g2]⟩
            · exact ⟨.badEncoding, by simp [g1]⟩
          by_cases g1 : ofBeBytes ((((X.drop 8).take (off - 8)).drop 4).take 4) = pcm16
          · by_cases g2 : ofBeBytes ((((X.drop 8).take (off - 8)).drop 8).take 4) = bitrate
            · by_cases g3 : ofBeBytes ((((X.drop 8).take (off - 8)).drop 12).take 4) = 1
              · simp only [ne_eq, g1, g2, g3, not_true_eq_false, if_false]
                refine ⟨by simp, by simp, fun _ => ?_⟩
                simp only [AuInv, List.getD_cons_zero, List.append_nil, ← hoff]
                have hsub : 8 + (off - 8) - off = 0 := by omega
                refine ⟨hx8, hm, by omega, by omega, by omega, ⟨g1, g2, g3⟩, by omega, ?_⟩
                rw [hsub]; simp [pairsBE]
              · simp only [ne_eq, g1, g2, g3, not_true_eq_false, not_false_eq_true, if_false, if_true]
                exact ⟨by simp, fun _ => hdec (Or.inr (Or.inr g3)), by simp⟩
            · simp only [ne_eq, g1, g2, not_true_eq_false, not_false_eq_true, if_false, if_true]
              exact ⟨by simp, fun _ => hdec (Or.inr (Or.inl g2)), by simp⟩
          · simp only [ne_eq, g1, not_false_eq_true, if_true]
            exact ⟨by simp, fun _ => hdec (Or.inl g1), by simp⟩
    | data =>
      obtain ⟨hx8, hm, h24, hoc, hcx, hh, hev, hout⟩ := hinv
      simp only []
      generalize hoffd : ofBeBytes ((X.drop 4).take 4) = off at h24 hoc hh hev hout
      generalize hn : min w.length (f * 2) = n
      by_cases hz : n - n % 2 = 0
      · have hz' : (n - n % 2 == 0) = true := by simpa using hz
        simp only [hz', if_true]
        split
        · refine ⟨by simp, by simp, fun _ => ?_⟩
          simp only [AuInv, List.map, List.getD_cons_zero, List.append_nil, Nat.add_zero, hoffd]
          exact ⟨hx8, hm, h24, hoc, hcx, hh, hev, hout⟩
        · refine ⟨by simp, by simp, fun _ => ?_⟩
          simp only [AuInv, List.map, List.getD_cons_zero, List.append_nil, Nat.add_zero, hoffd]
          exact ⟨hx8, hm, h24, hoc, hcx, hh, hev, hout⟩
      · have hz' : (n - n % 2 == 0) = false := by simpa using hz
        simp only [hz', Bool.false_eq_true, if_false]
        refine ⟨by simp, by simp, fun _ => ?_⟩
        simp only [AuInv, List.getD_cons_zero, hoffd]
        generalize hn2 : n - n % 2 = n2 at hz
        have hn2w : n2 ≤ w.length := by omega
        have hn2e : n2 % 2 = 0 := by omega
        refine ⟨hx8, hm, h24, by omega, by omega, hh, by omega, ?_⟩
        have e1 : c + n2 - off = (c - off) + n2 := by omega
        rw [hout, e1, List.take_add, List.drop_drop, pairsBE_append _ _ (by simp; omega), List.map_append,
          htk n2 hn2w]
        have e2 : off + (c - off) = c := by omega
        rw [e2]

/-- No state and no window make `AuDecode::work` panic (the header slices are in range because the
data offset was checked first). -/
theorem dec_no_panic (bitrate : Nat) (deq : Nat → Nat) (st : DecSt) (v : View) :
    (decWork bitrate deq st v).2.verdict ≠ .panic := by
  unfold decWork
  simp only []
  split
  · simp [noOut]
  · cases st with
    | magic => simp only []; split <;> (try split) <;> simp [noOut, errOut, stepOut]
    | size => simp only []; split <;> simp [noOut, stepOut]
    | header off =>
      simp only []
      split
      · simp [errOut]
      · split
        · simp [noOut]
        · rename_i h1 h2
          have hhl : ¬ ((in0 v).samples.take (off - 8)).length < 16 := by simp; omega
          simp only [hhl, if_false]
          split <;> (try split) <;> (try split) <;> simp [errOut, stepOut]
    | data => simp only []; split <;> (try split) <;> simp [noOut, stepOut]

/-- Drive the decoder over the byte stream `X`; stops at the first error. -/
def auDrive (bitrate : Nat) (deq : Nat → Nat) (X : List Nat) :
    DecSt → Nat → List Nat → List (Nat × Nat) → DecSt × Nat × List Nat × Bool
  | st, c, out, [] => (st, c, out, false)
  | st, c, out, (a, f) :: rest =>
    let r := decWork bitrate deq st ⟨[⟨(X.drop c).take a, [], true⟩], [⟨f, true⟩]⟩
    if r.2.verdict = .err then (r.1, c + r.2.consumed.getD 0 0, out, true)
    else auDrive bitrate deq X r.1 (c + r.2.consumed.getD 0 0) (out ++ (r.2.produced.getD 0 ⟨[], []⟩).samples) rest

theorem au_drive (bitrate : Nat) (deq : Nat → Nat) (X : List Nat) (sched : List (Nat × Nat)) :
    ∀ (st : DecSt) (c : Nat) (out : List Nat), AuInv bitrate deq X st c out →
      let r := auDrive bitrate deq X st c out sched
      (r.2.2.2 = true → ∃ e, decode bitrate X = .error e) ∧
      (r.2.2.2 = false → AuInv bitrate deq X r.1 r.2.1 r.2.2.1) := by
  induction sched with
  | nil => intro st c out h; exact ⟨by simp [auDrive], fun _ => h⟩
  | cons p rest ih =>
    intro st c out h
    obtain ⟨a, f⟩ := p
    obtain ⟨_, s2, s3⟩ := dec_step bitrate deq X st c out h a f
    simp only [auDrive]
    split
    · rename_i he
      exact ⟨fun _ => s2 he, by simp⟩
    · rename_i he
      exact ih _ _ _ (s3 he)

/-- In the data state the one-shot decoder succeeds on the whole stream and the cumulative
output is the first `(c - off) / 2` samples of its result. -/
theorem inv_data_prefix (bitrate : Nat) (deq : Nat → Nat) (X : List Nat) (c : Nat) (out : List Nat)
    (h : AuInv bitrate deq X .data c out) :
    ∃ off pcm, decode bitrate X = .ok (some pcm) ∧ pcm = pairsBE (X.drop off) ∧ off ≤ c ∧
      out = (pcm.take ((c - off) / 2)).map deq := by
  obtain ⟨hx8, hm, h24, hoc, hcx, ⟨g1, g2, g3⟩, hev, hout⟩ := h
  refine ⟨_, _, ?_, rfl, hoc, ?_⟩
  · unfold decode
    have h1 : ¬ X.length < 4 := by omega
    have h2 : ¬ X.length < 8 := by omega
    have h3 : ¬ X.length < 9 := by omega
    have h4 : ¬ ofBeBytes ((X.drop 4).take 4) < 24 := by omega
    have h5 : ¬ X.length < ofBeBytes ((X.drop 4).take 4) := by omega
    simp only [h1, h2, h3, h4, h5, if_false, ne_eq, hm, not_true_eq_false, g1, g2, g3]
  · rw [hout, ← pairsBE_take]
    congr 3
    omega

end RR.Au
