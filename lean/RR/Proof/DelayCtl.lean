import RR.Model.Hand

/-!
`Delay::set_delay` (the control call of `delayCtlBlock`): when it panics, and when it changes the pending net
shift — zeros still owed minus samples still to be dropped — by exactly `new − old`, which is what "Change the
delay" has to mean for the output to become the input shifted by the new delay. The block `delayctl` ties
`delaySet` to `Delay::set_delay` call by call (including the panic), so these are statements about the code's
arithmetic; the two `example`s are the inputs on which the real call misbehaves (recorded in DESIGN.md 6.5 as
observations: no property quantifies over control calls).
-/
namespace RR.Blk

/-- pending net shift: zeros still owed minus input samples still to be dropped -/
def DelaySt.net (st : DelaySt) : Int := (st.currentDelay : Int) - (st.skip : Int)

/-- `set_delay` panics exactly when the delay is lowered by less than the zeros it wants to cancel -/
theorem delaySet_none_iff (d : Nat) (st : DelaySt) (nd : Nat) :
    delaySet d st nd = none ↔ nd ≤ d ∧ d - nd < min st.currentDelay nd := by
  unfold delaySet
  by_cases h : nd > d
  · simp [h]; omega
  · simp only [h, if_false]
    by_cases h2 : d - nd < min st.currentDelay nd
    · simp [h2]; omega
    · simp [h2]

/-- once the start-up zeros are out (`current_delay = 0`) no `set_delay` can panic -/
theorem delaySet_total_after_startup (d : Nat) (st : DelaySt) (nd : Nat) (h0 : st.currentDelay = 0) :
    (delaySet d st nd).isSome := by
  cases h : delaySet d st nd with
  | some _ => rfl
  | none => rw [delaySet_none_iff] at h; omega

/-- the configured delay always becomes the requested one -/
theorem delaySet_delay (d : Nat) (st : DelaySt) (nd d' : Nat) (st' : DelaySt)
    (h : delaySet d st nd = some (d', st')) : d' = nd := by
  unfold delaySet at h
  split at h
  · cases h; rfl
  · simp only at h
    split at h
    · cases h
    · cases h; rfl

/-- lowering (or keeping) the delay with no drop pending changes the net shift by exactly `nd − d` -/
theorem delaySet_net_lower (d : Nat) (st : DelaySt) (nd d' : Nat) (st' : DelaySt) (hle : nd ≤ d)
    (hs : st.skip = 0) (h : delaySet d st nd = some (d', st')) :
    st'.net = st.net + ((nd : Int) - (d : Int)) := by
  unfold delaySet at h
  have : ¬ nd > d := by omega
  simp only [this, if_false] at h
  split at h
  · cases h
  · cases h
    simp only [DelaySt.net, hs]
    omega

/-- raising the delay changes the net shift by exactly `nd − d` iff no start-up zeros are owed -/
theorem delaySet_net_raise (d : Nat) (st : DelaySt) (nd : Nat) (hgt : nd > d) :
    ∃ st', delaySet d st nd = some (nd, st') ∧
      (st'.net = st.net + ((nd : Int) - (d : Int)) ↔ st.currentDelay = 0) := by
  refine ⟨{ st with currentDelay := nd - d }, by simp [delaySet, hgt], ?_⟩
  simp only [DelaySt.net]
  omega

/-- with nothing pending every `set_delay` succeeds and is exact: the documented behaviour holds whenever the
call is made in a steady state -/
theorem delaySet_steady (d : Nat) (st : DelaySt) (nd : Nat) (h0 : st.currentDelay = 0) (hs : st.skip = 0) :
    ∃ st', delaySet d st nd = some (nd, st') ∧ st'.net = st.net + ((nd : Int) - (d : Int)) := by
  by_cases hgt : nd > d
  · obtain ⟨st', h1, h2⟩ := delaySet_net_raise d st nd hgt
    exact ⟨st', h1, h2.mpr h0⟩
  · have hsome := delaySet_total_after_startup d st nd h0
    cases h : delaySet d st nd with
    | none => rw [h] at hsome; cases hsome
    | some p =>
      obtain ⟨d', st'⟩ := p
      have hd := delaySet_delay d st nd d' st' h
      subst hd
      exact ⟨st', rfl, delaySet_net_lower d st d' d' st' (by omega) hs h⟩

/-- `Delay::new(s, 5)`, then `set_delay(4)` before any sample: the real call panics (usize underflow) -/
example : delaySet 5 ⟨5, 0⟩ 4 = none := by decide

/-- `Delay::new(s, 5)`, then `set_delay(7)` before any sample: only 2 zeros stay owed instead of 7 -/
example : (delaySet 5 ⟨5, 0⟩ 7).map (fun p => (p.1, p.2.currentDelay, p.2.skip)) = some (7, 2, 0) := by decide

/-- premises of `delaySet_steady` are met by a running block -/
example : (⟨0, 0⟩ : DelaySt).currentDelay = 0 ∧ (⟨0, 0⟩ : DelaySt).skip = 0 := by decide

end RR.Blk
