import RR.Model.Sched

/-!
Kahn-style determinism for a graph of deterministic stream functions (C05,
C06 result part): streams are created by block constructors from existing read
ends, so the graph is a DAG and its streams can be numbered in creation order.
A state in which every block's output histories equal its history function
applied to its input histories (what C08's `LocalLaw` theorems give once each
block has consumed all it can) is unique: it is the sequential reference
evaluation — whatever interleaving, wait timeouts, stream sizes or add order
produced it.
-/
namespace RR.Kpn

structure Node where
  /-- ids of the streams this block reads (all created earlier) -/
  ins : List Nat
  nout : Nat
  /-- the block's history function: complete input histories ↦ complete output histories -/
  F : List (List Nat) → List (List Nat)

def inputsOf (n : Node) (hs : List (List Nat)) : List (List Nat) := n.ins.map fun i => hs.getD i []

def outsOf (n : Node) (hs : List (List Nat)) : List (List Nat) :=
  (List.range n.nout).map fun j => (n.F (inputsOf n hs)).getD j []

/-- The sequential reference execution: blocks in creation order, each on the
complete histories of its inputs. -/
def eval : List Node → List (List Nat) → List (List Nat)
  | [], hs => hs
  | n :: rest, hs => eval rest (hs ++ outsOf n hs)

/-- `h` (a history for every stream) is quiescent for the nodes whose outputs
start at stream id `b`: wiring only refers to earlier streams, and every
output history is the block's function of its input histories. -/
def Quiescent : List Node → Nat → List (List Nat) → Prop
  | [], b, h => h.length = b
  | n :: rest, b, h =>
    (∀ i ∈ n.ins, i < b) ∧
    (∀ j, j < n.nout → h.getD (b + j) [] = (n.F (inputsOf n h)).getD j []) ∧
    Quiescent rest (b + n.nout) h

theorem quiescent_len (nodes : List Node) (b : Nat) (h : List (List Nat)) (q : Quiescent nodes b h) :
    b ≤ h.length := by
  induction nodes generalizing b with
  | nil => simp [Quiescent] at q; omega
  | cons n rest ih =>
    have := ih (b + n.nout) q.2.2
    omega

theorem inputs_agree (n : Node) (hs h : List (List Nat)) (hpre : h.take hs.length = hs)
    (hin : ∀ i ∈ n.ins, i < hs.length) : inputsOf n hs = inputsOf n h := by
  unfold inputsOf
  apply List.map_congr_left
  intro i hi
  have hlt := hin i hi
  have : hs.getD i [] = (h.take hs.length).getD i [] := by rw [hpre]
  rw [this]
  simp [List.getD_eq_getElem?_getD, List.getElem?_take, hlt]

theorem eval_unique (nodes : List Node) (hs h : List (List Nat))
    (hpre : h.take hs.length = hs) (q : Quiescent nodes hs.length h) : eval nodes hs = h := by
  induction nodes generalizing hs with
  | nil =>
    simp only [Quiescent] at q
    simp only [eval]
    rw [← hpre, ← q, List.take_length]
  | cons n rest ih =>
    obtain ⟨hin, hout, hq⟩ := q
    simp only [eval]
    have hlen := quiescent_len rest _ h hq
    have hle : hs.length ≤ h.length := by omega
    have hpre' : h.take (hs ++ outsOf n hs).length = hs ++ outsOf n hs := by
      apply List.ext_getElem
      · simp [outsOf]; omega
      · intro k h1 h2
        simp only [List.length_take, List.length_append, outsOf, List.length_map, List.length_range] at h1
        rw [List.getElem_take]
        by_cases hk : k < hs.length
        · rw [List.getElem_append_left hk]
          have : (h.take hs.length)[k]'(by simp; omega) = hs[k] := by simp [hpre]
          rw [← this, List.getElem_take]
        · rw [List.getElem_append_right (by omega)]
          have hj : k - hs.length < n.nout := by omega
          have := hout (k - hs.length) hj
          have e : hs.length + (k - hs.length) = k := by omega
          rw [e] at this
          simp only [outsOf, List.getElem_map, List.getElem_range]
          rw [inputs_agree n hs h hpre hin, ← this]
          simp [List.getD_eq_getElem?_getD, show k < h.length by omega]
    apply ih _ hpre'
    simpa [outsOf] using hq

/-- **Uniqueness of the quiescent state**: any assignment of histories to the
streams of a DAG in which each block's outputs are its function of its inputs
equals the sequential reference evaluation. -/
theorem quiescent_is_reference (nodes : List Node) (h : List (List Nat)) (q : Quiescent nodes 0 h) :
    h = eval nodes [] := (eval_unique nodes [] h (by simp) (by simpa using q)).symm

end RR.Kpn

namespace RR.Sched

/-- Why a block thread of the multithreaded runner leaves its loop: only by
cancellation, a failing `work()`, an `EOF` verdict, or — after a wait — because
`b.eof()` is true or the wait said "never". -/
theorem mtLoop_exit_reasons (script : Script) (cancelAt : Option Nat) (k fuel : Nat) :
    let r := mtLoop script cancelAt k fuel
    r.2 = .outOfFuel ∨
    (r.2 = .cancelled ∧ seenCancel cancelAt r.1 = true) ∨
    (r.2 = .failed ∧ (callAt script (r.1 - 1)).v = .err ∧ 0 < r.1) ∨
    (r.2 = .eof ∧ (callAt script (r.1 - 1)).v = .eof ∧ 0 < r.1) ∨
    (r.2 = .retired ∧ 0 < r.1 ∧
      ((callAt script (r.1 - 1)).eofAfter = true ∨
       ∃ c, (callAt script (r.1 - 1)).v = .waitStream c true)) := by
  induction fuel generalizing k with
  | zero => left; rfl
  | succ fuel ih =>
    unfold mtLoop
    by_cases hc : seenCancel cancelAt k = true
    · right; left; simp [hc]
    · simp only [hc, Bool.false_eq_true, if_false]
      split
      · rename_i hv; right; right; left; simp [hv]
      · exact ih (k + 1)
      · exact ih (k + 1)
      · rename_i hv; right; right; right; left; simp [hv]
      · rename_i hv
        split
        · rename_i he; right; right; right; right; simp [he]
        · exact ih (k + 1)
      · rename_i closed never hv
        split
        · rename_i he
          right; right; right; right
          simp only [Bool.or_eq_true] at he
          refine ⟨rfl, by simp, ?_⟩
          rcases he with he | he
          · left; simpa using he
          · right; exact ⟨closed, by simp [hv, he]⟩
        · exact ih (k + 1)

end RR.Sched

namespace RR.Sched

/-- A block thread's loop always ends when the block's answers are finite
(after its script a block answers `EOF`): the runner itself never livelocks. -/
theorem mtLoop_terminates (script : Script) (cancelAt : Option Nat) (k fuel : Nat)
    (h : script.length < k + fuel) (hk0 : k ≤ script.length) :
    (mtLoop script cancelAt k fuel).2 ≠ .outOfFuel := by
  induction fuel generalizing k with
  | zero => omega
  | succ fuel ih =>
    unfold mtLoop
    by_cases hc : seenCancel cancelAt k = true
    · simp [hc]
    · simp only [hc, Bool.false_eq_true, if_false]
      by_cases hk : k < script.length
      · split <;> (try split) <;> first
          | (apply ih <;> omega)
          | simp
      · -- past the script: the block answers EOF
        have : callAt script k = ⟨.eof, true, false⟩ := by
          simp [callAt, List.getD_eq_getElem?_getD, List.getElem?_eq_none (by omega : script.length ≤ k)]
        simp [this]

theorem mtThread_terminates (script : Script) (cancelAt : Option Nat) :
    (mtThread script cancelAt).2 ≠ .outOfFuel :=
  mtLoop_terminates script cancelAt 0 _ (by omega) (Nat.zero_le _)

/-- The result does not depend on the order in which blocks were added. -/
theorem mtResult_ok_perm (e1 e2 : List Exit) (h : ∀ x, x ∈ e1 ↔ x ∈ e2) :
    mtResult e1 = .ok ↔ mtResult e2 = .ok := by
  rw [mtResult_ok_iff, mtResult_ok_iff]
  constructor
  · intro h1 e he; exact h1 e ((h e).mpr he)
  · intro h1 e he; exact h1 e ((h e).mp he)
where
  mtResult_ok_iff (exits : List Exit) : mtResult exits = .ok ↔ ∀ e ∈ exits, e ≠ .failed := by
    unfold mtResult
    split
    · rename_i n hn
      constructor
      · intro h; cases h
      · intro h
        obtain ⟨hlt, hp, _⟩ := List.findIdx?_eq_some_iff_getElem.mp hn
        exact absurd (by simpa using hp) (h _ (List.getElem_mem hlt))
    · rename_i hn
      simp only [true_iff]
      intro e he
      have := List.findIdx?_eq_none_iff.mp hn e he
      simpa using this

end RR.Sched
