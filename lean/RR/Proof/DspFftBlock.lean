import RR.Proof.DspFftLoop

/-! `FftFilter` block, any chunking, exact arithmetic: the output is the linear convolution. -/
namespace RR.Dsp
open RR.Blk Finset

variable {R : Type} [CommRing R]

/-- **FftFilter, every schedule, exact arithmetic.** After any sequence of `work()` calls with
arbitrary readable prefixes and free space, the block has emitted exactly `B` whole batches, and
they are the first `B·S` samples of the linear convolution (zero pre-history) of the taps with
the input; the `|buf| < S` samples consumed beyond them sit in its buffer. -/
theorem fft_block_eq_conv (cd : Codec R) (taps : List R) (ht : 0 < taps.length) (Xn : List Nat)
    (sched : List (Nat × Nat)) :
    let S := calcFftSize taps.length - taps.length
    let r := drive1 (fftBlock (ringOps R) cd taps) Xn ⟨[], [], List.replicate taps.length 0⟩ 0 [] sched
    ∃ B, r.2.1 = B * S + r.1.buf.length ∧ r.1.buf.length < S ∧
      r.2.2 = ((List.range (B * S)).map fun n => convAt taps (Xn.map cd.dec) n).map cd.enc := by
  intro S r
  have hS : 0 < calcFftSize taps.length - taps.length := by
    have := calcFftSize_ge taps.length; omega
  have hinv := fft_drive (ringOps R) cd taps Xn hS sched ⟨[], [], List.replicate taps.length 0⟩ 0 []
    (fft_init (ringOps R) cd taps Xn hS)
  obtain ⟨B, e1, e2, e3, _, _, e6⟩ := hinv
  refine ⟨B, e1, e3, ?_⟩
  rw [e6, ← olaRun_eq_olaOut]
  have hX : B * (calcFftSize taps.length - taps.length) ≤ (Xn.map cd.dec).length := by
    simp only [List.length_map]; omega
  have := ola_run taps (Xn.map cd.dec) ht B 0 (List.replicate taps.length 0) (by simpa using hX)
    (fun i _ => tail_init taps (Xn.map cd.dec) _ i)
  have hz : (ringOps R).zero = (0 : R) := rfl
  rw [hz, this]
  simp
  rfl

end RR.Dsp
