import RR.Model.Sched

namespace RR.Sched

/-! ### one call -/

theorem callBlock_log (scripts : List Script) (acc : PassOut) (n : Nat) :
    (callBlock scripts acc n).st.log = acc.st.log ∨
    (callBlock scripts acc n).st.log = acc.st.log ++ [n] := by
  unfold callBlock
  split; · exact Or.inl rfl
  split; · exact Or.inl rfl
  unfold doCall
  simp only []
  split <;> (try split) <;> simp

/-- The log after folding over `l` is the old log plus a sublist of `l`. -/
theorem fold_log (scripts : List Script) (l : List Nat) (acc : PassOut) :
    ∃ seg, (l.foldl (callBlock scripts) acc).st.log = acc.st.log ++ seg ∧ seg.Sublist l := by
  induction l generalizing acc with
  | nil => exact ⟨[], by simp, List.Sublist.refl _⟩
  | cons n l ih =>
    obtain ⟨seg, h1, h2⟩ := ih (callBlock scripts acc n)
    rcases callBlock_log scripts acc n with h | h
    · exact ⟨seg, by simp only [List.foldl_cons]; rw [h1, h], List.Sublist.cons _ h2⟩
    · refine ⟨n :: seg, by simp only [List.foldl_cons]; rw [h1, h]; simp, List.Sublist.cons_cons _ h2⟩

theorem pass_log (scripts : List Script) (st : ST) :
    ∃ seg, (pass scripts st).st.log = st.log ++ seg ∧ seg.Pairwise (· < ·) := by
  obtain ⟨seg, h1, h2⟩ := fold_log scripts (List.range scripts.length) ⟨st, true, false, none⟩
  exact ⟨seg, h1, List.Pairwise.sublist h2 List.pairwise_lt_range⟩

/-! ### cancellation, single-threaded -/

theorem stLoop_cancel (scripts : List Script) (c : Nat) (st : ST) (fuel : Nat)
    (h : (st.log.drop c).Pairwise (· < ·)) :
    ((stLoop scripts (some c) st fuel).2.log.drop c).Pairwise (· < ·) := by
  induction fuel generalizing st with
  | zero => exact h
  | succ fuel ih =>
    unfold stLoop
    split
    · exact h
    · rename_i hc
      have hlt : st.log.length < c := by
        simp [cancelled] at hc; exact hc
      obtain ⟨seg, h1, h2⟩ := pass_log scripts st
      have hp : ((pass scripts st).st.log.drop c).Pairwise (· < ·) := by
        rw [h1, List.drop_append, List.drop_eq_nil_of_le (by omega)]
        simp only [List.nil_append]
        exact List.Pairwise.sublist (List.drop_sublist _ _) h2
      simp only []
      split
      · exact hp
      · split
        · exact hp
        · exact ih _ hp

/-! ### errors, single-threaded: the ghost answer log -/

/-- No call made so far answered `Err`, unless the pass is marked failed, in
which case that answer is the last one. -/
def NoErr (a : List Call) : Prop := ∀ c ∈ a, c.v ≠ .err

theorem callBlock_answers (scripts : List Script) (acc : PassOut) (n : Nat)
    (h : acc.failed = none → NoErr acc.st.answers)
    (hf : ∀ m, acc.failed = some m → (acc.st.answers.getLast?.map (·.v)) = some .err ∧
      acc.st.log.getLast? = some m) :
    ((callBlock scripts acc n).failed = none → NoErr (callBlock scripts acc n).st.answers) ∧
    (∀ m, (callBlock scripts acc n).failed = some m →
      ((callBlock scripts acc n).st.answers.getLast?.map (·.v)) = some .err ∧
      (callBlock scripts acc n).st.log.getLast? = some m) := by
  unfold callBlock
  split
  · exact ⟨h, hf⟩
  · rename_i hnf
    have hnone : acc.failed = none := by
      cases hh : acc.failed <;> simp_all
    split
    · exact ⟨h, hf⟩
    · unfold doCall
      simp only []
      have base := h hnone
      generalize hc : callAt (scripts.getD n []) (acc.st.pos.getD n 0) = c
      have ext : c.v ≠ .err → NoErr (acc.st.answers ++ [c]) := by
        intro hne x hx
        rcases List.mem_append.mp hx with hx | hx
        · exact base x hx
        · simp at hx; subst hx; exact hne
      split <;> rename_i hv
      · refine ⟨?_, ?_⟩
        · intro hh; cases hh
        · intro m hm
          have : n = m := by simpa using hm
          subst this
          simp [hv]
      all_goals
        refine ⟨fun _ => ?_, ?_⟩
        rotate_left
        · intro m hm; cases hm
        first
          | (split <;> exact ext (by rw [hv]; simp))
          | exact ext (by rw [hv]; simp)

theorem fold_answers (scripts : List Script) (l : List Nat) (acc : PassOut)
    (h : acc.failed = none → NoErr acc.st.answers)
    (hf : ∀ m, acc.failed = some m → (acc.st.answers.getLast?.map (·.v)) = some .err ∧
      acc.st.log.getLast? = some m) :
    ((l.foldl (callBlock scripts) acc).failed = none →
      NoErr (l.foldl (callBlock scripts) acc).st.answers) ∧
    (∀ m, (l.foldl (callBlock scripts) acc).failed = some m →
      ((l.foldl (callBlock scripts) acc).st.answers.getLast?.map (·.v)) = some .err ∧
      (l.foldl (callBlock scripts) acc).st.log.getLast? = some m) := by
  induction l generalizing acc with
  | nil => exact ⟨h, hf⟩
  | cons n l ih =>
    have := callBlock_answers scripts acc n h hf
    exact ih _ this.1 this.2

theorem stLoop_err (scripts : List Script) (cancelAt : Option Nat) (st : ST) (fuel : Nat)
    (h : NoErr st.answers) :
    let r := stLoop scripts cancelAt st fuel
    (r.1 = .ok → NoErr r.2.answers) ∧
    (∀ n, r.1 = .err n → (r.2.answers.getLast?.map (·.v)) = some .err ∧ r.2.log.getLast? = some n) ∧
    (r.1 = .outOfFuel → NoErr r.2.answers) := by
  induction fuel generalizing st with
  | zero =>
    refine ⟨?_, ?_, fun _ => h⟩
    · intro hh; cases hh
    · intro m hm; cases hm
  | succ fuel ih =>
    unfold stLoop
    split
    · refine ⟨fun _ => h, ?_, ?_⟩
      · intro m hm; cases hm
      · intro hh; cases hh
    · have fa := fold_answers scripts (List.range scripts.length) ⟨st, true, false, none⟩
        (fun _ => h) (by intro m hm; cases hm)
      change ((pass scripts st).failed = none → _) ∧ _ at fa
      simp only []
      split
      · rename_i n hn
        refine ⟨?_, ?_, ?_⟩
        · intro hh; cases hh
        · intro m hm
          have : n = m := by simpa using hm
          subst this
          exact fa.2 n hn
        · intro hh; cases hh
      · rename_i hn
        split
        · refine ⟨fun _ => fa.1 hn, ?_, ?_⟩
          · intro m hm; cases hm
          · intro hh; cases hh
        · exact ih _ (fa.1 hn)

/-! ### quiescence -/

theorem stLoop_quiet (scripts : List Script) (st : ST) (fuel : Nat) (st' : ST)
    (h : stLoop scripts none st fuel = (.ok, st')) :
    ∃ st0, (pass scripts st0).st = st' ∧ (pass scripts st0).done = true ∧
      (pass scripts st0).moved = false ∧ (pass scripts st0).failed = none := by
  induction fuel generalizing st with
  | zero => simp [stLoop] at h
  | succ fuel ih =>
    unfold stLoop at h
    simp only [cancelled, Bool.false_eq_true, if_false] at h
    split at h
    · cases h
    · rename_i hn
      split at h
      · rename_i hd
        cases h
        simp at hd
        exact ⟨st, rfl, hd.1, hd.2, hn⟩
      · exact ih _ h

/-- What a quiet pass means for each call in it: it moved nothing and did not
ask to be called again. -/
theorem doCall_quiet (scripts : List Script) (acc : PassOut) (n : Nat)
    (h : (doCall scripts acc n).done = true ∧ (doCall scripts acc n).moved = false) :
    acc.done = true ∧ acc.moved = false ∧
     ∃ c, (doCall scripts acc n).st.answers = acc.st.answers ++ [c] ∧ c.moved = false ∧
       c.v ≠ .again ∧ c.v ≠ .pending := by
  unfold doCall at h ⊢
  simp only [] at h ⊢
  generalize callAt (scripts.getD n []) (acc.st.pos.getD n 0) = c at *
  cases hv : c.v <;> simp only [hv] at h ⊢
  · simp at h
  · simp at h
  · obtain ⟨hd, hm⟩ := h; simp at hm
    refine ⟨hd, hm.1, c, ?_, hm.2, by simp [hv], by simp [hv]⟩
    by_cases he : c.eofAfter = true <;> simp [he]
  · rename_i closed never
    obtain ⟨hd, hm⟩ := h; simp at hm
    refine ⟨hd, hm.1, c, ?_, hm.2, by simp [hv], by simp [hv]⟩
    by_cases he : (c.eofAfter || closed) = true <;> simp [he]
  · obtain ⟨hd, hm⟩ := h; simp at hm
    exact ⟨hd, hm.1, c, rfl, hm.2, by simp [hv], by simp [hv]⟩
  · obtain ⟨hd, hm⟩ := h; simp at hm
    exact ⟨hd, hm.1, c, rfl, hm.2, by simp [hv], by simp [hv]⟩

theorem callBlock_quiet (scripts : List Script) (acc : PassOut) (n : Nat)
    (h : (callBlock scripts acc n).done = true ∧ (callBlock scripts acc n).moved = false) :
    acc.done = true ∧ acc.moved = false ∧
    ((callBlock scripts acc n).st.answers = acc.st.answers ∨
     ∃ c, (callBlock scripts acc n).st.answers = acc.st.answers ++ [c] ∧ c.moved = false ∧
       c.v ≠ .again ∧ c.v ≠ .pending) := by
  unfold callBlock at h ⊢
  split
  · rename_i h1; simp only [h1, if_true] at h; exact ⟨h.1, h.2, Or.inl rfl⟩
  · rename_i h1
    split
    · rename_i h2; simp only [h1, h2, if_true, if_false] at h; exact ⟨h.1, h.2, Or.inl rfl⟩
    · rename_i h2
      simp only [h1, h2, if_false] at h
      obtain ⟨a, b, c⟩ := doCall_quiet scripts acc n h
      exact ⟨a, b, Or.inr c⟩

/-! ### multi-threaded loop -/

theorem mtLoop_cancel (script : Script) (c k fuel : Nat) :
    (mtLoop script (some c) k fuel).1 ≤ max k c := by
  induction fuel generalizing k with
  | zero => simp [mtLoop]; omega
  | succ fuel ih =>
    unfold mtLoop
    by_cases hc : c ≤ k
    · simp [seenCancel, hc]
    · have hk : max (k + 1) c = max k c := by omega
      have ih' := ih (k + 1)
      rw [hk] at ih'
      simp only [seenCancel, hc, decide_false, Bool.false_eq_true, if_false]
      split
      · simp; omega
      · exact ih'
      · exact ih'
      · simp; omega
      · split
        · simp; omega
        · exact ih'
      · split
        · simp; omega
        · exact ih'

theorem mtResult_ok (exits : List Exit) : mtResult exits = .ok ↔ ∀ e ∈ exits, e ≠ .failed := by
  unfold mtResult
  split
  · rename_i n hn
    constructor
    · intro h; cases h
    · intro h
      have := List.findIdx?_eq_some_iff_getElem.mp hn
      obtain ⟨hlt, hp, _⟩ := this
      exact absurd (by simpa using hp) (h _ (List.getElem_mem hlt))
  · rename_i hn
    simp only [true_iff]
    intro e he
    have := List.findIdx?_eq_none_iff.mp hn e he
    simpa using this

theorem mtResult_err (exits : List Exit) (n : Nat) (h : mtResult exits = .err n) :
    exits[n]? = some .failed := by
  unfold mtResult at h
  split at h
  · rename_i m hm
    cases h
    obtain ⟨hlt, hp, _⟩ := List.findIdx?_eq_some_iff_getElem.mp hm
    simp at hp
    simp [hlt, hp]
  · cases h

/-- A thread whose loop ends `failed` made its last call on an `Err` answer, and vice versa: an
`Err` answer always ends the loop as `failed`. -/
theorem mtLoop_failed (script : Script) (cancelAt : Option Nat) (k fuel : Nat) :
    (mtLoop script cancelAt k fuel).2 = .failed →
      (callAt script ((mtLoop script cancelAt k fuel).1 - 1)).v = .err ∧
      0 < (mtLoop script cancelAt k fuel).1 := by
  induction fuel generalizing k with
  | zero => simp [mtLoop]
  | succ fuel ih =>
    unfold mtLoop
    split
    · simp
    · simp only []
      split
      · rename_i hv; intro _; simp [hv]
      · exact ih (k + 1)
      · exact ih (k + 1)
      · simp
      · split
        · simp
        · exact ih (k + 1)
      · split
        · simp
        · exact ih (k + 1)

/-- An `Err` answer at the next call ends the thread as `failed`. -/
theorem mtLoop_err_now (script : Script) (cancelAt : Option Nat) (k fuel : Nat)
    (hc : seenCancel cancelAt k = false) (hv : (callAt script k).v = .err) :
    mtLoop script cancelAt k (fuel + 1) = (k + 1, .failed) := by
  simp [mtLoop, hc, hv]

end RR.Sched
