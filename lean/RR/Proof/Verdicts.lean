import RR.Model.Hand
import RR.Model.AuBlock
import RR.Model.Conv

/-!
Truthful verdicts (C09) of more hand-written `work()`s on an arbitrary view:
Delay, AuEncode, RationalResampler.
-/
namespace RR.Blk

/-- Delay (no pending `set_delay`): it waits for output space when there is none, or when the window is empty
and the zeros it owes have filled all the room there was (more are owed); it waits for input only when the window
is empty and no zeros are owed any more (those it could emit were emitted in the same call); otherwise it moves
at least one sample, within both windows. -/
theorem delay_verdicts (cd : Nat) (w : List Nat) (ts : List Tag) (f : Nat) :
    let r := delayWork ⟨cd, 0⟩ ⟨[⟨w, ts, true⟩], [⟨f, true⟩]⟩
    let n := r.2.consumed.getD 0 0
    let p := (r.2.produced.getD 0 ⟨[], []⟩).samples
    n ≤ w.length ∧ p.length ≤ f ∧
    ((r.2.verdict = .waitOut 0 1 ∧ f = 0 ∧ n = 0 ∧ p = []) ∨
     (r.2.verdict = .waitOut 0 1 ∧ 0 < f ∧ w = [] ∧ n = 0 ∧ p.length = f ∧ f < cd) ∨
     (r.2.verdict = .waitIn 0 1 ∧ 0 < f ∧ w = [] ∧ n = 0 ∧ p.length = cd ∧ cd ≤ f) ∨
     (r.2.verdict = .again ∧ 0 < f ∧ w ≠ [] ∧ 0 < n + p.length)) := by
  intro r n p
  simp only [r, n, p, delayWork, in0, out0, noOut, List.getD_cons_zero]
  by_cases hf : f = 0
  · simp [hf]
  · have hfb : (f == 0) = false := by simpa using hf
    simp only [hfb, Bool.false_eq_true, if_false, Nat.min_zero, Nat.zero_min, Nat.sub_zero, List.drop_zero,
      Nat.zero_add, Nat.add_zero]
    generalize hnz : (if cd > 0 then min cd f else 0) = nz
    have hnzf : nz ≤ f := by
      rw [← hnz]; split
      · exact Nat.min_le_right _ _
      · omega
    have hnzv : nz = min cd f := by
      rw [← hnz]; split
      · rfl
      · omega
    by_cases hw : w.length = 0
    · have hwn : w = [] := List.length_eq_zero_iff.mp hw
      subst hwn
      simp only [List.length_nil]
      have hc : (((0 : Nat) == 0 && (0 : Nat) == 0) = true) := by decide
      simp only [hc, if_true, List.getD_cons_zero, List.length_replicate]
      refine ⟨Nat.le_refl _, hnzf, ?_⟩
      right
      by_cases hcd : cd - nz > 0
      · left
        rw [if_pos hcd]
        exact ⟨rfl, by omega, trivial, trivial, by omega, by omega⟩
      · right; left
        rw [if_neg hcd]
        exact ⟨rfl, by omega, trivial, trivial, by omega, by omega⟩
    · have hwn : w ≠ [] := fun h => hw (by simp [h])
      have hb : (w.length == 0) = false := by simpa using hw
      simp only [hb, Bool.and_false, Bool.false_eq_true, if_false, List.getD_cons_zero,
        List.length_append, List.length_replicate, List.length_take]
      refine ⟨Nat.min_le_left _ _, by omega, ?_⟩
      right; right; right
      refine ⟨trivial, by omega, hwn, ?_⟩
      -- either zeros or samples were moved
      by_cases hz : nz = 0
      · have : 0 < min w.length (f - nz) := by omega
        omega
      · omega

end RR.Blk

namespace RR.Au
open RR RR.Blk

/-- AuEncode: with header bytes left it waits only for a full output; afterwards it waits for input only
when the window is empty and for TWO bytes of output only when fewer than two are free; otherwise it moves
data, within both windows. -/
theorem enc_verdicts (q : Nat → Nat) (st : EncSt) (hst : st ≠ some []) (w : List Nat) (f : Nat) :
    let r := encWork q st ⟨[⟨w, [], true⟩], [⟨f, true⟩]⟩
    let n := r.2.consumed.getD 0 0
    let p := (r.2.produced.getD 0 ⟨[], []⟩).samples
    n ≤ w.length ∧ p.length ≤ f ∧
    ((r.2.verdict = .waitOut 0 1 ∧ st ≠ none ∧ f = 0 ∧ n = 0 ∧ p = []) ∨
     (r.2.verdict = .waitIn 0 1 ∧ st = none ∧ w = [] ∧ n = 0 ∧ p = []) ∨
     (r.2.verdict = .waitOut 0 2 ∧ st = none ∧ w ≠ [] ∧ f < 2 ∧ n = 0 ∧ p = []) ∨
     (r.2.verdict = .again ∧ 0 < n + p.length)) := by
  intro r n p
  simp only [r, n, p, encWork, in0, out0, noOut, List.getD_cons_zero]
  cases st with
  | some h =>
    by_cases hf : f = 0
    · simp [hf]
    · have hfb : (f == 0) = false := by simpa using hf
      have hh : h ≠ [] := fun e => hst (by rw [e])
      have hpos : 0 < h.length := List.length_pos_iff.mpr hh
      simp only [hfb, Bool.false_eq_true, if_false, List.getD_cons_zero, List.length_take]
      refine ⟨Nat.zero_le _, by omega, ?_⟩
      right; right; right
      exact ⟨trivial, by omega⟩
  | none =>
    by_cases hw : w = []
    · simp [hw]
    · have hwe : w.isEmpty = false := by cases w <;> simp_all
      have hpos : 0 < w.length := List.length_pos_iff.mpr hw
      simp only [hwe, Bool.false_eq_true, if_false]
      by_cases hn : min w.length (f / 2) = 0
      · simp only [hn, beq_self_eq_true, if_true, List.map_cons, List.map_nil, List.getD_cons_zero, List.length_nil]
        refine ⟨Nat.zero_le _, Nat.zero_le _, ?_⟩
        right; right; left
        exact ⟨trivial, trivial, hw, by omega, trivial, trivial⟩
      · have hb : (min w.length (f / 2) == 0) = false := by simpa using hn
        simp only [hb, Bool.false_eq_true, if_false, List.getD_cons_zero]
        have hlen : ∀ l : List Nat, (l.flatMap fun x => beBytes 2 (q x)).length = 2 * l.length := by
          intro l
          induction l with
          | nil => rfl
          | cons x xs ih =>
            simp only [List.flatMap_cons, List.length_append, ih, List.length_cons]
            have : (beBytes 2 (q x)).length = 2 := by simp [beBytes, Codec.leBytes]
            omega
        rw [hlen, List.length_take]
        refine ⟨Nat.min_le_left _ _, by omega, ?_⟩
        right; right; right
        exact ⟨trivial, by omega⟩

end RR.Au

namespace RR.Blk

/-- when the copy loop did not fill the output it took the whole window -/
theorem resLoop_taken (I D : Int) (olen : Nat) (w : List Nat) : ∀ (c : Int) (taken : Nat) (out : List Nat),
    (resLoop I D olen w c taken out).2.2.2 = false → (resLoop I D olen w c taken out).2.1 = taken + w.length := by
  induction w with
  | nil => intro c taken out _; simp [resLoop]
  | cons s rest ih =>
    intro c taken out h
    simp only [resLoop] at h ⊢
    generalize emitCopies D olen s ((c + I).toNat + 1) (c + I) out = E at h ⊢
    obtain ⟨c2, out2, full⟩ := E
    cases full with
    | true =>
      simp only [if_true] at h
      split at h <;> simp at h
    | false =>
      simp only [Bool.false_eq_true, if_false] at h ⊢
      rw [ih c2 (taken + 1) out2 h]
      simp only [List.length_cons]; omega

end RR.Blk
