import RR.Proof.KpnRun

/-!
Retiring blocks (C05, C06). Both runners stop calling a block once its `eof()` has answered true after a wait
verdict. On top of the step relation of `KpnRun`: a graph state now also has the set `R` of retired blocks; a
retired block takes no more steps. A retirement is *sound* when every stream the block reads belongs to a block
that is already retired (so that stream is final) and the block has consumed all of it and emitted everything its
history function gives — the contract `eof()` has to meet (`c09_fft_float_eof_sound` for the wrapper block, the
`!eofsound` lines for every catalogue block).

`retire_all_is_reference`: for EVERY interleaving of steps and sound retirements, once all blocks are retired the
stream histories are the sequential reference execution. `unsound_retire_loses`: with one unsound retirement
(the block still owes output) the run ends, all blocks retired, with a strict prefix of the reference.
-/
namespace RR.Kpn

/-- stream `t` is an output of node `p` -/
def Owns (nodes : List Node) (p : Nat) (hp : p < nodes.length) (t : Nat) : Prop :=
  base nodes p ≤ t ∧ t < base nodes p + nodes[p].nout

/-- node `m` has consumed all of its inputs and emitted all its function gives -/
def Done (nodes : List Node) (s : GState) (m : Nat) (hm : m < nodes.length) : Prop :=
  (∀ k, k < nodes[m].ins.length → (s.cs.getD m []).getD k 0 = (s.h.getD (nodes[m].ins.getD k 0) []).length) ∧
  (∀ j, j < nodes[m].nout →
    s.h.getD (base nodes m + j) [] = (nodes[m].F (consumedOf nodes[m] s.h (s.cs.getD m []))).getD j [])

/-- what a true `eof()` must mean -/
def EofSound (nodes : List Node) (R : List Nat) (s : GState) (m : Nat) (hm : m < nodes.length) : Prop :=
  (∀ i ∈ nodes[m].ins, ∃ p, ∃ hp : p < nodes.length, Owns nodes p hp i ∧ p ∈ R) ∧ Done nodes s m hm

inductive RStep (nodes : List Node) : List Nat × GState → List Nat × GState → Prop where
  | work (R s s' idx) : idx ∉ R → Step nodes idx s s' → RStep nodes (R, s) (R, s')
  | retire (R s m) (hm : m < nodes.length) : EofSound nodes R s m hm → RStep nodes (R, s) (m :: R, s)

inductive RRun (nodes : List Node) : List Nat × GState → List Nat × GState → Prop where
  | refl (x) : RRun nodes x x
  | step (x y z) : RStep nodes x y → RRun nodes y z → RRun nodes x z

/-- every retired block was retired soundly, and still is -/
def RInv (nodes : List Node) (x : List Nat × GState) : Prop :=
  ∀ m ∈ x.1, ∃ hm : m < nodes.length, EofSound nodes x.1 x.2 m hm

/-- a stream owned by another node is untouched by a step of `idx` -/
theorem owned_other_unchanged (nodes : List Node) (idx p : Nat) (hp : p < nodes.length) (s s' : GState)
    (st : Step nodes idx s s') (hne : p ≠ idx) (t : Nat) (ho : Owns nodes p hp t) :
    s'.h.getD t [] = s.h.getD t [] := by
  apply st.others
  obtain ⟨h1, h2⟩ := ho
  rcases Nat.lt_or_gt_of_ne hne with hlt | hgt
  · left
    have := base_mono nodes (p + 1) idx (by omega)
    rw [base_succ nodes p hp] at this
    omega
  · right
    have := base_mono nodes (idx + 1) p (by omega)
    rw [base_succ nodes idx st.hidx] at this
    omega

theorem eofSound_work (nodes : List Node) (R : List Nat) (s s' : GState) (idx : Nat) (hidx : idx ∉ R)
    (st : Step nodes idx s s') (m : Nat) (hmR : m ∈ R) (hm : m < nodes.length)
    (h : EofSound nodes R s m hm) : EofSound nodes R s' m hm := by
  obtain ⟨hprod, hcons, houts⟩ := h
  have hne : m ≠ idx := fun e => hidx (e ▸ hmR)
  have hcs : s'.cs.getD m [] = s.cs.getD m [] := st.cs_other m hne
  -- the input streams of `m` belong to retired nodes: unchanged
  have hin : ∀ i ∈ nodes[m].ins, s'.h.getD i [] = s.h.getD i [] := by
    intro i hi
    obtain ⟨p, hp, ho, hpR⟩ := hprod i hi
    exact owned_other_unchanged nodes idx p hp s s' st (fun e => hidx (e ▸ hpR)) i ho
  have hco : consumedOf nodes[m] s'.h (s'.cs.getD m []) = consumedOf nodes[m] s.h (s.cs.getD m []) := by
    unfold consumedOf
    rw [hcs]
    apply List.map_congr_left
    intro k hk
    have hk' : k < nodes[m].ins.length := by simpa using hk
    have hmem : nodes[m].ins.getD k 0 ∈ nodes[m].ins := by
      rw [List.getD_eq_getElem?_getD, List.getElem?_eq_getElem hk']
      exact List.getElem_mem hk'
    rw [hin _ hmem]
  refine ⟨hprod, ?_, ?_⟩
  · intro k hk
    have hmem : nodes[m].ins.getD k 0 ∈ nodes[m].ins := by
      rw [List.getD_eq_getElem?_getD, List.getElem?_eq_getElem hk]
      exact List.getElem_mem hk
    rw [hcs, hin _ hmem]
    exact hcons k hk
  · intro j hj
    rw [hco, owned_other_unchanged nodes idx m hm s s' st hne (base nodes m + j) ⟨Nat.le_add_right _ _, by omega⟩]
    exact houts j hj

theorem eofSound_mono (nodes : List Node) (R : List Nat) (s : GState) (m x : Nat) (hm : m < nodes.length)
    (h : EofSound nodes R s m hm) : EofSound nodes (x :: R) s m hm := by
  obtain ⟨hprod, hd⟩ := h
  refine ⟨?_, hd⟩
  intro i hi
  obtain ⟨p, hp, ho, hpR⟩ := hprod i hi
  exact ⟨p, hp, ho, List.mem_cons_of_mem _ hpR⟩

theorem rstep_inv (nodes : List Node) (x y : List Nat × GState) (h : RInv nodes x) (st : RStep nodes x y) :
    RInv nodes y := by
  cases st with
  | work R s s' idx hidx st =>
    intro m hm
    obtain ⟨hml, hs⟩ := h m hm
    exact ⟨hml, eofSound_work nodes R s s' idx hidx st m hm hml hs⟩
  | retire R s m hm hs =>
    intro m' hm'
    rcases List.mem_cons.mp hm' with e | hin
    · subst e
      exact ⟨hm, eofSound_mono nodes R s m' m' hm hs⟩
    · obtain ⟨hml, hs'⟩ := h m' hin
      exact ⟨hml, eofSound_mono nodes R s m' m hml hs'⟩

theorem rrun_inv (nodes : List Node) (x y : List Nat × GState) (h : RInv nodes x) (r : RRun nodes x y) :
    RInv nodes y := by
  induction r with
  | refl => exact h
  | step x y z st _ ih => exact ih (rstep_inv nodes x y h st)

/-- forgetting the retirements leaves a run of the step relation -/
theorem rrun_run (nodes : List Node) (x y : List Nat × GState) (r : RRun nodes x y) : Run nodes x.2 y.2 := by
  induction r with
  | refl x => exact Run.refl _
  | step x y z st _ ih =>
    cases st with
    | work R s s' idx _ st => exact Run.step s s' _ idx st ih
    | retire R s m hm _ => exact ih

/-- **Every interleaving of steps and sound retirements**: when all blocks are retired, the streams hold the
sequential reference execution. -/
theorem retire_all_is_reference (nodes : List Node)
    (hw : ∀ m, (hm : m < nodes.length) → ∀ i ∈ nodes[m].ins, i < base nodes m)
    (R : List Nat) (s : GState)
    (r : RRun nodes ([], ⟨List.replicate (base nodes nodes.length) [], []⟩) (R, s))
    (hall : ∀ m, m < nodes.length → m ∈ R) : s.h = eval nodes [] := by
  have hinv : RInv nodes (R, s) := rrun_inv nodes _ _ (by intro m hm; cases hm) r
  have hrun := rrun_run nodes _ _ r
  apply run_terminal nodes hw s hrun
  intro m hm
  obtain ⟨_, _, hd⟩ := hinv m (hall m hm)
  exact hd

end RR.Kpn

namespace RR.Kpn

/-! ### Why the retirement has to be sound: a two-block witness

A source emitting `[1, 2, 3]` and a pass-through block that has consumed all three samples but delivered only
two of them (the third still inside, as in `FftFilterFloat` before `fix:` 88f9b55). Retiring it there ends the
run with a strict prefix of the reference. -/

def lagNodes : List Node :=
  [ ⟨[], 1, fun _ => [[1, 2, 3]]⟩, ⟨[0], 1, fun xs => [xs.getD 0 []]⟩ ]

def lagS0 : GState := ⟨[[], []], []⟩
def lagS1 : GState := ⟨[[1, 2, 3], []], []⟩
def lagS2 : GState := ⟨[[1, 2, 3], [1, 2]], [[], [3]]⟩

theorem lag_step1 : Step lagNodes 0 lagS0 lagS1 where
  hidx := by decide
  len := rfl
  cs_other := by intro m _; rfl
  cs_mono := by intro k; exact Nat.le_refl _
  cs_avail := by intro k hk; exact absurd hk (Nat.not_lt_zero k)
  outs := by
    intro j hj
    have : j = 0 := by
      have : j < 1 := hj
      omega
    subst this
    exact ⟨[], rfl⟩
  grow := by
    intro t
    match t with
    | 0 => exact ⟨[1, 2, 3], rfl⟩
    | 1 => exact ⟨[], rfl⟩
    | t + 2 => exact ⟨[], rfl⟩
  others := by
    intro t ht
    match t with
    | 0 => rcases ht with h | h <;> exact absurd h (by decide)
    | 1 => rfl
    | t + 2 => rfl

theorem lag_step2 : Step lagNodes 1 lagS1 lagS2 where
  hidx := by decide
  len := rfl
  cs_other := by
    intro m hm
    match m with
    | 0 => rfl
    | 1 => exact absurd rfl hm
    | m + 2 => rfl
  cs_mono := by intro k; exact Nat.zero_le _
  cs_avail := by
    intro k hk
    have : k = 0 := by
      have : k < 1 := hk
      omega
    subst this
    decide
  outs := by
    intro j hj
    have : j = 0 := by
      have : j < 1 := hj
      omega
    subst this
    exact ⟨[3], rfl⟩
  grow := by
    intro t
    match t with
    | 0 => exact ⟨[], rfl⟩
    | 1 => exact ⟨[1, 2], rfl⟩
    | t + 2 => exact ⟨[], rfl⟩
  others := by
    intro t ht
    match t with
    | 0 => rfl
    | 1 => rcases ht with h | h <;> exact absurd h (by decide)
    | t + 2 => rfl

/-- the lagging state is reachable, satisfies the invariant, the pass-through block is not `Done` there — and
the streams are a strict prefix of the reference -/
theorem unsound_retire_loses :
    Run lagNodes lagS0 lagS2 ∧ Inv lagNodes lagS2 ∧ ¬ Done lagNodes lagS2 1 (by decide) ∧
    lagS2.h.getD 1 [] = [1, 2] ∧ (eval lagNodes []).getD 1 [] = [1, 2, 3] := by
  have hrun : Run lagNodes lagS0 lagS2 :=
    Run.step _ _ _ 0 lag_step1 (Run.step _ _ _ 1 lag_step2 (Run.refl _))
  have hw : ∀ m, (hm : m < lagNodes.length) → ∀ i ∈ lagNodes[m].ins, i < base lagNodes m := by
    intro m hm i hi
    match m, hm with
    | 0, _ => cases hi
    | 1, _ =>
      have : i = 0 := by simpa [lagNodes] using hi
      subst this
      decide
  refine ⟨hrun, run_inv lagNodes _ _ (inv_init lagNodes hw) hrun, ?_, rfl, rfl⟩
  intro hd
  have := hd.2 0 (by decide)
  revert this
  decide

end RR.Kpn
