import RR.Model.Source

namespace RR.Src
open RR RR.Blk

/-! ### Repeat algebra -/

/-- `k` successive `again()` calls. -/
def againN : Nat → Repeat → Option (Repeat × List Bool)
  | 0, x => some (x, [])
  | k + 1, x =>
    match x.again with
    | none => none
    | some (x', b) => (againN k x').map fun (y, bs) => (y, b :: bs)

theorem againN_finite (n k : Nat) (c : Nat) (hk : k ≤ n) (hc : c + k < 2 ^ 64) :
    againN k ⟨.finite n, c⟩ =
      some (⟨.finite (n - k), c + k⟩, (List.range k).map fun j => decide (n - j > 1)) := by
  induction k generalizing n c with
  | zero => simp [againN]
  | succ k ih =>
    have hn : n ≠ 0 := by omega
    have hov : ¬ (c + 1 ≥ 2 ^ 64) := by omega
    simp only [againN, Repeat.again, hov, hn, if_false]
    rw [ih (n - 1) (c + 1) (by omega) (by omega)]
    have e1 : n - 1 - k = n - (k + 1) := by omega
    have e2 : c + 1 + k = c + (k + 1) := by omega
    have e3 : ∀ j, n - 1 - j = n - (j + 1) := by intro j; omega
    simp only [Option.map_some, List.range_succ_eq_map, List.map_cons, List.map_map, e1, e2, e3,
      Function.comp_def, Nat.sub_zero, Nat.succ_eq_add_one]

/-- Calling `again()` on an exhausted finite repeat is the (only) way to underflow. -/
theorem again_exhausted (c : Nat) : (⟨.finite 0, c⟩ : Repeat).again = none := by
  simp [Repeat.again]

theorem done_iff (x : Repeat) : x.done = true ↔ x.r = .finite 0 := by
  cases x with | mk r c => cases r <;> simp [Repeat.done]

theorem againN_infinite (k c : Nat) (hc : c + k < 2 ^ 64) :
    againN k ⟨.infinite, c⟩ = some (⟨.infinite, c + k⟩, List.replicate k true) := by
  induction k generalizing c with
  | zero => simp [againN]
  | succ k ih =>
    have hov : ¬ (c + 1 ≥ 2 ^ 64) := by omega
    simp only [againN, Repeat.again, hov, if_false]
    rw [ih (c + 1) (by omega)]
    simp [List.replicate_succ]; omega

/-! ### VectorSource -/

def rept (n : Nat) (l : List Nat) : List Nat := (List.replicate n l).flatten

/-- Drive the source: each call sees some free output space. Collects the
samples and whether some call answered `EOF`. -/
def driveSrc (data : List Nat) : VSt → List Nat → Bool → List Nat → VSt × List Nat × Bool
  | st, out, eof, [] => (st, out, eof)
  | st, out, eof, f :: rest =>
    let r := vsWork data st ⟨[], [⟨f, true⟩]⟩
    driveSrc data r.1 (out ++ (r.2.produced.getD 0 ⟨[], []⟩).samples) (eof || r.2.verdict == .eof) rest

/-- What has been emitted when the source is in state `st` (finite repeat `n`). -/
def emitted (data : List Nat) (n : Nat) (st : VSt) : List Nat :=
  match st.rep.r with
  | .finite 0 => rept n data
  | _ => rept st.rep.count data ++ data.take st.pos

/-- Reachable states of a finite source. -/
def Good (data : List Nat) (n : Nat) (st : VSt) : Prop :=
  ∃ m, st.rep.r = .finite m ∧ m + st.rep.count = n ∧ (m = 0 ∨ st.pos < data.length) ∧ st.pos ≤ data.length

theorem rept_succ (n : Nat) (l : List Nat) : rept (n + 1) l = rept n l ++ l := by
  unfold rept
  rw [List.replicate_succ']
  simp

theorem vs_step (data : List Nat) (n : Nat) (hn : n < 2 ^ 64) (hd : data ≠ []) (st : VSt)
    (hg : Good data n st) (f : Nat) :
    let r := vsWork data st ⟨[], [⟨f, true⟩]⟩
    Good data n r.1 ∧
    emitted data n r.1 = emitted data n st ++ (r.2.produced.getD 0 ⟨[], []⟩).samples ∧
    (r.2.verdict = .eof ↔ r.1.rep.r = .finite 0) ∧ r.2.verdict ≠ .panic := by
  intro r
  obtain ⟨m, hm, hsum, hpos, hle⟩ := hg
  obtain ⟨pos, rep⟩ := st
  obtain ⟨rr, cnt⟩ := rep
  simp only at hm hsum hpos hle
  subst hm
  have hde : data.isEmpty = false := by cases data <;> simp_all
  simp only [r, vsWork, hde, Repeat.done, out0, noOut, List.getD_cons_zero]
  by_cases hm0 : m = 0
  · subst hm0
    refine ⟨⟨0, by simp, by simpa using hsum, Or.inl rfl, by simpa using hle⟩, ?_, ?_, by simp⟩
    · simp [emitted]
    · simp
  · have hp : pos < data.length := by rcases hpos with h | h; exact absurd h hm0; exact h
    have hm1 : (m == 0) = false := by simpa using hm0
    simp only [hm1, Bool.false_eq_true, if_false]
    by_cases hf : f = 0
    · have hf0 : (f == 0) = true := by simpa using hf
      simp only [hf0, if_true]
      refine ⟨⟨m, rfl, hsum, Or.inr hp, hle⟩, by simp, ?_, by simp⟩
      constructor
      · intro h; cases h
      · intro h; simp at h; exact absurd h hm0
    · have hf' : (f == 0) = false := by simpa using hf
      simp only [hf', Bool.false_eq_true, if_false]
      generalize hk : min f (data.length - pos) = k
      have hk1 : 0 < k := by omega
      have hk2 : pos + k ≤ data.length := by omega
      by_cases hend : pos + k = data.length
      · have hb : (pos + k == data.length) = true := by simpa using hend
        have hov : ¬ (cnt + 1 ≥ 2 ^ 64) := by omega
        simp only [hb, if_true, Repeat.again, hov, hm0, if_false]
        have hchunk : List.take k (List.drop pos data) = List.drop pos data := by
          apply List.take_of_length_le; simp; omega
        by_cases hmore : m > 1
        · simp only [hmore, decide_true, if_true, List.getD_cons_zero]
          refine ⟨⟨m - 1, rfl, by simp; omega, Or.inr (List.length_pos_iff.mpr hd), Nat.zero_le _⟩, ?_, ?_, by simp⟩
          · have e1 : emitted data n ⟨0, ⟨.finite (m - 1), cnt + 1⟩⟩ = rept (cnt + 1) data := by
              unfold emitted
              have : m - 1 ≠ 0 := by omega
              cases hq : m - 1 with
              | zero => exact absurd hq this
              | succ q => simp
            have e2 : emitted data n ⟨pos, ⟨.finite m, cnt⟩⟩ = rept cnt data ++ data.take pos := by
              unfold emitted
              cases m with
              | zero => exact absurd rfl hm0
              | succ q => simp
            rw [e1, e2, rept_succ, hchunk, List.append_assoc, List.take_append_drop]
          · constructor
            · intro h; cases h
            · intro h; simp at h; omega
        · have hm1' : m = 1 := by omega
          subst hm1'
          simp only [show ¬ (1 > 1) by omega, decide_false, Bool.false_eq_true, if_false,
            List.getD_cons_zero]
          refine ⟨⟨0, rfl, by simp; omega, Or.inl rfl, by omega⟩, ?_, ?_, by simp⟩
          · have e1 : emitted data n ⟨pos + k, ⟨.finite (1 - 1), cnt + 1⟩⟩ = rept n data := by
              unfold emitted; simp
            have e2 : emitted data n ⟨pos, ⟨.finite 1, cnt⟩⟩ = rept cnt data ++ data.take pos := by
              unfold emitted; simp
            have hn' : n = cnt + 1 := by omega
            rw [e1, e2, hn', rept_succ, hchunk, List.append_assoc, List.take_append_drop]
          · simp
      · have hb : (pos + k == data.length) = false := by simpa using hend
        simp only [hb, Bool.false_eq_true, if_false, List.getD_cons_zero]
        refine ⟨⟨m, rfl, hsum, Or.inr (by show pos + k < data.length; omega), by show pos + k ≤ _; omega⟩, ?_, ?_, by simp⟩
        · have e : ∀ p, emitted data n ⟨p, ⟨.finite m, cnt⟩⟩ = rept cnt data ++ data.take p := by
            intro p; unfold emitted
            cases m with
            | zero => exact absurd rfl hm0
            | succ q => simp
          rw [e, e, List.append_assoc]
          congr 1
          rw [List.take_add]
        · constructor
          · intro h; cases h
          · intro h; simp at h; exact absurd h hm0

/-- **VectorSource, any consumption schedule**: whatever free space each call
finds, the cumulative output is `emitted`, i.e. whole repetitions followed by a
prefix of the data; and some call has answered `EOF` exactly when all `n`
repetitions are out. -/
theorem vs_drive (data : List Nat) (n : Nat) (hn : n < 2 ^ 64) (hd : data ≠ []) (st : VSt)
    (hg : Good data n st) (eof : Bool) (heof : eof = true → st.rep.r = .finite 0) (frees : List Nat) :
    let r := driveSrc data st (emitted data n st) eof frees
    Good data n r.1 ∧ r.2.1 = emitted data n r.1 ∧ (r.2.2 = true → r.2.1 = rept n data) := by
  induction frees generalizing st eof with
  | nil =>
    refine ⟨hg, rfl, ?_⟩
    intro h
    have := heof h
    simp [driveSrc, emitted, this]
  | cons f rest ih =>
    obtain ⟨h1, h2, h3, _⟩ := vs_step data n hn hd st hg f
    simp only [driveSrc]
    rw [← h2]
    apply ih _ h1
    intro he
    simp only [Bool.or_eq_true, beq_iff_eq] at he
    rcases he with he | he
    · -- already finished: the state does not change any more
      have hz := heof he
      obtain ⟨m, hm, _, _, _⟩ := hg
      have : (vsWork data st ⟨[], [⟨f, true⟩]⟩).2.verdict = .eof := by
        have hde : data.isEmpty = false := by cases data <;> simp_all
        obtain ⟨pos, rep⟩ := st
        obtain ⟨rr, cnt⟩ := rep
        simp only at hz
        subst hz
        simp [vsWork, hde, Repeat.done, noOut]
      exact h3.mp this
    · exact h3.mp he

end RR.Src
