import RR.Proof.SinkSrc
import Mathlib.Analysis.SpecialFunctions.Trigonometric.Basic

/-!
The signal sources over exact reals: the phase accumulator is reduced modulo 2π after every step (by ANY
whole number of turns — C's `fmod` truncates, a floor-mod would do as well), and the k-th sample is
nevertheless `sin(k·rad)` / `−cos(k·rad)`: a pure tone of `rad` radians per sample, starting one step
after phase 0.
-/
namespace RR.Blk
open Real

/-- exact arithmetic; `turns x` is the whole number of turns the reduction removes from `x` -/
noncomputable def realSigOps (turns : ℝ → ℤ) : SigOps ℝ :=
  { zero := 0, add := (· + ·), wrap := fun x => x - turns x * (2 * π), sin := Real.sin
    quarter := fun x => x - π / 2 }

/-- the phase after `k` samples -/
noncomputable def phase (turns : ℝ → ℤ) (rad : ℝ) : Nat → ℝ
  | 0 => 0
  | k + 1 => (phase turns rad k + rad) - turns (phase turns rad k + rad) * (2 * π)

theorem phase_eq (turns : ℝ → ℤ) (rad : ℝ) : ∀ k : Nat, ∃ M : ℤ, phase turns rad k = k * rad - M * (2 * π) := by
  intro k
  induction k with
  | zero => exact ⟨0, by simp [phase]⟩
  | succ k ih =>
    obtain ⟨M, hM⟩ := ih
    refine ⟨M + turns (phase turns rad k + rad), ?_⟩
    simp only [phase]
    rw [hM]; push_cast; ring

theorem sig_take (turns : ℝ → ℤ) (rad : ℝ) (out : ℝ → ℝ → Nat) : ∀ k : Nat,
    genTake (sigGen (realSigOps turns) rad out) k (sigGen (realSigOps turns) rad out).init =
      (phase turns rad k,
        (List.range k).map fun i => out (Real.sin (phase turns rad (i + 1))) (Real.sin (phase turns rad (i + 1) - π / 2))) := by
  intro k
  induction k with
  | zero => rfl
  | succ k ih =>
    rw [genTake_add _ k 1, ih]
    simp only [genTake, List.range_succ, List.map_append, List.map_cons, List.map_nil]
    rfl

/-- the samples of the ideal source: `out (sin((i+1)·rad)) (−cos((i+1)·rad))` for i = 0, 1, 2, … -/
theorem sig_ideal (turns : ℝ → ℤ) (rad : ℝ) (out : ℝ → ℝ → Nat) (k : Nat) :
    (genTake (sigGen (realSigOps turns) rad out) k (sigGen (realSigOps turns) rad out).init).2 =
      (List.range k).map fun i => out (Real.sin ((i + 1 : ℕ) * rad)) (-Real.cos ((i + 1 : ℕ) * rad)) := by
  rw [sig_take]
  simp only
  apply List.map_congr_left
  intro i _
  obtain ⟨M, hM⟩ := phase_eq turns rad (i + 1)
  rw [hM, Real.sin_sub_pi_div_two, Real.sin_sub_int_mul_two_pi, Real.cos_sub_int_mul_two_pi]

end RR.Blk
