import RR.Model.Sigmf

namespace RR.Sigmf

theorem single_perm {α} (l1 l2 : List α) (h : l1.Perm l2) : single l1 = single l2 := by
  cases l1 with
  | nil =>
    have : l2 = [] := List.Perm.eq_nil h.symm
    subst this; rfl
  | cons a t =>
    cases t with
    | nil =>
      have : l2 = [a] := List.perm_singleton.mp h.symm
      subst this; rfl
    | cons b t2 =>
      have hl := h.length_eq
      cases l2 with
      | nil => simp at hl
      | cons x r =>
        cases r with
        | nil => simp at hl
        | cons _ _ => rfl

theorem single_eq_some {α} (l : List α) (a : α) : single l = some a ↔ l = [a] := by
  cases l with
  | nil => simp [single]
  | cons x t => cases t <;> simp [single]

/-- The member lookup does not depend on the order of the archive members. -/
theorem lookup_perm (ms ms' : List Member) (h : ms.Perm ms') : lookup ms = lookup ms' := by
  unfold lookup
  rw [single_perm _ _ (h.filter _)]
  congr 1
  funext m
  split
  · rfl
  · rw [single_perm _ _ (h.filter _)]

/-- Unrelated members (other extensions, data of other recordings) do not
matter: with exactly one regular metadata member and exactly one regular data
member of the same name, the data member's byte range is returned. -/
theorem lookup_found (ms : List Member) (m d : Member)
    (h1 : ms.filter (·.ext == .metaFile) = [m]) (hm : m.kind = .regular)
    (h2 : ms.filter (fun x => x.ext == .dataFile && x.stem == m.stem) = [d]) (hd : d.kind = .regular) :
    lookup ms = some (d.pos, d.size) := by
  simp [lookup, h1, h2, hm, hd, single]

/-- No metadata, several metadata members, no data member or several: an error. -/
theorem lookup_errors (ms : List Member) :
    ((ms.filter (·.ext == .metaFile)).length ≠ 1 → lookup ms = none) ∧
    (∀ m, ms.filter (·.ext == .metaFile) = [m] →
      (ms.filter (fun x => x.ext == .dataFile && x.stem == m.stem)).length ≠ 1 → lookup ms = none) := by
  constructor
  · intro h
    have : single (ms.filter (·.ext == .metaFile)) = none := by
      cases hf : ms.filter (·.ext == .metaFile) with
      | nil => rfl
      | cons a t =>
        cases t with
        | nil => simp [hf] at h
        | cons _ _ => rfl
    simp [lookup, this]
  · intro m h1 h2
    have : single (ms.filter (fun x => x.ext == .dataFile && x.stem == m.stem)) = none := by
      cases hf : ms.filter (fun x => x.ext == .dataFile && x.stem == m.stem) with
      | nil => rfl
      | cons a t =>
        cases t with
        | nil => simp [hf] at h2
        | cons _ _ => rfl
    have hs : single [m] = some m := rfl
    simp only [lookup, h1, hs, Option.bind_some]
    split
    · rfl
    · rw [this]; rfl

end RR.Sigmf
