import Mathlib.Algebra.BigOperators.Intervals
import Mathlib.Algebra.BigOperators.Ring.Finset
import Mathlib.Analysis.SpecialFunctions.Trigonometric.Basic
import Mathlib.Analysis.SpecialFunctions.Complex.Arg
import Mathlib.Tactic.Ring
import Mathlib.Tactic.FieldSimp
import Mathlib.Tactic.Linarith

/-!
Filter design (`low_pass`, `hilbert`, the windows) and the FM demodulators in
real/complex arithmetic: the expressions of src/fir.rs, src/window.rs and
src/quadrature_demod.rs written over ℝ / ℂ (the float code computes them with
rounding; the harness checks the float results against these facts).
-/
namespace RR.Dsp.Design
open Finset

/-! ### `low_pass`: window method with gain normalisation -/

section LowPass
variable {K : Type} [Field K]

/-- `taps[nm] = core(nm - m) * window[nm]` (before normalisation). -/
def raw (core : ℤ → K) (win : ℕ → K) (m : ℕ) (i : ℕ) : K := core ((i : ℤ) - m) * win i

/-- `fmax = taps[m] + 2 * Σ_{n=1..m} taps[n+m]` -/
def fmax (core : ℤ → K) (win : ℕ → K) (m : ℕ) : K :=
  raw core win m m + 2 * ∑ n ∈ range m, raw core win m (n + 1 + m)

def lowPass (core : ℤ → K) (win : ℕ → K) (m : ℕ) (i : ℕ) : K := raw core win m i * (1 / fmax core win m)

theorem raw_symm (core : ℤ → K) (win : ℕ → K) (m : ℕ) (hcore : ∀ n, core (-n) = core n)
    (hwin : ∀ i, i ≤ 2 * m → win (2 * m - i) = win i) (i : ℕ) (hi : i ≤ 2 * m) :
    raw core win m (2 * m - i) = raw core win m i := by
  unfold raw
  rw [hwin i hi, ← hcore ((i : ℤ) - m)]
  congr 2
  push_cast [Nat.cast_sub hi]
  ring

/-- **generated low-pass taps are symmetric** -/
theorem lowPass_symm (core : ℤ → K) (win : ℕ → K) (m : ℕ) (hcore : ∀ n, core (-n) = core n)
    (hwin : ∀ i, i ≤ 2 * m → win (2 * m - i) = win i) (i : ℕ) (hi : i ≤ 2 * m) :
    lowPass core win m (2 * m - i) = lowPass core win m i := by
  unfold lowPass
  rw [raw_symm core win m hcore hwin i hi]

theorem sum_raw (core : ℤ → K) (win : ℕ → K) (m : ℕ) (hcore : ∀ n, core (-n) = core n)
    (hwin : ∀ i, i ≤ 2 * m → win (2 * m - i) = win i) :
    ∑ i ∈ range (2 * m + 1), raw core win m i = fmax core win m := by
  have hsplit : 2 * m + 1 = m + (1 + m) := by omega
  rw [hsplit, Finset.sum_range_add, Finset.sum_range_add, Finset.sum_range_one]
  have hleft : ∑ i ∈ range m, raw core win m i = ∑ n ∈ range m, raw core win m (n + 1 + m) := by
    rw [← Finset.sum_range_reflect]
    apply Finset.sum_congr rfl
    intro j hj
    have hj' : j < m := Finset.mem_range.mp hj
    rw [← raw_symm core win m hcore hwin (m - 1 - j) (by omega)]
    congr 1
    omega
  have hright : ∑ x ∈ range m, raw core win m (m + (1 + x)) = ∑ n ∈ range m, raw core win m (n + 1 + m) := by
    apply Finset.sum_congr rfl
    intro x _
    congr 1
    omega
  rw [hleft, hright]
  unfold fmax
  simp only [Nat.add_zero]
  ring

/-- **…with unit DC gain**: the normalised taps sum to one. -/
theorem lowPass_dc (core : ℤ → K) (win : ℕ → K) (m : ℕ) (hcore : ∀ n, core (-n) = core n)
    (hwin : ∀ i, i ≤ 2 * m → win (2 * m - i) = win i) (hf : fmax core win m ≠ 0) :
    ∑ i ∈ range (2 * m + 1), lowPass core win m i = 1 := by
  unfold lowPass
  rw [← Finset.sum_mul, sum_raw core win m hcore hwin]
  field_simp

end LowPass

/-! ### the library's `core` and windows over ℝ -/

/-- `if n == 0 { fwt0 / pi } else { sin(n * fwt0) / (n * pi) }` -/
noncomputable def sincCore (fwt0 : ℝ) (n : ℤ) : ℝ :=
  if n = 0 then fwt0 / Real.pi else Real.sin ((n : ℝ) * fwt0) / ((n : ℝ) * Real.pi)

theorem sincCore_even (fwt0 : ℝ) (n : ℤ) : sincCore fwt0 (-n) = sincCore fwt0 n := by
  unfold sincCore
  by_cases h : n = 0
  · simp [h]
  · have h' : -n ≠ 0 := by simpa using h
    rw [if_neg h, if_neg h']
    push_cast
    rw [neg_mul, Real.sin_neg, neg_mul, neg_div_neg_eq]

/-- `hamming(ntaps, a0)`: `a0 - (1-a0) * cos(2π n / (ntaps-1))`, here `ntaps - 1 = 2m`. -/
noncomputable def hammingWin (a0 : ℝ) (m : ℕ) (n : ℕ) : ℝ :=
  a0 - (1 - a0) * Real.cos (2 * Real.pi * (n : ℝ) / ((2 * m : ℕ) : ℝ))

theorem cos_reflect (k : ℕ) (m i : ℕ) (hm : 0 < m) (hi : i ≤ 2 * m) :
    Real.cos ((k : ℝ) * (2 * Real.pi) * ((2 * m - i : ℕ) : ℝ) / ((2 * m : ℕ) : ℝ)) =
      Real.cos ((k : ℝ) * (2 * Real.pi) * (i : ℝ) / ((2 * m : ℕ) : ℝ)) := by
  have hne : ((2 * m : ℕ) : ℝ) ≠ 0 := by
    have : 0 < 2 * m := by omega
    exact_mod_cast this.ne'
  have e : (k : ℝ) * (2 * Real.pi) * ((2 * m - i : ℕ) : ℝ) / ((2 * m : ℕ) : ℝ) =
      (k : ℝ) * (2 * Real.pi) - (k : ℝ) * (2 * Real.pi) * (i : ℝ) / ((2 * m : ℕ) : ℝ) := by
    rw [Nat.cast_sub hi]
    field_simp
  rw [e, Real.cos_nat_mul_two_pi_sub]

theorem hamming_symm (a0 : ℝ) (m : ℕ) (hm : 0 < m) (i : ℕ) (hi : i ≤ 2 * m) :
    hammingWin a0 m (2 * m - i) = hammingWin a0 m i := by
  unfold hammingWin
  have := cos_reflect 1 m i hm hi
  simp only [Nat.cast_one, one_mul] at this
  rw [this]

/-- `blackman(ntaps)` after the repair: divides by `ntaps - 1 = 2m`. -/
noncomputable def blackmanWin (a0 a1 a2 : ℝ) (m : ℕ) (n : ℕ) : ℝ :=
  a0 - a1 * Real.cos (2 * Real.pi * (n : ℝ) / ((2 * m : ℕ) : ℝ)) +
    a2 * Real.cos (4 * Real.pi * (n : ℝ) / ((2 * m : ℕ) : ℝ))

theorem blackman_symm (a0 a1 a2 : ℝ) (m : ℕ) (hm : 0 < m) (i : ℕ) (hi : i ≤ 2 * m) :
    blackmanWin a0 a1 a2 m (2 * m - i) = blackmanWin a0 a1 a2 m i := by
  unfold blackmanWin
  have h1 := cos_reflect 1 m i hm hi
  have h2 := cos_reflect 2 m i hm hi
  simp only [Nat.cast_one, one_mul] at h1
  have e4 : ∀ x : ℝ, 4 * Real.pi * x = ((2 : ℕ) : ℝ) * (2 * Real.pi) * x := by intro x; push_cast; ring
  rw [h1, e4, e4, h2]

/-- `blackman_harris(ntaps)` after the repair. -/
noncomputable def blackmanHarrisWin (a0 a1 a2 a3 : ℝ) (m : ℕ) (n : ℕ) : ℝ :=
  a0 - a1 * Real.cos (2 * Real.pi * (n : ℝ) / ((2 * m : ℕ) : ℝ)) +
    a2 * Real.cos (4 * Real.pi * (n : ℝ) / ((2 * m : ℕ) : ℝ)) -
    a3 * Real.cos (6 * Real.pi * (n : ℝ) / ((2 * m : ℕ) : ℝ))

theorem blackmanHarris_symm (a0 a1 a2 a3 : ℝ) (m : ℕ) (hm : 0 < m) (i : ℕ) (hi : i ≤ 2 * m) :
    blackmanHarrisWin a0 a1 a2 a3 m (2 * m - i) = blackmanHarrisWin a0 a1 a2 a3 m i := by
  unfold blackmanHarrisWin
  have h1 := cos_reflect 1 m i hm hi
  have h2 := cos_reflect 2 m i hm hi
  have h3 := cos_reflect 3 m i hm hi
  simp only [Nat.cast_one, one_mul] at h1
  have e4 : ∀ x : ℝ, 4 * Real.pi * x = ((2 : ℕ) : ℝ) * (2 * Real.pi) * x := by intro x; push_cast; ring
  have e6 : ∀ x : ℝ, 6 * Real.pi * x = ((3 : ℕ) : ℝ) * (2 * Real.pi) * x := by intro x; push_cast; ring
  rw [h1, e4, e4, h2, e6, e6, h3]

/-- The periodic form (division by `ntaps`, as before the repair) is NOT
symmetric: for 3 taps the first and last weights of a Blackman window differ. -/
theorem blackman_periodic_not_symm :
    ¬ ((0.42 : ℝ) - 0.5 * Real.cos (2 * Real.pi * 0 / 3) + 0.08 * Real.cos (4 * Real.pi * 0 / 3) =
       0.42 - 0.5 * Real.cos (2 * Real.pi * 2 / 3) + 0.08 * Real.cos (4 * Real.pi * 2 / 3)) := by
  have c1 : Real.cos (2 * Real.pi * 2 / 3) = -(1 / 2) := by
    have : 2 * Real.pi * 2 / 3 = Real.pi + Real.pi / 3 := by ring
    rw [this, Real.cos_add, Real.cos_pi, Real.sin_pi, Real.cos_pi_div_three]; ring
  have c2 : Real.cos (4 * Real.pi * 2 / 3) = -(1 / 2) := by
    have : 4 * Real.pi * 2 / 3 = (Real.pi - Real.pi / 3) + 2 * Real.pi := by ring
    rw [this, Real.cos_add_two_pi, Real.cos_pi_sub, Real.cos_pi_div_three]
  simp only [mul_zero, zero_div, Real.cos_zero, c1, c2]
  norm_num

/-! ### `hilbert()` taps -/

section Hilbert
variable {K : Type} [Field K]

/-- the loop body of `hilbert()` (before the common gain factor) -/
def hilbertRaw (win : ℕ → K) (mid : ℕ) (j : ℕ) : K :=
  if j = mid then 0
  else if mid < j then (if (j - mid) % 2 = 1 then 1 / ((j - mid : ℕ) : K) * win j else 0)
  else (if (mid - j) % 2 = 1 then -(1 / ((mid - j : ℕ) : K)) * win j else 0)

/-- **Hilbert taps are antisymmetric** about the centre (given a symmetric
window), the centre tap and the even offsets are zero. -/
theorem hilbert_antisymm (win : ℕ → K) (midN : ℕ) (g : K)
    (hwin : ∀ i, i ≤ midN → win (midN + i) = win (midN - i)) (i : ℕ) (hi : i ≤ midN) :
    g * hilbertRaw win midN (midN + i) = -(g * hilbertRaw win midN (midN - i)) := by
  unfold hilbertRaw
  by_cases h0 : i = 0
  · subst h0; simp
  · have e1 : ¬ midN + i = midN := by omega
    have e2 : midN < midN + i := by omega
    have e3 : ¬ midN - i = midN := by omega
    have e4 : ¬ midN < midN - i := by omega
    rw [if_neg e1, if_pos e2, if_neg e3, if_neg e4, Nat.add_sub_cancel_left,
      show midN - (midN - i) = i by omega, hwin i hi]
    split <;> ring

theorem hilbert_even_zero (win : ℕ → K) (midN i : ℕ) (hi : i % 2 = 0) (hle : i ≤ midN) :
    hilbertRaw win midN (midN + i) = 0 ∧ hilbertRaw win midN (midN - i) = 0 := by
  unfold hilbertRaw
  constructor
  · by_cases h0 : i = 0
    · subst h0; simp
    · rw [if_neg (by omega), if_pos (by omega), Nat.add_sub_cancel_left, if_neg (by omega)]
  · by_cases h0 : i = 0
    · subst h0; simp
    · rw [if_neg (by omega), if_neg (by omega), show midN - (midN - i) = i by omega, if_neg (by omega)]

end Hilbert

/-! ### FM demodulators -/

open Complex in
/-- **`QuadratureDemod`**: `gain * atan2(t.im, t.re)` with `t = s * conj(last)`
is `gain` times the phase advance, for any positive amplitudes, when the
advance lies in `(-π, π]`. (`atan2(y, x) = arg (x + y i)`.) -/
theorem quad_demod (gain a b θ φ : ℝ) (ha : 0 < a) (hb : 0 < b) (h : θ - φ ∈ Set.Ioc (-Real.pi) Real.pi) :
    gain * Complex.arg (((a : ℂ) * Complex.exp (θ * I)) * (starRingEnd ℂ) ((b : ℂ) * Complex.exp (φ * I))) =
      gain * (θ - φ) := by
  congr 1
  have e : ((a : ℂ) * Complex.exp (θ * I)) * (starRingEnd ℂ) ((b : ℂ) * Complex.exp (φ * I)) =
      ((a * b : ℝ) : ℂ) * (Complex.cos ((θ - φ : ℝ) : ℂ) + Complex.sin ((θ - φ : ℝ) : ℂ) * I) := by
    rw [map_mul, Complex.conj_ofReal, ← Complex.exp_conj, map_mul, Complex.conj_ofReal, Complex.conj_I,
      ← Complex.exp_mul_I]
    push_cast
    rw [show (a : ℂ) * Complex.exp (θ * I) * ((b : ℂ) * Complex.exp (φ * -I)) =
      (a : ℂ) * b * (Complex.exp (θ * I) * Complex.exp (φ * -I)) by ring, ← Complex.exp_add]
    congr 2
    ring
  rw [e, Complex.arg_mul_cos_add_sin_mul_I (mul_pos ha hb) h]

open Complex in
/-- **`FastFM`**: `top - bottom` is `Im((s - q2) * conj(q1))`. -/
theorem fast_fm (s q1 q2 : ℂ) :
    (s.im - q2.im) * q1.re - (s.re - q2.re) * q1.im = ((s - q2) * (starRingEnd ℂ) q1).im := by
  simp [Complex.mul_im]
  ring

end RR.Dsp.Design
