import RR.Proof.HdlcCrcOrbit

/-!
Corruptions that touch the received checksum field: one flipped data bit together
with one flipped checksum bit is still rejected, and so is any corruption of the
checksum field alone.
-/
namespace RR.Hdlc
open RR.HdlcSpec

/-- one flipped data bit never changes the CRC by exactly one bit of the 16-bit field -/
theorem crc_data_and_fcs_bit (pre rest : List Nat) (b j k : Nat) (hpre : ∀ x ∈ pre, x < 256)
    (hrest : ∀ x ∈ rest, x < 256) (hb : b < 256) (hj : j < 8) (hk : k < 16) (hlen : rest.length + 1 < 4094) :
    crcBitwise (pre ++ (b ^^^ 2 ^ j) :: rest) ≠ crcBitwise (pre ++ b :: rest) ^^^ 2 ^ k := by
  unfold crcBitwise
  intro h
  rw [List.foldl_append, List.foldl_append, List.foldl_cons, List.foldl_cons] at h
  have hs : crcFold 0xffff pre < 65536 := crcFold_lt pre hpre _ (by decide)
  change crcFold (crcStep8 (crcFold 0xffff pre ^^^ (b ^^^ 2 ^ j))) rest ^^^ 0xffff =
    crcFold (crcStep8 (crcFold 0xffff pre ^^^ b)) rest ^^^ 0xffff ^^^ 2 ^ k at h
  generalize hS : crcFold 0xffff pre = S at hs h
  have e : S ^^^ (b ^^^ 2 ^ j) = (S ^^^ b) ^^^ 2 ^ j := by rw [Nat.xor_assoc]
  rw [e, crcStep8_xor (S ^^^ b) (2 ^ j), crcFold_xor rest] at h
  generalize hT : crcFold (crcStep8 (S ^^^ b)) rest = T at h
  -- T xor D xor ffff = T xor ffff xor 2^k  ==>  D = 2^k
  have hD : crcIter (8 * rest.length) (crcStep8 (2 ^ j)) = 2 ^ k := by
    have h2 := congrArg (fun x => T ^^^ 0xffff ^^^ x) h
    have l1 : T ^^^ 0xffff ^^^ (T ^^^ crcIter (8 * rest.length) (crcStep8 (2 ^ j)) ^^^ 0xffff) =
        crcIter (8 * rest.length) (crcStep8 (2 ^ j)) := by
      rw [Nat.xor_assoc T _ 0xffff, Nat.xor_comm (crcIter _ _) 0xffff, ← Nat.xor_assoc T 0xffff,
        ← Nat.xor_assoc, Nat.xor_self, Nat.zero_xor]
    have l2 : T ^^^ 0xffff ^^^ (T ^^^ 0xffff ^^^ 2 ^ k) = 2 ^ k := by
      rw [← Nat.xor_assoc, Nat.xor_self, Nat.zero_xor]
    rw [l1, l2] at h2
    exact h2
  rw [crcStep8_eq_iter, ← crcIter_add, single_bit_on_orbit j (by omega), ← crcIter_add,
    single_bit_on_orbit k hk] at hD
  exact orbit_distinct (15 - k) (15 - j + (8 + 8 * rest.length)) (by omega) (by omega) hD.symm

/-- a corrupted checksum field alone (any non-zero error pattern) never matches -/
theorem fcs_only (d e : Nat) (he : e ≠ 0) : d ^^^ e ≠ d := by
  intro h
  have : d ^^^ (d ^^^ e) = e := by rw [← Nat.xor_assoc, Nat.xor_self, Nat.zero_xor]
  rw [h, Nat.xor_self] at this
  exact he this.symm

end RR.Hdlc
