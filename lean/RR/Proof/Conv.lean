import RR.Model.Conv

/-! `StreamToPdu`: a per-sample automaton — chunking is immaterial, PDUs are bounded. -/
namespace RR.Blk

theorem s2pLoop_append (key maxSize tail : Nat) (tags : List Tag) (a b : List Nat) :
    ∀ (i : Nat) (st : S2P) (out : List (List Nat)),
      s2pLoop key maxSize tail tags (a ++ b) i st out =
        s2pLoop key maxSize tail tags b (i + a.length) (s2pLoop key maxSize tail tags a i st out).1
          (s2pLoop key maxSize tail tags a i st out).2 := by
  induction a with
  | nil => intro i st out; simp [s2pLoop]
  | cons x rest ih =>
    intro i st out
    simp only [List.cons_append, s2pLoop, List.length_cons]
    rw [ih]
    congr 1
    omega

theorem clip_bound (maxSize : Nat) (st2 : S2P) :
    (if st2.buf.length > maxSize then ({ buf := [], endcounter := none } : S2P) else st2).buf.length ≤ maxSize := by
  split
  · simp
  · omega

theorem s2pStep_bound (key maxSize tail : Nat) (tv : Option Bool) (st : S2P) (s : Nat)
    (h : st.buf.length ≤ maxSize) :
    (s2pStep key maxSize tail tv st s).2.buf.length ≤ maxSize ∧
    ∀ p, (s2pStep key maxSize tail tv st s).1 = some p → p.length ≤ maxSize := by
  unfold s2pStep
  constructor
  · exact clip_bound maxSize _
  · intro p hp
    simp only at hp
    split at hp
    · simp at hp; rw [← hp]; exact h
    · simp at hp

/-- Every PDU pushed holds at most `max_size` samples, whatever the tags and the input. -/
theorem s2pLoop_bound (key maxSize tail : Nat) (tags : List Tag) (xs : List Nat) :
    ∀ (i : Nat) (st : S2P) (out : List (List Nat)), st.buf.length ≤ maxSize → (∀ p ∈ out, p.length ≤ maxSize) →
      (s2pLoop key maxSize tail tags xs i st out).1.buf.length ≤ maxSize ∧
      ∀ p ∈ (s2pLoop key maxSize tail tags xs i st out).2, p.length ≤ maxSize := by
  induction xs with
  | nil => intro i st out h1 h2; exact ⟨h1, h2⟩
  | cons x rest ih =>
    intro i st out h1 h2
    simp only [s2pLoop]
    have hs := s2pStep_bound key maxSize tail (tagBoolAt tags key i) st x h1
    apply ih
    · exact hs.1
    · intro p hp
      cases he : (s2pStep key maxSize tail (tagBoolAt tags key i) st x).1 with
      | none => rw [he] at hp; exact h2 p hp
      | some q =>
        rw [he] at hp
        rcases List.mem_append.mp hp with h | h
        · exact h2 p h
        · simp at h; rw [h]; exact hs.2 q he

end RR.Blk
