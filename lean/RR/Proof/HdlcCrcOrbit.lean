import RR.Proof.HdlcCrcDetect

/-!
The bit-serial CRC step has an orbit of length exactly 32767 through the
single-bit states (`x` has order 32767 modulo the generator): two flipped bits
less than 32767 bit positions apart never cancel.
-/
namespace RR.Hdlc
open RR.HdlcSpec

/-- `k` applications of the CRC step -/
def crcIter : Nat → Nat → Nat
  | 0, s => s
  | k + 1, s => crcIter k (crcStep s)

theorem crcIter_add (a b s : Nat) : crcIter (a + b) s = crcIter b (crcIter a s) := by
  induction a generalizing s with
  | zero => simp [crcIter]
  | succ a ih => rw [Nat.succ_add]; simp only [crcIter]; exact ih _

theorem crcIter_lt (k s : Nat) (h : s < 65536) : crcIter k s < 65536 := by
  induction k generalizing s with
  | zero => exact h
  | succ k ih => simp only [crcIter]; exact ih _ (crcStep_lt s h)

theorem crcStep8_eq_iter (s : Nat) : crcStep8 s = crcIter 8 s := rfl

/-- `k` steps that never pass through `s0`: `none` as soon as `s0` is hit -/
def avoid (s0 : Nat) : Nat → Nat → Option Nat
  | 0, s => some s
  | k + 1, s => if crcStep s = s0 then none else avoid s0 k (crcStep s)

/-- `k` rounds of 181 steps -/
def avoidRounds (s0 : Nat) : Nat → Nat → Option Nat
  | 0, s => some s
  | k + 1, s =>
    match avoid s0 181 s with
    | none => none
    | some s' => avoidRounds s0 k s'

theorem avoid_spec (s0 : Nat) : ∀ (k s s' : Nat), avoid s0 k s = some s' →
    s' = crcIter k s ∧ ∀ j, 0 < j → j ≤ k → crcIter j s ≠ s0 := by
  intro k
  induction k with
  | zero => intro s s' h; simp [avoid] at h; exact ⟨h.symm, by intro j h1 h2; omega⟩
  | succ k ih =>
    intro s s' h
    simp only [avoid] at h
    split at h
    · cases h
    · rename_i hne
      obtain ⟨e, hj⟩ := ih _ _ h
      refine ⟨e, ?_⟩
      intro j h1 h2
      cases j with
      | zero => omega
      | succ j =>
        simp only [crcIter]
        by_cases hj0 : j = 0
        · subst hj0; exact hne
        · exact hj j (by omega) (by omega)

theorem avoidRounds_spec (s0 : Nat) : ∀ (k s s' : Nat), avoidRounds s0 k s = some s' →
    s' = crcIter (181 * k) s ∧ ∀ j, 0 < j → j ≤ 181 * k → crcIter j s ≠ s0 := by
  intro k
  induction k with
  | zero => intro s s' h; simp [avoidRounds] at h; exact ⟨by simp [crcIter, h], by intro j h1 h2; omega⟩
  | succ k ih =>
    intro s s' h
    simp only [avoidRounds] at h
    split at h
    · cases h
    · rename_i s1 h1
      obtain ⟨e1, g1⟩ := avoid_spec s0 181 s s1 h1
      obtain ⟨e2, g2⟩ := ih s1 s' h
      refine ⟨?_, ?_⟩
      · rw [e2, e1, ← crcIter_add]; congr 1; omega
      · intro j hj1 hj2
        by_cases hle : j ≤ 181
        · exact g1 j hj1 hle
        · have : j = 181 + (j - 181) := by omega
          rw [this, crcIter_add, ← e1]
          exact g2 (j - 181) (by omega) (by omega)

/-- the kernel walks the whole orbit once: 181·181 + 5 steps without meeting `0x8000`, the next step is `0x8000` -/
theorem orbit_walk : (match avoidRounds 0x8000 181 0x8000 with
    | none => false
    | some s => match avoid 0x8000 5 s with
      | none => false
      | some t => crcStep t == 0x8000) = true := by decide +kernel

/-- **The orbit of `0x8000` has length exactly 32767.** -/
theorem orbit_period : crcIter 32767 0x8000 = 0x8000 ∧ ∀ j, 0 < j → j < 32767 → crcIter j 0x8000 ≠ 0x8000 := by
  have hw := orbit_walk
  split at hw
  · cases hw
  · rename_i s hs
    split at hw
    · cases hw
    · rename_i t ht
      obtain ⟨e1, g1⟩ := avoidRounds_spec 0x8000 181 0x8000 s hs
      obtain ⟨e2, g2⟩ := avoid_spec 0x8000 5 s t ht
      have hlast : crcStep t = 0x8000 := by simpa using hw
      constructor
      · have : (32767 : Nat) = 181 * 181 + (5 + 1) := by decide
        rw [this, crcIter_add, ← e1, crcIter_add, ← e2]
        simpa [crcIter] using hlast
      · intro j h1 h2
        by_cases hle : j ≤ 181 * 181
        · exact g1 j h1 hle
        · have : j = 181 * 181 + (j - 181 * 181) := by omega
          rw [this, crcIter_add, ← e1]
          exact g2 _ (by omega) (by omega)

end RR.Hdlc

namespace RR.Hdlc
open RR.HdlcSpec

theorem crcStep_inj (a b : Nat) (ha : a < 65536) (hb : b < 65536) (h : crcStep a = crcStep b) : a = b := by
  have : crcStep (a ^^^ b) = 0 := by rw [crcStep_xor, h, Nat.xor_self]
  have := (crcStep_zero_iff _ (Nat.xor_lt_two_pow (n := 16) ha hb)).mp this
  exact xor_eq_zero_imp a b this

theorem crcIter_inj (k a b : Nat) (ha : a < 65536) (hb : b < 65536) (h : crcIter k a = crcIter k b) : a = b := by
  induction k generalizing a b with
  | zero => exact h
  | succ k ih =>
    simp only [crcIter] at h
    exact crcStep_inj a b ha hb (ih _ _ (crcStep_lt a ha) (crcStep_lt b hb) h)

/-- two points of the orbit coincide only a whole period apart -/
theorem orbit_distinct (a b : Nat) (hab : a < b) (hd : b - a < 32767) :
    crcIter a 0x8000 ≠ crcIter b 0x8000 := by
  intro h
  have hb : b = a + (b - a) := by omega
  rw [hb, Nat.add_comm, crcIter_add] at h
  have := crcIter_inj a _ _ (by decide) (crcIter_lt _ _ (by decide)) h
  exact orbit_period.2 (b - a) (by omega) hd this.symm

/-- the single-bit states are 16 consecutive points of the orbit -/
theorem single_bit_on_orbit (j : Nat) (hj : j < 16) : 2 ^ j = crcIter (15 - j) 0x8000 := by
  have hall : (List.range 16).all (fun j => 2 ^ j == crcIter (15 - j) 0x8000) = true := by decide +kernel
  have := List.all_eq_true.mp hall j (List.mem_range.mpr hj)
  simpa using this

theorem crcIter_xor (k a b : Nat) : crcIter k (a ^^^ b) = crcIter k a ^^^ crcIter k b := by
  induction k generalizing a b with
  | zero => rfl
  | succ k ih => simp only [crcIter, crcStep_xor, ih]

/-- the register difference over a byte list is the iterated step of the difference -/
theorem crcFold_xor (data : List Nat) : ∀ (s d : Nat),
    crcFold (s ^^^ d) data = crcFold s data ^^^ crcIter (8 * data.length) d := by
  induction data with
  | nil => intro s d; simp [crcFold, crcIter]
  | cons b rest ih =>
    intro s d
    simp only [crcFold, List.foldl_cons, List.length_cons]
    have e : s ^^^ d ^^^ b = (s ^^^ b) ^^^ d := by rw [Nat.xor_assoc, Nat.xor_comm d b, ← Nat.xor_assoc]
    rw [e, crcStep8_xor]
    have := ih (crcStep8 (s ^^^ b)) (crcStep8 d)
    simp only [crcFold] at this
    rw [this, crcStep8_eq_iter d, ← crcIter_add]
    congr 2
    omega

/-- **Every two-bit error (in different bytes, less than 32767 bit positions apart) changes the CRC.** -/
theorem crc_two_bits (pre mid rest : List Nat) (b1 j1 b2 j2 : Nat)
    (hpre : ∀ x ∈ pre, x < 256) (hmid : ∀ x ∈ mid, x < 256) (hrest : ∀ x ∈ rest, x < 256)
    (hb1 : b1 < 256) (hb2 : b2 < 256) (hj1 : j1 < 8) (hj2 : j2 < 8) (hlen : 8 * (mid.length + 1) + j2 < 32767 + j1) :
    crcBitwise (pre ++ (b1 ^^^ 2 ^ j1) :: (mid ++ (b2 ^^^ 2 ^ j2) :: rest)) ≠
      crcBitwise (pre ++ b1 :: (mid ++ b2 :: rest)) := by
  unfold crcBitwise
  intro h
  have h' := congrArg (· ^^^ 0xffff) h
  simp only [Nat.xor_assoc, Nat.xor_self, Nat.xor_zero] at h'
  rw [List.foldl_append, List.foldl_append, List.foldl_cons, List.foldl_cons, List.foldl_append,
    List.foldl_append, List.foldl_cons, List.foldl_cons] at h'
  have hs : crcFold 0xffff pre < 65536 := crcFold_lt pre hpre _ (by decide)
  change crcFold (crcStep8 (crcFold (crcStep8 (crcFold 0xffff pre ^^^ (b1 ^^^ 2 ^ j1))) mid ^^^ (b2 ^^^ 2 ^ j2))) rest =
    crcFold (crcStep8 (crcFold (crcStep8 (crcFold 0xffff pre ^^^ b1)) mid ^^^ b2)) rest at h'
  generalize hS : crcFold 0xffff pre = S at hs h'
  have hp1 : 2 ^ j1 < 65536 := by
    have : 2 ^ j1 ≤ 2 ^ 7 := Nat.pow_le_pow_right (by omega) (by omega)
    omega
  have hp2 : 2 ^ j2 < 65536 := by
    have : 2 ^ j2 ≤ 2 ^ 7 := Nat.pow_le_pow_right (by omega) (by omega)
    omega
  -- difference after the first corrupted byte and the bytes in between
  have e1 : S ^^^ (b1 ^^^ 2 ^ j1) = (S ^^^ b1) ^^^ 2 ^ j1 := by rw [Nat.xor_assoc]
  rw [e1, crcStep8_xor (S ^^^ b1) (2 ^ j1), crcFold_xor mid] at h'
  generalize hT : crcFold (crcStep8 (S ^^^ b1)) mid = T at h'
  have hT' : T < 65536 := by
    rw [← hT]
    exact crcFold_lt mid hmid _ (crcStep8_lt _ (Nat.xor_lt_two_pow (n := 16) hs (by omega)))
  generalize hD : crcIter (8 * mid.length) (crcStep8 (2 ^ j1)) = D at h'
  have hDlt : D < 65536 := by rw [← hD]; exact crcIter_lt _ _ (crcStep8_lt _ hp1)
  -- at the second corrupted byte the difference becomes D xor 2^j2, which is not zero
  have e2 : T ^^^ D ^^^ (b2 ^^^ 2 ^ j2) = (T ^^^ b2) ^^^ (D ^^^ 2 ^ j2) := by
    rw [Nat.xor_assoc, Nat.xor_assoc, ← Nat.xor_assoc D, Nat.xor_comm D b2, Nat.xor_assoc b2]
  rw [e2, crcStep8_xor (T ^^^ b2) (D ^^^ 2 ^ j2)] at h'
  have hne : D ^^^ 2 ^ j2 ≠ 0 := by
    intro hz
    have hDeq : D = 2 ^ j2 := xor_eq_zero_imp _ _ hz
    rw [← hD, crcStep8_eq_iter, ← crcIter_add, single_bit_on_orbit j1 (by omega), ← crcIter_add,
      single_bit_on_orbit j2 (by omega)] at hDeq
    exact orbit_distinct (15 - j2) (15 - j1 + (8 + 8 * mid.length)) (by omega) (by omega) hDeq.symm
  have hTb : T ^^^ b2 < 65536 := Nat.xor_lt_two_pow (n := 16) hT' (by omega)
  exact crcFold_diff rest hrest _ _ (crcStep8_lt _ hTb)
    (crcStep8_lt _ (Nat.xor_lt_two_pow (n := 16) hDlt hp2))
    (crcStep8_ne_zero _ (Nat.xor_lt_two_pow (n := 16) hDlt hp2) hne) h'

/-- two flipped bits in the same byte -/
theorem crc_two_bits_same_byte (pre rest : List Nat) (b j1 j2 : Nat)
    (hpre : ∀ x ∈ pre, x < 256) (hrest : ∀ x ∈ rest, x < 256) (hb : b < 256) (hj1 : j1 < 8) (hj2 : j2 < 8)
    (hne : j1 ≠ j2) :
    crcBitwise (pre ++ (b ^^^ 2 ^ j1 ^^^ 2 ^ j2) :: rest) ≠ crcBitwise (pre ++ b :: rest) := by
  unfold crcBitwise
  intro h
  have h' := congrArg (· ^^^ 0xffff) h
  simp only [Nat.xor_assoc, Nat.xor_self, Nat.xor_zero] at h'
  rw [List.foldl_append, List.foldl_append, List.foldl_cons, List.foldl_cons] at h'
  have hs : crcFold 0xffff pre < 65536 := crcFold_lt pre hpre _ (by decide)
  change crcFold (crcStep8 (crcFold 0xffff pre ^^^ (b ^^^ (2 ^ j1 ^^^ 2 ^ j2)))) rest =
    crcFold (crcStep8 (crcFold 0xffff pre ^^^ b)) rest at h'
  have e : crcFold 0xffff pre ^^^ (b ^^^ (2 ^ j1 ^^^ 2 ^ j2)) = (crcFold 0xffff pre ^^^ b) ^^^ (2 ^ j1 ^^^ 2 ^ j2) := by
    rw [Nat.xor_assoc]
  rw [e, crcStep8_xor] at h'
  have hp1 : 2 ^ j1 < 256 := Nat.pow_lt_pow_right (by omega) hj1
  have hp2 : 2 ^ j2 < 256 := Nat.pow_lt_pow_right (by omega) hj2
  have hd : 2 ^ j1 ^^^ 2 ^ j2 < 65536 := Nat.lt_of_lt_of_le (Nat.xor_lt_two_pow (n := 8) hp1 hp2) (by decide)
  have hdne : 2 ^ j1 ^^^ 2 ^ j2 ≠ 0 := by
    intro hz
    have := xor_eq_zero_imp _ _ hz
    have hall : ∀ a b : Fin 8, (2 : Nat) ^ a.val = 2 ^ b.val → a = b := by decide
    have := hall ⟨j1, hj1⟩ ⟨j2, hj2⟩ this
    exact hne (by simpa using congrArg Fin.val this)
  have hsb : crcFold 0xffff pre ^^^ b < 65536 := Nat.xor_lt_two_pow (n := 16) hs (by omega)
  exact crcFold_diff rest hrest _ _ (crcStep8_lt _ hsb) (crcStep8_lt _ hd) (crcStep8_ne_zero _ hd hdne) h'

end RR.Hdlc
