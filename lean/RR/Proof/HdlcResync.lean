import RR.Proof.HdlcRoundtrip

/-!
Resynchronisation: from EVERY reachable state of the deframer, a flag leaves it
right after a flag (`synced 0 []`) — whatever noise came before.
-/
namespace RR.Hdlc
open RR.HdlcSpec

def shiftIn (v bit : Nat) : Nat := (v >>> 1) ||| ((bit <<< 7) % 256)

/-- the flag search alone: the bits left after the first match -/
def unsyncScan : Nat → List Nat → Option (List Nat)
  | _, [] => none
  | v, b :: rest => if shiftIn v b == Gen.hdlcFlag then some rest else unsyncScan (shiftIn v b) rest

theorem run_unsynced (cfg : Cfg) (l : List Nat) : ∀ v rest, unsyncScan v l = some rest →
    run cfg (.unsynced v) l = run cfg (.synced 0 []) rest := by
  induction l with
  | nil => intro v rest h; simp [unsyncScan] at h
  | cons b tl ih =>
    intro v rest h
    simp only [unsyncScan] at h
    by_cases hm : (shiftIn v b == Gen.hdlcFlag) = true
    · simp only [hm, if_true, Option.some.injEq] at h
      have : step cfg (.unsynced v) b = (.synced 0 [], none) := by
        simp only [step]; unfold shiftIn at hm; simp [hm]
      rw [run_cons_none cfg _ _ _ _ this, h]
    · simp only [hm, if_false] at h
      have : step cfg (.unsynced v) b = (.unsynced (shiftIn v b), none) := by
        simp only [step]; unfold shiftIn at hm ⊢; simp [hm]
      rw [run_cons_none cfg _ _ _ _ this]
      exact ih _ _ h

/-- six ones and a zero right after a flag: a flag sharing its first zero with the previous one -/
theorem run_shared_zero (cfg : Cfg) : run cfg (.synced 0 []) [1, 1, 1, 1, 1, 1, 0] = (.synced 0 [], []) := by
  rw [run_cons_none cfg _ _ _ _ (step_data_one cfg 0 [] (by omega) (by simp)),
    run_cons_none cfg _ _ _ _ (step_data_one cfg 1 [1] (by omega) (by simp)),
    run_cons_none cfg _ _ _ _ (step_data_one cfg 2 [1, 1] (by omega) (by simp)),
    run_cons_none cfg _ _ _ _ (step_data_one cfg 3 [1, 1, 1] (by omega) (by simp)),
    run_cons_none cfg _ _ _ _ (step_data_one cfg 4 [1, 1, 1, 1] (by omega) (by simp))]
  have h6 : step cfg (.synced 5 [1, 1, 1, 1, 1]) 1 = (.finalCheck [1, 1, 1, 1, 1, 1], none) := by simp [step]
  rw [run_cons_none cfg _ _ _ _ h6]
  have hfin : step cfg (.finalCheck [1, 1, 1, 1, 1, 1]) 0 = (.synced 0 [], none) := by simp [step]
  simp only [run, hfin]

/-- every 8-bit search register: the flag is found at its last bit, or (register `…0111111`) at its first -/
theorem scan_flag_all : (List.range 256).all (fun v =>
    unsyncScan v flag == some [] || unsyncScan v flag == some [1, 1, 1, 1, 1, 1, 0]) = true := by
  decide +kernel

theorem scan_flag (v : Nat) (h : v < 256) :
    unsyncScan v flag = some [] ∨ unsyncScan v flag = some [1, 1, 1, 1, 1, 1, 0] := by
  have := List.all_eq_true.mp scan_flag_all v (List.mem_range.mpr h)
  simpa using this

/-- the flag search finds any flag -/
theorem resync_unsynced (cfg : Cfg) (v : Nat) (h : v < 256) :
    run cfg (.unsynced v) flag = (.synced 0 [], []) := by
  rcases scan_flag v h with h1 | h1
  · rw [run_unsynced cfg flag v [] h1]; rfl
  · rw [run_unsynced cfg flag v _ h1]; exact run_shared_zero cfg

end RR.Hdlc

namespace RR.Hdlc
open RR.HdlcSpec

theorem step_too_long (cfg : Cfg) (ones : Nat) (bits : List Nat) (bit : Nat)
    (h : bits.length > cfg.maxSize * 8 + 7) :
    step cfg (.synced ones bits) bit =
      (.unsynced (((0xff - 1 <<< (7 - ones)) >>> 1) ||| ((bit <<< 7) % 256)), none) := by
  simp [step, h]

/-- a too-long reset in the middle of a flag, then the rest of the flag: found -/
theorem too_long_then (cfg : Cfg) (ones : Nat) (bits : List Nat) (bit : Nat) (rest : List Nat)
    (h : bits.length > cfg.maxSize * 8 + 7)
    (hscan : unsyncScan (((0xff - 1 <<< (7 - ones)) >>> 1) ||| ((bit <<< 7) % 256)) rest = some []) :
    run cfg (.synced ones bits) (bit :: rest) = (.synced 0 [], []) := by
  rw [run_cons_none cfg _ _ _ _ (step_too_long cfg ones bits bit h), run_unsynced cfg rest _ [] hscan]
  rfl

/-- the closing zero of a flag, in `FinalCheck`: always back to "right after a flag" -/
theorem final_zero_state (cfg : Cfg) (bits : List Nat) : (step cfg (.finalCheck bits) 0).1 = .synced 0 [] := by
  simp only [step]
  have c1 : ((0 : Nat) == 1) = false := rfl
  simp only [c1, Bool.false_eq_true, if_false]
  split; · rfl
  split; · rfl
  split; · rfl
  split; · rfl
  split
  · split <;> rfl
  · rfl

theorem run_fst_cons (cfg : Cfg) (s : State) (b : Nat) (rest : List Nat) :
    (run cfg s (b :: rest)).1 = (run cfg (step cfg s b).1 rest).1 := by
  simp only [run]

/-- after the flag's first zero (not stuffed, or dropped as stuffed): the remaining `1111110` -/
theorem resync_after_zero (cfg : Cfg) (B : List Nat) :
    (run cfg (.synced 0 B) [1, 1, 1, 1, 1, 1, 0]).1 = .synced 0 [] := by
  by_cases t1 : B.length > cfg.maxSize * 8 + 7
  · rw [too_long_then cfg 0 B 1 _ t1 (by decide)]
  rw [run_cons_none cfg _ _ _ _ (step_data_one cfg 0 B (by omega) (by omega))]
  by_cases t2 : (1 :: B).length > cfg.maxSize * 8 + 7
  · rw [too_long_then cfg 1 _ 1 _ t2 (by decide)]
  rw [run_cons_none cfg _ _ _ _ (step_data_one cfg 1 (1 :: B) (by omega) (by omega))]
  by_cases t3 : (1 :: 1 :: B).length > cfg.maxSize * 8 + 7
  · rw [too_long_then cfg 2 _ 1 _ t3 (by decide)]
  rw [run_cons_none cfg _ _ _ _ (step_data_one cfg 2 (1 :: 1 :: B) (by omega) (by omega))]
  by_cases t4 : (1 :: 1 :: 1 :: B).length > cfg.maxSize * 8 + 7
  · rw [too_long_then cfg 3 _ 1 _ t4 (by decide)]
  rw [run_cons_none cfg _ _ _ _ (step_data_one cfg 3 (1 :: 1 :: 1 :: B) (by omega) (by omega))]
  by_cases t5 : (1 :: 1 :: 1 :: 1 :: B).length > cfg.maxSize * 8 + 7
  · rw [too_long_then cfg 4 _ 1 _ t5 (by decide)]
  rw [run_cons_none cfg _ _ _ _ (step_data_one cfg 4 (1 :: 1 :: 1 :: 1 :: B) (by omega) (by omega))]
  by_cases t6 : (1 :: 1 :: 1 :: 1 :: 1 :: B).length > cfg.maxSize * 8 + 7
  · rw [too_long_then cfg 5 _ 1 _ t6 (by decide)]
  have h6 : step cfg (.synced 5 (1 :: 1 :: 1 :: 1 :: 1 :: B)) 1 =
      (.finalCheck (1 :: 1 :: 1 :: 1 :: 1 :: 1 :: B), none) := by
    simp only [List.length_cons] at t6
    simp [step]
    omega
  rw [run_cons_none cfg _ _ _ _ h6, run_fst_cons, final_zero_state]
  rfl

/-- **Resynchronisation.** From every reachable state (`ones ≤ 5`, an 8-bit
search register), a flag leaves the deframer right after a flag. -/
theorem resync (cfg : Cfg) (s : State)
    (hwf : match s with | .unsynced v => v < 256 | .synced ones _ => ones ≤ 5 | .finalCheck _ => True) :
    (run cfg s flag).1 = .synced 0 [] := by
  cases s with
  | unsynced v => rw [resync_unsynced cfg v hwf]
  | finalCheck bits =>
    unfold flag
    rw [run_fst_cons, final_zero_state, run_shared_zero]
  | synced ones bits =>
    have h5 : ones ≤ 5 := hwf
    unfold flag
    by_cases t0 : bits.length > cfg.maxSize * 8 + 7
    · have hs : unsyncScan (((0xff - 1 <<< (7 - ones)) >>> 1) ||| ((0 <<< 7) % 256)) [1, 1, 1, 1, 1, 1, 0] = some [] := by
        rcases (by omega : ones = 0 ∨ ones = 1 ∨ ones = 2 ∨ ones = 3 ∨ ones = 4 ∨ ones = 5) with
          h | h | h | h | h | h <;> subst h <;> decide
      rw [too_long_then cfg ones bits 0 _ t0 hs]
    · by_cases h55 : ones = 5
      · subst h55
        rw [run_cons_none cfg _ _ _ _ (step_stuffed_zero cfg bits (by omega))]
        exact resync_after_zero cfg bits
      · rw [run_cons_none cfg _ _ _ _ (step_data_zero cfg ones bits (by omega) (by omega))]
        exact resync_after_zero cfg (0 :: bits)

/-- reachable states are well formed -/
def WF : State → Prop
  | .unsynced v => v < 256
  | .synced ones _ => ones ≤ 5
  | .finalCheck _ => True

theorem wf_step (cfg : Cfg) (s : State) (bit : Nat) (hb : bit ≤ 1) (h : WF s) : WF (step cfg s bit).1 := by
  cases s with
  | unsynced v =>
    simp only [step]
    split
    · simp [WF]
    · simp only [WF] at h ⊢
      have h1 : v >>> 1 < 128 := by rw [Nat.shiftRight_eq_div_pow]; omega
      have h2 : (bit <<< 7) % 256 < 256 := Nat.mod_lt _ (by omega)
      exact Nat.or_lt_two_pow (n := 8) (by omega) h2
  | synced ones bits =>
    simp only [WF] at h
    simp only [step]
    split
    · simp only [WF]
      have h1 : (255 - 1 <<< (7 - ones)) >>> 1 < 128 := by
        rw [Nat.shiftRight_eq_div_pow]
        generalize 1 <<< (7 - ones) = f
        omega
      have h2 : (bit <<< 7) % 256 < 256 := Nat.mod_lt _ (by omega)
      exact Nat.or_lt_two_pow (n := 8) (by omega) h2
    · split
      · split
        · simp [WF]
        · rename_i hne
          simp only [WF]
          have : ¬ ones = 5 := by simpa using hne
          omega
      · split <;> simp [WF]
  | finalCheck bits =>
    simp only [step]
    split
    · simp [WF]
    · split; · simp [WF]
      split; · simp [WF]
      split; · simp [WF]
      split
      · simp [WF]
      · split
        · split <;> simp [WF]
        · simp [WF]

theorem wf_run (cfg : Cfg) (l : List Nat) (hl : ∀ b ∈ l, b ≤ 1) : ∀ s, WF s → WF (run cfg s l).1 := by
  induction l with
  | nil => intro s h; exact h
  | cons b rest ih =>
    intro s h
    rw [run_fst_cons]
    exact ih (fun x hx => hl x (by simp [hx])) _ (wf_step cfg s b (hl b (by simp)) h)

end RR.Hdlc
