import RR.Model.Sync

/-! Chunk independence of the whole `sync` / `sync_tag` family. -/
namespace RR.Blk

def shiftTags (c : Nat) (ts : List Tag) : List Tag := ts.map fun t => { t with pos := t.pos + c }

/-- Result of a loop with the output tag positions shifted by `c`. -/
def shiftRes {σ} (c : Nat) : Option (σ × List (List Nat) × List Tag) → Option (σ × List (List Nat) × List Tag)
  | none => none
  | some (st, rows, ts) => some (st, rows, shiftTags c ts)

/-- Running on a window that starts at absolute position `c` is running on the
full history from `c`, with tag positions relative to the window. -/
theorem syncLoopG_shift (S : SyncSpec) (getW getF : Nat → List Nat × List (List Tag)) (c : Nat)
    (st : S.σ) (pos k : Nat) (h : ∀ p, p < k → getW (pos + p) = getF (c + pos + p)) :
    shiftRes c (syncLoopG S getW st pos k) = syncLoopG S getF st (c + pos) k := by
  induction k generalizing st pos with
  | zero => simp [syncLoopG, shiftRes, shiftTags]
  | succ k ih =>
    have h0 := h 0 (by omega)
    simp only [Nat.add_zero] at h0
    simp only [syncLoopG, h0]
    cases hf : S.f st (getF (c + pos)).1 (getF (c + pos)).2 with
    | none => simp [shiftRes]
    | some r =>
      obtain ⟨st1, outs, ots⟩ := r
      have ih' := ih st1 (pos + 1) (by
        intro p hp
        have := h (p + 1) (by omega)
        simpa [Nat.add_assoc, Nat.add_comm 1 p] using this)
      simp only []
      have e : c + (pos + 1) = c + pos + 1 := by omega
      rw [e] at ih'
      rw [← ih']
      cases hl : syncLoopG S getW st1 (pos + 1) k with
      | none => simp [shiftRes]
      | some r2 =>
        obtain ⟨st2, rows, ts⟩ := r2
        simp [shiftRes, shiftTags, Nat.add_comm]

/-- Sequential composition of the loop. -/
def seqRes {σ} (r1 : Option (σ × List (List Nat) × List Tag))
    (k : σ → Option (σ × List (List Nat) × List Tag)) : Option (σ × List (List Nat) × List Tag) :=
  match r1 with
  | none => none
  | some (st1, rows1, ts1) =>
    match k st1 with
    | none => none
    | some (st2, rows2, ts2) => some (st2, rows1 ++ rows2, ts1 ++ ts2)

/-- Processing `a + b` positions is processing `a`, then `b` from where that ended. -/
theorem syncLoopG_append (S : SyncSpec) (get : Nat → List Nat × List (List Tag))
    (st : S.σ) (pos a b : Nat) :
    syncLoopG S get st pos (a + b) =
      seqRes (syncLoopG S get st pos a) (fun st1 => syncLoopG S get st1 (pos + a) b) := by
  induction a generalizing st pos with
  | zero =>
    simp only [Nat.zero_add, syncLoopG, seqRes, Nat.add_zero]
    cases syncLoopG S get st pos b with
    | none => rfl
    | some r => obtain ⟨s, r, t⟩ := r; simp
  | succ a ih =>
    have e : a + 1 + b = (a + b) + 1 := by omega
    rw [e]
    simp only [syncLoopG]
    cases hf : S.f st (get pos).1 (get pos).2 with
    | none => simp [seqRes]
    | some r =>
      obtain ⟨st1, outs, ots⟩ := r
      simp only []
      rw [ih st1 (pos + 1)]
      have e2 : pos + 1 + a = pos + (a + 1) := by omega
      rw [e2]
      cases h1 : syncLoopG S get st1 (pos + 1) a with
      | none => simp [seqRes]
      | some r1 =>
        obtain ⟨s1, rows1, ts1⟩ := r1
        simp only [seqRes]
        cases h2 : syncLoopG S get s1 (pos + (a + 1)) b with
        | none => rfl
        | some r2 => obtain ⟨s2, rows2, ts2⟩ := r2; simp

theorem syncLoopG_rows_length (S : SyncSpec) (get : Nat → List Nat × List (List Tag))
    (st : S.σ) (pos k : Nat) (st' : S.σ) (rows : List (List Nat)) (ts : List Tag)
    (h : syncLoopG S get st pos k = some (st', rows, ts)) : rows.length = k := by
  induction k generalizing st pos rows ts with
  | zero => simp [syncLoopG] at h; simp [h.2.1]
  | succ k ih =>
    simp only [syncLoopG] at h
    split at h
    · cases h
    · split at h
      · cases h
      · rename_i st2 rows2 ts2 h2
        cases h
        simp [ih _ _ _ _ h2]

/-! ## The drip-feed driver over full input histories -/

/-- How much of the remaining input is visible and how much output space there
is at one `work()` call: chosen by an adversary. -/
structure Choice where
  n : Nat   -- `min(shortest input window, smallest output space)` at this call; 0 = the block waits

/-- Drive the loop through a schedule of chunk sizes on the full history,
threading the state and re-basing window positions each call; collect the rows
and (absolute) tags. This is what any sequence of `work()` calls computes,
whatever the window sizes and free space were. -/
def driveG (S : SyncSpec) (get : Nat → List Nat × List (List Tag)) :
    S.σ → Nat → List Nat → Option (S.σ × Nat × List (List Nat) × List Tag)
  | st, c, [] => some (st, c, [], [])
  | st, c, n :: rest =>
    -- the call sees a window starting at `c`; positions inside it are window-relative
    match shiftRes c (syncLoopG S (fun p => get (c + p)) st 0 n) with
    | none => none
    | some (st1, rows1, ts1) =>
      match driveG S get st1 (c + n) rest with
      | none => none
      | some (st2, c2, rows2, ts2) => some (st2, c2, rows1 ++ rows2, ts1 ++ ts2)

/-- **Chunk independence.** Whatever the chunking, the cumulative result equals
the one-shot loop over the consumed prefix. -/
theorem driveG_eq_oneShot (S : SyncSpec) (get : Nat → List Nat × List (List Tag))
    (st : S.σ) (c : Nat) (chunks : List Nat) :
    driveG S get st c chunks =
      (syncLoopG S get st c chunks.sum).map fun (s, rows, ts) => (s, c + chunks.sum, rows, ts) := by
  induction chunks generalizing st c with
  | nil => simp [driveG, syncLoopG]
  | cons n rest ih =>
    simp only [driveG, List.sum_cons]
    have hs := syncLoopG_shift S (fun p => get (c + p)) get c st 0 n (by intro p _; simp)
    simp only [Nat.add_zero] at hs
    rw [hs, syncLoopG_append]
    cases h1 : syncLoopG S get st c n with
    | none => simp [seqRes]
    | some r1 =>
      obtain ⟨st1, rows1, ts1⟩ := r1
      simp only [seqRes]
      rw [ih st1 (c + n)]
      cases h2 : syncLoopG S get st1 (c + n) rest.sum with
      | none => simp
      | some r2 =>
        obtain ⟨st2, rows2, ts2⟩ := r2
        simp [Nat.add_assoc]

/-- Two schedules over the same input: the one that consumed less has produced a
prefix of what the other produced (never something different). -/
theorem drive_prefix (S : SyncSpec) (get : Nat → List Nat × List (List Tag)) (st : S.σ)
    (ch1 ch2 : List Nat) (h : ch1.sum ≤ ch2.sum)
    (s1 s2 : S.σ) (c1 c2 : Nat) (rows1 rows2 : List (List Nat)) (t1 t2 : List Tag)
    (h1 : driveG S get st 0 ch1 = some (s1, c1, rows1, t1))
    (h2 : driveG S get st 0 ch2 = some (s2, c2, rows2, t2)) :
    rows1 <+: rows2 ∧ t1 <+: t2 := by
  rw [driveG_eq_oneShot] at h1 h2
  obtain ⟨d, hd⟩ : ∃ d, ch2.sum = ch1.sum + d := ⟨ch2.sum - ch1.sum, by omega⟩
  rw [hd, syncLoopG_append] at h2
  cases e1 : syncLoopG S get st 0 ch1.sum with
  | none => simp [e1] at h1
  | some r1 =>
    obtain ⟨a, b, c⟩ := r1
    simp [e1] at h1
    obtain ⟨rfl, _, rfl, rfl⟩ := h1
    simp only [e1, seqRes, Nat.zero_add] at h2
    cases e2 : syncLoopG S get a ch1.sum d with
    | none => simp [e2] at h2
    | some r2 =>
      obtain ⟨a2, b2, c2'⟩ := r2
      simp only [e2, Option.map_some, Option.some.injEq, Prod.mk.injEq] at h2
      obtain ⟨_, _, hr, ht⟩ := h2
      subst hr; subst ht
      exact ⟨List.prefix_append _ _, List.prefix_append _ _⟩

end RR.Blk

namespace RR.Blk

/-! ## Windows of a full history -/

/-- The read window a block is shown when `c` samples of the history have been
consumed and `a` more are readable (tags window-relative, as `read_buf` gives them). -/
def winView (full : InView) (c a : Nat) : InView :=
  { samples := (full.samples.drop c).take a
    tags := (full.tags.filter fun t => decide (c ≤ t.pos ∧ t.pos < c + a)).map
      fun t => { t with pos := t.pos - c }
    alive := full.alive }

theorem win_sample (full : InView) (c a p : Nat) (hp : p < a) :
    (winView full c a).samples.getD p 0 = full.samples.getD (c + p) 0 := by
  simp [winView, List.getD_eq_getElem?_getD, hp, List.getElem?_drop]

theorem win_tags (full : InView) (c a p : Nat) (hp : p < a) :
    ((winView full c a).tags.filter fun t => t.pos == p).map (fun t => { t with pos := 0 }) =
    (full.tags.filter fun t => t.pos == c + p).map (fun t => { t with pos := 0 }) := by
  simp only [winView, List.filter_map, List.filter_filter, List.map_map]
  congr 1
  apply List.filter_congr
  intro t _
  simp only [Function.comp]
  by_cases h : t.pos = c + p
  · simp [h, hp]
  · have : ¬ (t.pos - c = p ∧ c ≤ t.pos ∧ t.pos < c + a) := by omega
    have e1 : (t.pos == c + p) = false := by simpa using h
    have e2 : (t.pos - c == p && decide (c ≤ t.pos ∧ t.pos < c + a)) = false := by
      rw [Bool.and_eq_false_iff]
      by_cases h1 : t.pos - c = p
      · right; simp; omega
      · left; simpa using h1
    rw [e1, e2]

theorem zipWith_eq_map {α β γ} (f : α → β → γ) (h : α → γ) (l1 : List α) (l2 : List β)
    (hl : l1.length ≤ l2.length) (hf : ∀ x y, (x, y) ∈ l1.zip l2 → f x y = h x) :
    List.zipWith f l1 l2 = l1.map h := by
  induction l1 generalizing l2 with
  | nil => simp
  | cons x xs ih =>
    cases l2 with
    | nil => simp at hl
    | cons y ys =>
      simp only [List.zipWith_cons_cons, List.map_cons]
      rw [hf x y (by simp), ih ys (by simpa using hl) (fun a b hab => hf a b (by simp [hab]))]

/-- What the per-sample function is given at window position `p` is what the
full histories hold at absolute position `c + p`. -/
theorem viewAt_window (fulls : List InView) (avs : List Nat) (c p : Nat)
    (hl : fulls.length ≤ avs.length) (hp : ∀ a ∈ avs, p < a) :
    viewAt (List.zipWith (fun full a => winView full c a) fulls avs) p = viewAt fulls (c + p) := by
  unfold viewAt
  simp only [List.map_zipWith]
  congr 1
  · apply zipWith_eq_map _ _ _ _ hl
    intro x y hxy
    exact win_sample x c y p (hp y (List.of_mem_zip hxy).2)
  · apply zipWith_eq_map _ _ _ _ hl
    intro x y hxy
    exact win_tags x c y p (hp y (List.of_mem_zip hxy).2)

/-- `work()` on windows of the full histories = the loop on the full histories from `c`. -/
theorem syncLoop_window (S : SyncSpec) (fulls : List InView) (avs : List Nat) (c : Nat) (st : S.σ)
    (n : Nat) (hl : fulls.length ≤ avs.length) (hn : ∀ a ∈ avs, n ≤ a) :
    shiftRes c (syncLoop S (List.zipWith (fun full a => winView full c a) fulls avs) st 0 n) =
      syncLoopG S (viewAt fulls) st c n := by
  have := syncLoopG_shift S (viewAt (List.zipWith (fun full a => winView full c a) fulls avs))
    (viewAt fulls) c st 0 n (by
      intro p hp
      simp only [Nat.zero_add, Nat.add_zero]
      exact viewAt_window fulls avs c p hl (fun a ha => by have := hn a ha; omega))
  simpa [syncLoop] using this

end RR.Blk
