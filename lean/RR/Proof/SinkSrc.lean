import RR.Model.SinkSrc

/-!
Sinks and generator sources, for every schedule.

* a generator source called with ANY sequence of free-space values has emitted exactly the first
  `Σ free` items of its iterator, in order, and its state is the iterator advanced by that many;
* a `VectorSink` fed ANY sequence of read windows holds exactly the first `max_size` samples of their
  concatenation and has consumed every window whole;
* verdicts of both.
-/
namespace RR.Blk

/-! ### generator sources -/

theorem genTake_length (G : GenSrc) : ∀ (n : Nat) (s : G.σ), (genTake G n s).2.length = n := by
  intro n
  induction n with
  | zero => intro s; rfl
  | succ n ih => intro s; simp only [genTake, List.length_cons, ih]

theorem genTake_add (G : GenSrc) : ∀ (a b : Nat) (s : G.σ),
    genTake G (a + b) s =
      ((genTake G b (genTake G a s).1).1, (genTake G a s).2 ++ (genTake G b (genTake G a s).1).2) := by
  intro a
  induction a with
  | zero => intro b s; simp [genTake]
  | succ a ih =>
    intro b s
    have : a + 1 + b = (a + b) + 1 := by omega
    rw [this]
    simp only [genTake, ih, List.cons_append]

/-- the calls of a schedule: one `work()` per free-space value (the harness drains as it likes in between);
returns the final state and everything emitted -/
def genDrive (G : GenSrc) : List Nat → G.σ → G.σ × List Nat
  | [], s => (s, [])
  | f :: fs, s =>
    let r := genWork G s ⟨[], [⟨f, true⟩]⟩
    let rest := genDrive G fs r.1
    (rest.1, (r.2.produced.getD 0 ⟨[], []⟩).samples ++ rest.2)

theorem genWork_spec (G : GenSrc) (s : G.σ) (f : Nat) :
    let r := genWork G s ⟨[], [⟨f, true⟩]⟩
    r.1 = (genTake G f s).1 ∧ (r.2.produced.getD 0 ⟨[], []⟩).samples = (genTake G f s).2 ∧
    r.2.consumed = [] ∧
    (r.2.produced.getD 0 ⟨[], []⟩).tags = [] ∧
    (f = 0 → r.2.verdict = .waitOut 0 1) ∧ (0 < f → r.2.verdict = .again) := by
  intro r
  simp only [r, genWork, out0, List.getD_cons_zero]
  by_cases hf : f = 0
  · subst hf; simp [genTake]
  · have hb : (f == 0) = false := by simpa using hf
    simp only [hb, Bool.false_eq_true, if_false, List.getD_cons_zero]
    refine ⟨trivial, trivial, trivial, trivial, fun h => absurd h hf, fun _ => trivial⟩

/-- every schedule: the output is the iterator's sequence, cut at the total room offered -/
theorem gen_drive (G : GenSrc) : ∀ (fs : List Nat) (s : G.σ),
    genDrive G fs s = genTake G fs.sum s := by
  intro fs
  induction fs with
  | nil => intro s; rfl
  | cons f fs ih =>
    intro s
    obtain ⟨h1, h2, _⟩ := genWork_spec G s f
    simp only [genDrive, List.sum_cons, genTake_add, ih, h1, h2]

/-- two schedules: one run's output is a prefix of the other's -/
theorem gen_prefix (G : GenSrc) (fs gs : List Nat) (h : fs.sum ≤ gs.sum) :
    (genDrive G fs G.init).2 <+: (genDrive G gs G.init).2 := by
  rw [gen_drive, gen_drive]
  obtain ⟨d, hd⟩ := Nat.exists_eq_add_of_le h
  rw [hd, genTake_add]
  exact List.prefix_append _ _

/-! ### VectorSink -/

/-- one `work()` per read window; returns the number stored and everything stored -/
def sinkDrive (max : Nat) : List (List Nat) → Nat → Nat × List Nat
  | [], st => (st, [])
  | w :: ws, st =>
    let r := vsinkWork max st ⟨[⟨w, [], true⟩], []⟩
    let rest := sinkDrive max ws r.1
    (rest.1, (r.2.produced.getD 0 ⟨[], []⟩).samples ++ rest.2)

theorem vsink_call (max st : Nat) (w : List Nat) (ts : List Tag) (al : Bool) (outs : List OutView) :
    let r := vsinkWork max st ⟨[⟨w, ts, al⟩], outs⟩
    r.1 = st + min w.length (max - st) ∧
    r.2.consumed = [w.length] ∧
    (r.2.produced.getD 0 ⟨[], []⟩).samples = w.take (max - st) ∧
    (∀ t ∈ (r.2.produced.getD 0 ⟨[], []⟩).tags, t ∈ ts ∧ t.pos < (r.2.produced.getD 0 ⟨[], []⟩).samples.length) ∧
    r.2.verdict = .waitIn 0 1 := by
  intro r
  simp only [r, vsinkWork, in0, List.getD_cons_zero]
  refine ⟨trivial, trivial, ?_, ?_, trivial⟩
  · rw [List.take_eq_take_iff]; omega
  · intro t ht
    simp only [List.mem_filter, decide_eq_true_eq] at ht
    refine ⟨ht.1, ?_⟩
    simp only [List.length_take]
    omega

theorem sink_drive (max : Nat) : ∀ (ws : List (List Nat)) (st : Nat),
    sinkDrive max ws st = (st + min ws.flatten.length (max - st), ws.flatten.take (max - st)) := by
  intro ws
  induction ws with
  | nil => intro st; simp [sinkDrive]
  | cons w ws ih =>
    intro st
    obtain ⟨h1, _, h3, _⟩ := vsink_call max st w [] true []
    simp only [sinkDrive, ih, h1, h3, List.flatten_cons, List.length_append, List.take_append]
    refine Prod.ext ?_ ?_
    · simp only; omega
    · simp only
      congr 1
      by_cases hw : w.length ≤ max - st
      · have : min w.length (max - st) = w.length := Nat.min_eq_left hw
        rw [this]; congr 1; omega
      · have h0 : max - (st + min w.length (max - st)) = 0 := by omega
        have h1 : max - st - w.length = 0 := by omega
        rw [h0, h1]

/-! ### NullSink -/

theorem null_call (w : List Nat) (ts : List Tag) (al : Bool) :
    let r := nullWork () ⟨[⟨w, ts, al⟩], []⟩
    r.2.consumed = [w.length] ∧ r.2.produced = [] ∧ r.2.verdict = .waitIn 0 1 := by
  simp [nullWork, in0]

end RR.Blk
