import RR.Model.Hand

/-!
Chunk independence (C08) and exact function (C10) of hand-written blocks: for
EVERY schedule of (readable prefix, free output space) the cumulative output is
the closed form below. A schedule is an arbitrary list; induction over it.
-/
namespace RR.Blk

/-- Drive a one-input/one-output block over the full input history `X`: at
each call an adversary picks how many of the unconsumed samples are readable
(`a`) and how much output space there is (`f`). -/
def drive1 (B : Block) (X : List Nat) : B.σ → Nat → List Nat → List (Nat × Nat) → B.σ × Nat × List Nat
  | st, c, out, [] => (st, c, out)
  | st, c, out, (a, f) :: rest =>
    let w := (X.drop c).take a
    let r := B.work st ⟨[⟨w, [], true⟩], [⟨f, true⟩]⟩
    drive1 B X r.1 (c + r.2.consumed.getD 0 0) (out ++ (r.2.produced.getD 0 ⟨[], []⟩).samples) rest

/-! ### Skip: output = input without its first `k` samples -/

theorem skip_step (k : Nat) (X : List Nat) (c a f : Nat) :
    let w := (X.drop c).take a
    let r := skipWork (k - min k c) ⟨[⟨w, [], true⟩], [⟨f, true⟩]⟩
    r.1 = k - min k (c + r.2.consumed.getD 0 0) ∧
    (X.take (c + r.2.consumed.getD 0 0)).drop k =
      (X.take c).drop k ++ (r.2.produced.getD 0 ⟨[], []⟩).samples ∧
    r.2.consumed.getD 0 0 ≤ w.length ∧ r.2.verdict ≠ .panic := by
  intro w r
  have hw : w.length ≤ X.length - c := by simp [w]; omega
  have hwa : w.length ≤ a := by simp [w]; omega
  simp only [r, skipWork, in0, out0, noOut]
  by_cases h1 : w.isEmpty = true
  · simp [h1]
  · by_cases h2 : f = 0
    · simp [h1, h2]
    · by_cases h3 : k - min k c = 0
      · have hk : k ≤ c := by omega
        have hne : w ≠ [] := by intro h; apply h1; simp [h]
        have hpos : 0 < w.length := List.length_pos_iff.mpr hne
        have hc : c < X.length := by omega
        have e : min w.length f ≤ w.length := Nat.min_le_left _ _
        simp only [h1, h2, h3, List.getD_cons_zero, beq_self_eq_true, if_true, if_false,
          Bool.false_eq_true, beq_iff_eq]
        refine ⟨by omega, ?_, e, by simp⟩
        -- take (c + len) X drop k = take c X drop k ++ take len w
        have : w.take (min w.length f) = (X.drop c).take (min w.length f) := by
          show ((X.drop c).take a).take (min w.length f) = _
          rw [List.take_take]; congr 1; omega
        rw [this, ← List.drop_append_of_le_length (by rw [List.length_take]; omega)]
        congr 1
        rw [List.take_add]
      · have hk : c < k := by omega
        simp only [h1, h2, h3, List.getD_cons_zero, if_false, Bool.false_eq_true, beq_iff_eq]
        have hm : min (k - min k c) w.length ≤ w.length := Nat.min_le_right _ _
        refine ⟨by omega, ?_, hm, by simp⟩
        have : c + min (k - min k c) w.length ≤ k := by omega
        rw [List.drop_eq_nil_of_le (by rw [List.length_take]; omega),
          List.drop_eq_nil_of_le (by rw [List.length_take]; omega)]
        simp

/-- **Skip, any chunking**: after any schedule, with `c` samples consumed, the
cumulative output is exactly `(X.take c).drop k`. -/
theorem skip_drive (k : Nat) (X : List Nat) (c : Nat) (sched : List (Nat × Nat)) :
    let r := drive1 (skipBlock k) X (k - min k c) c ((X.take c).drop k) sched
    r.2.2 = (X.take r.2.1).drop k ∧ r.1 = k - min k r.2.1 := by
  induction sched generalizing c with
  | nil => exact ⟨rfl, rfl⟩
  | cons af rest ih =>
    obtain ⟨a, f⟩ := af
    have hs := skip_step k X c a f
    simp only [drive1, skipBlock] at hs ⊢
    obtain ⟨h1, h2, _, _⟩ := hs
    rw [h1, ← h2]
    exact ih _

/-! ### RtlSdrDecode: pairs of bytes to complex samples -/

def rtlSpec (X : List Nat) : List Nat :=
  (pairs X).map fun (a, b) => bits (rtlConv a) + bits (rtlConv b) * 2 ^ 32

theorem pairs_append_even : (l1 l2 : List Nat) → l1.length % 2 = 0 →
    pairs (l1 ++ l2) = pairs l1 ++ pairs l2
  | [], l2, _ => by simp [pairs]
  | [_], _, h => by simp at h
  | a :: b :: t, l2, h => by
    have := pairs_append_even t l2 (by simp at h; omega)
    simp [pairs, this]

theorem pairs_length : (l : List Nat) → (pairs l).length = l.length / 2
  | [] => by simp [pairs]
  | [_] => by simp [pairs]
  | a :: b :: t => by
    have := pairs_length t
    simp only [pairs, List.length_cons, this]; omega

theorem pairs_take : (l : List Nat) → (m : Nat) → pairs (l.take (2 * m)) = (pairs l).take m
  | _, 0 => by simp [pairs]
  | [], m + 1 => by simp [pairs]
  | [_], m + 1 => by
    have : 2 * (m + 1) = (2 * m + 1) + 1 := by omega
    simp [pairs, this]
  | a :: b :: t, m + 1 => by
    have : 2 * (m + 1) = (2 * m + 1) + 1 := by omega
    rw [this]
    simp only [List.take_succ_cons, pairs]
    rw [pairs_take t m]

theorem rtlSpec_append_even (l1 l2 : List Nat) (h : l1.length % 2 = 0) :
    rtlSpec (l1 ++ l2) = rtlSpec l1 ++ rtlSpec l2 := by
  simp [rtlSpec, pairs_append_even l1 l2 h]

theorem rtl_step (X : List Nat) (c a f : Nat) (hc : c % 2 = 0) :
    let w := (X.drop c).take a
    let r := rtlWork () ⟨[⟨w, [], true⟩], [⟨f, true⟩]⟩
    (c + r.2.consumed.getD 0 0) % 2 = 0 ∧
    rtlSpec (X.take (c + r.2.consumed.getD 0 0)) =
      rtlSpec (X.take c) ++ (r.2.produced.getD 0 ⟨[], []⟩).samples ∧
    r.2.consumed.getD 0 0 ≤ w.length ∧ r.2.verdict ≠ .panic := by
  intro w r
  have hw : w.length ≤ X.length - c := by simp [w]; omega
  have hwa : w.length ≤ a := by simp [w]; omega
  simp only [r, rtlWork, in0, out0, noOut, List.getD_cons_zero]
  by_cases h1 : w.length - w.length % 2 = 0
  · simp [h1, hc]
  · by_cases h2 : f = 0
    · simp [h1, h2, hc]
    · simp only [h1, h2, beq_iff_eq, if_false, List.getD_cons_zero]
      generalize hd : min (w.length - w.length % 2) (f * 2) = d
      have hdw : d ≤ w.length := by omega
      have hde : d % 2 = 0 := by
        rcases Nat.le_total (w.length - w.length % 2) (f * 2) with h | h
        · rw [Nat.min_eq_left h] at hd; omega
        · rw [Nat.min_eq_right h] at hd; omega
      have hcX : c + d ≤ X.length := by omega
      refine ⟨by omega, ?_, hdw, by simp⟩
      have e1 : X.take (c + d) = X.take c ++ (X.drop c).take d := by rw [List.take_add]
      have e2 : w.take d = (X.drop c).take d := by
        show ((X.drop c).take a).take d = _
        rw [List.take_take]; congr 1; omega
      rw [e1, rtlSpec_append_even _ _ (by rw [List.length_take]; omega), ← e2]
      congr 1
      obtain ⟨m, rfl⟩ : ∃ m, d = 2 * m := ⟨d / 2, by omega⟩
      unfold rtlSpec
      rw [pairs_take, List.map_take]
      congr 1
      omega

/-- **RtlSdrDecode, any chunking**: the cumulative output is the conversion of the
consumed (even) prefix, pair by pair. -/
theorem rtl_drive (X : List Nat) (c : Nat) (hc : c % 2 = 0) (sched : List (Nat × Nat)) :
    let r := drive1 rtlBlock X () c (rtlSpec (X.take c)) sched
    r.2.2 = rtlSpec (X.take r.2.1) ∧ r.2.1 % 2 = 0 := by
  induction sched generalizing c with
  | nil => exact ⟨rfl, hc⟩
  | cons af rest ih =>
    obtain ⟨a, f⟩ := af
    have hs := rtl_step X c a f hc
    simp only [drive1, rtlBlock] at hs ⊢
    obtain ⟨h1, h2, _, _⟩ := hs
    rw [← h2]
    exact ih _ h1

/-! ### Delay: `k` zeros, then the input -/

theorem delay_step (k : Nat) (X : List Nat) (c z a f : Nat) (hz : z ≤ k) (hcz : 0 < c → z = k) :
    let w := (X.drop c).take a
    let r := delayWork ⟨k - z, 0⟩ ⟨[⟨w, [], true⟩], [⟨f, true⟩]⟩
    ∃ z', z ≤ z' ∧ z' ≤ k ∧ r.1 = ⟨k - z', 0⟩ ∧
      (0 < c + r.2.consumed.getD 0 0 → z' = k) ∧
      List.replicate z' 0 ++ X.take (c + r.2.consumed.getD 0 0) =
        (List.replicate z 0 ++ X.take c) ++ (r.2.produced.getD 0 ⟨[], []⟩).samples ∧
      r.2.consumed.getD 0 0 ≤ w.length ∧ r.2.verdict ≠ .panic := by
  intro w r
  have hwa : w.length ≤ a := by simp [w]; omega
  simp only [r, delayWork, in0, out0, noOut, List.getD_cons_zero]
  by_cases h0 : f = 0
  · exact ⟨z, Nat.le_refl _, hz, by simp [h0], by simpa [h0] using hcz, by simp [h0], by simp [h0], by simp [h0]⟩
  · simp only [h0, beq_iff_eq, if_false, Nat.min_zero, Nat.zero_min, Nat.sub_zero, List.drop_zero,
      Nat.zero_add, Nat.add_zero, true_and]
    generalize hnz : (if k - z > 0 then min (k - z) f else 0) = nz
    have hnzle : nz ≤ k - z := by
      rw [← hnz]; split
      · exact Nat.min_le_left _ _
      · omega
    have hnzf : nz ≤ f := by
      rw [← hnz]; split
      · exact Nat.min_le_right _ _
      · omega
    by_cases ha : w.length = 0
    · have hwn : w = [] := List.length_eq_zero_iff.mp ha
      simp only [ha, beq_self_eq_true, Bool.and_self, if_true, List.getD_cons_zero, Nat.add_zero]
      refine ⟨z + nz, by omega, by omega, by congr 1; omega, ?_, ?_, by omega, by split <;> simp⟩
      · intro hc; have := hcz hc; omega
      · rcases Nat.eq_zero_or_pos c with rfl | hc
        · simp
        · have := hcz hc
          have : nz = 0 := by omega
          subst this; simp
    · have hpos : 0 < w.length := by omega
      have hcX : c < X.length := by
        have : w.length ≤ X.length - c := by simp [w]; omega
        omega
      have e : (w.length == 0) = false := by simpa using ha
      simp only [e, Bool.and_false, Bool.false_eq_true, if_false, List.getD_cons_zero]
      generalize hn : min w.length (f - nz) = n
      have hnw : n ≤ w.length := by omega
      have hfull : 0 < n → nz = k - z := by
        intro hn0
        rw [← hnz]
        split
        · rename_i hkz
          by_cases hle : k - z ≤ f
          · exact Nat.min_eq_left hle
          · exfalso
            have hm : min (k - z) f = f := Nat.min_eq_right (by omega)
            have : nz = f := by rw [← hnz, if_pos hkz, hm]
            omega
        · omega
      refine ⟨z + nz, by omega, by omega, by congr 1; omega, ?_, ?_, hnw, by simp⟩
      · intro hc
        rcases Nat.eq_zero_or_pos n with h | h
        · have : 0 < c := by omega
          have := hcz this; omega
        · have := hfull h; omega
      · have e2 : w.take n = (X.drop c).take n := by
          show ((X.drop c).take a).take n = _
          rw [List.take_take]; congr 1; omega
        rw [List.take_add, ← e2]
        rcases Nat.eq_zero_or_pos c with rfl | hc
        · simp only [List.take_zero, List.append_nil, List.nil_append]
          rw [← List.append_assoc, List.replicate_append_replicate]
        · have := hcz hc
          have : nz = 0 := by omega
          subst this; simp [List.append_assoc]

/-- **Delay, any chunking**: the cumulative output is `z ≤ k` zeros followed by
the consumed prefix, and all `k` zeros are out before the first input sample. -/
theorem delay_drive (k : Nat) (X : List Nat) (c z : Nat) (hz : z ≤ k) (hcz : 0 < c → z = k)
    (sched : List (Nat × Nat)) :
    let r := drive1 (delayBlock k) X ⟨k - z, 0⟩ c (List.replicate z 0 ++ X.take c) sched
    ∃ z', z' ≤ k ∧ (0 < r.2.1 → z' = k) ∧ r.2.2 = List.replicate z' 0 ++ X.take r.2.1 := by
  induction sched generalizing c z with
  | nil => exact ⟨z, hz, hcz, rfl⟩
  | cons af rest ih =>
    obtain ⟨a, f⟩ := af
    obtain ⟨z', _, hz', hst, hc', hout, _, _⟩ := delay_step k X c z a f hz hcz
    simp only [drive1, delayBlock] at hst hc' hout ⊢
    rw [hst, ← hout]
    exact ih _ z' hz' hc'

end RR.Blk
