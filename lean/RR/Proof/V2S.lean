import RR.Model.Conv

/-!
VecToStream for every schedule: the output is the concatenation of the packets
popped so far, and the block adds exactly a start tag on the first and an end tag
on the last sample of every non-empty packet (value = packet length).
-/
namespace RR.Blk

theorem pktBase_pos : 0 < pktBase := by decide

theorem encodePkt_ge (l : List Nat) (h : l ≠ []) : 2 ^ (l.length - 1) ≤ encodePkt l := by
  induction l with
  | nil => exact absurd rfl h
  | cons x rest ih =>
    simp only [encodePkt, List.length_cons, Nat.add_sub_cancel]
    cases rest with
    | nil => simp [encodePkt]
    | cons y r =>
      have := ih (by simp)
      simp only [List.length_cons, Nat.add_sub_cancel] at this ⊢
      have hb : 2 * 2 ^ r.length ≤ pktBase * encodePkt (y :: r) := by
        have : (2 : Nat) ≤ pktBase := by decide
        exact Nat.mul_le_mul this ‹_›
      rw [Nat.pow_succ, Nat.mul_comm]
      omega

theorem decodePktF_encode (l : List Nat) (hl : ∀ x ∈ l, x + 1 < pktBase) :
    ∀ fuel, l.length ≤ fuel → decodePktF fuel (encodePkt l) = l := by
  induction l with
  | nil => intro fuel _; cases fuel <;> simp [decodePktF, encodePkt]
  | cons x rest ih =>
    intro fuel hf
    cases fuel with
    | zero => simp at hf
    | succ f =>
      have hx : x + 1 < pktBase := hl x (by simp)
      have hne : ¬ (x + 1 + pktBase * encodePkt rest = 0) := by omega
      have hmod : (x + 1 + pktBase * encodePkt rest) % pktBase = x + 1 := by
        rw [Nat.add_mul_mod_self_left, Nat.mod_eq_of_lt hx]
      have hdiv : (x + 1 + pktBase * encodePkt rest) / pktBase = encodePkt rest := by
        rw [Nat.add_mul_div_left _ _ pktBase_pos, Nat.div_eq_of_lt hx, Nat.zero_add]
      simp only [decodePktF, encodePkt, hne, if_false, hmod, hdiv, Nat.add_sub_cancel]
      rw [ih (fun y hy => hl y (by simp [hy])) f (by simp at hf; omega)]

/-- the packet encoding is faithful -/
theorem decode_encode (l : List Nat) (hl : ∀ x ∈ l, x + 1 < pktBase) : decodePkt (encodePkt l) = l := by
  unfold decodePkt
  apply decodePktF_encode l hl
  by_cases h : l = []
  · subst h; simp
  · have h1 := encodePkt_ge l h
    have hne : encodePkt l ≠ 0 := by
      have : 0 < 2 ^ (l.length - 1) := Nat.pos_of_ne_zero (by simp)
      omega
    have := (Nat.le_log2 hne).mpr h1
    have hpos : 0 < l.length := List.length_pos_iff.mpr h
    omega

/-- the tags VecToStream is documented to add, for packets laid out from output offset `off` -/
def v2sTags : Nat → List (List Nat) → List Tag
  | _, [] => []
  | off, p :: rest =>
    (if p.length = 0 then [] else [⟨off, v2sStartKey, p.length⟩, ⟨off + p.length - 1, v2sEndKey, p.length⟩]) ++
      v2sTags (off + p.length) rest

theorem v2sTags_append (off : Nat) (a : List (List Nat)) (p : List Nat) :
    v2sTags off (a ++ [p]) = v2sTags off a ++ v2sTags (off + a.flatten.length) [p] := by
  induction a generalizing off with
  | nil => simp [v2sTags]
  | cons q rest ih =>
    simp only [List.cons_append, v2sTags, List.flatten_cons, List.length_append, List.append_assoc]
    rw [ih (off + q.length), Nat.add_assoc]
    simp [v2sTags]

/-- Drive VecToStream over the packet list `pk`: each call sees the next `a` unpopped packets and `f` free
output samples. Collects output samples and tags (absolute output positions). -/
def driveV2S (pk : List (List Nat)) : Nat → List Nat → List Tag → List (Nat × Nat) → Nat × List Nat × List Tag
  | c, out, ot, [] => (c, out, ot)
  | c, out, ot, (a, f) :: rest =>
    let w := ((pk.drop c).take a).map encodePkt
    let r := v2sWork () ⟨[⟨w, [], true⟩], [⟨f, true⟩]⟩
    let p := r.2.produced.getD 0 ⟨[], []⟩
    driveV2S pk (c + r.2.consumed.getD 0 0) (out ++ p.samples)
      (ot ++ p.tags.map fun t => { t with pos := out.length + t.pos }) rest

/-- **One call**: an empty queue waits for a packet; a packet that does not fit waits for exactly its length
of output room and is left in the queue; otherwise exactly one packet is popped and emitted whole. -/
theorem v2s_call (p : List Nat) (hp : ∀ x ∈ p, x + 1 < pktBase) (rest : List Nat) (f : Nat) :
    (v2sWork () ⟨[⟨[], [], true⟩], [⟨f, true⟩]⟩).2.verdict = .waitIn 0 1 ∧
    (let r := v2sWork () ⟨[⟨encodePkt p :: rest, [], true⟩], [⟨f, true⟩]⟩
     if p.length > f then r.2.verdict = .waitOut 0 p.length ∧ r.2.consumed.getD 0 0 = 0 ∧
        (r.2.produced.getD 0 ⟨[], []⟩).samples = []
     else r.2.verdict = .again ∧ r.2.consumed.getD 0 0 = 1 ∧ (r.2.produced.getD 0 ⟨[], []⟩).samples = p ∧
        (r.2.produced.getD 0 ⟨[], []⟩).tags = v2sTags 0 [p]) := by
  refine ⟨by simp [v2sWork, in0, noOut], ?_⟩
  simp only [v2sWork, in0, out0, noOut, List.getD_cons_zero, decode_encode p hp]
  by_cases h : p.length > f
  · simp [h]
  · simp only [h, if_false]
    by_cases h0 : p.length = 0
    · have : p = [] := List.length_eq_zero_iff.mp h0
      subst this
      simp [v2sTags]
    · have hb : (p.length == 0) = false := by simpa using h0
      simp [hb, v2sTags, h0]

/-- **Every schedule.** -/
theorem v2s_drive (pk : List (List Nat)) (hpk : ∀ p ∈ pk, ∀ x ∈ p, x + 1 < pktBase) (sched : List (Nat × Nat)) :
    ∀ c, c ≤ pk.length →
      let r := driveV2S pk c (pk.take c).flatten (v2sTags 0 (pk.take c)) sched
      r.1 ≤ pk.length ∧ r.2.1 = (pk.take r.1).flatten ∧ r.2.2 = v2sTags 0 (pk.take r.1) := by
  induction sched with
  | nil => intro c hc; exact ⟨hc, rfl, rfl⟩
  | cons af rest ih =>
    intro c hc
    obtain ⟨a, f⟩ := af
    simp only [driveV2S]
    cases hw : ((pk.drop c).take a) with
    | nil =>
      have h := (v2s_call [] (by simp) [] f).1
      have e : v2sWork () ⟨[⟨[], [], true⟩], [⟨f, true⟩]⟩ = ((), noOut ⟨[⟨[], [], true⟩], [⟨f, true⟩]⟩ (.waitIn 0 1)) := by
        simp [v2sWork, in0]
      simp only [List.map_nil, e, noOut, List.map_cons, List.getD_cons_zero, Nat.add_zero, List.append_nil]
      exact ih c hc
    | cons p ps =>
      have hc' : c < pk.length := by
        rcases Nat.lt_or_ge c pk.length with h | h
        · exact h
        · have : pk.drop c = [] := List.drop_eq_nil_of_le h
          rw [this] at hw; simp at hw
      have hp : p = pk[c] := by
        have h1 : ((pk.drop c).take a)[0]? = some p := by rw [hw]; rfl
        rw [List.getElem?_take] at h1
        split at h1
        · rw [List.getElem?_drop] at h1
          simp only [Nat.add_zero] at h1
          rw [List.getElem?_eq_getElem hc'] at h1
          exact (Option.some.inj h1).symm
        · simp at h1
      have hpv : ∀ x ∈ p, x + 1 < pktBase := hpk p (by rw [hp]; exact List.getElem_mem hc')
      have hcall := (v2s_call p hpv (ps.map encodePkt) f).2
      simp only [List.map_cons] at hcall ⊢
      have htake : pk.take (c + 1) = pk.take c ++ [p] := by
        rw [List.take_add_one, List.getElem?_eq_getElem hc', hp]; rfl
      by_cases hfit : p.length > f
      · simp only [hfit, if_true] at hcall
        obtain ⟨_, h2, h3⟩ := hcall
        rw [h2, h3]
        have ht : (v2sWork () ⟨[⟨encodePkt p :: ps.map encodePkt, [], true⟩], [⟨f, true⟩]⟩).2.produced.getD 0 ⟨[], []⟩ =
            ⟨[], []⟩ := by
          simp [v2sWork, in0, out0, noOut, decode_encode p hpv, hfit]
        rw [ht]
        simp only [Nat.add_zero, List.append_nil, List.map_nil]
        exact ih c hc
      · simp only [hfit, if_false] at hcall
        obtain ⟨_, h2, h3, h4⟩ := hcall
        rw [h2, h3, h4]
        have e1 : (pk.take c).flatten ++ p = (pk.take (c + 1)).flatten := by rw [htake]; simp
        have e2 : v2sTags 0 (pk.take c) ++
            (v2sTags 0 [p]).map (fun t => { t with pos := (pk.take c).flatten.length + t.pos }) =
            v2sTags 0 (pk.take (c + 1)) := by
          rw [htake, v2sTags_append]
          congr 1
          simp only [v2sTags, Nat.zero_add, List.append_nil]
          split
          · simp
          · simp only [List.map_cons, List.map_nil, Nat.add_zero, List.cons.injEq, and_true]
            constructor
            · trivial
            · congr 1; omega
        rw [e1, e2]
        exact ih (c + 1) (by omega)

end RR.Blk
