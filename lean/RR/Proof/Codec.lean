import RR.Model.Codec

namespace RR.Codec

theorem leBytes_length (n x : Nat) : (leBytes n x).length = n := by
  induction n generalizing x with
  | zero => rfl
  | succ n ih => simp [leBytes, ih]

theorem ofLe_leBytes (n x : Nat) (h : x < 256 ^ n) : ofLeBytes (leBytes n x) = x := by
  induction n generalizing x with
  | zero => simp at h; subst h; rfl
  | succ n ih =>
    simp only [leBytes, ofLeBytes]
    rw [ih (x / 256) (by
      rw [Nat.pow_succ] at h
      exact Nat.div_lt_of_lt_mul (by rw [Nat.mul_comm]; exact h))]
    omega

theorem leBytes_bytes (n x : Nat) : ∀ b ∈ leBytes n x, b < 256 := by
  induction n generalizing x with
  | zero => intro b hb; cases hb
  | succ n ih =>
    intro b hb
    simp only [leBytes, List.mem_cons] at hb
    rcases hb with rfl | hb
    · omega
    · exact ih _ b hb

/-- Well-formed value of a type: patterns fit the width. -/
def Val.ok (t : Ty) (v : Val) : Prop :=
  match t with
  | .u8 => v.re < 256 ∧ v.im = 0
  | .complex => v.re < 256 ^ 4 ∧ v.im < 256 ^ 4
  | _ => v.re < 256 ^ 4 ∧ v.im = 0

theorem serialize_length (t : Ty) (v : Val) : (serialize t v).length = t.size := by
  cases t <;> simp [serialize, Ty.size, leBytes_length]

/-- Serialising a sample and parsing it back is the identity, for every sample
type and every bit pattern of that type. -/
theorem parse_serialize (t : Ty) (v : Val) (h : v.ok t) : parse t (serialize t v) = some v := by
  have hl := serialize_length t v
  unfold parse
  rw [if_neg (by rw [hl]; simp)]
  cases t <;> simp only [Val.ok] at h
  · obtain ⟨h1, h2⟩ := h
    simp only [serialize, Ty.size]
    rw [ofLe_leBytes 1 v.re (by simpa using h1)]
    cases v; simp_all
  · obtain ⟨h1, h2⟩ := h
    simp only [serialize, Ty.size]
    rw [ofLe_leBytes 4 v.re h1]
    cases v; simp_all
  · obtain ⟨h1, h2⟩ := h
    simp only [serialize, Ty.size]
    rw [ofLe_leBytes 4 v.re h1]
    cases v; simp_all
  · obtain ⟨h1, h2⟩ := h
    simp only [serialize, Ty.size]
    rw [ofLe_leBytes 4 v.re h1]
    cases v; simp_all
  · obtain ⟨h1, h2⟩ := h
    simp only [serialize]
    rw [List.take_left' (leBytes_length 4 _), List.drop_left' (leBytes_length 4 _),
      ofLe_leBytes 4 v.re h1, ofLe_leBytes 4 v.im h2]

theorem size_pos (t : Ty) : 0 < t.size := by cases t <;> simp [Ty.size]

theorem parseAll_short (t : Ty) (bytes : List Nat) (h : bytes.length < t.size) : parseAll t bytes = [] := by
  rw [parseAll]; simp [h, Nat.ne_of_gt (size_pos t)]

/-- `parseAll` of whole samples followed by more bytes splits. -/
theorem parseAll_append (t : Ty) (a b : List Nat) (k : Nat) (ha : a.length = k * t.size) :
    parseAll t (a ++ b) = parseAll t a ++ parseAll t b := by
  induction k generalizing a with
  | zero =>
    have : a = [] := List.length_eq_zero_iff.mp (by simpa using ha)
    subst this
    rw [parseAll_short t [] (by simpa using size_pos t)]
    simp
  | succ k ih =>
    have hs := size_pos t
    have hlen : t.size ≤ a.length := by rw [ha, Nat.succ_mul]; omega
    rw [parseAll.eq_1 t (a ++ b), parseAll.eq_1 t a]
    have h1 : ¬ (a ++ b).length < t.size := by simp; omega
    have h2 : ¬ a.length < t.size := by omega
    simp only [Nat.ne_of_gt hs, dite_false, h1, h2, if_false]
    rw [List.take_append_of_le_length hlen, List.drop_append_of_le_length hlen,
      ih (a.drop t.size) (by simp [ha, Nat.succ_mul]), List.append_assoc]

/-- Invariant of the reassembly: what has been emitted plus what is buffered is
what has been read; fewer than one sample is buffered. -/
theorem feedAll_spec (t : Ty) (buf : List Nat) (chunks : List (List Nat)) (hb : buf.length < t.size) :
    let r := feedAll t buf chunks
    r.2 = parseAll t (buf ++ chunks.flatten) ∧
    r.1 = (buf ++ chunks.flatten).drop ((buf ++ chunks.flatten).length / t.size * t.size) ∧
    r.1.length < t.size := by
  have hs := size_pos t
  induction chunks generalizing buf with
  | nil =>
    simp only [feedAll, List.flatten_nil, List.append_nil]
    have : buf.length / t.size = 0 := Nat.div_eq_of_lt hb
    refine ⟨(parseAll_short t buf hb).symm, by simp [this], hb⟩
  | cons c rest ih =>
    simp only [feedAll, feed, List.flatten_cons]
    generalize hall : buf ++ c = all
    generalize hw : all.length / t.size * t.size = whole
    have hwle : whole ≤ all.length := by rw [← hw]; exact Nat.div_mul_le_self _ _
    have hrem : (all.drop whole).length < t.size := by
      rw [List.length_drop, ← hw]
      have := Nat.mod_lt all.length hs
      have := Nat.div_add_mod all.length t.size
      rw [Nat.mul_comm] at this; omega
    obtain ⟨i1, i2, i3⟩ := ih (all.drop whole) hrem
    have hsplit : buf ++ (c ++ rest.flatten) = all.take whole ++ (all.drop whole ++ rest.flatten) := by
      rw [← List.append_assoc, hall, ← List.append_assoc, List.take_append_drop]
    refine ⟨?_, ?_, i3⟩
    · rw [i1, hsplit]
      exact (parseAll_append t _ _ (all.length / t.size) (by rw [List.length_take, ← hw]; omega)).symm
    · rw [i2, hsplit]
      -- dropping whole samples commutes with having already dropped `whole` bytes
      have hlt : (all.take whole).length = whole := by rw [List.length_take]; omega
      have hdiv : whole % t.size = 0 := by rw [← hw]; exact Nat.mul_mod_left _ _
      have e : (all.take whole ++ (all.drop whole ++ rest.flatten)).length =
          whole + (all.drop whole ++ rest.flatten).length := by rw [List.length_append, hlt]
      rw [e]
      have hq : (whole + (all.drop whole ++ rest.flatten).length) / t.size * t.size =
          whole + (all.drop whole ++ rest.flatten).length / t.size * t.size := by
        obtain ⟨q, hq⟩ : ∃ q, whole = q * t.size := ⟨all.length / t.size, hw.symm⟩
        rw [hq, Nat.add_comm (q * t.size), Nat.add_mul_div_right _ _ hs, Nat.add_mul, Nat.add_comm]
      rw [hq, ← List.drop_drop, List.drop_left' hlt]

end RR.Codec

