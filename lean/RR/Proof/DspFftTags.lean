import RR.Proof.DspFftLoop

/-!
Tags through `FftFilter::work`, for every chunking: the block keeps the tags of
the samples of an unfinished batch (`buf_tags`, batch-relative) across calls and
hands them on with the batch. Whatever the read windows and output space, the
tags handed downstream so far are exactly the input tags that sit on the samples
already emitted — each once, at the same absolute index — and the tags of the
buffered samples are all still held. (Equalities are up to order: `List.Perm`.)
-/
namespace RR.Dsp
open RR RR.Blk

variable {α : Type}

/-- the tags of `T` on absolute positions `[a, b)` -/
def rng (T : List Tag) (a b : Nat) : List Tag := T.filter fun t => decide (a ≤ t.pos ∧ t.pos < b)

/-- shift a tag down by `d` -/
def sh (d : Nat) (t : Tag) : Tag := { t with pos := t.pos - d }
/-- shift a tag up by `d` -/
def up (d : Nat) (t : Tag) : Tag := { t with pos := d + t.pos }

theorem rng_empty (T : List Tag) (a : Nat) : rng T a a = [] := by
  unfold rng
  rw [List.filter_eq_nil_iff]
  intro t _
  simp

theorem rng_append_perm (T : List Tag) (a b c : Nat) (hab : a ≤ b) (hbc : b ≤ c) :
    (rng T a b ++ rng T b c).Perm (rng T a c) := by
  unfold rng
  induction T with
  | nil => simp
  | cons t rest ih =>
    simp only [List.filter_cons]
    by_cases h1 : a ≤ t.pos ∧ t.pos < b
    · have h2 : ¬ (b ≤ t.pos ∧ t.pos < c) := by omega
      have h3 : a ≤ t.pos ∧ t.pos < c := by omega
      rw [decide_eq_true h1, decide_eq_false h2, decide_eq_true h3]
      exact List.Perm.cons t ih
    · by_cases h2 : b ≤ t.pos ∧ t.pos < c
      · have h3 : a ≤ t.pos ∧ t.pos < c := by omega
        rw [decide_eq_false h1, decide_eq_true h2, decide_eq_true h3]
        exact (List.perm_middle).trans (List.Perm.cons t ih)
      · have h3 : ¬ (a ≤ t.pos ∧ t.pos < c) := by omega
        rw [decide_eq_false h1, decide_eq_false h2, decide_eq_false h3]
        exact ih

/-- window-relative tags of the read window `[c, c + wl)` -/
def winTags (T : List Tag) (c wl : Nat) : List Tag := (rng T c (c + wl)).map (sh c)

/-- the tags the loop picks out of the window for the samples `[pos, pos + add)`, rebased to the batch -/
theorem newTags_eq (T : List Tag) (c wl pos add base Bs : Nat) (hfit : pos + add ≤ wl) (hb : c + pos = Bs + base) :
    ((winTags T c wl).filter fun t => decide (pos ≤ t.pos ∧ t.pos < pos + add)).map
        (fun t => { t with pos := base + (t.pos - pos) }) =
      (rng T (c + pos) (c + pos + add)).map (sh Bs) := by
  unfold winTags rng
  rw [List.filter_map, List.map_map, List.filter_filter]
  have hf : (T.filter fun t => ((fun t : Tag => decide (pos ≤ t.pos ∧ t.pos < pos + add)) ∘ sh c) t &&
        decide (c ≤ t.pos ∧ t.pos < c + wl)) =
      T.filter fun t => decide (c + pos ≤ t.pos ∧ t.pos < c + pos + add) := by
    apply List.filter_congr
    intro t _
    simp only [Function.comp, sh]
    by_cases h : c + pos ≤ t.pos ∧ t.pos < c + pos + add
    · have h1 : pos ≤ t.pos - c ∧ t.pos - c < pos + add := by omega
      have h2 : c ≤ t.pos ∧ t.pos < c + wl := by omega
      simp [h, h1, h2]
    · by_cases h2 : c ≤ t.pos ∧ t.pos < c + wl
      · have h1 : ¬ (pos ≤ t.pos - c ∧ t.pos - c < pos + add) := by omega
        simp [h, h1, h2]
      · simp [h, h2]
  rw [hf]
  apply List.map_congr_left
  intro t ht
  simp only [List.mem_filter, decide_eq_true_eq] at ht
  simp only [Function.comp, sh]
  congr 1
  omega

theorem map_sh_up (l : List Tag) (a d : Nat) (h : ∀ t ∈ l, a + d ≤ t.pos) :
    (l.map (sh (a + d))).map (up d) = l.map (sh a) := by
  rw [List.map_map]
  apply List.map_congr_left
  intro t ht
  have := h t ht
  simp only [Function.comp, sh, up]
  congr 1
  omega

theorem rng_mem_ge (T : List Tag) (a b : Nat) : ∀ t ∈ rng T a b, a ≤ t.pos := by
  intro t ht
  simp only [rng, List.mem_filter, decide_eq_true_eq] at ht
  exact ht.2.1

/-- **One `work()` call**: `o0` = samples emitted before the call. -/
theorem fftLoop_tags (o : Ops α) (cd : Codec α) (taps : List α) (T : List Tag) (w : List Nat) (c free o0 : Nat)
    (hS : 0 < calcFftSize taps.length - taps.length) :
    ∀ (fuel : Nat) (st : FftSt α) (pos : Nat) (outp : List Nat) (otags : List Tag),
      pos ≤ w.length → st.buf.length < calcFftSize taps.length - taps.length →
      c + pos = o0 + outp.length + st.buf.length →
      st.bufTags.Perm ((rng T (o0 + outp.length) (c + pos)).map (sh (o0 + outp.length))) →
      otags.Perm ((rng T o0 (o0 + outp.length)).map (sh o0)) →
      let r := fftLoop o cd taps ⟨w, winTags T c w.length, true⟩ free fuel st pos outp otags
      r.2.1 ≤ w.length ∧ r.1.buf.length < calcFftSize taps.length - taps.length ∧
      c + r.2.1 = o0 + r.2.2.1.length + r.1.buf.length ∧
      r.1.bufTags.Perm ((rng T (o0 + r.2.2.1.length) (c + r.2.1)).map (sh (o0 + r.2.2.1.length))) ∧
      r.2.2.2.1.Perm ((rng T o0 (o0 + r.2.2.1.length)).map (sh o0)) := by
  intro fuel
  induction fuel with
  | zero => intro st pos outp otags h1 h2 h3 h4 h5; exact ⟨h1, h2, h3, h4, h5⟩
  | succ f ih =>
    intro st pos outp otags h1 h2 h3 h4 h5
    simp only [fftLoop]
    generalize hSdef : calcFftSize taps.length - taps.length = S at hS h2 ih ⊢
    by_cases hfree : S > free - outp.length
    · rw [if_pos hfree]; exact ⟨h1, h2, h3, h4, h5⟩
    · rw [if_neg hfree]
      generalize hadd : min (w.length - pos) (S - st.buf.length) = add
      have hadd1 : add ≤ w.length - pos := by rw [← hadd]; exact Nat.min_le_left _ _
      have hadd2 : add ≤ S - st.buf.length := by rw [← hadd]; exact Nat.min_le_right _ _
      have hlen : (st.buf ++ ((w.drop pos).take add).map cd.dec).length = st.buf.length + add := by
        simp only [List.length_append, List.length_map, List.length_take, List.length_drop]
        omega
      have hnew := newTags_eq T c w.length pos add st.buf.length (o0 + outp.length) (by omega) (by omega)
      -- the tags buffered after this iteration
      have hbt : (st.bufTags ++ ((winTags T c w.length).filter fun t : Tag => decide (pos ≤ t.pos ∧ t.pos < pos + add)).map
          (fun t : Tag => { t with pos := st.buf.length + (t.pos - pos) })).Perm
          ((rng T (o0 + outp.length) (c + (pos + add))).map (sh (o0 + outp.length))) := by
        rw [hnew]
        refine (List.Perm.append_right _ h4).trans ?_
        rw [← List.map_append]
        apply List.Perm.map
        have := rng_append_perm T (o0 + outp.length) (c + pos) (c + pos + add) (by omega) (by omega)
        rw [show c + (pos + add) = c + pos + add by omega]
        exact this
      by_cases hshort : (st.buf ++ ((w.drop pos).take add).map cd.dec).length < S
      · rw [if_pos hshort]
        dsimp only
        refine ⟨by omega, hshort, ?_, hbt, h5⟩
        rw [hlen]; omega
      · rw [if_neg hshort]
        have hlenS : st.buf.length + add = S := by rw [hlen] at hshort; omega
        have hys := fftBatch_fst_length o taps (st.buf ++ ((w.drop pos).take add).map cd.dec) st.tail
        rw [hSdef] at hys
        have hol : (outp ++ (fftBatch o taps (st.buf ++ ((w.drop pos).take add).map cd.dec) st.tail).1.map cd.enc).length =
            outp.length + S := by
          rw [List.length_append, List.length_map, hys]
        have := ih { buf := [], bufTags := [], tail := (fftBatch o taps (st.buf ++ ((w.drop pos).take add).map cd.dec) st.tail).2 }
          (pos + add)
          (outp ++ (fftBatch o taps (st.buf ++ ((w.drop pos).take add).map cd.dec) st.tail).1.map cd.enc)
          (otags ++ (st.bufTags ++ ((winTags T c w.length).filter fun t : Tag => decide (pos ≤ t.pos ∧ t.pos < pos + add)).map
            (fun t : Tag => { t with pos := st.buf.length + (t.pos - pos) })).map
              fun t : Tag => { t with pos := outp.length + t.pos })
          (by omega) (by simpa using hS) (by rw [hol]; simp; omega)
          (by
            rw [hol]
            have e : c + (pos + add) = o0 + (outp.length + S) := by omega
            rw [e, rng_empty]; simp)
          (by
            rw [hol]
            have hup : (fun t : Tag => { t with pos := outp.length + t.pos }) = up outp.length := rfl
            rw [hup]
            refine (List.Perm.append h5 ((List.Perm.map _ hbt))).trans ?_
            have e : c + (pos + add) = o0 + outp.length + S := by omega
            rw [e, map_sh_up _ o0 outp.length (rng_mem_ge T _ _), ← List.map_append]
            apply List.Perm.map
            have := rng_append_perm T o0 (o0 + outp.length) (o0 + outp.length + S) (by omega) (by omega)
            rw [show o0 + (outp.length + S) = o0 + outp.length + S by omega]
            exact this)
        exact this

theorem map_sh_up_id (l : List Tag) (d : Nat) (h : ∀ t ∈ l, d ≤ t.pos) : (l.map (sh d)).map (up d) = l := by
  rw [List.map_map]
  conv => rhs; rw [← List.map_id l]
  apply List.map_congr_left
  intro t ht
  have := h t ht
  cases t with
  | mk p k v =>
    simp only [Function.comp, sh, up, id]
    congr 1
    simp only at this
    omega

/-- Drive a one-input/one-output block over the input history `X` whose tags are `T` (absolute
positions): each call sees the next `a` samples with their tags rebased to the window, and `f` free
output samples. Collects the samples and the tags handed on (absolute output positions). -/
def driveT (B : Block) (X : List Nat) (T : List Tag) :
    B.σ → Nat → List Nat → List Tag → List (Nat × Nat) → B.σ × Nat × List Nat × List Tag
  | st, c, out, ot, [] => (st, c, out, ot)
  | st, c, out, ot, (a, f) :: rest =>
    let w := (X.drop c).take a
    let r := B.work st ⟨[⟨w, winTags T c w.length, true⟩], [⟨f, true⟩]⟩
    let p := r.2.produced.getD 0 ⟨[], []⟩
    driveT B X T r.1 (c + r.2.consumed.getD 0 0) (out ++ p.samples) (ot ++ p.tags.map (up out.length)) rest

/-- where the tags are after `c` consumed samples -/
def TagInv (taps : List α) (T : List Tag) (st : FftSt α) (c : Nat) (out : List Nat) (ot : List Tag) : Prop :=
  st.buf.length < calcFftSize taps.length - taps.length ∧ c = out.length + st.buf.length ∧
  st.bufTags.Perm ((rng T out.length c).map (sh out.length)) ∧ ot.Perm (rng T 0 out.length)

/-- **FftFilter tags, any chunking.** -/
theorem fft_tags_drive (o : Ops α) (cd : Codec α) (taps : List α) (X : List Nat) (T : List Tag)
    (hS : 0 < calcFftSize taps.length - taps.length) (sched : List (Nat × Nat)) :
    ∀ (st : FftSt α) (c : Nat) (out : List Nat) (ot : List Tag), TagInv taps T st c out ot →
      let r := driveT (fftBlock o cd taps) X T st c out ot sched
      TagInv taps T r.1 r.2.1 r.2.2.1 r.2.2.2 := by
  induction sched with
  | nil => intro st c out ot h; exact h
  | cons p rest ih =>
    intro st c out ot h
    obtain ⟨a, f⟩ := p
    obtain ⟨h1, h2, h3, h4⟩ := h
    simp only [driveT]
    apply ih
    generalize hw : (X.drop c).take a = w
    have key := fftLoop_tags o cd taps T w c f out.length hS (w.length + 2) st 0 [] []
      (Nat.zero_le _) h1 (by simpa using h2) (by simpa using h3) (by simp [rng_empty])
    simp only [fftBlock, fftWork, in0, out0, List.getD_cons_zero]
    obtain ⟨_, k2, k3, k4, k5⟩ := key
    refine ⟨k2, ?_, ?_, ?_⟩
    · rw [List.length_append]; omega
    · rw [List.length_append]; exact k4
    · rw [List.length_append]
      refine (List.Perm.append h4 (List.Perm.map _ k5)).trans ?_
      rw [map_sh_up_id _ _ (rng_mem_ge T _ _)]
      exact rng_append_perm T 0 out.length _ (Nat.zero_le _) (by omega)

theorem fft_tags_init (taps : List α) (T : List Tag) (tail : List α)
    (hS : 0 < calcFftSize taps.length - taps.length) : TagInv taps T ⟨[], [], tail⟩ 0 [] [] := by
  refine ⟨by simpa using hS, rfl, ?_, ?_⟩ <;> simp [rng_empty]

end RR.Dsp
