import RR.Model.Dsp
import RR.Proof.Hand

/-!
`FirFilter` for every chunking, over ANY arithmetic (`Ops α`: floats included —
nothing here uses an algebraic law): output `m` of the stream is the fold of
`Fir::filter` over the `ntaps` input samples starting at `m * deci`.
-/
namespace RR.Dsp
open RR.Blk

variable {α : Type}

theorem zipWith_take_right {β γ : Type} (f : α → β → γ) :
    (l1 : List α) → (l2 : List β) → List.zipWith f l1 l2 = List.zipWith f (l1.take l2.length) l2
  | [], _ => by simp
  | _ :: _, [] => by simp
  | a :: l1, b :: l2 => by simp [zipWith_take_right f l1 l2]

/-- `filter` reads exactly `ntaps` samples. -/
theorem dot_take (o : Ops α) (rt inp : List α) : dot o rt inp = dot o rt (inp.take rt.length) := by
  unfold dot
  rw [zipWith_take_right]

/-- The stream-level specification: output `m` is `filter` applied at offset `m * deci`. -/
def firSpec (o : Ops α) (cd : Codec α) (rt : List α) (deci : Nat) (X : List Nat) (k : Nat) : List Nat :=
  (List.range k).map fun m => cd.enc (dot o rt ((X.map cd.dec).drop (m * deci)))

theorem firSpec_add (o : Ops α) (cd : Codec α) (rt : List α) (deci : Nat) (X : List Nat) (q j : Nat) :
    firSpec o cd rt deci X (q + j) = firSpec o cd rt deci X q ++
      (List.range j).map fun i => cd.enc (dot o rt ((X.map cd.dec).drop ((q + i) * deci))) := by
  unfold firSpec
  rw [List.range_add, List.map_append, List.map_map]
  rfl

/-- One `work()` call at stream position `q * deci`, any readable prefix `a`, any free space `f`. -/
theorem fir_step (o : Ops α) (cd : Codec α) (rt : List α) (deci : Nat) (X : List Nat) (q a f : Nat)
    (hd : 0 < deci) (ht : 0 < rt.length) :
    let w := (X.drop (q * deci)).take a
    let r := firWork o cd rt deci () ⟨[⟨w, [], true⟩], [⟨f, true⟩]⟩
    ∃ j, r.2.consumed.getD 0 0 = j * deci ∧ j ≤ f ∧
      j * deci + (rt.length - 1) ≤ w.length + (if j = 0 then rt.length else 0) ∧
      (r.2.produced.getD 0 ⟨[], []⟩).samples =
        (List.range j).map (fun i => cd.enc (dot o rt ((X.map cd.dec).drop ((q + i) * deci)))) ∧
      r.2.verdict ≠ .panic := by
  intro w r
  have hw : w.length ≤ X.length - q * deci := by simp [w]; omega
  simp only [r, firWork, in0, out0, noOut, List.getD_cons_zero]
  have hne : ¬ (deci = 0 ∨ rt.length = 0) := by omega
  simp only [hne, if_false]
  by_cases h1 : w.length < rt.length + deci - 1
  · simp only [h1, if_true]
    exact ⟨0, by simp, by omega, by simp; omega, by simp, by simp⟩
  · simp only [h1, if_false]
    -- n0 = deci * ((len - ntaps + 1) / deci) > 0
    have hq1 : 1 ≤ (w.length - rt.length + 1) / deci := by
      rw [Nat.le_div_iff_mul_le hd]; omega
    have hn0 : deci * ((w.length - rt.length + 1) / deci) ≠ 0 := by
      have : 0 < deci * ((w.length - rt.length + 1) / deci) := Nat.mul_pos hd (by omega)
      omega
    have hle : deci * ((w.length - rt.length + 1) / deci) ≤ w.length - rt.length + 1 := Nat.mul_div_le _ _
    simp only [hn0, if_false]
    have hneed : ¬ w.length < deci * ((w.length - rt.length + 1) / deci) + rt.length - 1 := by omega
    simp only [hneed, if_false]
    by_cases h2 : f < 1
    · simp only [h2, if_true]
      exact ⟨0, by simp, by omega, by simp; omega, by simp, by simp⟩
    · simp only [h2, if_false]
      generalize hQ : (w.length - rt.length + 1) / deci = Q at *
      -- n = min (deci * Q) (f * deci) = deci * min Q f
      have hmin : min (deci * Q) (f * deci) = min Q f * deci := by
        rw [Nat.mul_comm deci Q, Nat.mul_min_mul_right]
      have hj : 1 ≤ min Q f := by omega
      have hmod : ¬ (min (deci * Q) (f * deci) % deci ≠ 0 ∨ min (deci * Q) (f * deci) = 0) := by
        rw [hmin]
        have : 0 < min Q f * deci := Nat.mul_pos (by omega) hd
        simp [Nat.mul_mod_left]
        omega
      simp only [hmod, if_false, List.getD_cons_zero]
      refine ⟨min Q f, hmin, Nat.min_le_right _ _, ?_, ?_, by simp⟩
      · have : min Q f * deci ≤ Q * deci := Nat.mul_le_mul_right _ (Nat.min_le_left _ _)
        have hj0 : min Q f ≠ 0 := by omega
        simp only [hj0, if_false]
        rw [Nat.mul_comm] at hle
        omega
      · rw [hmin, Nat.mul_div_cancel _ hd]
        unfold filterN
        rw [List.map_map]
        apply List.map_congr_left
        intro i hi
        have hi' : i < min Q f := by simpa using hi
        simp only [Function.comp]
        congr 1
        -- both windows agree on their first ntaps samples
        rw [dot_take o rt ((List.map cd.dec (List.take _ w)).drop (i * deci)),
          dot_take o rt ((List.map cd.dec X).drop ((q + i) * deci))]
        congr 1
        have hidx : i * deci + rt.length ≤ deci * Q + rt.length - 1 := by
          have : (i + 1) * deci ≤ Q * deci := Nat.mul_le_mul_right _ (by omega)
          rw [Nat.add_mul] at this
          rw [Nat.mul_comm deci Q]
          omega
        rw [← List.map_drop, ← List.map_drop, ← List.map_take, ← List.map_take]
        congr 1
        -- take ntaps (drop (i*deci) (take need w)) = take ntaps (drop ((q+i)*deci) X)
        rw [List.drop_take, List.take_take]
        have : min rt.length (deci * Q + rt.length - 1 - i * deci) = rt.length := by omega
        rw [this]
        show List.take rt.length (List.drop (i * deci) (List.take a (List.drop (q * deci) X))) = _
        rw [List.drop_take, List.take_take, List.drop_drop]
        have e1 : (q + i) * deci = q * deci + i * deci := Nat.add_mul _ _ _
        have hwa : w.length ≤ a := by simp [w]; omega
        have : min rt.length (a - i * deci) = rt.length := by
          rw [Nat.mul_comm deci Q] at hle hidx
          omega
        rw [this, e1]

/-- **FirFilter, any chunking, any arithmetic**: after any schedule of readable
prefixes and free space, with `q * deci` samples consumed, the cumulative
output is exactly `firSpec … q`: sample `m` is the filter applied to the
`ntaps` input samples from `m * deci` on (decimation phase 0 is kept). -/
theorem fir_drive (o : Ops α) (cd : Codec α) (taps : List α) (deci : Nat) (X : List Nat) (q : Nat)
    (hd : 0 < deci) (ht : 0 < taps.length) (sched : List (Nat × Nat)) :
    let r := drive1 (firBlock o cd taps deci) X () (q * deci) (firSpec o cd (firNew taps) deci X q) sched
    ∃ q', r.2.1 = q' * deci ∧ r.2.2 = firSpec o cd (firNew taps) deci X q' := by
  induction sched generalizing q with
  | nil => exact ⟨q, rfl, rfl⟩
  | cons af rest ih =>
    obtain ⟨a, f⟩ := af
    have hs := fir_step o cd (firNew taps) deci X q a f hd (by simpa [firNew] using ht)
    simp only [drive1, firBlock] at hs ⊢
    obtain ⟨j, h1, _, _, h2, _⟩ := hs
    rw [h1, h2, ← Nat.add_mul, ← firSpec_add]
    exact ih (q + j)

end RR.Dsp
