import RR.Model.Dsp
import RR.Proof.Hand

/-!
`FftStream` framing for every schedule: the block consumes whole frames only, and its output is the
engine applied to each consumed frame, in order — whatever the read windows and the output space.
-/
namespace RR.Dsp
open RR RR.Blk

theorem framesOf_append (size : Nat) (q m : Nat) (a b : List Nat) (ha : a.length = q * size) :
    framesOf size (q + m) (a ++ b) = framesOf size q a ++ framesOf size m b := by
  induction q generalizing a with
  | zero =>
    have : a = [] := List.length_eq_zero_iff.mp (by simpa using ha)
    subst this
    simp [framesOf]
  | succ q ih =>
    have hlen : size ≤ a.length := by rw [ha, Nat.succ_mul]; omega
    rw [show q + 1 + m = (q + m) + 1 by omega]
    simp only [framesOf]
    rw [List.take_append_of_le_length hlen, List.drop_append_of_le_length hlen,
      ih (a.drop size) (by rw [List.length_drop, ha, Nat.succ_mul]; omega)]
    rfl

/-- the frames of the first `q` frames' worth of input -/
def fftStreamSpec (engine : List Nat → List Nat) (size : Nat) (X : List Nat) (q : Nat) : List Nat :=
  (framesOf size q (X.take (q * size))).flatMap engine

theorem fftStream_step (engine : List Nat → List Nat) (size : Nat) (hs : 0 < size) (X : List Nat) (q a f : Nat)
    (hq : q * size ≤ X.length) :
    let w := (X.drop (q * size)).take a
    let r := fftStreamWork engine size () ⟨[⟨w, [], true⟩], [⟨f, true⟩]⟩
    ∃ m, r.2.consumed.getD 0 0 = m * size ∧ (q + m) * size ≤ X.length ∧ m * size ≤ f ∧
      fftStreamSpec engine size X (q + m) =
        fftStreamSpec engine size X q ++ (r.2.produced.getD 0 ⟨[], []⟩).samples ∧
      r.2.verdict ≠ .panic ∧
      (r.2.verdict = .waitIn 0 size → w.length < size) ∧ (r.2.verdict = .waitOut 0 size → f < size) ∧
      (r.2.verdict = .again → 0 < m) := by
  intro w r
  have hwl : w.length ≤ X.length - q * size := by
    show ((X.drop (q * size)).take a).length ≤ _
    simp only [List.length_take, List.length_drop]; omega
  simp only [r, fftStreamWork, in0, out0, noOut, List.getD_cons_zero]
  by_cases h1 : w.length < size
  · simp only [h1, if_true]
    exact ⟨0, by simp, by simpa using hq, by simp, by simp, by simp, by intros; first | trivial | assumption, by simp, by simp⟩
  · simp only [h1, if_false]
    by_cases h2 : f < size
    · simp only [h2, if_true]
      exact ⟨0, by simp, by simpa using hq, by simp, by simp, by simp, by simp, by intros; first | trivial | assumption, by simp⟩
    · have hne : ¬ size = 0 := by omega
      simp only [h2, if_false, hne, List.getD_cons_zero]
      generalize hl : min w.length f = l
      have hlw : l ≤ w.length := by rw [← hl]; exact Nat.min_le_left _ _
      have hlf : l ≤ f := by rw [← hl]; exact Nat.min_le_right _ _
      have hls : size ≤ l := by rw [← hl]; omega
      have hdiv : l - l % size = l / size * size := by
        have := Nat.div_add_mod l size
        rw [Nat.mul_comm] at this; omega
      rw [hdiv]
      have hmpos : 0 < l / size := Nat.div_pos hls hs
      have hmle : l / size * size ≤ l := Nat.div_mul_le_self _ _
      refine ⟨l / size, rfl, ?_, by omega, ?_, by simp, by simp, by simp, fun _ => hmpos⟩
      · rw [Nat.add_mul]; omega
      · simp only [fftStreamSpec]
        have hsplit : X.take ((q + l / size) * size) = X.take (q * size) ++ w.take (l / size * size) := by
          rw [Nat.add_mul, List.take_add]
          congr 1
          show _ = ((X.drop (q * size)).take a).take _
          rw [List.take_take]
          congr 1
          have : w.length ≤ a := by
            show ((X.drop (q * size)).take a).length ≤ a
            simp only [List.length_take]; omega
          omega
        rw [hsplit, framesOf_append size q (l / size) _ _ (by rw [List.length_take]; omega), List.flatMap_append]
        rw [Nat.mul_div_cancel _ hs]

/-- **FftStream, every schedule**: after any sequence of (readable, free) pairs the block has consumed
`q` whole frames and emitted the engine's transform of each, in order. -/
theorem fftStream_drive (engine : List Nat → List Nat) (size : Nat) (hs : 0 < size) (X : List Nat)
    (sched : List (Nat × Nat)) :
    ∀ q, q * size ≤ X.length →
      let r := drive1 (fftStreamBlock engine size) X () (q * size) (fftStreamSpec engine size X q) sched
      ∃ q', r.2.1 = q' * size ∧ q' * size ≤ X.length ∧ r.2.2 = fftStreamSpec engine size X q' := by
  induction sched with
  | nil => intro q hq; exact ⟨q, rfl, hq, rfl⟩
  | cons af rest ih =>
    intro q hq
    obtain ⟨a, f⟩ := af
    obtain ⟨m, h1, h2, _, h4, _⟩ := fftStream_step engine size hs X q a f hq
    simp only [drive1, fftStreamBlock] at h1 h4 ⊢
    rw [h1, ← h4, ← Nat.add_mul]
    exact ih (q + m) h2

end RR.Dsp
