import RR.Proof.Ring

/-! Lifting the one-step simulation to every operation sequence. -/
namespace RR.Ring
open RR

theorem specTags_ofR (ts : List Fifo.RTag) :
    specTags (ts.map ofR) = ts.map fun t => (t.pos, t.key, t.val) := by
  simp [specTags, ofR, Function.comp_def]

theorem toR_readTags {s : State} {q : Fifo.Q} (h : Sim s q) :
    (readTags s).map toR = Fifo.tags q := readTags_spec h

theorem produce_cap {s s' : State} {n : Nat} {ts : List Tag} (e : produce s n ts = some s') :
    s'.cap = s.cap := by
  unfold produce at e
  split at e
  · cases e; rfl
  · split at e; · cases e
    split at e; · cases e
    cases e; simp [(foldl_addTag_fields _ _).1]

theorem consume_cap {s s' : State} {m : Nat} (e : consume s m = some s') : s'.cap = s.cap := by
  unfold consume at e
  split at e; · cases e
  split at e <;> (cases e; rfl)

/-- One step: same observation, and the successor states are again related
(or both sides are dead). -/
theorem step_sim {s : State} {q : Fifo.Q} (h : Sim s q) (op : Fifo.Op) (hv : op.Valid) :
    (step s op).2 = (Fifo.step s.cap q op).2 ∧
    match (step s op).1, (Fifo.step s.cap q op).1 with
    | some s', some q' => Sim s' q' ∧ s'.cap = s.cap
    | none, none => True
    | _, _ => False := by
  have hfree : writeLen s = s.cap - q.length := by rw [h.len_eq]; rfl
  cases op with
  | write vals n ts =>
    obtain ⟨hn, ht⟩ := hv
    simp only [step, Fifo.step, hfree]
    split
    · simp
    · rename_i hlen
      have hlen' : vals.length ≤ free s := by unfold free; rw [← h.len_eq]; omega
      obtain ⟨s', e, hs'⟩ := sim_produce h vals n (ts.map ofR) hlen' hn (by
        intro t htm; obtain ⟨r, hr, rfl⟩ := List.mem_map.mp htm; exact ht r hr)
      rw [specTags_ofR] at hs'
      have hcap := produce_cap e
      rw [e]
      exact ⟨rfl, hs', hcap⟩
  | overcommit extra =>
    have : produce s (writeLen s + 1 + extra) [] = none :=
      produce_refused _ _ (by unfold writeLen; omega)
    simp [step, Fifo.step, this]
  | read =>
    simp [step, Fifo.step, window_eq h, toR_readTags h, hfree, h]
  | consume m =>
    simp only [step, Fifo.step]
    by_cases hm : q.length < m
    · have : consume s m = none := consume_refused m (by rw [← h.len_eq]; exact hm)
      simp [this, hm]
    · obtain ⟨s', e, hs'⟩ := sim_consume h m (by rw [← h.len_eq]; omega)
      have hcap := consume_cap e
      rw [e]; simp only [hm, if_false]
      exact ⟨trivial, hs', hcap⟩
  | free =>
    simp [step, Fifo.step, h, free, h.len_eq]

theorem run_sim {s : State} {q : Fifo.Q} (h : Sim s q) (ops : List Fifo.Op)
    (hv : ∀ op ∈ ops, op.Valid) : run s ops = Fifo.run s.cap q ops := by
  induction ops generalizing s q with
  | nil => rfl
  | cons op ops ih =>
    have ⟨ho, hs⟩ := step_sim h op (hv op (by simp))
    unfold run Fifo.run
    generalize hx : step s op = x at *
    generalize hy : Fifo.step s.cap q op = y at *
    obtain ⟨xs, xo⟩ := x
    obtain ⟨ys, yo⟩ := y
    simp only at ho hs
    subst ho
    cases xs <;> cases ys <;> simp only at hs ⊢
    obtain ⟨hsim, hcap⟩ := hs
    rw [ih hsim (fun o ho => hv o (by simp [ho])), hcap]

end RR.Ring

namespace RR.Ring
open RR

/-- Every state a valid program reaches is related to the FIFO the spec reaches. -/
theorem exec_sim {s : State} {q : Fifo.Q} (h : Sim s q) (ops : List Fifo.Op)
    (hv : ∀ op ∈ ops, op.Valid) {s' : State} (he : exec s ops = some s') :
    ∃ q', Sim s' q' ∧ s'.cap = s.cap := by
  induction ops generalizing s q with
  | nil => cases he; exact ⟨q, h, rfl⟩
  | cons op ops ih =>
    have ⟨_, hs⟩ := step_sim h op (hv op (by simp))
    unfold exec at he
    generalize hx : (step s op).1 = x at *
    generalize hy : (Fifo.step s.cap q op).1 = y at *
    cases x <;> cases y <;> simp only at hs he
    · cases he
    · obtain ⟨hsim, hcap⟩ := hs
      obtain ⟨q', h1, h2⟩ := ih hsim (fun o ho => hv o (by simp [ho])) he
      exact ⟨q', h1, by rw [h2, hcap]⟩

end RR.Ring
