import RR.Model.FileSink
import RR.Gen.FileSink

namespace RR.FileSink

/-- Everything is somewhere: on disk, in the writer's buffer, or still to be written. -/
def Conserved (T : List Nat) (s : St) : Prop := s.file ++ s.buffered ++ s.todo = T

theorem ev_conserved (T : List Nat) (k spill : Nat) (s : St) (e : Ev) (h : Conserved T s) :
    Conserved T (ev k spill s e) := by
  unfold Conserved at *
  cases e
  · simp only [ev]
    rw [← h]
    simp only [List.append_assoc]
    congr 1
    rw [← List.append_assoc (List.take spill _), List.take_append_drop, List.append_assoc,
      List.take_append_drop]
  · simp only [ev]; rw [← h]; simp
  · simpa [ev] using h

theorem fold_conserved (T : List Nat) (k spill : Nat) (prog : List Ev) (s : St) (h : Conserved T s) :
    Conserved T (prog.foldl (ev k spill) s) := by
  induction prog generalizing s with
  | nil => exact h
  | cons e rest ih => exact ih _ (ev_conserved T k spill s e h)

theorem conserved_prefix (T : List Nat) (s : St) (h : Conserved T s) : s.file <+: T := by
  unfold Conserved at h
  exact ⟨s.buffered ++ s.todo, by rw [← List.append_assoc]; exact h⟩

/-- State between `work()` calls: nothing buffered, and exactly what left the stream is on disk. -/
def AtReturn (s : St) : Prop := s.buffered = [] ∧ s.consumed = s.file.length

def runCalls (prog : List Ev) : St → List (Nat × Nat) → St
  | s, [] => s
  | s, (k, sp) :: rest => runCalls prog (workCall prog (min k s.todo.length) sp s) rest

theorem fileSink_call (k spill : Nat) (s : St) (h : AtReturn s) (hk : k ≤ s.todo.length) :
    AtReturn (workCall Gen.fileSinkWork k spill s) ∧
    ∀ st ∈ workStates Gen.fileSinkWork k spill s, st.consumed ≤ st.file.length := by
  obtain ⟨hb, hc⟩ := h
  have hlen : (s.todo.take k).length = k := by simp [List.length_take]; omega
  constructor
  · simp only [workCall, Gen.fileSinkWork, List.foldl_cons, List.foldl_nil, ev, hb, List.nil_append]
    refine ⟨rfl, ?_⟩
    simp only [List.length_append, List.append_assoc, List.take_append_drop, hlen, hc]
  · intro st hst
    simp only [workStates, Gen.fileSinkWork, List.length_cons, List.length_nil, List.mem_map,
      List.mem_range] at hst
    obtain ⟨j, hj, rfl⟩ := hst
    have : j = 0 ∨ j = 1 ∨ j = 2 ∨ j = 3 := by omega
    rcases this with rfl | rfl | rfl | rfl <;>
      simp [ev, hb, hc, List.length_append, List.length_take, List.length_drop] <;> omega

theorem ncFileSink_call (k spill : Nat) (s : St) (h : AtReturn s) (hk : k ≤ s.todo.length) :
    AtReturn (workCall Gen.ncFileSinkWork k spill s) := by
  obtain ⟨hb, hc⟩ := h
  have hlen : (s.todo.take k).length = k := by simp [List.length_take]; omega
  simp only [workCall, Gen.ncFileSinkWork, List.foldl_cons, List.foldl_nil, ev, hb, List.nil_append]
  refine ⟨rfl, ?_⟩
  simp only [List.length_append, List.append_assoc, List.take_append_drop, hlen, hc]

theorem runCalls_inv (prog : List Ev) (T : List Nat)
    (hstep : ∀ k spill s, AtReturn s → k ≤ s.todo.length → AtReturn (workCall prog k spill s))
    (s : St) (h1 : Conserved T s) (h2 : AtReturn s) (calls : List (Nat × Nat)) :
    Conserved T (runCalls prog s calls) ∧ AtReturn (runCalls prog s calls) := by
  induction calls generalizing s with
  | nil => exact ⟨h1, h2⟩
  | cons c rest ih =>
    obtain ⟨k, sp⟩ := c
    simp only [runCalls]
    exact ih _ (fold_conserved T _ sp prog s h1) (hstep _ sp s h2 (Nat.min_le_right _ _))

end RR.FileSink
