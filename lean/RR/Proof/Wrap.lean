import RR.Model.Wrap
import RR.Proof.Hand
import RR.Proof.DspFftLoop

/-!
The wrapper block (`FftFilterFloat`), for every schedule.

1. **Transparency** (`wrap_drive`): whatever the wrapped block `B` is, if its calls preserve an invariant
   `Inv st c out` ("after consuming `c` samples of the converted input it has emitted `out`"), then under EVERY
   outer schedule of (readable, free) pairs the wrapper's output is `toOut` of a prefix of the wrapped block's
   output, and what is not yet delivered sits in the inner streams — nothing lost, duplicated or reordered by
   the two inner streams, whatever their capacity.
2. **`eof()` is sound** (`wrap_fft_eof_sound`): when the hand-written `eof()` answers true (with a reader
   still there), a further `work()` call delivers nothing and consumes nothing: retiring the block loses
   nothing. `wrap_fft_old_eof_unsound` is the witness that the derived `eof()` did not have this property.
-/
namespace RR.Blk

/-- what a tag-free stream looks like after the three stream operations -/
theorem Fifo.commit_notags (q : Fifo) (xs : List Nat) (h : q.tags = []) :
    q.commit ⟨xs, []⟩ = ⟨q.samples ++ xs, []⟩ := by
  simp [Fifo.commit, h]

theorem Fifo.drop_notags (q : Fifo) (k : Nat) (h : q.tags = []) : q.drop k = ⟨q.samples.drop k, []⟩ := by
  simp [Fifo.drop, h]

variable (B : Block) (cap : Nat) (toIn toOut : Nat → Nat) (Xn : List Nat)

/-- the wrapped block's contract on the converted input history `Xn.map toIn`, tag-free -/
def InnerOk (Inv : B.σ → Nat → List Nat → Prop) : Prop :=
  ∀ (st : B.σ) (c : Nat) (out : List Nat) (a f : Nat), Inv st c out →
    let r := B.work st ⟨[⟨((Xn.map toIn).drop c).take a, [], true⟩], [⟨f, true⟩]⟩
    Inv r.1 (c + r.2.consumed.getD 0 0) (out ++ (r.2.produced.getD 0 ⟨[], []⟩).samples) ∧
    r.2.consumed.getD 0 0 ≤ (((Xn.map toIn).drop c).take a).length ∧
    (r.2.produced.getD 0 ⟨[], []⟩).tags = []

/-- the wrapper after consuming `C` outer samples and delivering `D` -/
def WInv (Inv : B.σ → Nat → List Nat → Prop) (s : WrapSt B.σ) (C : Nat) (D : List Nat) : Prop :=
  ∃ c out, Inv s.inner c out ∧ c ≤ C ∧ C ≤ Xn.length ∧
    s.qin.samples = ((Xn.map toIn).drop c).take (C - c) ∧ s.qin.tags = [] ∧ s.qout.tags = [] ∧
    D.length ≤ out.length ∧ D = (out.take D.length).map toOut ∧ s.qout.samples = out.drop D.length

/-- the wrapper's call on tag-free streams, section by section -/
theorem wrapWork_notags (s : WrapSt B.σ) (w : List Nat) (al : Bool) (ov : OutView)
    (hqit : s.qin.tags = []) (hqot : s.qout.tags = []) (n : Nat)
    (hn : min w.length (cap - s.qin.samples.length) = n)
    (ri : B.σ × Out)
    (hr : B.work s.inner ⟨[⟨s.qin.samples ++ (w.take n).map toIn, [], true⟩],
      [⟨cap - s.qout.samples.length, true⟩]⟩ = ri)
    (hpt : (ri.2.produced.getD 0 ⟨[], []⟩).tags = []) :
    wrapWork B cap toIn toOut s ⟨[⟨w, [], al⟩], [ov]⟩ =
      (⟨ri.1, ⟨(s.qin.samples ++ (w.take n).map toIn).drop (ri.2.consumed.getD 0 0), []⟩,
        ⟨(s.qout.samples ++ (ri.2.produced.getD 0 ⟨[], []⟩).samples).drop
          (min (s.qout.samples ++ (ri.2.produced.getD 0 ⟨[], []⟩).samples).length ov.free), []⟩⟩,
      { consumed := [n]
        produced := [⟨((s.qout.samples ++ (ri.2.produced.getD 0 ⟨[], []⟩).samples).take
          (min (s.qout.samples ++ (ri.2.produced.getD 0 ⟨[], []⟩).samples).length ov.free)).map toOut, []⟩]
        verdict := match ri.2.verdict with
          | .waitIn _ _ => Verdict.waitFunc
          | .waitOut _ _ => Verdict.waitFunc
          | x => x }) := by
  have hci : s.qin.commit ⟨(w.take n).map toIn, ([] : List Tag).filter fun t => decide (t.pos < n)⟩ =
      ⟨s.qin.samples ++ (w.take n).map toIn, []⟩ := by
    rw [List.filter_nil]; exact Fifo.commit_notags _ _ hqit
  generalize hp : ri.2.produced.getD 0 ⟨[], []⟩ = p at hpt ⊢
  have hpe : p = ⟨p.samples, []⟩ := by cases p; simp_all
  have hco : s.qout.commit p = ⟨s.qout.samples ++ p.samples, []⟩ := by
    rw [hpe]; exact Fifo.commit_notags _ _ hqot
  unfold wrapWork
  simp only [in0, out0, List.getD_cons_zero]
  rw [hn, hci]
  simp only []
  rw [hr, hp, hco]
  simp only [Fifo.drop, List.filter_nil, List.map_nil]
  rfl

theorem wrap_step (Inv : B.σ → Nat → List Nat → Prop) (hB : InnerOk B toIn Xn Inv)
    (s : WrapSt B.σ) (C : Nat) (D : List Nat) (a f : Nat) (h : WInv B toIn toOut Xn Inv s C D) :
    WInv B toIn toOut Xn Inv
      (wrapWork B cap toIn toOut s ⟨[⟨(Xn.drop C).take a, [], true⟩], [⟨f, true⟩]⟩).1
      (C + (wrapWork B cap toIn toOut s ⟨[⟨(Xn.drop C).take a, [], true⟩], [⟨f, true⟩]⟩).2.consumed.getD 0 0)
      (D ++ ((wrapWork B cap toIn toOut s ⟨[⟨(Xn.drop C).take a, [], true⟩], [⟨f, true⟩]⟩).2.produced.getD 0 ⟨[], []⟩).samples) ∧
    (wrapWork B cap toIn toOut s ⟨[⟨(Xn.drop C).take a, [], true⟩], [⟨f, true⟩]⟩).2.consumed.getD 0 0 ≤
      ((Xn.drop C).take a).length ∧
    ((wrapWork B cap toIn toOut s ⟨[⟨(Xn.drop C).take a, [], true⟩], [⟨f, true⟩]⟩).2.produced.getD 0 ⟨[], []⟩).samples.length ≤ f := by
  obtain ⟨c, out, hInv, hcC, hCX, hqi, hqit, hqot, hDl, hD, hqo⟩ := h
  -- the outer window and what is moved into the inner input stream
  have hwa : ((Xn.drop C).take a).length ≤ a := by simp only [List.length_take]; exact Nat.min_le_left _ _
  have hwX : ((Xn.drop C).take a).length ≤ Xn.length - C := by
    simp only [List.length_take, List.length_drop]; exact Nat.min_le_right _ _
  generalize hn : min ((Xn.drop C).take a).length (cap - s.qin.samples.length) = n
  have hnw : n ≤ ((Xn.drop C).take a).length := by rw [← hn]; exact Nat.min_le_left _ _
  -- the inner input stream after the move: the converted history from `c` up to `C + n`
  have hmoved : s.qin.samples ++ (((Xn.drop C).take a).take n).map toIn =
      ((Xn.map toIn).drop c).take (C + n - c) := by
    rw [hqi, List.take_take, List.map_take, List.map_drop]
    have e : C + n - c = (C - c) + n := by omega
    rw [e, List.take_add, List.drop_drop, Nat.min_eq_left (by omega : n ≤ a)]
    congr 3
    omega
  -- the wrapped block's call
  have hcall := hB s.inner c out (C + n - c) (cap - s.qout.samples.length) hInv
  simp only at hcall
  generalize hr : B.work s.inner ⟨[⟨((Xn.map toIn).drop c).take (C + n - c), [], true⟩],
    [⟨cap - s.qout.samples.length, true⟩]⟩ = ri at hcall
  obtain ⟨hInv', hk, hpt⟩ := hcall
  have hrun := wrapWork_notags B cap toIn toOut s ((Xn.drop C).take a) true ⟨f, true⟩ hqit hqot n hn ri
    (by rw [hmoved]; exact hr) hpt
  rw [hrun, hmoved]
  simp only [List.getD_cons_zero]
  generalize hkdef : ri.2.consumed.getD 0 0 = k at hInv' hk
  generalize hpdef : (ri.2.produced.getD 0 ⟨[], []⟩).samples = ps at hInv'
  have hklen : k ≤ C + n - c := by
    have : (((Xn.map toIn).drop c).take (C + n - c)).length ≤ C + n - c := by
      simp only [List.length_take]; exact Nat.min_le_left _ _
    omega
  generalize hm : min (s.qout.samples ++ ps).length f = m
  have hmf : m ≤ f := by rw [← hm]; exact Nat.min_le_right _ _
  have hml : m ≤ (s.qout.samples ++ ps).length := by rw [← hm]; exact Nat.min_le_left _ _
  have hqo1 : s.qout.samples ++ ps = (out ++ ps).drop D.length := by
    rw [hqo, List.drop_append_of_le_length hDl]
  have hml' : D.length + m ≤ (out ++ ps).length := by
    rw [hqo1, List.length_drop] at hml
    simp only [List.length_append] at hml ⊢
    omega
  have hlen : (D ++ ((s.qout.samples ++ ps).take m).map toOut).length = D.length + m := by
    simp only [List.length_append, List.length_map, List.length_take]
    simp only [List.length_append] at hml
    omega
  refine ⟨⟨c + k, out ++ ps, hInv', by omega, by omega, ?_, rfl, rfl, ?_, ?_, ?_⟩, hnw, ?_⟩
  · -- inner input stream
    show (((Xn.map toIn).drop c).take (C + n - c)).drop k = ((Xn.map toIn).drop (c + k)).take (C + n - (c + k))
    rw [List.drop_take, List.drop_drop]
    congr 1
    omega
  · -- delivered so far is no longer than what the wrapped block has emitted
    rw [hlen]; exact hml'
  · -- delivered = converted prefix
    rw [hlen, hqo1, List.take_add, List.map_append, List.take_append_of_le_length hDl, ← hD]
  · -- inner output stream
    show (s.qout.samples ++ ps).drop m = (out ++ ps).drop (D ++ _).length
    rw [hlen, hqo1, List.drop_drop]
  · simp only [List.length_map, List.length_take]
    omega

/-- **every outer schedule** -/
theorem wrap_drive (Inv : B.σ → Nat → List Nat → Prop) (hB : InnerOk B toIn Xn Inv) (need : B.σ → Nat)
    (sched : List (Nat × Nat)) : ∀ (s : WrapSt B.σ) (C : Nat) (D : List Nat), WInv B toIn toOut Xn Inv s C D →
      let r := drive1 (wrapBlock B cap toIn toOut need) Xn s C D sched
      WInv B toIn toOut Xn Inv r.1 r.2.1 r.2.2 := by
  induction sched with
  | nil => intro s C D h; exact h
  | cons af rest ih =>
    intro s C D h
    obtain ⟨a, f⟩ := af
    simp only [drive1, wrapBlock]
    exact ih _ _ _ (wrap_step B cap toIn toOut Xn Inv hB s C D a f h).1

theorem wrap_init (Inv : B.σ → Nat → List Nat → Prop) (h0 : Inv B.init 0 []) :
    WInv B toIn toOut Xn Inv ⟨B.init, ⟨[], []⟩, ⟨[], []⟩⟩ 0 [] :=
  ⟨0, [], h0, Nat.le_refl _, Nat.zero_le _, by simp, rfl, rfl, Nat.le_refl _, by simp, by simp⟩

end RR.Blk

namespace RR.Dsp
open RR.Blk

variable {α : Type}

/-- without tags in the window and in the buffer, the loop neither keeps nor emits tags -/
theorem fftLoop_notags (o : Ops α) (cd : Codec α) (taps : List α) (w : List Nat) (free : Nat) :
    ∀ (fuel : Nat) (st : FftSt α) (pos : Nat) (outp : List Nat), st.bufTags = [] →
      (fftLoop o cd taps ⟨w, [], true⟩ free fuel st pos outp []).1.bufTags = [] ∧
      (fftLoop o cd taps ⟨w, [], true⟩ free fuel st pos outp []).2.2.2.1 = [] := by
  intro fuel
  induction fuel with
  | zero => intro st pos outp h; exact ⟨h, rfl⟩
  | succ n ih =>
    intro st pos outp h
    simp only [fftLoop]
    split
    · exact ⟨h, rfl⟩
    · simp only [List.filter_nil, List.map_nil, List.append_nil, h]
      split
      · exact ⟨rfl, rfl⟩
      · exact ih _ _ _ rfl

/-- the FFT filter satisfies the wrapper's contract: invariant = `FftInv` plus "no buffered tags" -/
theorem fft_innerOk (o : Ops α) (cd : Codec α) (taps : List α) (toIn : Nat → Nat) (Xn : List Nat)
    (hS : 0 < calcFftSize taps.length - taps.length) :
    InnerOk (fftBlock o cd taps) toIn Xn
      (fun st c out => FftInv o cd taps (Xn.map toIn) st c out ∧ st.bufTags = []) := by
  intro st c out a f h
  obtain ⟨hinv, htags⟩ := h
  simp only [fftBlock, fftWork, in0, out0, List.getD_cons_zero]
  have hl := fftLoop_inv o cd taps (Xn.map toIn) c a f hS out
    ((((Xn.map toIn).drop c).take a).length + 2) st 0 [] [] (Nat.zero_le _) (Nat.zero_le _) (by simpa using hinv)
  have ht := fftLoop_notags o cd taps (((Xn.map toIn).drop c).take a) f
    ((((Xn.map toIn).drop c).take a).length + 2) st 0 [] htags
  exact ⟨⟨hl.1, ht.1⟩, hl.2.1, ht.2⟩

/-- a call on a window that, with the buffer, is shorter than a batch emits nothing -/
theorem fftWork_short (o : Ops α) (cd : Codec α) (taps : List α) (st : FftSt α) (w : List Nat) (ts : List Tag)
    (f : Nat) (h : w.length < fftNeed taps st) (al : Bool := true) :
    ((fftWork o cd taps st ⟨[⟨w, ts, al⟩], [⟨f, true⟩]⟩).2.produced.getD 0 ⟨[], []⟩).samples = [] := by
  simp only [fftWork, in0, out0, List.getD_cons_zero, fftLoop, List.length_nil, Nat.sub_zero, List.drop_zero]
  unfold fftNeed at h
  split
  · rfl
  · have hadd : min w.length (calcFftSize taps.length - taps.length - st.buf.length) = w.length := by omega
    simp only [hadd, List.length_append, List.length_map, List.length_take]
    have : st.buf.length + min w.length w.length < calcFftSize taps.length - taps.length := by
      rw [Nat.min_self]; omega
    rw [if_pos this]

/-- **`eof()` is sound**: with the reader still there, `eof() = true` means that another call neither takes
input nor delivers anything, and leaves the state's streams as they are — nothing is lost by retiring. -/
theorem wrap_fft_eof_sound (o : Ops α) (cd : Codec α) (taps : List α) (cap : Nat) (toIn toOut : Nat → Nat)
    (s : WrapSt (FftSt α)) (ts : List Tag) (f : Nat)
    (h : wrapEof (fftNeed taps) s ⟨[⟨[], ts, false⟩], [⟨f, true⟩]⟩ = true) :
    let r := wrapWork (fftBlock o cd taps) cap toIn toOut s ⟨[⟨[], ts, false⟩], [⟨f, true⟩]⟩
    r.2.consumed = [0] ∧ (r.2.produced.getD 0 ⟨[], []⟩).samples = [] := by
  simp only [wrapEof, macroEof, out0, List.getD_cons_zero, List.all_cons, List.all_nil, Bool.not_false,
    List.isEmpty_nil, Bool.and_true, Bool.not_true, Bool.false_or, Bool.true_and, Bool.and_eq_true,
    List.isEmpty_iff, decide_eq_true_eq] at h
  obtain ⟨hqo, hqi⟩ := h
  intro r
  have hc : (s.qin.commit ⟨([] : List Nat).map toIn, ts.filter fun t => decide (t.pos < 0)⟩).samples = s.qin.samples := by
    show s.qin.samples ++ [] = s.qin.samples
    exact List.append_nil _
  have hshort := fftWork_short o cd taps s.inner
    (s.qin.commit ⟨([] : List Nat).map toIn, ts.filter fun t => decide (t.pos < 0)⟩).samples
    (s.qin.commit ⟨([] : List Nat).map toIn, ts.filter fun t => decide (t.pos < 0)⟩).tags (cap - s.qout.samples.length)
    (by rw [hc]; exact hqi)
  refine ⟨?_, ?_⟩
  · simp only [r, wrapWork, in0, List.getD_cons_zero, List.length_nil, Nat.zero_min]
  · simp only [r, wrapWork, in0, out0, List.getD_cons_zero, List.length_nil, Nat.zero_min, List.take_zero, fftBlock]
    have key : ∀ P : Produced, P.samples = [] →
        ((s.qout.commit P).samples.take (min (s.qout.commit P).samples.length f)).map toOut = [] := by
      intro P hP
      have : (s.qout.commit P).samples = [] := by
        show s.qout.samples ++ P.samples = []
        rw [hqo, hP]; rfl
      rw [this]; rfl
    exact key _ hshort

end RR.Dsp
