import RR.Proof.DspAlg

/-!
Overlap-add (`FftFilter`): batches of `S = N - L` samples, zero padded to the
FFT size `N = calc_fft_size(L)`, cyclically convolved with the `L` taps, the
last `L` outputs carried into the next batch. Over a commutative ring the
concatenated output is the linear convolution of the whole input with zero
pre-history.
-/
namespace RR.Dsp
open Finset
variable {R : Type} [CommRing R]

/-! ### `calc_fft_size` -/

theorem pow2Ge_ge : (fuel n from_ : ℕ) → 0 < n → from_ ≤ n * 2 ^ fuel → from_ ≤ pow2Ge fuel n from_
  | 0, n, from_, _, h => by simpa [pow2Ge] using h
  | fuel + 1, n, from_, hn, h => by
    unfold pow2Ge
    split
    · exact pow2Ge_ge fuel (2 * n) from_ (by omega) (by rw [Nat.pow_succ] at h; nlinarith)
    · omega

/-- the batch size is at least the tap count: `2 * L ≤ calc_fft_size L` -/
theorem calcFftSize_ge (L : ℕ) : 2 * L ≤ calcFftSize L := by
  unfold calcFftSize
  have := pow2Ge_ge L 1 L (by omega) (by simpa using (Nat.lt_two_pow_self (n := L)).le)
  omega

theorem pow2Ge_pow2 : (fuel n from_ : ℕ) → (∃ e, n = 2 ^ e) → ∃ e, pow2Ge fuel n from_ = 2 ^ e
  | 0, n, _, h => by simpa [pow2Ge] using h
  | fuel + 1, n, from_, ⟨e, he⟩ => by
    unfold pow2Ge
    split
    · exact pow2Ge_pow2 fuel (2 * n) from_ ⟨e + 1, by rw [he, Nat.pow_succ]; ring⟩
    · exact ⟨e, he⟩

/-- the FFT size is a power of two -/
theorem calcFftSize_pow2 (L : ℕ) : ∃ e, calcFftSize L = 2 ^ e := by
  obtain ⟨e, he⟩ := pow2Ge_pow2 L 1 L ⟨0, rfl⟩
  exact ⟨e + 1, by unfold calcFftSize; rw [he, Nat.pow_succ]; ring⟩

/-! ### list plumbing -/

theorem getD_map_range (f : ℕ → R) (N n : ℕ) (h : n < N) : ((List.range N).map f).getD n 0 = f n := by
  simp [List.getD_eq_getElem?_getD, h]

theorem getD_of_le (l : List R) (j : ℕ) (h : l.length ≤ j) : l.getD j 0 = 0 := by
  simp [List.getD_eq_getElem?_getD, List.getElem?_eq_none h]

theorem getD_append_replicate (l : List R) (m j : ℕ) : (l ++ List.replicate m 0).getD j 0 = l.getD j 0 := by
  by_cases h : j < l.length
  · simp [List.getD_eq_getElem?_getD, List.getElem?_append_left h]
  · rw [getD_of_le l j (by omega), List.getD_eq_getElem?_getD, List.getElem?_append_right (by omega),
      List.getElem?_replicate]
    split <;> rfl

theorem getD_take (l : List R) (S j : ℕ) : (l.take S).getD j 0 = if j < S then l.getD j 0 else 0 := by
  simp only [List.getD_eq_getElem?_getD, List.getElem?_take]
  split <;> rfl

theorem list_eq_map_range (l : List R) (n : ℕ) (f : ℕ → R) (hl : l.length = n)
    (h : ∀ i, i < n → l.getD i 0 = f i) : l = (List.range n).map f := by
  apply List.ext_getElem
  · simp [hl]
  · intro i h1 h2
    have := h i (by omega)
    simp only [List.getD_eq_getElem?_getD, List.getElem?_eq_getElem h1, Option.getD_some] at this
    simp [this]

/-! ### one batch -/

theorem cyclic_getD (N : ℕ) (taps buf : List R) (n : ℕ) (h : n < N) :
    (cyclic (ringOps R) N taps buf).getD n 0 =
      ∑ k ∈ range N, buf.getD ((n + N - k) % N) 0 * taps.getD k 0 := by
  unfold cyclic
  simp only [ringOps]
  rw [getD_map_range _ _ _ h, foldl_add, zero_add, sum_map_range]

/-- The cyclic convolution of a batch that fills only the first `S = N - L`
slots does not wrap: it is the batch's own linear convolution. -/
theorem cyclic_batch (taps X : List R) (N S b n : ℕ) (buf : List R)
    (hN : N = S + taps.length) (hn : n < N)
    (hbuf : ∀ j, buf.getD j 0 = if j < S then X.getD (b * S + j) 0 else 0) :
    (cyclic (ringOps R) N taps buf).getD n 0 =
      ∑ k ∈ range taps.length,
        if k ≤ n then (if n - k < S then taps.getD k 0 * X.getD (b * S + (n - k)) 0 else 0) else 0 := by
  rw [cyclic_getD N taps buf n hn]
  have hsplit : N = taps.length + S := by omega
  rw [hsplit, Finset.sum_range_add]
  have hz : ∑ x ∈ range S, buf.getD ((n + (taps.length + S) - (taps.length + x)) % (taps.length + S)) 0 *
      taps.getD (taps.length + x) 0 = 0 := by
    apply Finset.sum_eq_zero
    intro x _
    rw [getD_of_le taps _ (by omega), mul_zero]
  rw [hz, add_zero]
  apply Finset.sum_congr rfl
  intro k hk
  have hk' : k < taps.length := Finset.mem_range.mp hk
  by_cases hkn : k ≤ n
  · have e : (n + (taps.length + S) - k) % (taps.length + S) = n - k := by
      have : n + (taps.length + S) - k = (taps.length + S) + (n - k) := by omega
      rw [this, Nat.add_mod_left, Nat.mod_eq_of_lt (by omega)]
    rw [e, hbuf, if_pos hkn]
    split
    · ring
    · ring
  · have e : (n + (taps.length + S) - k) % (taps.length + S) = n + (taps.length + S) - k :=
      Nat.mod_eq_of_lt (by omega)
    rw [e, hbuf, if_neg hkn, if_neg (by omega), zero_mul]

/-- what the carried tail holds before batch `b`: the part of the convolution
at `b*S + i` that comes from samples of earlier batches -/
def tailSpec (taps X : List R) (S b i : ℕ) : R :=
  ∑ k ∈ range taps.length, if i < k ∧ k ≤ b * S + i then taps.getD k 0 * X.getD (b * S + i - k) 0 else 0

theorem tailSpec_zero (taps X : List R) (S b i : ℕ) (h : taps.length ≤ i) : tailSpec taps X S b i = 0 := by
  unfold tailSpec
  apply Finset.sum_eq_zero
  intro k hk
  have : k < taps.length := Finset.mem_range.mp hk
  rw [if_neg (by omega)]

/-- **One overlap-add batch.** -/
theorem ola_step (taps X tail : List R) (b : ℕ) (ht : 0 < taps.length)
    (hX : (b + 1) * (calcFftSize taps.length - taps.length) ≤ X.length)
    (htail : ∀ i, i < taps.length → tail.getD i 0 = tailSpec taps X (calcFftSize taps.length - taps.length) b i) :
    let S := calcFftSize taps.length - taps.length
    let r := fftBatch (ringOps R) taps ((X.drop (b * S)).take S) tail
    r.1 = (List.range S).map (fun i => convAt taps X (b * S + i)) ∧
    r.2.length = taps.length ∧
    ∀ i, i < taps.length → r.2.getD i 0 = tailSpec taps X S (b + 1) i := by
  intro S r
  have hge := calcFftSize_ge taps.length
  have hSL : taps.length ≤ S := by omega
  have hN : calcFftSize taps.length = S + taps.length := by omega
  have hb1 : (b + 1) * S = b * S + S := Nat.succ_mul b S
  have hbuflen : ((X.drop (b * S)).take S).length = S := by
    rw [List.length_take, List.length_drop]
    have : (b + 1) * S ≤ X.length := hX
    omega
  -- the padded buffer
  have hbuf : ∀ j, (List.take S (List.drop (b * S) X) ++
      List.replicate (calcFftSize taps.length - (List.take S (List.drop (b * S) X)).length) 0).getD j 0 =
      if j < S then X.getD (b * S + j) 0 else 0 := by
    intro j
    rw [getD_append_replicate, getD_take, getD_drop]
  have hcyc := fun n (hn : n < calcFftSize taps.length) =>
    cyclic_batch taps X (calcFftSize taps.length) S b n _ hN hn hbuf
  -- the full buffer after adding the tail
  have hfull : ∀ n, n < calcFftSize taps.length →
      ((List.range (calcFftSize taps.length)).map fun i =>
        if i < taps.length then
          (cyclic (ringOps R) (calcFftSize taps.length) taps
            (List.take S (List.drop (b * S) X) ++
              List.replicate (calcFftSize taps.length - (List.take S (List.drop (b * S) X)).length) 0)).getD i 0 +
            tail.getD i 0
        else
          (cyclic (ringOps R) (calcFftSize taps.length) taps
            (List.take S (List.drop (b * S) X) ++
              List.replicate (calcFftSize taps.length - (List.take S (List.drop (b * S) X)).length) 0)).getD i 0).getD n 0 =
      (∑ k ∈ range taps.length,
        if k ≤ n then (if n - k < S then taps.getD k 0 * X.getD (b * S + (n - k)) 0 else 0) else 0) +
      (if n < taps.length then tailSpec taps X S b n else 0) := by
    intro n hn
    rw [getD_map_range _ _ _ hn]
    split
    · rename_i hnl
      rw [hcyc n hn, htail n hnl]
    · rw [hcyc n hn, add_zero]
  simp only [ringOps] at hfull
  refine ⟨?_, ?_, ?_⟩
  · -- the S outputs
    apply list_eq_map_range
    · simp only [r, fftBatch, ringOps, List.length_take, List.length_map, List.length_range]
      omega
    · intro i hi
      simp only [r, fftBatch, ringOps]
      rw [getD_take, if_pos hi, hfull i (by omega)]
      have ht0 : (if i < taps.length then tailSpec taps X S b i else 0) = tailSpec taps X S b i := by
        split
        · rfl
        · rw [tailSpec_zero]; omega
      rw [ht0]
      unfold tailSpec convAt
      rw [← Finset.sum_add_distrib]
      apply Finset.sum_congr rfl
      intro k hk
      have hk' : k < taps.length := Finset.mem_range.mp hk
      by_cases hki : k ≤ i
      · rw [if_pos hki, if_pos (by omega), if_neg (by omega), if_pos (by omega), add_zero]
        congr 2
        omega
      · rw [if_neg hki, zero_add]
        by_cases hkb : k ≤ b * S + i
        · rw [if_pos ⟨by omega, hkb⟩, if_pos hkb]
        · rw [if_neg (by omega), if_neg hkb]
  · simp [r, fftBatch]
  · intro i hi
    simp only [r, fftBatch, ringOps]
    rw [getD_map_range _ _ _ hi, hfull (S + i) (by omega), if_neg (by omega), add_zero]
    unfold tailSpec
    apply Finset.sum_congr rfl
    intro k hk
    have hk' : k < taps.length := Finset.mem_range.mp hk
    rw [if_pos (by omega)]
    by_cases hik : i < k
    · rw [if_pos (by omega), if_pos ⟨hik, by omega⟩]
      congr 2
      omega
    · rw [if_neg (by omega), if_neg (by omega)]

/-- **Overlap-add = linear convolution.** `B` batches starting at batch `b`
with the right carried tail produce `convAt taps X` at positions
`b*S … (b+B)*S - 1`. -/
theorem ola_run (taps X : List R) (ht : 0 < taps.length) (B b : ℕ) (tail : List R)
    (hX : (b + B) * (calcFftSize taps.length - taps.length) ≤ X.length)
    (htail : ∀ i, i < taps.length → tail.getD i 0 = tailSpec taps X (calcFftSize taps.length - taps.length) b i) :
    olaRun (ringOps R) taps (calcFftSize taps.length - taps.length) X B b tail =
      (List.range (B * (calcFftSize taps.length - taps.length))).map
        (fun i => convAt taps X (b * (calcFftSize taps.length - taps.length) + i)) := by
  induction B generalizing b tail with
  | zero => simp [olaRun]
  | succ B ih =>
    have hX1 : (b + 1) * (calcFftSize taps.length - taps.length) ≤ X.length := by
      have : (b + 1) * (calcFftSize taps.length - taps.length) ≤ (b + (B + 1)) * (calcFftSize taps.length - taps.length) :=
        Nat.mul_le_mul_right _ (by omega)
      omega
    obtain ⟨h1, _, h3⟩ := ola_step taps X tail b ht hX1 htail
    unfold olaRun
    simp only
    rw [h1, ih (b + 1) _ (by rw [show b + 1 + B = b + (B + 1) by omega]; exact hX) h3]
    rw [show (B + 1) * (calcFftSize taps.length - taps.length) =
        (calcFftSize taps.length - taps.length) + B * (calcFftSize taps.length - taps.length) by
      rw [Nat.succ_mul, Nat.add_comm]]
    rw [List.range_add, List.map_append, List.map_map]
    congr 1
    apply List.map_congr_left
    intro i _
    simp only [Function.comp]
    congr 1
    rw [Nat.succ_mul]
    omega

/-- The initial tail (all zeros) is the right carried tail for batch 0. -/
theorem tail_init (taps X : List R) (S i : ℕ) :
    (List.replicate taps.length (0 : R)).getD i 0 = tailSpec taps X S 0 i := by
  have : (List.replicate taps.length (0 : R)).getD i 0 = 0 := by
    rw [List.getD_eq_getElem?_getD, List.getElem?_replicate]
    split <;> rfl
  rw [this]
  unfold tailSpec
  symm
  apply Finset.sum_eq_zero
  intro k _
  rw [if_neg (by omega)]

end RR.Dsp
