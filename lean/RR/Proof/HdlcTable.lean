import RR.Model.Hdlc
import RR.Spec.Hdlc

namespace RR.Hdlc
open RR RR.HdlcSpec

/-! ### The CRC table is the polynomial division -/

/-- all `i < n*n` satisfy `p`, evaluated as an `n × n` grid (keeps kernel recursion shallow) -/
def allGrid (n : Nat) (p : Nat → Bool) : Bool :=
  (List.range n).all fun a => (List.range n).all fun b => p (a * n + b)

theorem allGrid_spec (n : Nat) (p : Nat → Bool) (h : allGrid n p = true) (i : Nat) (hi : i < n * n) :
    p i = true := by
  have hn : 0 < n := by
    rcases Nat.eq_zero_or_pos n with rfl | h0
    · simp at hi
    · exact h0
  unfold allGrid at h
  rw [List.all_eq_true] at h
  have ha := h (i / n) (List.mem_range.mpr (by
    exact Nat.div_lt_of_lt_mul (by rw [Nat.mul_comm]; exact hi)))
  rw [List.all_eq_true] at ha
  have hb := ha (i % n) (List.mem_range.mpr (Nat.mod_lt _ hn))
  rwa [Nat.mul_comm, Nat.div_add_mod] at hb

theorem grid_entries : allGrid 16 (fun i => tab i == crcStep8 i) = true := by decide +kernel

theorem grid_step :
    allGrid 256 (fun x => ((x >>> 8) ^^^ tab (x &&& 0xff)) == crcStep8 x) = true := by decide +kernel

/-- Every table entry is eight division steps of its index (the 256 remainders
of the reflected polynomial `0x8408`). -/
theorem table_entries (i : Nat) (hi : i < 256) : tab i = crcStep8 i :=
  eq_of_beq (allGrid_spec 16 _ grid_entries i hi)

/-- One table-driven step equals eight bit-serial steps, for every 16-bit register value. -/
theorem table_step (x : Nat) (hx : x < 65536) : (x >>> 8) ^^^ tab (x &&& 0xff) = crcStep8 x :=
  eq_of_beq (allGrid_spec 256 _ grid_step x hx)

end RR.Hdlc

namespace RR.Hdlc
open RR RR.HdlcSpec

theorem crcStep_lt (x : Nat) (h : x < 65536) : crcStep x < 65536 := by
  unfold crcStep
  have h1 : x >>> 1 < 2 ^ 16 := by rw [Nat.shiftRight_eq_div_pow]; omega
  split
  · exact Nat.xor_lt_two_pow h1 (by decide)
  · omega

theorem crcStep8_lt (x : Nat) (h : x < 65536) : crcStep8 x < 65536 := by
  unfold crcStep8
  repeat apply crcStep_lt
  exact h

/-- The table-driven `calc_crc` of the source computes CRC-16/X.25 (polynomial
division, bit by bit) on every byte string. -/
theorem calcCrc_eq_bitwise (data : List Nat) (hb : ∀ b ∈ data, b < 256) :
    calcCrc data = crcBitwise data := by
  unfold calcCrc crcBitwise
  have hinit : Gen.crcInit = 0xffff := by decide
  have hxor : Gen.crcXorOut = 0xffff := by decide
  rw [hinit, hxor]
  congr 1
  suffices ∀ fcs, fcs < 65536 →
      data.foldl (fun fcs byte => (fcs >>> 8) ^^^ tab ((fcs ^^^ byte) &&& 0xff)) fcs =
      data.foldl (fun fcs byte => crcStep8 (fcs ^^^ byte)) fcs from this _ (by decide)
  induction data with
  | nil => intro fcs _; rfl
  | cons b rest ih =>
    intro fcs hf
    have hb0 : b < 256 := hb b (by simp)
    have hx : fcs ^^^ b < 65536 := Nat.xor_lt_two_pow (n := 16) hf (by omega)
    simp only [List.foldl_cons]
    -- (fcs >>> 8) ^^^ tab ((fcs ^^^ b) &&& 0xff) = crcStep8 (fcs ^^^ b)
    have e : (fcs >>> 8) = ((fcs ^^^ b) >>> 8) := by
      rw [Nat.shiftRight_xor_distrib]
      have : b >>> 8 = 0 := by rw [Nat.shiftRight_eq_div_pow]; omega
      simp [this]
    rw [e, table_step _ hx]
    exact ih (fun x hx' => hb x (by simp [hx'])) _ (crcStep8_lt _ hx)

end RR.Hdlc
