import RR.Proof.Resampler
import Mathlib.Tactic.Linarith
import Mathlib.Tactic.Ring

/-!
Closed form of the reference resampler: output sample `j` is input sample
`⌊j·D/I⌋`, and `⌈n·I/D⌉` samples come out of `n` — stated without division:
`j` belongs to input `k` iff `k·I ≤ j·D < (k+1)·I`.
-/
namespace RR.Blk

/-- all copies of one sample: `n` of them with `(n-1)·D < c ≤ n·D` (none if `c ≤ 0`) -/
theorem emitAll_spec (D : Int) (hD : 0 < D) (s : Nat) : ∀ (fuel : Nat) (c : Int), c.toNat + 1 ≤ fuel →
    ∃ n : Nat, (emitAll D s fuel c).2 = List.replicate n s ∧ (emitAll D s fuel c).1 = c - n * D ∧
      c ≤ n * D ∧ (0 < c → ((n : Int) - 1) * D < c) ∧ (c ≤ 0 → n = 0) := by
  intro fuel
  induction fuel with
  | zero => intro c h; omega
  | succ f ih =>
    intro c h
    simp only [emitAll]
    by_cases hc : c > 0
    · rw [if_pos hc]
      obtain ⟨n, h1, h2, h3, h4, h5⟩ := ih (c - D) (by omega)
      refine ⟨n + 1, by simp [h1, List.replicate_succ], ?_, ?_, ?_, by intro h; omega⟩
      · simp only [h2]; push_cast; ring
      · push_cast; linarith
      · intro _
        push_cast
        by_cases hcd : 0 < c - D
        · have := h4 hcd; linarith
        · have : n = 0 := h5 (by omega)
          subst this
          simp
          exact hc
    · rw [if_neg hc]
      exact ⟨0, by simp, by simp, by simpa using (by omega : c ≤ 0), by intro h; omega, by intro _; rfl⟩

/-- **Closed form.** Starting with counter `c ∈ (-D, 0]`: output position `j` carries input
sample `k` whenever `k·I + c ≤ j·D < (k+1)·I + c`. -/
theorem resRef_index (I D : Int) (hI : 0 < I) (hD : 0 < D) (X : List Nat) :
    ∀ (c : Int), -D < c → c ≤ 0 → ∀ (j k : Nat), k < X.length →
      (k : Int) * I + c ≤ j * D → (j : Int) * D < (k + 1) * I + c →
      (resRef I D c X)[j]? = X[k]? := by
  induction X with
  | nil => intro c _ _ j k hk; simp at hk
  | cons s rest ih =>
    intro c hc1 hc2 j k hk h1 h2
    obtain ⟨n, e1, e2, e3, e4, e5⟩ := emitAll_spec D hD s ((c + I).toNat + 1) (c + I) (by omega)
    simp only [resRef]
    rw [e1, e2]
    cases k with
    | zero =>
      -- j < n
      have hjn : j < n := by
        by_contra hcon
        have hge : (n : Int) ≤ j := by exact_mod_cast Nat.le_of_not_lt hcon
        have : (n : Int) * D ≤ j * D := by nlinarith
        simp at h2
        linarith
      rw [List.getElem?_append_left (by simpa using hjn)]
      simp [hjn]
    | succ k' =>
      have hnj : n ≤ j := by
        by_contra hcon
        have hlt : (j : Int) + 1 ≤ n := by exact_mod_cast Nat.lt_of_not_le hcon
        by_cases hpos : 0 < c + I
        · have h4 := e4 hpos
          push_cast at h1
          nlinarith
        · have : n = 0 := e5 (by omega)
          omega
      rw [List.getElem?_append_right (by simpa using hnj)]
      simp only [List.length_replicate, List.getElem?_cons_succ]
      have hc' : -D < c + I - n * D ∧ c + I - n * D ≤ 0 := by
        constructor
        · by_cases hpos : 0 < c + I
          · have := e4 hpos; linarith
          · have : n = 0 := e5 (by omega)
            subst this; simp; linarith
        · linarith
      apply ih (c + I - n * D) hc'.1 hc'.2 (j - n) k' (by simpa using hk)
      · push_cast [Nat.cast_sub hnj] at h1 ⊢
        nlinarith
      · push_cast [Nat.cast_sub hnj] at h2 ⊢
        nlinarith

/-- exact output count: `E` samples come out of `n`, with `n·I ≤ E·D < n·I + D`, i.e. `E = ⌈n·I/D⌉` -/
theorem resRef_length (I D : Int) (hI : 0 < I) (hD : 0 < D) (X : List Nat) :
    ∀ (c : Int), -D < c → c ≤ 0 →
      (X.length : Int) * I + c ≤ (resRef I D c X).length * D ∧
      ((resRef I D c X).length : Int) * D < X.length * I + c + D := by
  induction X with
  | nil => intro c h1 h2; simp [resRef]; constructor <;> linarith
  | cons s rest ih =>
    intro c hc1 hc2
    obtain ⟨n, e1, e2, e3, e4, e5⟩ := emitAll_spec D hD s ((c + I).toNat + 1) (c + I) (by omega)
    simp only [resRef]
    rw [e1, e2]
    have hc' : -D < c + I - n * D ∧ c + I - n * D ≤ 0 := by
      constructor
      · by_cases hpos : 0 < c + I
        · have := e4 hpos; linarith
        · have : n = 0 := e5 (by omega)
          subst this; simp; linarith
      · linarith
    obtain ⟨g1, g2⟩ := ih (c + I - n * D) hc'.1 hc'.2
    simp only [List.length_append, List.length_replicate, List.length_cons]
    push_cast
    constructor <;> nlinarith

end RR.Blk
