import RR.Proof.DspAlg
import Mathlib.Algebra.BigOperators.Ring.Finset

/-!
IIR filters satisfy their defining recurrences (exact arithmetic).
-/
namespace RR.Dsp
open Finset
variable {R : Type} [CommRing R]

/-- The defining recurrence over the whole output history `hist` (oldest first):
`y = t0·x + Σ_{i=1}^{min(n, L-1)} t_i · y[n-i]`. -/
def iirRef (taps : List R) : List R → List R → List R
  | _, [] => []
  | hist, x :: xs =>
    let y := taps.getD 0 0 * x +
      ∑ i ∈ range (min hist.length (taps.length - 1)), taps.getD (i + 1) 0 * hist.getD (hist.length - 1 - i) 0
    y :: iirRef taps (hist ++ [y]) xs

theorem foldl_add_range (f : ℕ → R) (n : ℕ) (a : R) :
    (List.range n).foldl (fun acc i => acc + f i) a = a + ∑ i ∈ range n, f i := by
  induction n with
  | zero => simp
  | succ n ih => rw [List.range_succ, List.foldl_append, ih, Finset.sum_range_succ]; simp [add_assoc]

theorem getD_reverse' (l : List R) (i : ℕ) (h : i < l.length) :
    l.reverse.getD i 0 = l.getD (l.length - 1 - i) 0 := by
  rw [List.getD_eq_getElem?_getD, List.getD_eq_getElem?_getD, List.getElem?_reverse h]

/-- **`IirFilter::filter` realises the recurrence**, the kept buffer being the
last `L-1` outputs: for every input sequence and every history. -/
theorem iir_recurrence (taps : List R) (ht : taps ≠ []) (xs : List R) :
    ∀ (hist buf : List R), buf = hist.drop (hist.length - (taps.length - 1)) →
      iirRun (ringOps R) taps buf xs = some (iirRef taps hist xs) := by
  induction xs with
  | nil => intro _ _ _; rfl
  | cons x xs ih =>
    intro hist buf hbuf
    obtain ⟨t0, rest, rfl⟩ : ∃ t0 rest, taps = t0 :: rest := by
      cases taps with
      | nil => exact absurd rfl ht
      | cons a b => exact ⟨a, b, rfl⟩
    have hbl : buf.length = min hist.length rest.length := by
      rw [hbuf, List.length_drop]; simp only [List.length_cons]; omega
    -- the output value
    have hy : (List.range buf.length).foldl
        (fun acc i => (ringOps R).add acc ((ringOps R).mul (buf.reverse.getD i (ringOps R).zero)
          ((t0 :: rest).getD (i + 1) (ringOps R).zero))) ((ringOps R).mul t0 x) =
        (t0 :: rest).getD 0 0 * x + ∑ i ∈ range (min hist.length ((t0 :: rest).length - 1)),
          (t0 :: rest).getD (i + 1) 0 * hist.getD (hist.length - 1 - i) 0 := by
      simp only [ringOps]
      rw [foldl_add_range]
      simp only [List.length_cons, Nat.add_sub_cancel, List.getD_cons_zero]
      rw [hbl]
      congr 1
      apply Finset.sum_congr rfl
      intro i hi
      have hi' : i < min hist.length rest.length := Finset.mem_range.mp hi
      rw [getD_reverse' buf i (by omega), mul_comm]
      congr 1
      rw [hbuf, getD_drop, List.length_drop]
      simp only [List.length_cons, Nat.add_sub_cancel]
      congr 1
      omega
    unfold iirRun iirStep
    simp only [hy, iirRef]
    generalize hyv : (t0 :: rest).getD 0 0 * x + ∑ i ∈ range (min hist.length ((t0 :: rest).length - 1)),
          (t0 :: rest).getD (i + 1) 0 * hist.getD (hist.length - 1 - i) 0 = y
    have hnext : (if (buf ++ [y]).length = (t0 :: rest).length then (buf ++ [y]).drop 1 else buf ++ [y]) =
        (hist ++ [y]).drop ((hist ++ [y]).length - ((t0 :: rest).length - 1)) := by
      simp only [List.length_append, List.length_cons, List.length_nil, Nat.add_sub_cancel, Nat.zero_add]
      by_cases hc : rest.length ≤ hist.length
      · have : buf.length + 1 = rest.length + 1 := by omega
        rw [if_pos this]
        by_cases hr : rest.length = 0
        · have hb0 : buf = [] := List.eq_nil_of_length_eq_zero (by omega)
          rw [hb0, hr]
          simp
        · have hbne : 0 < buf.length := by omega
          rw [List.drop_append_of_le_length (by omega), hbuf, List.drop_drop,
            List.drop_append_of_le_length (by omega)]
          simp only [List.length_cons, Nat.add_sub_cancel]
          congr 2
          omega
      · have : ¬ buf.length + 1 = rest.length + 1 := by omega
        rw [if_neg this, hbuf]
        simp only [List.length_cons, Nat.add_sub_cancel]
        rw [show hist.length - rest.length = 0 by omega, show hist.length + 1 - rest.length = 0 by omega]
        simp
    rw [hnext, ih (hist ++ [y]) _ rfl]
    rfl

/-- from a fresh filter (`new()`: empty buffer) -/
theorem iir_from_start (taps xs : List R) (ht : taps ≠ []) :
    iirRun (ringOps R) taps [] xs = some (iirRef taps [] xs) :=
  iir_recurrence taps ht xs [] [] (by simp)

/-- `IirFilter::filter` on no taps is the `taps[0]` panic. -/
theorem iir_no_taps (buf : List R) (x : R) : iirStep (ringOps R) [] buf x = none := rfl

/-- `SinglePoleIir`: `y[n] = α·x[n] + (1-α)·y[n-1]`. -/
theorem single_pole_recurrence (a prev x : R) :
    singlePole (ringOps R) a (1 - a) prev x = a * x + (1 - a) * prev := by
  simp only [singlePole, ringOps]; ring

/-- closed form: after inputs `xs` from state `y0`,
`y = (1-α)^n · y0 + Σ_k α·(1-α)^(n-1-k)·x[k]`. -/
theorem single_pole_closed (a y0 : R) (xs : List R) :
    xs.foldl (fun prev x => singlePole (ringOps R) a (1 - a) prev x) y0 =
      (1 - a) ^ xs.length * y0 + ∑ k ∈ range xs.length, a * (1 - a) ^ (xs.length - 1 - k) * xs.getD k 0 := by
  induction xs using List.reverseRecOn with
  | nil => simp
  | append_singleton xs x ih =>
    rw [List.foldl_append, List.foldl_cons, List.foldl_nil, ih, single_pole_recurrence]
    simp only [List.length_append, List.length_cons, List.length_nil, Nat.zero_add]
    rw [Finset.sum_range_succ]
    have hx : (xs ++ [x]).getD xs.length 0 = x := by simp [List.getD_eq_getElem?_getD]
    rw [hx, Nat.add_sub_cancel, Nat.sub_self, pow_zero, mul_one]
    have hs : ∑ k ∈ range xs.length, a * (1 - a) ^ (xs.length - k) * (xs ++ [x]).getD k 0 =
        (1 - a) * ∑ k ∈ range xs.length, a * (1 - a) ^ (xs.length - 1 - k) * xs.getD k 0 := by
      rw [Finset.mul_sum]
      apply Finset.sum_congr rfl
      intro k hk
      have hk' : k < xs.length := Finset.mem_range.mp hk
      have e1 : (xs ++ [x]).getD k 0 = xs.getD k 0 := by
        simp [List.getD_eq_getElem?_getD, List.getElem?_append_left hk']
      have e2 : xs.length - k = (xs.length - 1 - k) + 1 := by omega
      rw [e1, e2, pow_succ]
      ring
    rw [hs, pow_succ]
    ring

end RR.Dsp

namespace RR.Dsp
variable {α : Type}

/-- `filter_clamped`: the value returned is a clamped value, and it is that
same value that is kept for the feedback (any arithmetic, any clamp). -/
theorem iirClamp_feedback (o : Ops α) (clamp : α → α) (taps buf : List α) (x : α) (buf' : List α) (y : α)
    (h : iirClampStep o clamp taps buf x = some (buf', y)) (h2 : 2 ≤ taps.length) :
    buf'.getLast? = some y ∧ ∃ z, y = clamp z := by
  cases taps with
  | nil => simp [iirClampStep] at h
  | cons t0 rest =>
    simp only [iirClampStep, Option.some.injEq, Prod.mk.injEq] at h
    obtain ⟨hb, hy⟩ := h
    refine ⟨?_, ⟨_, hy.symm⟩⟩
    rw [← hb]
    split
    · rename_i hl
      have hne : 0 < buf.length := by
        simp only [List.length_append, List.length_cons, List.length_nil] at hl h2
        omega
      rw [List.drop_append_of_le_length (by omega), hy]
      simp
    · rw [hy]; simp

end RR.Dsp
