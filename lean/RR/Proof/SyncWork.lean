import RR.Proof.Sync

/-! What one generated `work()` call does (C09, C19). -/
namespace RR.Blk

theorem foldl_min_le (l : List Nat) (init : Nat) : l.foldl min init ≤ init := by
  induction l generalizing init with
  | nil => simp
  | cons x xs ih => simp only [List.foldl_cons]; exact Nat.le_trans (ih _) (Nat.min_le_left _ _)

theorem foldl_min_le_mem (l : List Nat) (init : Nat) (x : Nat) (hx : x ∈ l) : l.foldl min init ≤ x := by
  induction l generalizing init with
  | nil => cases hx
  | cons y ys ih =>
    simp only [List.foldl_cons]
    rcases List.mem_cons.mp hx with rfl | h
    · exact Nat.le_trans (foldl_min_le _ _) (Nat.min_le_right _ _)
    · exact ih _ h

theorem foldl_min_pos (l : List Nat) (init : Nat) (hi : 0 < init) (hl : ∀ x ∈ l, 0 < x) :
    0 < l.foldl min init := by
  induction l generalizing init with
  | nil => simpa
  | cons y ys ih =>
    simp only [List.foldl_cons]
    apply ih
    · have := hl y (by simp); omega
    · intro x hx; exact hl x (by simp [hx])

/-- The number of steps a call processes. -/
def stepsOf (v : View) : Nat :=
  minList (v.outs.map (·.free)) (minList (v.ins.map (·.samples.length)) (2 ^ 64 - 1))

theorem stepsOf_le_in (v : View) (i : InView) (hi : i ∈ v.ins) : stepsOf v ≤ i.samples.length := by
  unfold stepsOf minList
  exact Nat.le_trans (foldl_min_le _ _) (foldl_min_le_mem _ _ _ (List.mem_map.mpr ⟨i, hi, rfl⟩))

theorem stepsOf_le_out (v : View) (o : OutView) (ho : o ∈ v.outs) : stepsOf v ≤ o.free := by
  unfold stepsOf minList
  exact foldl_min_le_mem _ _ _ (List.mem_map.mpr ⟨o, ho, rfl⟩)

theorem findIdx?_none_all {α} (l : List α) (p : α → Bool) (h : l.findIdx? p = none) :
    ∀ x ∈ l, p x = false := by
  intro x hx
  have := List.findIdx?_eq_none_iff.mp h x hx
  simpa using this

theorem stepsOf_pos (v : View)
    (hin : firstIdx v.ins (fun i => i.samples.isEmpty) = none)
    (hout : firstIdx v.outs (fun o => o.free == 0) = none) : 0 < stepsOf v := by
  unfold stepsOf minList
  apply foldl_min_pos
  · apply foldl_min_pos
    · decide
    · intro x hx
      obtain ⟨i, hi, rfl⟩ := List.mem_map.mp hx
      have := findIdx?_none_all _ _ hin i hi
      cases hs : i.samples with
      | nil => simp [hs] at this
      | cons a b => simp
  · intro x hx
    obtain ⟨o, ho, rfl⟩ := List.mem_map.mp hx
    have := findIdx?_none_all _ _ hout o ho
    simp at this; omega

/-- Waiting on an input: it is the first empty input in declaration order,
nothing was consumed or produced, the state is unchanged, the need is 1. -/
theorem syncWork_waitIn (S : SyncSpec) (st : S.σ) (v : View) (k : Nat)
    (h : firstIdx v.ins (fun i => i.samples.isEmpty) = some k) :
    (syncWork S st v).1 = st ∧ (syncWork S st v).2.verdict = .waitIn k 1 ∧
    (∀ c ∈ (syncWork S st v).2.consumed, c = 0) ∧
    (∃ i, v.ins[k]? = some i ∧ i.samples = []) ∧
    (∀ j, j < k → ∀ i, v.ins[j]? = some i → i.samples ≠ []) := by
  unfold syncWork
  simp only [h]
  refine ⟨trivial, trivial, by simp, ?_, ?_⟩
  · obtain ⟨hlt, hp, _⟩ := List.findIdx?_eq_some_iff_getElem.mp h
    exact ⟨v.ins[k], by simp [hlt], by simpa using hp⟩
  · intro j hj i hi
    obtain ⟨hlt, _, hmin⟩ := List.findIdx?_eq_some_iff_getElem.mp h
    have hj' : j < v.ins.length := by omega
    have := hmin j hj
    simp [hj'] at hi
    subst hi
    simpa using this

/-- Waiting on an output: no input is empty, and it is the first output
without space, in declaration order. -/
theorem syncWork_waitOut (S : SyncSpec) (st : S.σ) (v : View) (k : Nat)
    (hin : firstIdx v.ins (fun i => i.samples.isEmpty) = none)
    (h : firstIdx v.outs (fun o => o.free == 0) = some k) :
    (syncWork S st v).1 = st ∧ (syncWork S st v).2.verdict = .waitOut k 1 ∧
    (∀ c ∈ (syncWork S st v).2.consumed, c = 0) ∧
    (∃ o, v.outs[k]? = some o ∧ o.free = 0) := by
  unfold syncWork
  simp only [hin, h]
  refine ⟨trivial, trivial, by simp, ?_⟩
  obtain ⟨hlt, hp, _⟩ := List.findIdx?_eq_some_iff_getElem.mp h
  exact ⟨v.outs[k], by simp [hlt], by simpa using hp⟩

/-- Otherwise the call processes exactly `min(shortest input, smallest output
space) ≥ 1` steps: that many samples from every input, that many to every
output, and answers `Again` (or the per-sample function panicked). -/
theorem syncWork_steps (S : SyncSpec) (st : S.σ) (v : View)
    (hin : firstIdx v.ins (fun i => i.samples.isEmpty) = none)
    (hout : firstIdx v.outs (fun o => o.free == 0) = none) :
    0 < stepsOf v ∧
    ((syncWork S st v).2.verdict = .panic ∨
     ((syncWork S st v).2.verdict = .again ∧
      (syncWork S st v).2.consumed = v.ins.map (fun _ => stepsOf v) ∧
      (syncWork S st v).2.produced.length = v.outs.length ∧
      ∀ p ∈ (syncWork S st v).2.produced, p.samples.length = stepsOf v)) := by
  refine ⟨stepsOf_pos v hin hout, ?_⟩
  unfold syncWork
  simp only [hin, hout]
  cases hl : syncLoop S v.ins st 0
      (minList (v.outs.map (·.free)) (minList (v.ins.map (·.samples.length)) (2 ^ 64 - 1))) with
  | none => left; rfl
  | some r =>
    obtain ⟨st', rows, ts⟩ := r
    right
    refine ⟨rfl, rfl, by simp, ?_⟩
    intro p hp
    simp only [List.mem_map, List.mem_range] at hp
    obtain ⟨j, _, rfl⟩ := hp
    simp only [List.length_map]
    exact syncLoopG_rows_length S _ _ _ _ _ _ _ hl

/-- The generated `eof()`: true exactly when every input has ended and is drained. -/
theorem macroEof_iff (v : View) :
    macroEof v = true ↔ ∀ i ∈ v.ins, i.alive = false ∧ i.samples = [] := by
  simp [macroEof, List.all_eq_true]

end RR.Blk
