import RR.Proof.Sched

/-!
`Graph::run` always returns (model): with finite scripts (a block whose script is
exhausted answers EOF and is retired) the loop reaches one of its exits —
cancelled, error, or a quiet pass — within `totalCalls + #blocks + 1` passes.
-/
namespace RR.Sched

/-- remaining calls of block `n`: one per script entry plus the final EOF answer -/
def budget (scripts : List Script) (pos : List Nat) : Nat :=
  (List.zipWith (fun (s : Script) p => s.length + 1 - p) scripts pos).sum

theorem zipWith_set_sum (f : Script → Nat → Nat) : ∀ (xs : List Script) (ys : List Nat) (n v : Nat),
    n < xs.length → n < ys.length →
    (List.zipWith f xs (ys.set n v)).sum + f (xs.getD n []) (ys.getD n 0) =
      (List.zipWith f xs ys).sum + f (xs.getD n []) v
  | [], _, _, _, h, _ => by simp at h
  | _ :: _, [], _, _, _, h => by simp at h
  | x :: xs, y :: ys, 0, v, _, _ => by simp; omega
  | x :: xs, y :: ys, n + 1, v, h1, h2 => by
    have := zipWith_set_sum f xs ys n v (by simpa using h1) (by simpa using h2)
    simp only [List.set_cons_succ, List.zipWith_cons_cons, List.sum_cons, List.getD_cons_succ]
    omega

/-- well-formed runner state: positions within budget, exhausted blocks retired -/
def WFst (scripts : List Script) (st : ST) : Prop :=
  st.pos.length = scripts.length ∧ st.retired.length = scripts.length ∧
  ∀ n, n < scripts.length → st.retired.getD n false = false → st.pos.getD n 0 ≤ (scripts.getD n []).length

theorem callAt_exhausted (s : Script) : callAt s s.length = ⟨.eof, true, false⟩ := by
  simp [callAt, List.getD_eq_getElem?_getD]

theorem doCall_pos (scripts : List Script) (acc : PassOut) (n : Nat) :
    (doCall scripts acc n).st.pos = acc.st.pos.set n (acc.st.pos.getD n 0 + 1) := by
  unfold doCall; simp only []; split <;> (try split) <;> rfl

theorem doCall_log (scripts : List Script) (acc : PassOut) (n : Nat) :
    (doCall scripts acc n).st.log = acc.st.log ++ [n] := by
  unfold doCall; simp only []; split <;> (try split) <;> rfl

theorem doCall_retired_len (scripts : List Script) (acc : PassOut) (n : Nat) :
    (doCall scripts acc n).st.retired.length = acc.st.retired.length := by
  unfold doCall; simp only []; split <;> (try split) <;> simp

theorem doCall_retired_other (scripts : List Script) (acc : PassOut) (n m : Nat) (h : m ≠ n) :
    (doCall scripts acc n).st.retired.getD m false = acc.st.retired.getD m false := by
  unfold doCall; simp only []
  split <;> (try split) <;> simp [List.getD_eq_getElem?_getD, List.getElem?_set, Ne.symm h]

theorem doCall_retires_exhausted (scripts : List Script) (acc : PassOut) (n : Nat)
    (hex : acc.st.pos.getD n 0 = (scripts.getD n []).length) (hn : n < acc.st.retired.length) :
    (doCall scripts acc n).st.retired.getD n false = true := by
  unfold doCall
  simp only [hex, callAt_exhausted]
  simp [List.getD_eq_getElem?_getD, List.getElem?_set, hn]

theorem doCall_budget (scripts : List Script) (acc : PassOut) (n : Nat) (hn : n < scripts.length)
    (hw : WFst scripts acc.st) (hr : acc.st.retired.getD n false = false) :
    WFst scripts (doCall scripts acc n).st ∧
    budget scripts (doCall scripts acc n).st.pos + 1 = budget scripts acc.st.pos := by
  obtain ⟨hl, hrl, hb⟩ := hw
  have hk := hb n hn hr
  refine ⟨⟨by rw [doCall_pos]; simpa using hl, by rw [doCall_retired_len]; exact hrl, ?_⟩, ?_⟩
  · intro m hm hrm
    rw [doCall_pos]
    by_cases hmn : m = n
    · subst hmn
      have hget : (acc.st.pos.set m (acc.st.pos.getD m 0 + 1)).getD m 0 = acc.st.pos.getD m 0 + 1 := by
        simp [List.getD_eq_getElem?_getD, List.getElem?_set, hl, hm]
      rw [hget]
      by_cases hcon : acc.st.pos.getD m 0 + 1 ≤ (scripts.getD m []).length
      · exact hcon
      · exfalso
        have hex : acc.st.pos.getD m 0 = (scripts.getD m []).length := by omega
        rw [doCall_retires_exhausted scripts acc m hex (by omega)] at hrm
        cases hrm
    · have hget : (acc.st.pos.set n (acc.st.pos.getD n 0 + 1)).getD m 0 = acc.st.pos.getD m 0 := by
        simp [List.getD_eq_getElem?_getD, List.getElem?_set, Ne.symm hmn]
      rw [hget]
      apply hb m hm
      rw [← doCall_retired_other scripts acc n m hmn]; exact hrm
  · rw [doCall_pos]
    unfold budget
    have := zipWith_set_sum (fun (s : Script) p => s.length + 1 - p) scripts acc.st.pos n
      (acc.st.pos.getD n 0 + 1) hn (by omega)
    have hk' : acc.st.pos.getD n 0 ≤ List.length (scripts.getD n []) := hk
    omega

/-- a step of the pass: nothing happens, or one call is made and the budget drops by one -/
theorem callBlock_budget (scripts : List Script) (acc : PassOut) (n : Nat) (hn : n < scripts.length)
    (hw : WFst scripts acc.st) :
    (callBlock scripts acc n = acc) ∨
    (WFst scripts (callBlock scripts acc n).st ∧
      budget scripts (callBlock scripts acc n).st.pos + 1 = budget scripts acc.st.pos) := by
  unfold callBlock
  split
  · exact Or.inl rfl
  · split
    · exact Or.inl rfl
    · rename_i _ hr
      right
      exact doCall_budget scripts acc n hn hw (by simpa using hr)

/-- the whole pass: either nothing was called (the accumulator is untouched), or the budget dropped -/
theorem fold_budget (scripts : List Script) : ∀ (l : List Nat) (acc : PassOut), (∀ n ∈ l, n < scripts.length) →
    WFst scripts acc.st →
    (l.foldl (callBlock scripts) acc = acc) ∨
    (WFst scripts (l.foldl (callBlock scripts) acc).st ∧
      budget scripts (l.foldl (callBlock scripts) acc).st.pos < budget scripts acc.st.pos)
  | [], acc, _, _ => Or.inl rfl
  | n :: l, acc, hl, hw => by
    simp only [List.foldl_cons]
    rcases callBlock_budget scripts acc n (hl n (by simp)) hw with h | ⟨h1, h2⟩
    · rw [h]
      exact fold_budget scripts l acc (fun m hm => hl m (by simp [hm])) hw
    · rcases fold_budget scripts l (callBlock scripts acc n) (fun m hm => hl m (by simp [hm])) h1 with g | ⟨g1, g2⟩
      · right; rw [g]; exact ⟨h1, by omega⟩
      · right; exact ⟨g1, by omega⟩

/-- **`Graph::run` terminates**: with at least `budget + 1` passes of fuel the loop leaves through one of
its exits (cancelled / error / quiet pass), never by running out of fuel. -/
theorem stLoop_terminates (scripts : List Script) (cancelAt : Option Nat) :
    ∀ (fuel : Nat) (st : ST), WFst scripts st → budget scripts st.pos < fuel →
      (stLoop scripts cancelAt st fuel).1 ≠ .outOfFuel := by
  intro fuel
  induction fuel with
  | zero => intro st _ h; omega
  | succ f ih =>
    intro st hw hb
    unfold stLoop
    split
    · simp
    · simp only []
      rcases fold_budget scripts (List.range scripts.length) ⟨st, true, false, none⟩
        (by intro n hn; simpa using hn) hw with h | ⟨h1, h2⟩
      · -- no call at all: the pass is quiet, the loop exits
        have hp : pass scripts st = ⟨st, true, false, none⟩ := h
        rw [hp]; simp
      · have hp : (pass scripts st).st = ((List.range scripts.length).foldl (callBlock scripts) ⟨st, true, false, none⟩).st := rfl
        split
        · simp
        · split
          · simp
          · exact ih _ (by rw [hp]; exact h1) (by rw [hp]; simp only at h2; omega)

theorem stInit_wf (scripts : List Script) : WFst scripts (stInit scripts) := by
  refine ⟨by simp [stInit], by simp [stInit], ?_⟩
  intro n hn _
  simp [stInit, List.getD_eq_getElem?_getD, hn]

theorem budget_init (scripts : List Script) : budget scripts (stInit scripts).pos = totalCalls scripts + scripts.length := by
  unfold budget stInit totalCalls
  simp only
  induction scripts with
  | nil => rfl
  | cons s rest ih =>
    simp only [List.map_cons, List.zipWith_cons_cons, List.sum_cons, List.length_cons]
    omega

theorem stRun_terminates (scripts : List Script) (cancelAt : Option Nat) :
    (stRun scripts cancelAt).1 ≠ .outOfFuel := by
  unfold stRun
  exact stLoop_terminates scripts cancelAt _ _ (stInit_wf scripts) (by rw [budget_init]; omega)

end RR.Sched
