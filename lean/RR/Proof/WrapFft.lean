import RR.Proof.Wrap
import RR.Proof.DspFftBlock

/-! `FftFilterFloat` = wrapper around `FftFilter`: for every outer schedule the samples delivered are the
converted prefix of the linear convolution. -/
namespace RR.Dsp
open RR.Blk Finset

variable {R : Type} [CommRing R]

theorem fft_float_block_eq_conv (cd : Codec R) (taps : List R) (ht : 0 < taps.length) (cap : Nat)
    (toIn toOut : Nat → Nat) (Xn : List Nat) (sched : List (Nat × Nat)) :
    let S := calcFftSize taps.length - taps.length
    let W := wrapBlock (fftBlock (ringOps R) cd taps) cap toIn toOut (fftNeed taps)
    let r := drive1 W Xn W.init 0 [] sched
    r.2.1 ≤ Xn.length ∧
    ∃ B, B * S ≤ r.2.1 ∧
      r.2.2 <+: (((List.range (B * S)).map fun n => convAt taps ((Xn.map toIn).map cd.dec) n).map cd.enc).map toOut := by
  intro S W r
  have hS : 0 < calcFftSize taps.length - taps.length := by
    have := calcFftSize_ge taps.length; omega
  have hw := wrap_drive (fftBlock (ringOps R) cd taps) cap toIn toOut Xn _
    (fft_innerOk (ringOps R) cd taps toIn Xn hS) (fftNeed taps) sched
    ⟨⟨[], [], List.replicate taps.length (ringOps R).zero⟩, ⟨[], []⟩, ⟨[], []⟩⟩ 0 []
    (wrap_init (fftBlock (ringOps R) cd taps) toIn toOut Xn _
      ⟨fft_init (ringOps R) cd taps (Xn.map toIn) hS, rfl⟩)
  obtain ⟨c, out, ⟨⟨B, e1, e2, e3, _, _, e6⟩, _⟩, hcC, hCX, _, _, _, _, hD, _⟩ := hw
  refine ⟨hCX, B, Nat.le_trans (by rw [e1]; exact Nat.le_add_right _ _) hcC, ?_⟩
  have hout : out = ((List.range (B * S)).map fun n => convAt taps ((Xn.map toIn).map cd.dec) n).map cd.enc := by
    rw [e6, ← olaRun_eq_olaOut]
    have hX : B * (calcFftSize taps.length - taps.length) ≤ ((Xn.map toIn).map cd.dec).length := by
      simp only [List.length_map] at e2 ⊢; omega
    have := ola_run taps ((Xn.map toIn).map cd.dec) ht B 0 (List.replicate taps.length 0) (by simpa using hX)
      (fun i _ => tail_init taps ((Xn.map toIn).map cd.dec) _ i)
    have hz : (ringOps R).zero = (0 : R) := rfl
    rw [hz, this]
    simp
    rfl
  show r.2.2 <+: _
  rw [← hout]
  have hD' : r.2.2 = (out.take r.2.2.length).map toOut := hD
  rw [hD']
  exact List.IsPrefix.map toOut (List.take_prefix _ _)

end RR.Dsp
