import RR.Model.FileSrc
import RR.Proof.Source

/-!
FileSource for every consumption schedule: whatever free space each call finds
and however the buffered reader cuts its reads, the cumulative output is whole
repetitions of the file's whole samples followed by a prefix of them; `EOF` is
answered exactly when all `n` repetitions are out.
-/
namespace RR.Src
open RR RR.Blk

theorem samplesOf_append_exact (size : Nat) : ∀ (k j : Nat) (a b : List Nat), a.length = k * size →
    samplesOf size (k + j) (a ++ b) = samplesOf size k a ++ samplesOf size j b
  | 0, j, a, b, h => by
    have : a = [] := List.eq_nil_of_length_eq_zero (by simpa using h)
    subst this; simp [samplesOf]
  | k + 1, j, a, b, h => by
    have h1 : size ≤ a.length := by rw [h, Nat.add_mul]; omega
    have e : k + 1 + j = (k + j) + 1 := by omega
    rw [e]
    simp only [samplesOf]
    have hn1 : ¬ (a ++ b).length < size := by simp; omega
    have hn2 : ¬ a.length < size := by omega
    simp only [hn1, hn2, if_false, List.cons_append]
    have ht : (a ++ b).take size = a.take size := by rw [List.take_append_of_le_length h1]
    have hd : (a ++ b).drop size = a.drop size ++ b := by rw [List.drop_append_of_le_length h1]
    rw [ht, hd, samplesOf_append_exact size k j (a.drop size) b (by simp [h, Nat.add_mul])]

theorem samplesOf_prefix (size : Nat) (hs : 0 < size) : ∀ (k : Nat) (a b : List Nat), k * size ≤ a.length →
    samplesOf size k (a ++ b) = samplesOf size k a
  | 0, _, _, _ => by simp [samplesOf]
  | k + 1, a, b, h => by
    have h1 : size ≤ a.length := by rw [Nat.add_mul] at h; omega
    simp only [samplesOf]
    have hn1 : ¬ (a ++ b).length < size := by simp; omega
    have hn2 : ¬ a.length < size := by omega
    simp only [hn1, hn2, if_false]
    have ht : (a ++ b).take size = a.take size := by rw [List.take_append_of_le_length h1]
    have hd : (a ++ b).drop size = a.drop size ++ b := by rw [List.drop_append_of_le_length h1]
    rw [ht, hd, samplesOf_prefix size hs k (a.drop size) b (by simp; rw [Nat.add_mul] at h; omega)]

theorem samplesOf_length (size : Nat) : ∀ (k : Nat) (a : List Nat), k * size ≤ a.length →
    (samplesOf size k a).length = k
  | 0, _, _ => by simp [samplesOf]
  | k + 1, a, h => by
    have h1 : size ≤ a.length := by rw [Nat.add_mul] at h; omega
    simp only [samplesOf]
    have hn2 : ¬ a.length < size := by omega
    simp only [hn2, if_false, List.length_cons]
    rw [samplesOf_length size k (a.drop size) (by simp; rw [Nat.add_mul] at h; omega)]

/-- all whole samples of the file -/
def fileSamples (file : List Nat) (size : Nat) : List Nat := samplesOf size (file.length / size) file

/-- the first `q + k` samples of the file = the first `q`, then the first `k` of what follows them -/
theorem samplesOf_split (file : List Nat) (size : Nat) (hs : 0 < size) (q k : Nat) (hq : q * size ≤ file.length)
    (d rest : List Nat) (hd : file.drop (q * size) = d ++ rest) (hk : k * size ≤ d.length) :
    samplesOf size (q + k) file = samplesOf size q file ++ samplesOf size k d := by
  have hfile : file = file.take (q * size) ++ (d ++ rest) := by rw [← hd, List.take_append_drop]
  have hl : (file.take (q * size)).length = q * size := by simp; omega
  have e1 : samplesOf size (q + k) file = samplesOf size q (file.take (q * size)) ++ samplesOf size k (d ++ rest) := by
    conv => lhs; rw [hfile]
    exact samplesOf_append_exact size q k _ _ hl
  have e2 : samplesOf size q file = samplesOf size q (file.take (q * size)) := by
    conv => lhs; rw [hfile]
    exact samplesOf_prefix size hs q _ _ (by omega)
  rw [e1, e2, samplesOf_prefix size hs k d rest hk]

theorem bufRead_spec (rb k rem : Nat) (hk : 0 < k) (hrb : rb ≤ rem) :
    (bufRead rb k rem).1 ≤ k ∧ (bufRead rb k rem).1 ≤ rem ∧
    (bufRead rb k rem).2 + (bufRead rb k rem).1 ≤ rem ∧
    ((bufRead rb k rem).1 = 0 ↔ rem = 0) := by
  unfold bufRead bufCap
  split
  · split
    · simp only []; omega
    · simp only []; omega
  · simp only []; omega

theorem fsFinish_spec (st : FsSt) (size f : Nat) :
    (fsFinish st size ⟨[], [⟨f, true⟩]⟩).1 = { st with buf := st.buf.drop (st.buf.length / size * size) } ∧
    ((fsFinish st size ⟨[], [⟨f, true⟩]⟩).2.produced.getD 0 ⟨[], []⟩).samples =
      samplesOf size (st.buf.length / size) st.buf ∧
    (fsFinish st size ⟨[], [⟨f, true⟩]⟩).2.verdict ≠ .eof ∧
    (fsFinish st size ⟨[], [⟨f, true⟩]⟩).2.verdict ≠ .panic := by
  unfold fsFinish
  simp only []
  split
  · rename_i h
    refine ⟨rfl, ?_, by simp [noOut], by simp [noOut]⟩
    simp only [fsEmit] at h
    have : samplesOf size (st.buf.length / size) st.buf = [] := by simpa using h
    simp [noOut, this]
  · exact ⟨rfl, rfl, by simp, by simp⟩

/-- `nn` more bytes behind a partial sample: what stays buffered and what the samples are -/
theorem fs_chunk (file : List Nat) (size pos nn : Nat) (hs : 0 < size) (hle : pos + nn ≤ file.length)
    (buf : List Nat) (hbuf : buf = (file.drop (pos / size * size)).take (pos % size)) :
    (buf ++ (file.drop pos).take nn).drop ((buf ++ (file.drop pos).take nn).length / size * size) =
      (file.drop ((pos + nn) / size * size)).take ((pos + nn) % size) ∧
    samplesOf size ((pos + nn) / size) file =
      samplesOf size (pos / size) file ++
        samplesOf size ((buf ++ (file.drop pos).take nn).length / size) (buf ++ (file.drop pos).take nn) := by
  have hq : pos / size * size + pos % size = pos := by
    have := Nat.div_add_mod pos size
    have h3 : pos / size * size = size * (pos / size) := Nat.mul_comm _ _
    omega
  have hrm : pos % size < size := Nat.mod_lt pos hs
  generalize pos / size = q at hq hbuf
  generalize pos % size = rm at hq hbuf hrm
  have hd : buf ++ (file.drop pos).take nn = (file.drop (q * size)).take (rm + nn) := by
    rw [hbuf, List.take_add, List.drop_drop, hq]
  rw [hd]
  generalize hdd : (file.drop (q * size)).take (rm + nn) = d
  have hdl : d.length = rm + nn := by rw [← hdd]; simp; omega
  generalize hk : d.length / size = k
  have hkd : k * size ≤ d.length := by rw [← hk]; exact Nat.div_mul_le_self _ _
  have hkr : d.length < k * size + size := by
    rw [← hk]
    have := Nat.div_add_mod d.length size
    have := Nat.mod_lt d.length hs
    have h3 : d.length / size * size = size * (d.length / size) := Nat.mul_comm _ _
    omega
  have hq' : (pos + nn) / size = q + k := by
    apply Nat.div_eq_of_lt_le
    · rw [Nat.add_mul]; omega
    · rw [Nat.add_mul, Nat.add_mul]; omega
  have hr' : (pos + nn) % size = d.length - k * size := by
    have := Nat.div_add_mod (pos + nn) size
    rw [hq'] at this
    have h3 : size * (q + k) = q * size + k * size := by rw [Nat.mul_comm, Nat.add_mul]
    omega
  have hsplit := samplesOf_split file size hs q k (by omega) d (file.drop (q * size + (rm + nn)))
    (by rw [← hdd, ← List.drop_drop, List.take_append_drop]) hkd
  refine ⟨?_, by rw [hq', hsplit]⟩
  rw [hq', hr', ← hdd, List.drop_take, List.drop_drop, hdd, Nat.add_mul]
  congr 1
  omega

/-- Drive the source: each call sees some free output space. -/
def fsDrive (file : List Nat) (size : Nat) : FsSt → List Nat → Bool → List Nat → FsSt × List Nat × Bool
  | st, out, eof, [] => (st, out, eof)
  | st, out, eof, f :: rest =>
    let r := fsWork file size st ⟨[], [⟨f, true⟩]⟩
    fsDrive file size r.1 (out ++ (r.2.produced.getD 0 ⟨[], []⟩).samples) (eof || r.2.verdict == .eof) rest

/-- what has been emitted when the source is in state `st` (finite repeat `n`) -/
def fsEmitted (file : List Nat) (size n : Nat) (st : FsSt) : List Nat :=
  match st.rep.r with
  | .finite 0 => rept n (fileSamples file size)
  | _ => rept st.rep.count (fileSamples file size) ++ samplesOf size (st.pos / size) file

/-- reachable states -/
def FsGood (file : List Nat) (size n : Nat) (st : FsSt) : Prop :=
  ∃ m, st.rep.r = .finite m ∧ m + st.rep.count = n ∧ st.pos ≤ file.length ∧
    st.rb ≤ file.length - st.pos ∧
    st.buf = (file.drop (st.pos / size * size)).take (st.pos % size)

theorem fsEmitted_pos (file : List Nat) (size n m cnt pos rb : Nat) (buf : List Nat) (hm : m ≠ 0) :
    fsEmitted file size n ⟨pos, rb, buf, ⟨.finite m, cnt⟩⟩ =
      rept cnt (fileSamples file size) ++ samplesOf size (pos / size) file := by
  unfold fsEmitted
  cases m with
  | zero => exact absurd rfl hm
  | succ q => simp

theorem fs_step (file : List Nat) (size n : Nat) (hs : 0 < size) (hn : n < 2 ^ 64) (st : FsSt)
    (hg : FsGood file size n st) (f : Nat) :
    let r := fsWork file size st ⟨[], [⟨f, true⟩]⟩
    FsGood file size n r.1 ∧
    fsEmitted file size n r.1 = fsEmitted file size n st ++ (r.2.produced.getD 0 ⟨[], []⟩).samples ∧
    (r.2.verdict = .eof ↔ r.1.rep.r = .finite 0) ∧ r.2.verdict ≠ .panic := by
  intro r
  obtain ⟨m, hm, hsum, hpos, hrb, hbuf⟩ := hg
  obtain ⟨pos, rb, buf, rep⟩ := st
  obtain ⟨rr, cnt⟩ := rep
  simp only at hm hsum hpos hrb hbuf
  subst hm
  have hbl : buf.length = pos % size := by
    rw [hbuf]; simp
    have := Nat.div_add_mod pos size
    have := Nat.mod_lt pos hs
    have h3 : pos / size * size = size * (pos / size) := Nat.mul_comm _ _
    omega
  have hblt : buf.length < size := by rw [hbl]; exact Nat.mod_lt pos hs
  have hhave : buf.length / size = 0 := Nat.div_eq_of_lt hblt
  simp only [r, fsWork, Repeat.done, out0, noOut, List.getD_cons_zero, hhave]
  by_cases hm0 : m = 0
  · subst hm0
    refine ⟨⟨0, rfl, by simpa using hsum, hpos, hrb, hbuf⟩, ?_, ?_, by simp⟩
    · simp [fsEmitted]
    · simp
  · have hm1 : (m == 0) = false := by simpa using hm0
    simp only [hm1, Bool.false_eq_true, if_false]
    by_cases hf : f = 0
    · have hf0 : (f == 0) = true := by simpa using hf
      simp only [hf0, if_true]
      refine ⟨⟨m, rfl, hsum, hpos, hrb, hbuf⟩, by simp, ?_, by simp⟩
      constructor
      · intro h; cases h
      · intro h; simp at h; exact absurd h hm0
    · have hf' : (f == 0) = false := by simpa using hf
      have hfpos : 0 < f := Nat.pos_of_ne_zero hf
      simp only [hf', Bool.false_eq_true, if_false, hfpos, if_true, Nat.sub_zero]
      have hkpos : 0 < f * size := Nat.mul_pos hfpos hs
      obtain ⟨b1, b2, b3, b4⟩ := bufRead_spec rb (f * size) (file.length - pos) hkpos hrb
      generalize hbr : bufRead rb (f * size) (file.length - pos) = br at b1 b2 b3 b4
      obtain ⟨nn, rb'⟩ := br
      simp only at b1 b2 b3 b4
      by_cases hn0 : nn = 0
      · -- end of the file
        have hend : pos = file.length := by have := b4.mp hn0; omega
        have hb : (nn == 0) = true := by simpa using hn0
        have hov : ¬ (cnt + 1 ≥ 2 ^ 64) := by omega
        simp only [hb, if_true, Repeat.again, hov, hm0, if_false]
        have eold := fsEmitted_pos file size n m cnt pos rb buf hm0
        have hS : samplesOf size (pos / size) file = fileSamples file size := by rw [hend]; rfl
        by_cases hmore : m > 1
        · simp only [hmore, decide_true, if_true, List.getD_cons_zero]
          refine ⟨⟨m - 1, rfl, by simp; omega, by simp, by simp, by simp⟩, ?_, ?_, by simp⟩
          · rw [fsEmitted_pos file size n (m - 1) (cnt + 1) 0 0 [] (by omega), eold, hS, rept_succ]
            simp [samplesOf]
          · constructor
            · intro h; cases h
            · intro h; simp at h; omega
        · have hm1' : m = 1 := by omega
          subst hm1'
          simp only [show ¬ (1 > 1) by omega, decide_false, Bool.false_eq_true, if_false,
            List.getD_cons_zero]
          refine ⟨⟨0, rfl, by simp; omega, hpos, hrb, hbuf⟩, ?_, ?_, by simp⟩
          · have e1 : fsEmitted file size n ⟨pos, rb, buf, ⟨.finite (1 - 1), cnt + 1⟩⟩ =
                rept n (fileSamples file size) := by unfold fsEmitted; simp
            have hn' : n = cnt + 1 := by omega
            rw [e1, eold, hS, hn', rept_succ]; simp
          · simp
      · -- `nn > 0` bytes arrive
        have hb : (nn == 0) = false := by simpa using hn0
        simp only [hb, Bool.false_eq_true, if_false]
        obtain ⟨k1, k2, k3, k4⟩ := fsFinish_spec
          ⟨pos + nn, rb', buf ++ (file.drop pos).take nn, ⟨.finite m, cnt⟩⟩ size f
        obtain ⟨c1, c2⟩ := fs_chunk file size pos nn hs (by omega) buf hbuf
        simp only [] at k1 k2
        refine ⟨?_, ?_, ⟨fun h => absurd h k3, fun h => ?_⟩, k4⟩
        · rw [k1]
          exact ⟨m, rfl, hsum, by show pos + nn ≤ _; omega, by show rb' ≤ file.length - (pos + nn); omega, c1⟩
        · rw [k1, k2, fsEmitted_pos _ _ _ _ _ _ _ _ hm0, fsEmitted_pos _ _ _ _ _ _ _ _ hm0, c2,
            List.append_assoc]
        · rw [k1] at h; simp at h; exact absurd h hm0

/-- **FileSource, any consumption schedule.** -/
theorem fs_drive (file : List Nat) (size n : Nat) (hs : 0 < size) (hn : n < 2 ^ 64) (st : FsSt)
    (hg : FsGood file size n st) (eof : Bool) (heof : eof = true → st.rep.r = .finite 0) (frees : List Nat) :
    let r := fsDrive file size st (fsEmitted file size n st) eof frees
    FsGood file size n r.1 ∧ r.2.1 = fsEmitted file size n r.1 ∧
      (r.2.2 = true → r.2.1 = rept n (fileSamples file size)) := by
  induction frees generalizing st eof with
  | nil =>
    refine ⟨hg, rfl, ?_⟩
    intro h
    have := heof h
    simp [fsDrive, fsEmitted, this]
  | cons f rest ih =>
    obtain ⟨h1, h2, h3, _⟩ := fs_step file size n hs hn st hg f
    simp only [fsDrive]
    rw [← h2]
    apply ih _ h1
    intro he
    simp only [Bool.or_eq_true, beq_iff_eq] at he
    rcases he with he | he
    · have hz := heof he
      have : (fsWork file size st ⟨[], [⟨f, true⟩]⟩).2.verdict = .eof := by
        obtain ⟨pos, rb, buf, rep⟩ := st
        obtain ⟨rr, cnt⟩ := rep
        simp only at hz
        subst hz
        simp [fsWork, Repeat.done, noOut]
      exact h3.mp this
    · exact h3.mp he

end RR.Src
