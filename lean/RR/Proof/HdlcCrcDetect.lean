import RR.Proof.HdlcTable

/-!
Error detection of the frame check sequence: a single flipped data bit always
changes CRC-16/X.25 (the bit-serial step is a linear bijection on 16-bit
states, so a non-zero difference never dies out).
-/
namespace RR.Hdlc
open RR.HdlcSpec

theorem xor_eq_zero_imp (a b : Nat) (h : a ^^^ b = 0) : a = b := by
  have : a ^^^ (a ^^^ b) = b := by rw [← Nat.xor_assoc, Nat.xor_self, Nat.zero_xor]
  rw [h, Nat.xor_zero] at this
  exact this

theorem crcStep_eq (x : Nat) : crcStep x = (x >>> 1) ^^^ (if x % 2 = 1 then 0x8408 else 0) := by
  unfold crcStep; split <;> simp

theorem crcStep_xor (a b : Nat) : crcStep (a ^^^ b) = crcStep a ^^^ crcStep b := by
  rw [crcStep_eq, crcStep_eq a, crcStep_eq b, Nat.shiftRight_xor_distrib]
  have hp : (a ^^^ b) % 2 = (a % 2) ^^^ (b % 2) := by
    have := Nat.xor_mod_two_pow (a := a) (b := b) (n := 1)
    simpa using this
  rcases Nat.mod_two_eq_zero_or_one a with ha | ha <;> rcases Nat.mod_two_eq_zero_or_one b with hb | hb <;>
    simp only [hp, ha, hb] <;> simp
  · rw [Nat.xor_assoc]
  · rw [Nat.xor_assoc, Nat.xor_assoc, Nat.xor_comm 33800]
  · rw [Nat.xor_assoc, Nat.xor_comm 33800 (b >>> 1 ^^^ 33800), Nat.xor_assoc (b >>> 1), Nat.xor_self, Nat.xor_zero]

theorem crcStep_zero_iff (x : Nat) (hx : x < 65536) : crcStep x = 0 ↔ x = 0 := by
  constructor
  · intro h
    rw [crcStep_eq] at h
    split at h
    · rename_i hodd
      have : x >>> 1 = 0x8408 := xor_eq_zero_imp _ _ h
      rw [Nat.shiftRight_eq_div_pow] at this
      omega
    · have : x >>> 1 = 0 := by simpa using h
      rw [Nat.shiftRight_eq_div_pow] at this
      omega
  · rintro rfl; decide

theorem crcStep8_xor (a b : Nat) : crcStep8 (a ^^^ b) = crcStep8 a ^^^ crcStep8 b := by
  simp only [crcStep8, crcStep_xor]

theorem crcStep8_ne_zero (x : Nat) (hx : x < 65536) (h : x ≠ 0) : crcStep8 x ≠ 0 := by
  unfold crcStep8
  have s1 := crcStep_lt x hx
  have s2 := crcStep_lt _ s1
  have s3 := crcStep_lt _ s2
  have s4 := crcStep_lt _ s3
  have s5 := crcStep_lt _ s4
  have s6 := crcStep_lt _ s5
  have s7 := crcStep_lt _ s6
  intro h8
  have := (crcStep_zero_iff _ s7).mp h8
  have := (crcStep_zero_iff _ s6).mp this
  have := (crcStep_zero_iff _ s5).mp this
  have := (crcStep_zero_iff _ s4).mp this
  have := (crcStep_zero_iff _ s3).mp this
  have := (crcStep_zero_iff _ s2).mp this
  have := (crcStep_zero_iff _ s1).mp this
  exact h ((crcStep_zero_iff _ hx).mp this)

/-- the CRC register over a byte list -/
def crcFold (s : Nat) (data : List Nat) : Nat := data.foldl (fun fcs byte => crcStep8 (fcs ^^^ byte)) s

theorem crcFold_lt (data : List Nat) (hb : ∀ b ∈ data, b < 256) : ∀ s, s < 65536 → crcFold s data < 65536 := by
  induction data with
  | nil => intro s h; exact h
  | cons b rest ih =>
    intro s h
    simp only [crcFold, List.foldl_cons]
    exact ih (fun x hx => hb x (by simp [hx])) _
      (crcStep8_lt _ (Nat.xor_lt_two_pow (n := 16) h (by have := hb b (by simp); omega)))

/-- a non-zero register difference never dies out -/
theorem crcFold_diff (data : List Nat) (hb : ∀ b ∈ data, b < 256) :
    ∀ (s d : Nat), s < 65536 → d < 65536 → d ≠ 0 → crcFold (s ^^^ d) data ≠ crcFold s data := by
  induction data with
  | nil =>
    intro s d _ _ hd h
    simp only [crcFold, List.foldl_nil] at h
    have : s ^^^ d ^^^ s = 0 := by rw [h, Nat.xor_self]
    rw [Nat.xor_comm s d, Nat.xor_assoc, Nat.xor_self, Nat.xor_zero] at this
    exact hd this
  | cons b rest ih =>
    intro s d hs hd hne
    have hb0 : b < 256 := hb b (by simp)
    simp only [crcFold, List.foldl_cons]
    have e : s ^^^ d ^^^ b = (s ^^^ b) ^^^ d := by
      rw [Nat.xor_assoc, Nat.xor_comm d b, ← Nat.xor_assoc]
    rw [e, crcStep8_xor]
    have hsb : s ^^^ b < 65536 := Nat.xor_lt_two_pow (n := 16) hs (by omega)
    exact ih (fun x hx => hb x (by simp [hx])) _ _ (crcStep8_lt _ hsb) (crcStep8_lt _ hd)
      (crcStep8_ne_zero d hd hne)

/-- **Every single-bit error in the data changes the CRC.** -/
theorem crc_single_bit (pre rest : List Nat) (b j : Nat) (hpre : ∀ x ∈ pre, x < 256) (hrest : ∀ x ∈ rest, x < 256)
    (hb : b < 256) (hj : j < 8) :
    crcBitwise (pre ++ (b ^^^ 2 ^ j) :: rest) ≠ crcBitwise (pre ++ b :: rest) := by
  unfold crcBitwise
  intro h
  have h' := congrArg (· ^^^ 0xffff) h
  simp only [Nat.xor_assoc, Nat.xor_self, Nat.xor_zero] at h'
  rw [List.foldl_append, List.foldl_append, List.foldl_cons, List.foldl_cons] at h'
  have hs : crcFold 0xffff pre < 65536 := crcFold_lt pre hpre _ (by decide)
  change crcFold (crcStep8 (crcFold 0xffff pre ^^^ (b ^^^ 2 ^ j))) rest =
    crcFold (crcStep8 (crcFold 0xffff pre ^^^ b)) rest at h'
  have e : crcFold 0xffff pre ^^^ (b ^^^ 2 ^ j) = (crcFold 0xffff pre ^^^ b) ^^^ 2 ^ j := by
    rw [Nat.xor_assoc]
  rw [e, crcStep8_xor] at h'
  have hpow : 2 ^ j < 65536 := by
    have : 2 ^ j ≤ 2 ^ 7 := Nat.pow_le_pow_right (by omega) (by omega)
    omega
  have hsb : crcFold 0xffff pre ^^^ b < 65536 := Nat.xor_lt_two_pow (n := 16) hs (by omega)
  exact crcFold_diff rest hrest _ _ (crcStep8_lt _ hsb) (crcStep8_lt _ hpow)
    (crcStep8_ne_zero _ hpow (by have : 0 < 2 ^ j := Nat.two_pow_pos j; omega)) h'

end RR.Hdlc
