import RR.Model.Blocks

/-!
The G3RUH descrambler (`Lfsr::next` with mask 0x21, length 16) as a function of
the input HISTORY: `out[n] = in[n] xor in[n-12] xor in[n-17]`; it inverts the
scrambler `s[n] = d[n] xor s[n-12] xor s[n-17]` and forgets its initial register
after 17 bits (self-synchronising).
-/
namespace RR.Lfsr
open RR.Blk

/-- history-based descrambler: `hist` = previous inputs, newest first -/
def descrL : List Nat → List Nat → List Nat
  | _, [] => []
  | hist, i :: rest => (i ^^^ hist.getD 11 0 ^^^ hist.getD 16 0) :: descrL (i :: hist) rest

/-- history-based scrambler: `hist` = previous OUTPUTS, newest first -/
def scrL : List Nat → List Nat → List Nat
  | _, [] => []
  | hist, d :: rest =>
    let o := d ^^^ hist.getD 11 0 ^^^ hist.getD 16 0
    o :: scrL (o :: hist) rest

/-- the register that holds the last 17 inputs: newest at bit 16 -/
def enc (hist : List Nat) : Nat :=
  hist.getD 0 0 * 65536 + hist.getD 1 0 * 32768 + hist.getD 2 0 * 16384 + hist.getD 3 0 * 8192 +
  hist.getD 4 0 * 4096 + hist.getD 5 0 * 2048 + hist.getD 6 0 * 1024 + hist.getD 7 0 * 512 +
  hist.getD 8 0 * 256 + hist.getD 9 0 * 128 + hist.getD 10 0 * 64 + hist.getD 11 0 * 32 +
  hist.getD 12 0 * 16 + hist.getD 13 0 * 8 + hist.getD 14 0 * 4 + hist.getD 15 0 * 2 + hist.getD 16 0

theorem parity_lo_all : (List.range 64).all (fun lo =>
    popcount 64 (lo &&& 0x21) % 256 % 2 == (lo % 2) ^^^ (lo / 32 % 2)) = true := by decide +kernel

theorem parity_lo (lo : Nat) (h : lo < 64) :
    popcount 64 (lo &&& 0x21) % 256 % 2 = (lo % 2) ^^^ (lo / 32 % 2) := by
  have := List.all_eq_true.mp parity_lo_all lo (List.mem_range.mpr h)
  simpa using this

theorem and_33 (reg : Nat) : reg &&& 0x21 = (reg % 64) &&& 0x21 := by
  have h1 : (reg &&& 0x21) % 64 = (reg % 64) &&& (0x21 % 64) := Nat.and_mod_two_pow (n := 6)
  have h2 : reg &&& 0x21 < 64 := Nat.lt_of_le_of_lt Nat.and_le_right (by decide)
  rw [Nat.mod_eq_of_lt h2] at h1
  exact h1

/-- **One clock of the real LFSR in terms of bits.** -/
theorem lfsrNext_bits (reg i : Nat) (hr : reg < 131072) (hi : i < 2) :
    lfsrNext 0x21 16 reg i = some (reg / 2 + i * 65536, (reg % 2) ^^^ (reg / 32 % 2) ^^^ i) := by
  unfold lfsrNext
  have hi2 : i % 2 = i := Nat.mod_eq_of_lt hi
  simp only [hi2]
  have hp : popcount 64 (reg &&& 0x21) % 256 % 2 = (reg % 2) ^^^ (reg / 32 % 2) := by
    rw [and_33, parity_lo _ (Nat.mod_lt _ (by decide))]
    congr 1
    · omega
    · omega
  rw [hp]
  have hshift : reg >>> 1 = reg / 2 := by rw [Nat.shiftRight_eq_div_pow]
  have hor : (reg >>> 1 ||| i <<< 16) % 2 ^ 64 = reg / 2 + i * 65536 := by
    rw [hshift]
    rcases (by omega : i = 0 ∨ i = 1) with rfl | rfl
    · simp
      omega
    · have : reg / 2 < 2 ^ 16 := by omega
      have e : (1 : Nat) <<< 16 = 2 ^ 16 := by decide
      have h2 := Nat.two_pow_add_eq_or_of_lt (i := 16) this 1
      simp only [Nat.mul_one] at h2
      rw [e, Nat.or_comm, ← h2]
      omega
  rw [hor]

end RR.Lfsr

namespace RR.Lfsr
open RR.Blk

/-- the real LFSR clocked over a bit list -/
def lfsrRun (reg : Nat) : List Nat → List Nat
  | [] => []
  | i :: rest =>
    match lfsrNext 0x21 16 reg i with
    | some (r', o) => o :: lfsrRun r' rest
    | none => []

theorem getD_lt2 (hist : List Nat) (hh : ∀ x ∈ hist, x < 2) (k : Nat) : hist.getD k 0 < 2 := by
  rw [List.getD_eq_getElem?_getD]
  cases h : hist[k]? with
  | none => simp
  | some v => simp; exact hh v (List.mem_of_getElem? h)

/-- **The register model is the history function.** -/
theorem lfsrRun_eq_descrL (l : List Nat) (hl : ∀ x ∈ l, x < 2) :
    ∀ hist : List Nat, (∀ x ∈ hist, x < 2) → lfsrRun (enc hist) l = descrL hist l := by
  induction l with
  | nil => intro _ _; rfl
  | cons i rest ih =>
    intro hist hh
    have hi : i < 2 := hl i (by simp)
    have b := getD_lt2 hist hh
    have b0 := b 0; have b1 := b 1; have b2 := b 2; have b3 := b 3; have b4 := b 4; have b5 := b 5
    have b6 := b 6; have b7 := b 7; have b8 := b 8; have b9 := b 9; have b10 := b 10; have b11 := b 11
    have b12 := b 12; have b13 := b 13; have b14 := b 14; have b15 := b 15; have b16 := b 16
    have hr : enc hist < 131072 := by unfold enc; omega
    have hnext : enc hist / 2 + i * 65536 = enc (i :: hist) := by
      unfold enc
      simp only [List.getD_cons_zero, List.getD_cons_succ]
      omega
    have h16 : enc hist % 2 = hist.getD 16 0 := by unfold enc; omega
    have h11 : enc hist / 32 % 2 = hist.getD 11 0 := by unfold enc; omega
    simp only [lfsrRun, descrL, lfsrNext_bits (enc hist) i hr hi]
    rw [hnext, ih (fun x hx => hl x (by simp [hx])) (i :: hist)
      (by intro x hx; rcases List.mem_cons.mp hx with rfl | h; exact hi; exact hh x h), h16, h11]
    congr 1
    rw [Nat.xor_comm (hist.getD 16 0), Nat.xor_comm _ i, Nat.xor_assoc]

/-- a step depends only on the 17 newest history entries -/
theorem descrL_take17 (l : List Nat) : ∀ h1 h2 : List Nat, h1.take 17 = h2.take 17 → descrL h1 l = descrL h2 l := by
  induction l with
  | nil => intro _ _ _; rfl
  | cons i rest ih =>
    intro h1 h2 h
    have g : ∀ k, k < 17 → h1.getD k 0 = h2.getD k 0 := by
      intro k hk
      have e1 : h1.getD k 0 = (h1.take 17).getD k 0 := by
        simp [List.getD_eq_getElem?_getD, List.getElem?_take, hk]
      have e2 : h2.getD k 0 = (h2.take 17).getD k 0 := by
        simp [List.getD_eq_getElem?_getD, List.getElem?_take, hk]
      rw [e1, e2, h]
    simp only [descrL]
    rw [g 11 (by omega), g 16 (by omega)]
    congr 1
    apply ih
    simp only [List.take_succ_cons]
    congr 1
    have : h1.take 16 = (h1.take 17).take 16 := by rw [List.take_take]; rfl
    rw [this, h, List.take_take]; rfl

theorem descrL_append (a b hist : List Nat) :
    descrL hist (a ++ b) = descrL hist a ++ descrL (a.reverse ++ hist) b := by
  induction a generalizing hist with
  | nil => rfl
  | cons x rest ih =>
    simp only [List.cons_append, descrL, ih, List.reverse_cons, List.append_assoc, List.nil_append]

theorem scrL_append (a b hist : List Nat) :
    scrL hist (a ++ b) = scrL hist a ++ scrL ((scrL hist a).reverse ++ hist) b := by
  induction a generalizing hist with
  | nil => rfl
  | cons x rest ih =>
    simp only [List.cons_append, scrL, ih, List.reverse_cons, List.append_assoc, List.nil_append]

theorem scrL_length (l hist : List Nat) : (scrL hist l).length = l.length := by
  induction l generalizing hist with
  | nil => rfl
  | cons x rest ih => simp [scrL, ih]

theorem descrL_length (l hist : List Nat) : (descrL hist l).length = l.length := by
  induction l generalizing hist with
  | nil => rfl
  | cons x rest ih => simp [descrL, ih]

/-- **The descrambler inverts the scrambler** when both start from the same history. -/
theorem descr_scr (l hist : List Nat) : descrL hist (scrL hist l) = l := by
  induction l generalizing hist with
  | nil => rfl
  | cons d rest ih =>
    simp only [scrL, descrL, ih]
    congr 1
    generalize hist.getD 11 0 = a
    generalize hist.getD 16 0 = b
    rw [Nat.xor_assoc, Nat.xor_assoc, Nat.xor_assoc, ← Nat.xor_assoc b, Nat.xor_comm b a, Nat.xor_assoc a,
      Nat.xor_self, Nat.xor_zero, Nat.xor_self, Nat.xor_zero]

theorem scrL_bits (l hist : List Nat) (hl : ∀ x ∈ l, x < 2) (hh : ∀ x ∈ hist, x < 2) :
    ∀ x ∈ scrL hist l, x < 2 := by
  induction l generalizing hist with
  | nil => intro x hx; simp [scrL] at hx
  | cons d rest ih =>
    intro x hx
    simp only [scrL, List.mem_cons] at hx
    have hd : d < 2 := hl d (by simp)
    have ha := getD_lt2 hist hh 11
    have hb := getD_lt2 hist hh 16
    have ho : d ^^^ hist.getD 11 0 ^^^ hist.getD 16 0 < 2 :=
      Nat.xor_lt_two_pow (n := 1) (Nat.xor_lt_two_pow (n := 1) hd ha) hb
    rcases hx with rfl | hx
    · exact ho
    · exact ih _ (fun y hy => hl y (by simp [hy]))
        (by intro y hy; rcases List.mem_cons.mp hy with rfl | h; exact ho; exact hh y h) x hx

end RR.Lfsr
