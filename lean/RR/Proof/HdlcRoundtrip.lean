import RR.Proof.HdlcTable

/-!
HDLC round trip: the deframer model recovers every framed payload.
-/
namespace RR.Hdlc
open RR.HdlcSpec

/-! ### destuffing -/

theorem run_nil (cfg : Cfg) (s : State) : run cfg s [] = (s, []) := rfl

theorem run_cons_none (cfg : Cfg) (s s1 : State) (b : Nat) (rest : List Nat)
    (h : step cfg s b = (s1, none)) : run cfg s (b :: rest) = run cfg s1 rest := by
  simp only [run, h]

theorem step_data_one (cfg : Cfg) (ones : Nat) (acc : List Nat) (h5 : ones < 5)
    (hl : acc.length ≤ cfg.maxSize * 8 + 7) :
    step cfg (.synced ones acc) 1 = (.synced (ones + 1) (1 :: acc), none) := by
  have h1 : ¬ acc.length > cfg.maxSize * 8 + 7 := by omega
  have h2 : (ones == 5) = false := by simp; omega
  simp [step, h1, h2]

theorem step_data_zero (cfg : Cfg) (ones : Nat) (acc : List Nat) (h5 : ones < 5)
    (hl : acc.length ≤ cfg.maxSize * 8 + 7) :
    step cfg (.synced ones acc) 0 = (.synced 0 (0 :: acc), none) := by
  have h1 : ¬ acc.length > cfg.maxSize * 8 + 7 := by omega
  have h2 : (ones == 5) = false := by simp; omega
  simp [step, h1, h2]

theorem step_stuffed_zero (cfg : Cfg) (acc : List Nat) (hl : acc.length ≤ cfg.maxSize * 8 + 7) :
    step cfg (.synced 5 acc) 0 = (.synced 0 acc, none) := by
  have h1 : ¬ acc.length > cfg.maxSize * 8 + 7 := by omega
  simp [step, h1]

/-- The stuffed form of the data bits `d` is collected as exactly `d` (newest first), no packet. -/
theorem run_stuffed (cfg : Cfg) (d : List Nat) (hd : ∀ b ∈ d, b ≤ 1) :
    ∀ (ones : Nat) (acc : List Nat), ones < 5 → acc.length + d.length ≤ cfg.maxSize * 8 + 7 →
      ∃ ones', ones' < 5 ∧
        ∀ tail, run cfg (.synced ones acc) (stuffFrom ones d ++ tail) =
          run cfg (.synced ones' (d.reverse ++ acc)) tail := by
  induction d with
  | nil => intro ones acc h5 _; exact ⟨ones, h5, fun tail => by simp [stuffFrom]⟩
  | cons b rest ih =>
    intro ones acc h5 hl
    have hb : b ≤ 1 := hd b (by simp)
    have hrest : ∀ x ∈ rest, x ≤ 1 := fun x hx => hd x (by simp [hx])
    simp only [List.length_cons] at hl
    rcases (by omega : b = 0 ∨ b = 1) with rfl | rfl
    · -- data bit 0
      obtain ⟨o', ho', hrun⟩ := ih hrest 0 (0 :: acc) (by omega) (by simp only [List.length_cons]; omega)
      refine ⟨o', ho', fun tail => ?_⟩
      have hs : stuffFrom ones (0 :: rest) = 0 :: stuffFrom 0 rest := by simp [stuffFrom]
      rw [hs, List.cons_append, run_cons_none cfg _ _ _ _ (step_data_zero cfg ones acc h5 (by omega)), hrun tail]
      simp
    · by_cases h4 : ones + 1 = 5
      · -- fifth one: a zero is stuffed after it
        obtain ⟨o', ho', hrun⟩ := ih hrest 0 (1 :: acc) (by omega) (by simp only [List.length_cons]; omega)
        refine ⟨o', ho', fun tail => ?_⟩
        have hs : stuffFrom ones (1 :: rest) = 1 :: 0 :: stuffFrom 0 rest := by simp [stuffFrom, h4]
        rw [hs, List.cons_append, List.cons_append,
          run_cons_none cfg _ _ _ _ (step_data_one cfg ones acc h5 (by omega)), h4,
          run_cons_none cfg _ _ _ _ (step_stuffed_zero cfg (1 :: acc) (by simp only [List.length_cons]; omega)),
          hrun tail]
        simp
      · obtain ⟨o', ho', hrun⟩ := ih hrest (ones + 1) (1 :: acc) (by omega) (by simp only [List.length_cons]; omega)
        refine ⟨o', ho', fun tail => ?_⟩
        have hs : stuffFrom ones (1 :: rest) = 1 :: stuffFrom (ones + 1) rest := by simp [stuffFrom, h4]
        rw [hs, List.cons_append, run_cons_none cfg _ _ _ _ (step_data_one cfg ones acc h5 (by omega)), hrun tail]
        simp

/-! ### bytes ↔ bits -/

theorem bits2byte_byteBits_all : (List.range 256).all (fun b => bits2byte (byteBits b) == b) = true := by
  decide +kernel

theorem bits2byte_byteBits (b : Nat) (h : b < 256) : bits2byte (byteBits b) = b := by
  have := List.all_eq_true.mp bits2byte_byteBits_all b (List.mem_range.mpr h)
  simpa using this

theorem byteBits_eq (b : Nat) : byteBits b =
    [(b >>> 0) % 2, (b >>> 1) % 2, (b >>> 2) % 2, (b >>> 3) % 2, (b >>> 4) % 2, (b >>> 5) % 2, (b >>> 6) % 2,
      (b >>> 7) % 2] := by
  simp [byteBits, List.range_succ]

theorem toBytes_lsbBits (bytes : List Nat) (hb : ∀ b ∈ bytes, b < 256) : toBytes (lsbBits bytes) = bytes := by
  induction bytes with
  | nil => rfl
  | cons b rest ih =>
    have e : lsbBits (b :: rest) = byteBits b ++ lsbBits rest := by simp [lsbBits]
    rw [e, byteBits_eq]
    simp only [List.cons_append, List.nil_append, toBytes]
    rw [← byteBits_eq, bits2byte_byteBits b (hb b (by simp)), ih (fun x hx => hb x (by simp [hx]))]

theorem lsbBits_length (bytes : List Nat) : (lsbBits bytes).length = 8 * bytes.length := by
  induction bytes with
  | nil => rfl
  | cons b rest ih =>
    have e : lsbBits (b :: rest) = byteBits b ++ lsbBits rest := by simp [lsbBits]
    rw [e, List.length_append, ih]
    simp [byteBits]
    omega

theorem lsbBits_bits (bytes : List Nat) : ∀ x ∈ lsbBits bytes, x ≤ 1 := by
  intro x hx
  simp only [lsbBits, List.mem_flatMap, byteBits, List.mem_map] at hx
  obtain ⟨_, _, _, _, rfl⟩ := hx
  omega

theorem crcBitwise_lt (data : List Nat) (hb : ∀ b ∈ data, b < 256) : crcBitwise data < 65536 := by
  unfold crcBitwise
  have : ∀ fcs, fcs < 65536 → data.foldl (fun fcs byte => crcStep8 (fcs ^^^ byte)) fcs < 65536 := by
    induction data with
    | nil => intro fcs h; exact h
    | cons b rest ih =>
      intro fcs h
      simp only [List.foldl_cons]
      exact ih (fun x hx => hb x (by simp [hx])) _
        (crcStep8_lt _ (Nat.xor_lt_two_pow (n := 16) h (by have := hb b (by simp); omega)))
  exact Nat.xor_lt_two_pow (n := 16) (this _ (by decide)) (by decide)

/-! ### the closing flag -/

/-- After the data bits of payload `p` (+ checksum) have been collected, the
closing flag delivers exactly `p`. -/
theorem run_closing (cfg : Cfg) (p : List Nat) (hp : ∀ b ∈ p, b < 256) (ones : Nat) (h5 : ones < 5)
    (hs : cfg.stripChecksum = true) (hmin : cfg.minSize ≤ p.length + 2) (hmax : p.length + 2 ≤ cfg.maxSize) :
    run cfg (.synced ones ((lsbBits (p ++ le16 (crcBitwise p))).reverse)) flag = (.synced 0 [], [p]) := by
  have hcrc := crcBitwise_lt p hp
  generalize hacc : (lsbBits (p ++ le16 (crcBitwise p))).reverse = acc
  have hlen : acc.length = 8 * (p.length + 2) := by
    rw [← hacc, List.length_reverse, lsbBits_length]; simp [le16]
  have hl : ∀ k, k ≤ 6 → acc.length + k ≤ cfg.maxSize * 8 + 7 := by intro k hk; omega
  unfold flag
  rw [run_cons_none cfg _ _ _ _ (step_data_zero cfg ones acc h5 (by have := hl 0; omega)),
    run_cons_none cfg _ _ _ _ (step_data_one cfg 0 (0 :: acc) (by omega) (by simp only [List.length_cons]; have := hl 1; omega)),
    run_cons_none cfg _ _ _ _ (step_data_one cfg 1 (1 :: 0 :: acc) (by omega) (by simp only [List.length_cons]; have := hl 2; omega)),
    run_cons_none cfg _ _ _ _ (step_data_one cfg 2 (1 :: 1 :: 0 :: acc) (by omega) (by simp only [List.length_cons]; have := hl 3; omega)),
    run_cons_none cfg _ _ _ _ (step_data_one cfg 3 (1 :: 1 :: 1 :: 0 :: acc) (by omega) (by simp only [List.length_cons]; have := hl 4; omega)),
    run_cons_none cfg _ _ _ _ (step_data_one cfg 4 (1 :: 1 :: 1 :: 1 :: 0 :: acc) (by omega) (by simp only [List.length_cons]; have := hl 5; omega))]
  -- sixth one: FinalCheck
  have h6 : step cfg (.synced 5 (1 :: 1 :: 1 :: 1 :: 1 :: 0 :: acc)) 1 =
      (.finalCheck (1 :: 1 :: 1 :: 1 :: 1 :: 1 :: 0 :: acc), none) := by
    have := hl 6 (by omega)
    simp [step]
    omega
  rw [run_cons_none cfg _ _ _ _ h6]
  -- the closing zero
  have hbytes : toBytes ((List.drop 7 (1 :: 1 :: 1 :: 1 :: 1 :: 1 :: 0 :: acc)).reverse) = p ++ le16 (crcBitwise p) := by
    simp only [List.drop_succ_cons, List.drop_zero]
    rw [← hacc, List.reverse_reverse]
    apply toBytes_lsbBits
    intro b hb
    rcases List.mem_append.mp hb with h | h
    · exact hp b h
    · simp only [le16, List.mem_cons, List.not_mem_nil, or_false] at h
      rcases h with rfl | rfl <;> omega
  have hfin : step cfg (.finalCheck (1 :: 1 :: 1 :: 1 :: 1 :: 1 :: 0 :: acc)) 0 = (.synced 0 [], some p) := by
    have hdl : ((List.drop 7 (1 :: 1 :: 1 :: 1 :: 1 :: 1 :: 0 :: acc)).reverse).length = 8 * (p.length + 2) := by
      simp [hlen]
    have hblen : (p ++ le16 (crcBitwise p)).length = p.length + 2 := by simp [le16]
    have htake : (p ++ le16 (crcBitwise p)).take (p.length + 2 - 2) = p := by simp
    have hgot : (p ++ le16 (crcBitwise p)).getD (p.length + 2 - 2) 0 +
        256 * (p ++ le16 (crcBitwise p)).getD (p.length + 2 - 1) 0 = crcBitwise p := by
      have e1 : (p ++ le16 (crcBitwise p)).getD (p.length + 2 - 2) 0 = crcBitwise p % 256 := by
        simp [le16, List.getD_eq_getElem?_getD, List.getElem?_append_right]
      have e2 : (p ++ le16 (crcBitwise p)).getD (p.length + 2 - 1) 0 = crcBitwise p / 256 := by
        simp [le16, List.getD_eq_getElem?_getD, List.getElem?_append_right]
      rw [e1, e2]; omega
    simp only [step]
    rw [hbytes, hdl, hblen]
    have c1 : ((0 : Nat) == 1) = false := rfl
    have c2 : ¬ (1 :: 1 :: 1 :: 1 :: 1 :: 1 :: 0 :: acc).length < 7 := by simp
    have c3 : ¬ ((8 * (p.length + 2)) % 8 != 0) = true := by simp
    have c4 : ¬ 8 * (p.length + 2) / 8 < cfg.minSize := by omega
    have c5 : ¬ (cfg.stripChecksum && decide (p.length + 2 < 2)) = true := by simp
    simp only [c1, Bool.false_eq_true, if_false, c2, c3, c4, c5, hs, if_true, htake, hgot]
    have hcalc : calcCrc p = crcBitwise p := calcCrc_eq_bitwise p hp
    simp [findRightCrc, hcalc]
  simp only [run, hfin]

/-- the opening flag, from the initial state -/
theorem run_opening (cfg : Cfg) : run cfg init flag = (.synced 0 [], []) := by
  have hf : Gen.hdlcFlag = 126 := by decide
  simp [run, step, init, flag, hf]

end RR.Hdlc

namespace RR.Hdlc
open RR.HdlcSpec

theorem run_append (cfg : Cfg) (a b : List Nat) (s : State) :
    run cfg s (a ++ b) = ((run cfg (run cfg s a).1 b).1, (run cfg s a).2 ++ (run cfg (run cfg s a).1 b).2) := by
  induction a generalizing s with
  | nil => simp [run]
  | cons x rest ih =>
    simp only [List.cons_append, run]
    rw [ih]
    cases (step cfg s x).2 <;> simp

/-- the stuffed body of a frame followed by a flag, starting right after a flag -/
def body (p : List Nat) : List Nat := stuff (lsbBits (p ++ le16 (crcBitwise p))) ++ flag

/-- **One frame after a flag**: exactly the payload, and the deframer is again
right after a flag (so the closing flag may open the next frame). -/
theorem run_body (cfg : Cfg) (p : List Nat) (hp : ∀ b ∈ p, b < 256)
    (hs : cfg.stripChecksum = true) (hmin : cfg.minSize ≤ p.length + 2) (hmax : p.length + 2 ≤ cfg.maxSize) :
    run cfg (.synced 0 []) (body p) = (.synced 0 [], [p]) := by
  unfold body stuff
  have hlen : (lsbBits (p ++ le16 (crcBitwise p))).length = 8 * (p.length + 2) := by
    rw [lsbBits_length]; simp [le16]
  obtain ⟨o', ho', hrun⟩ := run_stuffed cfg (lsbBits (p ++ le16 (crcBitwise p))) (lsbBits_bits _) 0 []
    (by omega) (by simp only [List.length_nil, hlen]; omega)
  rw [hrun flag, List.append_nil]
  exact run_closing cfg p hp o' ho' hs hmin hmax

/-- an extra (idle) flag between frames changes nothing -/
theorem run_idle_flag (cfg : Cfg) (hs : cfg.stripChecksum = true) :
    run cfg (.synced 0 []) flag = (.synced 0 [], []) := by
  unfold flag
  rw [run_cons_none cfg _ _ _ _ (step_data_zero cfg 0 [] (by omega) (by simp)),
    run_cons_none cfg _ _ _ _ (step_data_one cfg 0 [0] (by omega) (by simp)),
    run_cons_none cfg _ _ _ _ (step_data_one cfg 1 [1, 0] (by omega) (by simp)),
    run_cons_none cfg _ _ _ _ (step_data_one cfg 2 [1, 1, 0] (by omega) (by simp)),
    run_cons_none cfg _ _ _ _ (step_data_one cfg 3 [1, 1, 1, 0] (by omega) (by simp)),
    run_cons_none cfg _ _ _ _ (step_data_one cfg 4 [1, 1, 1, 1, 0] (by omega) (by simp))]
  have h6 : step cfg (.synced 5 [1, 1, 1, 1, 1, 0]) 1 = (.finalCheck [1, 1, 1, 1, 1, 1, 0], none) := by
    simp [step]
  rw [run_cons_none cfg _ _ _ _ h6]
  have hfin : step cfg (.finalCheck [1, 1, 1, 1, 1, 1, 0]) 0 = (.synced 0 [], none) := by
    simp [step, hs, toBytes]
  simp only [run, hfin]

/-- Any number of frames back to back (shared flags), each optionally followed by idle flags. -/
theorem run_bodies (cfg : Cfg) (hs : cfg.stripChecksum = true) (ps : List (List Nat × Nat))
    (hps : ∀ q ∈ ps, (∀ b ∈ q.1, b < 256) ∧ cfg.minSize ≤ q.1.length + 2 ∧ q.1.length + 2 ≤ cfg.maxSize) :
    run cfg (.synced 0 []) (ps.flatMap fun q => body q.1 ++ (List.replicate q.2 flag).flatten) =
      (.synced 0 [], ps.map (·.1)) := by
  induction ps with
  | nil => rfl
  | cons q rest ih =>
    obtain ⟨h1, h2, h3⟩ := hps q (by simp)
    have hidle : ∀ n, run cfg (.synced 0 []) (List.replicate n flag).flatten = (.synced 0 [], []) := by
      intro n
      induction n with
      | zero => rfl
      | succ n ihn =>
        rw [List.replicate_succ, List.flatten_cons, run_append, run_idle_flag cfg hs, ihn]
        rfl
    rw [List.flatMap_cons, run_append, run_append, run_body cfg q.1 h1 hs h2 h3, hidle q.2,
      ih (fun x hx => hps x (by simp [hx]))]
    simp

end RR.Hdlc
