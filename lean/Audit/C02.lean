import RR.Props.C02
open RR.Props.C02
#print axioms c02_tags_refine
#print axioms c02_consume_drops_exactly
#print axioms c02_consume_zero
#print axioms c02_filter_redundant
#print axioms c02_commit_places_tags
#print axioms c02_old_consume_zero_lost_tags
