import RR.Props.C01
open RR.Props.C01
#print axioms c01_refines_fifo
#print axioms c01_read_plus_write
#print axioms c01_overcommit_refused
#print axioms c01_overconsume_refused
#print axioms c01_elem_size
#print axioms c01_elem_size_witness
#print axioms c01_bad_elem_size_refused
#print axioms c01_good_size_accepted
