#!/usr/bin/env python3
"""Translator: regenerates /verif/lean/RR/Gen/*.lean from /repo's current source.

Everything in RR/Gen is data or ordering taken from the source text; the
property theorems are stated about these generated definitions, so that
`lake build` re-checks them against what the code says now.
"""
import os
import re
import sys

REPO = os.environ.get("VERIF_REPO", "/repo")
GEN = os.path.join(os.path.dirname(os.path.dirname(os.path.abspath(__file__))), "lean", "RR", "Gen")


def write_if_changed(path, content):
    old = open(path).read() if os.path.exists(path) else None
    if old != content:
        with open(path, "w") as f:
            f.write(content)


def main():
    os.makedirs(GEN, exist_ok=True)
    gens = []
    for name, fn in sorted(globals().items()):
        if name.startswith("gen_") and callable(fn):
            gens.append(fn)
    for fn in gens:
        fname, content = fn()
        write_if_changed(os.path.join(GEN, fname), content)


if __name__ == "__main__":
    main()
