#!/usr/bin/env python3
"""Translator: regenerates /verif/lean/RR/Gen/*.lean from /repo's current source.

Everything in RR/Gen is data or ordering taken from the source text; the
property theorems are stated about these generated definitions, so that
`lake build` re-checks them against what the code says now.
"""
import os
import re
import sys

REPO = os.environ.get("VERIF_REPO", "/repo")
GEN = os.path.join(os.path.dirname(os.path.dirname(os.path.abspath(__file__))), "lean", "RR", "Gen")


def write_if_changed(path, content):
    old = open(path).read() if os.path.exists(path) else None
    if old != content:
        with open(path, "w") as f:
            f.write(content)


def strip_rust(src):
    """Remove comments; blank out string/char literal contents (keeps offsets roughly, keeps braces balanced)."""
    out = []
    i, n = 0, len(src)
    while i < n:
        c = src[i]
        if src.startswith("//", i):
            j = src.find("\n", i)
            j = n if j < 0 else j
            i = j
        elif src.startswith("/*", i):
            j = src.find("*/", i + 2)
            j = n if j < 0 else j + 2
            out.append(" " * 1)
            i = j
        elif c == '"':
            j = i + 1
            while j < n and src[j] != '"':
                j += 2 if src[j] == "\\" else 1
            out.append('""')
            i = j + 1
        elif c == "'" and i + 2 < n and (src[i + 2] == "'" or (src[i + 1] == "\\" and src.find("'", i + 2) - i <= 4)):
            j = src.find("'", i + 2 if src[i + 1] == "\\" else i + 1)
            out.append("' '")
            i = j + 1
        else:
            out.append(c)
            i += 1
    return "".join(out)



INT_LIT = r"(?:0x[0-9a-fA-F_]+|0b[01_]+|0o[0-7_]+|\d[\d_]*)(?:_?(?:u8|u16|u32|u64|u128|usize|i8|i16|i32|i64|i128|isize))?"
_MAXES = {"u8::MAX": 0xff, "u16::MAX": 0xffff, "u32::MAX": 0xffffffff, "u64::MAX": (1 << 64) - 1,
          "usize::MAX": (1 << 64) - 1, "i16::MAX": 0x7fff, "i32::MAX": 0x7fffffff}


def parse_int(tok):
    tok = re.sub(r"_?(?:u8|u16|u32|u64|u128|usize|i8|i16|i32|i64|i128|isize)$", "", tok.strip())
    return int(tok.replace("_", ""), 0)


def const_env(src):
    """name -> integer value of every `const/static/let NAME[: T] = <integer expression>;` of the file whose right
    hand side can be evaluated (literals in any base, other such names, + - * << >> | & ^ and parentheses, `as T`
    casts, `T::MAX`)."""
    raw = {}
    for m in re.finditer(r"\b(?:const|static|let)\s+(?:mut\s+)?([A-Za-z_]\w*)\s*(?::\s*[^=;]+?)?=\s*([^;{}]+);", src):
        raw.setdefault(m.group(1), m.group(2).strip())
    env = {}

    def ev(expr, depth=0):
        if depth > 8:
            raise ValueError("too deep")
        e = re.sub(r"\bas\s+\w+", "", expr)
        for k, v in _MAXES.items():
            e = e.replace(k, str(v))
        e = re.sub(r"\b(?:u8|u16|u32|u64|usize|i32|i64)::from\s*\(", "(", e)

        def lit(mm):
            return str(parse_int(mm.group(0)))
        e = re.sub(INT_LIT, lit, e)

        def name(mm):
            n = mm.group(0)
            if n in env:
                return str(env[n])
            if n in raw and n not in expr.split("=")[0:0]:
                return str(ev(raw[n], depth + 1))
            raise ValueError("unknown name " + n)
        e = re.sub(r"[A-Za-z_]\w*", name, e)
        if not re.fullmatch(r"[0-9\s()+\-*|&^<>~]+", e):
            raise ValueError("not an integer expression: " + expr)
        return int(eval(e, {"__builtins__": {}}, {}))  # digits and operators only
    for n, rhs in raw.items():
        try:
            env[n] = ev(rhs)
        except Exception:
            pass
    return env


def int_value(tok, env):
    """an argument that is an integer literal, a known constant or a simple expression over them"""
    tok = tok.strip()
    try:
        return parse_int(tok)
    except Exception:
        pass
    if tok in env:
        return env[tok]
    e = tok
    for k, v in _MAXES.items():
        e = e.replace(k, str(v))
    e = re.sub(r"\bas\s+\w+", "", e)
    e = re.sub(INT_LIT, lambda mm: str(parse_int(mm.group(0))), e)
    e = re.sub(r"[A-Za-z_]\w*", lambda mm: str(env[mm.group(0)]) if mm.group(0) in env else mm.group(0), e)
    if re.fullmatch(r"[0-9\s()+\-*|&^<>~]+", e):
        return int(eval(e, {"__builtins__": {}}, {}))
    raise ValueError("cannot evaluate " + tok)


def block_at(src, open_idx):
    """Text of the brace block that opens at src[open_idx] == '{' (inclusive)."""
    depth = 0
    for j in range(open_idx, len(src)):
        if src[j] == "{":
            depth += 1
        elif src[j] == "}":
            depth -= 1
            if depth == 0:
                return src[open_idx:j + 1]
    raise ValueError("unbalanced braces")


def fn_bodies(src):
    """List of (impl header, fn name, body) for every fn inside an impl block."""
    res = []
    for m in re.finditer(r"\bimpl\b([^{;]*)\{", src):
        header = " ".join(m.group(1).split())
        body = block_at(src, m.end() - 1)
        for f in re.finditer(r"\bfn\s+(\w+)", body):
            # skip generics (may nest), then the parameter list, up to the body brace
            j, depth = f.end(), 0
            while j < len(body) and not (body[j] == "(" and depth == 0):
                if body[j] == "<":
                    depth += 1
                elif body[j] == ">" and body[j - 1] != "-":
                    depth -= 1
                j += 1
            k = body.find("{", j)
            semi = body.find(";", j)
            if k < 0 or (0 <= semi < k):
                continue
            res.append((header, f.group(1), block_at(body, k)))
    return res


def all_fn_bodies(src):
    """name -> bodies of every fn of the file (methods and free functions)."""
    res = {}
    for f in re.finditer(r"\bfn\s+(\w+)", src):
        j, depth = f.end(), 0
        while j < len(src) and not (src[j] == "(" and depth == 0):
            if src[j] == "<":
                depth += 1
            elif src[j] == ">" and src[j - 1] != "-":
                depth -= 1
            j += 1
        k = src.find("{", j)
        semi = src.find(";", j)
        if k < 0 or (0 <= semi < k):
            continue
        try:
            res.setdefault(f.group(1), []).append(block_at(src, k))
        except ValueError:
            pass
    return res


def find_fn(bodies, impl_pat, name):
    hits = [b for (h, n, b) in bodies if n == name and re.search(impl_pat, h)]
    if len(hits) != 1:
        raise SystemExit(f"extract: expected exactly one fn {name} in impl matching /{impl_pat}/, found {len(hits)}")
    return hits[0]


def order_of(body, alive_pats, avail_pats):
    """Textual (= evaluation, for straight-line code) order of the liveness read and the amount read."""
    def first(pats):
        idx = [m.start() for p in pats for m in re.finditer(p, body)]
        return min(idx) if idx else None
    a, u = first(alive_pats), first(avail_pats)
    if a is None and u is None:
        return []
    if u is None:
        return ["alive"]
    if a is None:
        return ["avail"]
    return ["alive", "avail"] if a < u else ["avail", "alive"]


ALIVE0 = [r"strong_count", r"\.refcount\(\)", r"\.closed\(\)"]
ALIVE = list(ALIVE0)


def gen_waits():
    src = strip_rust(open(os.path.join(REPO, "src", "stream.rs")).read())
    bodies = fn_bodies(src)
    progs = {}
    # a private helper whose body reads the reference count is a liveness read where it is called
    global ALIVE
    # (transitively: `sole_owner()` calling `refcount()` calling `Arc::strong_count`), computed as a fixpoint
    ALIVE = list(ALIVE0)
    while True:
        more = [r"\.%s\s*\(" % n for (_, n, fb) in bodies
                if any(re.search(p, fb) for p in ALIVE)
                and n not in ("wait_for_read", "wait_for_write", "eof", "wait", "closed") and len(fb) < 200]
        more = [m for m in more if m not in ALIVE]
        if not more:
            break
        ALIVE += more
    b = find_fn(bodies, r"^<T: Copy> ReadStream<T>$", "wait_for_read")
    progs["readWait"] = order_of(b, ALIVE, [r"\.wait_for_read\("])
    b = find_fn(bodies, r"^<T: Copy> WriteStream<T>$", "wait_for_write")
    progs["writeWait"] = order_of(b, ALIVE, [r"\.wait_for_write\("])
    b = find_fn(bodies, r"^<T: Copy> ReadStream<T>$", "eof")
    progs["readEof"] = order_of(b, ALIVE, [r"\.read_buf\(", r"\.is_empty\(", r"\.wait_for_read\("])
    b = find_fn(bodies, r"^<T> NCReadStream<T>$", "eof")
    progs["ncReadEof"] = order_of(b, ALIVE, [r"\.lock\(\)", r"\.is_empty\(", r"\.len\("])
    b = find_fn(bodies, r"StreamWait for NCReadStream<T>$", "wait")
    # the guard returned by wait_timeout_while is bound to a name; while that binding is live
    # (not dropped, same block) the liveness read happens under the lock: one atomic observation
    # (`let l = …` or a tuple pattern `let (queue, _timeout) = …`: the guard is the first component)
    g = re.search(r"let\s+(?:mut\s+)?(?:\(\s*)?(?:mut\s+)?(\w+)[^=;]*=\s*\w+\s*\.wait_timeout_while", b)
    order = order_of(b, ALIVE, [r"wait_timeout_while"])
    if g and order == ["avail", "alive"] and g.group(1) != "_":
        alive_at = min(m.start() for p in ALIVE for m in re.finditer(p, b))
        between = b[g.start():alive_at]
        # the block that holds the binding is still open at the liveness read, and the guard was not dropped
        depth, closed = 0, False
        for ch in between:
            if ch == "{":
                depth += 1
            elif ch == "}":
                depth -= 1
                if depth < 0:
                    closed = True
        if not closed and not re.search(r"drop\(\s*%s\s*\)" % g.group(1), between):
            order = ["both"]
    progs["ncReadWait"] = order
    b = find_fn(bodies, r"StreamWait for NCWriteStream<T>$", "wait")
    progs["ncWriteWait"] = order_of(b, ALIVE, [r"\.lock\(\)", r"\.len\("])
    lines = ["import RR.Model.Wait", "",
             "/-! GENERATED by tools/extract.py from /repo/src/stream.rs on every run: the order in which each",
             "end-of-stream decision reads the amount available and the peer's liveness. Do not edit. -/",
             "namespace RR.Gen", "open RR.Wait", ""]
    for k in ["readWait", "writeWait", "readEof", "ncReadWait", "ncReadEof", "ncWriteWait"]:
        lines.append("def %s : List Obs := [%s]" % (k, ", ".join("." + x for x in progs[k])))
    lines += ["", "end RR.Gen", ""]
    return "Waits.lean", "\n".join(lines)


def gen_conc():
    """Critical-section shape of the ring's bookkeeping functions: the Conc model (C03) treats each of
    them as ONE atomic step, which holds iff the function takes the state lock once and does not
    release it before its last state update."""
    src = strip_rust(open(os.path.join(REPO, "src", "circular_buffer.rs")).read())
    bodies = fn_bodies(src)
    rows = []
    for name in ["consume", "produce", "read_buf", "write_buf"]:
        # (helpers of the file are inlined: a lock taken inside a helper that the function calls is a lock it takes)
        b = inline_helpers(src, find_fn(bodies, r"^<T: Copy> Buffer<T>$", name),
                           skip=("consume", "produce", "read_buf", "write_buf", "new", "drop", "slice", "slice_mut"))
        locks = len(re.findall(r"\.lock\(\)", b))
        # a call `self.helper(…)` of a method of this file that takes the lock itself is one more acquisition
        lockers = {n for n, bs in all_fn_bodies(src).items() if any(re.search(r"\.lock\(\)", x) for x in bs)}
        locks += len([m for m in re.finditer(r"\bself\s*\.\s*(\w+)\s*\(", b) if m.group(1) in lockers])
        writes = [m.start() for m in re.finditer(r"\bs\s*\.\s*[\w.()]+\s*(=[^=]|\+=|-=)|\bs\s*\.\s*tags\s*\.\s*(entry|retain|remove|insert|clear)", b)]
        last_write = max(writes) if writes else -1
        early_drops = len([m for m in re.finditer(r"\bdrop\(\s*s\s*\)", b) if m.start() < last_write])
        rows.append((name, locks, early_drops))
    lines = ["/-! GENERATED by tools/extract.py from /repo/src/circular_buffer.rs on every run: for `Buffer::consume`,",
             "`produce`, `read_buf`, `write_buf` (in this order): (number of `lock()` calls, number of guard drops that",
             "precede the function's last state update). Do not edit. -/",
             "namespace RR.Gen", "",
             "def lockShape : List (Nat × Nat) := [%s]" % ", ".join("(%d, %d)" % (l, d) for (_, l, d) in rows),
             "", "end RR.Gen", ""]
    return "Conc.lean", "\n".join(lines)


def probe_hdlc():
    """Black-box constants of the compiled deframer (harness `rrh hdlc --probe-consts`): the flag octet it
    synchronises on and, for three payloads, the 16-bit frame check sequence it accepts."""
    import subprocess
    here = os.path.dirname(os.path.dirname(os.path.abspath(__file__)))
    rrh = os.environ.get("RRH_BIN") or os.path.join(here, "harness", "target", "release", "rrh")
    p = subprocess.run([rrh, "hdlc", "--probe-consts", "1"], stdout=subprocess.PIPE, stderr=subprocess.PIPE, text=True, timeout=300)
    vals = {}
    for line in p.stdout.split("\n"):
        m = re.match(r"#\s*probe\s+(\w+)\s+(.*)", line)
        if m:
            vals[m.group(1)] = m.group(2).strip()
    return vals


def crc_fold(tab, init, data):
    c = init
    for b in data:
        c = (c >> 8) ^ tab[(c ^ b) & 0xff]
    return c


def gen_hdlc():
    raw = open(os.path.join(REPO, "src", "hdlc_deframer.rs")).read()
    src = strip_rust(raw)
    m = re.search(r"(?:const|static)\s+FCSTAB\s*:\s*[^=]*=\s*&?\s*\[(.*?)\]\s*;", src, flags=re.S)
    if not m:
        raise SystemExit("extract: FCSTAB not found in hdlc_deframer.rs")
    vals = [parse_int(x) for x in re.findall(INT_LIT, m.group(1))]
    env = const_env(src)
    # The flag the deframer synchronises on, the CRC's initial value and final xor: taken from the COMPILED code by
    # black-box probing (the flag: which delimiter octet makes a frame come out; init/xorout: solved from the check
    # sequences the deframer accepts, with the table above) - independent of how the source spells them ...
    flag = init = xorout = None
    try:
        pr = probe_hdlc()
        flag = int(pr["flag"])
        if len(vals) == 256:
            obs = []
            for item in pr["fcs"].split(";"):
                payload, f = item.split("=")
                obs.append(([int(x) for x in payload.split(",") if x], int(f)))
            sol = [i for i in range(65536)
                   if all(crc_fold(vals, i, p) ^ crc_fold(vals, i, obs[0][0]) == f ^ obs[0][1] for p, f in obs)]
            # the byte step of this CRC has a non-zero fixed point d (0xf80f), so (init, xorout) and
            # (init ^ d, xorout ^ d) are the same function: at most such a pair comes out; the customary
            # spelling (0xffff) is preferred
            if 1 <= len(sol) <= 2:
                init = 0xffff if 0xffff in sol else sol[0]
                xorout = crc_fold(vals, init, obs[0][0]) ^ obs[0][1]
    except Exception:
        pass
    # ... and, only if the harness binary is not there (stand-alone use of this script), from the text as RFC 1662
    # code writes them (hex literals or upper-case constants)
    if flag is None or init is None or xorout is None:
        try:
            bodies = fn_bodies(src)
            upd = find_fn(bodies, r"HdlcDeframer$", "update_state")
            fm = re.search(r"[=!]=\s*(0x[0-9a-fA-F_]+|0b[01_]+|[A-Z_][A-Z0-9_]*)\b", upd)
            if fm and flag is None:
                flag = int_value(fm.group(1), env)
            crc = [b for n, bs in all_fn_bodies(src).items() if n == "calc_crc" for b in bs]
            if len(crc) == 1:
                im = re.search(r"fold\(\s*(%s|[A-Za-z_][\w:]*)" % INT_LIT, crc[0])
                xm = re.search(r"\^\s*(%s|[A-Za-z_][\w:]*)\s*\}?\s*$" % INT_LIT, crc[0].strip().rstrip("}").strip())
                if im and init is None:
                    init = int_value(im.group(1), env)
                if xm and xorout is None:
                    xorout = int_value(xm.group(1), env)
        except Exception:
            pass
    if flag is None or init is None or xorout is None:
        raise SystemExit("extract: flag / CRC constants not found in hdlc_deframer.rs")
    lines = ["/-! GENERATED by tools/extract.py from /repo/src/hdlc_deframer.rs on every run. Do not edit. -/",
             "namespace RR.Gen", "",
             "def fcstab : List Nat := [" + ", ".join(str(v) for v in vals) + "]", "",
             f"def hdlcFlag : Nat := {flag}",
             f"def crcInit : Nat := {init}",
             f"def crcXorOut : Nat := {xorout}", "",
             "end RR.Gen", ""]
    return "Hdlc.lean", "\n".join(lines)


def open_flags(expr):
    """Flags of one `match mode` arm: an OpenOptions chain or File::create."""
    f = {"read": False, "write": False, "append": False, "create": False, "createNew": False, "truncate": False}
    if re.search(r"File\s*::\s*create\s*\(", expr):
        f.update(write=True, create=True, truncate=True)
        return f
    if not re.search(r"\.open\s*\(", expr):
        raise SystemExit("extract: cannot read open flags from: " + expr[:80])
    for name, key in [("read", "read"), ("write", "write"), ("append", "append"), ("create", "create"),
                      ("create_new", "createNew"), ("truncate", "truncate")]:
        m = re.search(r"\.%s\s*\(\s*(true|false)\s*\)" % name, expr)
        if m:
            f[key] = m.group(1) == "true"
    return f


def order_in(body, pats):
    """Names of the patterns in the order of their first textual occurrence in body."""
    found = []
    for name, pat in pats:
        m = re.search(pat, body)
        if m:
            found.append((m.start(), name))
    return [n for _, n in sorted(found)]


def probe_open_flags():
    """The flags the COMPILED sinks pass to open(2) in every mode (strace of `rrh fsink-open-probe`), as
    OpenOptions-level flags: {(sink, mode): flags}. Empty when strace or the harness binary is not available."""
    import subprocess
    import tempfile
    here = os.path.dirname(os.path.dirname(os.path.abspath(__file__)))
    rrh = os.environ.get("RRH_BIN") or os.path.join(here, "harness", "target", "release", "rrh")
    res = {}
    try:
        with tempfile.NamedTemporaryFile(suffix=".strace") as tf:
            r = subprocess.run(["strace", "-f", "-e", "trace=openat,open", "-o", tf.name, rrh, "fsink-open-probe"],
                               stdout=subprocess.DEVNULL, stderr=subprocess.DEVNULL, timeout=120)
            if r.returncode != 0:
                return {}
            for line in open(tf.name):
                m = re.search(r'open(?:at)?\((?:AT_FDCWD, )?"[^"]*probe-(\w+)-(\w+)", ([A-Z_|0-9x]+)', line)
                if m:
                    fl = set(m.group(3).split("|"))
                    res[(m.group(1), m.group(2))] = {
                        "read": "O_RDWR" in fl or ("O_RDONLY" in fl and "O_WRONLY" not in fl),
                        "write": "O_WRONLY" in fl or "O_RDWR" in fl,
                        "append": "O_APPEND" in fl,
                        "create": "O_CREAT" in fl and "O_EXCL" not in fl,
                        "createNew": "O_CREAT" in fl and "O_EXCL" in fl,
                        "truncate": "O_TRUNC" in fl}
    except Exception:
        return {}
    return res


def gen_filesink():
    src = strip_rust(open(os.path.join(REPO, "src", "file_sink.rs")).read())
    bodies = fn_bodies(src)
    probed = probe_open_flags()
    out = ["import RR.Model.FileSink", "",
           "/-! GENERATED by tools/extract.py from /repo/src/file_sink.rs on every run: the open flags of every mode of",
           "both sinks, the order of write / flush / consume inside each work(), and whether each I/O result is propagated with `?`. Do not edit. -/",
           "namespace RR.Gen", "open RR.FileSink", ""]
    for sink, impl_pat, lname in [("FileSink", r"^<T: Copy> FileSink<T>$", "fileSink"),
                                  ("NoCopyFileSink", r"^<T> NoCopyFileSink<T>$", "ncFileSink")]:
        if all((sink, mode) in probed for mode in ["Create", "Overwrite", "Append"]):
            # from the compiled code (strace): independent of how the source builds its OpenOptions
            for mode in ["Create", "Overwrite", "Append"]:
                f = probed[(sink, mode)]
                out.append("def %s%s : OpenFlags := { read := %s, write := %s, append := %s, create := %s, createNew := %s, truncate := %s }"
                           % (lname, mode, *[str(f[k]).lower() for k in ["read", "write", "append", "create", "createNew", "truncate"]]))
            continue
        # (stand-alone use without strace / harness: from the source text)
        new = find_fn(bodies, impl_pat, "new")
        if not re.search(r"Mode\s*::\s*Create\s*=>", new):
            # the open code may live in a private helper called from new()
            for hname, hbodies in all_fn_bodies(src).items():
                if hname != "new" and re.search(r"\b%s\s*\(" % hname, new):
                    for hb in hbodies:
                        if re.search(r"Mode\s*::\s*Create\s*=>", hb):
                            new = hb
        for mode in ["Create", "Overwrite", "Append"]:
            m = re.search(r"Mode\s*::\s*%s\s*=>(.*?)(?=Mode\s*::|\}\s*\)?\s*;)" % mode, new, flags=re.S)
            if not m:
                raise SystemExit(f"extract: arm Mode::{mode} not found in {sink}::new")
            f = open_flags(m.group(1))
            out.append("def %s%s : OpenFlags := { read := %s, write := %s, append := %s, create := %s, createNew := %s, truncate := %s }"
                       % (lname, mode, *[str(f[k]).lower() for k in ["read", "write", "append", "create", "createNew", "truncate"]]))
    def checked(body, ev):
        """Is the Result of the I/O call propagated with `?` (consume/pop cannot fail)."""
        if ev == "consume":
            return True
        pat = {"write": r"\.write_all\s*\((?:[^()]|\([^()]*\))*\)\s*(\?)?",
               "flush": r"\.flush\s*\(\s*\)\s*(\?)?"}[ev]
        m = re.search(pat, body)
        return bool(m and m.group(1))

    work = inline_helpers(src, find_fn(bodies, r"Block for FileSink<T>", "work"), skip=("work", "new"))
    order = order_in(work, [("write", r"\.write_all\s*\("), ("flush", r"\.flush\s*\("), ("consume", r"\.consume\s*\(")])
    out.append("def fileSinkWork : List Ev := [%s]" % ", ".join("." + x for x in order))
    out.append("def fileSinkWorkChecked : List (Ev × Bool) := [%s]"
               % ", ".join("(.%s, %s)" % (x, str(checked(work, x)).lower()) for x in order))
    work = inline_helpers(src, find_fn(bodies, r"Block for NoCopyFileSink<T>", "work"), skip=("work", "new"))
    order = order_in(work, [("consume", r"\.pop\s*\("), ("write", r"\.write_all\s*\("), ("flush", r"\.flush\s*\(")])
    out.append("def ncFileSinkWork : List Ev := [%s]" % ", ".join("." + x for x in order))
    out.append("def ncFileSinkWorkChecked : List (Ev × Bool) := [%s]"
               % ", ".join("(.%s, %s)" % (x, str(checked(work, x)).lower()) for x in order))
    out += ["", "end RR.Gen", ""]
    return "FileSink.lean", "\n".join(out)


def gen_e2e():
    """The receive chains of the two AX.25 examples: block order and the parameters the digital back end depends on."""
    out = ["/-! GENERATED by tools/extract.py from /repo/examples/ax25-1200-rx.rs and ax25-9600-rx.rs on every run:",
           "the order of the processing blocks after the input selection, and their numeric parameters. Do not edit. -/",
           "namespace RR.Gen", ""]
    for fname, lname in [("ax25-1200-rx.rs", "rx1200"), ("ax25-9600-rx.rs", "rx9600")]:
        src = strip_rust(open(os.path.join(REPO, "examples", fname)).read())
        main = inline_helpers(src, find_fn_free(src, "main"))
        names = ["Hilbert", "QuadratureDemod", "FastFM", "FftFilterFloat", "FftFilter", "FirFilter", "RationalResampler",
                 "add_const", "AddConst", "SymbolSync", "ZeroCrossing", "BinarySlicer", "NrziDecode", "Descrambler",
                 "HdlcDeframer", "Il2pDeframer"]
        found = []
        for n in names:
            for m in re.finditer(r"(?<![A-Za-z_])%s(?:::<[^>]*>)?(?:::new|::new_g3ruh)?\s*\(" % n, main):
                # skip the optional clock-output branch (AddConst on the clock stream) and input selection
                ctx = main[max(0, m.start() - 200):m.start()]
                if n == "AddConst" and "clock" in main[m.start():m.start() + 60]:
                    continue
                found.append((m.start(), n))
        # a longer name that contains a shorter one (FftFilterFloat / FftFilter) is matched once
        found.sort()
        order = []
        for pos, n in found:
            if order and order[-1][0] == pos:
                continue
            order.append((pos, n))
        seq = []
        for pos, n in order:
            if n == "FftFilter" and main[pos:pos + 14] == "FftFilterFloat":
                continue
            seq.append(n)
        if "Hilbert" in seq:
            # what precedes the Hilbert transformer is the alternative (SDR) input path, built in mutually exclusive
            # branches whose textual order means nothing: listed sorted
            k = seq.index("Hilbert")
            seq = sorted(seq[:k]) + seq[k:]
        out.append("def %sChain : List String := [%s]" % (lname, ", ".join('"%s"' % n for n in seq)))
        env = const_env(src)
        arg = r"\s*([^,()]+(?:\([^()]*\)[^,()]*)*)\s*"
        m = re.search(r"HdlcDeframer::new\(\s*\w+\s*," + arg + "," + arg + r"\)", main)
        if not m:
            raise SystemExit("extract: HdlcDeframer::new(prev, min, max) not found in " + fname)
        out.append(f"def {lname}HdlcMin : Nat := {int_value(m.group(1), env)}")
        out.append(f"def {lname}HdlcMax : Nat := {int_value(m.group(2), env)}")
        m = re.search(r"Descrambler::new\(\s*\w+\s*," + arg + "," + arg + "," + arg + r"\)", main)
        if m:
            out.append(f"def {lname}DescramblerMask : Nat := {int_value(m.group(1), env)}")
            out.append(f"def {lname}DescramblerSeed : Nat := {int_value(m.group(2), env)}")
            out.append(f"def {lname}DescramblerLen : Nat := {int_value(m.group(3), env)}")
        m = re.search(r"Hilbert::new\(\s*\w+\s*," + arg + "[,)]", main)
        if m:
            out.append(f"def {lname}HilbertTaps : Nat := {int_value(m.group(1), env)}")
    out += ["", "end RR.Gen", ""]
    return "E2e.lean", "\n".join(out)


def inline_helpers(src, body, rounds=3, skip=()):
    """Textually inline the file's own free functions where `body` calls them (blocks may be added to the graph in
    private helpers): the helper's body is put in front of the call, in evaluation order."""
    fns = {n: b[0] for n, b in all_fn_bodies(src).items() if len(b) == 1 and n != "main" and n not in skip}
    for _ in range(rounds):
        changed = False
        for name, fb in fns.items():
            pat = re.compile(r"(?:(?<![A-Za-z0-9_:.!])|(?<=self\.)|(?<=Self::))%s\s*\(" % re.escape(name))
            pos = 0
            while True:
                m = pat.search(body, pos)
                if not m:
                    break
                ins = fb + " "
                body = body[:m.start()] + ins + name + "__inlined(" + body[m.end():]
                pos = m.start() + len(ins) + len(name) + len("__inlined(")
                changed = True
        if not changed:
            break
    return body


def find_fn_free(src, name):
    m = re.search(r"\bfn\s+%s\s*\(" % name, src)
    if not m:
        raise SystemExit(f"extract: fn {name} not found")
    k = src.find("{", m.end())
    return block_at(src, k)


FILES = {"gen_waits": "Waits.lean", "gen_conc": "Conc.lean", "gen_hdlc": "Hdlc.lean", "gen_filesink": "FileSink.lean",
         "gen_e2e": "E2e.lean"}


def status_file(fname, error):
    """RR/Gen/<X>Status.lean: imported by the property files that rest on the generated definitions of <X>. When the
    translator cannot read the source any more, <X>.lean keeps its previous (clean-tree) content, so that the model
    driver and every unrelated property still build, and the status file fails with the translator's message - only
    the properties about <X> then lose their proof obligation."""
    base = fname[:-len(".lean")]
    if error is None:
        body = "theorem %s_translated : True := trivial" % base.lower()
    else:
        msg = error.replace("\\", "/").replace('"', "'").replace("\n", " ")[:600]
        body = '#eval (throw (IO.userError "tools/extract.py could not translate the current source: %s") : IO Unit)' % msg
    return base + "Status.lean", "/-! GENERATED by tools/extract.py on every run. Do not edit. -/\nnamespace RR.Gen\n%s\nend RR.Gen\n" % body


def main():
    os.makedirs(GEN, exist_ok=True)
    rc = 0
    for name, fname in sorted(FILES.items()):
        fn = globals()[name]
        error = None
        try:
            fname2, content = fn()
            assert fname2 == fname
            write_if_changed(os.path.join(GEN, fname), content)
        except (SystemExit, Exception) as e:  # noqa: BLE001
            error = "%s: %s" % (name, e)
            print("extract: " + error, file=sys.stderr)
            if not os.path.exists(os.path.join(GEN, fname)):
                rc = 1  # nothing to fall back on
        sname, scontent = status_file(fname, error)
        write_if_changed(os.path.join(GEN, sname), scontent)
    sys.exit(rc)


if __name__ == "__main__":
    main()
