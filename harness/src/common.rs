//! Shared helpers: deterministic PRNG, quiet panic capture, hashing.
use std::panic::{AssertUnwindSafe, catch_unwind};

/// splitmix64: every random choice of a run derives from one seed.
#[derive(Clone)]
pub struct Rng(pub u64);

impl Rng {
    pub fn new(seed: u64) -> Self {
        Rng(seed ^ 0x9E37_79B9_7F4A_7C15)
    }
    pub fn next(&mut self) -> u64 {
        self.0 = self.0.wrapping_add(0x9E37_79B9_7F4A_7C15);
        let mut z = self.0;
        z = (z ^ (z >> 30)).wrapping_mul(0xBF58_476D_1CE4_E5B9);
        z = (z ^ (z >> 27)).wrapping_mul(0x94D0_49BB_1331_11EB);
        z ^ (z >> 31)
    }
    /// Uniform in 0..n (n > 0).
    pub fn below(&mut self, n: usize) -> usize {
        (self.next() % (n as u64)) as usize
    }
    /// Uniform in lo..=hi.
    pub fn range(&mut self, lo: usize, hi: usize) -> usize {
        lo + self.below(hi - lo + 1)
    }
    pub fn chance(&mut self, num: usize, den: usize) -> bool {
        self.below(den) < num
    }
    pub fn pick<'a, T>(&mut self, xs: &'a [T]) -> &'a T {
        &xs[self.below(xs.len())]
    }
    pub fn fork(&mut self) -> Rng {
        Rng(self.next())
    }
}

pub const HASH_M: u128 = 2305843009213693951; // 2^61 - 1

/// Same polynomial hash as `RR.Util.hashList`.
pub fn hash_list<I: IntoIterator<Item = u128>>(it: I) -> u128 {
    let mut h: u128 = 0;
    for v in it {
        h = (h * 1000003 + v % HASH_M + 1) % HASH_M;
    }
    h
}

/// Run `f`, turning a panic into `Err(message)`.
pub fn quiet<R>(f: impl FnOnce() -> R) -> Result<R, String> {
    catch_unwind(AssertUnwindSafe(f)).map_err(|e| {
        if let Some(s) = e.downcast_ref::<&str>() {
            (*s).to_string()
        } else if let Some(s) = e.downcast_ref::<String>() {
            s.clone()
        } else {
            "panic".to_string()
        }
    })
}

pub fn silence_panics() {
    std::panic::set_hook(Box::new(|_| {}));
}

/// Command-line `--name value` lookup.
pub fn arg(args: &[String], name: &str) -> Option<String> {
    args.iter()
        .position(|a| a == name)
        .and_then(|i| args.get(i + 1).cloned())
}

pub fn arg_usize(args: &[String], name: &str, default: usize) -> usize {
    arg(args, name)
        .and_then(|s| s.parse().ok())
        .unwrap_or(default)
}


/// Watchdog for calls into the real code that may never return (a runner that misses a
/// cancellation or an error): if the guard is still alive after `secs`, print a self-checking
/// failure line naming the case and end the process (the lines collected so far are lost, the
/// hang is reported with its label; `--only` replays are by seed and label).
pub struct Deadline(std::sync::Arc<std::sync::atomic::AtomicBool>);

pub fn deadline(secs: u64, label: String) -> Deadline {
    let done = std::sync::Arc::new(std::sync::atomic::AtomicBool::new(false));
    let d2 = done.clone();
    std::thread::spawn(move || {
        let t0 = std::time::Instant::now();
        while t0.elapsed().as_secs() < secs {
            if d2.load(std::sync::atomic::Ordering::SeqCst) {
                return;
            }
            std::thread::sleep(std::time::Duration::from_millis(20));
        }
        if !d2.load(std::sync::atomic::Ordering::SeqCst) {
            use std::io::Write;
            let out = std::io::stdout();
            let mut l = out.lock();
            let _ = writeln!(l, "!hang {label}\tFAIL the call did not return within {secs} s\thang");
            let _ = l.flush();
            std::process::exit(0);
        }
    });
    Deadline(done)
}

impl Drop for Deadline {
    fn drop(&mut self) {
        self.0.store(true, std::sync::atomic::Ordering::SeqCst);
    }
}
