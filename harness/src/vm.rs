//! C18: mappings and descriptors of streams.
//! `vmtrace` is run under strace by the translator; `vm` emits self-checking lines.
use crate::common::*;
use rustradio::circular_buffer::Buffer;
use std::io::Write;
use std::sync::Arc;

fn mark(s: &str) {
    // a write(2) the translator can see in the strace log
    let _ = std::io::stdout().write_all(format!("MARK {s}\n").as_bytes());
    let _ = std::io::stdout().flush();
}

pub fn trace(_args: &[String]) {
    // warm up allocator / tempfile machinery so that the marked regions only show the stream's own calls
    drop(Buffer::<u8>::new(8192));
    mark("begin success 8192");
    let b = Buffer::<u8>::new(8192);
    mark("created");
    drop(b);
    mark("end");
    mark("begin second_fails 6144");
    let b = Buffer::<u8>::new(6144);
    mark(if b.is_ok() { "created" } else { "refused" });
    drop(b);
    mark("end");
    mark("begin first_fails 0");
    let b = Buffer::<u8>::new(0);
    mark(if b.is_ok() { "created" } else { "refused" });
    drop(b);
    mark("end");
    mark("begin elem_size 4096");
    let b = Buffer::<[u8; 3]>::new(4096);
    mark(if b.is_ok() { "created" } else { "refused" });
    drop(b);
    mark("end");
}

/// Mappings of unlinked temp files (what a stream maps), not allocator arenas or thread stacks.
fn count_maps() -> usize {
    std::fs::read_to_string("/proc/self/maps")
        .map(|s| s.lines().filter(|l| l.contains("(deleted)")).count())
        .unwrap_or(0)
}
fn count_fds() -> usize {
    std::fs::read_dir("/proc/self/fd").map(|d| d.count()).unwrap_or(0)
}

fn line(name: &str, detail: &str, ok: bool, why: String) -> String {
    format!("!vm {name} {detail}\t{}", if ok { "pass".to_string() } else { format!("FAIL {why}") })
}

/// Child for the address-space exhaustion test.
pub fn exhaust_child(_args: &[String]) {
    unsafe {
        let lim = libc::rlimit { rlim_cur: 600 << 20, rlim_max: 600 << 20 };
        libc::setrlimit(libc::RLIMIT_AS, &lim);
    }
    let before = (count_maps(), count_fds());
    let mut held = Vec::new();
    let mut refused = 0;
    for _ in 0..2000 {
        match quiet(|| Buffer::<u8>::new(4 << 20)) {
            Ok(Ok(b)) => held.push(b),
            Ok(Err(_)) => {
                refused += 1;
                if refused > 3 {
                    break;
                }
            }
            Err(p) => {
                println!("FAIL panic instead of an error: {p}");
                return;
            }
        }
    }
    let n = held.len();
    let mid = (count_maps(), count_fds());
    drop(held);
    let after = (count_maps(), count_fds());
    if refused == 0 {
        println!("FAIL address space never ran out ({n} streams)");
    } else if after.0 != before.0 || after.1 != before.1 {
        println!("FAIL after {n} streams and {refused} refusals: maps {}->{}->{}, fds {}->{}->{}", before.0, mid.0, after.0, before.1, mid.1, after.1);
    } else {
        println!("pass streams={n} refused={refused}");
    }
}

pub fn run(args: &[String]) -> Vec<String> {
    let seed = arg_usize(args, "--seed", 1) as u64;
    let cycles = arg_usize(args, "--cycles", 2000);
    let mut rng = Rng::new(seed);
    let mut out = vec![];
    // warm-up (thread-local buffers, allocator arenas)
    for _ in 0..50 {
        drop(Buffer::<u32>::new(4096));
    }
    // 1. churn on one thread: create/drop in random order with up to 8 alive
    {
        let before = (count_maps(), count_fds());
        let mut alive: Vec<Arc<Buffer<u32>>> = vec![];
        for _ in 0..cycles {
            if alive.len() < 8 && rng.chance(1, 2) || alive.is_empty() {
                let pages = rng.range(1, 4);
                alive.push(Arc::new(Buffer::<u32>::new(pages * 4096).unwrap()));
            } else {
                let i = rng.below(alive.len());
                alive.swap_remove(i);
            }
        }
        let peak = count_maps();
        alive.clear();
        let after = (count_maps(), count_fds());
        out.push(line(
            "churn",
            &format!("cycles={cycles}"),
            after.0 == before.0 && after.1 == before.1,
            format!("maps {}->{} (peak {peak}), fds {}->{}", before.0, after.0, before.1, after.1),
        ));
    }
    // 2. churn across threads
    {
        let before = (count_maps(), count_fds());
        let ths: Vec<_> = (0..4)
            .map(|t| {
                let mut r = Rng::new(seed.wrapping_mul(77).wrapping_add(t));
                std::thread::spawn(move || {
                    let mut alive = vec![];
                    for _ in 0..cycles / 4 {
                        if alive.len() < 6 && r.chance(1, 2) || alive.is_empty() {
                            alive.push(Buffer::<u64>::new(r.range(1, 3) * 4096).unwrap());
                        } else {
                            let i = r.below(alive.len());
                            alive.swap_remove(i);
                        }
                    }
                })
            })
            .collect();
        for t in ths {
            t.join().unwrap();
        }
        let after = (count_maps(), count_fds());
        // thread stacks / arenas may add a few anonymous mappings; stream mappings would add hundreds
        out.push(line(
            "churn_threads",
            &format!("cycles={cycles}"),
            after.0 == before.0 && after.1 == before.1,
            format!("maps {}->{}, fds {}->{}", before.0, after.0, before.1, after.1),
        ));
    }
    // 2b. streams dropped while a thread unwinds from a panic are released too
    {
        let before = (count_maps(), count_fds());
        let ths: Vec<_> = (0..6)
            .map(|t| {
                std::thread::spawn(move || {
                    let _alive: Vec<_> = (0..5).map(|k| Buffer::<u32>::new((1 + (t + k) % 3) * 4096).unwrap()).collect();
                    let (_w, _r) = rustradio::stream::new_stream::<u8>();
                    panic!("scripted panic with live streams");
                })
            })
            .collect();
        for t in ths {
            let _ = t.join();
        }
        let after = (count_maps(), count_fds());
        out.push(line(
            "drop_during_unwind",
            "threads=6 streams=6 each",
            after.0 == before.0 && after.1 == before.1,
            format!("maps {}->{}, fds {}->{}", before.0, after.0, before.1, after.1),
        ));
    }
    // 3. refused set-ups leave nothing behind
    {
        let before = (count_maps(), count_fds());
        let mut all_err = true;
        for _ in 0..300 {
            all_err &= Buffer::<u8>::new(6144).is_err();
            all_err &= Buffer::<u8>::new(4097).is_err();
            all_err &= Buffer::<u8>::new(0).is_err();
            all_err &= Buffer::<[u8; 3]>::new(4096).is_err();
            all_err &= Buffer::<[u8; 24]>::new(8192).is_err();
        }
        let after = (count_maps(), count_fds());
        out.push(line(
            "refused",
            "sizes=6144,4097,0 elem=3@4096,24@8192 x300",
            all_err && after.0 == before.0 && after.1 == before.1,
            format!("all refused: {all_err}; maps {}->{}, fds {}->{}", before.0, after.0, before.1, after.1),
        ));
    }
    // 4. the two halves alias: what is written through the second half is read through the first
    for pages in [1usize, 2, 4] {
        let cap = pages * 4096 / 4;
        let b = Arc::new(Buffer::<u32>::new(pages * 4096).unwrap());
        let wb = b.clone().write_buf().unwrap();
        wb.produce(cap - 1, &[]);
        b.clone().read_buf().unwrap().0.consume(cap - 1);
        let mut wb = b.clone().write_buf().unwrap();
        let ok_len = wb.len() == cap;
        for i in 0..cap {
            wb.slice()[i] = 0xA000_0000 + i as u32;
        }
        let second_half_addr = wb.slice()[1..].as_ptr() as usize;
        wb.produce(cap, &[]);
        b.clone().read_buf().unwrap().0.consume(1);
        let (rb, _) = b.clone().read_buf().unwrap();
        let first_half_addr = rb.slice().as_ptr() as usize;
        let same = rb.slice().iter().enumerate().all(|(i, v)| *v == 0xA000_0001 + i as u32);
        out.push(line(
            "alias",
            &format!("pages={pages}"),
            ok_len && same && second_half_addr == first_half_addr + pages * 4096,
            format!("window {}; contents equal: {same}; addresses {first_half_addr:#x} vs {second_half_addr:#x}", ok_len),
        ));
    }
    // 5. address space exhaustion in a child
    {
        let exe = std::env::current_exe().unwrap();
        let o = std::process::Command::new(exe).arg("vm-exhaust").output();
        let s = o.map(|o| String::from_utf8_lossy(&o.stdout).trim().to_string()).unwrap_or("FAIL cannot run child".into());
        let ok = s.starts_with("pass");
        out.push(line("exhaust", "RLIMIT_AS=600MB 4MB streams", ok, s));
    }
    out
}
