//! Drip-feed harness: one real block between harness-owned one-page streams.
//!
//! A case is a block (name + numeric parameters), input data (from a seed),
//! input tags, and a schedule of actions (feed, drain, work, close). The same
//! request line is simulated by the Lean model (`RR.BlockDriver`).
use crate::common::*;
use crate::ring::Elem;
use rustradio::block::{Block, BlockRet};
use rustradio::stream::{ReadStream, StreamWait, Tag, TagValue, WriteStream, new_stream};
use rustradio::verif;

pub fn mix64(z: u64) -> u64 {
    let mut z = z.wrapping_add(0x9E37_79B9_7F4A_7C15);
    z = (z ^ (z >> 30)).wrapping_mul(0xBF58_476D_1CE4_E5B9);
    z = (z ^ (z >> 27)).wrapping_mul(0x94D0_49BB_1331_11EB);
    z ^ (z >> 31)
}

pub fn gen_data(len: usize, seed: u64, m: u64, tbl: &[u64]) -> Vec<u64> {
    (0..len)
        .map(|i| {
            let r = mix64(seed.wrapping_add(i as u64));
            if tbl.is_empty() { r % m.max(1) } else { tbl[(r % tbl.len() as u64) as usize] }
        })
        .collect()
}

/// Map a tag to (key code, value code). Harness tags are `k<N>` / U64.
pub fn tag_code(t: &Tag) -> (u64, u64) {
    let key = if let Some(n) = t.key().strip_prefix('k').and_then(|s| s.parse::<u64>().ok()) {
        n
    } else {
        match t.key() {
            "added" => 900,
            "VectorSource::start" => 901,
            "VectorSource::repeat" => 902,
            "VectorSource::first" => 903,
            "burst" => 904,
            other => 10_000 + (hash_list(other.bytes().map(|b| b as u128)) % 1_000_000) as u64,
        }
    };
    let val = match t.val() {
        TagValue::U64(v) => *v,
        TagValue::Bool(b) => *b as u64,
        TagValue::Float(f) => f.to_bits() as u64,
        TagValue::String(s) => (hash_list(s.bytes().map(|b| b as u128)) % 1_000_000_007) as u64,
    };
    (key, val)
}

pub trait InPort {
    fn id(&self) -> usize;
    fn free(&self) -> usize;
    fn cap(&self) -> usize;
    fn push(&mut self, vals: &[u64], tags: &[(usize, u64, u64)]);
    fn close(&mut self);
    fn advance(&mut self, k: usize);
}
pub trait OutPort {
    fn id(&self) -> usize;
    fn len(&self) -> usize;
    fn cap(&self) -> usize;
    fn drain(&mut self, k: usize) -> (Vec<u64>, Vec<(usize, u64, u64)>);
    fn drop_reader(&mut self);
    fn advance(&mut self, k: usize);
}

pub struct Feeder<T: Elem> {
    w: Option<WriteStream<T>>,
    id: usize,
    cap: usize,
}
pub struct Drainer<T: Elem> {
    r: Option<ReadStream<T>>,
    id: usize,
    cap: usize,
    /// writer kept only for pre-advancing an output stream (dropped after that)
    pre: Option<WriteStream<T>>,
}

impl<T: Elem> InPort for Feeder<T> {
    fn id(&self) -> usize {
        self.id
    }
    fn free(&self) -> usize {
        self.w.as_ref().map(|w| w.free()).unwrap_or(0)
    }
    fn cap(&self) -> usize {
        self.cap
    }
    fn push(&mut self, vals: &[u64], tags: &[(usize, u64, u64)]) {
        if vals.is_empty() {
            return;
        }
        let w = self.w.as_ref().expect("push after close");
        let mut wb = w.write_buf().unwrap();
        for (i, v) in vals.iter().enumerate() {
            wb.slice()[i] = T::from_nat(*v as u128);
        }
        let tags: Vec<Tag> = tags
            .iter()
            .map(|(p, k, v)| Tag::new(*p, format!("k{k}"), TagValue::U64(*v)))
            .collect();
        wb.produce(vals.len(), &tags);
    }
    fn close(&mut self) {
        self.w = None;
    }
    fn advance(&mut self, _k: usize) {}
}

impl<T: Elem> OutPort for Drainer<T> {
    fn id(&self) -> usize {
        self.id
    }
    fn len(&self) -> usize {
        match &self.r {
            Some(r) => r.read_buf().unwrap().0.len(),
            None => 0,
        }
    }
    fn cap(&self) -> usize {
        self.cap
    }
    fn drain(&mut self, k: usize) -> (Vec<u64>, Vec<(usize, u64, u64)>) {
        let Some(r) = &self.r else { return (vec![], vec![]) };
        let (rb, tags) = r.read_buf().unwrap();
        let n = k.min(rb.len());
        let vals: Vec<u64> = rb.slice()[..n].iter().map(|v| v.to_obs() as u64).collect();
        let ts = tags
            .iter()
            .filter(|t| t.pos() < n)
            .map(|t| {
                let (k, v) = tag_code(t);
                (t.pos(), k, v)
            })
            .collect();
        rb.consume(n);
        (vals, ts)
    }
    fn drop_reader(&mut self) {
        self.r = None;
    }
    fn advance(&mut self, _k: usize) {}
}

/// A fresh one-page stream whose positions have been advanced by `adv` samples
/// (so the test data straddles the wrap point). Returns both ends.
pub fn stream_at<T: Elem>(adv: usize) -> (WriteStream<T>, ReadStream<T>) {
    verif::set_stream_size(4096);
    let (w, r) = new_stream::<T>();
    let cap = 4096 / T::SIZE;
    let mut left = adv % cap;
    while left > 0 {
        let wb = w.write_buf().unwrap();
        let n = left.min(wb.len());
        wb.produce(n, &[]);
        let (rb, _) = r.read_buf().unwrap();
        rb.consume(n);
        left -= n;
    }
    (w, r)
}

pub fn feeder<T: Elem>(adv: usize) -> (Box<Feeder<T>>, ReadStream<T>) {
    let (w, r) = stream_at::<T>(adv);
    let id = StreamWait::verif_id(&w);
    (Box::new(Feeder { w: Some(w), id, cap: 4096 / T::SIZE }), r)
}

pub fn drainer<T: Elem>(r: ReadStream<T>) -> Box<Drainer<T>> {
    let id = StreamWait::verif_id(&r);
    Box::new(Drainer { r: Some(r), id, cap: r_cap::<T>(), pre: None })
}

fn r_cap<T: Elem>() -> usize {
    4096 / T::SIZE
}

/// Everything the harness holds for one case.
pub struct Rig {
    pub block: Box<dyn Block>,
    pub ins: Vec<Box<dyn InPort>>,
    pub outs: Vec<Box<dyn OutPort>>,
}

#[derive(Clone, Debug)]
pub struct InSpec {
    pub len: usize,
    pub seed: u64,
    pub m: u64,
    pub tbl: Vec<u64>,
    pub tags: Vec<(usize, u64, u64)>,
}

#[derive(Clone, Copy, Debug)]
pub enum Act {
    Feed(usize, usize),
    Drain(usize, usize),
    Work,
    Close(usize),
    DropOut(usize),
}

pub fn show_act(a: &Act) -> String {
    match a {
        Act::Feed(j, k) => format!("F{j},{k}"),
        Act::Drain(j, k) => format!("D{j},{k}"),
        Act::Work => "W".into(),
        Act::Close(j) => format!("C{j}"),
        Act::DropOut(j) => format!("X{j}"),
    }
}

pub fn request(name: &str, params: &[u64], rig: &Rig, ins: &[InSpec], acts: &[Act]) -> String {
    let mut s = format!("blk {name}");
    for p in params {
        s += &format!(" {p}");
    }
    for (j, i) in ins.iter().enumerate() {
        s += &format!(" ; I {} {} {} {}", rig.ins[j].cap(), i.len, i.seed, i.m);
        for t in &i.tbl {
            s += &format!(" {t}");
        }
    }
    for o in &rig.outs {
        s += &format!(" ; O {}", o.cap());
    }
    for (j, i) in ins.iter().enumerate() {
        if !i.tags.is_empty() {
            s += &format!(" ; T {j}");
            for (p, k, v) in &i.tags {
                s += &format!(" {p} {k} {v}");
            }
        }
    }
    s += " ; S";
    for a in acts {
        s += " ";
        s += &show_act(a);
    }
    s
}

/// Run the schedule on the real block; returns the observed trace (same format as the model's).
pub fn run_case(mut rig: Rig, ins: &[InSpec], acts: &[Act]) -> String {
    let data: Vec<Vec<u64>> = ins.iter().map(|i| gen_data(i.len, i.seed, i.m, &i.tbl)).collect();
    let mut fed = vec![0usize; ins.len()];
    let mut collected: Vec<Vec<u64>> = vec![vec![]; rig.outs.len()];
    let mut ctags: Vec<Vec<(usize, u64, u64)>> = vec![vec![]; rig.outs.len()];
    let mut trace: Vec<String> = Vec::new();
    let mut dead = false;
    for a in acts {
        match *a {
            Act::Feed(j, k) => {
                if j >= rig.ins.len() {
                    continue;
                }
                let n = k.min(rig.ins[j].free()).min(data[j].len() - fed[j]);
                let vals = &data[j][fed[j]..fed[j] + n];
                let tags: Vec<(usize, u64, u64)> = ins[j]
                    .tags
                    .iter()
                    .filter(|t| t.0 >= fed[j] && t.0 < fed[j] + n)
                    .map(|t| (t.0 - fed[j], t.1, t.2))
                    .collect();
                rig.ins[j].push(vals, &tags);
                fed[j] += n;
            }
            Act::Drain(j, k) => {
                if j >= rig.outs.len() {
                    continue;
                }
                let base = collected[j].len();
                let (vals, ts) = rig.outs[j].drain(k);
                collected[j].extend(vals);
                ctags[j].extend(ts.into_iter().map(|(p, k, v)| (base + p, k, v)));
            }
            Act::Close(j) => {
                if j < rig.ins.len() {
                    rig.ins[j].close();
                }
            }
            Act::DropOut(j) => {
                if j < rig.outs.len() {
                    rig.outs[j].drop_reader();
                }
            }
            Act::Work => {
                if dead {
                    trace.push("W:dead".into());
                    continue;
                }
                let in_free: Vec<usize> = rig.ins.iter().map(|i| i.free()).collect();
                let out_len: Vec<usize> = rig.outs.iter().map(|o| o.len()).collect();
                let in_ids: Vec<usize> = rig.ins.iter().map(|i| i.id()).collect();
                let out_ids: Vec<usize> = rig.outs.iter().map(|o| o.id()).collect();
                let block = &mut rig.block;
                let res = quiet(move || {
                    let r = block.work();
                    match r {
                        Ok(BlockRet::Again) => "A".to_string(),
                        Ok(BlockRet::Pending) => "P".to_string(),
                        Ok(BlockRet::WaitForFunc(_)) => "Fn".to_string(),
                        Ok(BlockRet::EOF) => "E".to_string(),
                        Ok(BlockRet::WaitForStream(s, need)) => {
                            let id = s.verif_id();
                            if let Some(k) = in_ids.iter().position(|x| *x == id) {
                                format!("I{k},{need}")
                            } else if let Some(k) = out_ids.iter().position(|x| *x == id) {
                                format!("O{k},{need}")
                            } else {
                                format!("?{need}")
                            }
                        }
                        Err(_) => "ERR".to_string(),
                    }
                });
                let v = match res {
                    Ok(v) => v,
                    Err(_) => {
                        dead = true;
                        "PANIC".to_string()
                    }
                };
                if dead {
                    // streams may be poisoned; report no movement, like the model
                    let z: Vec<String> = rig.ins.iter().map(|_| "0".to_string()).collect();
                    let zo: Vec<String> = rig.outs.iter().map(|_| "0".to_string()).collect();
                    trace.push(format!("W:{v}:{}:{}", z.join(","), zo.join(",")));
                    continue;
                }
                let consumed: Vec<String> = rig
                    .ins
                    .iter()
                    .zip(&in_free)
                    .map(|(i, f0)| (i.free().wrapping_sub(*f0)).to_string())
                    .collect();
                let produced: Vec<String> = rig
                    .outs
                    .iter()
                    .zip(&out_len)
                    .map(|(o, l0)| (o.len().wrapping_sub(*l0)).to_string())
                    .collect();
                trace.push(format!("W:{v}:{}:{}", consumed.join(","), produced.join(",")));
            }
        }
    }
    let outs: Vec<String> = (0..rig.outs.len())
        .map(|j| {
            let ts: Vec<String> = ctags[j].iter().map(|(p, k, v)| format!("{p},{k},{v}")).collect();
            format!(
                "O{j}:{}:{}:[{}]",
                collected[j].len(),
                hash_list(collected[j].iter().map(|v| *v as u128)),
                ts.join(" ")
            )
        })
        .collect();
    format!("{} ; {}", trace.join(" "), outs.join(" "))
}

/// An adversarial schedule: small feeds, small drains, output left full, big bursts, then a flush.
pub fn gen_schedule(rng: &mut Rng, nin: usize, nout: usize, in_lens: &[usize], out_cap: usize, steps: usize) -> Vec<Act> {
    let mut acts = Vec::new();
    let style = rng.below(5);
    for _ in 0..steps {
        match rng.below(10) {
            0..=3 => {
                let j = rng.below(nin.max(1));
                if nin > 0 {
                    let k = match style {
                        0 => rng.range(1, 3),
                        1 => rng.range(1, 40),
                        2 => rng.range(0, 5000),
                        _ => *rng.pick(&[1usize, 2, 7, 64, 1000, 5000]),
                    };
                    acts.push(Act::Feed(j, k));
                }
            }
            4..=5 => {
                if nout > 0 {
                    let j = rng.below(nout);
                    let k = match style {
                        0 => rng.range(0, 2),
                        1 => rng.range(0, 20),
                        3 => 0,
                        _ => *rng.pick(&[0usize, 1, 3, 50, 5000]),
                    };
                    acts.push(Act::Drain(j, k));
                }
            }
            _ => acts.push(Act::Work),
        }
    }
    // flush: feed everything, drain everything, repeatedly; then close inputs and finish.
    let total: usize = in_lens.iter().copied().max().unwrap_or(0);
    let rounds = 6 + total / (out_cap.max(1) / 4).max(1) + total / 512;
    for _ in 0..rounds.min(200) {
        for j in 0..nin {
            acts.push(Act::Feed(j, 100_000));
        }
        acts.push(Act::Work);
        acts.push(Act::Work);
        for j in 0..nout {
            acts.push(Act::Drain(j, 100_000));
        }
    }
    for j in 0..nin {
        acts.push(Act::Close(j));
    }
    for _ in 0..4 {
        acts.push(Act::Work);
        for j in 0..nout {
            acts.push(Act::Drain(j, 100_000));
        }
    }
    acts
}

pub fn gen_tags(rng: &mut Rng, len: usize, heavy: bool) -> Vec<(usize, u64, u64)> {
    if len == 0 || (!heavy && rng.chance(1, 2)) {
        return vec![];
    }
    let n = if heavy { rng.range(1, 12) } else { rng.range(0, 4) };
    let mut v: Vec<(usize, u64, u64)> = (0..n)
        .map(|_| {
            let pos = match rng.below(5) {
                0 => 0,
                1 => len - 1,
                2 => rng.below(len.min(8)),
                _ => rng.below(len),
            };
            (pos, rng.below(4) as u64, rng.below(1000) as u64)
        })
        .collect();
    // the stream keeps tags of one sample in commit order; feed order = this order
    v.sort_by_key(|t| t.0);
    v
}
