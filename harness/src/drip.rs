//! Drip-feed harness: one real block between harness-owned one-page streams.
//!
//! A case is a block (name + numeric parameters), input data (from a seed),
//! input tags, and a schedule of actions (feed, drain, work, close). The same
//! request line is simulated by the Lean model (`RR.BlockDriver`).
use crate::common::*;
use crate::ring::Elem;
use rustradio::block::{Block, BlockRet};
use rustradio::stream::{ReadStream, StreamWait, Tag, TagValue, WriteStream, new_stream};
use rustradio::verif;

pub fn mix64(z: u64) -> u64 {
    let mut z = z.wrapping_add(0x9E37_79B9_7F4A_7C15);
    z = (z ^ (z >> 30)).wrapping_mul(0xBF58_476D_1CE4_E5B9);
    z = (z ^ (z >> 27)).wrapping_mul(0x94D0_49BB_1331_11EB);
    z ^ (z >> 31)
}

pub fn gen_data(len: usize, seed: u64, m: u64, tbl: &[u64]) -> Vec<u64> {
    (0..len)
        .map(|i| {
            let r = mix64(seed.wrapping_add(i as u64));
            if tbl.is_empty() { r % m.max(1) } else { tbl[(r % tbl.len() as u64) as usize] }
        })
        .collect()
}

/// Map a tag to (key code, value code). Harness tags are `k<N>` / U64.
pub fn tag_code(t: &Tag) -> (u64, u64) {
    let key = if let Some(n) = t.key().strip_prefix('k').and_then(|s| s.parse::<u64>().ok()) {
        n
    } else {
        match t.key() {
            "added" => 900,
            "VectorSource::start" => 901,
            "VectorSource::repeat" => 902,
            "VectorSource::first" => 903,
            "burst" => 904,
            "VecToStream::start" => 905,
            "VecToStream::end" => 906,
            other => 10_000 + (hash_list(other.bytes().map(|b| b as u128)) % 1_000_000) as u64,
        }
    };
    let val = match t.val() {
        TagValue::U64(v) => *v,
        TagValue::Bool(b) => *b as u64,
        TagValue::Float(f) => f.to_bits() as u64,
        TagValue::String(s) => (hash_list(s.bytes().map(|b| b as u128)) % 1_000_000_007) as u64,
    };
    (key, val)
}

pub trait InPort {
    fn id(&self) -> usize;
    fn free(&self) -> usize;
    fn cap(&self) -> usize;
    fn push(&mut self, vals: &[u64], tags: &[(usize, u64, u64)]);
    fn close(&mut self);
    fn advance(&mut self, k: usize);
}
pub trait OutPort {
    fn id(&self) -> usize;
    fn len(&self) -> usize;
    fn cap(&self) -> usize;
    fn drain(&mut self, k: usize) -> (Vec<u64>, Vec<(usize, u64, u64)>);
    fn drop_reader(&mut self);
    fn advance(&mut self, k: usize);
    /// called after every work(): an output that is not a stream (a sink's storage) reports how much the
    /// call added; a stream output answers `None` and the hook counters are used
    fn after_work(&mut self) -> Option<usize> {
        None
    }
}

pub struct Feeder<T: Elem> {
    w: Option<WriteStream<T>>,
    id: usize,
    cap: usize,
}
pub struct Drainer<T: Elem> {
    r: Option<ReadStream<T>>,
    id: usize,
    cap: usize,
    /// writer kept only for pre-advancing an output stream (dropped after that)
    pre: Option<WriteStream<T>>,
}

impl<T: Elem> InPort for Feeder<T> {
    fn id(&self) -> usize {
        self.id
    }
    fn free(&self) -> usize {
        self.w.as_ref().map(|w| w.free()).unwrap_or(0)
    }
    fn cap(&self) -> usize {
        self.cap
    }
    fn push(&mut self, vals: &[u64], tags: &[(usize, u64, u64)]) {
        if vals.is_empty() {
            return;
        }
        let w = self.w.as_ref().expect("push after close");
        let mut wb = w.write_buf().unwrap();
        for (i, v) in vals.iter().enumerate() {
            wb.slice()[i] = T::from_nat(*v as u128);
        }
        let tags: Vec<Tag> = tags
            .iter()
            .map(|(p, k, v)| {
                // key codes >= 100 are boolean tags (value != 0 = true)
                if *k == 200 {
                    // the tag CorrelateAccessCodeTag puts on the last bit of the IL2P sync word
                    Tag::new(*p, "sync", TagValue::U64(*v))
                } else if *k >= 100 {
                    Tag::new(*p, format!("k{k}"), TagValue::Bool(*v != 0))
                } else {
                    Tag::new(*p, format!("k{k}"), TagValue::U64(*v))
                }
            })
            .collect();
        wb.produce(vals.len(), &tags);
    }
    fn close(&mut self) {
        self.w = None;
    }
    fn advance(&mut self, _k: usize) {}
}

impl<T: Elem> OutPort for Drainer<T> {
    fn id(&self) -> usize {
        self.id
    }
    fn len(&self) -> usize {
        match &self.r {
            Some(r) => r.read_buf().unwrap().0.len(),
            None => 0,
        }
    }
    fn cap(&self) -> usize {
        self.cap
    }
    fn drain(&mut self, k: usize) -> (Vec<u64>, Vec<(usize, u64, u64)>) {
        let Some(r) = &self.r else { return (vec![], vec![]) };
        let (rb, tags) = r.read_buf().unwrap();
        let n = k.min(rb.len());
        let vals: Vec<u64> = rb.slice()[..n].iter().map(|v| v.to_obs() as u64).collect();
        let ts = tags
            .iter()
            .filter(|t| t.pos() < n)
            .map(|t| {
                let (k, v) = tag_code(t);
                (t.pos(), k, v)
            })
            .collect();
        rb.consume(n);
        (vals, ts)
    }
    fn drop_reader(&mut self) {
        self.r = None;
    }
    fn advance(&mut self, _k: usize) {}
}

/// Size in bytes of the streams of the case being built: one page, except in some self-checking cases
/// (sixteen pages, so that windows beyond 8192 samples occur).
pub static STREAM_BYTES: std::sync::atomic::AtomicUsize = std::sync::atomic::AtomicUsize::new(4096);

/// A fresh stream whose positions have been advanced by `adv` samples
/// (so the test data straddles the wrap point). Returns both ends.
pub fn stream_at<T: Elem>(adv: usize) -> (WriteStream<T>, ReadStream<T>) {
    let bytes = STREAM_BYTES.load(std::sync::atomic::Ordering::SeqCst);
    verif::set_stream_size(bytes);
    let (w, r) = new_stream::<T>();
    let cap = bytes / T::SIZE;
    let mut left = adv % cap;
    while left > 0 {
        let wb = w.write_buf().unwrap();
        let n = left.min(wb.len());
        wb.produce(n, &[]);
        let (rb, _) = r.read_buf().unwrap();
        rb.consume(n);
        left -= n;
    }
    (w, r)
}

pub fn feeder<T: Elem>(adv: usize) -> (Box<Feeder<T>>, ReadStream<T>) {
    let (w, r) = stream_at::<T>(adv);
    let id = StreamWait::verif_id(&w);
    (Box::new(Feeder { w: Some(w), id, cap: STREAM_BYTES.load(std::sync::atomic::Ordering::SeqCst) / T::SIZE }), r)
}

pub fn drainer<T: Elem>(r: ReadStream<T>) -> Box<Drainer<T>> {
    let id = StreamWait::verif_id(&r);
    Box::new(Drainer { r: Some(r), id, cap: r_cap::<T>(), pre: None })
}

fn r_cap<T: Elem>() -> usize {
    STREAM_BYTES.load(std::sync::atomic::Ordering::SeqCst) / T::SIZE
}

/// Everything the harness holds for one case.
pub struct Rig {
    pub block: Box<dyn Block>,
    pub ins: Vec<Box<dyn InPort>>,
    pub outs: Vec<Box<dyn OutPort>>,
}

#[derive(Clone, Debug)]
pub struct InSpec {
    /// packet lengths (packet inputs only): `Feed(j, k)` pushes the next `k` packets
    pub pkts: Vec<usize>,
    pub len: usize,
    pub seed: u64,
    pub m: u64,
    pub tbl: Vec<u64>,
    pub tags: Vec<(usize, u64, u64)>,
    /// explicit data instead of the generated one (self-checking mode only: the model is not asked)
    pub fixed: Option<Vec<u64>>,
}

#[derive(Clone, Copy, Debug)]
pub enum Act {
    Feed(usize, usize),
    Drain(usize, usize),
    Work,
    Close(usize),
    DropOut(usize),
    /// a control call on the block between two work() calls (Delay::set_delay): stored in `POKE`, applied by
    /// the wrapper block at the start of its next work()
    Poke(usize),
}

/// how much the adaptive flush of `run_case_full` feeds per round: everything (the greedy run), or small pieces
/// (the adversarial run of a chunking comparison: the whole input arrives in pieces, not just its beginning)
pub static FLUSH_PIECE: std::sync::atomic::AtomicUsize = std::sync::atomic::AtomicUsize::new(1_000_000);

/// pending control calls for the wrapper blocks, oldest first
pub static POKE: std::sync::Mutex<Vec<usize>> = std::sync::Mutex::new(Vec::new());

pub fn show_act(a: &Act) -> String {
    match a {
        Act::Feed(j, k) => format!("F{j},{k}"),
        Act::Drain(j, k) => format!("D{j},{k}"),
        Act::Work => "W".into(),
        Act::Close(j) => format!("C{j}"),
        Act::DropOut(j) => format!("X{j}"),
        Act::Poke(k) => format!("P{k}"),
    }
}

pub fn request(name: &str, params: &[u64], rig: &Rig, ins: &[InSpec], acts: &[Act]) -> String {
    let mut s = format!("blk {name}");
    for p in params {
        s += &format!(" {p}");
    }
    for (j, i) in ins.iter().enumerate() {
        if let Some(d) = &i.fixed {
            // literal input data
            s += &format!(" ; L {}", rig.ins[j].cap());
            for v in d {
                s += &format!(" {v}");
            }
            continue;
        }
        if rig.ins[j].cap() == PKT_CAP {
            // packet input: the packet lengths are part of the input
            s += &format!(" ; P {} {} {} {} {}", rig.ins[j].cap(), i.len, i.seed, i.m, i.pkts.len());
            for l in &i.pkts {
                s += &format!(" {l}");
            }
            for t in &i.tbl {
                s += &format!(" {t}");
            }
            continue;
        }
        s += &format!(" ; I {} {} {} {}", rig.ins[j].cap(), i.len, i.seed, i.m);
        for t in &i.tbl {
            s += &format!(" {t}");
        }
    }
    for o in &rig.outs {
        s += &format!(" ; O {}", o.cap());
    }
    for (j, i) in ins.iter().enumerate() {
        if !i.tags.is_empty() {
            s += &format!(" ; T {j}");
            for (p, k, v) in &i.tags {
                s += &format!(" {p} {k} {v}");
            }
        }
    }
    s += " ; S";
    for a in acts {
        s += " ";
        s += &show_act(a);
    }
    s
}

#[derive(Clone, Debug)]
pub struct CallRec {
    pub verdict: String,
    pub consumed: Vec<usize>,
    pub produced: Vec<usize>,
    /// readable per input / free per output, after the call
    pub avail_after: Vec<usize>,
    pub free_after: Vec<usize>,
    pub closed: Vec<bool>,
}

pub struct RunOut {
    pub trace: String,
    pub calls: Vec<CallRec>,
    pub collected: Vec<Vec<u64>>,
    pub ctags: Vec<Vec<(usize, u64, u64)>>,
    pub eof_flag: bool,
    pub panicked: bool,
    /// the adaptive flush ran out of iterations: the block never settled
    pub exhausted: bool,
    /// `eof()` was asked after every wait verdict, as both runners do before retiring a block: the first call
    /// after which it answered true, with the number of items delivered per output up to then
    pub eof_true_at: Option<(usize, Vec<usize>)>,
    /// items delivered per output over the whole run
    pub produced_total: Vec<usize>,
}

/// Run the schedule on the real block; returns the observed trace (same format as the model's).
pub fn run_case(rig: Rig, ins: &[InSpec], acts: &[Act]) -> String {
    run_case_full(rig, ins, acts, false).trace
}

/// Per-stream movement (consumed, produced) seen by the hook since the last reset.
static MOVES: std::sync::Mutex<Vec<(usize, usize, usize)>> = std::sync::Mutex::new(Vec::new());

fn install_move_counter() {
    verif::set_callback(Some(std::sync::Arc::new(|id, a, b| {
        let (c, p) = match id {
            verif::pt::CONSUME_RETURN | verif::pt::NC_POP => (a, 0),
            verif::pt::PRODUCE_RETURN | verif::pt::NC_PUSH => (0, a),
            _ => return,
        };
        let mut m = MOVES.lock().unwrap();
        if let Some(e) = m.iter_mut().find(|e| e.0 == b) {
            e.1 += c;
            e.2 += p;
        } else {
            m.push((b, c, p));
        }
    })));
}

fn moves_of(id: usize) -> (usize, usize) {
    MOVES.lock().unwrap().iter().find(|e| e.0 == id).map(|e| (e.1, e.2)).unwrap_or((0, 0))
}

pub fn run_case_full(mut rig: Rig, ins: &[InSpec], acts: &[Act], adaptive_flush: bool) -> RunOut {
    install_move_counter();
    // what the harness itself believes is queued on each input / output
    let mut in_used: Vec<usize> = vec![0; rig.ins.len()];
    let mut out_used: Vec<usize> = vec![0; rig.outs.len()];
    let mut calls: Vec<CallRec> = Vec::new();
    let mut closed = vec![false; rig.ins.len()];
    let data: Vec<Vec<u64>> = ins.iter().map(|i| i.fixed.clone().unwrap_or_else(|| gen_data(i.len, i.seed, i.m, &i.tbl))).collect();
    let mut fed = vec![0usize; ins.len()];
    let mut pkt_next = vec![0usize; ins.len()];
    let mut collected: Vec<Vec<u64>> = vec![vec![]; rig.outs.len()];
    let mut ctags: Vec<Vec<(usize, u64, u64)>> = vec![vec![]; rig.outs.len()];
    let mut trace: Vec<String> = Vec::new();
    let mut dead = false;
    let mut panicked = false;
    let mut errored = false;
    let mut acts: Vec<Act> = acts.to_vec();
    let mut pc = 0usize;
    // a block without inputs never runs dry: a few rounds, and the caller compares prefixes
    let no_inputs = rig.ins.is_empty();
    let mut flush_left = if !adaptive_flush { 0 } else if no_inputs { 6 } else { 20_000usize };
    let mut flush_prev: Option<(Vec<usize>, Vec<usize>, usize)> = None;
    let mut eof_true_at: Option<(usize, Vec<usize>)> = None;
    let mut produced_total: Vec<usize> = vec![0; rig.outs.len()];
    while pc < acts.len() || flush_left > 0 {
        if pc >= acts.len() {
            // adaptive flush: keep the block running until it has nothing left to do
            flush_left -= 1;
            let last = calls.last().map(|c| c.verdict.clone()).unwrap_or_default();
            let all_closed = closed.iter().all(|c| *c);
            let data_left = (0..ins.len()).any(|j| fed[j] < data[j].len());
            if dead || errored || last == "E" {
                break;
            }
            let last_moved = calls
                .last()
                .map(|c| c.consumed.iter().chain(c.produced.iter()).any(|x| *x > 0))
                .unwrap_or(true);
            // quiescent: the previous round (feed, work, drain) changed nothing at all
            let snapshot = (fed.clone(), collected.iter().map(|c| c.len()).collect::<Vec<_>>(), calls.len());
            let quiet_round = flush_prev.as_ref().map(|p| p.0 == snapshot.0 && p.1 == snapshot.1).unwrap_or(false);
            flush_prev = Some(snapshot);
            if all_closed && !last.starts_with('A') && !last.is_empty() && !last_moved && quiet_round {
                break;
            }
            if !all_closed && quiet_round && !last_moved && !last.is_empty() {
                // stalled with inputs still open (e.g. one input of a two-input block ran dry): end the inputs
                for j in 0..rig.ins.len() {
                    if !closed[j] {
                        acts.push(Act::Close(j));
                    }
                }
            }
            for j in 0..rig.ins.len() {
                if !closed[j] {
                    acts.push(Act::Feed(j, FLUSH_PIECE.load(std::sync::atomic::Ordering::SeqCst)));
                }
            }
            if !data_left && in_used.iter().all(|u| *u == 0) || (!data_left && !last.starts_with('A') && !last.is_empty()) {
                for j in 0..rig.ins.len() {
                    if !closed[j] {
                        acts.push(Act::Close(j));
                    }
                }
            }
            acts.push(Act::Work);
            for j in 0..rig.outs.len() {
                acts.push(Act::Drain(j, 1_000_000));
            }
            continue;
        }
        let a = &acts[pc].clone();
        pc += 1;
        match *a {
            Act::Feed(j, k) => {
                if j >= rig.ins.len() {
                    continue;
                }
                if rig.ins[j].cap() == PKT_CAP {
                    for _ in 0..k {
                        if pkt_next[j] >= ins[j].pkts.len() {
                            break;
                        }
                        let n = ins[j].pkts[pkt_next[j]].min(data[j].len() - fed[j]);
                        rig.ins[j].push(&data[j][fed[j]..fed[j] + n], &[]);
                        fed[j] += n;
                        pkt_next[j] += 1;
                        in_used[j] += 1;
                    }
                    continue;
                }
                let n = k.min(rig.ins[j].free()).min(data[j].len() - fed[j]);
                let vals = &data[j][fed[j]..fed[j] + n];
                let tags: Vec<(usize, u64, u64)> = ins[j]
                    .tags
                    .iter()
                    .filter(|t| t.0 >= fed[j] && t.0 < fed[j] + n)
                    .map(|t| (t.0 - fed[j], t.1, t.2))
                    .collect();
                rig.ins[j].push(vals, &tags);
                fed[j] += n;
                in_used[j] += n;
            }
            Act::Drain(j, k) => {
                if j >= rig.outs.len() {
                    continue;
                }
                let base = collected[j].len();
                let before = rig.outs[j].len();
                let (vals, ts) = rig.outs[j].drain(k);
                out_used[j] -= (before - rig.outs[j].len()).min(out_used[j]);
                collected[j].extend(vals);
                ctags[j].extend(ts.into_iter().map(|(p, k, v)| (base + p, k, v)));
            }
            Act::Close(j) => {
                if j < rig.ins.len() {
                    rig.ins[j].close();
                    closed[j] = true;
                }
            }
            Act::DropOut(j) => {
                if j < rig.outs.len() {
                    rig.outs[j].drop_reader();
                }
            }
            Act::Poke(k) => {
                POKE.lock().unwrap().push(k);
            }
            Act::Work => {
                if dead || errored {
                    trace.push("W:dead".into());
                    continue;
                }
                MOVES.lock().unwrap().clear();
                let in_ids: Vec<usize> = rig.ins.iter().map(|i| i.id()).collect();
                let out_ids: Vec<usize> = rig.outs.iter().map(|o| o.id()).collect();
                let block = &mut rig.block;
                let res = quiet(move || {
                    let r = block.work();
                    match r {
                        Ok(BlockRet::Again) => "A".to_string(),
                        Ok(BlockRet::Pending) => "P".to_string(),
                        Ok(BlockRet::WaitForFunc(_)) => "Fn".to_string(),
                        Ok(BlockRet::EOF) => "E".to_string(),
                        Ok(BlockRet::WaitForStream(s, need)) => {
                            let id = s.verif_id();
                            if let Some(k) = in_ids.iter().position(|x| *x == id) {
                                format!("I{k},{need}")
                            } else if let Some(k) = out_ids.iter().position(|x| *x == id) {
                                format!("O{k},{need}")
                            } else {
                                format!("?{need}")
                            }
                        }
                        Err(_) => "ERR".to_string(),
                    }
                });
                let v = match res {
                    Ok(v) => v,
                    Err(_) => {
                        dead = true;
                        panicked = true;
                        "PANIC".to_string()
                    }
                };
                if v == "ERR" {
                    // a runner stops the graph on an error: nothing is called after it
                    errored = true;
                }
                if dead {
                    // streams may be poisoned; report no movement, like the model
                    let z: Vec<String> = rig.ins.iter().map(|_| "0".to_string()).collect();
                    let zo: Vec<String> = rig.outs.iter().map(|_| "0".to_string()).collect();
                    trace.push(format!("W:{v}:{}:{}", z.join(","), zo.join(",")));
                    continue;
                }
                let consumed_n: Vec<usize> = rig.ins.iter().map(|i| moves_of(i.id()).0).collect();
                let produced_n: Vec<usize> = rig
                    .outs
                    .iter_mut()
                    .map(|o| match o.after_work() {
                        Some(n) => n,
                        None => moves_of(o.id()).1,
                    })
                    .collect();
                for (j, c) in consumed_n.iter().enumerate() {
                    in_used[j] -= (*c).min(in_used[j]);
                }
                for (j, p) in produced_n.iter().enumerate() {
                    out_used[j] += *p;
                    produced_total[j] += *p;
                }
                // what Graph and MTGraph ask after a wait verdict; "true" retires the block
                let said_eof = if v.starts_with('I') || v.starts_with('O') || v == "Fn" {
                    let block = &mut rig.block;
                    quiet(move || block.eof()).unwrap_or(false)
                } else {
                    false
                };
                // the other way a runner retires a block: the wait verdict names a stream whose peer is gone and
                // which cannot satisfy the request any more (`stream.wait(need)` = true, `stream.closed()`)
                let never = match v.strip_prefix('I').and_then(|r| r.split_once(',')) {
                    Some((k, need)) => match (k.parse::<usize>(), need.parse::<usize>()) {
                        (Ok(k), Ok(need)) => k < closed.len() && closed[k] && in_used[k] < need,
                        _ => false,
                    },
                    None => false,
                };
                if (said_eof || never) && eof_true_at.is_none() {
                    eof_true_at = Some((calls.len(), produced_total.clone()));
                }
                let consumed: Vec<String> = consumed_n.iter().map(|c| c.to_string()).collect();
                let produced: Vec<String> = produced_n.iter().map(|c| c.to_string()).collect();
                trace.push(format!("W:{v}:{}:{}{}", consumed.join(","), produced.join(","), if said_eof { ":e" } else { "" }));
                calls.push(CallRec {
                    verdict: v,
                    consumed: consumed.iter().map(|c| c.parse().unwrap_or(usize::MAX)).collect(),
                    produced: produced.iter().map(|c| c.parse().unwrap_or(usize::MAX)).collect(),
                    avail_after: in_used.clone(),
                    free_after: rig.outs.iter().zip(&out_used).map(|(o, u)| o.cap() - (*u).min(o.cap())).collect(),
                    closed: closed.clone(),
                });
            }
        }
    }
    let eof_flag = if dead { false } else { quiet(|| rig.block.eof()).unwrap_or(false) };
    let _ = errored;
    verif::set_callback(None);
    let outs: Vec<String> = (0..rig.outs.len())
        .map(|j| {
            let ts: Vec<String> = ctags[j].iter().map(|(p, k, v)| format!("{p},{k},{v}")).collect();
            format!(
                "O{j}:{}:{}:[{}]",
                collected[j].len(),
                hash_list(collected[j].iter().map(|v| *v as u128)),
                ts.join(" ")
            )
        })
        .collect();
    RunOut {
        trace: format!("{} ; {}", trace.join(" "), outs.join(" ")),
        calls,
        collected,
        ctags,
        eof_flag,
        panicked,
        exhausted: adaptive_flush && flush_left == 0 && !no_inputs,
        eof_true_at,
        produced_total,
    }
}

/// The greedy (near one-shot) schedule: feed all that fits, work until it stops moving, drain all.
pub fn greedy_schedule(nin: usize, nout: usize, _in_lens: &[usize]) -> Vec<Act> {
    // the adaptive flush of `run_case_full` does the rest: feed all, work, drain all, until done
    let mut acts = Vec::new();
    for j in 0..nin {
        acts.push(Act::Feed(j, 1_000_000));
    }
    acts.push(Act::Work);
    for j in 0..nout {
        acts.push(Act::Drain(j, 1_000_000));
    }
    acts
}

/// C09 on a real trace, no model involved. Returns the first broken rule.
pub fn c09_accept(run: &RunOut, final_calls: usize) -> Result<(), String> {
    if run.panicked {
        return Err("panic".into());
    }
    let mut idle_again = 0;
    for (i, c) in run.calls.iter().enumerate() {
        let moved = c.consumed.iter().any(|x| *x > 0) || c.produced.iter().any(|x| *x > 0);
        if c.consumed.iter().chain(c.produced.iter()).any(|x| *x == usize::MAX) {
            return Err(format!("call {i}: stream went backwards"));
        }
        if c.verdict == "A" && !moved {
            idle_again += 1;
            if idle_again > 3 {
                return Err(format!("call {i}: {idle_again} consecutive 'Again' without consuming or producing"));
            }
        } else {
            idle_again = 0;
        }
        if let Some(rest) = c.verdict.strip_prefix('I') {
            let mut it = rest.split(',');
            let k: usize = it.next().unwrap().parse().unwrap();
            let need: usize = it.next().unwrap().parse().unwrap();
            if c.avail_after[k] >= need {
                return Err(format!("call {i}: waits for {need} on input {k} which has {}", c.avail_after[k]));
            }
        } else if let Some(rest) = c.verdict.strip_prefix('O') {
            let mut it = rest.split(',');
            let k: usize = it.next().unwrap().parse().unwrap();
            let need: usize = it.next().unwrap().parse().unwrap();
            if c.free_after[k] >= need {
                return Err(format!("call {i}: waits for {need} free on output {k} which has {}", c.free_after[k]));
            }
        } else if c.verdict.starts_with('?') {
            return Err(format!("call {i}: waits on a stream that is not one of the block's"));
        }
    }
    // retirement: once the inputs have ended and are drained the block must let the runner retire it
    if final_calls > 0 && !run.calls.is_empty() {
        let last = run.calls.last().unwrap();
        let all_closed = !last.closed.is_empty() && last.closed.iter().all(|c| *c);
        if all_closed {
            let ok = last.verdict == "E"
                || run.eof_flag
                || last
                    .verdict
                    .strip_prefix('I')
                    .map(|r| {
                        let k: usize = r.split(',').next().unwrap().parse().unwrap();
                        last.closed[k]
                    })
                    .unwrap_or(false);
            if !ok {
                return Err(format!("inputs ended but the last verdict is {} and eof() is false", last.verdict));
            }
        }
    }
    Ok(())
}

/// An adversarial schedule: small feeds, small drains, output left full, big bursts, then a flush.
pub fn gen_schedule(rng: &mut Rng, nin: usize, nout: usize, in_lens: &[usize], out_cap: usize, steps: usize) -> Vec<Act> {
    gen_schedule_opt(rng, nin, nout, in_lens, out_cap, steps, true)
}

pub fn gen_schedule_opt(rng: &mut Rng, nin: usize, nout: usize, in_lens: &[usize], out_cap: usize, steps: usize, with_flush: bool) -> Vec<Act> {
    let mut acts = Vec::new();
    let style = rng.below(5);
    for _ in 0..steps {
        match rng.below(10) {
            0..=3 => {
                let j = rng.below(nin.max(1));
                if nin > 0 {
                    let k = match style {
                        0 => rng.range(1, 3),
                        1 => rng.range(1, 40),
                        2 => rng.range(0, 5000),
                        _ => *rng.pick(&[1usize, 2, 7, 64, 1000, 5000]),
                    };
                    acts.push(Act::Feed(j, k));
                }
            }
            4..=5 => {
                if nout > 0 {
                    let j = rng.below(nout);
                    let k = match style {
                        0 => rng.range(0, 2),
                        1 => rng.range(0, 20),
                        3 => 0,
                        _ => *rng.pick(&[0usize, 1, 3, 50, 5000]),
                    };
                    acts.push(Act::Drain(j, k));
                }
            }
            _ => acts.push(Act::Work),
        }
    }
    if !with_flush {
        return acts;
    }
    // flush: feed everything, drain everything, repeatedly; then close inputs and finish.
    let total: usize = in_lens.iter().copied().max().unwrap_or(0);
    let rounds = 6 + total / (out_cap.max(1) / 4).max(1) + total / 512;
    for _ in 0..rounds.min(200) {
        for j in 0..nin {
            acts.push(Act::Feed(j, 100_000));
        }
        acts.push(Act::Work);
        acts.push(Act::Work);
        for j in 0..nout {
            acts.push(Act::Drain(j, 100_000));
        }
    }
    for j in 0..nin {
        acts.push(Act::Close(j));
    }
    for _ in 0..4 {
        acts.push(Act::Work);
        for j in 0..nout {
            acts.push(Act::Drain(j, 100_000));
        }
    }
    acts
}

pub fn gen_tags(rng: &mut Rng, len: usize, heavy: bool) -> Vec<(usize, u64, u64)> {
    if len == 0 || (!heavy && rng.chance(1, 2)) {
        return vec![];
    }
    let n = if heavy { rng.range(1, 12) } else { rng.range(0, 4) };
    let mut v: Vec<(usize, u64, u64)> = (0..n)
        .map(|_| {
            let pos = match rng.below(5) {
                0 => 0,
                1 => len - 1,
                2 => rng.below(len.min(8)),
                _ => rng.below(len),
            };
            (pos, rng.below(4) as u64, rng.below(1000) as u64)
        })
        .collect();
    // the same marker (equal key and value) on a neighbouring sample, as a detector firing twice does: derived
    // from the tags drawn above, no further random draw
    if let Some(t) = v.first().copied() {
        if t.2 % 2 == 0 {
            v.push(((t.0 + 1 + (t.2 % 3) as usize).min(len - 1), t.1, t.2));
        }
    }
    if let Some(t) = v.last().copied() {
        if t.2 % 3 == 0 {
            v.push((t.0.saturating_sub(1 + (t.2 % 2) as usize), t.1, t.2));
        }
    }
    // the stream keeps tags of one sample in commit order; feed order = this order
    v.sort_by_key(|t| t.0);
    v
}

/// Burst markers for StreamToPdu: boolean tags with key code 100, mostly alternating start/end,
/// sometimes doubled, missing or on the same sample, plus unrelated tags.
pub fn gen_burst_tags(rng: &mut Rng, len: usize) -> Vec<(usize, u64, u64)> {
    gen_burst_tags_for(rng, len, None)
}

/// `limits` = (max_size, tail) of the StreamToPdu under test: a third of the inputs then consist of clean bursts
/// whose length (with and without the tail) sits right at the size limit, where the discard and the tail
/// countdown meet.
pub fn gen_burst_tags_for(rng: &mut Rng, len: usize, limits: Option<(usize, usize)>) -> Vec<(usize, u64, u64)> {
    let mut v: Vec<(usize, u64, u64)> = vec![];
    if len == 0 {
        return v;
    }
    if let Some((max, tail)) = limits {
        if rng.chance(1, 2) {
            let mut pos = rng.below(len.min(20));
            while pos < len {
                // burst + tail = max_size + 2 - r: most often exactly one more than fits (r = 1)
                let r = *rng.pick(&[1usize, 1, 1, 1, 0, 2, 3, 4]);
                let on_len = (max + 2).saturating_sub(tail + r).max(1);
                v.push((pos, 100, 1));
                if pos + on_len < len {
                    v.push((pos + on_len, 100, 0));
                }
                pos += on_len + tail + rng.range(1, 6);
            }
            v.sort_by_key(|t| t.0);
            return v;
        }
    }
    let mut pos = rng.below(len.min(40));
    let mut on = rng.chance(1, 8);
    while pos < len {
        let val = if rng.chance(1, 10) { on as u64 } else { !on as u64 };
        v.push((pos, 100, val));
        if rng.chance(1, 12) {
            v.push((pos, 100, rng.below(2) as u64));
        }
        if rng.chance(1, 6) {
            v.push((pos, rng.below(4) as u64, rng.below(1000) as u64));
        }
        on = val == 1;
        pos += match rng.below(4) {
            0 => rng.range(0, 3),
            1 => rng.range(1, 10),
            _ => rng.range(1, 120),
        };
    }
    v.sort_by_key(|t| t.0);
    v
}

// ---------------------------------------------------------------- packet ports

use rustradio::stream::{NCReadStream, NCWriteStream, new_nocopy_stream};

pub const PKT_CAP: usize = 1 << 40;

/// Packet input: `Feed(j, k)` pushes ONE packet with the next `k` samples.
pub struct PktFeeder<T: Elem> {
    w: Option<NCWriteStream<Vec<T>>>,
    id: usize,
}
impl<T: Elem> InPort for PktFeeder<T> {
    fn id(&self) -> usize {
        self.id
    }
    fn free(&self) -> usize {
        // reported as cap - queued packets, so that `consumed` = packets popped
        PKT_CAP - self.w.as_ref().map(|w| w.verif_len()).unwrap_or(0)
    }
    fn cap(&self) -> usize {
        PKT_CAP
    }
    fn push(&mut self, vals: &[u64], _tags: &[(usize, u64, u64)]) {
        if let Some(w) = &self.w {
            w.push(vals.iter().map(|v| T::from_nat(*v as u128)).collect(), &[]);
        }
    }
    fn close(&mut self) {
        self.w = None;
    }
    fn advance(&mut self, _k: usize) {}
}

/// Packet output: `Drain(j, k)` pops up to `k` packets; a packet is collected as one value, the hash of `len, items…`.
pub struct PktDrainer<T: Elem> {
    r: Option<NCReadStream<Vec<T>>>,
    id: usize,
}
impl<T: Elem> OutPort for PktDrainer<T> {
    fn id(&self) -> usize {
        self.id
    }
    fn len(&self) -> usize {
        self.r.as_ref().map(|r| r.verif_len()).unwrap_or(0)
    }
    fn cap(&self) -> usize {
        PKT_CAP
    }
    fn drain(&mut self, k: usize) -> (Vec<u64>, Vec<(usize, u64, u64)>) {
        let mut out = vec![];
        if let Some(r) = &self.r {
            for _ in 0..k {
                match r.pop() {
                    Some((p, _)) => {
                        // one value per packet: the hash of `len, items…` (same as `RR.Blk.pktCode`)
                        let code = hash_list(std::iter::once(p.len() as u128).chain(p.iter().map(|v| v.to_obs())));
                        out.push(code as u64);
                    }
                    None => break,
                }
            }
        }
        (out, vec![])
    }
    fn drop_reader(&mut self) {
        self.r = None;
    }
    fn advance(&mut self, _k: usize) {}
}

pub fn pkt_feeder<T: Elem>() -> (Box<PktFeeder<T>>, NCReadStream<Vec<T>>) {
    let (w, r) = new_nocopy_stream::<Vec<T>>();
    let id = StreamWait::verif_id(&w);
    (Box::new(PktFeeder { w: Some(w), id }), r)
}

pub fn pkt_drainer<T: Elem>(r: NCReadStream<Vec<T>>) -> Box<PktDrainer<T>> {
    let id = StreamWait::verif_id(&r);
    Box::new(PktDrainer { r: Some(r), id })
}

/// The storage of a `VectorSink` presented as an output: `Drain` hands over what was stored since the last
/// drain. Stored tag positions are relative to the read window of the call that stored them; they are
/// re-based to positions in the storage (samples stored before that call + position), and a tag beyond the
/// stored samples (only possible in the call that fills the sink) is not reported.
pub struct HookOut {
    pub hook: rustradio::vector_sink::Hook<u8>,
    taken: usize,
    seen_s: usize,
    seen_t: usize,
    tags: Vec<(usize, u64, u64)>,
}
pub fn hook_out(hook: rustradio::vector_sink::Hook<u8>) -> Box<HookOut> {
    Box::new(HookOut { hook, taken: 0, seen_s: 0, seen_t: 0, tags: vec![] })
}
impl OutPort for HookOut {
    fn id(&self) -> usize {
        usize::MAX - 77
    }
    fn len(&self) -> usize {
        self.seen_s - self.taken
    }
    fn cap(&self) -> usize {
        PKT_CAP
    }
    fn drain(&mut self, k: usize) -> (Vec<u64>, Vec<(usize, u64, u64)>) {
        let d = self.hook.data();
        let n = k.min(self.seen_s - self.taken);
        let vals: Vec<u64> = d.samples()[self.taken..self.taken + n].iter().map(|v| *v as u64).collect();
        let (lo, hi) = (self.taken, self.taken + n);
        let ts = self.tags.iter().filter(|t| t.0 >= lo && t.0 < hi).map(|t| (t.0 - lo, t.1, t.2)).collect();
        self.taken += n;
        (vals, ts)
    }
    fn drop_reader(&mut self) {}
    fn advance(&mut self, _k: usize) {}
    fn after_work(&mut self) -> Option<usize> {
        let d = self.hook.data();
        let now = d.samples().len();
        for t in &d.tags()[self.seen_t..] {
            let abs = self.seen_s + t.pos();
            if abs < now {
                let (k, v) = tag_code(t);
                self.tags.push((abs, k, v));
            }
        }
        self.seen_t = d.tags().len();
        let added = now - self.seen_s;
        self.seen_s = now;
        Some(added)
    }
}
