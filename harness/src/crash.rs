//! C15: hostile content. Every block that accepts external data is fed NaNs,
//! infinities, arbitrary bytes where bits are expected, degenerate bursts,
//! mutated AU headers, broken SigMF metadata and archives. A panic, an abort or
//! a block that never settles is a violation; errors and dropped data are fine.
use crate::blocks::*;
use crate::common::*;
use crate::drip::*;
use rustradio::block::Block;
use rustradio::blocks::*;
use rustradio::stream::{new_nocopy_stream, new_stream};

const HOSTILE_F32: [u64; 12] = [
    0x7fc0_0000, 0xffc0_0001, 0x7f80_0000, 0xff80_0000, 0x7f7f_ffff, 0xff7f_ffff, 0x0000_0001, 0x8000_0000, 0,
    0x3f80_0000, 0xbf80_0000, 0x4f00_0000,
];

fn hostile_alphabet(built: &crate::blocks::Built, j: usize, rng: &mut Rng) -> (u64, Vec<u64>) {
    let (m, tbl) = &built.alphabets[j];
    if !tbl.is_empty() {
        // float or complex table: replace by specials (complex: pairs of specials)
        if tbl.iter().any(|v| *v > u32::MAX as u64) {
            (0, (0..16).map(|_| *rng.pick(&HOSTILE_F32) | (*rng.pick(&HOSTILE_F32) << 32)).collect())
        } else {
            (0, HOSTILE_F32.to_vec())
        }
    } else if *m <= 4 {
        (256, vec![]) // arbitrary bytes where bits are expected
    } else {
        (*m, vec![])
    }
}

fn hostile_block(name: &str, rng: &mut Rng) -> String {
    let built = build(name, rng);
    let nin = built.rig.ins.len();
    let nout = built.rig.outs.len();
    let ins: Vec<InSpec> = (0..nin)
        .map(|j| {
            let (m, tbl) = hostile_alphabet(&built, j, rng);
            let len = rng.range(0, 2500);
            let mut pkts = vec![];
            if built.rig.ins[j].cap() == PKT_CAP {
                let mut left = len;
                while left > 0 {
                    let k = (*rng.pick(&[0usize, 1, 2, 3, 4, 5, 6, 7, 8, 50, 300])).min(left).max(if rng.chance(1, 5) { 0 } else { 1 });
                    pkts.push(k);
                    left -= k.min(left);
                    if k == 0 && rng.chance(1, 2) {
                        break;
                    }
                }
            }
            // burst markers for StreamToPdu (degenerate bursts: at the size limit, with the tail ending on it)
            let tags = if built.name == "s2pdu" {
                gen_burst_tags_for(rng, len, Some((built.params[1] as usize, built.params[2] as usize)))
            } else {
                gen_tags(rng, len, false)
            };
            InSpec { pkts, len, seed: rng.next() >> 8, m, tbl, tags, fixed: None }
        })
        .collect();
    let lens: Vec<usize> = ins.iter().map(|i| i.len).collect();
    let acts = gen_schedule_opt(rng, nin, nout, &lens, 1024, 30, false);
    let id = format!("{name} {:?} lens={lens:?}", built.params);
    let run = run_case_full(built.rig, &ins, &acts, true);
    let v = if run.panicked {
        "FAIL panic".to_string()
    } else if run.exhausted {
        "FAIL never settled (20000 calls)".to_string()
    } else {
        "pass".to_string()
    };
    format!("!crash block {id}\t{v}\t{}", if v == "pass" { String::new() } else { format!("{name}-crash") })
}

/// AU streams with mutated headers, fed in random chunks; compared with the Lean decoder.
fn au_case(rng: &mut Rng) -> String {
    let mut h: Vec<u8> = vec![];
    let magic: u32 = if rng.chance(1, 8) { rng.next() as u32 } else { 0x2e736e64 };
    let off: u32 = match rng.below(6) {
        0 => rng.below(24) as u32,
        1 => 24,
        2 => 28,
        3 => rng.range(24, 60) as u32,
        4 => rng.next() as u32,
        _ => 28,
    };
    let enc: u32 = if rng.chance(1, 6) { rng.below(8) as u32 } else { 3 };
    let rate: u32 = if rng.chance(1, 6) { rng.next() as u32 } else { 48000 };
    let ch: u32 = if rng.chance(1, 6) { rng.below(4) as u32 } else { 1 };
    h.extend(magic.to_be_bytes());
    h.extend(off.to_be_bytes());
    // data size: not used by the decoder; unknown, random, small and odd values
    let size_field = match rng.below(4) {
        0 => 0xffff_ffffu32,
        1 => rng.next() as u32,
        _ => *rng.pick(&[0u32, 1, 2, 3, 5, 7, 9, 20, 33]),
    };
    h.extend(size_field.to_be_bytes());
    h.extend(enc.to_be_bytes());
    h.extend(rate.to_be_bytes());
    h.extend(ch.to_be_bytes());
    let total = rng.range(0, 120);
    let mut bytes = h;
    bytes.truncate(total.min(bytes.len()));
    while bytes.len() < total {
        bytes.push(rng.below(256) as u8);
    }
    // real decoder, random chunks
    let (w, r) = new_stream::<u8>();
    let (mut dec, o) = AuDecode::new(r, 48000);
    let mut got: Vec<f32> = vec![];
    let mut pos = 0;
    let mut err: Option<String> = None;
    let res = quiet(|| {
        let mut idle = 0;
        while idle < 4 && err.is_none() {
            if pos < bytes.len() {
                let mut wb = w.write_buf().unwrap();
                let k = (bytes.len() - pos).min(rng.range(1, 40)).min(wb.len());
                wb.slice()[..k].copy_from_slice(&bytes[pos..pos + k]);
                wb.produce(k, &[]);
                pos += k;
            } else {
                idle += 1;
            }
            for _ in 0..3 {
                if let Err(e) = dec.work() {
                    err = Some(e.to_string());
                    break;
                }
            }
            let (rb, _) = o.read_buf().unwrap();
            got.extend(rb.slice().iter().copied());
            let n = rb.len();
            rb.consume(n);
        }
    });
    let obs = match (res, &err) {
        (Err(p), _) => format!("panic {p}"),
        (_, Some(e)) => {
            let kind = if e.contains("magic") {
                "magic"
            } else if e.contains("offset") {
                "offset"
            } else if e.contains("encoding") {
                "encoding"
            } else if e.contains("bitrate") {
                "bitrate"
            } else if e.contains("channel") {
                "channels"
            } else {
                "other"
            };
            format!("err {kind}")
        }
        (_, None) => {
            // decoded samples as 16-bit patterns
            let pats: Vec<u128> = got.iter().map(|x| ((x * 32767.0).round() as i32 as i16 as u16) as u128).collect();
            // "wait" (header incomplete) and "ok 0" cannot be told apart from outside: report what the stream shows
            let header_done = bytes.len() >= 8 && (off as usize) <= bytes.len() && off >= 24;
            if !header_done { "wait".to_string() } else { format!("ok {} {}", pats.len(), hash_list(pats)) }
        }
    };
    let req = format!("audec 48000 {}", bytes.iter().map(|b| b.to_string()).collect::<Vec<_>>().join(" "));
    format!("{req}\t{obs}")
}

/// Well-formed SigMF metadata whose numeric fields (every documented one: sample_start, global_index,
/// header_bytes, sample_count, sample_rate, num_channels, frequencies) take boundary and absurd values relative
/// to the size of the data: building the source and playing it (twice) must give data or an error, never a panic.
fn sigmf_extreme(rng: &mut Rng, idx: usize, dir: &std::path::Path, kind: usize) -> String {
    let dlen = *rng.pick(&[0usize, 1, 7, 64, 1000]);
    let data: Vec<u8> = (0..dlen).map(|_| rng.below(256) as u8).collect();
    let ints = [0u64, 1, dlen.saturating_sub(1) as u64, dlen as u64, dlen as u64 + 1, 1 << 31, 1 << 32, 1 << 63, u64::MAX];
    let floats = ["0.0", "-1.0", "1e300", "1e-300", "48000.0", "-0.0"];
    let mut int = |rng: &mut Rng| ints[rng.below(ints.len())].to_string();
    let mut caps = vec![];
    for _ in 0..rng.below(4) {
        let mut f = vec![format!("\"core:sample_start\": {}", int(rng))];
        if rng.chance(1, 2) {
            f.push(format!("\"core:global_index\": {}", int(rng)));
        }
        if rng.chance(2, 3) {
            f.push(format!("\"core:header_bytes\": {}", int(rng)));
        }
        if rng.chance(1, 2) {
            f.push(format!("\"core:frequency\": {}", floats[rng.below(floats.len())]));
        }
        caps.push(format!("{{{}}}", f.join(", ")));
    }
    let mut anns = vec![];
    for _ in 0..rng.below(3) {
        let mut f = vec![format!("\"core:sample_start\": {}", int(rng))];
        if rng.chance(2, 3) {
            f.push(format!("\"core:sample_count\": {}", int(rng)));
        }
        if rng.chance(1, 2) {
            f.push(format!("\"core:freq_lower_edge\": {}", floats[rng.below(floats.len())]));
            f.push(format!("\"core:freq_upper_edge\": {}", floats[rng.below(floats.len())]));
        }
        anns.push(format!("{{{}}}", f.join(", ")));
    }
    // the datatype string is untrusted text too: empty, shorter than its suffix, multi-byte characters at the
    // places where a parser might cut it, wrong type, very long
    let dts = ["ru8_le", "ru8_le", "ru8_le", "", "r", "cf", "le", "_le", "ru8", "ru8_l", "cf32_le", "ri16_be", "ru8_l\u{e9}",
        "r\u{20ac}", "\u{20ac}\u{20ac}", "\u{e9}le", "ru8_le_and_a_lot_more_text_than_any_datatype_has", "RU8_LE", "ru8-le", "ci8"];
    // (three quarters of the cases keep the valid datatype, so that the other fields are reached)
    let dt = if rng.chance(1, 4) { dts[rng.below(dts.len())] } else { "ru8_le" };
    let mut glob = vec![format!("\"core:datatype\": \"{dt}\""), "\"core:version\": \"1.1.0\"".to_string()];
    if rng.chance(1, 2) {
        glob.push(format!("\"core:sample_rate\": {}", floats[rng.below(floats.len())]));
    }
    if rng.chance(1, 2) {
        glob.push(format!("\"core:num_channels\": {}", int(rng)));
    }
    let meta = format!("{{\"global\": {{{}}}, \"captures\": [{}], \"annotations\": [{}]}}", glob.join(", "), caps.join(", "), anns.join(", "));
    let path = if kind == 5 {
        let base = dir.join(format!("ext{idx}"));
        std::fs::write(dir.join(format!("ext{idx}-meta")), meta.as_bytes()).unwrap();
        std::fs::write(dir.join(format!("ext{idx}-data")), &data).unwrap();
        base
    } else {
        let path = dir.join(format!("ext{idx}.sigmf"));
        let f = std::fs::File::create(&path).unwrap();
        let mut b = tar::Builder::new(f);
        for (name, content) in [("r.sigmf-meta", meta.as_bytes()), ("r.sigmf-data", &data[..])] {
            let mut h = tar::Header::new_gnu();
            h.set_size(content.len() as u64);
            h.set_mode(0o644);
            h.set_cksum();
            b.append_data(&mut h, name, content).unwrap();
        }
        b.finish().unwrap();
        path
    };
    let r = quiet(|| {
        match SigMFSourceBuilder::<u8>::new(path.clone()).repeat(rustradio::Repeat::finite(2)).build() {
            Err(_) => {}
            Ok((mut b, o)) => {
                for _ in 0..50 {
                    if b.work().is_err() {
                        break;
                    }
                    let (rb, _) = o.read_buf().unwrap();
                    let n = rb.len();
                    rb.consume(n);
                }
            }
        }
    });
    format!(
        "!crash sigmf #{idx} kind={kind} meta={meta}\t{}",
        if r.is_ok() { "pass".to_string() } else { format!("FAIL panic: {}", r.unwrap_err()) }
    )
}

fn sigmf_bad(rng: &mut Rng, idx: usize, dir: &std::path::Path) -> String {
    let path = dir.join(format!("bad{idx}.sigmf"));
    let kind = rng.below(7);
    if kind >= 5 {
        return sigmf_extreme(rng, idx, dir, kind);
    }
    let metas: [&[u8]; 5] = [
        b"",
        b"{",
        b"{\"global\": 7}",
        b"{\"global\": {\"core:datatype\": \"ru8_le\"}}",
        b"\xff\xfe garbage",
    ];
    match kind {
        0 => std::fs::write(&path, (0..rng.range(0, 3000)).map(|_| rng.below(256) as u8).collect::<Vec<u8>>()).unwrap(),
        1 => std::fs::write(&path, b"").unwrap(),
        _ => {
            let f = std::fs::File::create(&path).unwrap();
            let mut b = tar::Builder::new(f);
            let meta = metas[rng.below(5)];
            let mut h = tar::Header::new_gnu();
            h.set_size(meta.len() as u64);
            h.set_mode(0o644);
            h.set_cksum();
            b.append_data(&mut h, "r.sigmf-meta", meta).unwrap();
            let data = vec![1u8; rng.range(0, 50)];
            let mut h = tar::Header::new_gnu();
            h.set_size(data.len() as u64);
            h.set_mode(0o644);
            h.set_cksum();
            b.append_data(&mut h, "r.sigmf-data", &data[..]).unwrap();
            b.finish().unwrap();
            if kind == 4 {
                // truncate the archive in the middle
                drop(b);
                let all = std::fs::read(&path).unwrap();
                std::fs::write(&path, &all[..rng.below(all.len().max(1))]).unwrap();
            }
        }
    }
    let r = quiet(|| {
        match SigMFSourceBuilder::<u8>::new(path.clone()).build() {
            Err(_) => {}
            Ok((mut b, o)) => {
                for _ in 0..50 {
                    if b.work().is_err() {
                        break;
                    }
                    let (rb, _) = o.read_buf().unwrap();
                    let n = rb.len();
                    rb.consume(n);
                }
            }
        }
    });
    format!("!crash sigmf #{idx} kind={kind}\t{}", if r.is_ok() { "pass".to_string() } else { format!("FAIL panic: {}", r.unwrap_err()) })
}

/// Every burst of length 0..=maxlen over a small hostile alphabet, through Midpointer and Wpcr.
fn bursts(maxlen: usize) -> Vec<String> {
    let alpha: [f32; 5] = [-1.0, 0.0, 1.0, f32::NAN, f32::INFINITY];
    let mut out = vec![];
    for which in ["midpointer", "wpcr"] {
        let mut bad: Option<String> = None;
        let mut n = 0u64;
        for len in 0..=maxlen {
            let total = 5usize.pow(len as u32);
            for code in 0..total {
                let mut c = code;
                let burst: Vec<f32> = (0..len)
                    .map(|_| {
                        let v = alpha[c % 5];
                        c /= 5;
                        v
                    })
                    .collect();
                n += 1;
                let b2 = burst.clone();
                let r = quiet(move || {
                    let (w, r) = new_nocopy_stream::<Vec<f32>>();
                    w.push(b2, &[]);
                    if which == "midpointer" {
                        let (mut b, o) = Midpointer::new(r);
                        let _ = b.work();
                        let _ = o.pop();
                    } else {
                        let (mut b, o) = WpcrBuilder::new(r).build();
                        let _ = b.work();
                        let _ = o.pop();
                    }
                });
                if r.is_err() && bad.is_none() {
                    bad = Some(format!("{burst:?}"));
                }
            }
        }
        out.push(format!(
            "!crash bursts {which} all bursts of length 0..={maxlen} over {{-1,0,1,NaN,inf}} ({n})\t{}\t{}",
            match &bad { None => "pass".to_string(), Some(b) => format!("FAIL panic on {b}") },
            if bad.is_none() { String::new() } else { format!("{which}-crash") }
        ));
    }
    out
}

pub fn run(args: &[String]) -> Vec<String> {
    let seed = arg_usize(args, "--seed", 1) as u64;
    let cases = arg_usize(args, "--cases", 300);
    let maxlen = arg_usize(args, "--burst-len", 5);
    let mut rng = Rng::new(seed);
    rustradio::verif::set_stream_size(4096);
    NO_OVERFLOW.store(true, std::sync::atomic::Ordering::SeqCst);
    let mut out = vec![];
    if arg(args, "--what").as_deref() == Some("au") {
        // only the AU decoder against its Lean model (used by C14: arbitrary byte segmentation)
        for _ in 0..cases {
            let mut r = rng.fork();
            out.push(au_case(&mut r));
        }
        return out;
    }
    if arg_usize(args, "--probes", 0) != 0 {
        out.extend(probes());
    }
    let names: Vec<&str> = SYNC_NAMES
        .iter()
        .chain(HAND_NAMES.iter())
        .copied()
        .filter(|n| !["addconst_int", "mulconst_int", "add_int"].contains(n))
        .collect();
    for i in 0..cases {
        let mut r = rng.fork();
        out.push(hostile_block(names[i % names.len()], &mut r));
    }
    // degenerate bursts for the burst-to-packet converter (at its size limit, tail ending on it): a fixed share
    for _ in 0..(cases / 12).max(8) {
        let mut r = rng.fork();
        out.push(hostile_block("s2pdu", &mut r));
    }
    for _ in 0..cases {
        let mut r = rng.fork();
        out.push(au_case(&mut r));
    }
    let dir = tempfile::tempdir().unwrap();
    for i in 0..cases / 5 {
        let mut r = rng.fork();
        out.push(sigmf_bad(&mut r, i, dir.path()));
    }
    out.extend(bursts(maxlen));
    let _ = new_stream::<u8>;
    out
}
